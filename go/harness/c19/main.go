//go:build verif

// Harness for C19 ("Query responses faithfully encode DuckDB's results").
//
// Three layers, all driving the REAL encoders of internal/api (exported by go/hooks/c19_api) and the
// msgpack fork arc links:
//  1. scalar / string / header ops (`jstr`, `jint`, `jf64`, `mp*`, `jenv`, `menv` …) whose output lines are
//     diffed against the Lean model (drive_c19): byte-level correspondence + Lean spec decoders vs
//     encoding/json and the msgpack library's decoder;
//  2. Arrow records built directly with arrow-go for every type arc can return, several batches, nulls in
//     every position -> JSON / MessagePack / Arrow IPC -> decoded by encoding/json, the msgpack library and
//     the arrow IPC reader -> per-cell monitors;
//  3. real DuckDB result sets (random SELECT expressions over range(N), several batches) through the real
//     HTTP endpoints, plus function-level governance row limits.
package main

import (
	"bufio"
	"bytes"
	"encoding/hex"
	"encoding/json"
	"fmt"
	"math"
	"math/big"
	"strconv"
	"strings"
	"time"
	"unicode/utf8"

	"github.com/Basekick-Labs/msgpack/v6"
	"github.com/apache/arrow-go/v18/arrow"
	"github.com/apache/arrow-go/v18/arrow/array"
	"github.com/apache/arrow-go/v18/arrow/decimal128"
	"github.com/basekick-labs/arc/internal/api"
	"github.com/basekick-labs/arc/internal/verif/vh"
)

func must(err error) {
	if err != nil {
		panic(err)
	}
}

func hx(b []byte) string {
	if len(b) == 0 {
		return "-"
	}
	return hex.EncodeToString(b)
}

func bsum(b []byte) uint32 {
	a := uint64(7)
	for _, x := range b {
		a = (a*31 + uint64(x)) % 4294967296
	}
	return uint32(a)
}

// ---------------------------------------------------------------- JSON scalar ops

func realJSONString(s string) []byte {
	var buf bytes.Buffer
	w := bufio.NewWriter(&buf)
	api.C19WriteJSONString(w, s)
	w.Flush()
	return buf.Bytes()
}

// loneSurrogate: does the JSON string text contain a \u escape that is an unpaired surrogate?
func loneSurrogate(b []byte) bool {
	for i := 0; i < len(b); i++ {
		if b[i] != '\\' {
			continue
		}
		if i+1 >= len(b) {
			return false
		}
		if b[i+1] != 'u' {
			i++
			continue
		}
		if i+6 > len(b) {
			return false
		}
		cp, err := strconv.ParseUint(string(b[i+2:i+6]), 16, 32)
		if err != nil {
			return false
		}
		if cp >= 0xDC00 && cp < 0xE000 {
			return true
		}
		if cp >= 0xD800 && cp < 0xDC00 {
			if i+12 > len(b) || b[i+6] != '\\' || b[i+7] != 'u' {
				return true
			}
			lo, err := strconv.ParseUint(string(b[i+8:i+12]), 16, 32)
			if err != nil || lo < 0xDC00 || lo >= 0xE000 {
				return true
			}
			i += 11
			continue
		}
		i += 5
	}
	return false
}

// goJSONStringDecode: encoding/json's reading of a complete JSON string text, strict about UTF-8
// (encoding/json silently replaces invalid UTF-8 and lone surrogates by U+FFFD: those count as "none").
func goJSONStringDecode(b []byte) string {
	if len(b) < 2 || b[0] != '"' || b[len(b)-1] != '"' || !utf8.Valid(b) || loneSurrogate(b) {
		return "none"
	}
	var s string
	if err := json.Unmarshal(b, &s); err != nil {
		return "none"
	}
	return hx([]byte(s))
}

func opJStr(c *vh.Ctx, s []byte) {
	out := realJSONString(string(s))
	c.Op("jstr "+hx(s), hx(out)+" dec="+goJSONStringDecode(out))
	// property monitor on the real writer: valid UTF-8 in => a JSON string that decodes to the same bytes
	if utf8.Valid(s) {
		var back string
		if err := json.Unmarshal(out, &back); err != nil || back != string(s) || !utf8.Valid(out) {
			c.Fail("json-cell-differs:utf8", fmt.Sprintf("writeJSONString(%q) = %q does not decode back", s, out), "format=json type=utf8 value="+hx(s))
		}
	}
}

func opJDec(c *vh.Ctx, b []byte) {
	c.Op("jdec "+hx(b), "dec="+goJSONStringDecode(b))
}

func cellText(a arrow.Array, i int) string {
	var buf bytes.Buffer
	w := bufio.NewWriter(&buf)
	api.C19WriteArrowValue(w, a, i)
	w.Flush()
	return buf.String()
}

func opJInt(c *vh.Ctx, v int64, u uint64, unsigned bool) {
	var txt, want string
	if unsigned {
		b := array.NewUint64Builder(mem)
		b.Append(u)
		a := b.NewArray()
		txt = cellText(a, 0)
		a.Release()
		b.Release()
		want = strconv.FormatUint(u, 10)
	} else {
		b := array.NewInt64Builder(mem)
		b.Append(v)
		a := b.NewArray()
		txt = cellText(a, 0)
		a.Release()
		b.Release()
		want = strconv.FormatInt(v, 10)
	}
	dec := "none"
	var n json.Number
	d := json.NewDecoder(strings.NewReader(txt))
	d.UseNumber()
	if err := d.Decode(&n); err == nil && !d.More() {
		dec = n.String()
	}
	c.Op("jint "+want, txt+" dec="+dec)
	if dec != want {
		c.Fail("json-cell-differs:int64", fmt.Sprintf("integer %s written as %q", want, txt), "format=json type=int64 value="+want)
	}
}

// opJBlob: a BLOB cell through the real writeArrowValue; decoded by encoding/json and then DuckDB's \\xHH text form.
func opJBlob(c *vh.Ctx, blob []byte) {
	b := array.NewBinaryBuilder(mem, arrow.BinaryTypes.Binary)
	b.Append(blob)
	a := b.NewArray()
	txt := cellText(a, 0)
	a.Release()
	b.Release()
	dec := "none"
	var s string
	if utf8.ValidString(txt) && json.Unmarshal([]byte(txt), &s) == nil {
		if back, ok := duckBlobDecode(s); ok {
			dec = hx(back)
		}
	}
	c.Op("jblob "+hx(blob), hx([]byte(txt))+" dec="+dec)
	if dec != hx(blob) {
		c.Fail("json-cell-differs:binary", fmt.Sprintf("BLOB %x written as %q does not read back", blob, txt), "format=json type=binary value=x"+hx(blob))
	}
}

// opJDecimal: a Decimal128 cell through the real writeArrowValue.
func opJDecimal(c *vh.Ctx, v *big.Int, prec, scale int32) {
	b := array.NewDecimal128Builder(mem, &arrow.Decimal128Type{Precision: prec, Scale: scale})
	b.Append(decimal128.FromBigInt(v))
	a := b.NewArray()
	txt := cellText(a, 0)
	a.Release()
	b.Release()
	c.Op(fmt.Sprintf("jdecimal %s %d", v.String(), scale), txt)
	t := tcell{kind: "dec", i: v, scale: int(scale)}
	if txt != `"`+decText(t)+`"` {
		c.Fail("json-cell-differs:decimal", fmt.Sprintf("decimal %s (scale %d) written as %s", v, scale, txt), fmt.Sprintf("format=json type=decimal value=%s/%d", v, scale))
	}
}

func opJF64(c *vh.Ctx, bits uint64) {
	b := array.NewFloat64Builder(mem)
	b.Append(math.Float64frombits(bits))
	a := b.NewArray()
	txt := cellText(a, 0)
	a.Release()
	b.Release()
	out := "num"
	if txt == "null" {
		out = "null"
	}
	c.Op(fmt.Sprintf("jf64 %d", bits), out)
}

func opJF32(c *vh.Ctx, bits uint32) {
	b := array.NewFloat32Builder(mem)
	b.Append(math.Float32frombits(bits))
	a := b.NewArray()
	txt := cellText(a, 0)
	a.Release()
	b.Release()
	out := "num"
	if txt == "null" {
		out = "null"
	}
	c.Op(fmt.Sprintf("jf32 %d", bits), out)
}

func opJLit(c *vh.Ctx) {
	bb := array.NewBooleanBuilder(mem)
	bb.Append(true)
	bb.Append(false)
	bb.AppendNull()
	a := bb.NewArray()
	c.Op("jlit t", cellText(a, 0))
	c.Op("jlit f", cellText(a, 1))
	c.Op("jlit n", cellText(a, 2))
	a.Release()
	bb.Release()
}

func opJArr(c *vh.Ctx, ss []string) {
	var buf bytes.Buffer
	w := bufio.NewWriter(&buf)
	api.C19WriteJSONStringArray(w, ss)
	w.Flush()
	parts := []string{"jarr"}
	for _, s := range ss {
		parts = append(parts, hx([]byte(s)))
	}
	c.Op(strings.Join(parts, " "), hx(buf.Bytes()))
}

// ---------------------------------------------------------------- msgpack scalar / header ops

func mpEncode(f func(e *msgpack.Encoder) error) []byte {
	var buf bytes.Buffer
	e := msgpack.GetEncoder()
	e.Reset(&buf)
	must(f(e))
	e.Reset(nil)
	msgpack.PutEncoder(e)
	return buf.Bytes()
}

// libTok: the msgpack library's own decoding of one value, rendered like the Lean driver's tokStr.
func libTok(b []byte) string {
	rd := bytes.NewReader(b)
	d := msgpack.NewDecoder(rd)
	v, err := d.DecodeInterface()
	if err != nil {
		return "none"
	}
	var s string
	switch x := v.(type) {
	case nil:
		s = "nil"
	case bool:
		s = "bool:0"
		if x {
			s = "bool:1"
		}
	case float32:
		s = fmt.Sprintf("f32:%d", math.Float32bits(x))
	case float64:
		s = fmt.Sprintf("f64:%d", math.Float64bits(x))
	case string:
		s = fmt.Sprintf("str:%d:%d", len(x), bsum([]byte(x)))
	case []byte:
		s = fmt.Sprintf("bin:%d:%d", len(x), bsum(x))
	case time.Time:
		pl := map[int]int{6: 4, 10: 8, 15: 12}[len(b)]
		s = fmt.Sprintf("ext:255:%s time=%d,%d", hx(b[len(b)-pl:]), x.Unix(), x.Nanosecond())
	default:
		if bi, ok := anyToBig(v); ok {
			s = "int:" + bi.String()
		} else {
			s = fmt.Sprintf("?%T", v)
		}
	}
	if rd.Len() != 0 {
		s += fmt.Sprintf(" trailing=%d", rd.Len())
	}
	return s
}

func mpLine(b []byte) string {
	h := b
	if len(h) > 24 {
		h = h[:24]
	}
	return fmt.Sprintf("%s len=%d tok=%s", hx(h), len(b), libTok(b))
}

func opMP(c *vh.Ctx, op string, b []byte, want string, typ string) {
	line := mpLine(b)
	c.Op(op, line)
	if want != "" && !strings.HasSuffix(line, "tok="+want) {
		c.Fail("msgpack-cell-differs:"+typ, fmt.Sprintf("%s encoded as %x decodes to %s", op, b[:min(len(b), 24)], line), "format=msgpack type="+typ+" op="+op)
	}
}

func opMPHdr(c *vh.Ctx, kind string, n int) {
	var b []byte
	var tok string
	switch kind {
	case "mparr":
		b = mpEncode(func(e *msgpack.Encoder) error { return e.EncodeArrayLen(n) })
		d := msgpack.NewDecoder(bytes.NewReader(b))
		l, err := d.DecodeArrayLen()
		tok = fmt.Sprintf("arr:%d", l)
		if err != nil {
			tok = "none"
		}
	case "mpmap":
		b = mpEncode(func(e *msgpack.Encoder) error { return e.EncodeMapLen(n) })
		d := msgpack.NewDecoder(bytes.NewReader(b))
		l, err := d.DecodeMapLen()
		tok = fmt.Sprintf("map:%d", l)
		if err != nil {
			tok = "none"
		}
	case "mpbinlen":
		b = mpEncode(func(e *msgpack.Encoder) error { return e.EncodeBytesLen(n) })
		d := msgpack.NewDecoder(bytes.NewReader(b))
		l, err := d.DecodeBytesLen()
		tok = fmt.Sprintf("binlen:%d", l)
		if err != nil {
			tok = "none"
		}
	}
	c.Op(fmt.Sprintf("%s %d", kind, n), hx(b)+" tok="+tok)
}

func scalarOps(c *vh.Ctx, r *vh.Rand) {
	nRand := 300
	if c.Thorough() {
		nRand = 12000
	}
	// --- JSON strings: every single byte, every pair of special bytes, corpus, random
	for b := 0; b < 256; b++ {
		opJStr(c, []byte{byte(b)})
	}
	sp := []byte{'"', '\\', '\n', '\r', '\t', '\b', '\f', 0, 0x1f, 0x20, 'a', 0x7f, 0x80, 0xc3, 0xa9}
	for _, x := range sp {
		for _, y := range sp {
			opJStr(c, []byte{x, y})
		}
	}
	for _, s := range edgeStrings {
		opJStr(c, []byte(s))
	}
	for _, s := range invalidUTF8 {
		opJStr(c, []byte(s))
	}
	for i := 0; i < nRand; i++ {
		if r.Chance(15) {
			opJStr(c, randBytes(r))
		} else {
			opJStr(c, []byte(randString(r)))
		}
	}
	c.Tag("ops:jstr")
	// --- the Lean JSON string decoder vs encoding/json on texts the writer never produces
	esc := []string{`\n`, `\r`, `\t`, `\b`, `\f`, `\/`, `\\`, `\"`, `é`, `é`, `中`, `😀`, `😀`, `\u0000`, `\u001f`,
		`\ud800`, `\udc00`, `\ud800A`, `\x41`, `\u12`, `\u12g4`, `\`, "\x01", "\x1f", "é", "😀", "\xff", "\xc0\x80", `"`, "a", " ", "/", "\x7f", `\ud83d\n`}
	for _, e := range esc {
		opJDec(c, []byte(`"`+e+`"`))
		opJDec(c, []byte(`"a`+e+`b"`))
	}
	for _, t := range []string{``, `"`, `""`, `"a`, `a"`, `"a"b"`, `"a" `, ` "a"`, `"\"`, `"\\"`, `"\u"`, `"\ud83d\ude0"`, `null`, `"a""`} {
		opJDec(c, []byte(t))
	}
	for i := 0; i < nRand; i++ {
		var sb strings.Builder
		sb.WriteByte('"')
		for k := r.Intn(6); k > 0; k-- {
			sb.WriteString(vh.Pick(r, esc))
		}
		if !r.Chance(5) {
			sb.WriteByte('"')
		}
		opJDec(c, []byte(sb.String()))
	}
	c.Tag("ops:jdec")
	// --- JSON string arrays (column names)
	opJArr(c, nil)
	opJArr(c, []string{"a"})
	opJArr(c, []string{"time", "va\"lue", "é\n"})
	for i := 0; i < nRand/10; i++ {
		n := r.Intn(5)
		ss := make([]string, n)
		for j := range ss {
			ss[j] = randString(r)
		}
		opJArr(c, ss)
	}
	// --- JSON integers / non-finite floats / literals
	for _, v := range edgeI64 {
		opJInt(c, v, 0, false)
	}
	for _, v := range edgeU64 {
		opJInt(c, 0, v, true)
	}
	for i := 0; i < nRand; i++ {
		if r.Bool() {
			opJInt(c, randI64(r, 64), 0, false)
		} else {
			opJInt(c, 0, randU64(r, 64), true)
		}
	}
	for _, b := range edgeF64 {
		opJF64(c, b)
	}
	for _, b := range edgeF32 {
		opJF32(c, b)
	}
	for i := 0; i < nRand; i++ {
		opJF64(c, randF64bits(r))
		opJF32(c, randF32bits(r))
		// exponent-all-ones patterns with random payloads
		opJF64(c, 0x7ff0000000000000|r.U64()&0x800fffffffffffff)
		opJF32(c, 0x7f800000|uint32(r.U64())&0x807fffff)
	}
	opJLit(c)
	// BLOB cells: every single byte, corpus, random; Decimal128 cells: edges of several (precision, scale)
	for b := 0; b < 256; b++ {
		opJBlob(c, []byte{byte(b)})
	}
	opJBlob(c, []byte{})
	for _, s := range edgeStrings {
		opJBlob(c, []byte(s))
	}
	for _, s := range invalidUTF8 {
		opJBlob(c, []byte(s))
	}
	for i := 0; i < nRand; i++ {
		opJBlob(c, randBytes(r))
	}
	p38 := new(big.Int).Exp(big.NewInt(10), big.NewInt(38), nil)
	hmax, _ := new(big.Int).SetString("170141183460469231731687303715884105727", 10)
	for _, sc := range []int32{0, 1, 2, 10, 37, 38} {
		for _, v := range []*big.Int{big.NewInt(0), big.NewInt(1), big.NewInt(-1), big.NewInt(5), big.NewInt(-12345), big.NewInt(math.MaxInt64), big.NewInt(math.MinInt64),
			new(big.Int).Sub(p38, big.NewInt(1)), new(big.Int).Neg(new(big.Int).Sub(p38, big.NewInt(1))), hmax, new(big.Int).Neg(hmax)} {
			opJDecimal(c, v, 38, sc)
		}
	}
	for i := 0; i < nRand; i++ {
		opJDecimal(c, randDecimal(r, 38), 38, int32(r.Intn(39)))
	}
	c.Tag("ops:jscalars")
	// --- msgpack integers: every size-class boundary, all widths incl. min/max
	for _, v := range edgeI64 {
		v := v
		opMP(c, fmt.Sprintf("mpint %d", v), mpEncode(func(e *msgpack.Encoder) error { return e.EncodeInt(v) }), fmt.Sprintf("int:%d", v), "int32")
		opMP(c, fmt.Sprintf("mpi64 %d", v), mpEncode(func(e *msgpack.Encoder) error { return e.EncodeInt64(v) }), fmt.Sprintf("int:%d", v), "int64")
	}
	for _, v := range edgeU64 {
		v := v
		opMP(c, fmt.Sprintf("mpuint %d", v), mpEncode(func(e *msgpack.Encoder) error { return e.EncodeUint(v) }), fmt.Sprintf("int:%d", v), "uint32")
		opMP(c, fmt.Sprintf("mpu64 %d", v), mpEncode(func(e *msgpack.Encoder) error { return e.EncodeUint64(v) }), fmt.Sprintf("int:%d", v), "uint64")
	}
	for i := 0; i < nRand; i++ {
		v := randI64(r, 64)
		u := randU64(r, 64)
		opMP(c, fmt.Sprintf("mpint %d", v), mpEncode(func(e *msgpack.Encoder) error { return e.EncodeInt(v) }), fmt.Sprintf("int:%d", v), "int32")
		opMP(c, fmt.Sprintf("mpi64 %d", v), mpEncode(func(e *msgpack.Encoder) error { return e.EncodeInt64(v) }), fmt.Sprintf("int:%d", v), "int64")
		opMP(c, fmt.Sprintf("mpuint %d", u), mpEncode(func(e *msgpack.Encoder) error { return e.EncodeUint(u) }), fmt.Sprintf("int:%d", u), "uint32")
		opMP(c, fmt.Sprintf("mpu64 %d", u), mpEncode(func(e *msgpack.Encoder) error { return e.EncodeUint64(u) }), fmt.Sprintf("int:%d", u), "uint64")
	}
	// --- floats, bool, nil
	f64s := append([]uint64{}, edgeF64...)
	f32s := append([]uint32{}, edgeF32...)
	for i := 0; i < nRand; i++ {
		f64s = append(f64s, randF64bits(r))
		f32s = append(f32s, randF32bits(r))
	}
	for _, b := range f64s {
		b := b
		// NaN payloads: Go may quieten a signalling NaN when it passes through float64 registers; compare what the library decodes
		opMP(c, fmt.Sprintf("mpf64 %d", b), mpEncode(func(e *msgpack.Encoder) error { return e.EncodeFloat64(math.Float64frombits(b)) }), fmt.Sprintf("f64:%d", b), "float64")
	}
	for _, b := range f32s {
		b := b
		opMP(c, fmt.Sprintf("mpf32 %d", b), mpEncode(func(e *msgpack.Encoder) error { return e.EncodeFloat32(math.Float32frombits(b)) }), fmt.Sprintf("f32:%d", b), "float32")
	}
	opMP(c, "mpbool 1", mpEncode(func(e *msgpack.Encoder) error { return e.EncodeBool(true) }), "bool:1", "bool")
	opMP(c, "mpbool 0", mpEncode(func(e *msgpack.Encoder) error { return e.EncodeBool(false) }), "bool:0", "bool")
	opMP(c, "mpnil", mpEncode(func(e *msgpack.Encoder) error { return e.EncodeNil() }), "nil", "null")
	// --- str / bin: every length boundary (2^5, 2^8, 2^16); 2^32 is covered by the header-only ops + Lean
	lens := []int{0, 1, 15, 16, 31, 32, 33, 255, 256, 257, 65535, 65536, 65537}
	if c.Thorough() {
		lens = append(lens, 70000, 100003) // (the Lean driver keeps byte strings as lists: stay well below its stack)
	}
	for _, n := range lens {
		by := byte('a' + n%26)
		s := strings.Repeat(string(by), n)
		opMP(c, fmt.Sprintf("mpstrn %d %d", n, by), mpEncode(func(e *msgpack.Encoder) error { return e.EncodeString(s) }), fmt.Sprintf("str:%d:%d", n, bsum([]byte(s))), "utf8")
		bs := []byte(s)
		if n == 0 {
			bs = []byte{}
		}
		opMP(c, fmt.Sprintf("mpbinn %d %d", n, by), mpEncode(func(e *msgpack.Encoder) error { return e.EncodeBytes(bs) }), fmt.Sprintf("bin:%d:%d", n, bsum(bs)), "binary")
	}
	for i := 0; i < nRand; i++ {
		s := randString(r)
		opMP(c, "mpstr "+hx([]byte(s)), mpEncode(func(e *msgpack.Encoder) error { return e.EncodeString(s) }), fmt.Sprintf("str:%d:%d", len(s), bsum([]byte(s))), "utf8")
		b := randBytes(r)
		opMP(c, "mpbin "+hx(b), mpEncode(func(e *msgpack.Encoder) error { return e.EncodeBytes(b) }), fmt.Sprintf("bin:%d:%d", len(b), bsum(b)), "binary")
	}
	// --- container / bin headers incl. the 2^32 boundary (uint32 conversion wraps beyond it: recorded, not a finding —
	//     a result set cannot have 2^32 rows in memory)
	for _, n := range []int{0, 1, 15, 16, 17, 255, 256, 65535, 65536, 65537, 1<<31 - 1, 1 << 31, 1<<32 - 1, 1 << 32, 1<<32 + 5} {
		opMPHdr(c, "mparr", n)
		opMPHdr(c, "mpmap", n)
		opMPHdr(c, "mpbinlen", n)
	}
	for i := 0; i < nRand/4; i++ {
		n := int(r.U64() >> uint(32+r.Intn(32)))
		opMPHdr(c, vh.Pick(r, []string{"mparr", "mpmap", "mpbinlen"}), n)
	}
	// --- timestamp extension: 32 / 64 / 96-bit classes and their boundaries
	secs := []int64{0, 1, -1, 1<<32 - 1, 1 << 32, 1<<34 - 1, 1 << 34, 1<<34 + 1, -1 << 31, 253402300799, -62135596800, 1704067201, 1 << 40, -(1 << 40), 1 << 62, -(1 << 62)}
	nsecs := []int64{0, 1, 999999999, 500000000, 123456789}
	doTime := func(s, n int64) {
		opMP(c, fmt.Sprintf("mptime %d %d", s, n), mpEncode(func(e *msgpack.Encoder) error { return e.EncodeTime(time.Unix(s, n)) }), "", "timestamp")
		// monitor: the library's decoder must give the instant back
		b := mpEncode(func(e *msgpack.Encoder) error { return e.EncodeTime(time.Unix(s, n)) })
		var tm time.Time
		if err := msgpack.Unmarshal(b, &tm); err != nil || tm.Unix() != s || int64(tm.Nanosecond()) != n {
			c.Fail("msgpack-cell-differs:timestamp", fmt.Sprintf("time %d.%09d encoded as %x decodes to %v (%v)", s, n, b, tm, err), fmt.Sprintf("format=msgpack type=timestamp value=%d.%09d", s, n))
		}
	}
	for _, s := range secs {
		for _, n := range nsecs {
			doTime(s, n)
		}
	}
	for i := 0; i < nRand; i++ {
		s := int64(r.U64()) >> uint(1+r.Intn(62))
		doTime(s, int64(r.Intn(1000000000)))
	}
	c.Tag("ops:msgpack-scalars")
}

// ---------------------------------------------------------------- modelled envelopes (jenv / menv ops)

type envCol struct {
	ty   byte
	name string
	dt   arrow.DataType
}

var envTypes = []envCol{
	{'I', "", arrow.PrimitiveTypes.Int64}, {'i', "", arrow.PrimitiveTypes.Int32}, {'U', "", arrow.PrimitiveTypes.Uint64},
	{'u', "", arrow.PrimitiveTypes.Uint32}, {'B', "", arrow.FixedWidthTypes.Boolean}, {'S', "", arrow.BinaryTypes.String},
	{'D', "", arrow.PrimitiveTypes.Float64}, {'X', "", arrow.FixedWidthTypes.Timestamp_us}, {'Y', "", arrow.BinaryTypes.Binary},
}

func zeroExecJSON(b []byte) []byte {
	key := []byte(`,"execution_time_ms":`)
	p := bytes.LastIndex(b, key)
	if p < 0 {
		return b
	}
	q := p + len(key)
	e := q
	for e < len(b) && b[e] >= '0' && b[e] <= '9' {
		e++
	}
	return append(append(append([]byte{}, b[:q]...), '0'), b[e:]...)
}

func zeroExecMP(b []byte) []byte {
	key := []byte("\xb1execution_time_ms")
	p := bytes.LastIndex(b, key)
	if p < 0 {
		return b
	}
	q := p + len(key)
	w := 1
	switch b[q] {
	case 0xcc:
		w = 2
	case 0xcd:
		w = 3
	case 0xce:
		w = 5
	case 0xcf:
		w = 9
	}
	return append(append(append([]byte{}, b[:q]...), 0), b[q+w:]...)
}

// envelopeOp builds a small all-modelled result set, runs the real JSON and msgpack pipelines and emits the
// jenv / menv ops whose expected output the Lean model computes byte for byte.
func envelopeOp(c *vh.Ctx, m *monitor, r *vh.Rand) {
	ncols := 1 + r.Intn(4)
	cols := make([]envCol, ncols)
	fields := make([]arrow.Field, ncols)
	jsonOK := true
	for j := range cols {
		cols[j] = vh.Pick(r, envTypes)
		cols[j].name = vh.Pick(r, []string{"time", "v", "a\"b", "é", "c\\d", "tab\t", "x y", "value_" + strconv.Itoa(j)})
		if r.Chance(20) {
			cols[j].name = randString(r)
		}
		fields[j] = arrow.Field{Name: cols[j].name, Type: cols[j].dt, Nullable: true}
		if cols[j].ty == 'X' {
			jsonOK = false // timestamp text (time.AppendFormat) is outside the model
		}
	}
	schema := arrow.NewSchema(fields, nil)
	nb := r.Intn(4)
	sizes := make([]int, nb)
	total := 0
	for i := range sizes {
		sizes[i] = r.Intn(4)
		total += sizes[i]
	}
	maxRows := 0
	if r.Chance(60) {
		maxRows = r.Intn(total + 3)
	}
	var recs []arrow.Record
	var cellTxt [][]string // [row][col]
	for _, n := range sizes {
		arrs := make([]arrow.Array, ncols)
		rowsTxt := make([][]string, n)
		for i := range rowsTxt {
			rowsTxt[i] = make([]string, ncols)
		}
		for j, col := range cols {
			b := array.NewBuilder(mem, col.dt)
			for i := 0; i < n; i++ {
				if r.Chance(20) {
					b.AppendNull()
					rowsTxt[i][j] = "~"
					continue
				}
				switch col.ty {
				case 'I':
					v := randI64(r, 64)
					b.(*array.Int64Builder).Append(v)
					rowsTxt[i][j] = strconv.FormatInt(v, 10)
				case 'i':
					v := int32(randI64(r, 32))
					b.(*array.Int32Builder).Append(v)
					rowsTxt[i][j] = strconv.FormatInt(int64(v), 10)
				case 'U':
					v := randU64(r, 64)
					b.(*array.Uint64Builder).Append(v)
					rowsTxt[i][j] = strconv.FormatUint(v, 10)
				case 'u':
					v := uint32(randU64(r, 32))
					b.(*array.Uint32Builder).Append(v)
					rowsTxt[i][j] = strconv.FormatUint(uint64(v), 10)
				case 'B':
					v := r.Bool()
					b.(*array.BooleanBuilder).Append(v)
					rowsTxt[i][j] = map[bool]string{true: "1", false: "0"}[v]
				case 'S':
					v := randString(r)
					b.(*array.StringBuilder).Append(v)
					rowsTxt[i][j] = hx([]byte(v))
				case 'Y':
					v := randBytes(r)
					if len(v) == 0 {
						v = []byte{}
					}
					b.(*array.BinaryBuilder).Append(v)
					rowsTxt[i][j] = hx(v)
				case 'D':
					v := vh.Pick(r, []uint64{0x7ff0000000000000, 0xfff0000000000000, 0x7ff8000000000000, 0x7ff8000000000001, 0xfff8000000000000})
					b.(*array.Float64Builder).Append(math.Float64frombits(v))
					rowsTxt[i][j] = strconv.FormatUint(v, 10)
				case 'X':
					v := randTS(r, arrow.Microsecond)
					b.(*array.TimestampBuilder).Append(arrow.Timestamp(v))
					rowsTxt[i][j] = strconv.FormatInt(v, 10)
				}
			}
			arrs[j] = b.NewArray()
			b.Release()
		}
		recs = append(recs, array.NewRecord(schema, arrs, int64(n)))
		for _, a := range arrs {
			a.Release()
		}
		cellTxt = append(cellTxt, rowsTxt...)
	}
	rs := newResultSet("envelope-op", schema, recs, nil)
	defer rs.release()
	szs := make([]string, len(sizes))
	for i, n := range sizes {
		szs[i] = strconv.Itoa(n)
	}
	sz := strings.Join(szs, ",")
	if len(sizes) == 0 {
		sz = "-"
	}
	parts := []string{strconv.Itoa(maxRows), hx([]byte(fixedTS)), sz, strconv.Itoa(ncols)}
	for _, col := range cols {
		parts = append(parts, string(col.ty)+":"+hx([]byte(col.name)))
	}
	for _, row := range cellTxt {
		parts = append(parts, row...)
	}
	args := strings.Join(parts, " ")
	if jsonOK {
		body, _, err := runJSON(rs, maxRows)
		must(err)
		c.Op("jenv "+args, hx(zeroExecJSON(body)))
	}
	body, _, derr, serr := runMsgPack(rs, maxRows)
	must(derr)
	must(serr)
	c.Op("menv "+args, hx(zeroExecMP(body)))
	c.Tag("ops:envelope")
	_ = m
}

// ---------------------------------------------------------------- direct Arrow cases

func (m *monitor) directCase(rs *resultSet, r *vh.Rand, limits bool) {
	c := m.c
	c.Case(rs.desc+"|"+fmt.Sprint(rs.nrows)+"|"+canonRS(rs), rs.nrows > 0)
	// JSON
	jb, n, err := runJSON(rs, 0)
	if err != nil || n != rs.nrows {
		c.Fail("row-count-differs:json", fmt.Sprintf("streamArrowJSON returned n=%d err=%v for %d rows", n, err, rs.nrows), "format=json source="+rs.desc)
	}
	jd := decodeJSON(jb)
	m.checkDecoded("json", rs, jd, rs.nrows, checkJSON)
	// msgpack
	mb, n, derr, serr := runMsgPack(rs, 0)
	var md decoded
	mpOK := false
	if derr != nil {
		if strings.Contains(derr.Error(), "decimal cast failed") {
			c.Tag("msgpack:decimal-cast-error-reported-as-5xx")
		} else {
			c.Fail("msgpack-malformed:envelope", "drain error: "+derr.Error(), "format=msgpack source="+rs.desc)
		}
	} else if serr != nil {
		c.Fail("msgpack-malformed:envelope", "stream error: "+serr.Error(), "format=msgpack source="+rs.desc)
	} else {
		mpOK = true
		if n != rs.nrows {
			c.Fail("row-count-differs:msgpack", fmt.Sprintf("streamMsgPackFromBatches returned %d for %d rows", n, rs.nrows), "format=msgpack source="+rs.desc)
		}
		md = decodeMsgPack(mb)
		m.checkDecoded("msgpack", rs, md, rs.nrows, checkMP)
		// wire type names must agree with the declared arrowTypeName of the (decimal-normalised) schema
		for j, ct := range rs.cols {
			if j < len(md.types) {
				want := api.C19ArrowTypeName(ct.dt)
				if d, ok := ct.dt.(arrow.DecimalType); ok {
					if d.GetScale() == 0 {
						want = "int64"
					} else {
						want = "float64"
					}
				}
				if md.types[j] != want {
					c.Fail("msgpack-cell-differs:types", fmt.Sprintf("column %q type name %q, expected %q", ct.name, md.types[j], want), "format=msgpack source="+rs.desc)
				}
			}
		}
	}
	// IPC
	ib, castErr := runIPC(rs)
	sc, rr, ierr := decodeIPC(ib)
	if castErr != nil {
		// the handler's loop breaks and closes a well-formed stream with the batches written so far (HTTP 200)
		c.Tag("ipc:decimal-cast-error-truncates-stream")
		got := 0
		for _, x := range rr {
			got += int(x.NumRows())
		}
		if got != rs.nrows {
			// recorded as a finding by the DuckDB layer, where the REAL handler closure produces the response
			c.Tag("ipc:decimal-cast-error-rows-silently-missing(direct replica)")
		}
	} else {
		m.checkIPC("ipc", rs, sc, rr, ierr, rs.nrows)
	}
	for _, x := range rr {
		x.Release()
	}
	// governance row limit
	if limits && rs.nrows > 0 {
		lims := map[int]bool{1: true, rs.nrows - 1: true, rs.nrows: true, rs.nrows + 1: true, 1 + r.Intn(rs.nrows): true}
		acc := 0
		for _, rec := range rs.recs { // batch boundaries ±1
			acc += int(rec.NumRows())
			lims[acc] = true
			lims[acc+1] = true
			lims[acc-1] = true
		}
		for l := range lims {
			if l <= 0 {
				continue
			}
			b, _, _ := runJSON(rs, l)
			m.checkRowLimit("json", rs, jd, decodeJSON(b), l)
			if mpOK {
				b, _, derr, _ := runMsgPack(rs, l)
				if derr == nil {
					m.checkRowLimit("msgpack", rs, md, decodeMsgPack(b), l)
				}
			}
			c.Tag("rowlimit:direct")
		}
	}
}

func canonRS(rs *resultSet) string {
	var sb strings.Builder
	for _, ct := range rs.cols {
		sb.WriteString(ct.key)
		sb.WriteByte(':')
		for i, t := range ct.cells {
			if i > 40 {
				break
			}
			sb.WriteString(canon(t))
			sb.WriteByte(',')
		}
	}
	return sb.String()
}

// edgeColumn: every edge value of a class in one array.
func edgeColumn(cl colClass) arrow.Array {
	b := array.NewBuilder(mem, cl.dt)
	defer b.Release()
	switch x := b.(type) {
	case *array.Int8Builder:
		for _, v := range edgeI64 {
			x.Append(int8(v))
		}
	case *array.Int16Builder:
		for _, v := range edgeI64 {
			x.Append(int16(v))
		}
	case *array.Int32Builder:
		for _, v := range edgeI64 {
			x.Append(int32(v))
		}
	case *array.Int64Builder:
		for _, v := range edgeI64 {
			x.Append(v)
		}
	case *array.Uint8Builder:
		for _, v := range edgeU64 {
			x.Append(uint8(v))
		}
	case *array.Uint16Builder:
		for _, v := range edgeU64 {
			x.Append(uint16(v))
		}
	case *array.Uint32Builder:
		for _, v := range edgeU64 {
			x.Append(uint32(v))
		}
	case *array.Uint64Builder:
		for _, v := range edgeU64 {
			x.Append(v)
		}
	case *array.Float64Builder:
		for _, v := range edgeF64 {
			x.Append(math.Float64frombits(v))
		}
	case *array.Float32Builder:
		for _, v := range edgeF32 {
			x.Append(math.Float32frombits(v))
		}
	case *array.StringBuilder:
		for _, v := range edgeStrings {
			x.Append(v)
		}
	case *array.LargeStringBuilder:
		for _, v := range edgeStrings {
			x.Append(v)
		}
	case *array.BinaryBuilder:
		for _, v := range edgeStrings {
			x.Append([]byte(v))
		}
		x.Append([]byte{})
		for _, v := range invalidUTF8 {
			x.Append([]byte(v))
		}
	case *array.Decimal128Builder:
		dt := x.Type().(*arrow.Decimal128Type)
		lim := new(big.Int).Exp(big.NewInt(10), big.NewInt(int64(dt.Precision)), nil)
		max := new(big.Int).Sub(lim, big.NewInt(1))
		for _, v := range []*big.Int{big.NewInt(0), big.NewInt(1), big.NewInt(-1), big.NewInt(100), big.NewInt(-12345), max, new(big.Int).Neg(max),
			big.NewInt(9007199254740993), big.NewInt(-9007199254740993), big.NewInt(math.MaxInt64), big.NewInt(math.MinInt64),
			new(big.Int).Add(big.NewInt(math.MaxInt64), big.NewInt(1))} {
			if new(big.Int).Abs(v).Cmp(lim) < 0 {
				x.Append(decimal128.FromBigInt(v))
			}
		}
	default:
		return nil
	}
	b.AppendNull()
	return b.NewArray()
}

func main() {
	c := vh.Start()
	r := vh.NewRand(c.Seed)
	m := &monitor{c: c}

	// 1. byte-level ops diffed against the Lean model
	scalarOps(c, r.Fork())
	nEnv := 150
	if c.Thorough() {
		nEnv = 4000
	}
	re := r.Fork()
	for i := 0; i < nEnv; i++ {
		envelopeOp(c, m, re)
	}

	// 2. direct Arrow records: every class alone (edge grid, every null pattern, several batch shapes), then mixes
	classes := directClasses()
	rd := r.Fork()
	for _, cl := range classes {
		if a := edgeColumn(cl); a != nil {
			schema := arrow.NewSchema([]arrow.Field{{Name: cl.name, Type: cl.dt, Nullable: true}}, nil)
			rec := array.NewRecord(schema, []arrow.Array{a}, int64(a.Len()))
			a.Release()
			rs := newResultSet("direct edges "+cl.name, schema, []arrow.Record{rec}, nil)
			m.directCase(rs, rd, true)
			rs.release()
			c.Tag("direct:edges")
		}
		for mode := 0; mode <= 5; mode++ {
			sizes := vh.Pick(rd, [][]int{{3}, {2, 0, 3}, {1, 1}, {0}, {}, {5, 4}, {1}})
			seed := rd.U64()
			desc := fmt.Sprintf("direct class=%s sizes=%v nullMode=%d gen-seed=%d", cl.name, sizes, mode, seed)
			rs := buildResultSet(desc, []colClass{cl}, sizes, mode, vh.NewRand(seed))
			m.directCase(rs, rd, mode == 3 || mode == 0)
			rs.release()
			c.Tag("direct:" + typeKey(cl.dt))
		}
	}
	nMix := 60
	if c.Thorough() {
		nMix = 2500
	}
	for i := 0; i < nMix; i++ {
		k := 1 + rd.Intn(5)
		cs := make([]colClass, k)
		names := make([]string, k)
		for j := range cs {
			cs[j] = vh.Pick(rd, classes)
			names[j] = cs[j].name
		}
		nb := rd.Intn(4)
		sizes := make([]int, nb)
		for j := range sizes {
			sizes[j] = rd.Intn(7)
			if rd.Chance(3) {
				sizes[j] = 1000 + rd.Intn(300)
			}
		}
		seed := rd.U64()
		mode := rd.Intn(6)
		desc := fmt.Sprintf("direct classes=%v sizes=%v nullMode=%d gen-seed=%d", names, sizes, mode, seed)
		rs := buildResultSet(desc, cs, sizes, mode, vh.NewRand(seed))
		m.directCase(rs, rd, rd.Chance(50))
		rs.release()
		c.Tag("direct:mix")
	}

	// 3. real DuckDB result sets through the real HTTP endpoints
	e := newDuckEnv()
	e.c = c
	exprs := duckExprs()
	rq := r.Fork()
	ns := []int{5, 0, 1, 2049}
	for xi, x := range exprs { // every expression class alone, small and multi-batch, with and without NULLs
		for _, n := range []int{6, 2049 + xi} {
			mode := 0
			if n > 100 {
				mode = 3
			}
			vh.Guard(func() string { duckCase(c, m, e, rq, []sqlExpr{x}, n, mode, x.key); return "" })
		}
	}
	nDuck := 25
	if c.Thorough() {
		nDuck = 500
		ns = append(ns, 4100, 2048, 2047, 6145, 10001)
	}
	for i := 0; i < nDuck; i++ {
		k := 1 + rq.Intn(5)
		xs := make([]sqlExpr, k)
		for j := range xs {
			xs[j] = vh.Pick(rq, exprs)
		}
		n := vh.Pick(rq, ns)
		if rq.Chance(30) {
			n = rq.Intn(40)
		}
		out := vh.Guard(func() string { duckCase(c, m, e, rq, xs, n, rq.Intn(5), "mix"); return "" })
		if strings.HasPrefix(out, "panic:") {
			c.Fail("encoder-panic:duck", out, "random DuckDB case #"+strconv.Itoa(i))
		}
	}
	// opt-in dictionary encoding on the Arrow endpoint x decimal-producing columns; query sequences on the one
	// long-lived handler (identical type vectors, different aliases / order) in all three formats
	nDict, nSeq := 8, 6
	if c.Thorough() {
		nDict, nSeq = 80, 60
	}
	for i := 0; i < nDict; i++ {
		out := vh.Guard(func() string { dictCase(c, m, e, rq, i); return "" })
		if strings.HasPrefix(out, "panic:") {
			c.Fail("encoder-panic:duck", out, "dictionary case #"+strconv.Itoa(i))
		}
	}
	for i := 0; i < nSeq; i++ {
		out := vh.Guard(func() string { seqCase(c, m, e, rq, i); return "" })
		if strings.HasPrefix(out, "panic:") {
			c.Fail("encoder-panic:duck", out, "sequence case #"+strconv.Itoa(i))
		}
	}
	// tiny results over the Arrow endpoint: the stream writer finishes while fasthttp may still be serialising the
	// response head (see the ipc-malformed:http-trailer-race finding); timing dependent by nature
	nTiny := 300
	if c.Thorough() {
		nTiny = 3000
	}
	for i := 0; i < nTiny && !e.dead; i++ {
		st, body, err := e.post("/api/v1/query/arrow", fmt.Sprintf("SELECT %d AS c0", i))
		if err == nil && st == 200 {
			if _, rr, derr := decodeIPC(body); derr != nil {
				c.Fail("ipc-malformed:int32", "tiny result: "+derr.Error(), fmt.Sprintf("format=ipc source=SELECT %d AS c0", i))
			} else {
				for _, x := range rr {
					x.Release()
				}
			}
		}
	}
	c.Tag("duck:tiny-ipc")
	e.close()
	c.Finish("case = one result set (direct Arrow records or a DuckDB SELECT) pushed through JSON, MessagePack and Arrow IPC; non-trivial = at least one row; ops = byte-level scalar/string/header/envelope encodings diffed against the Lean model")
}
