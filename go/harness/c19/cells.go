//go:build verif

package main

// Truth extraction from Arrow arrays and the per-format cell comparison rules of C19.
//
// "Documented conversions" accepted by the monitors (everything else must round-trip exactly):
//   JSON   : non-finite float -> null; timestamp/date -> RFC3339Nano UTC string of the same instant;
//            types without a native JSON encoding (decimal, interval, list, struct, time, map, enum)
//            -> a string holding a text form from which the value is recoverable (compared semantically);
//            binary -> JSON string with the same bytes (only possible when the bytes are valid UTF-8).
//   msgpack: timestamp/date -> timestamp ext(-1) of the same instant; decimal(p,0) -> int64 (exact or a
//            reported error); decimal(p,s>0) -> float64 that must still print back to the decimal at scale s;
//            fallback types -> str with the same text form as JSON.
//   IPC    : identical arrays except decimal columns (same rule as msgpack).

import (
	"bytes"
	"encoding/json"
	"fmt"
	"math"
	"math/big"
	"strconv"
	"strings"
	"time"
	"unicode/utf8"

	"github.com/apache/arrow-go/v18/arrow"
	"github.com/apache/arrow-go/v18/arrow/array"
)

type tcell struct {
	null  bool
	kind  string // int f32 f64 bool str bin ts date dec ival list struct time64 other
	i     *big.Int
	scale int
	f64   uint64
	f32   uint32
	b     bool
	s     []byte
	sec   int64
	nsec  int64
	mo    int32
	dy    int32
	ns    int64
	elems []tcell
	names []string
	text  string
}

func floorDiv(a, b int64) (q, r int64) {
	q = a / b
	r = a % b
	if r < 0 {
		q--
		r += b
	}
	return
}

func tsToSecNsec(v int64, u arrow.TimeUnit) (int64, int64) {
	switch u {
	case arrow.Second:
		return v, 0
	case arrow.Millisecond:
		q, r := floorDiv(v, 1000)
		return q, r * 1000000
	case arrow.Microsecond:
		q, r := floorDiv(v, 1000000)
		return q, r * 1000
	default:
		q, r := floorDiv(v, 1000000000)
		return q, r
	}
}

func truthCell(a arrow.Array, i int) tcell {
	if a.IsNull(i) {
		return tcell{null: true, kind: "null"}
	}
	switch c := a.(type) {
	case *array.Int8:
		return tcell{kind: "int", i: big.NewInt(int64(c.Value(i)))}
	case *array.Int16:
		return tcell{kind: "int", i: big.NewInt(int64(c.Value(i)))}
	case *array.Int32:
		return tcell{kind: "int", i: big.NewInt(int64(c.Value(i)))}
	case *array.Int64:
		return tcell{kind: "int", i: big.NewInt(c.Value(i))}
	case *array.Uint8:
		return tcell{kind: "int", i: new(big.Int).SetUint64(uint64(c.Value(i)))}
	case *array.Uint16:
		return tcell{kind: "int", i: new(big.Int).SetUint64(uint64(c.Value(i)))}
	case *array.Uint32:
		return tcell{kind: "int", i: new(big.Int).SetUint64(uint64(c.Value(i)))}
	case *array.Uint64:
		return tcell{kind: "int", i: new(big.Int).SetUint64(c.Value(i))}
	case *array.Float32:
		return tcell{kind: "f32", f32: math.Float32bits(c.Value(i))}
	case *array.Float64:
		return tcell{kind: "f64", f64: math.Float64bits(c.Value(i))}
	case *array.Boolean:
		return tcell{kind: "bool", b: c.Value(i)}
	case *array.String:
		return tcell{kind: "str", s: []byte(c.Value(i))}
	case *array.LargeString:
		return tcell{kind: "str", s: []byte(c.Value(i))}
	case *array.Binary:
		return tcell{kind: "bin", s: append([]byte{}, c.Value(i)...)}
	case *array.Timestamp:
		s, n := tsToSecNsec(int64(c.Value(i)), c.DataType().(*arrow.TimestampType).Unit)
		return tcell{kind: "ts", sec: s, nsec: n}
	case *array.Date32:
		return tcell{kind: "date", sec: int64(c.Value(i)) * 86400}
	case *array.Decimal128:
		return tcell{kind: "dec", i: c.Value(i).BigInt(), scale: int(c.DataType().(*arrow.Decimal128Type).Scale)}
	case *array.MonthDayNanoInterval:
		v := c.Value(i)
		return tcell{kind: "ival", mo: v.Months, dy: v.Days, ns: v.Nanoseconds}
	case *array.Time64:
		return tcell{kind: "time64", ns: int64(c.Value(i)), text: c.DataType().(*arrow.Time64Type).Unit.String()}
	case *array.Dictionary:
		// dictionary-encoded column (DuckDB ENUM; x-arc-arrow-dictionary): the value it stands for
		return truthCell(c.Dictionary(), c.GetValueIndex(i))
	case *array.List:
		st, en := c.ValueOffsets(i)
		vals := c.ListValues()
		t := tcell{kind: "list"}
		for j := st; j < en; j++ {
			t.elems = append(t.elems, truthCell(vals, int(j)))
		}
		return t
	case *array.Struct:
		t := tcell{kind: "struct"}
		st := c.DataType().(*arrow.StructType)
		for j := 0; j < c.NumField(); j++ {
			t.names = append(t.names, st.Field(j).Name)
			t.elems = append(t.elems, truthCell(c.Field(j), i))
		}
		return t
	default:
		return tcell{kind: "other", text: a.ValueStr(i)}
	}
}

func canon(t tcell) string {
	if t.null {
		return "null"
	}
	switch t.kind {
	case "int":
		return "i" + t.i.String()
	case "f32":
		return fmt.Sprintf("f32:%08x", t.f32)
	case "f64":
		return fmt.Sprintf("f64:%016x", t.f64)
	case "bool":
		return fmt.Sprintf("b%v", t.b)
	case "str":
		return "s" + hexs(t.s)
	case "bin":
		return "x" + hexs(t.s)
	case "ts", "date":
		return fmt.Sprintf("%s:%d.%09d", t.kind, t.sec, t.nsec)
	case "dec":
		return fmt.Sprintf("dec:%s/%d", t.i.String(), t.scale)
	case "ival":
		return fmt.Sprintf("iv:%d,%d,%d", t.mo, t.dy, t.ns)
	case "time64":
		return fmt.Sprintf("t64:%d%s", t.ns, t.text)
	case "list":
		p := make([]string, len(t.elems))
		for i, e := range t.elems {
			p[i] = canon(e)
		}
		return "[" + strings.Join(p, ",") + "]"
	case "struct":
		p := make([]string, len(t.elems))
		for i, e := range t.elems {
			p[i] = t.names[i] + "=" + canon(e)
		}
		return "{" + strings.Join(p, ",") + "}"
	}
	return "o:" + t.text
}

func hexs(b []byte) string { return fmt.Sprintf("%x", b) }

// typeKey: stable type name used in monitor keys.
func typeKey(dt arrow.DataType) string {
	switch t := dt.(type) {
	case *arrow.Decimal128Type:
		if t.Precision == 38 && t.Scale == 0 {
			return "hugeint"
		}
		return "decimal"
	case *arrow.TimestampType:
		u := map[arrow.TimeUnit]string{arrow.Second: "s", arrow.Millisecond: "ms", arrow.Microsecond: "us", arrow.Nanosecond: "ns"}[t.Unit]
		if t.TimeZone != "" {
			return "timestamp[" + u + ",tz]"
		}
		return "timestamp[" + u + "]"
	case *arrow.ListType:
		return "list"
	case *arrow.StructType:
		return "struct"
	case *arrow.MapType:
		return "map"
	case *arrow.DictionaryType:
		return "enum"
	case *arrow.MonthDayNanoIntervalType:
		return "interval"
	case *arrow.Time64Type:
		return "time64"
	}
	return dt.Name()
}

// ---------------------------------------------------------------- independent timestamp text parser

func daysFromCivil(y, m, d int64) int64 {
	if m <= 2 {
		y--
	}
	var era int64
	if y >= 0 {
		era = y / 400
	} else {
		era = (y - 399) / 400
	}
	yoe := y - era*400
	mp := (m + 9) % 12
	doy := (153*mp+2)/5 + d - 1
	doe := yoe*365 + yoe/4 - yoe/100 + doy
	return era*146097 + doe - 719468
}

// parseRFC3339UTC parses [-]Y+-MM-DDTHH:MM:SS[.f+]Z into (unix seconds, nanoseconds).
func parseRFC3339UTC(s string) (int64, int64, bool) {
	if !strings.HasSuffix(s, "Z") {
		return 0, 0, false
	}
	s = s[:len(s)-1]
	tpos := strings.IndexByte(s, 'T')
	if tpos < 0 {
		return 0, 0, false
	}
	date, clock := s[:tpos], s[tpos+1:]
	neg := false
	if strings.HasPrefix(date, "-") {
		neg = true
		date = date[1:]
	}
	dp := strings.Split(date, "-")
	if len(dp) != 3 || len(dp[1]) != 2 || len(dp[2]) != 2 || len(dp[0]) < 4 {
		return 0, 0, false
	}
	y, e1 := strconv.ParseInt(dp[0], 10, 64)
	mo, e2 := strconv.ParseInt(dp[1], 10, 64)
	d, e3 := strconv.ParseInt(dp[2], 10, 64)
	if e1 != nil || e2 != nil || e3 != nil {
		return 0, 0, false
	}
	if neg {
		y = -y
	}
	frac := ""
	if p := strings.IndexByte(clock, '.'); p >= 0 {
		frac = clock[p+1:]
		clock = clock[:p]
		if frac == "" || len(frac) > 9 {
			return 0, 0, false
		}
	}
	cp := strings.Split(clock, ":")
	if len(cp) != 3 || len(cp[0]) != 2 || len(cp[1]) != 2 || len(cp[2]) != 2 {
		return 0, 0, false
	}
	h, e1 := strconv.ParseInt(cp[0], 10, 64)
	mi, e2 := strconv.ParseInt(cp[1], 10, 64)
	se, e3 := strconv.ParseInt(cp[2], 10, 64)
	if e1 != nil || e2 != nil || e3 != nil {
		return 0, 0, false
	}
	var ns int64
	if frac != "" {
		f, err := strconv.ParseInt(frac+strings.Repeat("0", 9-len(frac)), 10, 64)
		if err != nil {
			return 0, 0, false
		}
		ns = f
	}
	return daysFromCivil(y, mo, d)*86400 + h*3600 + mi*60 + se, ns, true
}

// ---------------------------------------------------------------- text forms (fallback types)

func decRat(t tcell) *big.Rat {
	den := new(big.Int).Exp(big.NewInt(10), big.NewInt(int64(t.scale)), nil)
	if t.scale < 0 {
		num := new(big.Int).Mul(t.i, new(big.Int).Exp(big.NewInt(10), big.NewInt(int64(-t.scale)), nil))
		return new(big.Rat).SetInt(num)
	}
	return new(big.Rat).SetFrac(t.i, den)
}

// decText: plain decimal text of a decimal cell at its scale.
func decText(t tcell) string {
	s := new(big.Int).Abs(t.i).String()
	if t.scale > 0 {
		for len(s) <= t.scale {
			s = "0" + s
		}
		s = s[:len(s)-t.scale] + "." + s[len(s)-t.scale:]
	}
	if t.i.Sign() < 0 {
		s = "-" + s
	}
	return s
}

func parseJSONNumberNode(s string) (any, error) {
	d := json.NewDecoder(strings.NewReader(s))
	d.UseNumber()
	var v any
	if err := d.Decode(&v); err != nil {
		return nil, err
	}
	if d.More() {
		return nil, fmt.Errorf("trailing data")
	}
	return v, nil
}

// nestedEq compares a truth cell against a node of the JSON text arrow-go renders for nested values.
func nestedEq(t tcell, v any) string {
	if t.null {
		if v != nil {
			return fmt.Sprintf("want null got %v", v)
		}
		return ""
	}
	switch t.kind {
	case "int":
		n, ok := v.(json.Number)
		if !ok || n.String() != t.i.String() {
			return fmt.Sprintf("want %s got %v", t.i, v)
		}
	case "f64":
		f := math.Float64frombits(t.f64)
		switch x := v.(type) {
		case json.Number:
			g, err := strconv.ParseFloat(x.String(), 64)
			if err != nil || math.Float64bits(g) != t.f64 {
				return fmt.Sprintf("want float bits %016x got %s", t.f64, x)
			}
		case string:
			if !((x == "NaN" && math.IsNaN(f)) || (x == "+Inf" && math.IsInf(f, 1)) || (x == "-Inf" && math.IsInf(f, -1))) {
				return fmt.Sprintf("want float bits %016x got %q", t.f64, x)
			}
		default:
			return fmt.Sprintf("want float got %v", v)
		}
	case "bool":
		b, ok := v.(bool)
		if !ok || b != t.b {
			return fmt.Sprintf("want %v got %v", t.b, v)
		}
	case "str":
		s, ok := v.(string)
		if !ok || s != string(t.s) {
			return fmt.Sprintf("want %q got %v", t.s, v)
		}
	case "list":
		l, ok := v.([]any)
		if !ok || len(l) != len(t.elems) {
			return fmt.Sprintf("want list of %d got %v", len(t.elems), v)
		}
		for i := range l {
			if d := nestedEq(t.elems[i], l[i]); d != "" {
				return fmt.Sprintf("[%d]: %s", i, d)
			}
		}
	case "struct":
		m, ok := v.(map[string]any)
		if !ok || len(m) != len(t.elems) {
			return fmt.Sprintf("want struct of %d got %v", len(t.elems), v)
		}
		for i, n := range t.names {
			x, ok := m[n]
			if !ok {
				return "missing field " + n
			}
			if d := nestedEq(t.elems[i], x); d != "" {
				return n + ": " + d
			}
		}
	default:
		return "unsupported nested kind " + t.kind
	}
	return ""
}

// textEq: is `s` a faithful text form of the fallback-typed truth cell?
func textEq(t tcell, s string) string {
	switch t.kind {
	case "dec":
		r, ok := new(big.Rat).SetString(s)
		if !ok {
			return fmt.Sprintf("unparsable decimal text %q", s)
		}
		if r.Cmp(decRat(t)) != 0 {
			return fmt.Sprintf("decimal text %q != %s", s, decText(t))
		}
	case "ival":
		v, err := parseJSONNumberNode(s)
		m, ok := v.(map[string]any)
		if err != nil || !ok {
			return fmt.Sprintf("interval text %q unparsable", s)
		}
		want := map[string]string{"months": fmt.Sprint(t.mo), "days": fmt.Sprint(t.dy), "nanoseconds": fmt.Sprint(t.ns)}
		for k, w := range want {
			n, ok := m[k].(json.Number)
			if !ok || n.String() != w {
				return fmt.Sprintf("interval text %q: %s want %s", s, k, w)
			}
		}
	case "list", "struct":
		v, err := parseJSONNumberNode(s)
		if err != nil {
			return fmt.Sprintf("nested text %q unparsable: %v", s, err)
		}
		if d := nestedEq(t, v); d != "" {
			return fmt.Sprintf("nested text %q: %s", s, d)
		}
	case "time64":
		us := t.ns
		div := int64(1000000)
		digits := 6
		if t.text == "ns" {
			div, digits = 1000000000, 9
		}
		secs, frac := us/div, us%div
		want := fmt.Sprintf("%02d:%02d:%02d.%0*d", secs/3600, secs/60%60, secs%60, digits, frac)
		if s != want {
			return fmt.Sprintf("time text %q want %q", s, want)
		}
	default:
		if s != t.text {
			return fmt.Sprintf("text %q want %q", s, t.text)
		}
	}
	return ""
}

// duckBlobDecode inverts DuckDB's CAST(blob AS VARCHAR): printable ASCII except \ ' " stands for itself,
// \xHH for any byte. ok=false when s is not in that form.
func duckBlobDecode(s string) ([]byte, bool) {
	out := []byte{}
	for i := 0; i < len(s); i++ {
		c := s[i]
		switch {
		case c == '\\':
			if i+3 >= len(s) || s[i+1] != 'x' {
				return nil, false
			}
			v, err := strconv.ParseUint(s[i+2:i+4], 16, 8)
			if err != nil {
				return nil, false
			}
			out = append(out, byte(v))
			i += 3
		case c >= 32 && c <= 126 && c != '\'' && c != '"':
			out = append(out, c)
		default:
			return nil, false
		}
	}
	return out, true
}

// ---------------------------------------------------------------- JSON cell rule

// checkJSON returns "" when decoded JSON value v is an acceptable encoding of truth cell t.
func checkJSON(t tcell, v any) string {
	if t.null {
		if v != nil {
			return fmt.Sprintf("want null got %v", v)
		}
		return ""
	}
	switch t.kind {
	case "int":
		n, ok := v.(json.Number)
		if !ok || n.String() != t.i.String() {
			return fmt.Sprintf("want %s got %#v", t.i, v)
		}
	case "f64", "f32":
		var f float64
		if t.kind == "f64" {
			f = math.Float64frombits(t.f64)
		} else {
			f = float64(math.Float32frombits(t.f32))
		}
		if math.IsNaN(f) || math.IsInf(f, 0) {
			if v != nil {
				return fmt.Sprintf("non-finite float must be null, got %#v", v)
			}
			return ""
		}
		n, ok := v.(json.Number)
		if !ok {
			return fmt.Sprintf("want number got %#v", v)
		}
		g, err := strconv.ParseFloat(n.String(), 64)
		if err != nil || math.Float64bits(g) != math.Float64bits(f) {
			return fmt.Sprintf("want %016x got %s", math.Float64bits(f), n)
		}
	case "bool":
		b, ok := v.(bool)
		if !ok || b != t.b {
			return fmt.Sprintf("want %v got %#v", t.b, v)
		}
	case "str", "bin":
		s, ok := v.(string)
		if !ok {
			return fmt.Sprintf("want string got %#v", v)
		}
		if t.kind == "bin" {
			// documented conversion for types without a native JSON encoding: DuckDB's BLOB text form
			if b, ok := duckBlobDecode(s); ok && bytes.Equal(b, t.s) {
				return ""
			}
		}
		if !utf8.Valid(t.s) {
			return fmt.Sprintf("bytes %x are not valid UTF-8: no JSON string can denote them (decoder saw %q)", t.s, s)
		}
		if s != string(t.s) {
			return fmt.Sprintf("want %q got %q", t.s, s)
		}
	case "ts", "date":
		s, ok := v.(string)
		if !ok {
			return fmt.Sprintf("want time string got %#v", v)
		}
		sec, ns, ok := parseRFC3339UTC(s)
		if !ok || sec != t.sec || ns != t.nsec {
			return fmt.Sprintf("want instant %d.%09d got %q", t.sec, t.nsec, s)
		}
	default:
		s, ok := v.(string)
		if !ok {
			return fmt.Sprintf("want text string got %#v", v)
		}
		return textEq(t, s)
	}
	return ""
}

// ---------------------------------------------------------------- msgpack cell rule

func anyToBig(v any) (*big.Int, bool) {
	switch x := v.(type) {
	case int8:
		return big.NewInt(int64(x)), true
	case int16:
		return big.NewInt(int64(x)), true
	case int32:
		return big.NewInt(int64(x)), true
	case int64:
		return big.NewInt(x), true
	case int:
		return big.NewInt(int64(x)), true
	case uint8:
		return new(big.Int).SetUint64(uint64(x)), true
	case uint16:
		return new(big.Int).SetUint64(uint64(x)), true
	case uint32:
		return new(big.Int).SetUint64(uint64(x)), true
	case uint64:
		return new(big.Int).SetUint64(x), true
	case uint:
		return new(big.Int).SetUint64(uint64(x)), true
	}
	return nil, false
}

// decimalAsFloatOK: does float64 f still identify the decimal (prints back at the column's scale)?
func decimalAsFloatOK(t tcell, f float64) bool {
	if math.IsNaN(f) || math.IsInf(f, 0) {
		return false
	}
	return strconv.FormatFloat(f, 'f', t.scale, 64) == decText(t) ||
		(t.i.Sign() == 0 && f == 0)
}

func checkMP(t tcell, v any) string {
	if t.null {
		if v != nil {
			return fmt.Sprintf("want nil got %#v", v)
		}
		return ""
	}
	if v == nil {
		return fmt.Sprintf("want %s got nil", canon(t))
	}
	switch t.kind {
	case "int":
		b, ok := anyToBig(v)
		if !ok || b.Cmp(t.i) != 0 {
			return fmt.Sprintf("want %s got %#v", t.i, v)
		}
	case "f64":
		f, ok := v.(float64)
		if !ok || math.Float64bits(f) != t.f64 {
			return fmt.Sprintf("want f64 %016x got %#v", t.f64, v)
		}
	case "f32":
		f, ok := v.(float32)
		if !ok || math.Float32bits(f) != t.f32 {
			return fmt.Sprintf("want f32 %08x got %#v", t.f32, v)
		}
	case "bool":
		b, ok := v.(bool)
		if !ok || b != t.b {
			return fmt.Sprintf("want %v got %#v", t.b, v)
		}
	case "str":
		s, ok := v.(string)
		if !ok || s != string(t.s) {
			return fmt.Sprintf("want str %x got %#v", t.s, v)
		}
	case "bin":
		b, ok := v.([]byte)
		if !ok || !bytes.Equal(b, t.s) {
			return fmt.Sprintf("want bin %x got %#v", t.s, v)
		}
	case "ts", "date":
		tm, ok := v.(time.Time)
		if !ok || tm.Unix() != t.sec || int64(tm.Nanosecond()) != t.nsec {
			return fmt.Sprintf("want instant %d.%09d got %#v", t.sec, t.nsec, v)
		}
	case "dec":
		if t.scale == 0 {
			b, ok := anyToBig(v)
			if !ok || b.Cmp(t.i) != 0 {
				return fmt.Sprintf("want %s got %#v", t.i, v)
			}
			return ""
		}
		f, ok := v.(float64)
		if !ok {
			return fmt.Sprintf("want float64 for decimal got %#v", v)
		}
		if !decimalAsFloatOK(t, f) {
			return fmt.Sprintf("decimal %s became float64 %s (prints back as %s)", decText(t),
				strconv.FormatFloat(f, 'g', -1, 64), strconv.FormatFloat(f, 'f', t.scale, 64))
		}
	default:
		s, ok := v.(string)
		if !ok {
			return fmt.Sprintf("want text string got %#v", v)
		}
		return textEq(t, s)
	}
	return ""
}

// canonAny: canonical text of a decoded value (used to compare limited vs unlimited outputs).
func canonAny(v any) string {
	switch x := v.(type) {
	case nil:
		return "nil"
	case []byte:
		return "x" + hexs(x)
	case string:
		return "s" + hexs([]byte(x))
	case float64:
		return fmt.Sprintf("f%016x", math.Float64bits(x))
	case float32:
		return fmt.Sprintf("g%08x", math.Float32bits(x))
	case time.Time:
		return fmt.Sprintf("t%d.%d", x.Unix(), x.Nanosecond())
	case json.Number:
		return "n" + x.String()
	case []any:
		p := make([]string, len(x))
		for i := range x {
			p[i] = canonAny(x[i])
		}
		return "[" + strings.Join(p, ",") + "]"
	}
	if b, ok := anyToBig(v); ok {
		return "i" + b.String()
	}
	return fmt.Sprintf("%T:%v", v, v)
}
