//go:build verif

package main

// Real DuckDB result sets: random SELECT expressions over range(N), N spanning several Arrow batches
// (DuckDB vector size 2048). Truth = the Arrow records DuckDB hands to arc (+ DuckDB's own VARCHAR cast for
// the wide integer / decimal types); responses = the real HTTP endpoints (JSON, MessagePack, Arrow IPC).

import (
	"bytes"
	"context"
	"encoding/json"
	"fmt"
	"io"
	"math/big"
	"net/http"
	"net/http/httptest"
	"os"
	"strings"
	"time"

	"github.com/apache/arrow-go/v18/arrow"
	"github.com/basekick-labs/arc/internal/api"
	"github.com/basekick-labs/arc/internal/database"
	"github.com/basekick-labs/arc/internal/storage"
	"github.com/basekick-labs/arc/internal/verif/vh"
	"github.com/gofiber/fiber/v2"
	"github.com/rs/zerolog"
)

type duckEnv struct {
	dead bool // the connection pool stopped answering (leak in a handler): skip the remaining DuckDB cases
	c    *vh.Ctx
	be   storage.Backend
	root string
	db   *database.DuckDB
	app  *fiber.App
}

func newDuckEnv() *duckEnv {
	root, err := os.MkdirTemp("/dev/shm", "verif-c19-*")
	must(err)
	logger := zerolog.New(io.Discard).Level(zerolog.Disabled)
	be, err := storage.NewLocalBackend(root, logger)
	must(err)
	db, err := database.New(&database.Config{MemoryLimit: "1GB", ThreadCount: 2, MaxConnections: 32, LocalStorageRoot: root}, logger)
	must(err)
	qh := api.NewQueryHandler(db, be, logger, 60, 0) // 60 s query timeout: a leaked connection pool must not hang the run
	app := fiber.New(fiber.Config{DisableStartupMessage: true})
	qh.RegisterRoutes(app)
	return &duckEnv{root: root, db: db, app: app, be: be}
}

func (e *duckEnv) close() {
	e.db.Close()
	os.RemoveAll(e.root)
}

// sqlExpr: one expression class. f renders the expression over row index `i` with salt k.
type sqlExpr struct {
	key string // type key for monitors
	f   func(k int) string
}

func h(k int) string { return fmt.Sprintf("hash(i + %d)", k) }

func duckExprs() []sqlExpr {
	return []sqlExpr{
		{"int8", func(k int) string { return fmt.Sprintf("((%s %% 256)::INTEGER - 128)::TINYINT", h(k)) }},
		{"int16", func(k int) string { return fmt.Sprintf("((%s %% 65536)::INTEGER - 32768)::SMALLINT", h(k)) }},
		{"int32", func(k int) string { return fmt.Sprintf("((%s %% 4294967296)::BIGINT - 2147483648)::INTEGER", h(k)) }},
		{"int64", func(k int) string {
			return fmt.Sprintf("CASE i %% 7 WHEN 0 THEN -9223372036854775808 WHEN 1 THEN 9223372036854775807 WHEN 2 THEN (%s %% 256)::BIGINT - 128 ELSE (%s >> 1)::BIGINT * (CASE WHEN i %% 2 = 0 THEN 1 ELSE -1 END) END", h(k), h(k))
		}},
		{"uint8", func(k int) string { return fmt.Sprintf("(%s %% 256)::UTINYINT", h(k)) }},
		{"uint16", func(k int) string { return fmt.Sprintf("(%s %% 65536)::USMALLINT", h(k)) }},
		{"uint32", func(k int) string { return fmt.Sprintf("(%s %% 4294967296)::UINTEGER", h(k)) }},
		{"uint64", func(k int) string {
			return fmt.Sprintf("CASE i %% 5 WHEN 0 THEN 18446744073709551615::UBIGINT WHEN 1 THEN (%s %% 300) ELSE %s END", h(k), h(k))
		}},
		{"hugeint", func(k int) string { // fits int64: the msgpack / IPC int64 cast succeeds
			return fmt.Sprintf("((%s >> 2)::HUGEINT * (CASE WHEN i %% 2 = 0 THEN 1 ELSE -1 END))", h(k))
		}},
		{"hugeint", func(k int) string { // beyond int64
			return fmt.Sprintf("CASE i %% 4 WHEN 0 THEN 170141183460469231731687303715884105727::HUGEINT WHEN 1 THEN (-170141183460469231731687303715884105727)::HUGEINT ELSE %s::HUGEINT * (%s %% 1000000007)::HUGEINT * (CASE WHEN i %% 2 = 0 THEN 1 ELSE -1 END) END", h(k), h(k+1))
		}},
		{"uhugeint", func(k int) string {
			return fmt.Sprintf("CASE i %% 3 WHEN 0 THEN 340282366920938463463374607431768211455::UHUGEINT WHEN 1 THEN %s::UHUGEINT ELSE %s::UHUGEINT * %s::UHUGEINT END", h(k), h(k), h(k+1))
		}},
		{"decimal", func(k int) string {
			return fmt.Sprintf("(((%s %% 2000001)::BIGINT - 1000000) * 0.001)::DECIMAL(12,3)", h(k))
		}},
		{"decimal", func(k int) string { return fmt.Sprintf("((%s %% 1000000)::BIGINT)::DECIMAL(9,0)", h(k)) }},
		{"decimal", func(k int) string { // > 2^53: float64 cannot carry it
			return fmt.Sprintf("(((%s >> 2)::BIGINT)::DECIMAL(38,0) * 0.01)::DECIMAL(38,2)", h(k))
		}},
		{"decimal", func(k int) string { return fmt.Sprintf("sum((%s %% 1000)::INTEGER) OVER (ORDER BY i)", h(k)) }},
		{"float64", func(k int) string {
			return fmt.Sprintf("avg((%s %% 1000)::DECIMAL(9,2)) OVER (ORDER BY i ROWS 3 PRECEDING)", h(k))
		}},
		{"float32", func(k int) string {
			return fmt.Sprintf("CASE i %% 9 WHEN 0 THEN 'nan'::FLOAT WHEN 1 THEN 'inf'::FLOAT WHEN 2 THEN '-inf'::FLOAT WHEN 3 THEN '-0'::FLOAT WHEN 4 THEN 0.1::FLOAT ELSE ((%s %% 2000000)::BIGINT - 1000000)::FLOAT / 1024 END", h(k))
		}},
		{"float64", func(k int) string {
			return fmt.Sprintf("CASE i %% 9 WHEN 0 THEN 'nan'::DOUBLE WHEN 1 THEN 'inf'::DOUBLE WHEN 2 THEN '-inf'::DOUBLE WHEN 3 THEN '-0'::DOUBLE WHEN 4 THEN 0.1::DOUBLE WHEN 5 THEN 1e308 * 1.5::DOUBLE WHEN 6 THEN 5e-324::DOUBLE ELSE (%s::DOUBLE / 3.0) * sin(i) END", h(k))
		}},
		{"bool", func(k int) string { return fmt.Sprintf("(%s %% 2 = 0)", h(k)) }},
		{"utf8", func(k int) string {
			return fmt.Sprintf("CASE i %% 6 WHEN 0 THEN chr((%s %% 31 + 1)::INTEGER) || '\"q\\' WHEN 1 THEN repeat(chr((%s %% 2000 + 128)::INTEGER), (i %% 40)::INTEGER) WHEN 2 THEN chr((%s %% 60000 + 70000)::INTEGER) || 'é中' WHEN 3 THEN '' WHEN 4 THEN repeat('ab\"', (%s %% 120)::INTEGER) ELSE 'v' || i::VARCHAR || chr(10) || chr(9) END", h(k), h(k), h(k), h(k))
		}},
		{"binary", func(k int) string {
			return fmt.Sprintf("CASE i %% 4 WHEN 0 THEN ''::BLOB WHEN 1 THEN encode('é\"' || i::VARCHAR) WHEN 2 THEN unhex(lpad(to_hex(%s), 16, '0')) ELSE unhex(repeat(lpad(to_hex(%s %% 256), 2, '0'), (i %% 300)::INTEGER)) END", h(k), h(k))
		}},
		{"date32", func(k int) string {
			return fmt.Sprintf("(DATE '1970-01-01' + ((%s %% 200000)::INTEGER - 100000))", h(k))
		}},
		{"timestamp[us]", func(k int) string {
			return fmt.Sprintf("make_timestamp(((%s %% 8000000000000000)::BIGINT - 4000000000000000))", h(k))
		}},
		{"timestamp[s]", func(k int) string {
			return fmt.Sprintf("make_timestamp(((%s %% 8000000000000000)::BIGINT - 4000000000000000))::TIMESTAMP_S", h(k))
		}},
		{"timestamp[ms]", func(k int) string {
			return fmt.Sprintf("make_timestamp(((%s %% 8000000000000000)::BIGINT - 4000000000000000))::TIMESTAMP_MS", h(k))
		}},
		{"timestamp[ns]", func(k int) string {
			return fmt.Sprintf("make_timestamp_ns(((%s %% 8000000000000000000)::BIGINT - 4000000000000000000))", h(k))
		}},
		{"timestamp[us,tz]", func(k int) string {
			return fmt.Sprintf("make_timestamp(((%s %% 8000000000000000)::BIGINT - 4000000000000000))::TIMESTAMPTZ", h(k))
		}},
		{"interval", func(k int) string {
			return fmt.Sprintf("(to_months((%s %% 500)::INTEGER - 250) + to_days((%s %% 5000)::INTEGER - 2500) + to_microseconds((%s %% 100000000000)::BIGINT - 50000000000))", h(k), h(k+1), h(k+2))
		}},
		{"time64", func(k int) string {
			return fmt.Sprintf("(TIME '00:00:00' + to_microseconds((%s %% 86400000000)::BIGINT))", h(k))
		}},
		{"list", func(k int) string {
			return fmt.Sprintf("CASE WHEN i %% 5 = 0 THEN [] ELSE [(%s %% 100)::INTEGER, NULL, (i %% 7)::INTEGER] END", h(k))
		}},
		{"list", func(k int) string { return fmt.Sprintf("[[i, NULL], [], [(%s >> 1)::BIGINT]]", h(k)) }},
		{"list", func(k int) string {
			return fmt.Sprintf("['a\"' || chr((%s %% 31 + 1)::INTEGER), NULL, 'é' || i::VARCHAR]", h(k))
		}},
		{"list", func(k int) string { return "[i::DOUBLE / 3, 'nan'::DOUBLE, '-inf'::DOUBLE, '-0'::DOUBLE]" }},
		{"struct", func(k int) string {
			return fmt.Sprintf("{'a': (%s %% 1000)::INTEGER, 'b': 'x\"' || i::VARCHAR, 'c': [i, NULL], 'd': i::DOUBLE / 7, 'e': i %% 2 = 0}", h(k))
		}},
		{"enum", func(k int) string {
			return "(CASE i % 3 WHEN 0 THEN 'a' WHEN 1 THEN 'b\"c' ELSE 'é' END)::ENUM('a', 'b\"c', 'é')"
		}},
	}
}

// nullWrap: NULL pattern around an expression
func nullWrap(expr string, mode int, n int) string {
	switch mode {
	case 1:
		return fmt.Sprintf("CASE WHEN i = 0 THEN NULL ELSE %s END", expr)
	case 2:
		return fmt.Sprintf("CASE WHEN i = %d THEN NULL ELSE %s END", n-1, expr)
	case 3:
		return fmt.Sprintf("CASE WHEN hash(i + 977) %% 3 = 0 THEN NULL ELSE %s END", expr)
	case 4:
		return fmt.Sprintf("CASE WHEN i >= 0 THEN NULL ELSE %s END", expr)
	}
	return expr
}

// arrowQuery runs a query through arc's database layer and retains the Arrow records DuckDB produced.
func (e *duckEnv) arrowQuery(q string) (*arrow.Schema, []arrow.Record, error) {
	if e.dead {
		return nil, nil, fmt.Errorf("connection pool exhausted earlier")
	}
	ctx, cancel := context.WithTimeout(context.Background(), 45*time.Second)
	defer cancel()
	rd, conn, err := e.db.ArrowQueryContext(ctx, q)
	if err != nil && ctx.Err() != nil {
		e.dead = true
		if e.c != nil {
			e.c.Fail("query-connection-leak:duck", "DuckDB connection pool no longer hands out connections: a response handler leaked them (reader/conn not released after a failure)", "after the requests recorded in the other findings of this run; last query: "+short(q, 300))
		}
	}
	if err != nil {
		return nil, nil, err
	}
	defer conn.Close()
	defer rd.Release()
	var recs []arrow.Record
	for rd.Next() {
		r := rd.Record()
		r.Retain()
		recs = append(recs, r)
	}
	return rd.Schema(), recs, rd.Err()
}

func (e *duckEnv) post(ep, q string) (int, []byte, error) { return e.postOn(e.app, ep, q, nil) }

// postOn: POST on a given fiber app (the long-lived one, or a fresh handler) with optional extra headers.
func (e *duckEnv) postOn(app *fiber.App, ep, q string, hdr map[string]string) (int, []byte, error) {
	body, _ := json.Marshal(map[string]string{"sql": q})
	mk := func() *http.Request {
		req := httptest.NewRequest("POST", ep, bytes.NewReader(body))
		req.Header.Set("Content-Type", "application/json")
		for k, v := range hdr {
			req.Header.Set(k, v)
		}
		return req
	}
	resp, err := app.Test(mk(), 90000)
	if err != nil && strings.Contains(err.Error(), "malformed HTTP") && e.c != nil {
		// the response HEAD itself is corrupted: respHeader.Set(trailer) in the Arrow stream-writer goroutine races
		// with fasthttp serialising the head into the same ResponseHeader.bufKV buffer
		e.c.Fail("ipc-malformed:http-trailer-race", "HTTP response head corrupted: "+err.Error(), "endpoint="+ep+" source="+short(q, 600)+" (timing dependent: repeat tiny Arrow queries)")
		resp, err = app.Test(mk(), 90000)
	}
	if err != nil {
		return 0, nil, err
	}
	b, err := io.ReadAll(resp.Body)
	return resp.StatusCode, b, err
}

// sqlTextTruth: DuckDB's own text for wide integer / decimal columns (database/sql, no Arrow involved).
func (e *duckEnv) sqlTextTruth(q string, names []string) ([][]*string, error) {
	ncols := len(names)
	parts := make([]string, ncols)
	for j := range parts {
		parts[j] = fmt.Sprintf("CAST(\"%s\" AS VARCHAR)", names[j])
	}
	rows, err := e.db.DB().Query("SELECT " + strings.Join(parts, ", ") + " FROM (" + q + ")")
	if err != nil {
		return nil, err
	}
	defer rows.Close()
	var out [][]*string
	for rows.Next() {
		vals := make([]*string, ncols)
		ptrs := make([]any, ncols)
		for j := range vals {
			ptrs[j] = &vals[j]
		}
		if err := rows.Scan(ptrs...); err != nil {
			return nil, err
		}
		out = append(out, vals)
	}
	return out, rows.Err()
}

// duckCase: one random SELECT; all three endpoints + function-level row limits.
func duckCase(c *vh.Ctx, m *monitor, e *duckEnv, r *vh.Rand, exprs []sqlExpr, n int, nullMode int, tag string) {
	keys := make([]string, len(exprs))
	parts := make([]string, len(exprs))
	for j, x := range exprs {
		keys[j] = x.key
		parts[j] = fmt.Sprintf("%s AS %s", nullWrap(x.f(r.Intn(1000)), nullMode, n), alias(r, j))
	}
	q := fmt.Sprintf("SELECT %s FROM range(%d) t(i)", strings.Join(parts, ", "), n)
	c.Tag("duck:" + tag)
	schema, recs, err := e.arrowQuery(q)
	if err != nil {
		c.Tag("duck:query-error")
		c.Extra["duck_query_error"] = short(q, 300) + " => " + short(err.Error(), 300)
		return
	}
	fkeys := make([]string, len(keys)) // format monitors: UHUGEINT arrives as decimal(38,0), the HUGEINT class
	for j, k := range keys {
		fkeys[j] = k
		if k == "uhugeint" {
			fkeys[j] = "hugeint"
		}
	}
	rs := newResultSet(q, schema, recs, fkeys)
	defer rs.release()
	c.Case(q, n > 0)
	if len(recs) > 1 {
		c.Tag("duck:multi-batch")
	}
	// DuckDB -> Arrow conversion (library, outside the model) against DuckDB's own text for wide numerics
	wide := false
	for _, k := range keys {
		if k == "hugeint" || k == "uhugeint" || k == "decimal" || k == "uint64" || k == "int64" {
			wide = true
		}
	}
	if wide {
		if txt, err := e.sqlTextTruth(q, schemaNames(schema)); err == nil && len(txt) == rs.nrows {
			for j, ct := range rs.cols {
				ct.key = keys[j]
				if !(ct.key == "hugeint" || ct.key == "uhugeint" || ct.key == "decimal" || ct.key == "uint64" || ct.key == "int64") {
					continue
				}
				for i, t := range ct.cells {
					s := txt[i][j]
					if (s == nil) != t.null {
						c.Tag("duckdb-arrow-export-differs:" + ct.key) // upstream of arc's encoders: recorded, not a finding
						break
					}
					if s == nil {
						continue
					}
					want, ok := new(big.Rat).SetString(*s)
					var got *big.Rat
					if t.kind == "dec" {
						got = decRat(t)
					} else if t.kind == "int" {
						got = new(big.Rat).SetInt(t.i)
					}
					if got == nil {
						break // DuckDB chose a non-decimal result type for this expression
					}
					if !ok || want.Cmp(got) != 0 {
						// DuckDB's Arrow export (library, upstream of arc): e.g. UHUGEINT >= 2^127 wraps in decimal128(38,0).
						// arc faithfully encodes what the export produced, so this is recorded, not a finding.
						c.Tag("duckdb-arrow-export-differs:" + ct.key)
						if c.Extra["duckdb_arrow_export_differs"] == nil {
							c.Extra["duckdb_arrow_export_differs"] = fmt.Sprintf("type=%s DuckDB says %s, Arrow record says %s", ct.key, *s, canon(t))
						}
						break
					}
				}
			}
		}
	}
	// --- JSON over HTTP
	st, body, err := e.post("/api/v1/query", q)
	if err != nil || st != 200 {
		c.Fail("json-malformed:http", fmt.Sprintf("status %d err %v body %s", st, err, short(string(body), 200)), "format=json source="+short(q, 600))
	} else {
		m.checkDecoded("json", rs, decodeJSON(body), rs.nrows, checkJSON)
	}
	// --- MessagePack over HTTP
	st, body, err = e.post("/api/v1/query/msgpack", q)
	mpFailed := false
	if err != nil {
		c.Fail("msgpack-malformed:http", fmt.Sprint(err), "format=msgpack source="+short(q, 600))
	} else if st != 200 {
		mpFailed = true
		if st == 500 && bytes.Contains(body, []byte("decimal cast failed")) {
			c.Tag("msgpack:decimal-cast-error-reported-as-5xx") // an honest failure, not a wrong answer
		} else {
			c.Fail("msgpack-malformed:http", fmt.Sprintf("status %d body %s", st, short(string(body), 200)), "format=msgpack source="+short(q, 600))
		}
	} else {
		m.checkDecoded("msgpack", rs, decodeMsgPack(body), rs.nrows, checkMP)
	}
	// --- Arrow IPC over HTTP
	st, body, err = e.post("/api/v1/query/arrow", q)
	if err != nil || st != 200 {
		c.Fail("ipc-malformed:http", fmt.Sprintf("status %d err %v body %s", st, err, short(string(body), 200)), "format=ipc source="+short(q, 600))
	} else {
		sc, rr, derr := decodeIPC(body)
		m.checkIPC("ipc", rs, sc, rr, derr, rs.nrows)
		for _, x := range rr {
			x.Release()
		}
	}
	// --- governance row limit (function level: the HTTP path needs a license + token to set it)
	if rs.nrows > 0 {
		lims := []int{1, rs.nrows - 1, rs.nrows, rs.nrows + 1, 2048, 2049, 1 + r.Intn(rs.nrows)}
		full, _, _ := runJSON(rs, 0)
		fd := decodeJSON(full)
		var fm decoded
		if !mpFailed {
			b, _, derr, _ := runMsgPack(rs, 0)
			if derr != nil {
				mpFailed = true
			} else {
				fm = decodeMsgPack(b)
			}
		}
		for _, l := range lims[:3+r.Intn(5)] {
			if l <= 0 {
				continue
			}
			b, _, _ := runJSON(rs, l)
			m.checkRowLimit("json", rs, fd, decodeJSON(b), l)
			if !mpFailed {
				b, _, derr, _ := runMsgPack(rs, l)
				if derr == nil {
					m.checkRowLimit("msgpack", rs, fm, decodeMsgPack(b), l)
				}
			}
			c.Tag("rowlimit:duck")
		}
	}
}

var aliasStems = []string{"c", "v", "bytes_in", "bytes_out", "host", "total", "avg_cpu", "t", "value", "n", "usage_idle", "region", "cnt", "x"}

// alias: a column alias that differs between queries (result shape caches must not leak names) but is unique
// inside one query (the index is part of it).
func alias(r *vh.Rand, j int) string { return fmt.Sprintf("%s_%d", vh.Pick(r, aliasStems), j) }

func schemaNames(s *arrow.Schema) []string {
	out := make([]string, s.NumFields())
	for j := range out {
		out[j] = s.Field(j).Name
	}
	return out
}

// allFormats runs one SELECT through the three HTTP endpoints of `app` and checks each response against the
// Arrow records DuckDB produces for that very query (column names = the query's own aliases). hdr = extra
// headers for the Arrow endpoint; ipcName = format label used in the Arrow monitor keys.
func allFormats(c *vh.Ctx, m *monitor, e *duckEnv, app *fiber.App, q string, keys []string, hdr map[string]string, ipcName string) (jd, md decoded, ipcCanon string, ok bool) {
	schema, recs, err := e.arrowQuery(q)
	if err != nil {
		c.Tag("duck:query-error")
		c.Extra["duck_query_error"] = short(q, 300) + " => " + short(err.Error(), 300)
		return
	}
	rs := newResultSet(q, schema, recs, keys)
	defer rs.release()
	c.Case(q+"|"+ipcName, rs.nrows > 0)
	st, body, err := e.postOn(app, "/api/v1/query", q, nil)
	if err != nil || st != 200 {
		c.Fail("json-malformed:http", fmt.Sprintf("status %d err %v body %s", st, err, short(string(body), 200)), "format=json source="+short(q, 600))
	} else {
		jd = decodeJSON(body)
		m.checkDecoded("json", rs, jd, rs.nrows, checkJSON)
	}
	st, body, err = e.postOn(app, "/api/v1/query/msgpack", q, nil)
	if err != nil || st != 200 {
		c.Fail("msgpack-malformed:http", fmt.Sprintf("status %d err %v body %s", st, err, short(string(body), 200)), "format=msgpack source="+short(q, 600))
	} else {
		md = decodeMsgPack(body)
		m.checkDecoded("msgpack", rs, md, rs.nrows, checkMP)
	}
	st, body, err = e.postOn(app, "/api/v1/query/arrow", q, hdr)
	if err != nil || st != 200 {
		c.Fail(ipcName+"-malformed:http", fmt.Sprintf("status %d err %v body %s", st, err, short(string(body), 200)), "format="+ipcName+" source="+short(q, 600))
	} else {
		sc, rr, derr := decodeIPC(body)
		m.checkIPC(ipcName, rs, sc, rr, derr, rs.nrows)
		var sb strings.Builder
		if sc != nil {
			sb.WriteString(strings.Join(schemaNames(sc), ","))
		}
		for _, x := range rr {
			for j := 0; j < int(x.NumCols()); j++ {
				for k := 0; k < x.Column(j).Len(); k++ {
					sb.WriteString(canon(truthCell(x.Column(j), k)))
					sb.WriteByte(';')
				}
			}
			x.Release()
		}
		ipcCanon = sb.String()
	}
	return jd, md, ipcCanon, true
}

// decimal-producing column kinds whose values survive arc's int64 / float64 normalisation exactly (the lossy and
// overflowing ones are known findings with their own keys and are exercised by duckCase)
var safeDecimalExprs = []sqlExpr{
	{"decimal", func(k int) string { return fmt.Sprintf("sum((%s %% 1000)::INTEGER) OVER (ORDER BY i)", h(k)) }},
	{"hugeint", func(k int) string {
		return fmt.Sprintf("((%s >> 2)::HUGEINT * (CASE WHEN i %% 2 = 0 THEN 1 ELSE -1 END))", h(k))
	}},
	{"decimal", func(k int) string { return fmt.Sprintf("((%s %% 1000000)::BIGINT)::DECIMAL(9,0)", h(k)) }},
	{"decimal", func(k int) string {
		return fmt.Sprintf("(((%s %% 2000001)::BIGINT - 1000000) * 0.001)::DECIMAL(12,3)", h(k))
	}},
	{"float64", func(k int) string {
		return fmt.Sprintf("avg((%s %% 1000)::DECIMAL(9,2)) OVER (ORDER BY i ROWS 3 PRECEDING)", h(k))
	}},
	{"int64", func(k int) string { return fmt.Sprintf("(%s >> 3)::BIGINT", h(k)) }},
}

var lowCardExprs = []sqlExpr{
	{"utf8", func(k int) string { return fmt.Sprintf("'host_' || (i %% %d)::VARCHAR", 2+k%9) }},
	{"utf8", func(k int) string {
		return fmt.Sprintf("CASE WHEN i %% 11 = 3 THEN NULL ELSE 'r\"' || (%s %% 5)::VARCHAR END", h(k))
	}},
	{"utf8", func(k int) string { return "CASE i % 3 WHEN 0 THEN 'eu-west' WHEN 1 THEN 'é' ELSE '' END" }},
}

// dictCase: the Arrow endpoint with and without the opt-in x-arc-arrow-dictionary header, on result sets whose
// first batch has >= 256 rows, low-cardinality string columns and each decimal-producing column kind; header-on,
// header-off and JSON/msgpack must all carry the query's own names, row count and cells.
func dictCase(c *vh.Ctx, m *monitor, e *duckEnv, r *vh.Rand, i int) {
	n := vh.Pick(r, []int{300, 256, 5000, 2049})
	var xs []sqlExpr
	xs = append(xs, lowCardExprs[i%len(lowCardExprs)], safeDecimalExprs[i%len(safeDecimalExprs)])
	for k := r.Intn(3); k > 0; k-- {
		if r.Bool() {
			xs = append(xs, vh.Pick(r, safeDecimalExprs))
		} else {
			xs = append(xs, vh.Pick(r, lowCardExprs))
		}
	}
	if r.Bool() { // column order must not matter
		xs[0], xs[1] = xs[1], xs[0]
	}
	keys := make([]string, len(xs))
	parts := make([]string, len(xs))
	for j, x := range xs {
		keys[j] = x.key
		parts[j] = fmt.Sprintf("%s AS %s", x.f(r.Intn(1000)), alias(r, j))
	}
	q := fmt.Sprintf("SELECT %s FROM range(%d) t(i)", strings.Join(parts, ", "), n)
	_, _, off, ok := allFormats(c, m, e, e.app, q, keys, nil, "ipc")
	if !ok {
		return
	}
	_, _, on, _ := allFormats(c, m, e, e.app, q, keys, map[string]string{"x-arc-arrow-dictionary": "true"}, "ipc-dict")
	if on != off {
		c.Fail("ipc-dict-differs-from-plain", "Arrow response with x-arc-arrow-dictionary decodes to other names/cells than without it", "format=ipc-dict header=x-arc-arrow-dictionary:true source="+short(q, 600))
	}
	c.Tag("duck:dictionary-header")
}

// seqCase: a sequence of queries with IDENTICAL column type vectors but different aliases / column order on the one
// long-lived handler, all three formats each; then every query again on a fresh handler: the response to Q must not
// depend on what was asked before.
func seqCase(c *vh.Ctx, m *monitor, e *duckEnv, r *vh.Rand, i int) {
	n := vh.Pick(r, []int{3, 7, 300})
	base := []sqlExpr{safeDecimalExprs[i%len(safeDecimalExprs)], vh.Pick(r, lowCardExprs), vh.Pick(r, safeDecimalExprs)}
	salts := []int{r.Intn(1000), r.Intn(1000), r.Intn(1000)}
	type qd struct {
		q    string
		keys []string
	}
	var qs []qd
	for v := 0; v < 2+r.Intn(2); v++ {
		order := []int{0, 1, 2}
		if v == 2 {
			order = []int{2, 1, 0} // same multiset of types, other order
		}
		keys := make([]string, 3)
		parts := make([]string, 3)
		for j, o := range order {
			keys[j] = base[o].key
			parts[j] = fmt.Sprintf("%s AS %s", base[o].f(salts[o]), alias(r, j)) // same expressions => same types, new names
		}
		qs = append(qs, qd{fmt.Sprintf("SELECT %s FROM range(%d) t(i)", strings.Join(parts, ", "), n), keys})
	}
	type resp struct{ j, mp, ipc string }
	first := make([]resp, len(qs))
	canonD := func(d decoded) string { return strings.Join(d.cols, ",") + "#" + strings.Join(rowsCanon(d.rows), "/") }
	for k, x := range qs {
		jd, md, ic, ok := allFormats(c, m, e, e.app, x.q, x.keys, nil, "ipc")
		if !ok {
			return
		}
		first[k] = resp{canonD(jd), canonD(md), ic}
	}
	logger := zerolog.New(io.Discard).Level(zerolog.Disabled)
	fresh := fiber.New(fiber.Config{DisableStartupMessage: true})
	api.NewQueryHandler(e.db, e.be, logger, 60, 0).RegisterRoutes(fresh)
	for k := len(qs) - 1; k >= 0; k-- { // other order on the fresh handler
		x := qs[k]
		jd, md, ic, ok := allFormats(c, m, e, fresh, x.q, x.keys, nil, "ipc")
		if !ok {
			return
		}
		seq := fmt.Sprintf("sequence=%q", func() []string {
			o := make([]string, len(qs))
			for a := range qs {
				o[a] = short(qs[a].q, 200)
			}
			return o
		}())
		if canonD(jd) != first[k].j {
			c.Fail("order-dependent-response:json", "the JSON response to a query depends on the queries served before it", seq)
		}
		if canonD(md) != first[k].mp {
			c.Fail("order-dependent-response:msgpack", "the MessagePack response to a query depends on the queries served before it", seq)
		}
		if ic != first[k].ipc {
			c.Fail("order-dependent-response:ipc", "the Arrow response to a query depends on the queries served before it", seq)
		}
	}
	c.Tag("duck:sequence")
}
