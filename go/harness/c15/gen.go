//go:build verif

package main

import (
	"bytes"
	"strings"

	"github.com/basekick-labs/arc/internal/verif/vh"
)

// ---- token grammar: every generated token carries its ground-truth kind; for the "select list"
// shape the expected DuckDB evaluation (column name, value) is known as well.

type gtok struct {
	kind byte // 'r','s','i','l','b'
	text string
}

type col struct{ name, val string }

func pickS(r *vh.Rand, xs []string) string { return xs[r.Intn(len(xs))] }

var plainFrags = []string{"__IDENT_0__", "__IDENT_0__", "a", "b", "x y", "''", "\\", "\\\\", "--", "/*", "*/", "$$", "$t$", "\"", "\n", "\t", "é", "__STR_0__", "__IDENT_1__", "STR_", ";", "e", "E", "1", " ", "FROM t", "\\n"}

func genPlain(r *vh.Rand) (string, string) {
	var sb strings.Builder
	n := r.Intn(5)
	for i := 0; i < n; i++ {
		sb.WriteString(pickS(r, plainFrags))
	}
	body := sb.String()
	return "'" + body + "'", strings.ReplaceAll(body, "''", "'")
}

type efrag struct{ src, val string }

var eFrags = []efrag{{"__IDENT_0__", "__IDENT_0__"}, {"it\\'s", "it's"}, {"a", "a"}, {"b c", "b c"}, {"''", "'"}, {"\\\\", "\\"}, {"\\'", "'"}, {"\\n", "\n"}, {"\\t", "\t"}, {"\\\"", "\""}, {"\\z", "z"}, {"\\-", "-"},
	{"\"", "\""}, {"--", "--"}, {"/*", "/*"}, {"*/", "*/"}, {"$$", "$$"}, {"\n", "\n"}, {"é", "é"}, {"__STR_0__", "__STR_0__"}, {"1", "1"}, {";", ";"}}

func genE(r *vh.Rand) (string, string) {
	var sb, vb strings.Builder
	n := r.Intn(5)
	for i := 0; i < n; i++ {
		f := eFrags[r.Intn(len(eFrags))]
		sb.WriteString(f.src)
		vb.WriteString(f.val)
	}
	p := "E'"
	if r.Bool() {
		p = "e'"
	}
	return p + sb.String() + "'", vb.String()
}

var dollarTags = []string{"", "", "t", "tag", "_x1", "T", "é", "a_b"}
var dollarFrags = []string{"__IDENT_0__", "__IDENT_1__", "it's", "say \"hi", "a", "b c", "'", "''", "\"", "\\", "$", "$$", "$x$", "--", "/*", "*/", "\n", "é", "__STR_0__", "1", ";", "t", "$t"}

func genDollar(r *vh.Rand) (string, string) {
	tag := pickS(r, dollarTags)
	closing := "$" + tag + "$"
	for try := 0; try < 8; try++ {
		var sb strings.Builder
		n := r.Intn(5)
		for i := 0; i < n; i++ {
			sb.WriteString(pickS(r, dollarFrags))
		}
		body := sb.String()
		if strings.Index(body+closing, closing) == len(body) {
			return closing + body + closing, body
		}
	}
	return closing + "v" + closing, "v"
}

var identFrags = []string{"a", "b", "Host", "cpu", "É", "ñ", "x y", "\"\"", "'", "\\", "--", "/*", "*/", "$$", "é", "__IDENT_0__", "__STR_1__", "1", ";", "e"}

// swapCase flips ASCII letter case and é/É, ñ/Ñ (non-ASCII case variants).
func swapCase(t string, r *vh.Rand) string {
	t = strings.NewReplacer("é", "\x00", "É", "é", "ñ", "\x01", "Ñ", "ñ").Replace(t)
	t = strings.NewReplacer("\x00", "É", "\x01", "Ñ").Replace(t)
	b := []byte(t)
	for i, c := range b {
		if r.Chance(70) {
			switch {
			case c >= 'a' && c <= 'z':
				b[i] = c - 32
			case c >= 'A' && c <= 'Z':
				b[i] = c + 32
			}
		}
	}
	return string(b)
}

// genQIdentPool: like genQIdent, but often repeats an identifier already used in this string —
// identical, or differing only in (ASCII / non-ASCII) letter case. The masker shares one placeholder
// between IDENTICAL quoted identifiers only.
func genQIdentPool(r *vh.Rand, pool *[]string) (string, string) {
	if len(*pool) > 0 && r.Chance(45) {
		t := (*pool)[r.Intn(len(*pool))]
		if r.Chance(60) {
			t = swapCase(t, r)
		}
		*pool = append(*pool, t)
		body := t[1 : len(t)-1]
		return t, strings.ReplaceAll(body, "\"\"", "\"")
	}
	t, name := genQIdent(r)
	*pool = append(*pool, t)
	return t, name
}

func genQIdent(r *vh.Rand) (string, string) {
	var sb strings.Builder
	n := 1 + r.Intn(4)
	for i := 0; i < n; i++ {
		sb.WriteString(pickS(r, identFrags))
	}
	body := sb.String()
	return "\"" + body + "\"", strings.ReplaceAll(body, "\"\"", "\"")
}

var plainIdents = []string{"c1", "col", "x", "y_2", "col$x", "x$$", "_a$1", "été", "k$t$", "__STR_0__", "__IDENT_0__", "str_1__", "e", "e1", "zz"}

var lineFrags = []string{"a", " c ", "'", "\"", "$$", "$t$", "/*", "*/", "--", "\\", "é", "E'", "__STR_0__", ";", "SELECT 1", "\t"}

// line comment text without terminator
func genLine(r *vh.Rand) string {
	var sb strings.Builder
	sb.WriteString("--")
	n := r.Intn(4)
	for i := 0; i < n; i++ {
		sb.WriteString(pickS(r, lineFrags))
	}
	return sb.String()
}

var blockFrags = []string{"a", " c ", "'", "\"", "$$", "$t$", "--", "\\", "é", "\n", "\r", "E'", "__STR_0__", ";", "* ", " /", "SELECT 1", "''"}

func genBlock(r *vh.Rand, depth int) string {
	var sb strings.Builder
	sb.WriteString("/*")
	n := r.Intn(4)
	for i := 0; i < n; i++ {
		if depth < 3 && r.Chance(22) {
			sb.WriteString(genBlock(r, depth+1))
		} else {
			f := pickS(r, blockFrags)
			// never let two fragments form an unintended "*/" or "/*"
			cur := sb.String()
			if len(f) > 0 && len(cur) > 0 {
				l, c := cur[len(cur)-1], f[0]
				if (l == '*' && c == '/') || (l == '/' && c == '*') {
					sb.WriteByte(' ')
				}
			}
			sb.WriteString(f)
		}
	}
	cur := sb.String()
	if cur[len(cur)-1] == '/' && len(cur) > 2 { // "/" + "*/" would read as "/*"
		sb.WriteByte(' ')
	}
	sb.WriteString("*/")
	return sb.String()
}

// wsNoComments: when set, genWS emits white space only, so that the first comment of the string is the
// trailing one (the pre-scan → mask → strip sequence then depends on the pre-scan seeing it).
var wsNoComments bool

// white space / comments between tokens; always at least one separating byte
func genWS(r *vh.Rand, toks *[]gtok, last bool) {
	n := 1 + r.Intn(2)
	for i := 0; i < n; i++ {
		k := r.Intn(10)
		if wsNoComments && k >= 6 {
			k = r.Intn(6)
		}
		switch k {
		case 0, 1, 2, 3:
			*toks = append(*toks, gtok{'r', " "})
		case 4:
			*toks = append(*toks, gtok{'r', "\n"})
		case 5:
			*toks = append(*toks, gtok{'r', pickS(r, []string{"\t", "\r\n", " \n ", "\r"})})
		case 6, 7:
			*toks = append(*toks, gtok{'l', genLine(r)})
			*toks = append(*toks, gtok{'r', pickS(r, []string{"\n", "\n", "\r", "\r\n"})})
		default:
			*toks = append(*toks, gtok{'b', genBlock(r, 1)})
			if r.Chance(70) {
				*toks = append(*toks, gtok{'r', " "})
			}
		}
	}
}

// genSelect builds `SELECT item, item …` with known tokenisation and known DuckDB evaluation.
func genSelect(r *vh.Rand) ([]gtok, []col) {
	var toks []gtok
	var cols []col
	var pool []string
	wsNoComments = r.Chance(35)
	defer func() { wsNoComments = false }()
	toks = append(toks, gtok{'r', pickS(r, []string{"SELECT", "select", "Select"})})
	genWS(r, &toks, false)
	n := 1 + r.Intn(4)
	for i := 0; i < n; i++ {
		if i > 0 {
			toks = append(toks, gtok{'r', ","})
			if r.Chance(80) {
				genWS(r, &toks, false)
			}
		}
		var val string
		switch r.Intn(8) {
		case 0, 1, 2:
			t, v := genPlain(r)
			toks = append(toks, gtok{'s', t})
			val = v
		case 3, 4:
			t, v := genE(r)
			toks = append(toks, gtok{'s', t})
			val = v
		case 5, 6:
			t, v := genDollar(r)
			toks = append(toks, gtok{'s', t})
			val = v
		default:
			v := pickS(r, []string{"1", "42", "7"})
			toks = append(toks, gtok{'r', v})
			val = v
		}
		if r.Chance(50) {
			genWS(r, &toks, false)
		} else {
			toks = append(toks, gtok{'r', " "})
		}
		toks = append(toks, gtok{'r', pickS(r, []string{"AS", "as"})})
		genWS(r, &toks, false)
		if r.Chance(55) {
			t, name := genQIdentPool(r, &pool)
			toks = append(toks, gtok{'i', t})
			cols = append(cols, col{name, val})
		} else {
			name := pickS(r, plainIdents)
			toks = append(toks, gtok{'r', name})
			cols = append(cols, col{name, val})
		}
		if r.Chance(30) {
			genWS(r, &toks, false)
		}
	}
	switch r.Intn(6) {
	case 0:
		toks = append(toks, gtok{'r', " "}, gtok{'l', genLine(r)}) // trailing comment without newline
	case 1:
		toks = append(toks, gtok{'r', " "}, gtok{'b', genBlock(r, 1)})
	case 2:
		toks = append(toks, gtok{'r', ";"})
	case 3:
		toks = append(toks, gtok{'b', genBlock(r, 1)}, gtok{'r', ";"})
	}
	return toks, cols
}

func joinToks(toks []gtok) []byte {
	var b bytes.Buffer
	for _, t := range toks {
		b.WriteString(t.text)
	}
	return b.Bytes()
}

func truthStr(toks []gtok) string {
	var l []seg
	for _, t := range toks {
		if t.kind == 'r' {
			for i := 0; i < len(t.text); i++ {
				l = append(l, seg{'r', []byte{t.text[i]}})
			}
		} else {
			l = append(l, seg{t.kind, []byte(t.text)})
		}
	}
	return segsStr(l)
}

// ---- glued tokens: the same token generators without separators (truth from SqlLex only)
func genGlued(r *vh.Rand) []byte {
	var b bytes.Buffer
	var pool []string
	n := 1 + r.Intn(6)
	for i := 0; i < n; i++ {
		switch r.Intn(12) {
		case 0, 1:
			t, _ := genPlain(r)
			b.WriteString(t)
		case 2:
			t, _ := genE(r)
			b.WriteString(t)
		case 3, 4:
			t, _ := genDollar(r)
			b.WriteString(t)
		case 5:
			t, _ := genQIdentPool(r, &pool)
			b.WriteString(t)
			if r.Chance(50) {
				b.WriteByte(' ')
				t, _ = genQIdentPool(r, &pool)
				b.WriteString(t)
			}
		case 6:
			b.WriteString(genLine(r))
			b.WriteString(pickS(r, []string{"\n", "\r", "", "\r\n"}))
		case 7:
			b.WriteString(genBlock(r, 1))
		case 8:
			b.WriteString(pickS(r, plainIdents))
		case 9:
			b.WriteString(pickS(r, []string{"1", "12", "1e", "0x1", "é", "ñ", "x", "e", "E", "_", "$", "$1"}))
		default:
			b.WriteString(pickS(r, []string{" ", "\n", ",", "(", ")", ";", "=", " FROM ", "SELECT ", "*", "/", "-", "+"}))
		}
	}
	return b.Bytes()
}

var soupFrags = []string{"'", "'", "\"", "\"", "''", "\"\"", "\\", "\\", "\\'", "\\\"", "$", "$$", "$t$", "$é$", "$1", "E'", "e'", "E", "e", "a", "b", "x", "1", "9", "_",
	"__STR_0__", "__STR_1__", "__IDENT_0__", "__IDENT_1__", "__STR_", "STR_0__", "IDENT_0__", "STR_", "__", "--", "/*", "*/", "*", "/", "-", "\n", "\r", " ", "\t", "é", "\xff",
	"SELECT", "FROM", ";", "(", ")", ",", "N'", "x'", "U&'", "\"Host\"", "\"host\"", "\"HOST\"", "\"é\"", "\"É\""}

func genSoup(r *vh.Rand) []byte {
	var b bytes.Buffer
	n := r.Intn(12)
	for i := 0; i < n; i++ {
		b.WriteString(pickS(r, soupFrags))
	}
	return b.Bytes()
}

// small alphabet for the dense enumeration / random short strings
var tiny = []byte("'\"\\$-/*\nEe_a1 \r")

func genTiny(r *vh.Rand) []byte {
	n := r.Intn(9)
	b := make([]byte, n)
	for i := range b {
		b[i] = tiny[r.Intn(len(tiny))]
	}
	return b
}
