//go:build verif

// C15 harness: real MaskStringLiterals / UnmaskStringLiterals (internal/sql) and
// stripSQLComments / scanSQLFeatures / normalizeSQLForShow (internal/api, via verif hook) on strings
// generated from a token grammar; DuckDB (in-memory, duckdb-go) is the ground truth for the
// tokenisation of the well-formed shape. Every impl line is diffed against the Lean model.
package main

import (
	"bytes"
	"database/sql"
	"fmt"
	"os"
	"sort"
	"strconv"
	"strings"

	_ "github.com/duckdb/duckdb-go/v2"

	"github.com/basekick-labs/arc/internal/api"
	sqlutil "github.com/basekick-labs/arc/internal/sql"
	"github.com/basekick-labs/arc/internal/verif/vh"
)

type H struct {
	c       *vh.Ctx
	db      *sql.DB
	oracle  []string // generator/SqlLex/DuckDB disagreements (harness defects, not findings)
	nDuck   int
	nDuckOK int
}

func masksStr(ms []sqlutil.StringMask) string {
	if len(ms) == 0 {
		return "-"
	}
	var xs []string
	for _, m := range ms {
		k := "S"
		if m.Identifier {
			k = "I"
		}
		xs = append(xs, fmt.Sprintf("%s:%s:%s", m.Placeholder, k, vh.Hex([]byte(m.Original))))
	}
	return strings.Join(xs, ",")
}

// renderPort re-creates the masked text from the port's segments (placeholder numbering and
// identifier de-duplication as in the model) so that the port's spans are checked against the real
// output before the monitors rely on them.
func renderPort(segs []seg) string {
	var sb strings.Builder
	idx := 0
	idents := map[string]string{}
	for _, x := range segs {
		switch x.kind {
		case 'r', 'l', 'b': // comments are passed through by the masker
			sb.Write(x.b)
		case 's':
			fmt.Fprintf(&sb, "__STR_%d__", idx)
			idx++
		case 'i':
			p, ok := idents[string(x.b)]
			if !ok {
				p = fmt.Sprintf("__IDENT_%d__", idx)
				idx++
				idents[string(x.b)] = p
			}
			sb.WriteString(p)
		}
	}
	return sb.String()
}

func demote(l []seg, kinds string) string { // comment (or literal) segments → raw bytes
	var out []seg
	for _, x := range l {
		if strings.IndexByte(kinds, x.kind) >= 0 {
			for i := range x.b {
				out = append(out, seg{'r', x.b[i : i+1]})
			}
		} else {
			out = append(out, x)
		}
	}
	return segsStr(out)
}

func q(b []byte) string { return strconv.QuoteToASCII(string(b)) }

// eval runs every real function on s, emits the op/impl lines and the property monitors.
func (h *H) eval(s []byte, origin string) {
	c := h.c
	str := string(s)
	var masked string
	var masks []sqlutil.StringMask
	var um, sm, sr, p string
	hq, hc := api.VerifC15Features(str)
	out := vh.Guard(func() string {
		masked, masks = sqlutil.MaskStringLiterals(str, hq)
		um = sqlutil.UnmaskStringLiterals(masked, masks)
		sm = api.VerifC15StripSQLComments(masked, hc)
		sr = api.VerifC15StripSQLComments(str, true)
		p = sqlutil.UnmaskStringLiterals(sm, masks)
		return ""
	})
	ms := mSegs(s)
	lx := lSegs(s)
	ss := sSegs([]byte(masked))
	kM, kS, kP := kClassM(s), kClassS([]byte(masked)), kClassP(s)
	msStr, lxStr := segsStr(ms), segsStr(lx)
	if out == "" {
		out = fmt.Sprintf("m=%s k=%s u=%s sm=%s sr=%s p=%s ms=%s lx=%s ss=%s K=%d/%d/%d",
			vh.Hex([]byte(masked)), masksStr(masks), vh.Hex([]byte(um)), vh.Hex([]byte(sm)), vh.Hex([]byte(sr)), vh.Hex([]byte(p)),
			msStr, lxStr, segsStr(ss), kM, kS, kP)
	}
	c.Op("n "+vh.Hex(s), out)
	nontriv := len(masks) > 0 || sm != masked
	c.Case(origin+":"+str, nontriv)
	c.Tag(origin)
	c.Tag("kM:" + className[kM])
	c.Tag("kS:" + className[kS])
	{ // coverage of the identifier de-duplication space
		exact, folded, n := map[string]bool{}, map[string]bool{}, 0
		for _, x := range ms {
			if x.kind == 'i' {
				n++
				exact[string(x.b)] = true
				folded[strings.ToLower(string(x.b))] = true
			}
		}
		if n > len(exact) {
			c.Tag("idents:repeated-identical")
		}
		if len(folded) < len(exact) {
			c.Tag("idents:case-variants")
		}
	}
	if strings.HasPrefix(out, "panic:") {
		c.Fail("panic", out, q(s))
		return
	}
	// the port's spans must reproduce the real masked text (when masking ran), otherwise the
	// monitors below would talk about spans the real code did not delimit.
	portOK := !hq || renderPort(ms) == masked
	if !portOK { // the model diff reports this as a correspondence mismatch (fields m= / ms=)
		c.Tag("port-render-mismatch")
	}
	// ---- monitor 1: round trip
	if um != str {
		key := "roundtrip:" + className[kP]
		// distinct quoted identifiers must keep distinct placeholders: fewer identifier masks than
		// distinct identifier texts means the de-duplication key is not the identifier text itself.
		distinct := map[string]bool{}
		for _, x := range ms {
			if x.kind == 'i' {
				distinct[string(x.b)] = true
			}
		}
		nIdent := 0
		for _, m := range masks {
			if m.Identifier {
				nIdent++
			}
		}
		if nIdent < len(distinct) {
			key = "roundtrip:ident-case-collapsed"
		} else if forwardUnmask(masked, masks) == str {
			// the single-pass restoration the model describes WOULD have returned s: the real code
			// deviates from it.
			key = "roundtrip:restore-deviation"
			if identPlaceholderInLaterLiteral(ms) {
				key = "roundtrip:ident-placeholder-inside-later-literal"
			}
		}
		c.Fail(key, fmt.Sprintf("UnmaskStringLiterals(MaskStringLiterals(s)) != s: got %s (masked %s)", q([]byte(um)), q([]byte(masked))), q(s))
		c.Tag("FAIL " + key)
	}
	// ---- monitor 2: literal / identifier spans vs SqlLex (ground truth validated against DuckDB)
	// Stated on the REAL output: the masked text must be what masking exactly DuckDB's literals and
	// quoted identifiers gives.
	if want := renderPort(lx); hq && masked != want {
		key := "mask-spans:" + className[kM]
		c.Fail(key, fmt.Sprintf("MaskStringLiterals gives %s (spans %s) but masking the tokens DuckDB's lexer sees (%s) gives %s", q([]byte(masked)), msStr, lxStr, q([]byte(want))), q(s))
		c.Tag("FAIL " + key)
	}
	// ---- monitor 3: comments removed from the masked text vs the comments DuckDB sees there, and
	// bytes outside comments must survive unchanged.
	lm := lSegs([]byte(masked))
	hasCom := false
	for _, x := range lm {
		if x.kind == 'l' || x.kind == 'b' {
			hasCom = true
		}
	}
	if hc || hasCom {
		if kS == kLiteralLeft {
			// a literal survived masking (consequence of a mask-spans disagreement, reported there)
			c.Tag("strip-skipped:literal-left")
		} else if exp := stripExpect(lm); sm != exp.String() {
			key := "strip:" + className[kS]
			if !hc && hasCom {
				// the scan → mask → strip sequence of the call sites did not strip at all: the pre-scan
				// (scanSQLFeatures) reported no comment although DuckDB sees one.
				key = "strip:comment-not-stripped"
				if quoteInLiteralBeforeComment(lx) {
					key = "strip:comment-not-stripped-after-literal-with-quote"
				}
			}
			c.Fail(key, fmt.Sprintf("scanSQLFeatures→hasComments=%v; stripSQLComments(%s) = %s; comments per DuckDB lexer %s give %s", hc, q([]byte(masked)), q([]byte(sm)), segsStr(lm), q(exp.Bytes())), q(s))
			c.Tag("FAIL " + key)
		}
		// composition (validated, not proved): inside both classes the comments removed from the masked
		// text are exactly the comments DuckDB sees in the original text.
		if hc && kM == 0 && kS == 0 {
			cm := func(l []seg) string {
				var sb strings.Builder
				for _, x := range l {
					if x.kind == 'l' || x.kind == 'b' {
						sb.WriteString(vh.Hex(x.b))
						sb.WriteByte('|')
					}
				}
				return sb.String()
			}
			if cm(ss) != cm(lx) {
				c.Fail("pipeline:inside-K", "comments stripped from the masked text differ from the comments of the original text although both classes hold", q(s))
			}
		}
	}
}

// forwardUnmask: the documented restoration — ONE pass over the text, at each position the first
// mask (in order) whose placeholder matches is replaced and skipped (what the Lean model `unmask` does).
func forwardUnmask(text string, masks []sqlutil.StringMask) string {
	var sb strings.Builder
	for i := 0; i < len(text); {
		hit := false
		for _, m := range masks {
			if m.Placeholder != "" && strings.HasPrefix(text[i:], m.Placeholder) {
				sb.WriteString(m.Original)
				i += len(m.Placeholder)
				hit = true
				break
			}
		}
		if !hit {
			sb.WriteByte(text[i])
			i++
		}
	}
	return sb.String()
}

// identPlaceholderInLaterLiteral: some string literal contains the exact placeholder text of a quoted
// identifier that was masked EARLIER in the text (numbering as in MaskStringLiterals).
func identPlaceholderInLaterLiteral(ms []seg) bool {
	idx := 0
	seen := map[string]bool{}
	var phs []string
	for _, x := range ms {
		switch x.kind {
		case 'i':
			if !seen[string(x.b)] {
				seen[string(x.b)] = true
				phs = append(phs, fmt.Sprintf("__IDENT_%d__", idx))
				idx++
			}
		case 's':
			for _, p := range phs {
				if bytes.Contains(x.b, []byte(p)) {
					return true
				}
			}
			idx++
		}
	}
	return false
}

// quoteInLiteralBeforeComment: a literal / quoted identifier that precedes the first comment has a
// quote character inside its body (e.g. $$it's$$, E'it\'s', $t$say "hi$t$).
func quoteInLiteralBeforeComment(lx []seg) bool {
	for _, x := range lx {
		switch x.kind {
		case 'l', 'b':
			return false
		case 's', 'i':
			if len(x.b) > 2 && bytes.ContainsAny(x.b[1:len(x.b)-1], "'\"") {
				return true
			}
		}
	}
	return false
}

// stripExpect: the text with exactly DuckDB's comments removed (block comment → one space).
func stripExpect(lm []seg) *bytes.Buffer {
	var exp bytes.Buffer
	for _, x := range lm {
		switch x.kind {
		case 'l':
		case 'b':
			exp.WriteByte(' ')
		default:
			exp.Write(x.b)
		}
	}
	return &exp
}

// duck evaluates a select-list query whose tokenisation the generator knows, and compares DuckDB's
// answer with the generator's expectation: this is what confirms SqlLex's token boundaries.
func (h *H) duck(query []byte, cols []col) {
	h.nDuck++
	rows, err := h.db.Query(string(query))
	if err != nil {
		h.oracle = append(h.oracle, "duckdb-error "+q(query)+" : "+strings.ReplaceAll(err.Error(), "\n", " "))
		return
	}
	defer rows.Close()
	names, _ := rows.Columns()
	if len(names) != len(cols) {
		h.oracle = append(h.oracle, fmt.Sprintf("duckdb-columns %s : got %q want %v", q(query), names, cols))
		return
	}
	if !rows.Next() {
		h.oracle = append(h.oracle, "duckdb-norow "+q(query))
		return
	}
	vals := make([]any, len(names))
	ptrs := make([]any, len(names))
	for i := range vals {
		ptrs[i] = &vals[i]
	}
	if err := rows.Scan(ptrs...); err != nil {
		h.oracle = append(h.oracle, "duckdb-scan "+q(query)+" : "+err.Error())
		return
	}
	for i := range cols {
		got := fmt.Sprint(vals[i])
		if names[i] != cols[i].name || got != cols[i].val {
			h.oracle = append(h.oracle, fmt.Sprintf("duckdb-value %s : column %d got %q=%q want %q=%q", q(query), i, names[i], got, cols[i].name, cols[i].val))
			return
		}
	}
	h.nDuckOK++
}

// confirm runs a witness query of a finding class in DuckDB and records what DuckDB sees.
func (h *H) confirm(class, query string, want []col) {
	rows, err := h.db.Query(query)
	res := ""
	if err != nil {
		res = "error: " + strings.SplitN(err.Error(), "\n", 2)[0]
	} else {
		names, _ := rows.Columns()
		vals := make([]any, len(names))
		ptrs := make([]any, len(names))
		for i := range vals {
			ptrs[i] = &vals[i]
		}
		if rows.Next() {
			rows.Scan(ptrs...)
		}
		rows.Close()
		var xs []string
		ok := len(names) == len(want)
		for i := range names {
			xs = append(xs, fmt.Sprintf("%s=%s", names[i], fmt.Sprint(vals[i])))
			if ok && (names[i] != want[i].name || fmt.Sprint(vals[i]) != want[i].val) {
				ok = false
			}
		}
		res = strings.Join(xs, ";")
		if !ok {
			h.oracle = append(h.oracle, fmt.Sprintf("duckdb-confirm %s %q: got %s want %v", class, query, res, want))
		}
	}
	m, _ := h.c.Extra["duckdb_confirms"].(map[string]string)
	if m == nil {
		m = map[string]string{}
	}
	m[class+" "+strconv.QuoteToASCII(query)] = res
	h.c.Extra["duckdb_confirms"] = m
}

// the witnesses of every excluded class (also Lean `C15_*_witness` theorems) + unit-test corpus
var edge = []string{
	"", "SELECT 1", "SELECT 'a' AS x", "SELECT 'a\\' AS x, 'b' AS y", "SELECT \"a\\\" AS x, 1 AS \"b\"",
	"SELECT E'\\\\' AS x, 'b' AS y", "SELECT E'a\\'b' AS x", "SELECT e'a\\nb' AS x",
	"SELECT 1 /* ' */ AS x, 2 AS \"y'\"", "SELECT 1 -- ' \n AS x, 'q' AS y", "SELECT 1 -- $$ \n , 2 AS y -- $$",
	"SELECT 1 AS a$$x$, 2 AS y", "SELECT 1 AS éE'a' , 2 AS y", "SELECT 1$$a$$", "SELECT $é$a$é$ AS x", "SELECT 1e'a' AS x",
	"SELECT 1 -- c\r, 2 AS j", "SELECT 1 -- c\r, 'a' AS x", "-- c\r'a'", "SELECT 1 /* a /* b */ AS x, 2 AS y */", "SELECT 1 /* a */b", "SELECT 1 /* a */ b", "SELECT (1 /*c*/)",
	"__STR_0__ 'a'", "__STR_0'a'", "\"x\" 'a'IDENT_0__", "'a'STR_2'b' 'c'", "\"x\" 'a'IDENT_0'b'", "'a' __STR_0__", "\"a\" \"a\" \"b\" \"a\"",
	// an identifier placeholder spelled inside a LATER literal: safe because masks are restored first-to-last
	"SELECT \"a\", '__IDENT_0__'", "SELECT \"a\", $$__IDENT_0__$$, \"a\"", "SELECT 'x', \"b\", E'__IDENT_1__ __STR_0__'", "\"a\" \"b\" '__IDENT_1____IDENT_0__'",
	// complete literal with an unpaired quote in its body, then the FIRST comment of the text
	"SELECT $$it's$$ -- c", "SELECT $t$a'b$t$ /* c */ FROM t", "SELECT $$say \"hi$$ -- x", "SELECT E'it\\'s' -- c; DROP", "SELECT $$a\"b'c$$ /* x.y */ FROM t -- z",
	"SELECT \"a'b\" -- c", "SELECT 'a\"b' /* c */",
	// repeated quoted identifiers: identical ones share a placeholder, case variants must not
	"SELECT \"Host\" AS \"host\"", "SELECT \"host\", \"host\", \"Host\", \"HOST\" FROM \"T\" JOIN \"t\"",
	"WITH \"x-Y\" AS (SELECT 1) SELECT * FROM \"x-y\", \"x-Y\"", "SELECT \"é\", \"É\", \"é\"", "SELECT \"ñandú\" AS \"ÑANDÚ\"",
	"\"a\"\"B\" \"A\"\"b\" \"a\"\"B\"", "\"K\" \"K\" \"k\"", "\"ſ\" \"s\" \"S\"",
	"SELECT * FROM \"my--db\"", "SELECT '--x' /* 'y' */", "$$a'b$$", "$t$a$$b$t$", "$$unterminated", "'unterminated", "/* unterminated", "/*/", "/**/", "/**/x", "/**/xy",
	"a$1", "$1", "$$$", "$a$ $A$ $a$", "x'41\\' , 2", "N'a'", "'a'\n'b'", "--", "-- x", "--\n", "/*", "*/", "/* */ */",
	"SELECT EXTRACT(YEAR FROM t) FROM \"a b\" WHERE x = 'it''s' -- done", "'\\''", "E'\\''", "E'\\'' x", "'\\\\'", "\"\\\"\"",
}

func main() {
	c := vh.Start()
	db, err := sql.Open("duckdb", "")
	if err != nil {
		fmt.Fprintln(os.Stderr, "duckdb open:", err)
		os.Exit(3)
	}
	db.SetMaxOpenConns(1)
	h := &H{c: c, db: db}
	r := vh.NewRand(c.Seed).Fork() // Fork: seeds s and s+1 of the shared splitmix are the same stream shifted by one draw

	// (0) DuckDB's view of one witness per finding class (what the monitors' ground truth rests on)
	h.confirm("plain-backslash-quote", "SELECT 'a\\' AS x, 'b' AS y", []col{{"x", "a\\"}, {"y", "b"}})
	h.confirm("ident-backslash-quote", "SELECT 1 AS \"a\\\", 2 AS \"b\"", []col{{"a\\", "1"}, {"b", "2"}})
	h.confirm("estring-backslash-quote", "SELECT E'\\\\' AS x, 'b' AS y", []col{{"x", "\\"}, {"y", "b"}})
	h.confirm("quote-in-block-comment", "SELECT 1 /* ' */ AS x, 2 AS \"y'\"", []col{{"x", "1"}, {"y'", "2"}})
	h.confirm("quote-in-line-comment", "SELECT 1 -- ' \n AS x, 'q' AS y", []col{{"x", "1"}, {"y", "q"}})
	h.confirm("dollar-in-identifier", "SELECT 1 AS a$$x$, 2 AS y", []col{{"a$$x$", "1"}, {"y", "2"}})
	h.confirm("dollar-tag-nonascii", "SELECT $é$a$é$ AS x", []col{{"x", "a"}})
	h.confirm("mask-cr-ends-line-comment", "SELECT 1 -- c\r, 'a' AS x", []col{{"1", "1"}, {"x", "a"}})
	h.confirm("cr-ends-line-comment", "SELECT 1 -- c\r, 2 AS j", []col{{"1", "1"}, {"j", "2"}})
	h.confirm("nested-block-comment", "SELECT 1 /* a /* b */ AS x, 2 AS y */", []col{{"1", "1"}})
	h.confirm("byte-after-block-comment", "SELECT 1 /* a */b", []col{{"b", "1"}})
	h.confirm("placeholder-lookalike", "SELECT 1 AS __STR_0__, 'a' AS y", []col{{"__STR_0__", "1"}, {"y", "a"}})

	// (1) edge grid / corpus
	for _, e := range edge {
		h.eval([]byte(e), "edge")
	}
	if ents, err := os.ReadDir("/verif/corpus/C15"); err == nil {
		for _, e := range ents {
			if !strings.HasSuffix(e.Name(), ".sql") { // inputs are *.sql; proposed-repair.diff is documentation
				continue
			}
			if b, err := os.ReadFile("/verif/corpus/C15/" + e.Name()); err == nil {
				h.eval(bytes.TrimSuffix(b, []byte("\n")), "corpus")
			}
		}
	}
	// (2) dense enumeration of short strings over the tiny alphabet
	maxLen := 3
	if c.Thorough() {
		maxLen = 4
	}
	var rec func(pre []byte, n int)
	rec = func(pre []byte, n int) {
		h.eval(pre, "enum")
		if n == 0 {
			return
		}
		for _, ch := range tiny {
			rec(append(append([]byte{}, pre...), ch), n-1)
		}
	}
	for _, ch := range tiny {
		rec([]byte{ch}, maxLen-1)
	}
	// (3) random
	n := c.N
	if n == 0 {
		n = 45000
		if c.Thorough() {
			n = 1900000
		}
	}
	duckEvery := 1
	if c.Thorough() {
		duckEvery = 4
	}
	nSel := 0
	for i := 0; i < n; i++ {
		switch r.Intn(10) {
		case 0, 1, 2:
			toks, cols := genSelect(r)
			s := joinToks(toks)
			if t, l := truthStr(toks), segsStr(lSegs(s)); t != l {
				h.oracle = append(h.oracle, fmt.Sprintf("generator-truth %s : generator %s SqlLex %s", q(s), t, l))
			}
			nSel++
			if nSel%duckEvery == 0 {
				h.duck(s, cols)
			}
			h.eval(s, "select")
		case 3, 4, 5:
			h.eval(genGlued(r), "glued")
		case 6, 7, 8:
			h.eval(genSoup(r), "soup")
		default:
			h.eval(genTiny(r), "tiny")
		}
	}
	// (4) unmask on arbitrary text / masks (first-occurrence and ReplaceAll semantics)
	nu := n / 20
	for i := 0; i < nu; i++ {
		text := genSoup(r)
		var masks []sqlutil.StringMask
		k := r.Intn(4)
		for j := 0; j < k; j++ {
			ph := pickS(r, []string{"__STR_0__", "__STR_1__", "__IDENT_0__", "__IDENT_1__", "__", "a", "'", "_S"})
			masks = append(masks, sqlutil.StringMask{Placeholder: ph, Original: string(genSoup(r)), Identifier: r.Chance(40)})
		}
		u := sqlutil.UnmaskStringLiterals(string(text), masks)
		c.Op(fmt.Sprintf("u %s %s", vh.Hex(text), masksStr(masks)), "u="+vh.Hex([]byte(u)))
		c.Tag("unmask-arbitrary")
	}
	c.Extra["duckdb_queries"] = h.nDuck
	c.Extra["duckdb_agree"] = h.nDuckOK
	sort.Strings(h.oracle)
	if len(h.oracle) > 20 {
		h.oracle = h.oracle[:20]
	}
	c.Extra["oracle_mismatches"] = h.oracle
	c.Finish("cases = byte strings: witness/edge grid, every string of length ≤3 (quick) / ≤4 (thorough) over a 16-symbol quote/comment alphabet, then random select-lists from a token grammar (tokenisation known, evaluated in DuckDB), the same tokens glued without separators, fragment soup incl. placeholder look-alikes and invalid UTF-8, tiny random; non-trivial = at least one mask or a stripped comment; distinct = distinct string")
	if len(h.oracle) > 0 {
		fmt.Println("ORACLE MISMATCH (generator truth / SqlLex port / DuckDB disagree — harness defect, not a finding):")
		for _, o := range h.oracle {
			fmt.Println("  ", o)
		}
		os.Exit(3)
	}
}
