//go:build verif

package main

// Go ports of the Lean definitions in lean/Arc/Model/C15.lean (mSegs, lSegs = SqlLex, sSegs, the K
// classes). They are NOT the implementation under test: the harness prints their results in every
// impl line so that the Lean driver's output ties them to the Lean model, and the monitors use them
// to locate the spans the real code delimited (after checking that rendering them reproduces the
// real output byte for byte).

import (
	"bytes"
	"fmt"
	"strings"
)

type seg struct {
	kind byte // 'r' raw, 's' str, 'i' ident, 'l' line comment, 'b' block comment
	b    []byte
}

func isAlpha(c byte) bool     { return (c >= 'a' && c <= 'z') || (c >= 'A' && c <= 'Z') }
func isDigit(c byte) bool     { return c >= '0' && c <= '9' }
func isIdentByte(c byte) bool { return c == '_' || isAlpha(c) || isDigit(c) }
func isHigh(c byte) bool      { return c >= 128 }
func isE(c byte) bool         { return c == 'e' || c == 'E' }
func isIdStart(c byte) bool   { return isAlpha(c) || c == '_' || isHigh(c) }
func isIdCont(c byte) bool    { return isIdStart(c) || isDigit(c) || c == '$' }
func lTagStart(c byte) bool   { return isAlpha(c) || c == '_' || isHigh(c) }
func lTagCont(c byte) bool    { return lTagStart(c) || isDigit(c) }

func lBody(q byte, t []byte) int {
	i := 0
	for i < len(t) {
		if t[i] == q {
			if i+1 < len(t) && t[i+1] == q {
				i += 2
				continue
			}
			return i + 1
		}
		i++
	}
	return len(t)
}

func lEBody(t []byte) int {
	i := 0
	for i < len(t) {
		c := t[i]
		if c == '\\' {
			if i+1 >= len(t) {
				return len(t)
			}
			i += 2
			continue
		}
		if c == '\'' {
			if i+1 < len(t) && t[i+1] == '\'' {
				i += 2
				continue
			}
			return i + 1
		}
		i++
	}
	return len(t)
}

// tagScan on the bytes after the opening '$': returns (tag length, ok).
func tagScan(start, cont func(byte) bool, t []byte) (int, bool) {
	for j := 0; j < len(t); j++ {
		c := t[j]
		if c == '$' {
			return j, true
		}
		if j == 0 {
			if !start(c) {
				return 0, false
			}
		} else if !cont(c) {
			return 0, false
		}
	}
	return 0, false
}

// dollarTok: token length (including the opening '$') or -1.
func dollarTok(start, cont func(byte) bool, after []byte) int {
	n, ok := tagScan(start, cont, after)
	if !ok {
		return -1
	}
	closing := append([]byte{'$'}, after[:n+1]...)
	body := after[n+1:]
	k := bytes.Index(body, closing)
	if k < 0 {
		return 1 + len(after)
	}
	return 1 + n + 1 + k + len(closing)
}

func mSegs(s []byte) []seg {
	var out []seg
	i := 0
	for i < len(s) {
		c := s[i]
		var prev byte
		if i > 0 {
			prev = s[i-1]
		}
		t := s[i+1:]
		switch {
		case c == '$':
			if !isIdentByte(prev) {
				if n := dollarTok(lTagStart, lTagCont, t); n >= 0 {
					out = append(out, seg{'s', s[i : i+n]})
					i += n
					continue
				}
			}
			out = append(out, seg{'r', s[i : i+1]})
			i++
		case isE(c) && len(t) > 0 && t[0] == '\'' && !isIdentByte(prev):
			n := 2 + lEBody(t[1:])
			out = append(out, seg{'s', s[i : i+n]})
			i += n
		case c == '-' && len(t) > 0 && t[0] == '-':
			n := 0
			for i+n < len(s) && s[i+n] != '\n' && s[i+n] != '\r' {
				n++
			}
			out = append(out, seg{'l', s[i : i+n]})
			i += n
		case c == '/' && len(t) > 0 && t[0] == '*':
			n := 2 + lBlock(t[1:])
			out = append(out, seg{'b', s[i : i+n]})
			i += n
		case c == '\'':
			n := 1 + lBody('\'', t)
			out = append(out, seg{'s', s[i : i+n]})
			i += n
		case c == '"':
			n := 1 + lBody('"', t)
			out = append(out, seg{'i', s[i : i+n]})
			i += n
		default:
			out = append(out, seg{'r', s[i : i+1]})
			i++
		}
	}
	return out
}

func lBlock(t []byte) int {
	d := 1
	i := 0
	for i < len(t) {
		if i+1 >= len(t) {
			return len(t)
		}
		c, c2 := t[i], t[i+1]
		if c == '*' && c2 == '/' {
			i += 2
			if d <= 1 {
				return i
			}
			d--
			continue
		}
		if c == '/' && c2 == '*' {
			i += 2
			d++
			continue
		}
		i++
	}
	return len(t)
}

// one SqlLex token at s[i]; returns kind, length, inId afterwards
func lTok(inId bool, s []byte, i int) (byte, int, bool) {
	c := s[i]
	t := s[i+1:]
	switch {
	case inId && isIdCont(c):
		return 'r', 1, true
	case c == '\'':
		return 's', 1 + lBody('\'', t), false
	case c == '"':
		return 'i', 1 + lBody('"', t), false
	case isE(c) && len(t) > 0 && t[0] == '\'':
		return 's', 2 + lEBody(t[1:]), false
	case c == '$':
		if n := dollarTok(lTagStart, lTagCont, t); n >= 0 {
			return 's', n, false
		}
		return 'r', 1, false
	case c == '-' && len(t) > 0 && t[0] == '-':
		n := 0
		for i+n < len(s) && s[i+n] != '\n' && s[i+n] != '\r' {
			n++
		}
		return 'l', n, false
	case c == '/' && len(t) > 0 && t[0] == '*':
		return 'b', 2 + lBlock(t[1:]), false
	}
	return 'r', 1, isIdStart(c)
}

func lSegs(s []byte) []seg {
	var out []seg
	inId := false
	i := 0
	for i < len(s) {
		k, n, id := lTok(inId, s, i)
		out = append(out, seg{k, s[i : i+n]})
		i += n
		inId = id
	}
	return out
}

func sBlock(t []byte) int {
	i := 0
	for i < len(t) {
		if i+1 >= len(t) {
			return len(t)
		}
		if t[i] == '*' && t[i+1] == '/' {
			return i + 2
		}
		i++
	}
	return len(t)
}

func sSegs(s []byte) []seg {
	var out []seg
	i := 0
	for i < len(s) {
		c := s[i]
		t := s[i+1:]
		switch {
		case c == '-' && len(t) > 0 && t[0] == '-':
			n := 0
			for i+n < len(s) && s[i+n] != '\n' {
				n++
			}
			out = append(out, seg{'l', s[i : i+n]})
			i += n
		case c == '/' && len(t) > 0 && t[0] == '*':
			n := 2 + sBlock(t[1:])
			out = append(out, seg{'b', s[i : i+n]})
			i += n
		default:
			out = append(out, seg{'r', s[i : i+1]})
			i++
		}
	}
	return out
}

func segsStr(l []seg) string {
	if len(l) == 0 {
		return "-"
	}
	var sb strings.Builder
	run := 0
	first := true
	flush := func() {
		if run > 0 {
			if !first {
				sb.WriteByte('.')
			}
			fmt.Fprintf(&sb, "r%d", run)
			first = false
			run = 0
		}
	}
	for _, x := range l {
		if x.kind == 'r' {
			run++
			continue
		}
		flush()
		if !first {
			sb.WriteByte('.')
		}
		fmt.Fprintf(&sb, "%c%d", x.kind, len(x.b))
		first = false
	}
	flush()
	return sb.String()
}

// ---- K classes (codes as in the Lean model)
const (
	kDollarInIdent    = 6
	kEInIdent         = 7
	kDollarAfterDigit = 8
	kEAfterDigit      = 10
	kLiteralLeft      = 20
	kCrEndsLine       = 21
	kNested           = 22
	kLookalike        = 30
)

var className = map[int]string{
	0: "inside-K", kDollarInIdent: "dollar-in-identifier",
	kEInIdent: "e-in-nonascii-identifier", kDollarAfterDigit: "dollar-after-digit",
	kEAfterDigit: "estring-after-digit", kLiteralLeft: "literal-left", kCrEndsLine: "cr-ends-line-comment",
	kNested: "nested-block-comment", kLookalike: "placeholder-lookalike",
}

func hasPair(a, b byte, o []byte) bool {
	for i := 0; i+1 < len(o); i++ {
		if o[i] == a && o[i+1] == b {
			return true
		}
	}
	return false
}

func kClassM(s []byte) int {
	inId := false
	i := 0
	for i < len(s) {
		c := s[i]
		var prev byte
		if i > 0 {
			prev = s[i-1]
		}
		t := s[i+1:]
		_, n, id := lTok(inId, s, i)
		code := 0
		switch {
		case inId && isIdCont(c):
			if c == '$' {
				if !isIdentByte(prev) {
					code = kDollarInIdent
				}
			} else if isE(c) && len(t) > 0 && t[0] == '\'' {
				if !isIdentByte(prev) {
					code = kEInIdent
				}
			}
		case c == '\'' || c == '"':
		case isE(c) && len(t) > 0 && t[0] == '\'':
			if isIdentByte(prev) {
				code = kEAfterDigit
			}
		case c == '$':
			if _, ok := tagScan(lTagStart, lTagCont, t); ok && isIdentByte(prev) {
				code = kDollarAfterDigit
			}
		}
		if code != 0 {
			return code
		}
		i += n
		inId = id
	}
	return 0
}

func kClassS(s []byte) int {
	inId := false
	i := 0
	for i < len(s) {
		k, n, id := lTok(inId, s, i)
		tok := s[i : i+n]
		rest := s[i+n:]
		switch k {
		case 's', 'i':
			return kLiteralLeft
		case 'l':
			if len(rest) > 0 && rest[0] == '\r' {
				return kCrEndsLine
			}
		case 'b':
			if len(tok) > 2 && hasPair('/', '*', tok[2:]) {
				return kNested
			}
		}
		i += n
		inId = id
	}
	return 0
}

func runClean(run []byte) bool {
	return !bytes.Contains(run, []byte("STR_")) && !bytes.Contains(run, []byte("IDENT_"))
}

// kClassP: a placeholder look-alike fragment in the text between masked tokens (raw bytes + comments).
func kClassP(s []byte) int {
	var cur []byte
	for _, x := range mSegs(s) {
		if x.kind == 's' || x.kind == 'i' {
			if !runClean(cur) {
				return kLookalike
			}
			cur = cur[:0]
		} else {
			cur = append(cur, x.b...)
		}
	}
	if !runClean(cur) {
		return kLookalike
	}
	return 0
}
