//go:build verif

// C08 correspondence harness.
//
// Part 1 (paths): adversarial keys through the REAL sanitizePath / LocalBackend.validatePath /
// raft.ValidateManifestPath / edgesync validators + NamespacedPath, and through the real
// path/filepath functions the model re-implements (Clean, Join, Rel). Monitors check — independently
// of the Lean model — that every accepted key lies lexically inside the root, and that real writes
// with adversarial keys create nothing outside the root directory.
//
// Part 2 (atomicity): Write / WriteReader / AppendReader of the real LocalBackend are run in a child
// process of this binary that is killed (strace syscall injection, SIGKILL on entry of the N-th
// openat/write/close/renameat/unlinkat/mkdirat) at every crash point; the surviving file-system state
// (final path, staging file) is handed to the model, which answers whether it is a crash state of its
// op sequence. The same procedures are also run in-process to completion and with failing readers.
package main

import (
	"bytes"
	"context"
	"errors"
	"fmt"
	"io"
	"os"
	"os/exec"
	"path/filepath"
	"runtime"
	"sort"
	"strconv"
	"strings"
	"sync"
	"syscall"

	"github.com/basekick-labs/arc/internal/cluster/raft"
	"github.com/basekick-labs/arc/internal/edgesync"
	"github.com/basekick-labs/arc/internal/storage"
	"github.com/basekick-labs/arc/internal/verif/vh"
	"github.com/rs/zerolog"
)

// The child's storage calls must all be issued by the thread strace follows (the initial one).
func init() { runtime.LockOSThread() }

// ---------------------------------------------------------------- deterministic contents

func hashBytes(b []byte) uint64 {
	h := uint64(7)
	for _, c := range b {
		h = (h*31 + uint64(c) + 1) % (1 << 32)
	}
	return h
}

func genData(n, seed int) []byte {
	b := make([]byte, n)
	for i := range b {
		b[i] = byte((i*131 + seed*17 + i/251) % 256)
	}
	return b
}
func genOld(n int) []byte {
	b := make([]byte, n)
	for i := range b {
		b[i] = byte((i*7 + 3) % 256)
	}
	return b
}
func genPart(n int) []byte {
	b := make([]byte, n)
	for i := range b {
		b[i] = byte((i*13 + 5) % 256)
	}
	return b
}

func stateOf(b []byte, present bool) string {
	if !present {
		return "x"
	}
	return fmt.Sprintf("%d:%d", len(b), hashBytes(b))
}

func fileState(p string) string {
	b, err := os.ReadFile(p)
	if err != nil {
		if os.IsNotExist(err) {
			return "x"
		}
		return "unreadable"
	}
	return stateOf(b, true)
}

// plainReader hides WriterTo/ReadFrom fast paths so io.Copy issues one write(2) per 32 KiB buffer.
type plainReader struct{ r io.Reader }

func (p plainReader) Read(b []byte) (int, error) { return p.r.Read(b) }

// failingReader returns an error after `after` bytes.
type failingReader struct {
	data  []byte
	after int
	pos   int
}

var errInjected = errors.New("injected reader failure")

func (f *failingReader) Read(b []byte) (int, error) {
	if f.pos >= f.after {
		return 0, errInjected
	}
	n := copy(b, f.data[f.pos:f.after])
	f.pos += n
	return n, nil
}

// ---------------------------------------------------------------- scenarios

type scn struct {
	proc  string // write | wreader | append
	pre   int    // length of the previous content of the final path, -1 = absent
	part0 int    // length of a pre-existing ".part" staging file, -1 = absent (ignored by write)
	n     int    // bytes delivered by this call
	seed  int
	asz   int64 // appendSize argument (append only)
}

// retry variants ("writeR", "wreaderR"): the same backend first writes a sibling key (which puts the
// partition directory into dirCache), the directory is then removed behind the backend's back, and
// only then the procedure under test runs — its first create fails with ENOENT and it takes the
// "directory was deleted externally" retry branch.
func (s scn) retry() bool  { return strings.HasSuffix(s.proc, "R") }
func (s scn) base() string { return strings.TrimSuffix(s.proc, "R") }

func (s scn) failKey() string {
	if s.retry() {
		return "partial-file-under-final-name:retry-after-dir-removed:" + s.base()
	}
	return "partial-file-visible-at-final-path:" + s.proc
}

func lenStr(n int) string {
	if n < 0 {
		return "x"
	}
	return strconv.Itoa(n)
}

func (s scn) fields() string {
	return fmt.Sprintf("%s %s %s %d %d %d", s.proc, lenStr(s.pre), lenStr(s.part0), s.n, s.seed, s.asz)
}

const key = "d/f"

func (s scn) setup(root string) {
	must(os.MkdirAll(filepath.Join(root, "d"), 0o700))
	if s.pre >= 0 {
		must(os.WriteFile(filepath.Join(root, "d", "f"), genOld(s.pre), 0o600))
	}
	if s.part0 >= 0 && s.base() != "write" {
		must(os.WriteFile(storage.VerifC08PartPath(filepath.Join(root, "d", "f")), genPart(s.part0), 0o600))
	}
}

func (s scn) observe(root string) (string, string) {
	final := fileState(filepath.Join(root, "d", "f"))
	if s.base() == "write" {
		m, _ := filepath.Glob(filepath.Join(root, "d", ".arc-*.tmp"))
		sort.Strings(m)
		switch len(m) {
		case 0:
			return final, "x"
		case 1:
			return final, fileState(m[0])
		default:
			return final, "multiple-temp-files"
		}
	}
	return final, fileState(storage.VerifC08PartPath(filepath.Join(root, "d", "f")))
}

// allowedFinal: the states the PROPERTY allows for the final path (independent of the Lean model).
func (s scn) allowedFinal() (prev string, intended string) {
	prev = "x"
	if s.pre >= 0 {
		prev = stateOf(genOld(s.pre), true)
	}
	switch s.base() {
	case "write", "wreader":
		intended = stateOf(genData(s.n, s.seed), true)
	case "append":
		if s.part0 >= 0 && int64(s.n) == s.asz {
			intended = stateOf(append(genPart(s.part0), genData(s.n, s.seed)...), true)
		}
	}
	return
}

func (s scn) call(b *storage.LocalBackend, rd io.Reader) error {
	ctx := context.Background()
	if s.retry() {
		// populate dirCache through a sibling key, then remove the directory externally
		one := genData(1, s.seed)
		var err error
		if s.base() == "write" {
			err = b.Write(ctx, "d/g", one)
		} else {
			err = b.WriteReader(ctx, "d/g", plainReader{bytes.NewReader(one)}, 1)
		}
		if err != nil {
			return err
		}
		if err := os.RemoveAll(filepath.Join(b.GetBasePath(), "d")); err != nil {
			return err
		}
	}
	switch s.base() {
	case "write":
		data, _ := io.ReadAll(rd)
		return b.Write(ctx, key, data)
	case "wreader":
		return b.WriteReader(ctx, key, rd, int64(s.n))
	case "append":
		return b.AppendReader(ctx, key, rd, s.asz)
	}
	return fmt.Errorf("unknown proc %q", s.proc)
}

func must(err error) {
	if err != nil {
		panic(err)
	}
}

// ---------------------------------------------------------------- child mode

func childMain() {
	atoi := func(k string) int { v, _ := strconv.Atoi(os.Getenv(k)); return v }
	s := scn{proc: os.Getenv("C08_CHILD"), n: atoi("C08_N"), seed: atoi("C08_SEED"), asz: int64(atoi("C08_ASZ"))}
	b, err := storage.NewLocalBackend(os.Getenv("C08_ROOT"), zerolog.Nop())
	if err != nil {
		os.Exit(4)
	}
	if err := s.call(b, plainReader{bytes.NewReader(genData(s.n, s.seed))}); err != nil {
		os.Exit(3)
	}
	os.Exit(0)
}

var crashSyscalls = []string{"openat", "write", "close", "renameat", "renameat2", "rename", "unlinkat", "mkdirat"}

type crashObs struct {
	sc     string
	when   int
	killed bool
	exit   int
	final  string
	stage  string
}

func runCrash(self, root string, s scn, sc string, when int) crashObs {
	os.RemoveAll(root)
	s.setup(root)
	cmd := exec.Command("strace", "-o", "/dev/null", "-e", "trace="+sc,
		"-e", fmt.Sprintf("inject=%s:signal=SIGKILL:when=%d", sc, when), "--", self)
	cmd.Env = append(os.Environ(), "C08_CHILD="+s.proc, "C08_ROOT="+root, "C08_N="+strconv.Itoa(s.n),
		"C08_SEED="+strconv.Itoa(s.seed), "C08_ASZ="+strconv.FormatInt(s.asz, 10), "GOMAXPROCS=1")
	out, err := cmd.CombinedOutput()
	o := crashObs{sc: sc, when: when}
	if err != nil {
		var ee *exec.ExitError
		if errors.As(err, &ee) {
			ws := ee.Sys().(syscall.WaitStatus)
			if ws.Signaled() && ws.Signal() == syscall.SIGKILL {
				o.killed = true
			} else {
				o.exit = ws.ExitStatus()
				if o.exit == 137 {
					o.killed = true
				}
			}
		} else {
			panic(fmt.Sprintf("cannot run strace: %v", err))
		}
	}
	if !o.killed && o.exit != 0 && o.exit != 3 {
		panic(fmt.Sprintf("crash child (%s when=%d) exited %d: %s", sc, when, o.exit, out))
	}
	o.final, o.stage = s.observe(root)
	os.RemoveAll(root)
	return o
}

// ---------------------------------------------------------------- key generators

var frags = []string{
	"..", "..", ".", "/", "/", "//", "\x00", ".\x00.", "\x00..", "..\x00", ".\x00", "\\", "..\\", "\\..\\",
	"a", "b", "db", "m", "cpu", "2026", "05", "x.parquet", ".parquet", "...", "....", "_", ". .", "é", "日本", "\xff",
	"\xc0\xaf", "\xe2\x80\xae", "%2e%2e", "%2f", ":", "C:", "C:\\", "s3://", " ", "\t", "\n", "~", "-", ".part", ".arc-1.tmp",
	".sync-staging", "../", "/..", "/../", "..//", "./", "/./", "\x00/", "/\x00",
}

func randKey(r *vh.Rand) string {
	switch r.Intn(10) {
	case 0: // structured valid path with one or two mutations
		segs := []string{vh.Pick(r, []string{"db", "prod", "mydb"}), vh.Pick(r, []string{"cpu", "mem", "m"}), "2026", "05", "20", "15", "cpu_20260520_150000.parquet"}
		for k := r.Range(0, 2); k > 0; k-- {
			i := r.Intn(len(segs))
			switch r.Intn(4) {
			case 0:
				segs[i] = vh.Pick(r, frags)
			case 1:
				segs[i] = segs[i] + vh.Pick(r, frags)
			case 2:
				segs[i] = vh.Pick(r, frags) + segs[i]
			case 3:
				segs = append(segs[:i], append([]string{vh.Pick(r, frags)}, segs[i:]...)...)
			}
		}
		s := strings.Join(segs, "/")
		if r.Chance(15) {
			s = "/" + s
		}
		if r.Chance(15) {
			s += "/"
		}
		return s
	case 1: // long
		var b strings.Builder
		// mostly a few hundred bytes; 1 in 40 crosses MaxManifestPathLen / NAME_MAX territory
		limit, segMax := 200, 40
		if r.Intn(40) == 0 {
			limit, segMax = 4300, 300
		}
		seg := strings.Repeat(vh.Pick(r, []string{"a", "x.", "..", "é", "_"}), r.Range(1, segMax))
		for k := r.Range(1, 40); k > 0; k-- {
			b.WriteString(seg)
			b.WriteString(vh.Pick(r, []string{"/", "/", "//", "/../", "\\"}))
			if b.Len() > limit {
				break
			}
		}
		return b.String()
	case 2: // raw bytes over a small alphabet
		al := []byte{'.', '.', '/', 0, 'a', '\\', '_', ':'}
		n := r.Range(0, 14)
		b := make([]byte, n)
		for i := range b {
			b[i] = al[r.Intn(len(al))]
		}
		return string(b)
	case 3: // arbitrary bytes
		n := r.Range(0, 12)
		b := make([]byte, n)
		for i := range b {
			b[i] = byte(r.Intn(256))
		}
		return string(b)
	default:
		var b strings.Builder
		for k := r.Range(1, 10); k > 0; k-- {
			b.WriteString(vh.Pick(r, frags))
		}
		return b.String()
	}
}

func randSpoke(r *vh.Rand) string {
	switch r.Intn(8) {
	case 0:
		return randKey(r)
	case 1:
		return vh.Pick(r, []string{"", ".", "..", ".hidden", "a/b", "a\\b", "a\x00b", "a..b", "edge..1", "日本", "..."})
	default:
		return vh.Pick(r, []string{"edge-1", "edge_2", "spoke", "a..b", "x y", "é", "s", "A.b"})
	}
}

func randSyncPath(r *vh.Rand) string {
	if r.Chance(25) {
		return randKey(r)
	}
	segs := []string{vh.Pick(r, []string{"db", "prod"}), vh.Pick(r, []string{"cpu", "m"}), "2026", "05", "cpu_1.parquet"}
	if r.Chance(40) {
		i := r.Intn(len(segs))
		switch r.Intn(5) {
		case 0:
			segs[i] = vh.Pick(r, frags)
		case 1:
			segs[i] += vh.Pick(r, frags)
		case 2:
			segs[i] = vh.Pick(r, frags) + segs[i]
		case 3:
			segs[i] = "."
		case 4:
			segs = append(segs, vh.Pick(r, []string{"", "x", "y.parquet", ".parquet"}))
		}
	}
	return strings.Join(segs, "/")
}

var bases = []string{"/", "/r", "/data/arc", "/data/arc2", "/a/b/c", "/srv/..x", "/data/a b", "/данные/arc", "/x/...", "/b\\s"}

// ---------------------------------------------------------------- classification of real results

func inside(base, p string) bool {
	if p == base {
		return true
	}
	pre := base + "/"
	if base == "/" {
		pre = "/"
	}
	if !strings.HasPrefix(p, pre) {
		return false
	}
	for _, seg := range strings.Split(p[len(pre):], "/") {
		if seg == ".." || seg == "" || seg == "." {
			return false
		}
	}
	return !strings.Contains(p, "\x00")
}

func vpClass(p string, err error) string {
	if err == nil {
		return "ok " + vh.Hex([]byte(p))
	}
	switch m := err.Error(); {
	case m == "path traversal detected: path escapes base directory":
		return "err:escape"
	case m == "path traversal detected":
		return "err:rel"
	case m == "key resolves to the storage root":
		return "err:rootkey"
	case strings.HasPrefix(m, "failed to resolve path"):
		return "err:cwd"
	default:
		return "err:other:" + m
	}
}

func mpClass(err error) string {
	switch {
	case err == nil:
		return "ok"
	case errors.Is(err, raft.ErrPathEmpty):
		return "empty"
	case errors.Is(err, raft.ErrPathTooLong):
		return "toolong"
	case errors.Is(err, raft.ErrPathNullByte):
		return "nul"
	case errors.Is(err, raft.ErrPathScheme):
		return "scheme"
	case errors.Is(err, raft.ErrPathAbsolute):
		return "absolute"
	case errors.Is(err, raft.ErrPathTraversal):
		return "traversal"
	}
	return "other"
}

func sidClass(err error) string {
	if err == nil {
		return "ok"
	}
	m := err.Error()
	switch {
	case m == "edgesync: spoke ID is required":
		return "empty"
	case strings.HasSuffix(m, " contains a path separator"):
		return "separator"
	case strings.HasSuffix(m, " may not start with a dot"):
		return "dot"
	case m == "edgesync: spoke ID contains a NUL byte":
		return "nul"
	}
	return "other"
}

func spClass(err error) string {
	if err == nil {
		return "ok"
	}
	m := err.Error()
	switch {
	case m == "edgesync: path is required":
		return "empty"
	case m == "edgesync: path contains a NUL byte":
		return "nul"
	case strings.HasSuffix(m, " must be relative"):
		return "absolute"
	case strings.HasSuffix(m, " contains a backslash"):
		return "backslash"
	case strings.HasSuffix(m, " contains a parent-directory sequence"):
		return "dotdot"
	case strings.HasSuffix(m, " contains an empty segment"):
		return "emptyseg"
	case strings.HasSuffix(m, " may not start with a dot"):
		return "leadingdot"
	case strings.HasSuffix(m, " is not a .parquet file"):
		return "notparquet"
	}
	return "other"
}

func short(s string) string {
	q := strconv.Quote(s)
	if len(q) > 300 {
		q = q[:300] + "…"
	}
	return q
}

// ---------------------------------------------------------------- main

func main() {
	if os.Getenv("C08_CHILD") != "" {
		childMain()
		return
	}
	c := vh.Start()
	r := vh.NewRand(c.Seed)
	hexs := func(s string) string { return vh.Hex([]byte(s)) }

	// ---- path ops
	opVP := func(base, k string) (string, bool) {
		p, err := storage.VerifC08ValidatePath(base, k)
		cl := vpClass(p, err)
		c.Op("vp "+hexs(base)+" "+hexs(k), cl)
		if err == nil && !inside(base, p) {
			c.Fail("escape-from-root:validatePath",
				fmt.Sprintf("LocalBackend(base=%s).validatePath(%s) accepted and returned %s, which is not inside the base", short(base), short(k), short(p)),
				fmt.Sprintf("base=%s key=%s returned=%s", strconv.Quote(base), strconv.Quote(k), strconv.Quote(p)))
		}
		if err == nil {
			c.Tag("vp:ok")
		} else {
			c.Tag("vp:" + cl)
		}
		// the validator of the write procedures: additionally strictly below the base
		fp, ferr := storage.VerifC08ValidateFilePath(base, k)
		fcl := vpClass(fp, ferr)
		c.Op("vfp "+hexs(base)+" "+hexs(k), fcl)
		if ferr == nil && (fp == base || !inside(base, fp) || !inside(base, storage.VerifC08PartPath(fp))) {
			c.Fail("escape-from-root:validateFilePath",
				fmt.Sprintf("LocalBackend(base=%s).validateFilePath(%s) accepted %s: the path or its .part staging name is not strictly inside the base", short(base), short(k), short(fp)),
				fmt.Sprintf("base=%s key=%s returned=%s", strconv.Quote(base), strconv.Quote(k), strconv.Quote(fp)))
		}
		if ferr != nil {
			c.Tag("vfp:" + fcl)
		}
		return p, err == nil
	}
	opKey := func(k string, all bool) {
		base := vh.Pick(r, bases)
		_, ok := opVP(base, k)
		nontriv := !ok || strings.Contains(k, "..") || strings.Contains(k, "\x00") || strings.HasPrefix(k, "/")
		if all || r.Chance(25) {
			c.Op("san "+hexs(k), hexs(storage.VerifC08SanitizePath(k)))
		}
		if all || r.Chance(30) {
			err := raft.ValidateManifestPath(k)
			cl := mpClass(err)
			c.Op("mp "+hexs(k), cl)
			c.Tag("mp:" + cl)
			if err == nil {
				if p, e := storage.VerifC08ValidatePath(base, k); e != nil || !inside(base, p) {
					c.Fail("escape-from-root:manifest-path",
						fmt.Sprintf("manifest path %s passes ValidateManifestPath but LocalBackend(base=%s) resolves it to %s err=%v", short(k), short(base), short(p), e),
						fmt.Sprintf("base=%s key=%s", strconv.Quote(base), strconv.Quote(k)))
				}
			}
		}
		if all || r.Chance(20) {
			cl := spClass(edgesync.VerifC08ValidateSyncPath(k))
			c.Op("sp "+hexs(k), cl)
			c.Tag("sp:" + cl)
		}
		if all || r.Chance(10) {
			cl := sidClass(edgesync.VerifC08ValidateSpokeID(k))
			c.Op("sid "+hexs(k), cl)
			c.Tag("sid:" + cl)
		}
		if all || r.Chance(10) {
			c.Op("clean "+hexs(k), hexs(filepath.Clean(k)))
		}
		c.Case("key "+hexs(k)+" "+base, nontriv)
	}
	opRel := func(a, b string) {
		out := vh.Guard(func() string {
			rp, err := filepath.Rel(a, b)
			if err != nil {
				return "err"
			}
			return "ok " + hexs(rp)
		})
		c.Op("rel "+hexs(a)+" "+hexs(b), out)
		c.Op("join "+hexs(a)+" "+hexs(b), hexs(filepath.Join(a, b)))
	}
	opNS := func(spoke, p string) {
		ns := edgesync.NamespacedPath(spoke, p)
		c.Op("ns "+hexs(spoke)+" "+hexs(p), hexs(ns))
		c.Op("stg "+hexs(spoke)+" "+hexs(p), hexs(edgesync.VerifC08StagingPathFor(spoke, p)))
		sidOK := edgesync.VerifC08ValidateSpokeID(spoke) == nil
		spOK := edgesync.VerifC08ValidateSyncPath(p) == nil
		c.Op("sid "+hexs(spoke), sidClass(edgesync.VerifC08ValidateSpokeID(spoke)))
		c.Op("sp "+hexs(p), spClass(edgesync.VerifC08ValidateSyncPath(p)))
		if sidOK && spOK {
			c.Tag("ns:valid")
			base := vh.Pick(r, bases)
			for _, kk := range []string{ns, edgesync.VerifC08StagingPathFor(spoke, p)} {
				full, ok := opVP(base, kk)
				if !ok || !inside(base, full) {
					c.Fail("escape-from-root:edgesync-path",
						fmt.Sprintf("spoke %s path %s pass the edge-sync validators but key %s is rejected/escapes base %s (resolved %s)", short(spoke), short(p), short(kk), short(base), short(full)),
						fmt.Sprintf("base=%s spoke=%s path=%s", strconv.Quote(base), strconv.Quote(spoke), strconv.Quote(p)))
				}
			}
			if !strings.HasPrefix(ns, spoke+"/") || strings.Contains(ns, "/../") || strings.HasSuffix(ns, "/..") {
				c.Fail("escape-from-namespace:edgesync-path",
					fmt.Sprintf("NamespacedPath(%s, %s) = %s leaves the spoke's key namespace", short(spoke), short(p), short(ns)),
					fmt.Sprintf("spoke=%s path=%s", strconv.Quote(spoke), strconv.Quote(p)))
			}
		} else {
			c.Tag("ns:invalid")
		}
		c.Case("ns "+hexs(spoke)+" "+hexs(p), sidOK && spOK)
	}

	// (0) corpus
	if ents, err := os.ReadDir("/verif/corpus/C08"); err == nil {
		for _, e := range ents {
			b, err := os.ReadFile(filepath.Join("/verif/corpus/C08", e.Name()))
			if err != nil {
				continue
			}
			for _, ln := range strings.Split(string(b), "\n") {
				if ln == "" || strings.HasPrefix(ln, "#") {
					continue
				}
				if k, err := strconv.Unquote(ln); err == nil {
					opKey(k, true)
				}
			}
		}
	}
	// (1) exhaustive grid: every string of length ≤ 5 over { . / NUL a \ }, for three bases
	al := []byte{'.', '/', 0, 'a', '\\'}
	maxLen := 5
	if c.Thorough() {
		maxLen = 6
	}
	var gen func(prefix []byte)
	gi := 0
	gen = func(prefix []byte) {
		k := string(prefix)
		gi++
		base := bases[gi%3+1]
		_, ok := opVP(base, k)
		if gi%7 == int(c.Seed%7) {
			c.Op("mp "+hexs(k), mpClass(raft.ValidateManifestPath(k)))
			c.Op("sp "+hexs(k), spClass(edgesync.VerifC08ValidateSyncPath(k)))
			c.Op("sid "+hexs(k), sidClass(edgesync.VerifC08ValidateSpokeID(k)))
			c.Op("san "+hexs(k), hexs(storage.VerifC08SanitizePath(k)))
			c.Op("clean "+hexs(k), hexs(filepath.Clean(k)))
		}
		c.Case("key "+hexs(k)+" "+base, !ok || strings.Contains(k, ".."))
		if len(prefix) == maxLen {
			return
		}
		for _, ch := range al {
			gen(append(append([]byte{}, prefix...), ch))
		}
	}
	gen(nil)
	// (2) hand-picked edges
	edge := []string{"", "/", "//", "///etc/passwd", "..", "../", "/..", "/../..", ".\x00.", ".\x00./etc", "/.\x00./.\x00./x",
		"a/.\x00./.\x00./.\x00./x", "\x00..", "..\x00", ".\x00.\x00.", "...", "....", ".....", "..x", "x..", "a/..b/c", "a/b..", "..\\..\\x",
		"C:\\Windows", "C:/x", "c:x", "s3://bucket/k", "file:/etc/passwd", "a:b", "\\\\host\\share", "a/./b", "a//b", "a/b/", "a/b//",
		strings.Repeat("a", 4096), strings.Repeat("a", 4097), strings.Repeat("../", 2000), strings.Repeat(".\x00./", 50) + "etc/passwd",
		strings.Repeat("a/", 3000), "db/m/2026/05/20/15/f.parquet", "/db/m/f.parquet", "日本/語.parquet", "\xff\xfe/\xc0\xaf", "a\nb", "_", "__",
		".\x00", "\x00", "\x00\x00", "/\x00", "\x00/", "\x00/..", ".\x00.\x00/", "a/\x00../b", ".part", "f.part", ".arc-1.tmp", ".sync-staging/x/y.parquet"}
	for _, k := range edge {
		for range bases {
			opKey(k, true)
		}
	}
	for _, a := range append(append([]string{}, bases...), "", ".", "a", "a/b", "../a", "/a/../b", "a/", "./a", "/a/b/../../..") {
		for _, b := range append(append([]string{}, bases...), "", ".", "a", "a/c", "../a", "/a/../b/x", "/data", "/data/arc/x/y", "/data/arc2/z", "/a/b", "/a/b/c/d", "..", "../..") {
			opRel(a, b)
		}
	}
	// (3) random adversarial keys
	nKeys := c.N
	if nKeys == 0 {
		nKeys = 100000
		if c.Thorough() {
			nKeys = 300000
		}
	}
	for i := 0; i < nKeys; i++ {
		opKey(randKey(r), false)
		if i%16 == 0 {
			opNS(randSpoke(r), randSyncPath(r))
		}
		if i%64 == 0 {
			a, b := vh.Pick(r, bases), randKey(r)
			if r.Chance(50) {
				b = filepath.Join(vh.Pick(r, bases), randKey(r))
			}
			opRel(a, b)
		}
	}

	// ---- real writes with adversarial keys: nothing may appear outside the root
	jail := filepath.Join(c.OutDir, "fs", "jail")
	os.RemoveAll(jail)
	root := filepath.Join(jail, "outer", "root")
	must(os.MkdirAll(root, 0o700))
	if b, err := storage.NewLocalBackend(root, zerolog.Nop()); err == nil {
		nW := 1500
		if c.Thorough() {
			nW = 10000
		}
		jr := r.Fork()
		var keys []string
		for i := 0; i < nW; i++ {
			k := randKey(jr)
			if len(k) > 600 {
				k = k[:600]
			}
			if b.GetFullPath(k) == root {
				c.Tag("jail:root-key") // must be refused by the write procedures; also probed deterministically below
			}
			keys = append(keys, k)
			switch i % 3 {
			case 0:
				_ = b.Write(context.Background(), k, []byte("x"))
			case 1:
				_ = b.WriteReader(context.Background(), k, strings.NewReader("yy"), 2)
			case 2:
				_ = b.WriteReader(context.Background(), k, &failingReader{data: []byte("zzz"), after: 1}, 3)
				_ = b.AppendReader(context.Background(), k, strings.NewReader("zz"), 2)
			}
		}
		escaped := ""
		filepath.WalkDir(jail, func(p string, d os.DirEntry, err error) error {
			if err != nil || p == jail || p == filepath.Join(jail, "outer") {
				return nil
			}
			if p != root && !strings.HasPrefix(p, root+"/") && escaped == "" {
				escaped = p
			}
			return nil
		})
		if escaped != "" {
			c.Fail("escape-from-root:write-fs", "a write through LocalBackend created "+short(escaped)+" outside the root "+root,
				fmt.Sprintf("seed=%d keys=%d (first keys: %s)", c.Seed, len(keys), short(strings.Join(keys[:5], " | "))))
		}
		c.Extra["jail_writes"] = nW
		c.Tag("jail:writes")
	}
	os.RemoveAll(jail)
	// keys that resolve to the root ITSELF: the final path is the root directory, so the staging file
	// "<root>.part" (WriteReader) and the temp file in Dir(root) (Write) are siblings of the root.
	for _, k := range []string{"", "/", ".", "./", "a/.\x00."} {
		os.RemoveAll(jail)
		must(os.MkdirAll(root, 0o700))
		b, err := storage.NewLocalBackend(root, zerolog.Nop())
		must(err)
		werr := b.WriteReader(context.Background(), k, strings.NewReader("payload"), 7)
		_ = b.Write(context.Background(), k, []byte("payload"))
		_ = b.AppendReader(context.Background(), k, strings.NewReader("payload"), 7)
		ents, _ := os.ReadDir(filepath.Dir(root))
		var names []string
		for _, e := range ents {
			names = append(names, e.Name())
		}
		c.Tag("rootkey:probe")
		if len(names) != 1 || names[0] != "root" {
			c.Fail("escape-from-root:staging-file-of-root-key",
				fmt.Sprintf("WriteReader/Write/AppendReader(key=%s) on a LocalBackend rooted at <dir>/root created a file OUTSIDE the root: Dir(root) now contains %v (err=%v); the key resolves to the root itself, so the staging name is <root>.part, a sibling of the root", short(k), names, werr),
				fmt.Sprintf("root=<dir>/root; b.WriteReader(ctx, %s, strings.NewReader(\"payload\"), 7); ls <dir>", strconv.Quote(k)))
		}
	}
	os.RemoveAll(jail)

	// ---- in-process runs of the three procedures (to completion, and with failing readers)
	inproc := filepath.Join(c.OutDir, "fs", "inproc")
	os.RemoveAll(inproc)
	runIn := func(s scn, failAfter int) {
		rt := filepath.Join(inproc, "r")
		os.RemoveAll(rt)
		s.setup(rt)
		b, err := storage.NewLocalBackend(rt, zerolog.Nop())
		must(err)
		data := genData(s.n, s.seed)
		var rd io.Reader = plainReader{bytes.NewReader(data)}
		if failAfter >= 0 {
			rd = &failingReader{data: data, after: failAfter}
		}
		errS := vh.Guard(func() string {
			if e := s.call(b, rd); e != nil {
				return "false"
			}
			return "true"
		})
		f, st := s.observe(rt)
		prev, intended := s.allowedFinal()
		if f != prev && (intended == "" || f != intended) {
			c.Fail(s.failKey(),
				fmt.Sprintf("%s (in-process, reader failing after %d bytes) left the final path in state %s (previous %s, intended %s)", s.proc, failAfter, f, prev, intended),
				"run "+s.fields())
		}
		if failAfter < 0 {
			c.Op("run "+s.fields(), fmt.Sprintf("final=%s stage=%s ok=%s", f, st, errS))
			c.Tag("run:" + s.proc + ":ok=" + errS)
			if errS == "true" && intended != "" && f != intended {
				c.Fail("incomplete-after-success:"+s.proc, fmt.Sprintf("%s returned nil but the final path holds %s, intended %s", s.proc, f, intended), "run "+s.fields())
			}
		} else {
			c.Op("crash "+s.fields()+" "+f+" "+st, "allowed")
			c.Tag("fault:" + s.proc)
		}
		c.Case(fmt.Sprintf("run %s fail=%d", s.fields(), failAfter), failAfter >= 0 || s.pre >= 0 || s.part0 >= 0)
	}
	sizes := []int{0, 1, 4096, 70000}
	if c.Thorough() {
		sizes = append(sizes, 32768, 32769, 1<<18)
	}
	for _, proc := range []string{"write", "wreader", "append"} {
		for _, n := range sizes {
			for _, pre := range []int{-1, 0, 33} {
				for _, part0 := range []int{-1, 0, 10} {
					if proc == "write" && part0 != -1 {
						continue
					}
					aszs := []int64{0}
					if proc == "append" {
						aszs = []int64{int64(n), int64(n) + 1, int64(n) - 1}
					}
					for _, asz := range aszs {
						s := scn{proc, pre, part0, n, int(c.Seed) + n%7, asz}
						runIn(s, -1)
						if proc != "write" && n > 0 {
							runIn(s, 0)
							runIn(s, n/2)
							runIn(s, n-1)
						}
					}
				}
			}
		}
	}
	for _, n := range []int{1, 4096, 70000} {
		for _, proc := range []string{"writeR", "wreaderR"} {
			s := scn{proc, -1, -1, n, int(c.Seed) + n%7, 0}
			runIn(s, -1)
			if proc == "wreaderR" {
				runIn(s, 0)
				runIn(s, n/2)
				runIn(s, n-1)
			}
		}
	}
	os.RemoveAll(inproc)

	// ---- crash points (strace kill injection in a child process of this binary)
	self, err := os.Executable()
	must(err)
	var scns []scn
	csizes := []int{0, 1, 4096, 70000}
	if c.Thorough() {
		csizes = []int{0, 1, 4096, 70000, 1 << 18}
	}
	for i, n := range csizes {
		pre := []int{-1, 33}[(i+int(c.Seed))%2]
		if c.Thorough() {
			for _, p := range []int{-1, 33} {
				scns = append(scns, scn{"write", p, -1, n, int(c.Seed), 0},
					scn{"wreader", p, -1, n, int(c.Seed), 0}, scn{"wreader", p, 7, n, int(c.Seed), 0},
					scn{"append", p, 10, n, int(c.Seed), int64(n)}, scn{"append", p, 0, n, int(c.Seed), int64(n) + 1})
			}
			continue
		}
		scns = append(scns, scn{"write", pre, -1, n, int(c.Seed), 0},
			scn{"wreader", pre, []int{-1, 7}[i%2], n, int(c.Seed), 0},
			scn{"append", pre, 10, n, int(c.Seed), int64(n)})
	}
	// retry branch ("directory deleted externally") of Write and WriteReader, crashed at every syscall
	for _, n := range []int{1, 4096, 70000} {
		scns = append(scns, scn{"writeR", -1, -1, n, int(c.Seed), 0}, scn{"wreaderR", -1, -1, n, int(c.Seed), 0})
	}
	scns = append(scns, scn{"append", -1, -1, 5, int(c.Seed), 5}) // no staging file: must fail without touching anything
	type pair struct {
		si  int
		sc  string
		obs []crashObs
	}
	var pairs []*pair
	for si := range scns {
		for _, sc := range crashSyscalls {
			pairs = append(pairs, &pair{si: si, sc: sc})
		}
	}
	crashRoot := filepath.Join(c.OutDir, "fs", "crash")
	os.RemoveAll(crashRoot)
	var wg sync.WaitGroup
	sem := make(chan struct{}, 12)
	var panicMu sync.Mutex
	var firstPanic any
	for pi, p := range pairs {
		wg.Add(1)
		sem <- struct{}{}
		go func(pi int, p *pair) {
			defer wg.Done()
			defer func() { <-sem }()
			defer func() {
				if e := recover(); e != nil {
					panicMu.Lock()
					if firstPanic == nil {
						firstPanic = e
					}
					panicMu.Unlock()
				}
			}()
			for when := 1; when <= 400; when++ {
				o := runCrash(self, filepath.Join(crashRoot, fmt.Sprintf("p%d", pi)), scns[p.si], p.sc, when)
				p.obs = append(p.obs, o)
				if !o.killed {
					break
				}
			}
		}(pi, p)
	}
	wg.Wait()
	os.RemoveAll(crashRoot)
	if firstPanic != nil {
		fmt.Fprintln(os.Stderr, "crash-point stage failed:", firstPanic)
		os.Exit(70)
	}
	nCrash := 0
	for _, p := range pairs {
		s := scns[p.si]
		prev, intended := s.allowedFinal()
		for _, o := range p.obs {
			c.Op("crash "+s.fields()+" "+o.final+" "+o.stage, "allowed")
			tag := "crash:" + s.proc + ":" + p.sc
			if !o.killed {
				tag = "crash:" + s.proc + ":completed"
			} else {
				nCrash++
			}
			c.Tag(tag)
			if o.final != prev && (intended == "" || o.final != intended) {
				c.Fail(s.failKey(),
					fmt.Sprintf("%s killed on entry of %s #%d left the final path in state %s (previous %s, intended %s; staging %s)", s.proc, p.sc, o.when, o.final, prev, intended, o.stage),
					fmt.Sprintf("scenario `%s` (proc pre part0 n seed appendSize), SIGKILL at %s call #%d of the child", s.fields(), p.sc, o.when))
			}
			changed := o.final != prev || (o.stage != "x" && !(s.part0 >= 0 && s.proc != "write" && o.stage == stateOf(genPart(s.part0), true)))
			c.Case(fmt.Sprintf("crash %s %s %d", s.fields(), p.sc, o.when), o.killed && changed)
		}
	}
	c.Extra["crash_points_killed"] = nCrash
	c.Extra["crash_scenarios"] = len(scns)

	c.Finish("cases = (a) key × base for validatePath/sanitize/manifest/edge-sync validators: exhaustive strings of length ≤5 over {. / NUL a \\}, an edge list, and random adversarial keys ('..', '.\\0.', '//', backslashes, unicode/invalid UTF-8, trailing '/', absolute, long); non-trivial = rejected or containing '..'/NUL/leading '/'; (b) in-process runs of Write/WriteReader/AppendReader with failing readers; (c) one case per (scenario, syscall, N) crash point of a child process killed by strace injection; non-trivial = killed after the file system changed; distinct = distinct case text")
}
