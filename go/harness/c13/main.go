//go:build verif

// C13 correspondence harness: drives the REAL backup.Manager (CreateBackup / RestoreBackup) over
// real LocalBackend storage wrapped by a per-file fault injector, on random storage trees, and
// records for every op the canonical outcome (status, manifest counts, progress counters, resulting
// tree) for the diff against the Lean model. Independent property monitors call c.Fail.
package main

import (
	"context"
	"database/sql"
	"encoding/hex"
	"encoding/json"
	"errors"
	"fmt"
	"io"
	"io/fs"
	"os"
	"path/filepath"
	"sort"
	"strconv"
	"strings"

	"github.com/basekick-labs/arc/internal/backup"
	"github.com/basekick-labs/arc/internal/storage"
	"github.com/basekick-labs/arc/internal/verif/vh"
	"github.com/rs/zerolog"
)

// ---------------------------------------------------------------- fault injection

var errInjRead = errors.New("verif: injected read failure")
var errInjWrite = errors.New("verif: injected write failure")

// faults of one phase. read/write are keyed by ORIGINAL storage path. Value: -1 = fails before any
// byte moves; k>=0 = fails after k bytes were delivered (read) / staged (write).
type faults struct {
	manifest bool
	read     map[string]int
	write    map[string]int
	// TRANSIENT faults: the first n attempts on the file fail (a read after delivering d bytes, a
	// write before any byte (d<0) or after d staged bytes); later attempts succeed.
	readT  map[string][2]int
	writeT map[string][2]int
	// the SQLite (metadata/arc.db) / arc.toml (config/arc.toml) step fails in this phase
	sqlite, config bool
	// options of the phase: backup = IncludeMetadata / IncludeConfig; restore = RestoreMetadata /
	// RestoreConfig / NOT RestoreData
	optMeta, optCfg, optNoData bool
}

func noFaults() *faults {
	return &faults{read: map[string]int{}, write: map[string]int{}, readT: map[string][2]int{}, writeT: map[string][2]int{}}
}

func (f *faults) any() bool {
	return f.manifest || f.sqlite || f.config || len(f.read) > 0 || len(f.write) > 0 || len(f.readT) > 0 || len(f.writeT) > 0
}

// faultBackend wraps the real LocalBackend. isBackup: keys are "<id>/data/<orig>" and
// "<id>/manifest.json"; otherwise keys are original paths.
type faultBackend struct {
	*storage.LocalBackend
	isBackup bool
	f        *faults
	hitRead  map[string]bool
	hitWrite map[string]bool
	nRead    map[string]int // attempts seen so far, per original path
	nWrite   map[string]int
}

func (b *faultBackend) key(path string) (string, bool) {
	if !b.isBackup {
		return path, true
	}
	i := strings.Index(path, "/data/")
	if i < 0 || strings.Contains(path[:i], "/") { // "<id>/data/<orig>" only
		return "", false
	}
	return path[i+len("/data/"):], true
}

func (b *faultBackend) ReadTo(ctx context.Context, path string, w io.Writer) error {
	if k, ok := b.key(path); ok {
		if n, bad := b.f.read[k]; bad {
			b.hitRead[k] = true
			if n > 0 {
				if data, err := os.ReadFile(b.LocalBackend.GetFullPath(path)); err == nil {
					if n > len(data) {
						n = len(data)
					}
					w.Write(data[:n])
				}
			}
			return errInjRead
		}
		if t, ok := b.f.readT[k]; ok {
			b.nRead[k]++
			if b.nRead[k] <= t[0] { // this attempt fails after delivering t[1] bytes
				b.hitRead[k] = true
				if n := t[1]; n > 0 {
					if data, err := os.ReadFile(b.LocalBackend.GetFullPath(path)); err == nil {
						if n > len(data) {
							n = len(data)
						}
						w.Write(data[:n])
					}
				}
				return errInjRead
			}
		}
	}
	return b.LocalBackend.ReadTo(ctx, path, w)
}

type failingReader struct {
	r    io.Reader
	left int
}

func (fr *failingReader) Read(p []byte) (int, error) {
	if fr.left <= 0 {
		return 0, errInjWrite
	}
	if len(p) > fr.left {
		p = p[:fr.left]
	}
	n, err := fr.r.Read(p)
	fr.left -= n
	if err == io.EOF {
		return n, errInjWrite
	}
	return n, err
}

func (b *faultBackend) WriteReader(ctx context.Context, path string, r io.Reader, size int64) error {
	if b.isBackup && b.f.sqlite && strings.HasSuffix(path, "/metadata/arc.db") {
		return errInjWrite
	}
	if k, ok := b.key(path); ok {
		if n, bad := b.f.write[k]; bad {
			b.hitWrite[k] = true
			if n < 0 {
				return errInjWrite
			}
			// the REAL LocalBackend sees a transfer that dies after n bytes
			return b.LocalBackend.WriteReader(ctx, path, &failingReader{r: r, left: n}, size)
		}
		if t, ok := b.f.writeT[k]; ok {
			b.nWrite[k]++
			if b.nWrite[k] <= t[0] {
				b.hitWrite[k] = true
				if t[1] < 0 {
					return errInjWrite
				}
				return b.LocalBackend.WriteReader(ctx, path, &failingReader{r: r, left: t[1]}, size)
			}
		}
	}
	return b.LocalBackend.WriteReader(ctx, path, r, size)
}

func (b *faultBackend) Write(ctx context.Context, path string, data []byte) error {
	if b.isBackup && b.f.manifest && strings.HasSuffix(path, "/manifest.json") {
		return errInjWrite
	}
	if b.isBackup && b.f.config && strings.HasSuffix(path, "/config/arc.toml") {
		return errInjWrite
	}
	return b.LocalBackend.Write(ctx, path, data)
}

func (b *faultBackend) Read(ctx context.Context, path string) ([]byte, error) {
	if b.isBackup && b.f.manifest && strings.HasSuffix(path, "/manifest.json") {
		return nil, errInjRead
	}
	if b.isBackup && b.f.sqlite && strings.HasSuffix(path, "/metadata/arc.db") {
		return nil, errInjRead
	}
	if b.isBackup && b.f.config && strings.HasSuffix(path, "/config/arc.toml") {
		return nil, errInjRead
	}
	return b.LocalBackend.Read(ctx, path)
}

func newFB(dir string, isBackup bool, f *faults) *faultBackend {
	lb, err := storage.NewLocalBackend(dir, zerolog.Nop())
	if err != nil {
		panic(err)
	}
	return &faultBackend{LocalBackend: lb, isBackup: isBackup, f: f, hitRead: map[string]bool{}, hitWrite: map[string]bool{},
		nRead: map[string]int{}, nWrite: map[string]int{}}
}

// ---------------------------------------------------------------- trees

type file struct {
	path string
	data []byte
}

func fnv(b []byte) uint64 {
	h := uint64(14695981039346656037)
	for _, c := range b {
		h = (h ^ uint64(c)) * 1099511628211
	}
	return h
}

func readTree(dir string) map[string][]byte {
	out := map[string][]byte{}
	filepath.WalkDir(dir, func(p string, d fs.DirEntry, err error) error {
		if err != nil || d.IsDir() {
			return nil
		}
		rel, _ := filepath.Rel(dir, p)
		b, _ := os.ReadFile(p)
		out[filepath.ToSlash(rel)] = b
		return nil
	})
	return out
}

func showTree(t map[string][]byte) string {
	ks := make([]string, 0, len(t))
	for k := range t {
		ks = append(ks, k)
	}
	sort.Strings(ks)
	var sb strings.Builder
	sb.WriteByte('[')
	for i, k := range ks {
		if i > 0 {
			sb.WriteByte(';')
		}
		fmt.Fprintf(&sb, "%s:%d:%d", k, len(t[k]), fnv(t[k]))
	}
	sb.WriteByte(']')
	return sb.String()
}

func writeTree(dir string, files []file) {
	os.MkdirAll(dir, 0o700)
	for _, f := range files {
		full := filepath.Join(dir, filepath.FromSlash(f.path))
		os.MkdirAll(filepath.Dir(full), 0o700)
		if err := os.WriteFile(full, f.data, 0o600); err != nil {
			panic(err)
		}
	}
}

// the harness's own reading of the property's "data file or Iceberg metadata file" (independent of
// the Lean model and of isIcebergMetadata): visible, and *.parquet or under a /metadata/ directory.
func visible(p string) bool { return !strings.HasPrefix(filepath.Base(p), ".") }
func eligible(p string) bool {
	return visible(p) && (strings.HasSuffix(p, ".parquet") || strings.Contains(p, "/metadata/"))
}

func hx(b []byte) string {
	if len(b) == 0 {
		return "-"
	}
	return hex.EncodeToString(b)
}

// ---------------------------------------------------------------- op text

func setStr(m map[string]int, withK bool) string {
	if len(m) == 0 {
		return "-"
	}
	ks := make([]string, 0, len(m))
	for k := range m {
		ks = append(ks, k)
	}
	sort.Strings(ks)
	for i, k := range ks {
		if withK {
			if m[k] < 0 {
				ks[i] = k + ":pre"
			} else {
				ks[i] = k + ":" + strconv.Itoa(m[k])
			}
		}
	}
	return strings.Join(ks, ",")
}

func b01(b bool) string {
	if b {
		return "1"
	}
	return "0"
}

func tStr(m map[string][2]int, write bool) string {
	if len(m) == 0 {
		return "-"
	}
	ks := make([]string, 0, len(m))
	for k := range m {
		ks = append(ks, k)
	}
	sort.Strings(ks)
	for i, k := range ks {
		d := strconv.Itoa(m[k][1])
		if write && m[k][1] < 0 {
			d = "pre"
		}
		ks[i] = fmt.Sprintf("%s:%d:%s", k, m[k][0], d)
	}
	return strings.Join(ks, ",")
}

func faultStr(f *faults) string {
	return fmt.Sprintf("mf=%s sf=%s cf=%s r=%s w=%s rt=%s wt=%s", b01(f.manifest), b01(f.sqlite), b01(f.config),
		setStr(f.read, false), setStr(f.write, true), tStr(f.readT, false), tStr(f.writeT, true))
}

// ---------------------------------------------------------------- one case

type restoreSpec struct {
	into string // "empty" | "orig"
	f    *faults
}

type runner struct {
	c      *vh.Ctx
	work   string
	n      int
	dbTmpl []byte // a valid SQLite database file
}

func backupErrClass(err error) string {
	s := err.Error()
	switch {
	case strings.HasPrefix(s, "failed to back up "):
		return "copy"
	case strings.HasPrefix(s, "backup failed:"):
		return "ratio"
	case strings.HasPrefix(s, "failed to write manifest"):
		return "manifest"
	}
	return "other(" + strings.ReplaceAll(s, " ", "_") + ")"
}

func restoreErrClass(err error) string {
	switch s := err.Error(); {
	case strings.HasPrefix(s, "failed to read backup manifest"):
		return "nomanifest"
	case strings.HasPrefix(s, "failed to restore SQLite database"):
		return "sqlite"
	case strings.HasPrefix(s, "failed to restore config"):
		return "config"
	}
	return "data"
}

func (r *runner) run(files []file, bf *faults, restores []restoreSpec) {
	c := r.c
	r.n++
	ctx := context.Background()
	dir := filepath.Join(r.work, fmt.Sprintf("c%d", r.n))
	defer os.RemoveAll(dir)
	dataDir, backupDir := filepath.Join(dir, "data"), filepath.Join(dir, "backup")
	writeTree(dataDir, files)
	orig := map[string][]byte{}
	for _, f := range files {
		orig[f.path] = f.data
	}

	var canon strings.Builder
	emit := func(op, out string) {
		c.Op(op, out)
		canon.WriteString(op)
		canon.WriteString(" => ")
		canon.WriteString(out)
		canon.WriteString("\n")
	}
	var tl strings.Builder
	fmt.Fprintf(&tl, "tree %d", len(files))
	for _, f := range files {
		tl.WriteString(" " + f.path + " " + hx(f.data))
	}
	emit(tl.String(), fmt.Sprintf("ok n=%d", len(files)))

	// ---- backup with the real Manager
	dataFB := newFB(dataDir, false, bf)
	var bkFB *faultBackend
	metaDir := filepath.Join(dir, "meta")
	os.MkdirAll(metaDir, 0o700)
	cfgBytes := []byte("[storage]\nbackend = \"local\"\n")
	os.WriteFile(filepath.Join(metaDir, "arc.db"), r.dbTmpl, 0o600)
	os.WriteFile(filepath.Join(metaDir, "arc.toml"), cfgBytes, 0o600)
	mgr, err := backup.NewManager(&backup.ManagerConfig{DataStorage: dataFB, BackupPath: backupDir, Logger: zerolog.Nop(),
		SQLiteDBPath: filepath.Join(metaDir, "arc.db"), ConfigPath: filepath.Join(metaDir, "arc.toml")})
	if err != nil {
		panic(err)
	}
	backup.VerifC13WrapBackupStorage(mgr, func(storage.Backend) storage.Backend {
		bkFB = newFB(backupDir, true, bf)
		return bkFB
	})
	bop := fmt.Sprintf("backup inc=%s%s %s", b01(bf.optMeta), b01(bf.optCfg), faultStr(bf))
	var res *backup.BackupResult
	var berr error
	if p := vh.Guard(func() string {
		res, berr = mgr.CreateBackup(ctx, backup.BackupOptions{IncludeMetadata: bf.optMeta, IncludeConfig: bf.optCfg})
		return ""
	}); p != "" {
		emit(bop, p)
		c.Case(canon.String(), true)
		return
	}
	prog := mgr.GetProgress()
	backupID := prog.BackupID
	var bout string
	invTotal := int64(-1) // total_files of the persisted manifest (parquet inventory)
	backupOK := berr == nil && prog.Status == "completed"
	stored := readTree(filepath.Join(backupDir, backupID, "data"))
	if berr != nil {
		bout = "failed:" + backupErrClass(berr)
		if prog.Status != "failed" {
			bout += " status=" + prog.Status
		}
	} else {
		// the manifest as PERSISTED (what a later restore / operator sees), not the in-memory one
		persisted := map[string]any{}
		if raw, e := os.ReadFile(filepath.Join(backupDir, backupID, "manifest.json")); e == nil {
			json.Unmarshal(raw, &persisted)
		}
		num := func(k string) int64 {
			if v, ok := persisted[k].(float64); ok {
				return int64(v)
			}
			return 0
		}
		dbs, meas := 0, 0
		if l, ok := persisted["databases"].([]any); ok {
			dbs = len(l)
			for _, d := range l {
				if ms, ok := d.(map[string]any)["measurements"].([]any); ok {
					meas += len(ms)
				}
			}
		}
		st := prog.Status
		if st != "completed" {
			st = "status=" + st
		}
		invTotal = num("total_files")
		flag := func(k string) string {
			v, _ := persisted[k].(bool)
			return b01(v)
		}
		bout = fmt.Sprintf("%s total=%d size=%d skipped=%d dbs=%d meas=%d hasmeta=%s hascfg=%s ptotal=%d processed=%d pbytes=%d pskipped=%d store=%s",
			st, num("total_files"), num("total_size_bytes"), num("skipped_files"), dbs, meas, flag("has_metadata"), flag("has_config"),
			prog.TotalFiles, prog.ProcessedFiles, prog.ProcessedBytes, prog.SkippedFiles, showTree(stored))
		// ---- monitor (clause 3): a completed backup that does not hold every visible data / Iceberg
		// metadata file byte-for-byte must say so in its persisted manifest.
		if backupOK {
			missing := []string{}
			for p, b := range orig {
				if eligible(p) {
					if sb, ok := stored[p]; !ok || string(sb) != string(b) {
						missing = append(missing, p)
					}
				}
			}
			sort.Strings(missing)
			// every file the backup CLAIMS to contain must hold the source bytes
			for _, p := range sortedKeys(stored) {
				if ob, ok := orig[p]; ok && string(ob) != string(stored[p]) {
					c.Fail("backup-holds-wrong-bytes:streamBackupFile",
						fmt.Sprintf("CreateBackup reported completed; the backup's copy of %s has %d bytes (FNV %d), the source has %d bytes (FNV %d)",
							p, len(stored[p]), fnv(stored[p]), len(ob), fnv(ob)),
						canon.String()+bop+" => "+bout+"\n")
					break
				}
			}
			if len(missing) > 0 && (num("skipped_files") == 0 || res.Manifest.SkippedFiles == 0) {
				c.Fail("backup-incomplete-unrecorded:CreateBackup",
					fmt.Sprintf("CreateBackup reported completed, backup lacks %d file(s) (first: %s) but manifest skipped_files=%d (in-memory %d)",
						len(missing), missing[0], num("skipped_files"), res.Manifest.SkippedFiles),
					canon.String()+bop+" => "+bout+"\n")
			}
			if num("skipped_files") > 0 {
				c.Tag("backup:completed-with-skips")
			}
			if int64(len(missing)) != num("skipped_files") {
				c.Tag("backup:skipped-count-differs-from-missing")
			}
		}
	}
	emit(bop, bout)
	c.Tag("backup:" + strings.SplitN(bout, " ", 2)[0])

	// ---- restores
	for _, rs := range restores {
		rdir := filepath.Join(dir, fmt.Sprintf("restore%d", r.n))
		os.RemoveAll(rdir)
		if rs.into == "orig" {
			writeTree(rdir, files)
		} else {
			os.MkdirAll(rdir, 0o700)
		}
		rdata := newFB(rdir, false, rs.f)
		rmeta := filepath.Join(dir, "rmeta")
		os.RemoveAll(rmeta)
		os.MkdirAll(rmeta, 0o700)
		rmgr, err := backup.NewManager(&backup.ManagerConfig{DataStorage: rdata, BackupPath: backupDir, Logger: zerolog.Nop(),
			SQLiteDBPath: filepath.Join(rmeta, "arc.db"), ConfigPath: filepath.Join(rmeta, "arc.toml")})
		if err != nil {
			panic(err)
		}
		backup.VerifC13WrapBackupStorage(rmgr, func(storage.Backend) storage.Backend { return newFB(backupDir, true, rs.f) })
		var rerr error
		op := fmt.Sprintf("restore into=%s opts=%s%s%s %s", rs.into, b01(!rs.f.optNoData), b01(rs.f.optMeta), b01(rs.f.optCfg), faultStr(rs.f))
		if p := vh.Guard(func() string {
			_, rerr = rmgr.RestoreBackup(ctx, backup.RestoreOptions{BackupID: backupID, RestoreData: !rs.f.optNoData,
				RestoreMetadata: rs.f.optMeta, RestoreConfig: rs.f.optCfg})
			return ""
		}); p != "" {
			emit(op, p)
			continue
		}
		rp := rmgr.GetProgress()
		after := readTree(rdir)
		st := "completed"
		if rerr != nil {
			st = "failed:" + restoreErrClass(rerr)
			if rp.Status != "failed" {
				st += "/status=" + rp.Status
			}
		} else if rp.Status != "completed" {
			st = "status=" + rp.Status
		}
		tb := rp.TotalBytes
		same := func(restored, inBackup string) string {
			a, e1 := os.ReadFile(restored)
			b, e2 := os.ReadFile(inBackup)
			return b01(e1 == nil && e2 == nil && string(a) == string(b))
		}
		out := fmt.Sprintf("%s processed=%d total=%d pbytes=%d tbytes=%d db=%s cfg=%s tree=%s", st, rp.ProcessedFiles, rp.TotalFiles, rp.ProcessedBytes, tb,
			same(filepath.Join(rmeta, "arc.db"), filepath.Join(backupDir, backupID, "metadata", "arc.db")),
			same(filepath.Join(rmeta, "arc.toml"), filepath.Join(backupDir, backupID, "config", "arc.toml")), showTree(after))
		emit(op, out)
		c.Tag("restore:" + st)
		c.Tag("restore-opts:" + b01(!rs.f.optNoData) + b01(rs.f.optMeta) + b01(rs.f.optCfg))
		if strings.Contains(out, " db=1") {
			c.Tag("restore:sqlite-restored")
		}
		success := rerr == nil && rp.Status == "completed"
		// ---- monitor (clause 2): success reported ⇒ every file held by the backup is in the data
		// storage, byte-for-byte, at its original path.
		if success && !rs.f.optNoData {
			// bytes of every restored backup file against the ORIGINAL tree (not only against the backup)
			for _, p := range sortedKeys(stored) {
				if ob, ok := orig[p]; ok {
					if ab, ok2 := after[p]; ok2 && string(ab) != string(ob) {
						c.Fail("roundtrip-mismatch:RestoreBackup",
							fmt.Sprintf("restore reported success; %s restored with %d bytes (FNV %d), original has %d bytes (FNV %d)", p, len(ab), fnv(ab), len(ob), fnv(ob)),
							canon.String())
						break
					}
				}
			}
			lost := []string{}
			for p, b := range stored {
				if ab, ok := after[p]; !ok || string(ab) != string(b) {
					lost = append(lost, p)
				}
			}
			sort.Strings(lost)
			if len(lost) > 0 {
				c.Tag("restore:success-with-lost-files")
				key := "restore-success-missing-files:restoreDataFiles"
				if invTotal == 0 { // the backup inventories no parquet file yet holds files (Iceberg metadata)
					key = "restore-success-but-files-missing:no-parquet-backup"
				}
				c.Fail(key,
					fmt.Sprintf("RestoreBackup{data:true metadata:%v config:%v} returned nil and status=completed (processed %d of %d) but %d backed-up file(s) were not restored (first: %s)",
						rs.f.optMeta, rs.f.optCfg, rp.ProcessedFiles, rp.TotalFiles, len(lost), lost[0]),
					canon.String())
			}
		}
		// ---- monitor (clause 1): fault-free restore of a completed backup into empty storage
		// reproduces exactly the backed-up files; with a fault-free backup these are exactly the
		// visible data / Iceberg metadata files of the original tree.
		if backupOK && rs.into == "empty" && !rs.f.any() && !rs.f.optNoData {
			want := stored
			if !bf.any() {
				want = map[string][]byte{}
				for p, b := range orig {
					if eligible(p) {
						want[p] = b
					}
				}
			}
			if !success || showTree(want) != showTree(after) || !sameBytes(want, after) {
				c.Fail("roundtrip-mismatch:RestoreBackup",
					fmt.Sprintf("fault-free restore into empty storage: success=%v, restored tree differs from the backed-up files (want %d files, got %d)", success, len(want), len(after)),
					canon.String())
			}
		}
	}
	c.Case(canon.String(), bf.any() || anyRestoreFault(restores) || hasOdd(files))
}

func sortedKeys(m map[string][]byte) []string {
	ks := make([]string, 0, len(m))
	for k := range m {
		ks = append(ks, k)
	}
	sort.Strings(ks)
	return ks
}

func sameBytes(a, b map[string][]byte) bool {
	if len(a) != len(b) {
		return false
	}
	for k, v := range a {
		if w, ok := b[k]; !ok || string(v) != string(w) {
			return false
		}
	}
	return true
}

func anyRestoreFault(rs []restoreSpec) bool {
	for _, r := range rs {
		if r.f.any() || r.into != "empty" || r.f.optMeta || r.f.optCfg || r.f.optNoData {
			return true
		}
	}
	return false
}

func hasOdd(fs []file) bool {
	for _, f := range fs {
		if !eligible(f.path) || len(f.data) == 0 || len(f.data) > 32768 {
			return true
		}
	}
	return false
}

// ---------------------------------------------------------------- generators

func content(r *vh.Rand, big bool) []byte {
	var n int
	switch k := r.Intn(20); {
	case k < 3:
		n = 0
	case k < 5:
		n = 1
	case k < 14:
		n = r.Range(2, 64)
	case k < 17:
		n = r.Range(500, 4200)
	case k < 19:
		n = vh.Pick(r, []int{32767, 32768, 32769})
		if !big {
			n = r.Range(100, 300)
		}
	default:
		n = r.Range(70000, 180000)
		if !big {
			n = r.Range(1000, 2000)
		}
	}
	b := make([]byte, n)
	for i := 0; i < n; i += 8 {
		v := r.U64()
		for j := 0; j < 8 && i+j < n; j++ {
			b[i+j] = byte(v >> (8 * j))
		}
	}
	return b
}

func genTree(r *vh.Rand) []file {
	seen := map[string]bool{}
	var out []file
	big := r.Chance(6)
	nBig := 0
	// store worlds without (or with few) parquet files: the manifest inventory counts only parquet
	world := r.Intn(100)
	if world < 3 {
		return nil // empty store
	}
	if world < 8 { // a single non-parquet file
		p := vh.Pick(r, []string{"arc_prod.db/cpu/metadata/v1.metadata.json", "arc_db1.db/mem/metadata/snap-1-abcd.avro",
			"arc_a.db/m.x/metadata/version-hint.text", "prod/cpu/notes.txt", "README", "metadata/top.json"})
		return []file{{p, content(r, false)}}
	}
	add := func(p string) {
		if seen[p] {
			return
		}
		// a path must not be both a file and a directory prefix of another
		for q := range seen {
			if strings.HasPrefix(q, p+"/") || strings.HasPrefix(p, q+"/") {
				return
			}
		}
		seen[p] = true
		data := content(r, big && nBig < 2)
		if len(data) > 20000 {
			nBig++
		}
		out = append(out, file{p, data})
	}
	noParquet := world < 22 // ZERO parquet files, but Iceberg metadata / manifests / other files
	parquetFreeDB := ""     // or: one database holds only non-parquet files
	dbs := []string{"prod", "db1", "metrics", "a-b", "a", "edge.site"}
	meass := []string{"cpu", "mem", "sensors", "metadata", "m.x", "disk_io"}
	ndb := r.Range(1, 3)
	for i := 0; i < ndb; i++ {
		db := vh.Pick(r, dbs)
		if world >= 22 && world < 32 && i == 0 {
			parquetFreeDB = db
		}
		nm := r.Range(1, 3)
		for j := 0; j < nm; j++ {
			ms := vh.Pick(r, meass)
			nh := r.Range(1, 4)
			for h := 0; h < nh; h++ {
				hour := fmt.Sprintf("%d/%02d/%02d/%02d", 2025+r.Intn(2), 1+r.Intn(12), 1+r.Intn(28), r.Intn(24))
				nf := r.Range(1, 4)
				for k := 0; k < nf; k++ {
					name := vh.Pick(r, []string{"f1.parquet", "f2.parquet", fmt.Sprintf("%s_%d.parquet", ms, r.Intn(1000)), "part-0.parquet"})
					if noParquet || db == parquetFreeDB {
						name = vh.Pick(r, []string{"notes.txt", "compact.manifest", "f.parquet.bak", "x.parquet.tmp", "_SUCCESS"})
						if r.Chance(50) {
							continue
						}
					}
					if r.Chance(6) {
						name = vh.Pick(r, []string{".hidden.parquet", "notes.txt", "x.parquet.tmp", "compact.manifest", ".DS_Store", "PARQUET", "f.parquet.bak"})
					}
					add(db + "/" + ms + "/" + hour + "/" + name)
				}
			}
			if r.Chance(45) || noParquet || db == parquetFreeDB { // an Iceberg table for this measurement
				ns := "arc_" + db + ".db/" + ms
				for _, nme := range []string{"00000-uuid.metadata.json", "00001-uuid.metadata.json", "v1.metadata.json", "snap-1-abcd.avro", "abcd-m0.avro", "version-hint.text", "stats.puffin"} {
					if r.Chance(60) {
						add(ns + "/metadata/" + nme)
					}
				}
				if r.Chance(20) {
					add(ns + "/metadata/" + vh.Pick(r, []string{".version-hint.text.crc", "sub/deep.avro", "manifest-list.avro"}))
				}
				if r.Chance(20) && !noParquet && db != parquetFreeDB {
					add(ns + "/metadata/odd.parquet")
				}
				if r.Chance(40) && !noParquet && db != parquetFreeDB {
					add(ns + "/data/00000-0-data.parquet")
				}
			}
		}
	}
	if r.Chance(10) && !noParquet {
		add(vh.Pick(r, []string{"root.parquet", "db1/one.parquet", "prod/.tmp/x.parquet", "README", "metadata/top.json", "x/metadata/y.parquet"}))
	}
	// present the tree in random order: the model sorts it into listing order itself
	for i := len(out) - 1; i > 0; i-- {
		j := r.Intn(i + 1)
		out[i], out[j] = out[j], out[i]
	}
	return out
}

func pickFaults(r *vh.Rand, paths []string, restore bool) *faults {
	f := noFaults()
	if len(paths) == 0 {
		if r.Chance(10) {
			f.manifest = true
		}
		return f
	}
	mode := r.Intn(10)
	if !restore {
		// a backup that fails cannot be restored: keep most backup fault sets survivable
		// (no write fault, unreadable files within the skip ratio)
		mode = vh.Pick(r, []int{0, 0, 0, 0, 0, 7, 7, 7, 7, 7, 7, 9, 9, 9, 3, 5, 8, 10, 10})
	}
	kOf := func() int {
		if r.Chance(40) {
			return -1
		}
		return vh.Pick(r, []int{0, 1, 3, 64, 40000, 1 << 20})
	}
	addOne := func(p string) {
		if r.Bool() {
			f.read[p] = kOf()
		} else {
			f.write[p] = kOf()
		}
	}
	switch {
	case mode < 3: // none
		addTransient(r, f, paths, restore)
		return f
	case mode < 5: // exactly one file
		addOne(vh.Pick(r, paths))
	case mode < 7: // random subset
		pc := vh.Pick(r, []int{5, 15, 40})
		for _, p := range paths {
			if r.Chance(pc) {
				addOne(p)
			}
		}
	case mode < 8: // around the skip-ratio boundary: ⌊n/10⌋ or ⌊n/10⌋+1 unreadable files
		k := len(paths)/10 + vh.Pick(r, []int{0, 0, 0, 0, 1, -1})
		if k < 0 {
			k = 0
		}
		for _, i := range permN(r, len(paths))[:min(k, len(paths))] {
			f.read[paths[i]] = kOf()
		}
	case mode < 9: // every file
		for _, p := range paths {
			addOne(p)
		}
	case mode == 10: // a single failing write
		f.write[vh.Pick(r, paths)] = kOf()
	default: // reads only, sparse
		for _, p := range paths {
			if r.Chance(3) {
				f.read[p] = kOf()
			}
		}
	}
	if r.Chance(4) {
		f.manifest = true
	}
	addTransient(r, f, paths, restore)
	return f
}

// addTransient: with some probability a few files get a transient read (and, on restore, write) fault.
func addTransient(r *vh.Rand, f *faults, paths []string, restore bool) {
	if len(paths) == 0 || !r.Chance(30) {
		return
	}
	k := 1
	if r.Chance(30) {
		k = r.Range(2, 3)
	}
	if !restore { // stay within the skip ratio most of the time
		k = 1
	}
	for i := 0; i < k; i++ {
		p := vh.Pick(r, paths)
		n := vh.Pick(r, []int{1, 1, 1, 2})
		if r.Chance(70) || !restore {
			f.readT[p] = [2]int{n, vh.Pick(r, []int{0, 1, 2, 3, 64, 40000})}
		} else {
			f.writeT[p] = [2]int{n, vh.Pick(r, []int{-1, 0, 2, 64})}
		}
	}
}

// makeSQLite creates a small valid SQLite database (driver registered by internal/backup's import).
func makeSQLite(path string) []byte {
	db, err := sql.Open("sqlite3", path)
	if err != nil {
		panic(err)
	}
	if _, err := db.Exec("CREATE TABLE marker (id INTEGER PRIMARY KEY, v TEXT); INSERT INTO marker(v) VALUES ('verif')"); err != nil {
		panic(err)
	}
	db.Close()
	b, err := os.ReadFile(path)
	if err != nil {
		panic(err)
	}
	return b
}

func permN(r *vh.Rand, n int) []int {
	p := make([]int, n)
	for i := range p {
		p[i] = i
	}
	for i := n - 1; i > 0; i-- {
		j := r.Intn(i + 1)
		p[i], p[j] = p[j], p[i]
	}
	return p
}

func paths(fs []file) []string {
	var ps []string
	for _, f := range fs {
		ps = append(ps, f.path)
	}
	sort.Strings(ps)
	return ps
}

func rd(ps ...string) map[string]int {
	m := map[string]int{}
	for _, p := range ps {
		m[p] = -1
	}
	return m
}

func main() {
	c := vh.Start()
	// scratch trees live on tmpfs when available (thousands of small nested directories; the
	// shared disk is slow under load); everything is removed at exit.
	work := filepath.Join(c.OutDir, "work")
	if st, err := os.Stat("/dev/shm"); err == nil && st.IsDir() {
		if d, err := os.MkdirTemp("/dev/shm", "verif-c13-"); err == nil {
			work = d
		}
	}
	os.RemoveAll(work)
	os.MkdirAll(filepath.Join(work, "tmp"), 0o700)
	os.Setenv("TMPDIR", filepath.Join(work, "tmp"))
	defer os.RemoveAll(work)
	rn := &runner{c: c, work: work, dbTmpl: makeSQLite(filepath.Join(work, "tmpl.db"))}
	r := vh.NewRand(c.Seed)

	// ---- (1) edge grid
	pq := func(i int) string { return fmt.Sprintf("db/cpu/2026/07/14/%02d/f%d.parquet", i%24, i) }
	nFiles := func(n int) []file {
		var fs []file
		for i := 0; i < n; i++ {
			fs = append(fs, file{pq(i), []byte(fmt.Sprintf("PAR1-%d", i))})
		}
		return fs
	}
	one := []file{{"db/cpu/2026/07/14/15/a.parquet", []byte("PAR1")}}
	empty := func() []restoreSpec { return []restoreSpec{{"empty", noFaults()}} }
	// minimal replay of the restore finding first (c.Fail keeps the first replay per key)
	rn.run(one, noFaults(), []restoreSpec{{"empty", &faults{read: rd(one[0].path), write: map[string]int{}}}})
	// data-file failure while the SQLite metadata / arc.toml steps succeed (a later step must not mask it)
	withMeta := func() *faults { f := noFaults(); f.optMeta = true; f.optCfg = true; return f }
	rn.run(one, withMeta(), []restoreSpec{{"empty", &faults{read: rd(one[0].path), write: map[string]int{}, optMeta: true}}})
	rn.run(one, withMeta(), []restoreSpec{{"empty", &faults{read: map[string]int{}, write: rd(one[0].path), optMeta: true, optCfg: true}},
		{"empty", &faults{read: rd(one[0].path), write: map[string]int{}, optCfg: true}},
		{"empty", &faults{read: map[string]int{}, write: map[string]int{}, optMeta: true, optCfg: true}},
		{"empty", &faults{read: rd(one[0].path), write: map[string]int{}, optMeta: true, sqlite: true}},
		{"empty", &faults{read: map[string]int{}, write: map[string]int{}, optMeta: true, optCfg: true, config: true}},
		{"orig", &faults{read: map[string]int{}, write: map[string]int{}, optMeta: true, optNoData: true}}})
	// backups with ZERO parquet files (inventory total_files = 0) that still hold Iceberg metadata
	{
		var iceOnly []file
		for _, k := range []string{"00000-uuid.metadata.json", "v1.metadata.json", "snap-1-abcd.avro", "abcd-m0.avro", "version-hint.text"} {
			iceOnly = append(iceOnly, file{"arc_prod.db/cpu/metadata/" + k, []byte("iceberg-" + k)})
		}
		oneMeta := []file{{"arc_prod.db/cpu/metadata/v1.metadata.json", []byte("{}")}}
		rn.run(oneMeta, noFaults(), empty())
		rn.run(iceOnly, withMeta(), []restoreSpec{{"empty", noFaults()}, {"empty", &faults{optMeta: true, optCfg: true}},
			{"empty", &faults{read: rd(iceOnly[1].path)}}})
		rn.run(append(append([]file{}, iceOnly...), file{"prod/cpu/notes.txt", []byte("n")}, file{"db1/mem/2026/01/02/03/x.parquet.tmp", nil}), noFaults(), empty())
		rn.run([]file{{"README", []byte("r")}}, noFaults(), empty())
	}
	// a TRANSIENT partial read during backup: 1 of 10 files, first attempt delivers 2 bytes then fails
	{
		fs := nFiles(10)
		bf := noFaults()
		bf.readT[fs[3].path] = [2]int{1, 2}
		rn.run(fs, bf, empty())
		rf := noFaults()
		rf.readT[fs[4].path] = [2]int{1, 3}
		rf.writeT[fs[5].path] = [2]int{1, 2}
		rn.run(fs, noFaults(), []restoreSpec{{"empty", rf}})
	}
	bsf := withMeta()
	bsf.sqlite, bsf.config = true, true // the copies fail: non-fatal, has_metadata/has_config stay false
	rn.run(one, bsf, []restoreSpec{{"empty", &faults{read: rd(one[0].path), write: map[string]int{}, optMeta: true, optCfg: true}}})
	rn.run(one, noFaults(), empty())
	rn.run(one, noFaults(), []restoreSpec{{"empty", &faults{read: map[string]int{}, write: rd(one[0].path)}}})
	rn.run(one, noFaults(), []restoreSpec{{"empty", &faults{read: map[string]int{}, write: map[string]int{one[0].path: 2}}}, {"orig", noFaults()}})
	rn.run(one, noFaults(), []restoreSpec{{"empty", &faults{manifest: true, read: map[string]int{}, write: map[string]int{}}}})
	rn.run(nil, noFaults(), empty())
	rn.run(one, &faults{manifest: true, read: map[string]int{}, write: map[string]int{}}, empty())
	rn.run(one, &faults{read: rd(one[0].path), write: map[string]int{}}, empty())
	rn.run(one, &faults{read: map[string]int{}, write: rd(one[0].path)}, empty())
	rn.run(one, &faults{read: map[string]int{}, write: map[string]int{one[0].path: 1}}, empty())
	// skip-ratio boundary: k unreadable of n
	for _, nk := range [][2]int{{10, 1}, {10, 2}, {9, 1}, {11, 1}, {11, 2}, {20, 2}, {20, 3}, {30, 3}, {30, 4}, {19, 1}, {19, 2}} {
		fs := nFiles(nk[0])
		bf := noFaults()
		for i := 0; i < nk[1]; i++ {
			bf.read[fs[(i*7+3)%nk[0]].path] = -1 + 2*(i%2)
		}
		rn.run(fs, bf, empty())
	}
	// the Iceberg layout of the repo's own round-trip test, plus non-backed-up and hidden files
	ice := []file{{"prod/sensors/2026/07/14/15/sensors_1.parquet", []byte("PAR1-fake-parquet")}}
	for _, k := range []string{"00000-uuid.metadata.json", "00001-uuid.metadata.json", "v1.metadata.json", "abcd-m1.avro", "snap-123-abcd.avro", "version-hint.text"} {
		ice = append(ice, file{"arc_prod.db/sensors/metadata/" + k, []byte("iceberg-metadata-" + k)})
	}
	rn.run(ice, noFaults(), []restoreSpec{{"empty", noFaults()}, {"orig", noFaults()}})
	ice2 := append(append([]file{}, ice...), file{"prod/sensors/notes.txt", []byte("x")}, file{"prod/sensors/2026/07/14/15/.hidden.parquet", []byte("h")},
		file{"arc_prod.db/sensors/metadata/odd.parquet", nil}, file{"a-b/cpu/f.parquet", []byte{0}}, file{"a/cpu/f.parquet", []byte{1}})
	rn.run(ice2, noFaults(), empty())
	rn.run(ice2, &faults{read: rd("arc_prod.db/sensors/metadata/v1.metadata.json"), write: map[string]int{}}, empty())
	rn.run(ice2, noFaults(), []restoreSpec{{"empty", &faults{read: rd("arc_prod.db/sensors/metadata/v1.metadata.json"), write: map[string]int{"prod/sensors/2026/07/14/15/sensors_1.parquet": 5}}}})

	// ---- (2) random trees × fault subsets
	nCases := c.N
	if nCases == 0 {
		nCases = 250
		if c.Thorough() {
			nCases = 4000
		}
	}
	for n := 0; n < nCases; n++ {
		fs := genTree(r)
		ps := paths(fs)
		bf := pickFaults(r, ps, false)
		bf.optMeta, bf.optCfg = r.Chance(55), r.Chance(35)
		bf.sqlite, bf.config = bf.optMeta && r.Chance(10), bf.optCfg && r.Chance(10)
		var rs []restoreSpec
		nr := r.Range(1, 2)
		for i := 0; i < nr; i++ {
			into := "empty"
			if r.Chance(25) {
				into = "orig"
			}
			rf := pickFaults(r, ps, true)
			rf.optMeta, rf.optCfg, rf.optNoData = r.Chance(55), r.Chance(35), r.Chance(6)
			rf.sqlite, rf.config = rf.optMeta && r.Chance(15), rf.optCfg && r.Chance(12)
			rs = append(rs, restoreSpec{into, rf})
		}
		rn.run(fs, bf, rs)
	}
	c.Finish("cases = (storage tree, backup options {SQLite metadata, arc.toml} + fault subset, 1–2 restores each with its own options {data, metadata, config}, fault subset incl. SQLite/config step failure, and target) — an edge grid (minimal restore-fault replays, skip-ratio boundary k-of-n, the repo's Iceberg layout) plus random trees (store worlds: empty, a single non-parquet file, ZERO parquet files but Iceberg metadata / other files, one parquet-free database, and the usual 1–3 databases × 1–3 measurements × nested hour dirs, Iceberg metadata dirs, hidden / non-data files, empty and >32 KiB files); non-trivial = some fault injected, non-empty restore target, or a tree with a non-backed-up / empty / large file; distinct = distinct op+outcome text")
}
