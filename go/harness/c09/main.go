//go:build verif

// C09 correspondence harness: drives the REAL compaction Manager (runCycleInternal → manifest recovery →
// hourly tier candidates → filterCandidateFiles → SplitCandidateIntoBatches → compactFilesAdaptively →
// CompactPartition) and the REAL child side (RunSubprocessJob → NewJob → Job.Run) in-process on a
// LocalBackend, with
//   - a fault-injecting storage.Backend around the child's backend: the job "process" dies right
//     before its k-th storage mutation (manifest write, upload, each input delete, manifest delete),
//     or — k = number of mutations — after the last one but before it can report;
//   - fault kind "kill": only the job dies; the parent sees what exec reports for a SIGKILLed child
//     ("signal: killed") and carries on (adaptive half-batch retry);
//   - fault kind "crash": the whole node dies: the cycle's context is cancelled, every backend of the
//     dead epoch refuses further mutations, and the next cycle starts from a fresh Manager.
// Rows are compared by scanning the partition's *.parquet files with DuckDB before and after.
package main

import (
	"context"
	"database/sql"
	"encoding/json"
	"errors"
	"fmt"
	"io"
	"math"
	"os"
	"path/filepath"
	"sort"
	"strconv"
	"strings"
	"sync"
	"sync/atomic"
	"syscall"
	"time"

	"github.com/basekick-labs/arc/internal/compaction"
	"github.com/basekick-labs/arc/internal/storage"
	"github.com/basekick-labs/arc/internal/verif/vh"
	"github.com/basekick-labs/arc/internal/verifclock"
	_ "github.com/duckdb/duckdb-go/v2"
	"github.com/rs/zerolog"
)

const (
	dbName   = "db1"
	meas     = "cpu"
	partRel  = "db1/cpu/2024/01/01/00"
	outBase  = 1000 // canonical id of the output of job j is o<j>; the model uses path 1000+j
	manState = "_compaction_state"
)

// ---------------------------------------------------------------- fault-injecting backend

type faultKind int

const (
	fNone faultKind = iota
	fKill
	fCrash
	fTorn // the node dies while the output is half written at its final key (non-atomic backend)
	// fCancel: graceful cancellation (SIGTERM → the job's signal.NotifyContext): the job ctx is cancelled
	// right before its pos-th storage mutation — for the upload that is INSIDE WriteReader, which then
	// completes the write successfully (LocalBackend does not consult ctx). pos 100: at the first
	// download read; pos 101: after the last download read (the merge sees a cancelled ctx).
	fCancel
)

type fault struct {
	job  int // job invocation index within the cycle
	pos  int // die right before the pos-th mutation (0-based); pos == #mutations: after the last
	kind faultKind
}

type dieSentinel struct{ kind faultKind }

// epoch = one "node lifetime" (one Manager). After a crash the epoch is dead.
type epoch struct {
	mu        sync.Mutex
	dead      bool
	refused   int
	cancel    context.CancelFunc
	observers []func(ev string, path string)
}

func (e *epoch) isDead() bool {
	e.mu.Lock()
	defer e.mu.Unlock()
	return e.dead
}

type fb struct {
	inner  *storage.LocalBackend
	ep     *epoch
	child  bool
	nmut   int
	dieAt  int // -1 = never
	kind   faultKind
	onMut  func(kind, path string, data []byte) // called BEFORE a mutation is applied (monitors, name learning)
	muts   []string
	recDel map[string]bool // parent side: input deletes that fail with a storage error
	cancelAt    int        // -1 = never; see fCancel
	expectReads int32
	readsStart  atomic.Int32
	readsDone   atomic.Int32
	cancelled   atomic.Bool
}

// cancelNow delivers SIGTERM to this process (RunSubprocessJob's signal.NotifyContext turns it into the
// cancellation of the job ctx) and waits until the ctx it was handed is done.
func (b *fb) cancelNow(ctx context.Context) {
	if b.cancelled.Swap(true) {
		return
	}
	syscall.Kill(syscall.Getpid(), syscall.SIGTERM)
	select {
	case <-ctx.Done():
	case <-time.After(3 * time.Second):
		ctxC.Tag("cancel-not-observed")
	}
}

func (b *fb) gate(ctx context.Context, kind, path string, data []byte) error {
	b.ep.mu.Lock()
	dead := b.ep.dead
	if dead {
		b.ep.refused++
	}
	b.ep.mu.Unlock()
	if dead {
		return errors.New("verif: node is dead")
	}
	if b.child && b.dieAt >= 0 && b.nmut == b.dieAt {
		panic(dieSentinel{b.kind})
	}
	if b.child && b.cancelAt >= 0 && b.cancelAt < 100 && b.nmut == b.cancelAt {
		b.cancelNow(ctx)
	}
	b.nmut++
	b.muts = append(b.muts, kind)
	if b.onMut != nil {
		b.onMut(kind, path, data)
	}
	return nil
}

func mutKindOfDelete(path string) string {
	if strings.HasPrefix(path, manState+"/") {
		return "delManifest"
	}
	return "delInput"
}

func (b *fb) Write(ctx context.Context, path string, data []byte) error {
	k := "write"
	if strings.HasPrefix(path, manState+"/") {
		k = "writeManifest"
	}
	if err := b.gate(ctx, k, path, data); err != nil {
		return err
	}
	return b.inner.Write(ctx, path, data)
}
func (b *fb) WriteReader(ctx context.Context, path string, r io.Reader, size int64) error {
	if b.child && b.kind == fTorn && b.dieAt >= 0 && b.nmut == b.dieAt && !b.ep.isDead() {
		data, _ := io.ReadAll(r)
		cut := len(data) / 2
		for cut > 4 && string(data[cut-4:cut]) == "PAR1" {
			cut--
		}
		if err := b.inner.Write(ctx, path, data[:cut]); err != nil {
			panic(err)
		}
		panic(dieSentinel{fTorn})
	}
	if err := b.gate(ctx, "upload", path, nil); err != nil {
		return err
	}
	return b.inner.WriteReader(ctx, path, r, size)
}
func (b *fb) Delete(ctx context.Context, path string) error {
	if !b.child && b.recDel != nil && b.recDel[path] {
		return errors.New("verif: injected storage error on delete")
	}
	if err := b.gate(ctx, mutKindOfDelete(path), path, nil); err != nil {
		return err
	}
	return b.inner.Delete(ctx, path)
}
func (b *fb) Read(ctx context.Context, p string) ([]byte, error) { return b.inner.Read(ctx, p) }
func (b *fb) ReadTo(ctx context.Context, p string, w io.Writer) error {
	if b.child && b.cancelAt == 100 && b.readsStart.Add(1) == 1 {
		b.cancelNow(ctx)
	}
	err := b.inner.ReadTo(ctx, p, w)
	if b.child && b.cancelAt == 101 && err == nil && b.readsDone.Add(1) == b.expectReads {
		b.cancelNow(ctx)
	}
	return err
}
func (b *fb) ReadToAt(ctx context.Context, p string, w io.Writer, off int64) error {
	return b.inner.ReadToAt(ctx, p, w, off)
}
func (b *fb) StatFile(ctx context.Context, p string) (int64, error) { return b.inner.StatFile(ctx, p) }
func (b *fb) List(ctx context.Context, p string) ([]string, error)  { return b.inner.List(ctx, p) }
func (b *fb) Exists(ctx context.Context, p string) (bool, error)    { return b.inner.Exists(ctx, p) }
func (b *fb) Close() error                                          { return nil }
func (b *fb) Type() string                                          { return b.inner.Type() }
func (b *fb) ConfigJSON() string                                    { return b.inner.ConfigJSON() }
func (b *fb) ListDirectories(ctx context.Context, p string) ([]string, error) {
	return b.inner.ListDirectories(ctx, p)
}
func (b *fb) ListObjects(ctx context.Context, p string) ([]storage.ObjectInfo, error) {
	return b.inner.ListObjects(ctx, p)
}

// RemoveDirectory: only ever removes EMPTY directories; not a row-affecting mutation, not counted.
func (b *fb) RemoveDirectory(ctx context.Context, p string) error {
	b.ep.mu.Lock()
	dead := b.ep.dead
	b.ep.mu.Unlock()
	if dead {
		return errors.New("verif: node is dead")
	}
	return b.inner.RemoveDirectory(ctx, p)
}

// fbBatch additionally offers storage.BatchDeleter, exactly as LocalBackend.DeleteBatch does it
// (a loop of single deletes — each one a crash point).
type fbBatch struct{ *fb }

func (b fbBatch) DeleteBatch(ctx context.Context, paths []string) error {
	var errs []error
	for _, p := range paths {
		if err := b.fb.Delete(ctx, p); err != nil {
			errs = append(errs, fmt.Errorf("%s: %w", p, err))
		}
	}
	return errors.Join(errs...)
}

// ---------------------------------------------------------------- partition data

type row struct {
	rid int
	k   [5]int // k[L] = id of the dedup key at level L (1: time, 2: time+host, 3: time+host+region, 4: time+region)
}

type pfile struct {
	idx   int
	key   string // storage key
	level int    // 0: no dedup metadata, 1: arc:dedup_time only, 2: arc:tags=host, 3: arc:tags=host,region, 4: arc:tags=region
	meta  string // textual description of the metadata
	rows  []row
}

type intern struct {
	m    map[string]int
	list []string
}

func (in *intern) id(s string) int {
	if v, ok := in.m[s]; ok {
		return v
	}
	v := len(in.list)
	in.m[s] = v
	in.list = append(in.list, s)
	return v
}
func (in *intern) get(s string) (int, bool) { v, ok := in.m[s]; return v, ok }

type caseT struct {
	name      string
	kind      string // plain | tagged | cq
	mode      string // rid | kid (how scans are printed for the model diff)
	minFiles  int
	maxBatch  int
	batchDel  bool
	files     []*pfile
	plans     [][]fault // faulty cycles, in order
	recFail   []int     // per faulty cycle: index into the oldest manifest's inputs whose recovery delete fails (-1 none)
	quiesce   int
	rids      intern
	kids      [5]intern
	plevel    int
	root      string
	nameOf    map[string]string // storage key -> canonical id
	jobSeq    int
	origRid   map[int]int
	ridKey    map[int][5]int
	causes    map[string]bool
	replay    strings.Builder
	notes     []string
	tagsSeen  map[string]bool
	manInputs map[string][]string // manifest path -> inputs (learned from manifest writes)
	manOut    map[string]string
	scanCache map[string][]int
	curAged   bool
	ages      []int64 // per faulty cycle: seconds added to the clock before the cycle
	zeroTs    []bool  // per faulty cycle: rewrite pending manifests with a zero created_at first
}

var (
	duck *sql.DB
	ctxC *vh.Ctx
)

// column pool; fixed types so that scans before/after are comparable textually.
var fieldCols = []struct{ name, typ string }{
	{"f_int", "BIGINT"}, {"f_dbl", "DOUBLE"}, {"f_str", "VARCHAR"}, {"f_bool", "BOOLEAN"},
}
var allCols = []string{"time", "host", "region", "f_int", "f_dbl", "f_str", "f_bool"}

type cell struct {
	null bool
	v    string // SQL literal
	c    string // canonical text
}

type grow struct { // generated row: column -> cell
	cells map[string]cell
}

func canonRow(g grow) string {
	var sb strings.Builder
	for _, c := range allCols {
		ce, ok := g.cells[c]
		if !ok || ce.null {
			sb.WriteString("~|")
		} else {
			sb.WriteString(ce.c + "|")
		}
	}
	return sb.String()
}

var levelCols = [5][]string{nil, {"time"}, {"time", "host"}, {"time", "host", "region"}, {"time", "region"}}

// joinLevel: union of two declared tag sets (same table as the Lean model)
func joinLevel(a, b int) int {
	switch {
	case a == 0:
		return b
	case b == 0:
		return a
	case a == b:
		return a
	case a == 1:
		return b
	case b == 1:
		return a
	}
	return 3
}

// meetLevel: the finest level that is coarser than both (1 = time only)
func meetLevel(a, b int) int {
	switch {
	case a == b:
		return a
	case a == 3:
		return b
	case b == 3:
		return a
	}
	return 1
}

func canonKey(g grow, keyCols []string) string {
	var sb strings.Builder
	for _, c := range keyCols {
		ce, ok := g.cells[c]
		if !ok || ce.null {
			sb.WriteString("~|")
		} else {
			sb.WriteString(ce.c + "|")
		}
	}
	return sb.String()
}

func sqlEsc(s string) string { return strings.ReplaceAll(s, "'", "''") }

func timeCell(us int64) cell {
	return cell{v: fmt.Sprintf("make_timestamptz(%d)", us), c: strconv.FormatInt(us, 10)}
}
func strCell(s string) cell { return cell{v: "'" + sqlEsc(s) + "'", c: "s:" + s} }

func genField(r *vh.Rand, name string) cell {
	if r.Chance(20) {
		return cell{null: true}
	}
	switch name {
	case "f_int":
		v := vh.Pick(r, []int64{0, 1, -1, 42, 1 << 40, -(1 << 62), int64(r.Intn(5))})
		return cell{v: fmt.Sprintf("%d::BIGINT", v), c: fmt.Sprintf("i:%d", v)}
	case "f_dbl":
		v := vh.Pick(r, []string{"0.5", "-1.25", "1e300", "3.0", "0.1"})
		f, _ := strconv.ParseFloat(v, 64)
		return cell{v: v + "::DOUBLE", c: fmt.Sprintf("d:%016x", mathBits(f))}
	case "f_str":
		v := vh.Pick(r, []string{"", "a", "it's", "ü|x", "NULL", "~"})
		return strCell(v)
	default:
		if r.Bool() {
			return cell{v: "true", c: "b:1"}
		}
		return cell{v: "false", c: "b:0"}
	}
}

// writeParquet writes one fixture file with the given columns/rows and key-value metadata.
func writeParquet(path string, cols []string, rows []grow, kv map[string]string) error {
	typ := map[string]string{"time": "TIMESTAMPTZ", "host": "VARCHAR", "region": "VARCHAR"}
	for _, f := range fieldCols {
		typ[f.name] = f.typ
	}
	var sel []string
	for _, g := range rows {
		var vals []string
		for _, c := range cols {
			ce, ok := g.cells[c]
			if !ok || ce.null {
				vals = append(vals, fmt.Sprintf("CAST(NULL AS %s)", typ[c]))
			} else {
				vals = append(vals, fmt.Sprintf("CAST(%s AS %s)", ce.v, typ[c]))
			}
		}
		sel = append(sel, "("+strings.Join(vals, ", ")+")")
	}
	var qcols []string
	for _, c := range cols {
		qcols = append(qcols, `"`+c+`"`)
	}
	q := fmt.Sprintf("COPY (SELECT * FROM (VALUES %s) t(%s)) TO '%s' (FORMAT PARQUET", strings.Join(sel, ", "), strings.Join(qcols, ", "), sqlEsc(path))
	if len(kv) > 0 {
		var kvs []string
		keys := make([]string, 0, len(kv))
		for k := range kv {
			keys = append(keys, k)
		}
		sort.Strings(keys)
		for _, k := range keys {
			kvs = append(kvs, fmt.Sprintf("'%s': '%s'", sqlEsc(k), sqlEsc(kv[k])))
		}
		q += ", KV_METADATA {" + strings.Join(kvs, ", ") + "}"
	}
	q += ")"
	_, err := duck.Exec(q)
	return err
}

// scanFiles reads the given parquet files (absolute paths) and returns the canonical text of each row.
func scanFiles(paths []string) ([]string, error) {
	if len(paths) == 0 {
		return nil, nil
	}
	var lst []string
	for _, p := range paths {
		lst = append(lst, "'"+sqlEsc(p)+"'")
	}
	c, _, err := scanQuery("SELECT * FROM read_parquet([" + strings.Join(lst, ", ") + "], union_by_name=true)")
	return c, err
}

// scanQuery runs a SELECT and returns each row's canonical text (columns in pool order, NULL/absent = ~)
// and the value of its `filename` column if present.
func scanQuery(q string) ([]string, []string, error) {
	rows, err := duck.Query(q)
	if err != nil {
		return nil, nil, err
	}
	defer rows.Close()
	cols, _ := rows.Columns()
	var out, fnames []string
	for rows.Next() {
		vals := make([]any, len(cols))
		ptrs := make([]any, len(cols))
		for i := range vals {
			ptrs[i] = &vals[i]
		}
		if err := rows.Scan(ptrs...); err != nil {
			return nil, nil, err
		}
		m := map[string]string{}
		fn := ""
		for i, c := range cols {
			if c == "filename" {
				if s, ok := vals[i].(string); ok {
					fn = s
				}
				continue
			}
			switch v := vals[i].(type) {
			case nil:
			case time.Time:
				m[c] = strconv.FormatInt(v.UnixMicro(), 10)
			case int64:
				m[c] = fmt.Sprintf("i:%d", v)
			case float64:
				m[c] = fmt.Sprintf("d:%016x", mathBits(v))
			case string:
				m[c] = "s:" + v
			case bool:
				if v {
					m[c] = "b:1"
				} else {
					m[c] = "b:0"
				}
			case []byte:
				m[c] = "s:" + string(v)
			default:
				m[c] = fmt.Sprintf("?%T:%v", v, v)
			}
		}
		var sb strings.Builder
		for _, c := range allCols {
			if s, ok := m[c]; ok {
				sb.WriteString(s + "|")
				delete(m, c)
			} else {
				sb.WriteString("~|")
			}
		}
		for c := range m {
			sb.WriteString("EXTRA:" + c)
		}
		out = append(out, sb.String())
		fnames = append(fnames, fn)
	}
	return out, fnames, rows.Err()
}

func (cs *caseT) partDir() string { return filepath.Join(cs.root, partRel) }

// dataFiles: the partition's *.parquet files (what a query over the partition reads), sorted.
func (cs *caseT) dataFiles() []string {
	ents, _ := os.ReadDir(cs.partDir())
	var out []string
	for _, e := range ents {
		if !e.IsDir() && strings.HasSuffix(e.Name(), ".parquet") {
			out = append(out, e.Name())
		}
	}
	sort.Strings(out)
	return out
}

func (cs *caseT) otherFiles() []string {
	ents, _ := os.ReadDir(cs.partDir())
	var out []string
	for _, e := range ents {
		if !e.IsDir() && !strings.HasSuffix(e.Name(), ".parquet") {
			out = append(out, e.Name())
		}
	}
	sort.Strings(out)
	return out
}

func (cs *caseT) canonName(key string) string {
	if n, ok := cs.nameOf[key]; ok {
		return n
	}
	return "?" + filepath.Base(key)
}

func (cs *caseT) idsOf(canon []string) (rids []int, unknown int) {
	for _, c := range canon {
		if id, ok := cs.rids.get(c); ok {
			rids = append(rids, id)
		} else {
			unknown++
			rids = append(rids, -1)
		}
	}
	return
}

func fmtInts(xs []int) string {
	sort.Ints(xs)
	var sb strings.Builder
	for i, x := range xs {
		if i > 0 {
			sb.WriteByte(',')
		}
		sb.WriteString(strconv.Itoa(x))
	}
	return sb.String()
}

// listManifests returns the manifests on storage: canonical "m[inputs]->out" in path order.
func (cs *caseT) listManifests() []string {
	var out []string
	filepath.WalkDir(filepath.Join(cs.root, manState), func(p string, d os.DirEntry, err error) error {
		if err != nil || d.IsDir() || !strings.HasSuffix(p, ".json") {
			return nil
		}
		b, err := os.ReadFile(p)
		if err != nil {
			return nil
		}
		var m compaction.Manifest
		if json.Unmarshal(b, &m) != nil {
			out = append(out, "unreadable")
			return nil
		}
		var ins []string
		for _, f := range m.InputFiles {
			ins = append(ins, cs.canonName(f))
		}
		out = append(out, "["+strings.Join(ins, ",")+"]>"+cs.canonName(m.OutputPath))
		return nil
	})
	return out
}

// scanAll: ONE DuckDB scan over all *.parquet files of the partition (what a query over the partition
// reads), rows grouped by file; plus which files carry dedup metadata.
func (cs *caseT) scanAll() (names []string, perFile map[string][]string, meta map[string]int, err error) {
	names = cs.dataFiles()
	perFile, meta = map[string][]string{}, map[string]int{}
	if len(names) == 0 {
		return
	}
	var lst []string
	for _, f := range names {
		lst = append(lst, "'"+sqlEsc(filepath.Join(cs.partDir(), f))+"'")
	}
	fl := "[" + strings.Join(lst, ", ") + "]"
	canon, files, e := scanQuery("SELECT * FROM read_parquet(" + fl + ", union_by_name=true, filename=true)")
	if e != nil {
		// some file is unreadable (torn upload): read file by file, leave the unreadable ones out
		var good, goodL []string
		for i, f := range names {
			c, e1 := scanFiles([]string{filepath.Join(cs.partDir(), f)})
			if e1 != nil {
				perFile[f] = nil
				meta["!"+f] = 1
				continue
			}
			perFile[f] = c
			good = append(good, f)
			goodL = append(goodL, lst[i])
		}
		if len(good) == len(names) {
			err = e
			return
		}
		fl = "[" + strings.Join(goodL, ", ") + "]"
		if len(good) == 0 {
			return
		}
	} else {
		for i, c := range canon {
			b := filepath.Base(files[i])
			perFile[b] = append(perFile[b], c)
		}
	}
	rows, e := duck.Query("SELECT file_name, decode(key), decode(value) FROM parquet_kv_metadata(" + fl + ")")
	if e != nil {
		err = e
		return
	}
	defer rows.Close()
	for rows.Next() {
		var fn, k, v string
		if rows.Scan(&fn, &k, &v) != nil {
			continue
		}
		b := filepath.Base(fn)
		if k == "arc:tags" && v != "" {
			meta[b] = max(meta[b], levelOfTags(v))
		}
		if k == "arc:dedup_time" && v == "true" {
			meta[b] = max(meta[b], 1)
		}
	}
	return
}

func levelOfTags(v string) int {
	switch v {
	case "host":
		return 2
	case "host,region", "region,host":
		return 3
	case "region":
		return 4
	}
	return 9
}

// scanState: canonical description of the storage: each data file with its rows, then manifests.
// Also returns the ids of all visible rows (-1 = a row that is not one of the original rows).
func (cs *caseT) scanState() (string, []int, error) {
	names, perFile, meta, err := cs.scanAll()
	if err != nil {
		return "files=unreadable man=" + strings.Join(cs.listManifests(), ";"), nil, err
	}
	var parts []string
	var all []int
	for _, f := range names {
		name := cs.canonName(partRel + "/" + f)
		if meta["!"+f] != 0 {
			parts = append(parts, name+":!")
			continue
		}
		rids, _ := cs.idsOf(perFile[f])
		all = append(all, rids...)
		ids := append([]int(nil), rids...)
		if cs.mode == "kid" {
			for i, r := range ids {
				if k, ok := cs.ridKey[r]; ok {
					ids[i] = k[cs.plevel]
				} else {
					ids[i] = -1
				}
			}
		}
		if meta[f] != 0 {
			name += fmt.Sprintf("*%d", meta[f])
		}
		parts = append(parts, name+":"+fmtInts(ids))
	}
	s := "files=" + strings.Join(parts, ";")
	if o := cs.otherFiles(); len(o) > 0 {
		s += " other=" + strconv.Itoa(len(o))
	}
	s += " man=" + strings.Join(cs.listManifests(), ";")
	return s, all, nil
}

func countOf(xs []int) map[int]int {
	m := map[int]int{}
	for _, x := range xs {
		m[x]++
	}
	return m
}

// ---------------------------------------------------------------- running one cycle on the real code

type jobRec struct {
	idx     int
	batch   int
	files   []string
	outcome string
}

func (cs *caseT) runCycle(plan []fault, recFailIdx int, ageSec int64, zeroTs bool) string {
	if zeroTs { // manifests whose created_at is the zero time
		filepath.WalkDir(filepath.Join(cs.root, manState), func(p string, d os.DirEntry, err error) error {
			if err != nil || d.IsDir() || !strings.HasSuffix(p, ".json") {
				return nil
			}
			if b, err := os.ReadFile(p); err == nil {
				var m compaction.Manifest
				if json.Unmarshal(b, &m) == nil {
					m.CreatedAt = time.Time{}
					if nb, err := json.MarshalIndent(&m, "", "  "); err == nil {
						os.WriteFile(p, nb, 0o644)
					}
				}
			}
			return nil
		})
	}
	if ageSec > 0 { // time passes between the crash and this cycle (manifest.go runs on the virtual clock)
		verifclock.Set(time.Now().UnixNano() + ageSec*int64(time.Second))
		defer verifclock.Real()
	}
	cs.curAged = ageSec > 0 || zeroTs
	logger := zerolog.Nop()
	inner, err := storage.NewLocalBackend(cs.root, logger)
	if err != nil {
		return "error:" + err.Error()
	}
	ctx, cancel := context.WithCancel(context.Background())
	defer cancel()
	ep := &epoch{cancel: cancel}
	parent := &fb{inner: inner, ep: ep, dieAt: -1, cancelAt: -1}
	parent.onMut = func(kind, path string, data []byte) { cs.observe("recovery", kind, path, data) }
	if recFailIdx >= 0 {
		// the recovery delete of one input of the oldest manifest fails with a storage error
		var mans []string
		for p := range cs.manInputs {
			if _, err := os.Stat(filepath.Join(cs.root, p)); err == nil {
				mans = append(mans, p)
			}
		}
		sort.Strings(mans)
		if len(mans) > 0 {
			ins := cs.manInputs[mans[0]]
			if len(ins) > 0 {
				parent.recDel = map[string]bool{ins[recFailIdx%len(ins)]: true}
			}
		}
	}
	var pb storage.Backend = parent
	if cs.batchDel {
		pb = fbBatch{parent}
	}
	tier := compaction.NewHourlyTier(&compaction.HourlyTierConfig{StorageBackend: pb, MinAgeHours: 1, MinFiles: cs.minFiles, Enabled: true, Logger: logger})
	mgr := compaction.NewManager(&compaction.ManagerConfig{
		StorageBackend: pb, LockManager: compaction.NewLockManager(), MinAgeHours: 1, MinFiles: cs.minFiles,
		MaxFilesPerBatch: cs.maxBatch, MaxConcurrent: 2, TempDirectory: filepath.Join(cs.root, ".tmp_compaction"),
		Tiers: []compaction.Tier{tier}, Logger: logger, Threads: 1,
	})
	var jobs []jobRec
	cycleJob := 0
	compaction.VerifRunJob = func(jctx context.Context, cfg *compaction.SubprocessJobConfig, lg zerolog.Logger, extraEnv ...string) (res *compaction.SubprocessJobResult, rerr error) {
		// recfail is a storage error during the recovery pass at the START of the cycle only (that is what
		// the model's `failing` list means); the settle step after a failed job works on healthy storage
		parent.recDel = nil
		jr := jobRec{idx: cs.jobSeq, batch: cfg.BatchNumber, files: append([]string(nil), cfg.Files...)}
		myJob := cycleJob
		cycleJob++
		cs.jobSeq++
		ft := fault{pos: -1}
		for _, f := range plan {
			if f.job == myJob {
				ft = f
			}
		}
		var child *fb
		compaction.VerifWrapBackend = func(b storage.Backend) storage.Backend {
			lb, ok := b.(*storage.LocalBackend)
			if !ok {
				panic("verif: child backend is not a LocalBackend")
			}
			child = &fb{inner: lb, ep: ep, child: true, dieAt: ft.pos, kind: ft.kind, cancelAt: -1}
			if ft.pos >= 1000 {
				child.dieAt = -1
			}
			if ft.kind == fCancel {
				child.dieAt, child.cancelAt = -1, ft.pos
				for _, f := range cfg.Files {
					if _, err := os.Stat(filepath.Join(cs.root, f)); err == nil {
						child.expectReads++
					}
				}
				if child.expectReads == 0 && ft.pos >= 100 {
					// nothing to download: whether a worker notices the cancellation before it finds its
					// file missing is a race in downloadFiles; the job has no work either way
					child.cancelAt = -1
				}
			}
			child.onMut = func(kind, path string, data []byte) {
				if kind == "writeManifest" {
					var m compaction.Manifest
					if json.Unmarshal(data, &m) == nil {
						cs.nameOf[m.OutputPath] = fmt.Sprintf("o%d", jr.idx)
						cs.manInputs[path] = append([]string(nil), m.InputFiles...)
						cs.manOut[path] = m.OutputPath
					}
				}
				cs.observe("job", kind, path, data)
			}
			if cs.batchDel {
				return fbBatch{child}
			}
			return child
		}
		defer func() { compaction.VerifWrapBackend = nil }()
		died := fNone
		func() {
			defer func() {
				if r := recover(); r != nil {
					if d, ok := r.(dieSentinel); ok {
						died = d.kind
						return
					}
					panic(r)
				}
			}()
			// the same IPC as the real parent/child pair: config and result cross as JSON
			cj, _ := json.Marshal(cfg)
			var c2 compaction.SubprocessJobConfig
			if err := json.Unmarshal(cj, &c2); err != nil {
				rerr = err
				return
			}
			r, err := compaction.RunSubprocessJob(&c2)
			if err != nil {
				rerr = fmt.Errorf("subprocess failed: %w (stderr: %s)", errors.New("exit status 1"), "error: "+err.Error())
				return
			}
			rj, _ := json.Marshal(r)
			var r2 compaction.SubprocessJobResult
			if err := json.Unmarshal(rj, &r2); err != nil {
				rerr = err
				return
			}
			res = &r2
		}()
		nm := 0
		if child != nil {
			nm = child.nmut
		}
		if died == fNone && ft.pos >= 1000 && ft.kind != fCancel && rerr == nil {
			died = ft.kind // dies after its last mutation, before it can report
		}
		if died == fTorn {
			died = fCrash
		}
		switch died {
		case fKill:
			jr.outcome = fmt.Sprintf("died@%d", nm)
			res, rerr = nil, fmt.Errorf("subprocess failed: %w (stderr: %s)", errors.New("signal: killed"), "")
		case fCrash:
			jr.outcome = fmt.Sprintf("crashed@%d", nm)
			ep.mu.Lock()
			ep.dead = true
			ep.mu.Unlock()
			cancel()
			res, rerr = nil, fmt.Errorf("subprocess cancelled: %w", context.Canceled)
		default:
			if rerr != nil {
				jr.outcome = "spawnerr"
			} else if res.Success {
				jr.outcome = fmt.Sprintf("ok%d", nm)
				if res.OutputFile != "" {
					if _, ok := cs.nameOf[res.OutputFile]; !ok {
						cs.nameOf[res.OutputFile] = fmt.Sprintf("o%d", jr.idx)
					}
				}
			} else {
				jr.outcome = fmt.Sprintf("died@%d", nm) // the job gave up (result.Success=false)
				ctxC.Tag("job-failed:" + classifyErr(res.Error))
			}
		}
		jobs = append(jobs, jr)
		return res, rerr
	}
	defer func() { compaction.VerifRunJob = nil }()
	_, cerr := mgr.RunCompactionCycleForTiers(ctx, []string{"hourly"})
	var sb strings.Builder
	for i, j := range jobs {
		if i > 0 {
			sb.WriteByte(' ')
		}
		var ids []string
		for _, f := range j.files {
			ids = append(ids, cs.canonName(f))
		}
		fmt.Fprintf(&sb, "j%d:b%d:[%s]:%s", j.idx, j.batch, strings.Join(ids, ","), j.outcome)
	}
	out := "jobs=" + sb.String()
	if cerr != nil && !errors.Is(cerr, context.Canceled) {
		out += " cycle-error"
	}
	if ep.refused > 0 {
		ctxC.Tag("mutation-refused-after-crash")
	}
	return out
}

func classifyErr(s string) string {
	switch {
	case strings.Contains(s, "upload"):
		return "upload"
	case strings.Contains(s, "manifest"):
		return "manifest"
	case strings.Contains(s, "download"):
		return "download"
	case strings.Contains(s, "compact"):
		return "compact"
	}
	return "other"
}

// observeManifestDrop: a manifest may go only when nothing depends on it any more: its output is absent
// (or partial), or every input it lists is gone. Dropping it while the complete output AND inputs are
// on storage leaves their rows visible twice with nothing left to reconcile them.
func (cs *caseT) observeManifestDrop(who, mpath string) {
	b, err := os.ReadFile(filepath.Join(cs.root, mpath))
	if err != nil {
		return
	}
	var m compaction.Manifest
	if json.Unmarshal(b, &m) != nil {
		return
	}
	st, err := os.Stat(filepath.Join(cs.root, m.OutputPath))
	if err != nil || st.Size() != m.OutputSize {
		return
	}
	var live []string
	for _, f := range m.InputFiles {
		if _, err := os.Stat(filepath.Join(cs.root, f)); err == nil {
			live = append(live, cs.canonName(f))
		}
	}
	if len(live) == 0 {
		return
	}
	cause := "manifest-dropped:" + who
	cs.causes[cause] = true
	if cs.curAged && who == "recovery" {
		cs.causes["stale-manifest-dropped"] = true
	}
	key := "C09:manifest-deleted-while-output-and-inputs-visible:" + who
	ctxC.Fail(key, fmt.Sprintf("%s deleted the manifest of %s although the complete output and its inputs [%s] are on storage (aged=%v)",
		who, cs.canonName(m.OutputPath), strings.Join(live, ","), cs.curAged), cs.replay.String())
}

// rowsAt: ids of the rows of a data file on storage (original inputs from memory, others scanned once).
func (cs *caseT) rowsAt(path string) ([]int, error) {
	for _, f := range cs.files {
		if f.key == path {
			var out []int
			for _, r := range f.rows {
				out = append(out, r.rid)
			}
			return out, nil
		}
	}
	if v, ok := cs.scanCache[path]; ok {
		return v, nil
	}
	canon, err := scanFiles([]string{filepath.Join(cs.root, path)})
	if err != nil {
		return nil, err
	}
	ids, _ := cs.idsOf(canon)
	cs.scanCache[path] = ids
	return ids, nil
}

// levelOfPath: dedup level declared by a data file's metadata (compaction outputs declare none).
func (cs *caseT) levelOfPath(path string) int {
	for _, f := range cs.files {
		if f.key == path {
			return f.level
		}
	}
	return 0
}

// lossLevel: the level at which the rows of a data file must stay distinguishable: the level its own
// metadata declares; for files without metadata (legacy files, compaction outputs) the finest one.
func (cs *caseT) lossLevel(path string) int {
	for _, f := range cs.files {
		if f.key == path && f.level > 0 {
			return f.level
		}
	}
	return 3
}

// observe: property monitor for "no input file is removed before its rows are in a complete output".
// Called right BEFORE a storage mutation is applied (job side and recovery side).
func (cs *caseT) observe(who, kind, path string, data []byte) {
	if kind == "delManifest" {
		cs.observeManifestDrop(who, path)
		return
	}
	if kind != "delInput" {
		return
	}
	if _, err := os.Stat(filepath.Join(cs.root, path)); err != nil {
		return // already gone: nothing is removed
	}
	name := cs.canonName(path)
	type man struct {
		m compaction.Manifest
	}
	var mans []compaction.Manifest
	filepath.WalkDir(filepath.Join(cs.root, manState), func(p string, d os.DirEntry, err error) error {
		if err != nil || d.IsDir() || !strings.HasSuffix(p, ".json") {
			return nil
		}
		b, err := os.ReadFile(p)
		if err != nil {
			return nil
		}
		var m compaction.Manifest
		if json.Unmarshal(b, &m) == nil {
			mans = append(mans, m)
		}
		return nil
	})
	// deleting the (partial) OUTPUT of a pending manifest is not an input removal
	for _, m := range mans {
		if m.OutputPath == path {
			ctxC.Tag("delete-output:" + who)
			return
		}
	}
	ctxC.Tag("delete:" + who)
	covered := false
	whyKey := ""
	why := "no manifest on storage lists it"
	for _, m := range mans {
		listed := false
		for _, f := range m.InputFiles {
			if f == path {
				listed = true
			}
		}
		if !listed {
			continue
		}
		st, err := os.Stat(filepath.Join(cs.root, m.OutputPath))
		if err != nil {
			why = "manifest output " + cs.canonName(m.OutputPath) + " is not on storage"
			continue
		}
		if st.Size() != m.OutputSize {
			why = "manifest output is partial"
			continue
		}
		cur, err := cs.rowsAt(path)
		if err != nil {
			why = "input unreadable"
			continue
		}
		outRows, err := cs.rowsAt(m.OutputPath)
		if err != nil {
			why = "output unreadable"
			continue
		}
		oc := countOf(outRows)
		lv := cs.lossLevel(path)
		// the level the job must have deduped at: union of the tag sets its inputs declare
		union, allTagged, firstTagged := 0, true, 0
		for _, f := range m.InputFiles {
			l := cs.levelOfPath(f)
			union = joinLevel(union, l)
			if l < 2 {
				allTagged = false
			} else if firstTagged == 0 {
				firstTagged = l
			}
		}
		coveredAt := func(L int) bool {
			keys := map[int]bool{}
			for _, r := range outRows {
				if k, ok := cs.ridKey[r]; ok {
					keys[k[L]] = true
				}
			}
			for r, n := range countOf(cur) {
				if oc[r] >= n {
					continue
				}
				k, known := cs.ridKey[r]
				if !(cs.kind != "plain" && L > 0 && known && keys[k[L]]) {
					return false
				}
			}
			return true
		}
		if coveredAt(lv) {
			covered = true
			break
		}
		why = "output " + cs.canonName(m.OutputPath) + " does not contain its rows"
		switch {
		case union > 0 && coveredAt(union):
			// deduped at the union of the declared tags, but this input declares none (legacy file /
			// compaction output) and needs a finer key: the known coarser-key loss
			whyKey = "collapsed-under-coarser-key"
		case union > 0 && coveredAt(1):
			// not even covered at the union level: the job used a key coarser than the union of the
			// tags its inputs declare
			whyKey = "tag-union-not-taken"
			if !allTagged {
				whyKey = "tag-union-not-taken:mixed-with-untagged"
			}
			why += fmt.Sprintf(" at the union level %d of the inputs' arc:tags (first tagged input declares level %d)", union, firstTagged)
		}
		if whyKey != "" {
			cs.causes[whyKey] = true
		}
	}
	if !covered {
		cls := who
		if whyKey != "" {
			cls = whyKey
		}
		ctxC.Fail("C09:input-deleted-before-output-complete:"+cls,
			fmt.Sprintf("%s deleted %s while no complete output containing its rows exists (%s)", who, name, why),
			cs.replay.String())
	}
}

func mathBits(f float64) uint64 { return math.Float64bits(f) }
