//go:build verif

package main

import (
	"database/sql"
	"fmt"
	"os"
	"os/signal"
	"path/filepath"
	"syscall"
	"runtime/pprof"
	"strings"

	"github.com/basekick-labs/arc/internal/compaction"
	"github.com/basekick-labs/arc/internal/verif/vh"
	"github.com/rs/zerolog"
)

// ---------------------------------------------------------------- case generation

type fileSpec struct {
	cols []string
	kv   map[string]string
	rows []grow
}

// genPartition builds the files of one partition.
//
//	plain : no file carries arc:tags / arc:dedup_time                      → no job ever dedups
//	tagged: files carry arc:tags "host" or "host,region" (region column only in files that declare
//	        it as a tag) or no metadata at all (pre-dedup files: host + fields)
//	cq    : files carry arc:dedup_time=true or nothing; columns time + fields; key = time
//
// Under these rules the dedup key of a row is the same under every tag union a job can see
// (time + host + region, NULL where absent), so `kid` is well defined per partition.
func genPartition(r *vh.Rand, cs *caseT, n int, dupRate, conflictRate int) []fileSpec {
	baseUs := int64(1704067200000000) // 2024-01-01T00:00:00Z
	hosts := []string{"h1", "h2", "it's"}
	regions := []string{"eu", "us"}
	var pool []grow // rows generated so far (for duplicates)
	specs := make([]fileSpec, n)
	for i := 0; i < n; i++ {
		fs := &specs[i]
		fs.kv = map[string]string{}
		cols := []string{"time"}
		hasRegion := false
		switch cs.kind {
		case "plain":
			cols = append(cols, "host")
			if r.Chance(40) {
				cols = append(cols, "region")
				hasRegion = true
			}
			if r.Chance(15) {
				fs.kv["arc:tags"] = "" // empty value = no tag metadata
			}
			if r.Chance(10) {
				fs.kv["arc:dedup_time"] = "false"
			}
			if r.Chance(10) {
				fs.kv["other:key"] = "x"
			}
		case "tagged":
			cols = append(cols, "host")
			switch r.Intn(10) {
			case 0, 1, 2, 3, 4:
				fs.kv["arc:tags"] = "host"
			case 5, 6, 7:
				fs.kv["arc:tags"] = "host,region"
				cols = append(cols, "region")
				hasRegion = true
			default: // no metadata (pre-dedup writer); `legacy-region`: such a file may have a region column
				if cs.name == "legacy-region" && r.Chance(60) {
					cols = append(cols, "region")
					hasRegion = true
				}
			}
			if cs.name == "all-tagged" && len(fs.kv) == 0 {
				fs.kv["arc:tags"] = "host"
			}
		case "tagmix": // EVERY file declares arc:tags, the tag sets differ (nested and non-nested)
			choices := []string{"host", "host,region", "region"}
			if cs.name == "tagmix-nested" {
				choices = []string{"host", "host,region"}
			}
			t := vh.Pick(r, choices)
			fs.kv["arc:tags"] = t
			if strings.Contains(t, "host") {
				cols = append(cols, "host")
			}
			if strings.Contains(t, "region") {
				cols = append(cols, "region")
				hasRegion = true
			}
		case "cq":
			if r.Chance(70) || cs.name == "all-tagged" {
				fs.kv["arc:dedup_time"] = "true"
			}
		}
		for _, f := range fieldCols {
			if r.Chance(55) {
				cols = append(cols, f.name)
			}
		}
		fs.cols = cols
		nrows := r.Range(1, 5)
		for k := 0; k < nrows; k++ {
			var g grow
			if len(pool) > 0 && r.Chance(dupRate) {
				src := vh.Pick(r, pool)
				g = grow{cells: map[string]cell{}}
				for _, c := range cols {
					if ce, ok := src.cells[c]; ok {
						g.cells[c] = ce
					}
				}
				// the source may have columns this file lacks: then it is a different row with (maybe) the same key
				if r.Chance(conflictRate) {
					for _, f := range fieldCols {
						if _, ok := g.cells[f.name]; ok {
							g.cells[f.name] = genField(r, f.name)
						}
					}
				}
			} else {
				g = grow{cells: map[string]cell{}}
				if r.Chance(4) {
					g.cells["time"] = cell{null: true}
				} else {
					g.cells["time"] = timeCell(baseUs + int64(r.Intn(6))*1000000 + int64(r.Intn(2)))
				}
				for _, c := range cols {
					switch c {
					case "host":
						if r.Chance(8) {
							g.cells[c] = cell{null: true}
						} else {
							g.cells[c] = strCell(vh.Pick(r, hosts))
						}
					case "region":
						if r.Chance(15) {
							g.cells[c] = cell{null: true}
						} else {
							g.cells[c] = strCell(vh.Pick(r, regions))
						}
					case "time":
					default:
						g.cells[c] = genField(r, c)
					}
				}
			}
			_ = hasRegion
			fs.rows = append(fs.rows, g)
			pool = append(pool, g)
		}
	}
	return specs
}

func (cs *caseT) materialize(specs []fileSpec) error {
	if err := os.MkdirAll(cs.partDir(), 0o755); err != nil {
		return err
	}
	for i, fs := range specs {
		name := fmt.Sprintf("%s_20240101_00%02d%02d_%d.parquet", meas, i/60, i%60, 1704067200000000000+int64(i))
		key := partRel + "/" + name
		if err := writeParquet(filepath.Join(cs.root, key), fs.cols, fs.rows, fs.kv); err != nil {
			return fmt.Errorf("fixture %d: %w", i, err)
		}
		pf := &pfile{idx: i, key: key}
		var metas []string
		if fs.kv["arc:dedup_time"] == "true" {
			pf.level = 1
			metas = append(metas, "dt")
		}
		if v := fs.kv["arc:tags"]; v != "" {
			pf.level = levelOfTags(v)
			metas = append(metas, "tags="+v)
		}
		pf.meta = strings.Join(metas, "+")
		if pf.meta == "" {
			pf.meta = "-"
		}
		for _, g := range fs.rows {
			rid := cs.rids.id(canonRow(g))
			var k [5]int
			for L := 1; L <= 4; L++ {
				k[L] = cs.kids[L].id(canonKey(g, levelCols[L]))
			}
			cs.ridKey[rid] = k
			pf.rows = append(pf.rows, row{rid, k})
			cs.origRid[rid]++
		}
		cs.files = append(cs.files, pf)
		cs.nameOf[key] = fmt.Sprintf("i%d", i)
	}
	return nil
}

func faultStr(plan []fault) string {
	if len(plan) == 0 {
		return "-"
	}
	var ps []string
	for _, f := range plan {
		k := "k"
		if f.kind == fCrash {
			k = "c"
		} else if f.kind == fTorn {
			k = "p"
		} else if f.kind == fCancel {
			k = "x"
		}
		ps = append(ps, fmt.Sprintf("%d:%s%d", f.job, k, f.pos))
	}
	return strings.Join(ps, ",")
}

// hasConflicts reports whether, at some dedup level a job of this partition can run at, two original
// rows share the key but differ (then the surviving row of a dedup is DuckDB's choice and scans
// are compared at key level).
func (cs *caseT) hasConflicts() bool {
	for L := 1; L <= 4; L++ {
		present := false
		for _, f := range cs.files {
			if f.level == L {
				present = true
			}
		}
		if !present {
			continue
		}
		seen := map[int]int{}
		for _, f := range cs.files {
			for _, r := range f.rows {
				if o, ok := seen[r.k[L]]; ok && o != r.rid {
					return true
				}
				seen[r.k[L]] = r.rid
			}
		}
	}
	return false
}

// ---------------------------------------------------------------- one case: ops, impl outputs, monitors

func runCase(c *vh.Ctx, cs *caseT, specs []fileSpec) {
	root, err := os.MkdirTemp(c.OutDir, "part")
	if err != nil {
		panic(err)
	}
	defer os.RemoveAll(root)
	cs.root = root
	cs.rids = intern{m: map[string]int{}}
	for L := range cs.kids {
		cs.kids[L] = intern{m: map[string]int{}}
	}
	cs.nameOf = map[string]string{}
	cs.origRid, cs.ridKey = map[int]int{}, map[int][5]int{}
	cs.causes = map[string]bool{}
	cs.manInputs, cs.manOut = map[string][]string{}, map[string]string{}
	cs.scanCache = map[string][]int{}
	if err := cs.materialize(specs); err != nil {
		fmt.Fprintln(os.Stderr, "materialize:", err)
		c.Tag("fixture-error")
		return
	}
	anyDedup := false
	cs.plevel = 0
	for _, f := range cs.files {
		anyDedup = anyDedup || f.level > 0
		if f.level > 0 {
			if cs.plevel == 0 {
				cs.plevel = f.level
			} else {
				cs.plevel = meetLevel(cs.plevel, f.level)
			}
		}
	}
	if cs.plevel == 0 {
		cs.plevel = 3
	}
	cs.mode = "rid"
	if anyDedup && cs.hasConflicts() {
		cs.mode = "kid"
	}
	emit := func(op, out string) {
		c.Op(op, out)
		cs.replay.WriteString(op + "\n")
	}
	bd := 0
	if cs.batchDel {
		bd = 1
	}
	emit(fmt.Sprintf("new %s %s %d %d %d %d", cs.kind, cs.mode, cs.plevel, cs.minFiles, cs.maxBatch, bd), "ok")
	for _, f := range cs.files {
		var rs []string
		for _, r := range f.rows {
			rs = append(rs, fmt.Sprintf("%d:%d:%d:%d:%d", r.rid, r.k[1], r.k[2], r.k[3], r.k[4]))
		}
		emit(fmt.Sprintf("file %d %d %s %s", f.idx, f.level, f.meta, strings.Join(rs, ",")), fmt.Sprintf("ok %d", len(f.rows)))
	}
	st, _, _ := cs.scanState()
	emit("scan", st)
	nontriv := false
	for i, plan := range cs.plans {
		rf := -1
		if i < len(cs.recFail) {
			rf = cs.recFail[i]
		}
		op := "cycle " + faultStr(plan)
		if rf >= 0 {
			op += fmt.Sprintf(" recfail=%d", rf)
		}
		var age int64
		zts := false
		if i < len(cs.ages) {
			age = cs.ages[i]
		}
		if i < len(cs.zeroTs) {
			zts = cs.zeroTs[i]
		}
		if age > 0 {
			op += fmt.Sprintf(" age=%d", age)
		}
		if zts {
			op += " zerots"
		}
		out := vh.Guard(func() string { return cs.runCycle(plan, rf, age, zts) })
		emit(op, out)
		if strings.Contains(out, "died@") {
			c.Tag("cycle:kill")
			nontriv = true
		}
		if strings.Contains(out, "crashed") {
			c.Tag("cycle:crash")
			nontriv = true
		}
		st, _, _ := cs.scanState()
		emit("scan", st)
	}
	var vis []int
	var verr error
	for q := 0; q < cs.quiesce; q++ {
		out := vh.Guard(func() string { return cs.runCycle(nil, -1, 0, false) })
		emit("cycle -", out)
		var st string
		st, vis, verr = cs.scanState()
		emit("scan", st)
	}
	// ---- the property on the real code: rows visible now vs. rows visible before
	if cs.quiesce == 0 {
		_, vis, verr = cs.scanState()
	}
	err = verr
	unknown := 0
	for _, r := range vis {
		if r < 0 {
			unknown++
		}
	}
	lost, dup := 0, 0
	if err != nil {
		emit("check", "scan-error")
		c.Fail("C09:partition-unreadable", "the partition cannot be scanned after compaction: "+err.Error(), cs.replay.String())
	} else {
		vc := countOf(vis)
		pl := cs.plevel
		vk := map[int]int{}   // visible rows per key at the printed level
		ok := map[int]int{}   // original rows per key at the printed level
		var visAt [5]map[int]bool
		for L := 1; L <= 4; L++ {
			visAt[L] = map[int]bool{}
		}
		for _, r := range vis {
			if k, known := cs.ridKey[r]; known {
				vk[k[pl]]++
				for L := 1; L <= 4; L++ {
					visAt[L][k[L]] = true
				}
			}
		}
		for _, f := range cs.files {
			for _, r := range f.rows {
				ok[r.k[pl]]++
			}
		}
		if cs.mode == "rid" && !anyDedup {
			for r, n := range cs.origRid {
				if vc[r] < n {
					lost += n - vc[r]
				}
			}
			for r, n := range vc {
				if n > cs.origRid[r] {
					dup += n - cs.origRid[r]
				}
			}
		} else {
			for k := range ok {
				if vk[k] == 0 {
					lost++
				}
			}
			for k, n := range vk {
				if n > ok[k] {
					dup += n - ok[k]
				}
			}
		}
		emit("check", fmt.Sprintf("lost=%d dup=%d", lost, dup))
		// ---- monitors (sharper than the diffed counters)
		// lost: a row of a file that declares tags must keep a visible row with the same (tags,time) at
		// the file's OWN level; a row of a file without metadata one at the finest level; in partitions
		// without any dedup metadata the multiset of rows must be unchanged.
		lostRows, lostCoarse := 0, 0
		if !anyDedup {
			lostRows = lost
		} else {
			for _, f := range cs.files {
				lv := f.level
				if lv == 0 {
					lv = 3
				}
				for _, r := range f.rows {
					if !visAt[lv][r.k[lv]] {
						lostRows++
						if visAt[pl][r.k[pl]] {
							lostCoarse++
						}
					}
				}
			}
		}
		dupRows := 0
		for r, n := range vc {
			if r >= 0 && n > cs.origRid[r] {
				dupRows += n - cs.origRid[r]
			}
		}
		desc := fmt.Sprintf("partition kind=%s/%s files=%d minFiles=%d maxBatch=%d plans=%v", cs.kind, cs.name, len(cs.files), cs.minFiles, cs.maxBatch, plansStr(cs.plans))
		if unknown > 0 {
			c.Fail("C09:row-not-from-input", fmt.Sprintf("%d visible rows are not among the original rows (%s)", unknown, desc), cs.replay.String())
		}
		if lostRows > 0 {
			// classify by the cause seen when the inputs were deleted
			key := "C09:rows-lost"
			switch {
			case cs.causes["tag-union-not-taken"]:
				key += ":tag-union-not-taken"
			case cs.causes["tag-union-not-taken:mixed-with-untagged"]:
				key += ":tag-union-not-taken:mixed-with-untagged"
			case cs.causes["collapsed-under-coarser-key"] && lostCoarse == lostRows:
				key += ":collapsed-under-coarser-key"
			}
			c.Fail(key, fmt.Sprintf("%d original rows have no visible row with the same (tags,time) after recovery + cycle (%s)", lostRows, desc), cs.replay.String())
		}
		if dup > 0 || dupRows > 0 {
			key := "C09:rows-duplicated"
			switch {
			case cs.causes["manifest-dropped:job"] && hasCancel(cs):
				key += ":cancel-during-upload"
			case cs.causes["manifest-dropped:job"]:
				key += ":manifest-dropped-by-job"
			case cs.causes["stale-manifest-dropped"]:
				key += ":stale-manifest-dropped"
			case cs.causes["manifest-dropped:recovery"]:
				key += ":manifest-dropped-by-recovery"
			}
			if strings.Count(key, ":") == 1 { // no specific cause seen: classify by metadata / fault plan
				if anyDedup {
					key += ":dedup-metadata"
				} else {
					key += ":no-dedup-metadata"
				}
				if hasKillAfterUpload(cs) {
					key += ":adaptive-retry-after-kill"
				}
			}
			c.Fail(key, fmt.Sprintf("%d rows are visible more often than before (%s)", max(dup, dupRows), desc), cs.replay.String())
		}
		lost = lostRows
		if lost > 0 {
			c.Tag("verdict:lost")
		} else if dup > 0 || dupRows > 0 {
			c.Tag("verdict:dup")
		} else {
			c.Tag("verdict:ok")
		}
	}
	c.Case(cs.replay.String(), nontriv)
}

func plansStr(ps [][]fault) string {
	var s []string
	for _, p := range ps {
		s = append(s, faultStr(p))
	}
	return strings.Join(s, " / ")
}

func hasCancel(cs *caseT) bool {
	for _, p := range cs.plans {
		for _, f := range p {
			if f.kind == fCancel {
				return true
			}
		}
	}
	return false
}

func hasKillAfterUpload(cs *caseT) bool {
	for _, p := range cs.plans {
		for _, f := range p {
			if f.kind == fKill && f.pos >= 2 {
				return true
			}
		}
	}
	return false
}

func main() {
	c := vh.Start()
	ctxC = c
	if pf := os.Getenv("VERIF_C09_PPROF"); pf != "" {
		f, _ := os.Create(pf)
		pprof.StartCPUProfile(f)
		defer pprof.StopCPUProfile()
	}
	zerolog.SetGlobalLevel(zerolog.Disabled) // the child side logs to stderr
	sigSink := make(chan os.Signal, 64)        // fCancel sends SIGTERM to this process; it must never be fatal
	signal.Notify(sigSink, syscall.SIGTERM)
	var err error
	duck, err = sql.Open("duckdb", "?threads=1")
	if err != nil {
		fmt.Fprintln(os.Stderr, err)
		os.Exit(1)
	}
	defer duck.Close()
	duck.SetMaxOpenConns(1)
	duck.Exec("SET threads=1")
	childDuck, err := sql.Open("duckdb", "?threads=1")
	if err != nil {
		fmt.Fprintln(os.Stderr, err)
		os.Exit(1)
	}
	defer childDuck.Close()
	compaction.VerifSharedDuck = childDuck
	r := vh.NewRand(c.Seed)

	// (1) edge grid: a small partition, every mutation boundary × {kill, crash}, for each kind
	for _, kind := range []string{"plain", "tagged"} {
		n := 4
		for _, fk := range []faultKind{fKill, fCrash, fTorn} {
			for pos := 0; pos <= n+3; pos++ {
				if fk == fTorn && pos != 1 {
					continue
				}
				if pos == n+3 {
					pos = 1000
				}
				cs := &caseT{name: "grid", kind: kind, minFiles: 2, maxBatch: 30, quiesce: 2, batchDel: pos%2 == 0}
				cs.plans = [][]fault{{{job: 0, pos: pos, kind: fk}}}
				specs := genPartition(vh.NewRand(7), cs, n, 30, 0)
				runCase(c, cs, specs)
			}
		}
	}
	// (1a') graceful cancellation at every phase boundary of Job.Run (download, merge, manifest, INSIDE the
	// upload, every input delete, manifest delete), then restart + recovery + next cycle
	for _, pos := range []int{100, 101, 0, 1, 2, 3, 5, 6} {
		cs := &caseT{name: "cancel-grid", kind: "plain", minFiles: 2, maxBatch: 30, quiesce: 2, batchDel: pos%2 == 0}
		cs.plans = [][]fault{{{job: 0, pos: pos, kind: fCancel}}}
		runCase(c, cs, genPartition(vh.NewRand(7), cs, 4, 30, 0))
	}
	// (1a'') node crash after the upload / partway through the input deletes, then the clock advances before the
	// next cycle's recovery (0, 6d23h, 7d+1s, 8d, 30d) or the pending manifest carries a zero created_at
	for _, pos := range []int{2, 4} {
		for ai, age := range []int64{0, 7*86400 - 3600, 7*86400 + 1, 8 * 86400, 30 * 86400, -1} {
			cs := &caseT{name: "aged-recovery", kind: "plain", minFiles: 2, maxBatch: 30, quiesce: 1, batchDel: ai%2 == 0}
			cs.plans = [][]fault{{{job: 0, pos: pos, kind: fCrash}}, {}}
			cs.recFail = []int{-1, -1}
			if age >= 0 {
				cs.ages, cs.zeroTs = []int64{0, age}, []bool{false, false}
			} else {
				cs.ages, cs.zeroTs = []int64{0, 0}, []bool{false, true}
			}
			runCase(c, cs, genPartition(vh.NewRand(7), cs, 4, 30, 0))
		}
	}
	// (1b) minimal replay of the coarser-key loss: a legacy file (no metadata) whose two rows differ only in
	// `region`, next to a file tagged `host`; one fault-free cycle.
	{
		cs := &caseT{name: "legacy-min", kind: "tagged", minFiles: 2, maxBatch: 30, quiesce: 1}
		t0 := timeCell(1704067200000000)
		specs := []fileSpec{
			{cols: []string{"time", "host", "region"}, kv: map[string]string{}, rows: []grow{
				{cells: map[string]cell{"time": t0, "host": strCell("h1"), "region": strCell("eu")}},
				{cells: map[string]cell{"time": t0, "host": strCell("h1"), "region": strCell("us")}}}},
			{cols: []string{"time", "host"}, kv: map[string]string{"arc:tags": "host"}, rows: []grow{
				{cells: map[string]cell{"time": timeCell(1704067201000000), "host": strCell("h2")}}}},
		}
		runCase(c, cs, specs)
	}
	// (1c) every file tagged, tag sets differ: every listing order of nested and non-nested tag sets; rows that
	// share the time and one tag but differ in the other. Fault-free: the dedup key must be the union.
	{
		t0 := timeCell(1704067200000000)
		mk := func(tags string, hosts, regions []string) fileSpec {
			fs := fileSpec{cols: []string{"time"}, kv: map[string]string{"arc:tags": tags}}
			if strings.Contains(tags, "host") {
				fs.cols = append(fs.cols, "host")
			}
			if strings.Contains(tags, "region") {
				fs.cols = append(fs.cols, "region")
			}
			for i := 0; i < max(len(hosts), len(regions)); i++ {
				g := grow{cells: map[string]cell{"time": t0}}
				if strings.Contains(tags, "host") {
					g.cells["host"] = strCell(hosts[i])
				}
				if strings.Contains(tags, "region") {
					g.cells["region"] = strCell(regions[i])
				}
				fs.rows = append(fs.rows, g)
			}
			return fs
		}
		fH := mk("host", []string{"web1", "web2"}, nil)
		fHR := mk("host,region", []string{"web1", "web1", "web2"}, []string{"eu", "us", "eu"})
		fR := mk("region", nil, []string{"eu", "us"})
		orders := [][]fileSpec{{fH, fHR}, {fHR, fH}, {fH, fR}, {fR, fH}, {fR, fHR}, {fHR, fR},
			{fH, fR, fHR}, {fH, fHR, fR}, {fR, fH, fHR}, {fR, fHR, fH}, {fHR, fH, fR}, {fHR, fR, fH}}
		for _, o := range orders {
			cs := &caseT{name: "tagmix-order", kind: "tagmix", minFiles: 2, maxBatch: 30, quiesce: 1}
			runCase(c, cs, append([]fileSpec(nil), o...))
		}
	}
	nCases := c.N
	if nCases == 0 {
		nCases = 45
		if c.Thorough() {
			nCases = 900
		}
	}
	for i := 0; i < nCases; i++ {
		cs := &caseT{name: "rand", quiesce: 2}
		cs.kind = vh.Pick(r, []string{"plain", "plain", "tagged", "tagged", "cq", "tagmix"})
		if cs.kind == "tagmix" && r.Bool() {
			cs.name = "tagmix-nested"
		}
		if r.Chance(15) {
			cs.name = "all-tagged"
		} else if r.Chance(12) {
			cs.name = "legacy-region"
		}
		n := vh.Pick(r, []int{2, 3, 4, 5, 6, 8, 11, 12, 16, 24, r.Range(2, 24)})
		cs.minFiles = vh.Pick(r, []int{2, 2, 3, 5, 0})
		cs.maxBatch = vh.Pick(r, []int{30, 30, 0, 1, 2, 3, 5, 8})
		cs.batchDel = r.Bool()
		ncyc := vh.Pick(r, []int{1, 1, 1, 2, 3})
		for k := 0; k < ncyc; k++ {
			var plan []fault
			nf := vh.Pick(r, []int{1, 1, 1, 2, 3, 0})
			job := 0
			for f := 0; f < nf; f++ {
				job += r.Intn(3)
				kind := fKill
				if r.Chance(35) {
					kind = fCrash
				}
				pos := r.Intn(n + 4)
				if r.Chance(6) {
					pos = 1000
				}
				if r.Chance(8) {
					kind, pos = fTorn, 1
				}
				if r.Chance(10) {
					kind = fCancel
					if r.Chance(30) {
						pos = vh.Pick(r, []int{100, 101})
					}
				}
				plan = append(plan, fault{job: job, pos: pos, kind: kind})
				job++
				if kind != fKill {
					break
				}
			}
			cs.plans = append(cs.plans, plan)
			rf := -1
			if k > 0 && r.Chance(35) {
				rf = r.Intn(24)
			}
			cs.recFail = append(cs.recFail, rf)
			var age int64
			zts := false
			if k > 0 && r.Chance(30) {
				age = vh.Pick(r, []int64{3600, 7*86400 - 60, 7*86400 + 1, 8 * 86400, 400 * 86400})
				zts = r.Chance(25)
			}
			cs.ages = append(cs.ages, age)
			cs.zeroTs = append(cs.zeroTs, zts)
		}
		specs := genPartition(r, cs, n, vh.Pick(r, []int{0, 20, 50}), vh.Pick(r, []int{0, 0, 30}))
		runCase(c, cs, specs)
	}
	c.Finish("case = (partition of 2..24 parquet files with random column subsets, NULLs, duplicate keys, with/without arc:tags / arc:dedup_time; min_files; max_files_per_batch; per cycle a fault plan: job index × mutation boundary × kill|crash) followed by two fault-free cycles; non-trivial = at least one job was killed or the node crashed; distinct = distinct op text")
}
