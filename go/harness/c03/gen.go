//go:build verif

package main

import (
	"context"
	"fmt"
	"io"
	"math"
	"sort"
	"strings"
	"sync"

	"github.com/apache/arrow-go/v18/arrow/decimal128"
	"github.com/basekick-labs/arc/internal/ingest"
	"github.com/basekick-labs/arc/internal/verif/vh"
)

const mph = int64(3600_000_000)

type colDef struct {
	name string
	ty   byte
}

// anchors: hour starts (µs) around which timestamps are drawn: epoch, just before it, 1969, 1600,
// now-ish, far future, early years.
var anchors = []int64{
	0, -mph, -24 * mph, 473353 * mph, // 2024
	-3243000 * mph,  // ~1600
	70000000 * mph,  // ~9955
	-17259000 * mph, // ~year 1
	1, -1,
}

func genTimes(r *vh.Rand, n int) []int64 {
	ts := make([]int64, n)
	a := vh.Pick(r, anchors)
	base := floorDiv(a, mph) * mph
	mode := r.Intn(9)
	for i := range ts {
		switch mode {
		case 0: // ascending inside one hour
			ts[i] = base + int64(i)*(mph/int64(n+1))
		case 1: // random inside one hour
			ts[i] = base + int64(r.U64()%uint64(mph))
		case 2: // multi-hour random, few hours, straddling the anchor
			ts[i] = base + (int64(r.Intn(5))-2)*mph + int64(r.U64()%uint64(mph))
		case 3: // all equal
			ts[i] = base + 12345
		case 4: // boundaries
			ts[i] = base + vh.Pick(r, []int64{-1, 0, 1, mph - 1, mph, mph + 1, -mph, -mph - 1})
		case 5: // descending
			ts[i] = base + int64(n-i)*1000
		case 6: // many duplicates, two hours
			ts[i] = base + int64(r.Intn(2))*mph + int64(r.Intn(4))
		case 7: // wide: many hours incl. negatives around epoch
			ts[i] = (int64(r.Intn(40)) - 20) * mph + int64(r.U64()%uint64(mph))
		case 8: // almost sorted with a few swaps
			ts[i] = base + int64(i)*1000
		}
	}
	if mode == 8 && n > 2 {
		for k := 0; k < 1+r.Intn(3); k++ {
			i, j := r.Intn(n), r.Intn(n)
			ts[i], ts[j] = ts[j], ts[i]
		}
	}
	return ts
}

var strPool = []string{"", "a", "host-1", "héllo", "x y", "0", "NULL", "~", "a,b;c=d", strings.Repeat("z", 40)}
var f64Pool = []uint64{0, 0x8000000000000000, 0x3ff0000000000000, 0x7ff8000000000001, 0x7ff0000000000000, 0xfff0000000000000, 0x0000000000000001, 0x7fefffffffffffff}

// genCol fills one column. nullMode: 0 none (no validity entry), 1 some nulls, 2 all null,
// 3 validity entry present but all true.
func genCol(r *vh.Rand, ty byte, n int, nullMode int) (interface{}, []bool) {
	var valid []bool
	if nullMode != 0 {
		valid = make([]bool, n)
		for i := range valid {
			switch nullMode {
			case 1:
				valid[i] = !r.Chance(35)
			case 3:
				valid[i] = true
			}
		}
	}
	junk := r.Chance(30) // payload under a NULL need not be the zero value
	live := func(i int) bool { return valid == nil || valid[i] || junk }
	switch ty {
	case 'i':
		a := make([]int64, n)
		for i := range a {
			if live(i) {
				a[i] = vh.Pick(r, []int64{0, 1, -1, math.MaxInt64, math.MinInt64, int64(r.Intn(1000)), -int64(r.U64() >> 1)})
			}
		}
		return a, valid
	case 'f':
		a := make([]float64, n)
		for i := range a {
			if live(i) {
				if r.Chance(50) {
					a[i] = math.Float64frombits(vh.Pick(r, f64Pool))
				} else {
					a[i] = math.Float64frombits(r.U64())
				}
			}
		}
		return a, valid
	case 's':
		a := make([]string, n)
		for i := range a {
			if live(i) {
				if r.Chance(70) {
					a[i] = vh.Pick(r, strPool)
				} else {
					a[i] = fmt.Sprintf("v%d", r.Intn(1000))
				}
			}
		}
		return a, valid
	case 'b':
		a := make([]bool, n)
		for i := range a {
			if live(i) {
				a[i] = r.Bool()
			}
		}
		return a, valid
	case 'd':
		a := make([]decimal128.Num, n)
		for i := range a {
			if live(i) {
				a[i] = decimal128.FromI64(vh.Pick(r, []int64{0, 1, -1, 99999999999, -int64(r.U64() >> 8), int64(r.Intn(100000))}))
			}
		}
		return a, valid
	}
	return nil, nil
}

func genBatch(r *vh.Rand, schema []colDef, times []int64) *ingest.TypedColumnBatch {
	n := len(times)
	t := &ingest.TypedColumnBatch{Data: map[string]interface{}{"time": times}}
	for _, cd := range schema {
		nm := 0
		switch x := r.Intn(10); {
		case x < 5:
			nm = 0
		case x < 8:
			nm = 1
		case x < 9:
			nm = 2
		default:
			nm = 3
		}
		data, valid := genCol(r, cd.ty, n, nm)
		t.Data[cd.name] = data
		if valid != nil {
			if t.Validity == nil {
				t.Validity = map[string][]bool{}
			}
			t.Validity[cd.name] = valid
		}
	}
	return t
}

// column pools. poolA is the property's "small column pool with type changes"; internal ("_")
// columns only occur in the pure-function cases (they are skipped by the signature and the schema).
var poolNames = []string{"a", "b", "host", "ok", "v"}
var poolTys = []byte{'i', 'f', 's', 'b'}

func genSchema(r *vh.Rand, withDec bool) []colDef {
	var s []colDef
	for _, n := range poolNames {
		if r.Chance(55) {
			s = append(s, colDef{n, vh.Pick(r, poolTys)})
		}
	}
	if withDec && r.Chance(50) {
		s = append(s, colDef{"dcol", 'd'})
	}
	return s
}

// ---- capturing in-memory storage backend

type memStore struct {
	mu      sync.Mutex
	files   map[string][]byte
	order   []string
	clashes []string
	onWrite func(path string, data []byte, clash bool)
}

func newMemStore() *memStore { return &memStore{files: map[string][]byte{}} }

func (m *memStore) Write(ctx context.Context, path string, data []byte) error {
	cp := append([]byte(nil), data...)
	m.mu.Lock()
	_, clash := m.files[path]
	if clash {
		m.clashes = append(m.clashes, path)
	}
	m.files[path] = cp
	m.order = append(m.order, path)
	f := m.onWrite
	m.mu.Unlock()
	if f != nil {
		f(path, cp, clash)
	}
	return nil
}
func (m *memStore) WriteReader(ctx context.Context, path string, rd io.Reader, size int64) error {
	b, err := io.ReadAll(rd)
	if err != nil {
		return err
	}
	return m.Write(ctx, path, b)
}
func (m *memStore) Read(ctx context.Context, path string) ([]byte, error) {
	m.mu.Lock()
	defer m.mu.Unlock()
	b, ok := m.files[path]
	if !ok {
		return nil, fmt.Errorf("not found: %s", path)
	}
	return b, nil
}
func (m *memStore) ReadTo(ctx context.Context, path string, w io.Writer) error {
	b, err := m.Read(ctx, path)
	if err != nil {
		return err
	}
	_, err = w.Write(b)
	return err
}
func (m *memStore) ReadToAt(ctx context.Context, path string, w io.Writer, off int64) error {
	b, err := m.Read(ctx, path)
	if err != nil {
		return err
	}
	if off < 0 || off >= int64(len(b)) {
		return fmt.Errorf("bad offset")
	}
	_, err = w.Write(b[off:])
	return err
}
func (m *memStore) StatFile(ctx context.Context, path string) (int64, error) {
	m.mu.Lock()
	defer m.mu.Unlock()
	b, ok := m.files[path]
	if !ok {
		return -1, nil
	}
	return int64(len(b)), nil
}
func (m *memStore) List(ctx context.Context, prefix string) ([]string, error) {
	m.mu.Lock()
	defer m.mu.Unlock()
	var out []string
	for p := range m.files {
		if strings.HasPrefix(p, prefix) {
			out = append(out, p)
		}
	}
	sort.Strings(out)
	return out, nil
}
func (m *memStore) Delete(ctx context.Context, path string) error {
	m.mu.Lock()
	delete(m.files, path)
	m.mu.Unlock()
	return nil
}
func (m *memStore) Exists(ctx context.Context, path string) (bool, error) {
	m.mu.Lock()
	_, ok := m.files[path]
	m.mu.Unlock()
	return ok, nil
}
func (m *memStore) Close() error       { return nil }
func (m *memStore) Type() string       { return "mem" }
func (m *memStore) ConfigJSON() string { return "{}" }

func (m *memStore) snapshot() (paths []string, data map[string][]byte) {
	m.mu.Lock()
	defer m.mu.Unlock()
	data = map[string][]byte{}
	for p, b := range m.files {
		paths = append(paths, p)
		data[p] = b
	}
	sort.Strings(paths)
	return
}

func (m *memStore) reset() {
	m.mu.Lock()
	m.files = map[string][]byte{}
	m.order = nil
	m.clashes = nil
	m.mu.Unlock()
}

// splitPath: db/m/YYYY/MM/DD/HH/file → (db/m, YYYY/MM/DD/HH, file)
func splitPath(p string) (key, dir, name string, ok bool) {
	parts := strings.Split(p, "/")
	if len(parts) != 7 {
		return "", "", "", false
	}
	return parts[0] + "/" + parts[1], strings.Join(parts[2:6], "/"), parts[6], true
}
