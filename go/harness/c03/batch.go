//go:build verif

package main

// Typed batches as the harness sees them: generation, encoding into op fields, canonical texts and
// hashes (the Lean driver produces the same texts from the same op fields), Parquet decoding.

import (
	"bytes"
	"context"
	"encoding/hex"
	"fmt"
	"math"
	"sort"
	"strconv"
	"strings"

	"github.com/apache/arrow-go/v18/arrow"
	"github.com/apache/arrow-go/v18/arrow/array"
	"github.com/apache/arrow-go/v18/arrow/decimal128"
	"github.com/apache/arrow-go/v18/arrow/memory"
	"github.com/apache/arrow-go/v18/parquet/file"
	"github.com/apache/arrow-go/v18/parquet/pqarrow"
	"github.com/basekick-labs/arc/internal/ingest"
)

// view: column-major canonical text of a batch (cells already rendered; "~" = NULL).
type vcol struct {
	name  string
	ty    byte // i f s b d
	flag  byte // v = has validity entry, n = none, p = decoded from parquet
	cells []string
}

type view struct {
	cols  []vcol // sorted by name
	times []int64
	n     int
}

func hexs(s string) string {
	if s == "" {
		return "-"
	}
	return hex.EncodeToString([]byte(s))
}

func decText(d decimal128.Num) string { return d.BigInt().String() }

func viewOfTCB(t *ingest.TypedColumnBatch) view {
	var v view
	names := make([]string, 0, len(t.Data))
	for n := range t.Data {
		names = append(names, n)
	}
	sort.Strings(names)
	if tc, ok := t.Data["time"].([]int64); ok {
		v.times = tc
		v.n = len(tc)
	}
	for _, n := range names {
		c := vcol{name: n, flag: 'n'}
		var valid []bool
		if t.Validity != nil {
			valid = t.Validity[n]
		}
		if valid != nil {
			c.flag = 'v'
		}
		isValid := func(i int) bool {
			if valid == nil {
				return true
			}
			return i < len(valid) && valid[i]
		}
		switch a := t.Data[n].(type) {
		case []int64:
			c.ty = 'i'
			for i, x := range a {
				if isValid(i) {
					c.cells = append(c.cells, strconv.FormatInt(x, 10))
				} else {
					c.cells = append(c.cells, "~")
				}
			}
		case []float64:
			c.ty = 'f'
			for i, x := range a {
				if isValid(i) {
					c.cells = append(c.cells, fmt.Sprintf("%016x", math.Float64bits(x)))
				} else {
					c.cells = append(c.cells, "~")
				}
			}
		case []string:
			c.ty = 's'
			for i, x := range a {
				if isValid(i) {
					c.cells = append(c.cells, hexs(x))
				} else {
					c.cells = append(c.cells, "~")
				}
			}
		case []bool:
			c.ty = 'b'
			for i, x := range a {
				if !isValid(i) {
					c.cells = append(c.cells, "~")
				} else if x {
					c.cells = append(c.cells, "1")
				} else {
					c.cells = append(c.cells, "0")
				}
			}
		case []decimal128.Num:
			c.ty = 'd'
			for i, x := range a {
				if isValid(i) {
					c.cells = append(c.cells, decText(x))
				} else {
					c.cells = append(c.cells, "~")
				}
			}
		default:
			c.ty = '?'
		}
		v.cols = append(v.cols, c)
	}
	return v
}

// spec: the op fields that describe a batch to the Lean driver.
func (v view) spec() string {
	var sb strings.Builder
	for i, c := range v.cols {
		if i > 0 {
			sb.WriteByte(' ')
		}
		sb.WriteString(hexs(c.name))
		sb.WriteByte(':')
		sb.WriteByte(c.ty)
		sb.WriteByte(':')
		sb.WriteByte(c.flag)
		sb.WriteByte(':')
		sb.WriteString(strings.Join(c.cells, ","))
	}
	return sb.String()
}

func internalName(n string) bool { return n == "" || n[0] == '_' }

// dropInternal: the Parquet schema skips "_"-prefixed columns.
func (v view) dropInternal() view {
	o := view{times: v.times, n: v.n}
	for _, c := range v.cols {
		if !internalName(c.name) {
			c.flag = 'p'
			o.cols = append(o.cols, c)
		}
	}
	return o
}

func (v view) rowText(i int) string {
	var sb strings.Builder
	if i < len(v.times) {
		sb.WriteString(strconv.FormatInt(v.times[i], 10))
	} else {
		sb.WriteString("0")
	}
	sb.WriteByte(';')
	for _, c := range v.cols {
		sb.WriteString(hexs(c.name))
		sb.WriteByte('=')
		if i < len(c.cells) {
			sb.WriteString(c.cells[i])
		} else {
			sb.WriteString("!")
		}
		sb.WriteByte(';')
	}
	return sb.String()
}

// nonNullRowText: the row as the property sees it — time plus the non-NULL cells (an absent column
// and a NULL are the same thing for a reader with union_by_name).
func (v view) nonNullRowText(i int) string {
	var sb strings.Builder
	sb.WriteString(strconv.FormatInt(v.times[i], 10))
	sb.WriteByte(';')
	for _, c := range v.cols {
		if c.name == "time" || internalName(c.name) || i >= len(c.cells) || c.cells[i] == "~" {
			continue
		}
		sb.WriteString(hexs(c.name))
		sb.WriteByte('=')
		sb.WriteByte(c.ty)
		sb.WriteString(c.cells[i])
		sb.WriteByte(';')
	}
	return sb.String()
}

const fnvOff = uint64(14695981039346656037)
const fnvPrime = uint64(1099511628211)

func fnvAdd(h uint64, s string) uint64 {
	for i := 0; i < len(s); i++ {
		h ^= uint64(s[i])
		h *= fnvPrime
	}
	h ^= 10
	h *= fnvPrime
	return h
}

func hashLines(ls []string) uint64 {
	h := fnvOff
	for _, l := range ls {
		h = fnvAdd(h, l)
	}
	return h
}

func (v view) rowTexts() []string {
	out := make([]string, v.n)
	for i := 0; i < v.n; i++ {
		out[i] = v.rowText(i)
	}
	return out
}

// tieCanon sorts the row texts inside every maximal run of equal timestamps.
func tieCanon(times []int64, rows []string) []string {
	out := append([]string(nil), rows...)
	i := 0
	for i < len(out) {
		j := i + 1
		for j < len(out) && times[j] == times[i] {
			j++
		}
		sort.Strings(out[i:j])
		i = j
	}
	return out
}

func (v view) colsText() string {
	parts := make([]string, len(v.cols))
	for i, c := range v.cols {
		parts[i] = hexs(c.name) + ":" + string(c.ty) + ":" + string(c.flag)
	}
	if len(parts) == 0 {
		return "-"
	}
	return strings.Join(parts, ",")
}

// canon: `n=.. cols=.. exact=.. canon=..` ; exact is printed only when wantExact.
func (v view) canon(wantExact bool) string {
	rows := v.rowTexts()
	ex := "-"
	if wantExact {
		ex = fmt.Sprintf("%016x", hashLines(rows))
	}
	return fmt.Sprintf("n=%d cols=%s exact=%s canon=%016x", v.n, v.colsText(), ex, hashLines(tieCanon(v.times, rows)))
}

func sortedAsc(ts []int64) bool {
	for i := 1; i < len(ts); i++ {
		if ts[i] < ts[i-1] {
			return false
		}
	}
	return true
}

// ---- Parquet decoding (arrow-go reader; the same library the repo's import path uses)

func decodeParquet(data []byte) (view, error) {
	var v view
	pf, err := file.NewParquetReader(bytes.NewReader(data))
	if err != nil {
		return v, err
	}
	defer pf.Close()
	rd, err := pqarrow.NewFileReader(pf, pqarrow.ArrowReadProperties{}, memory.DefaultAllocator)
	if err != nil {
		return v, err
	}
	tbl, err := rd.ReadTable(context.Background())
	if err != nil {
		return v, err
	}
	defer tbl.Release()
	v.n = int(tbl.NumRows())
	for ci := 0; ci < int(tbl.NumCols()); ci++ {
		col := tbl.Column(ci)
		c := vcol{name: col.Name(), flag: 'p'}
		for _, ch := range col.Data().Chunks() {
			switch a := ch.(type) {
			case *array.Int64:
				c.ty = 'i'
				for i := 0; i < a.Len(); i++ {
					if a.IsNull(i) {
						c.cells = append(c.cells, "~")
					} else {
						c.cells = append(c.cells, strconv.FormatInt(a.Value(i), 10))
					}
				}
			case *array.Timestamp:
				c.ty = 'i'
				if tt, ok := a.DataType().(*arrow.TimestampType); !ok || tt.Unit != arrow.Microsecond {
					c.ty = '?'
				}
				for i := 0; i < a.Len(); i++ {
					if a.IsNull(i) {
						c.cells = append(c.cells, "~")
					} else {
						c.cells = append(c.cells, strconv.FormatInt(int64(a.Value(i)), 10))
					}
				}
			case *array.Float64:
				c.ty = 'f'
				for i := 0; i < a.Len(); i++ {
					if a.IsNull(i) {
						c.cells = append(c.cells, "~")
					} else {
						c.cells = append(c.cells, fmt.Sprintf("%016x", math.Float64bits(a.Value(i))))
					}
				}
			case *array.String:
				c.ty = 's'
				for i := 0; i < a.Len(); i++ {
					if a.IsNull(i) {
						c.cells = append(c.cells, "~")
					} else {
						c.cells = append(c.cells, hexs(a.Value(i)))
					}
				}
			case *array.Boolean:
				c.ty = 'b'
				for i := 0; i < a.Len(); i++ {
					if a.IsNull(i) {
						c.cells = append(c.cells, "~")
					} else if a.Value(i) {
						c.cells = append(c.cells, "1")
					} else {
						c.cells = append(c.cells, "0")
					}
				}
			case *array.Decimal128:
				c.ty = 'd'
				for i := 0; i < a.Len(); i++ {
					if a.IsNull(i) {
						c.cells = append(c.cells, "~")
					} else {
						c.cells = append(c.cells, decText(a.Value(i)))
					}
				}
			default:
				c.ty = '?'
				for i := 0; i < ch.Len(); i++ {
					c.cells = append(c.cells, "?")
				}
			}
		}
		v.cols = append(v.cols, c)
	}
	sort.Slice(v.cols, func(i, j int) bool { return v.cols[i].name < v.cols[j].name })
	for _, c := range v.cols {
		if c.name == "time" {
			v.times = make([]int64, len(c.cells))
			for i, s := range c.cells {
				if s == "~" {
					return v, fmt.Errorf("null time at row %d", i)
				}
				v.times[i], _ = strconv.ParseInt(s, 10, 64)
			}
		}
	}
	if v.times == nil && v.n > 0 {
		return v, fmt.Errorf("no time column")
	}
	return v, nil
}

// ---- independent civil-date computation (not via package time) for the directory monitor

func floorDiv(a, b int64) int64 {
	q := a / b
	if (a%b != 0) && ((a < 0) != (b < 0)) {
		q--
	}
	return q
}

// hourDir: YYYY/MM/DD/HH (UTC) of the hour containing microsecond timestamp t (years 1..9999).
func hourDir(t int64) string {
	h := floorDiv(t, 3600_000_000)
	days := floorDiv(h, 24)
	hh := h - days*24
	z := days + 719468
	era := floorDiv(z, 146097)
	doe := z - era*146097
	yoe := (doe - doe/1460 + doe/36524 - doe/146096) / 365
	y := yoe + era*400
	doy := doe - (365*yoe + yoe/4 - yoe/100)
	mp := (5*doy + 2) / 153
	d := doy - (153*mp+2)/5 + 1
	m := mp + 3
	if m > 12 {
		m -= 12
	}
	if m <= 2 {
		y++
	}
	return fmt.Sprintf("%04d/%02d/%02d/%02d", y, m, d, hh)
}
