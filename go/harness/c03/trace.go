//go:build verif

package main

// Part B: trace refinement. The real ArrowBuffer runs under 1–8 writer goroutines (+ its own flush
// workers and age timer, an occasional concurrent FlushAll) against the capturing in-memory backend.
// The trace points added by props/C03.py record every critical section; the trace is replayed through
// the Lean LTS by the driver (each event must be enabled; each stored file must equal a pending file
// of the model), and monitors check the property clauses on the decoded files directly.

import (
	"context"
	"fmt"
	"sort"
	"strings"
	"sync"
	"time"

	"github.com/basekick-labs/arc/internal/config"
	"github.com/basekick-labs/arc/internal/ingest"
	"github.com/basekick-labs/arc/internal/verif/vh"
	"github.com/basekick-labs/arc/internal/verifclock"
	"github.com/rs/zerolog"
)

type tev struct {
	kind string // append extract syncextract enq enqfail take store close
	key  string
	why  string
	ids  []int
	spec string // append: batch; store: decoded file
	dir  string
	name string
	fresh bool
}

type tracer struct {
	mu       sync.Mutex
	buf      *ingest.ArrowBuffer
	ids      map[*ingest.TypedColumnBatch]int
	next     int
	evs      []tev
	enq      int
	take     int
	done     int
	enqfails int
	unknown  int
}

func (t *tracer) hook(b *ingest.ArrowBuffer, ev, key, why string, recs []interface{}) {
	if b != t.buf {
		return
	}
	t.mu.Lock()
	defer t.mu.Unlock()
	if ev == "workerdone" {
		t.done++
		return
	}
	e := tev{kind: ev, key: key, why: why}
	for _, r := range recs {
		tcb, ok := r.(*ingest.TypedColumnBatch)
		if !ok {
			t.unknown++
			continue
		}
		if ev == "append" {
			t.ids[tcb] = t.next
			t.next++
			e.spec = viewOfTCB(tcb).spec()
		}
		id, ok := t.ids[tcb]
		if !ok {
			t.unknown++
		}
		e.ids = append(e.ids, id)
	}
	switch ev {
	case "enq":
		t.enq++
	case "take":
		t.take++
	case "enqfail":
		t.enqfails++
	}
	t.evs = append(t.evs, e)
}

func (t *tracer) onWrite(path string, data []byte, clash bool) {
	key, dir, name, ok := splitPath(path)
	e := tev{kind: "store", key: key, dir: dir, name: name, fresh: !clash}
	if !ok {
		e.kind = "badpath"
		e.name = path
	}
	fv, err := decodeParquet(data)
	if err != nil {
		e.kind = "baddecode"
		e.name = err.Error()
	} else {
		for i := range fv.cols {
			fv.cols[i].flag = 'n'
			for _, c := range fv.cols[i].cells {
				if c == "~" {
					fv.cols[i].flag = 'v'
					break
				}
			}
		}
		e.spec = fv.spec()
	}
	t.mu.Lock()
	t.evs = append(t.evs, e)
	t.mu.Unlock()
}

func idsText(ids []int) string {
	if len(ids) == 0 {
		return "-"
	}
	p := make([]string, len(ids))
	for i, x := range ids {
		p[i] = fmt.Sprint(x)
	}
	return strings.Join(p, ",")
}

type accepted struct {
	key string
	v   view
}

type traceCase struct {
	writers, maxBuf, ageMS, workers, shards int
	keys                                      []string
	schemas                                   [][]colDef
	batchesPer                                int
	rowsMax                                   int
	bigRows                                   int
	midFlush                                  bool
	freeze                                    bool // FreshNames demonstration: frozen clock, two flushes of one partition
}

func runOneTrace(c *vh.Ctx, r *vh.Rand, tc traceCase, label string) {
	store := newMemStore()
	cfg := &config.IngestConfig{
		MaxBufferSize: tc.maxBuf, MaxBufferAgeMS: tc.ageMS, Compression: "snappy",
		WriteStatistics: true, DataPageVersion: "2.0",
		FlushWorkers: tc.workers, FlushQueueSize: 4096, ShardCount: tc.shards,
		DefaultDecimalColumns: "dcol=24,4",
	}
	buf := ingest.NewArrowBuffer(cfg, store, zerolog.Nop())
	tr := &tracer{buf: buf, ids: map[*ingest.TypedColumnBatch]int{}}
	store.onWrite = tr.onWrite
	ingest.VerifC03Trace = tr.hook

	// pre-generate every writer's batches from the one PRNG (deterministic inputs; the schedule is the
	// runtime's)
	type wb struct {
		key string
		b   *ingest.TypedColumnBatch
	}
	plans := make([][]wb, tc.writers)
	for w := range plans {
		for j := 0; j < tc.batchesPer; j++ {
			n := 1 + r.Intn(tc.rowsMax)
			if tc.bigRows > 0 && r.Chance(40) {
				n = tc.bigRows + r.Intn(200)
			}
			plans[w] = append(plans[w], wb{vh.Pick(r, tc.keys), genBatch(r, vh.Pick(r, tc.schemas), genTimes(r, n))})
		}
	}
	var accMu sync.Mutex
	var acc []accepted
	rejected := 0
	var wg sync.WaitGroup
	ctx := context.Background()
	if tc.freeze {
		verifclock.Set(1_700_000_000_123_456_789)
	}
	for w := range plans {
		wg.Add(1)
		go func(w int) {
			defer wg.Done()
			for _, x := range plans[w] {
				parts := strings.SplitN(x.key, "/", 2)
				v := viewOfTCB(x.b)
				err := buf.WriteTypedColumnarDirect(ctx, parts[0], parts[1], x.b, v.n)
				accMu.Lock()
				if err == nil {
					acc = append(acc, accepted{x.key, v})
				} else {
					rejected++
				}
				accMu.Unlock()
				if tc.freeze {
					buf.FlushAll(ctx)
				}
			}
		}(w)
	}
	if tc.midFlush {
		wg.Add(1)
		go func() {
			defer wg.Done()
			for i := 0; i < 3; i++ {
				time.Sleep(time.Duration(200+r.Intn(10)) * time.Microsecond)
				buf.FlushAll(ctx)
			}
		}()
	}
	wg.Wait()
	// quiescence: every enqueued task taken and finished
	deadline := time.Now().Add(30 * time.Second)
	for {
		tr.mu.Lock()
		ok := tr.enq == tr.take && tr.take == tr.done
		tr.mu.Unlock()
		if ok || time.Now().After(deadline) {
			break
		}
		time.Sleep(200 * time.Microsecond)
	}
	buf.FlushAll(ctx)
	tr.mu.Lock()
	tr.evs = append(tr.evs, tev{kind: "close"})
	tr.mu.Unlock()
	buf.Close()
	ingest.VerifC03Trace = nil
	verifclock.Real()

	// ---- replay ops for the Lean LTS
	hdr := fmt.Sprintf("lts-new %d", tc.maxBuf)
	c.Op(hdr, "ok")
	canon := []string{label, hdr}
	taken := map[string]int{}
	enqd := map[string][]tev{}
	nfresh := true
	for _, e := range tr.evs {
		hk := hexs(e.key)
		switch e.kind {
		case "append":
			c.Op(fmt.Sprintf("ev-write %s %d %s", hk, e.ids[0], e.spec), "ok")
			canon = append(canon, fmt.Sprintf("w %s %d", e.key, e.ids[0]))
		case "extract":
			c.Op(fmt.Sprintf("ev-extract %s %s", hk, idsText(e.ids)), "ok")
		case "syncextract":
			c.Op(fmt.Sprintf("ev-sync %s %s %s", e.why, hk, idsText(e.ids)), "ok")
			c.Tag("trace:sync-" + e.why)
		case "enq":
			c.Op(fmt.Sprintf("ev-enq %s %s", hk, idsText(e.ids)), "ok")
			enqd[e.key+"|"+idsText(e.ids)] = append(enqd[e.key+"|"+idsText(e.ids)], e)
			c.Tag("trace:enq")
		case "enqfail":
			c.Op(fmt.Sprintf("ev-enqfail %s %s %s", hk, idsText(e.ids), e.why), "ok")
			c.Tag("trace:enqfail-" + e.why)
		case "take":
			c.Op(fmt.Sprintf("ev-take %s %s", hk, idsText(e.ids)), "ok")
			taken[e.key+"|"+idsText(e.ids)]++
		case "store":
			exp := "ok fresh=1"
			if !e.fresh {
				exp = "ok fresh=0"
				nfresh = false
			}
			c.Op(fmt.Sprintf("ev-store %s %s %s %s", hk, e.dir, hexs(e.name), e.spec), exp)
			c.Tag("trace:store")
		case "close":
			c.Op("ev-close", "ok")
		default:
			c.Op("ev-unknown "+e.kind+" "+hexs(e.name), "ok")
		}
	}
	dropped := 0
	for k, es := range enqd {
		for i := taken[k]; i < len(es); i++ {
			c.Op(fmt.Sprintf("ev-dropq %s %s", hexs(es[i].key), idsText(es[i].ids)), "ok")
			dropped++
		}
	}
	dropped += tr.enqfails

	// ---- monitors on the real stored files
	want := map[string]int{}
	nAcc := 0
	for _, a := range acc {
		for i := 0; i < a.v.n; i++ {
			want[a.key+"|"+hourDir(a.v.times[i])+"|"+a.v.nonNullRowText(i)]++
			nAcc++
		}
	}
	paths, data := store.snapshot()
	nSto := 0
	filesOK := true
	replay := fmt.Sprintf("trace case %s seed=%d: writers=%d MaxBufferSize=%d MaxBufferAgeMS=%d FlushWorkers=%d shards=%d keys=%v batches/writer=%d (re-run ./check C03 with VERIF_SEED=%d; inputs are deterministic, the schedule is the Go runtime's)",
		label, c.Seed, tc.writers, tc.maxBuf, tc.ageMS, tc.workers, tc.shards, tc.keys, tc.batchesPer, c.Seed)
	for _, p := range paths {
		key, dir, _, ok := splitPath(p)
		if !ok {
			c.Fail("bad-storage-path:generateStoragePath", "stored path "+p+" is not db/m/YYYY/MM/DD/HH/file", replay)
			continue
		}
		fv, err := decodeParquet(data[p])
		if err != nil {
			c.Fail("stored-file-unreadable:WriteParquetColumnar", p+": "+err.Error(), replay)
			continue
		}
		if !sortedAsc(fv.times) {
			filesOK = false
			if !tc.freeze {
				c.Fail("file-not-time-sorted:ArrowBuffer", "stored file "+p+" is not in non-decreasing time order (default sort keys)", replay)
			}
		}
		for i := 0; i < fv.n; i++ {
			if hd := hourDir(fv.times[i]); hd != dir {
				filesOK = false
				c.Fail("row-in-wrong-hour-dir:ArrowBuffer", fmt.Sprintf("row with time %d (hour dir %s) stored in %s", fv.times[i], hd, p), replay)
			}
			want[key+"|"+dir+"|"+fv.nonNullRowText(i)]--
			nSto++
		}
	}
	eq := true
	for k, n := range want {
		if n == 0 {
			continue
		}
		eq = false
		if dropped > 0 || tc.freeze {
			continue // enqueue failures / deliberate name clash: outside C03's hypotheses
		}
		if n > 0 {
			c.Fail("rows-lost:ArrowBuffer", fmt.Sprintf("accepted row %q stored %d time(s) too few after FlushAll+Close (quiescent, nothing dropped)", trunc(k, 160), n), replay)
		} else {
			c.Fail("rows-duplicated:ArrowBuffer", fmt.Sprintf("row %q stored %d time(s) too many", trunc(k, 160), -n), replay)
		}
	}
	if len(store.clashes) > 0 && !tc.freeze {
		c.Fail("name-clash:generateStoragePath", fmt.Sprintf("two flushes produced the same path %s (time.Now() nanoseconds equal): the second overwrote the first", store.clashes[0]), replay)
	}
	if tr.unknown > 0 {
		c.Fail("trace-unknown-batch:harness", "a traced record is not a batch the harness wrote", replay)
	}
	c.Op("final", fmt.Sprintf("quiescent=true dropped=%d failed=0 files=%d stored_rows=%d accepted_rows=%d stored_eq_accepted=%v files_ok=%v fresh=%v",
		dropped, len(paths), nSto, nAcc, eq, filesOK, nfresh))
	if dropped > 0 {
		c.Tag("trace:excluded-dropped")
	}
	if rejected > 0 {
		c.Tag("trace:write-rejected")
	}
	c.Tag(fmt.Sprintf("trace:writers=%d", tc.writers))
	sort.Strings(canon[2:])
	c.Case(strings.Join(canon, ";"), tc.writers > 1 || tc.midFlush)
	if tc.freeze {
		c.Extra["fresh_names_violation"] = fmt.Sprintf("clock frozen: %d flushes of one partition produced %d distinct path(s); %d rows accepted, %d rows stored — a later flush with the same file name overwrites the earlier file (storage.Write has replace semantics)", len(acc), len(paths), nAcc, nSto)
	}
}

func runTraces(c *vh.Ctx, r *vh.Rand) {
	n := 14
	if c.Thorough() {
		n = 150
	}
	sA := []colDef{{"v", 'i'}, {"host", 's'}}
	sB := []colDef{{"v", 'f'}, {"host", 's'}} // type change of v
	sC := []colDef{{"v", 'i'}, {"host", 's'}, {"ok", 'b'}}
	sD := []colDef{{"a", 'f'}, {"dcol", 'd'}}
	sE := []colDef{}
	all := [][]colDef{sA, sB, sC, sD, sE}
	for i := 0; i < n; i++ {
		tc := traceCase{
			writers: 1 + r.Intn(8), maxBuf: vh.Pick(r, []int{1, 3, 10, 40, 200, 100000}),
			ageMS: vh.Pick(r, []int{1, 3, 20, 100000}), workers: 1 + r.Intn(4), shards: vh.Pick(r, []int{1, 2, 8}),
			batchesPer: 3 + r.Intn(8), rowsMax: vh.Pick(r, []int{1, 4, 30}), midFlush: r.Chance(40),
		}
		nk := 1 + r.Intn(3)
		for k := 0; k < nk; k++ {
			tc.keys = append(tc.keys, fmt.Sprintf("db%d/m%d", k%2, k))
		}
		ns := 1 + r.Intn(3)
		for k := 0; k < ns; k++ {
			tc.schemas = append(tc.schemas, vh.Pick(r, all))
		}
		if i == 0 {
			tc.writers, tc.midFlush = 1, false
		}
		if i == 1 { // radix path inside the real buffer: large unsorted batches, size-triggered flush
			tc.bigRows, tc.maxBuf, tc.batchesPer, tc.writers, tc.schemas, tc.ageMS = 1500, 4300, 4, 2, [][]colDef{sA}, 100000
			tc.keys = tc.keys[:1]
		}
		runOneTrace(c, r, tc, fmt.Sprintf("t%d", i))
	}
	// FreshNames demonstration (not a finding: the clock is frozen on purpose)
	runOneTrace(c, r, traceCase{writers: 1, maxBuf: 100000, ageMS: 100000, workers: 1, shards: 1,
		keys: []string{"db0/m0"}, schemas: [][]colDef{sA}, batchesPer: 2, rowsMax: 3, freeze: true}, "freeze")
}
