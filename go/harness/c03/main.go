//go:build verif

// C03 harness. Part A: differential correspondence of the pure flush pipeline (HourBucketID,
// groupByHour, permuteByTime / radixPermuteByTime, mergeBatches, sort/slice of typed batches, and the
// whole flushPartitionedData through the real Parquet writer + arrow-go reader) against the Lean
// model. Part B (trace.go): the real ArrowBuffer under 1–8 writer goroutines; the recorded critical
// section trace is replayed through the Lean LTS and property monitors check the stored files.
package main

import (
	"context"
	"fmt"
	"math"
	"sort"
	"strconv"
	"strings"
	"time"

	"github.com/basekick-labs/arc/internal/config"
	"github.com/basekick-labs/arc/internal/ingest"
	"github.com/basekick-labs/arc/internal/verif/vh"
	"github.com/rs/zerolog"
)

func baseCfg() *config.IngestConfig {
	return &config.IngestConfig{
		MaxBufferSize: 1 << 30, MaxBufferAgeMS: 3600_000, Compression: "snappy",
		WriteStatistics: true, DataPageVersion: "2.0",
		FlushWorkers: 1, FlushQueueSize: 16, ShardCount: 4,
		DefaultDecimalColumns: "dcol=24,4",
	}
}

func joinI64(ts []int64) string {
	if len(ts) == 0 {
		return "-"
	}
	var sb strings.Builder
	for i, t := range ts {
		if i > 0 {
			sb.WriteByte(',')
		}
		sb.WriteString(strconv.FormatInt(t, 10))
	}
	return sb.String()
}

func hashInts(xs []int) string {
	h := fnvOff
	for _, x := range xs {
		h = fnvAdd(h, strconv.Itoa(x))
	}
	return fmt.Sprintf("%016x", h)
}

func sortPathOf(ts []int64, thr int) string {
	switch {
	case len(ts) == 0:
		return "empty"
	case sortedAsc(ts):
		return "sorted"
	case len(ts) < thr:
		return "cmp"
	}
	return "radix"
}

type pure struct {
	c     *vh.Ctx
	r     *vh.Rand
	buf   *ingest.ArrowBuffer
	store *memStore
	thr   int
}

func (p *pure) opHour(t int64) {
	out := vh.Guard(func() string {
		h := ingest.HourBucketID(t)
		p1 := p.buf.VerifC03StoragePath("d", "m", time.UnixMicro(t).UTC())
		p2 := p.buf.VerifC03StoragePath("d", "m", ingest.VerifC03HourIDToTime(h))
		_, d1, _, _ := splitPath(p1)
		_, d2, _, _ := splitPath(p2)
		if want := hourDir(t); d1 != want || d2 != want {
			p.c.Fail("wrong-hour-dir:generateStoragePath", fmt.Sprintf("timestamp %dµs lies in hour directory %s but the flush path is %s (single-hour branch) / %s (multi-hour branch)", t, want, d1, d2), fmt.Sprintf("hour %d", t))
		}
		return fmt.Sprintf("%d %s %s", h, d1, d2)
	})
	p.c.Op(fmt.Sprintf("hour %d", t), out)
}

func (p *pure) opHour64(t int64) {
	h := ingest.HourBucketID(t)
	p.c.Op(fmt.Sprintf("hour64 %d", t), fmt.Sprintf("%d %d", h, ingest.VerifC03HourIDToTime(h).UnixMicro()))
}

func (p *pure) opGroup(ts []int64) {
	out := vh.Guard(func() string {
		bks, mn, mx, err := ingest.VerifC03GroupByHour(ts)
		if err != nil {
			return "err:empty"
		}
		sort.Slice(bks, func(i, j int) bool { return bks[i].HourID < bks[j].HourID })
		parts := []string{fmt.Sprintf("k=%d min=%d max=%d", len(bks), mn, mx)}
		seen := make([]int, len(ts))
		for _, b := range bks {
			parts = append(parts, fmt.Sprintf("%d:%d:%s:%d:%d", b.HourID, len(b.Indices), hashInts(b.Indices), b.Min, b.Max))
			for _, i := range b.Indices {
				if i < 0 || i >= len(ts) {
					p.c.Fail("group-index-out-of-range:groupByHour", "bucket index out of range", "group "+joinI64(ts))
					continue
				}
				seen[i]++
				if floorDiv(ts[i], mph) != b.HourID {
					p.c.Fail("row-in-wrong-hour-bucket:groupByHour", fmt.Sprintf("row %d (t=%d, hour %d) placed in bucket %d", i, ts[i], floorDiv(ts[i], mph), b.HourID), "group "+joinI64(ts))
				}
			}
		}
		for i, k := range seen {
			if k != 1 {
				p.c.Fail("row-not-in-exactly-one-bucket:groupByHour", fmt.Sprintf("row %d is in %d buckets", i, k), "group "+joinI64(ts))
			}
		}
		return strings.Join(parts, " ")
	})
	p.c.Op("group "+joinI64(ts), out)
}

func applyPermI64(ts []int64, ix []int) []int64 {
	out := make([]int64, len(ix))
	for i, j := range ix {
		out[i] = ts[j]
	}
	return out
}

func (p *pure) checkPerm(what string, ts []int64, ix []int, stable bool) {
	if ix == nil {
		return
	}
	replay := what + " " + joinI64(ts)
	if len(replay) > 4000 {
		replay = replay[:4000] + "…"
	}
	seen := make([]bool, len(ts))
	if len(ix) != len(ts) {
		p.c.Fail("sort-not-a-permutation:"+what, "permutation length differs", replay)
		return
	}
	for k, j := range ix {
		if j < 0 || j >= len(ts) || seen[j] {
			p.c.Fail("sort-not-a-permutation:"+what, "index repeated or out of range", replay)
			return
		}
		seen[j] = true
		if k > 0 {
			a, b := ts[ix[k-1]], ts[j]
			if a > b {
				p.c.Fail("sort-not-sorted:"+what, fmt.Sprintf("position %d: %d before %d", k, a, b), replay)
				return
			}
			if stable && a == b && ix[k-1] > j {
				p.c.Fail("sort-not-stable:"+what, fmt.Sprintf("equal timestamps %d: row %d before row %d", a, ix[k-1], j), replay)
				return
			}
		}
	}
}

func (p *pure) opPerm(ts []int64) {
	out := vh.Guard(func() string {
		ix := ingest.VerifC03PermuteByTime(ts)
		path := sortPathOf(ts, p.thr)
		p.c.Tag("perm:" + path)
		if ix == nil {
			if path != "empty" && path != "sorted" {
				p.c.Fail("sort-not-sorted:permuteByTime", "nil permutation for unsorted input", "perm "+joinI64(ts))
			}
			return fmt.Sprintf("path=%s times=%016x exact=nil", path, hashLines(strsI64(ts)))
		}
		p.checkPerm("permuteByTime", ts, ix, path == "radix")
		ex := "-"
		if path == "radix" {
			ex = hashInts(ix)
		}
		return fmt.Sprintf("path=%s times=%016x exact=%s", path, hashLines(strsI64(applyPermI64(ts, ix))), ex)
	})
	p.c.Op("perm "+joinI64(ts), out)
}

func strsI64(ts []int64) []string {
	out := make([]string, len(ts))
	for i, t := range ts {
		out[i] = strconv.FormatInt(t, 10)
	}
	return out
}

func (p *pure) opRadix(ts []int64) {
	out := vh.Guard(func() string {
		ix := ingest.VerifC03RadixPermuteByTime(ts)
		if ix == nil {
			return "nil"
		}
		p.checkPerm("radixPermuteByTime", ts, ix, true)
		return fmt.Sprintf("times=%016x exact=%s", hashLines(strsI64(applyPermI64(ts, ix))), hashInts(ix))
	})
	p.c.Op("radix "+joinI64(ts), out)
}

func (p *pure) opBias(t int64) {
	p.c.Op(fmt.Sprintf("bias %d", t), strconv.FormatUint(ingest.VerifC03RadixSortBias(t), 10))
}

func (p *pure) push(t *ingest.TypedColumnBatch) view {
	v := viewOfTCB(t)
	p.c.Op("b "+v.spec(), fmt.Sprintf("ok n=%d", v.n))
	return v
}

func mergeErr(s string) string {
	switch {
	case strings.HasPrefix(s, "err:") && strings.Contains(s, "changes type between batches"):
		return "err:type-conflict"
	case strings.HasPrefix(s, "panic:") && strings.Contains(s, "interface conversion"):
		return "err:type-panic" // the pre-d29da22 behaviour; the model now says err:type-conflict
	case strings.HasPrefix(s, "panic:"):
		return "err:" + s
	}
	return s
}

func (p *pure) opMerge(bs []*ingest.TypedColumnBatch) {
	var views []view
	for _, b := range bs {
		views = append(views, p.push(b))
	}
	out := mergeErr(vh.Guard(func() string {
		in := make([]interface{}, len(bs))
		for i, b := range bs {
			in[i] = b
		}
		m, err := p.buf.VerifC03MergeBatches(in)
		if err != nil {
			if strings.Contains(err.Error(), "no batches") {
				return "err:no-batches"
			}
			return "err:" + err.Error()
		}
		mv := viewOfTCB(m)
		// monitor: every value and null of every input row is in the merged batch, in arrival order
		var want []string
		for _, v := range views {
			for i := 0; i < v.n; i++ {
				want = append(want, v.nonNullRowText(i))
			}
		}
		bad := mv.n != len(want)
		for i := 0; !bad && i < mv.n; i++ {
			bad = mv.nonNullRowText(i) != want[i]
		}
		if bad {
			p.c.Fail("merge-changes-rows:mergeBatches", "merged batch is not the concatenation of the buffered rows (values/nulls)", p.replayOf(views, "merge"))
		}
		return mv.canon(true)
	}))
	if strings.HasPrefix(out, "err:") {
		p.c.Tag("merge:" + out)
	} else {
		p.c.Tag(fmt.Sprintf("merge:ok/%d", len(bs)))
	}
	p.c.Op("merge", out)
}

func (p *pure) replayOf(vs []view, op string) string {
	var sb strings.Builder
	for _, v := range vs {
		s := v.spec()
		if len(s) > 1500 {
			s = s[:1500] + "…"
		}
		sb.WriteString("b " + s + " | ")
	}
	sb.WriteString(op)
	return sb.String()
}

func (p *pure) opSort(b *ingest.TypedColumnBatch) {
	v := p.push(b)
	path := sortPathOf(v.times, p.thr)
	p.c.Tag("sort:" + path)
	out := vh.Guard(func() string {
		s := ingest.VerifC03SortBatch(b, p.buf.VerifC03SortKeys("m"))
		sv := viewOfTCB(s)
		if !sortedAsc(sv.times) {
			p.c.Fail("file-not-time-sorted:sortTypedColumnBatchByKeys", "batch not in non-decreasing time order after the default sort", p.replayOf([]view{v}, "sort"))
		}
		if !sameMultiset(v, sv) {
			p.c.Fail("sort-changes-rows:sortTypedColumnBatchByKeys", "sorting changed the multiset of rows (values/nulls)", p.replayOf([]view{v}, "sort"))
		}
		return sv.canon(path != "cmp") + " path=" + path
	})
	p.c.Op("sort", out)
}

func sameMultiset(a, b view) bool {
	if a.n != b.n {
		return false
	}
	m := map[string]int{}
	for i := 0; i < a.n; i++ {
		m[a.nonNullRowText(i)]++
	}
	for i := 0; i < b.n; i++ {
		m[b.nonNullRowText(i)]--
	}
	for _, k := range m {
		if k != 0 {
			return false
		}
	}
	return true
}

func (p *pure) opSlice(b *ingest.TypedColumnBatch, ix []int) {
	p.push(b)
	parts := make([]string, len(ix))
	for i, x := range ix {
		parts[i] = strconv.Itoa(x)
	}
	arg := strings.Join(parts, ",")
	if arg == "" {
		arg = "-"
	}
	out := vh.Guard(func() string {
		return viewOfTCB(ingest.VerifC03SliceBatch(b, ix)).canon(true)
	})
	p.c.Op("slice "+arg, out)
}

// opFlush: mergeBatches + the real flushPartitionedData (Parquet writer) into the capturing store;
// files are decoded with the arrow-go reader.
func (p *pure) opFlush(bs []*ingest.TypedColumnBatch) {
	var views []view
	for _, b := range bs {
		views = append(views, p.push(b))
	}
	p.store.reset()
	out := mergeErr(vh.Guard(func() string {
		in := make([]interface{}, len(bs))
		for i, b := range bs {
			in[i] = b
		}
		m, err := p.buf.VerifC03MergeBatches(in)
		if err != nil {
			if strings.Contains(err.Error(), "changes type between batches") {
				return "err:type-conflict"
			}
			return "err:merge"
		}
		n := 0
		if tc, ok := m.Data["time"].([]int64); ok {
			n = len(tc)
		}
		if err := p.buf.VerifC03Flush(context.Background(), "db", "m", m, n); err != nil {
			if strings.Contains(err.Error(), "no time data") {
				return "err:no-time"
			}
			return "err:" + strings.ReplaceAll(err.Error(), "\n", " ")
		}
		paths, data := p.store.snapshot()
		var parts []string
		want := map[string]int{}
		for _, v := range views {
			for i := 0; i < v.n; i++ {
				want[hourDir(v.times[i])+"|"+v.nonNullRowText(i)]++
			}
		}
		type fo struct{ dir, txt string }
		var fos []fo
		for _, pth := range paths {
			key, dir, _, ok := splitPath(pth)
			if !ok || key != "db/m" {
				return "err:bad-path:" + pth
			}
			fv, err := decodeParquet(data[pth])
			if err != nil {
				return "err:decode:" + err.Error()
			}
			if !sortedAsc(fv.times) {
				p.c.Fail("file-not-time-sorted:flushPartitionedData", "stored file "+pth+" is not in non-decreasing time order", p.replayOf(views, "flush"))
			}
			for i := 0; i < fv.n; i++ {
				want[dir+"|"+fv.nonNullRowText(i)]--
			}
			fos = append(fos, fo{dir, fv.canon(false)})
		}
		for k, cnt := range want {
			if cnt != 0 {
				p.c.Fail("rows-not-stored-exactly-once:flushPartitionedData", fmt.Sprintf("row (hour dir|row) %q: accepted minus stored = %d", trunc(k, 200), cnt), p.replayOf(views, "flush"))
				break
			}
		}
		sort.Slice(fos, func(i, j int) bool { return fos[i].dir < fos[j].dir })
		parts = append(parts, fmt.Sprintf("files=%d", len(fos)))
		for _, f := range fos {
			parts = append(parts, f.dir+"|"+strings.ReplaceAll(f.txt, " ", "|"))
		}
		return strings.Join(parts, " ")
	}))
	p.c.Op("flush", out)
}

func trunc(s string, n int) string {
	if len(s) > n {
		return s[:n] + "…"
	}
	return s
}

func (p *pure) run() {
	c, r := p.c, p.r
	thorough := c.Thorough()
	scale := 1
	if thorough {
		scale = 8
	}
	// ---- hour ids and directories: edge grid, then random (years 1..9999)
	for _, a := range anchors {
		base := floorDiv(a, mph) * mph
		for _, d := range []int64{-mph - 1, -mph, -mph + 1, -1, 0, 1, mph - 1, mph, mph + 1, 24*mph - 1, 24 * mph} {
			p.opHour(base + d)
		}
	}
	for i := 0; i < 200*scale; i++ {
		p.opHour(int64(r.U64()%uint64(315e15)) - 62e15) // ~year 5 … ~year 9990
	}
	for _, t := range []int64{math.MinInt64, math.MinInt64 + 1, math.MinInt64 + mph, math.MinInt64 + 2*mph, math.MaxInt64, math.MaxInt64 - mph, -mph * 2562047788, 0, -1} {
		p.opHour64(t)
	}
	for i := 0; i < 100*scale; i++ {
		p.opHour64(int64(r.U64()))
	}
	for _, t := range []int64{0, 1, -1, math.MinInt64, math.MaxInt64, 255, 256, -256, 1 << 32, -(1 << 32)} {
		p.opBias(t)
	}
	for i := 0; i < 50*scale; i++ {
		p.opBias(int64(r.U64()))
	}
	// ---- groupByHour
	p.opGroup(nil)
	for i := 0; i < 60*scale; i++ {
		n := vh.Pick(r, []int{1, 2, 3, 7, 50, 300})
		ts := genTimes(r, n)
		p.opGroup(ts)
		c.Case("group "+joinI64(ts), true)
	}
	// ---- time sort: small (comparison path), direct radix on small inputs, and >= threshold
	p.opPerm(nil)
	for i := 0; i < 80*scale; i++ {
		ts := genTimes(r, vh.Pick(r, []int{1, 2, 3, 5, 17, 100, 1000}))
		p.opPerm(ts)
		c.Case("perm "+joinI64(ts), !sortedAsc(ts))
	}
	for i := 0; i < 80*scale; i++ {
		n := vh.Pick(r, []int{1, 2, 3, 8, 33, 257, 700})
		ts := genTimes(r, n)
		if r.Chance(30) { // full-range keys: every byte position matters, both signs
			for j := range ts {
				ts[j] = int64(r.U64())
			}
		}
		if r.Chance(20) { // keys that differ in exactly one byte
			sh := uint(8 * r.Intn(8))
			for j := range ts {
				ts[j] = int64(uint64(r.Intn(256)) << sh)
			}
		}
		p.opRadix(ts)
		c.Case("radix "+joinI64(ts), true)
	}
	big := 3 * scale
	for i := 0; i < big; i++ {
		n := p.thr + r.Intn(600)
		if i%3 == 1 {
			n = p.thr // exactly at the threshold
		}
		ts := genTimes(r, n)
		p.opPerm(ts)
		c.Case(fmt.Sprintf("permbig %d %016x", n, hashLines(strsI64(ts))), !sortedAsc(ts))
	}
	{
		ts := genTimes(r, p.thr-1) // just below: comparison path
		p.opPerm(ts)
	}
	// ---- mergeBatches
	p.opMerge(nil)
	for i := 0; i < 60*scale; i++ {
		k := vh.Pick(r, []int{1, 2, 2, 3, 5})
		// union schema with consistent types; each batch takes a subset (sparse columns), sometimes
		// plus internal columns, sometimes (rarely) an internal column whose type differs → merge error
		full := genSchema(r, true)
		var bs []*ingest.TypedColumnBatch
		for j := 0; j < k; j++ {
			var s []colDef
			for _, cd := range full {
				if r.Chance(75) {
					s = append(s, cd)
				}
			}
			if r.Chance(25) {
				s = append(s, colDef{"_meta", 's'})
			}
			if r.Chance(6) {
				s = append(s, colDef{"_x", vh.Pick(r, poolTys)})
			}
			bs = append(bs, genBatch(r, s, genTimes(r, vh.Pick(r, []int{0, 1, 2, 5, 20}))))
		}
		p.opMerge(bs)
		c.Case(fmt.Sprintf("merge#%d/%d", i, k), k > 1)
	}
	// ---- sort / slice of typed batches (validity aligned)
	for i := 0; i < 50*scale; i++ {
		b := genBatch(r, genSchema(r, true), genTimes(r, vh.Pick(r, []int{1, 2, 9, 64, 500})))
		p.opSort(b)
		c.Case(fmt.Sprintf("sort#%d", i), true)
	}
	for i := 0; i < 2*scale; i++ {
		sch := genSchema(r, false)
		b := genBatch(r, sch[:min(2, len(sch))], genTimes(r, p.thr+r.Intn(300)))
		p.opSort(b)
		c.Case(fmt.Sprintf("sortbig#%d", i), true)
	}
	for i := 0; i < 40*scale; i++ {
		n := vh.Pick(r, []int{1, 3, 10, 40})
		b := genBatch(r, genSchema(r, true), genTimes(r, n))
		m := r.Intn(n + 3)
		ix := make([]int, m)
		for j := range ix {
			ix[j] = r.Intn(n)
		}
		sort.Ints(ix)
		p.opSlice(b, ix)
	}
	// ---- whole flush through the real Parquet writer
	for i := 0; i < 40*scale; i++ {
		k := vh.Pick(r, []int{1, 1, 2, 3})
		full := genSchema(r, true)
		var bs []*ingest.TypedColumnBatch
		for j := 0; j < k; j++ {
			s := full
			if r.Chance(20) {
				s = append(append([]colDef{}, full...), colDef{"_meta", 's'})
			}
			bs = append(bs, genBatch(r, s, genTimes(r, vh.Pick(r, []int{1, 2, 6, 30, 200}))))
		}
		p.opFlush(bs)
		c.Case(fmt.Sprintf("flush#%d/%d", i, k), true)
	}
	for i := 0; i < 1*scale; i++ {
		b := genBatch(r, []colDef{{"a", 'i'}, {"host", 's'}}, genTimes(r, p.thr+100+r.Intn(200)))
		p.opFlush([]*ingest.TypedColumnBatch{b})
		c.Case(fmt.Sprintf("flushbig#%d", i), true)
	}
}

func main() {
	c := vh.Start()
	r := vh.NewRand(c.Seed)
	zerolog.SetGlobalLevel(zerolog.Disabled)
	thr := ingest.VerifC03RadixSkipThreshold()
	if f, ok := c.Facts["radix_skip_threshold"].(float64); ok && int(f) != thr {
		fmt.Println("factgen radix threshold differs from the linked constant")
	}
	store := newMemStore()
	buf := ingest.NewArrowBuffer(baseCfg(), store, zerolog.Nop())
	p := &pure{c: c, r: r, buf: buf, store: store, thr: thr}
	p.run()
	buf.Close()

	probeSchemaCacheCollision(c)

	runTraces(c, r.Fork())

	c.Finish("cases = (a) pure-function inputs: timestamp lists (edge grids around hour boundaries of 9 anchors incl. the epoch and pre-1970, random; sizes up to radixSkipThreshold+600) and lists of random typed batches (sparse/all-null/validity-without-nulls columns, internal columns, multi-hour) pushed through mergeBatches / sort / slice / the whole flushPartitionedData+Parquet round trip; (b) concurrent runs of the real ArrowBuffer (1–8 writers, random MaxBufferSize/MaxBufferAgeMS/FlushWorkers, schema changes) whose critical-section trace is replayed through the Lean LTS; non-trivial = unsorted input / more than one batch / more than one writer or flush kind; distinct = distinct case text")
}

// probeSchemaCacheCollision: two writes to one measurement whose column-name lists differ but render
// to the same text under fmt's %v ("[a b c]"): ArrowWriter.getSchema builds its cache key with
// fmt.Sprintf("%s:%v:%v:%v:%t", measurement, colNames, typeNames, tagColumns, dedupTime), so the second
// flush gets the first batch's cached schema, WriteParquetColumnar fails with "column a b not found
// in data", and the accepted rows are not stored. Monitor only (the Parquet writer is not modelled).
func probeSchemaCacheCollision(c *vh.Ctx) {
	store := newMemStore()
	buf := ingest.NewArrowBuffer(baseCfg(), store, zerolog.Nop())
	defer buf.Close()
	ctx := context.Background()
	t1 := []int64{1_700_000_000_000_000, 1_700_000_000_000_001}
	// getSchema ranges over the column map, so the order inside the key is random per call: repeat the
	// first shape until (with overwhelming probability) all 6 orders of its 3 names are cached
	const reps = 40
	var e1, e1f error
	for i := 0; i < reps; i++ {
		b1 := &ingest.TypedColumnBatch{Data: map[string]interface{}{"time": t1, "a b": []int64{1, 2}, "c": []int64{3, 4}}}
		if err := buf.WriteTypedColumnarDirect(ctx, "db", "m", b1, 2); err != nil {
			e1 = err
		}
		if err := buf.FlushAll(ctx); err != nil {
			e1f = err
		}
	}
	// … and the second shape too: 2 of its 6 orders render like a cached order of the first shape
	var e2, e2f error
	for i := 0; i < reps; i++ {
		b2 := &ingest.TypedColumnBatch{Data: map[string]interface{}{"time": t1, "a": []int64{5, 6}, "b c": []int64{7, 8}}}
		if err := buf.WriteTypedColumnarDirect(ctx, "db", "m", b2, 2); err != nil {
			e2 = err
		}
		if err := buf.FlushAll(ctx); err != nil {
			e2f = err
		}
	}
	paths, data := store.snapshot()
	stored := 0
	for _, p := range paths {
		if fv, err := decodeParquet(data[p]); err == nil {
			stored += fv.n
		}
	}
	const want = 4 * reps
	if stored == want {
		c.Tag("probe:schema-cache-collision:all-stored")
	} else {
		c.Tag("probe:schema-cache-collision:rows-lost")
	}
	if e1 == nil && e2 == nil && stored != want {
		c.Fail("rows-lost:schema-cache-key-collision:getSchema",
			fmt.Sprintf("two accepted writes to db/m with columns {time,\"a b\",c} then {time,a,\"b c\"}: only %d of %d rows stored after FlushAll (first-shape flush err=%v, second-shape flush err=%v) — the schema cache key renders both name lists as [a b c time]-style %%v text", stored, want, e1f, e2f),
			`40x {WriteTypedColumnarDirect(db,m,{time:[1700000000000000,1700000000000001],"a b":[1,2],c:[3,4]}); FlushAll}; 40x {WriteTypedColumnarDirect(db,m,{time:[…],a:[5,6],"b c":[7,8]}); FlushAll}  => about a third of the second-shape flushes: "failed to write Parquet: column a b not found in data"`)
	}
}
