//go:build verif

// C23 correspondence harness: role-assignment consistency (one primary, primaryWriterID names an
// existing node marked primary, re-registration preserves the recorded role) and RBAC parent
// existence on the real ClusterFSM, diffed line by line against the Lean model (drive_c23).
package main

import (
	craft "github.com/basekick-labs/arc/internal/cluster/raft"
	"github.com/basekick-labs/arc/internal/verif/vh"
)

func nd(id, role, ws string) craft.NodeInfo {
	return craft.NodeInfo{ID: id, Name: "N" + id, Role: role, ClusterName: "c", Address: id + ":7000", APIAddress: id + ":8000",
		State: "healthy", Version: "v1", WriterState: ws, CoreCount: 4}
}

type exhCtx struct{ tok, org, team, role, mperm int64 }
type letter struct {
	name string
	mk   func(x *exhCtx, idx int64) op
	made func(x *exhCtx, idx int64)
}

func nodeAlphabet() []letter {
	k := func(o op) func(*exhCtx, int64) op { return func(*exhCtx, int64) op { return o } }
	return []letter{
		{"join-n1", k(opAddNode(nd("n1", "writer", ""))), nil}, // what handleJoinRequest proposes
		{"join-n2", k(opAddNode(nd("n2", "writer", ""))), nil},
		{"join-n3-reader", k(opAddNode(nd("n3", "reader", ""))), nil},
		{"add-n2-primary", k(opAddNode(nd("n2", "writer", "primary"))), nil},
		{"upd-n1-standby", k(opUpdNode(nd("n1", "writer", "standby"))), nil},
		{"upd-n2-primary", k(opUpdNode(nd("n2", "writer", "primary"))), nil},
		{"leave-n1", k(opRmNode("n1")), nil},
		{"promote-n1", k(opPromote("n1", "")), nil},
		{"promote-n2", k(opPromote("n2", "n1")), nil},
		{"promote-n3", k(opPromote("n3", "")), nil},
		{"promote-n4-unknown", k(opPromote("n4", "n1")), nil},
		{"demote-n1", k(opDemote("n1")), nil},
		{"demote-n4-unknown", k(opDemote("n4")), nil},
		{"state-n1", k(opNodeState("n1", "unhealthy")), nil},
		{"compactor-n2", k(opCompactor("n2", "")), nil},
	}
}

func rbacAlphabet() []letter {
	return []letter{
		{"mkorg", func(x *exhCtx, i int64) op {
			return opMkOrg(craft.OrganizationEntry{Name: "acme", CreatedAtUnixNano: 5})
		}, func(x *exhCtx, i int64) { x.org = i }},
		{"mkorg2", func(x *exhCtx, i int64) op {
			return opMkOrg(craft.OrganizationEntry{Name: "globex", CreatedAtUnixNano: 5})
		}, func(x *exhCtx, i int64) { x.org = i }},
		{"mkteam", func(x *exhCtx, i int64) op {
			return opMkTeam(craft.TeamEntry{OrganizationID: x.org, Name: "core", CreatedAtUnixNano: 5})
		}, func(x *exhCtx, i int64) { x.team = i }},
		{"mkrole", func(x *exhCtx, i int64) op {
			return opMkRole(craft.RoleEntry{TeamID: x.team, DatabasePattern: "*", Permissions: "read", CreatedAtUnixNano: 5})
		}, func(x *exhCtx, i int64) { x.role = i }},
		{"mkmperm", func(x *exhCtx, i int64) op {
			return opMkMPerm(craft.MeasurementPermissionEntry{RoleID: x.role, MeasurementPattern: "cpu", Permissions: "read", CreatedAtUnixNano: 5})
		}, func(x *exhCtx, i int64) { x.mperm = i }},
		{"mktoken", func(x *exhCtx, i int64) op {
			return opMkToken(craft.TokenEntry{Name: "tA", TokenHash: "h", TokenPrefix: "p", CreatedAtUnixNano: 5})
		}, func(x *exhCtx, i int64) { x.tok = i }},
		{"addmem", func(x *exhCtx, i int64) op {
			return opAddMem(craft.TokenMembershipEntry{TokenID: x.tok, TeamID: x.team, CreatedAtUnixNano: 5})
		}, nil},
		{"delorg", func(x *exhCtx, i int64) op { return opDelOrg(x.org) }, nil},
		{"delteam", func(x *exhCtx, i int64) op { return opDelTeam(x.team) }, nil},
		{"delrole", func(x *exhCtx, i int64) op { return opDelRole(x.role) }, nil},
		{"deltoken", func(x *exhCtx, i int64) op { return opDelToken(x.tok) }, nil},
		{"rmmem", func(x *exhCtx, i int64) op { return opRmMem(x.tok, x.team) }, nil},
	}
}

// enumerate runs every sequence of n letters of alpha after the fixed prefix (ids are resolved while
// the sequence is built against a scratch FSM).
func enumerate(c *vh.Ctx, alpha []letter, n int, cfg runCfg, prefix ...letter) int {
	count := 0
	seq := make([]int, n)
	var rec func(d int)
	rec = func(d int) {
		if d == n {
			x := &exhCtx{}
			scratch := newFSM()
			var ops []op
			all := append([]letter(nil), prefix...)
			for _, li := range seq {
				all = append(all, alpha[li])
			}
			for i, l := range all {
				idx := int64(i + 1)
				o := l.mk(x, idx)
				ops = append(ops, o)
				if applyOp(scratch, uint64(idx), o) == "ok" && l.made != nil {
					l.made(x, idx)
				}
			}
			runCase(c, ops, cfg)
			count++
			return
		}
		for i := range alpha {
			seq[d] = i
			rec(d + 1)
		}
	}
	rec(0)
	return count
}

var c23Kinds = map[string]int{
	"addnode": 14, "updnode": 6, "rmnode": 6, "nodestate": 4, "promote": 14, "demote": 6, "compactor": 4,
	"mktoken": 5, "deltoken": 3,
	"mkorg": 6, "updorg": 2, "delorg": 4, "mkteam": 7, "updteam": 2, "delteam": 4,
	"mkrole": 6, "updrole": 1, "delrole": 3, "mkmperm": 5, "delmperm": 2, "addmem": 6, "rmmem": 3,
	"malformed": 1, "unknown": 1,
}

func main() {
	c := vh.Start()
	r := vh.NewRand(c.Seed)
	full := runCfg{c23: true, snapEvery: true}

	// (1) directed: the DESIGN.md §7 C23 candidates, as produced by real cluster traffic
	directed := [][]op{
		// promote, then the primary restarts and rejoins (handleJoinRequest proposes writer_state "")
		{opAddNode(nd("n1", "writer", "")), opAddNode(nd("n2", "writer", "")), opPromote("n1", ""), opAddNode(nd("n1", "writer", ""))},
		// promote a node id that is not registered (failover racing with a leave)
		{opAddNode(nd("n1", "writer", "")), opPromote("n1", ""), opPromote("n4", "n1")},
		// the primary leaves
		{opAddNode(nd("n1", "writer", "")), opPromote("n1", ""), opRmNode("n1"), opAddNode(nd("n1", "writer", ""))},
		// node payloads carrying writer_state=primary
		{opAddNode(nd("n1", "writer", "primary")), opAddNode(nd("n2", "writer", "primary"))},
		{opAddNode(nd("n1", "writer", "")), opAddNode(nd("n2", "writer", "")), opPromote("n1", ""), opUpdNode(nd("n2", "writer", "primary")), opPromote("n2", "n1")},
		{opAddNode(nd("n1", "reader", "")), opPromote("n1", ""), opDemote("n1"), opDemote(""), opPromote("", "")},
	}
	org := func(n string) op { return opMkOrg(craft.OrganizationEntry{Name: n, CreatedAtUnixNano: 5}) }
	team := func(o int64, n string) op {
		return opMkTeam(craft.TeamEntry{OrganizationID: o, Name: n, CreatedAtUnixNano: 5})
	}
	role := func(t int64) op {
		return opMkRole(craft.RoleEntry{TeamID: t, DatabasePattern: "*", Permissions: "read", CreatedAtUnixNano: 5})
	}
	mperm := func(r int64) op {
		return opMkMPerm(craft.MeasurementPermissionEntry{RoleID: r, MeasurementPattern: "cpu", Permissions: "read", CreatedAtUnixNano: 5})
	}
	tkn := func(n string) op {
		return opMkToken(craft.TokenEntry{Name: n, TokenHash: "h", TokenPrefix: "p", CreatedAtUnixNano: 5})
	}
	mem := func(t, tm int64) op {
		return opAddMem(craft.TokenMembershipEntry{TokenID: t, TeamID: tm, CreatedAtUnixNano: 5})
	}
	// ids = log indexes: org 1, teams 2,3, roles 4,5, mperms 6,7, tokens 8,9, memberships 10..12
	hier := []op{org("acme"), team(1, "core"), team(1, "ops"), role(2), role(3), mperm(4), mperm(5), tkn("tA"), tkn("tB"), mem(8, 2), mem(8, 3), mem(9, 2)}
	for _, tail := range [][]op{
		{opDelTeam(2), opDelOrg(1)},
		{opDelOrg(1), team(1, "core")},
		{opDelToken(8), opDelTeam(3), opDelRole(4), opDelMPerm(7), opRmMem(9, 2)},
		{opDelRole(4), opDelRole(5), opDelTeam(2), opDelToken(9), opDelOrg(1)},
		{opUpdTeam(2, "ops", "", false, 0, []string{"name"}), opUpdTeam(2, "zeta", "", false, 0, []string{"name"}), opDelTeam(3), team(1, "ops"), opDelOrg(1)},
	} {
		directed = append(directed, append(append([]op(nil), hier...), tail...))
	}
	directed = append(directed, membershipDirected()...)
	for _, rc := range emptyComponentDirected() {
		cfg := full
		cfg.replayAt = rc.at
		runCase(c, rc.ops, cfg)
	}
	directed = append(directed, limitDirected()...)
	for _, ops := range directed {
		cfg := full
		for k := 1; k < len(ops); k++ {
			cfg.holdAt = append(cfg.holdAt, k)
		}
		runCase(c, ops, cfg)
	}

	// (2) exhaustive: all node/role command sequences up to the bound, all RBAC create/delete orders
	nl, rl := 3, 4
	if c.Thorough() {
		nl, rl = 4, 5
	}
	exh := 0
	na, ra := nodeAlphabet(), rbacAlphabet()
	for n := 1; n <= nl; n++ {
		exh += enumerate(c, na, n, runCfg{c23: true, quiet: true})
	}
	for n := 1; n <= rl; n++ {
		exh += enumerate(c, ra, n, runCfg{c23: true, quiet: true})
	}
	// the same alphabet after a prefix that builds org → team → role → mperm, token → membership,
	// so that every order of cascading deletes / re-creates is reached within the bound
	for n := 1; n <= rl-1; n++ {
		exh += enumerate(c, ra, n, runCfg{c23: true, quiet: true}, ra[0], ra[2], ra[3], ra[4], ra[5], ra[6])
	}
	ml := 3
	if c.Thorough() {
		ml = 5
	}
	for n := 1; n <= ml; n++ {
		exh += enumerateOps(c, membershipPrefix(), membershipAlphabet(), n, runCfg{c23: true, quiet: true})
	}
	c.Extra["exhaustive_sequences"] = exh
	c.Extra["node_alphabet"] = len(na)
	c.Extra["node_max_len"] = nl
	c.Extra["rbac_alphabet"] = len(ra)
	c.Extra["rbac_max_len"] = rl

	// (3) random histories
	nCases := c.N
	if nCases == 0 {
		nCases = 150
		if c.Thorough() {
			nCases = 3000
		}
	}
	for n := 0; n < nCases; n++ {
		g := &gen{r: r, weights: c23Kinds}
		if r.Chance(35) { // membership heavy
			g.weights = membershipKinds
		}
		ln := r.Range(3, 30)
		ops := make([]op, ln)
		for i := range ops {
			ops[i] = g.next(uint64(i + 1))
		}
		runCase(c, ops, full)
	}
	c.Finish("cases = command histories on the real ClusterFSM: directed rejoin/leave/promote-unknown/payload-primary traces; ALL sequences up to the stated length over a 15-letter node/role alphabet (≤4 node ids) and a 12-letter RBAC create/delete alphabet; random histories of 3–30 commands; role and RBAC-parent monitors after every command and after every snapshot+restore; non-trivial = at least one command refused; distinct = distinct op text")
}
