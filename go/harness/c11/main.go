//go:build verif

// C11 correspondence harness: the real api.RetentionHandler (HTTP create + execute routes, and
// ExecutePolicy as the scheduler calls it) over a real DuckDB + storage.LocalBackend in a temp dir,
// under the virtual clock (retention.go is clockified by the overlay).
//
// Ops (the Lean model `drive_c11` answers the same lines):
//
//	reset                                       -> ok
//	file <relpath> <t,t,~,…|->                  write a parquet file (row times in µs, ~ = NULL) -> ok
//	rm <relpath>                                external removal (compaction replaced it)        -> ok
//	now <unix-ns>                               set the virtual clock                            -> ok
//	run <dry|http|sched> <db> <meas|*> <ret> <buf>   create a policy and execute it
//	                                            -> ok cutoff=<unix s> rows=<n> files=<n> meas=<a,b|-> | rejected
//	ls                                          -> sorted list of stored files
//
// Monitors (independent of the model) look at the files/rows before and after each run.
package main

import (
	"context"
	"encoding/json"
	"fmt"
	"io"
	"net/http/httptest"
	"os"
	"path/filepath"
	"sort"
	"strings"
	"time"

	"github.com/basekick-labs/arc/internal/api"
	"github.com/basekick-labs/arc/internal/config"
	"github.com/basekick-labs/arc/internal/database"
	"github.com/basekick-labs/arc/internal/storage"
	"github.com/basekick-labs/arc/internal/verif/vh"
	"github.com/basekick-labs/arc/internal/verifclock"
	"github.com/gofiber/fiber/v2"
	"github.com/rs/zerolog"
)

const nullT = int64(-1 << 62)

type env struct {
	c     *vh.Ctx
	root  string
	db    *database.DuckDB
	h     *api.RetentionHandler
	app   *fiber.App
	store map[string][]int64 // relpath -> row times (µs; nullT = NULL); the harness's own record
	now   int64
	polN  int
}

func must(err error) {
	if err != nil {
		panic(err)
	}
}

func newEnv(c *vh.Ctx) *env {
	root, err := os.MkdirTemp("/var/tmp", "verif-c11-*")
	must(err)
	logger := zerolog.New(io.Discard).Level(zerolog.Disabled)
	data := filepath.Join(root, "data")
	be, err := storage.NewLocalBackend(data, logger)
	must(err)
	db, err := database.New(&database.Config{MemoryLimit: "512MB", ThreadCount: 2, MaxConnections: 2, LocalStorageRoot: data}, logger)
	must(err)
	h, err := api.NewRetentionHandler(be, db, &config.RetentionConfig{Enabled: true, DBPath: filepath.Join(root, "retention.db")}, nil, nil, logger)
	must(err)
	app := fiber.New(fiber.Config{DisableStartupMessage: true})
	h.RegisterRoutes(app)
	return &env{c: c, root: data, db: db, h: h, app: app, store: map[string][]int64{}}
}

func (e *env) close() {
	e.h.Close()
	e.db.Close()
	os.RemoveAll(filepath.Dir(e.root))
}

func encTimes(ts []int64) string {
	if len(ts) == 0 {
		return "-"
	}
	p := make([]string, len(ts))
	for i, t := range ts {
		if t == nullT {
			p[i] = "~"
		} else {
			p[i] = fmt.Sprint(t)
		}
	}
	return strings.Join(p, ",")
}

func (e *env) opReset() {
	ents, _ := os.ReadDir(e.root)
	for _, en := range ents {
		os.RemoveAll(filepath.Join(e.root, en.Name()))
	}
	e.store = map[string][]int64{}
	e.c.Op("reset", "ok")
}

func (e *env) opFile(rel string, ts []int64) {
	full := filepath.Join(e.root, rel)
	must(os.MkdirAll(filepath.Dir(full), 0o755))
	if strings.HasSuffix(strings.ToLower(rel), ".parquet") {
		var vals []string
		for i, t := range ts {
			if t == nullT {
				vals = append(vals, fmt.Sprintf("(CAST(NULL AS TIMESTAMP), %d)", i))
			} else {
				vals = append(vals, fmt.Sprintf("(make_timestamp(CAST(%d AS BIGINT)), %d)", t, i))
			}
		}
		limit := ""
		if len(vals) == 0 {
			vals = []string{"(CAST(NULL AS TIMESTAMP), 0)"}
			limit = " LIMIT 0"
		}
		q := fmt.Sprintf("COPY (SELECT CAST(c0 AS TIMESTAMP) AS \"time\", CAST(c1 AS BIGINT) AS v FROM (VALUES %s) t(c0,c1)%s) TO '%s' (FORMAT PARQUET)",
			strings.Join(vals, ", "), limit, full)
		_, err := e.db.DB().Exec(q)
		must(err)
	} else {
		must(os.WriteFile(full, []byte("{}"), 0o644))
	}
	e.store[rel] = ts
	e.c.Op("file "+rel+" "+encTimes(ts), "ok")
}

func (e *env) opRm(rel string) {
	os.Remove(filepath.Join(e.root, rel))
	delete(e.store, rel)
	e.c.Op("rm "+rel, "ok")
}

func (e *env) opNow(ns int64) {
	e.now = ns
	verifclock.Set(ns)
	e.c.Op(fmt.Sprintf("now %d", ns), "ok")
}

// present lists the files physically under the storage root.
func (e *env) present() []string {
	var out []string
	filepath.WalkDir(e.root, func(p string, d os.DirEntry, err error) error {
		if err == nil && !d.IsDir() {
			rel, _ := filepath.Rel(e.root, p)
			out = append(out, rel)
		}
		return nil
	})
	sort.Strings(out)
	return out
}

func (e *env) opLs() []string {
	ps := e.present()
	s := "-"
	if len(ps) > 0 {
		s = strings.Join(ps, " ")
	}
	e.c.Op("ls", s)
	return ps
}

type execResp struct {
	PolicyID             int64    `json:"policy_id"`
	DeletedCount         int64    `json:"deleted_count"`
	FilesDeleted         int      `json:"files_deleted"`
	DryRun               bool     `json:"dry_run"`
	CutoffDate           string   `json:"cutoff_date"`
	AffectedMeasurements []string `json:"affected_measurements"`
	Error                string   `json:"error"`
}

func (e *env) http(method, path string, body any) (int, []byte) {
	b, _ := json.Marshal(body)
	req := httptest.NewRequest(method, path, strings.NewReader(string(b)))
	req.Header.Set("Content-Type", "application/json")
	resp, err := e.app.Test(req, -1)
	must(err)
	out, _ := io.ReadAll(resp.Body)
	return resp.StatusCode, out
}

type runRes struct {
	ok    bool
	out   string
	rows  int64
	files int
}

func (e *env) run(mode, db, meas string, ret, buf int) runRes {
	e.polN++
	body := map[string]any{"name": fmt.Sprintf("p%d", e.polN), "database": db, "retention_days": ret, "buffer_days": buf, "is_active": true}
	if meas != "*" {
		body["measurement"] = meas
	}
	st, b := e.http("POST", "/api/v1/retention/", body)
	if st != 201 {
		return runRes{false, "rejected", 0, 0}
	}
	var pol struct {
		ID int64 `json:"id"`
	}
	must(json.Unmarshal(b, &pol))
	var r execResp
	switch mode {
	case "sched":
		resp, err := e.h.ExecutePolicy(context.Background(), pol.ID)
		if err != nil {
			return runRes{false, "err=" + strings.ReplaceAll(err.Error(), " ", "_"), 0, 0}
		}
		bb, _ := json.Marshal(resp)
		json.Unmarshal(bb, &r)
	default:
		st, b := e.http("POST", fmt.Sprintf("/api/v1/retention/%d/execute", pol.ID), map[string]any{"dry_run": mode == "dry", "confirm": mode == "http"})
		if st != 200 {
			return runRes{false, fmt.Sprintf("err=%d", st), 0, 0}
		}
		must(json.Unmarshal(b, &r))
		if r.DryRun != (mode == "dry") {
			e.c.Fail("dry-run-flag-lost:handleExecute", "response dry_run flag differs from the request", "")
		}
	}
	ct, err := time.Parse(time.RFC3339, r.CutoffDate)
	must(err)
	ms := append([]string{}, r.AffectedMeasurements...)
	sort.Strings(ms)
	m := "-"
	if len(ms) > 0 {
		m = strings.Join(ms, ",")
	}
	return runRes{true, fmt.Sprintf("ok cutoff=%d rows=%d files=%d meas=%s", ct.Unix(), r.DeletedCount, r.FilesDeleted, m), r.DeletedCount, r.FilesDeleted}
}

// covered: does the harness itself consider rel a data file of (db, meas)?  meas "*" = every
// first-level directory of db.
func covered(rel, db, meas string) bool {
	if !strings.HasSuffix(strings.ToLower(rel), ".parquet") {
		return false
	}
	parts := strings.Split(rel, "/")
	if len(parts) < 3 || parts[0] != db {
		return false
	}
	return meas == "*" || parts[1] == meas
}

func maxOf(ts []int64) (int64, bool) {
	ok := false
	var m int64
	for _, t := range ts {
		if t != nullT && (!ok || t > m) {
			m, ok = t, true
		}
	}
	return m, ok
}

func (e *env) opRun(mode, db, meas string, ret, buf int, replay *strings.Builder, lastDry *runRes) runRes {
	before := map[string][]int64{}
	for k, v := range e.store {
		before[k] = v
	}
	res := e.run(mode, db, meas, ret, buf)
	op := fmt.Sprintf("run %s %s %s %d %d", mode, db, meas, ret, buf)
	e.c.Op(op, res.out)
	fmt.Fprintf(replay, "%s   -- %s\n", op, res.out)
	after := map[string]bool{}
	ps := e.opLs()
	for _, p := range ps {
		after[p] = true
	}
	fmt.Fprintf(replay, "ls   -- %s\n", strings.Join(ps, " "))
	e.c.Tag("run:" + mode)
	if !res.ok {
		e.c.Tag("run:" + res.out)
	}
	cutoff := time.Unix(0, e.now).UTC().Add(-time.Duration(ret+buf) * 24 * time.Hour).UnixNano()
	var goneRows int64
	goneFiles := 0
	for rel, ts := range before {
		if after[rel] {
			continue
		}
		goneFiles++
		goneRows += int64(len(ts))
		delete(e.store, rel)
		if mode == "dry" || !res.ok {
			e.c.Fail("dry-run-deleted:handleExecute", fmt.Sprintf("%s disappeared during a dry run / failed run", rel), replay.String())
			continue
		}
		if !covered(rel, db, meas) {
			e.c.Fail("outside-file-deleted:deleteOldFiles", fmt.Sprintf("%s is not a parquet file of database %q measurement %q but was deleted", rel, db, meas), replay.String())
		}
		if m, ok := maxOf(ts); ok && m*1000 == cutoff {
			e.c.Fail("boundary-file-deleted:deleteOldFiles", fmt.Sprintf("%s has MAX(time) exactly at the cutoff and was deleted", rel), replay.String())
		}
		for _, t := range ts {
			if t != nullT && t*1000 >= cutoff {
				e.c.Fail("fresh-row-deleted:deleteOldFiles", fmt.Sprintf("%s deleted although it holds a row with time %dµs >= cutoff %dns", rel, t, cutoff), replay.String())
				break
			}
		}
	}
	if res.ok && mode != "dry" {
		if res.rows != goneRows || res.files != goneFiles {
			e.c.Fail("retention-count-mismatch:deleteOldFiles", fmt.Sprintf("reported rows=%d files=%d, actually removed rows=%d files=%d", res.rows, res.files, goneRows, goneFiles), replay.String())
		}
		for rel, ts := range before {
			if !after[rel] || !covered(rel, db, meas) {
				continue
			}
			if m, ok := maxOf(ts); ok && m*1000 < cutoff {
				e.c.Fail("stale-file-kept:deleteOldFiles", fmt.Sprintf("%s remains after a successful run although all its rows are older than the cutoff (max %dµs, cutoff %dns)", rel, m, cutoff), replay.String())
			}
		}
		if lastDry != nil && lastDry.ok && (lastDry.rows != res.rows || lastDry.files != res.files) {
			e.c.Fail("dry-run-report-differs:handleExecute", fmt.Sprintf("dry run reported rows=%d files=%d, the real run at the same instant deleted rows=%d files=%d", lastDry.rows, lastDry.files, res.rows, res.files), replay.String())
		}
		if goneFiles > 0 {
			e.c.Tag("run:deleted-some")
		}
	}
	return res
}

// ---------------------------------------------------------------- generation

const day = int64(86400) * 1_000_000 // µs

type gen struct {
	r *vh.Rand
}

// uniq: every parquet file of a run gets a never-reused name. Reusing a path for different content
// within the same second makes DuckDB's parquet_metadata_cache (enabled by arc, validated by mtime)
// serve the OLD footer/statistics — arc's writers never reuse names, so the harness must not either.
var uniq int

func u() int { uniq++; return uniq }

// timesAround builds a file's row times relative to the cutoff (µs): kind selects the layout class.
func (g gen) timesAround(cutUs int64, exact bool, kind int) []int64 {
	r := g.r
	n := r.Range(1, 4)
	var ts []int64
	old := func() int64 { return cutUs - 1 - int64(r.Intn(3))*day/2 - int64(r.Intn(1000)) }
	fresh := func() int64 { return cutUs + 1 + int64(r.Intn(3))*day/2 + int64(r.Intn(1000)) }
	switch kind {
	case 0: // all below
		for i := 0; i < n; i++ {
			ts = append(ts, old())
		}
	case 1: // all above
		for i := 0; i < n; i++ {
			ts = append(ts, fresh())
		}
	case 2: // across
		ts = append(ts, old(), fresh())
		for i := 2; i < n; i++ {
			ts = append(ts, vh.Pick(r, []int64{old(), fresh()}))
		}
	case 3: // max exactly at the cutoff (to the µs)
		for i := 1; i < n; i++ {
			ts = append(ts, old())
		}
		ts = append(ts, cutUs)
	case 4: // max one µs below / above
		for i := 1; i < n; i++ {
			ts = append(ts, old())
		}
		ts = append(ts, cutUs+vh.Pick(r, []int64{-1, 1}))
	case 5: // NULL times mixed in
		ts = append(ts, nullT)
		for i := 1; i < n; i++ {
			ts = append(ts, vh.Pick(r, []int64{old(), nullT, fresh()}))
		}
	case 6: // empty file
	}
	for i := len(ts) - 1; i > 0; i-- {
		j := r.Intn(i + 1)
		ts[i], ts[j] = ts[j], ts[i]
	}
	return ts
}

var dbs = []string{"db", "db2", "d"}
var measNames = []string{"m", "m2", "mm", "m_x", "cpu"}

// path: base names come from a tiny pool, so equal base names (and equal partition tails) occur across
// hour partitions, measurements and databases; the partition directory carries the never-reused
// counter (see uniq), so a full path is never reused while base names collide all the time.
func (g gen) path(db, m string, k int) string {
	r := g.r
	name := vh.Pick(r, []string{"data.parquet", "data.parquet", "f0.parquet", "DATA.PARQUET", m + "_compacted.parquet", "m_compacted.parquet"})
	if r.Chance(20) {
		return fmt.Sprintf("%s/%s/2024/01/%02d/d%d/%s", db, m, 1+r.Intn(3), u(), name)
	}
	return fmt.Sprintf("%s/%s/2024/01/%02d/%02d_%d/%s", db, m, 1+r.Intn(3), r.Intn(24), u(), name)
}

func main() {
	c := vh.Start()
	e := newEnv(c)
	defer e.close()
	r := vh.NewRand(c.Seed)
	g := gen{r}
	n := c.N
	if n == 0 {
		n = 120
		if c.Thorough() {
			n = 1200
		}
	}
	base := int64(1_750_000_000) * 1_000_000_000 // 2025-06-15

	runCase := func(tag string, f func(replay *strings.Builder) bool) {
		var replay strings.Builder
		e.opReset()
		replay.WriteString("reset\n")
		nontriv := f(&replay)
		seen := map[string]bool{}
		for p := range e.store {
			if b := filepath.Base(p); seen[b] {
				e.c.Tag("layout:same-basename")
				break
			} else {
				seen[b] = true
			}
		}
		e.c.Tag("case:" + tag)
		e.c.Case(replay.String(), nontriv)
	}
	addFile := func(replay *strings.Builder, rel string, ts []int64) {
		e.opFile(rel, ts)
		fmt.Fprintf(replay, "file %s %s\n", rel, encTimes(ts))
	}
	setNow := func(replay *strings.Builder, ns int64) {
		e.opNow(ns)
		fmt.Fprintf(replay, "now %d\n", ns)
	}

	// (1) edge grid: one file per layout class × sub-µs phase of the clock × execution mode
	for _, phase := range []int64{0, 1, 500, 999} {
		for kind := 0; kind <= 6; kind++ {
			for _, mode := range []string{"http", "sched"} {
				if !c.Thorough() && (int(phase)+kind+len(mode))%2 != int(c.Seed%2) {
					continue
				}
				runCase(fmt.Sprintf("edge:kind%d", kind), func(replay *strings.Builder) bool {
					now := base + phase
					days := 30 + 7
					cutNs := now - int64(days)*86400*1_000_000_000
					cutUs := cutNs / 1000 // floor; equals the cutoff exactly iff phase == 0
					if kind == 3 && phase != 0 {
						cutUs++ // smallest µs value >= cutoff
					}
					setNow(replay, now)
					tail := fmt.Sprintf("2024/01/01/00_%d/data.parquet", u())
					addFile(replay, "db/m/"+tail, g.timesAround(cutUs, phase == 0, kind))
					addFile(replay, "db/m/"+strings.Replace(tail, "/00_", "/01_", 1), []int64{cutUs + day}) // same base name, next hour, fresh
					addFile(replay, "db/m2/"+tail, []int64{cutUs - day})
					addFile(replay, "db2/m/"+tail, []int64{cutUs - day})
					addFile(replay, "db/m/2024/01/01/00/manifest.json", nil)
					d := e.opRun("dry", "db", "m", 30, 7, replay, nil)
					res := e.opRun(mode, "db", "m", 30, 7, replay, &d)
					return res.files > 0
				})
			}
		}
	}
	// policy validation gate
	runCase("edge:policy-gate", func(replay *strings.Builder) bool {
		setNow(replay, base)
		addFile(replay, fmt.Sprintf("db/m/2024/01/01/00/a%d.parquet", u()), []int64{0})
		e.opRun("http", "db", "m", 0, 0, replay, nil)
		e.opRun("http", "db", "m", 5, 5, replay, nil)
		e.opRun("http", "db", "m", 5, 7, replay, nil)
		e.opRun("http", "db", "m", 5, 4, replay, nil)
		e.opRun("nocf", "db", "m", 5, 4, replay, nil)
		return true
	})

	// (2) random layouts and histories
	for k := 0; k < n; k++ {
		runCase("random", func(replay *strings.Builder) bool {
			now := base + int64(r.Intn(1000))*1_000_000_000 + vh.Pick(r, []int64{0, 0, 1, 999, 1000, 123456})
			setNow(replay, now)
			ret := r.Range(1, 40)
			buf := r.Intn(ret)
			cutUs := (now - int64(ret+buf)*86400*1_000_000_000) / 1000
			nm := r.Range(1, 4)
			nf := r.Range(1, 7)
			var files []string
			for i := 0; i < nf; i++ {
				db := dbs[0]
				if r.Chance(25) {
					db = vh.Pick(r, dbs)
				}
				m := measNames[r.Intn(nm)]
				p := g.path(db, m, i)
				kind := vh.Pick(r, []int{0, 0, 1, 1, 2, 2, 3, 4, 5, 6})
				addFile(replay, p, g.timesAround(cutUs, now%1000 == 0, kind))
				files = append(files, p)
				if r.Chance(10) {
					addFile(replay, filepath.Dir(p)+"/notes.json", nil)
				}
			}
			anyDel := false
			steps := r.Range(1, 3)
			for s := 0; s < steps; s++ {
				meas := "*"
				if r.Chance(55) {
					meas = measNames[r.Intn(nm+1)]
				}
				db := dbs[0]
				if r.Chance(15) {
					db = vh.Pick(r, dbs)
				}
				var d *runRes
				if r.Chance(60) {
					x := e.opRun("dry", db, meas, ret, buf, replay, nil)
					d = &x
				}
				res := e.opRun(vh.Pick(r, []string{"http", "sched"}), db, meas, ret, buf, replay, d)
				anyDel = anyDel || res.files > 0
				if s+1 < steps {
					// history: compaction replaces some files by one merged file; the clock moves on
					if r.Chance(50) && len(e.store) >= 2 {
						var live []string
						for _, p := range files {
							if ts, ok := e.store[p]; ok && strings.HasSuffix(strings.ToLower(p), ".parquet") && len(ts) > 0 {
								live = append(live, p)
							}
						}
						if len(live) >= 2 {
							a, b := live[0], live[1]
							pa := strings.Split(a, "/")
							if strings.HasPrefix(b, pa[0]+"/"+pa[1]+"/") {
								merged := append(append([]int64{}, e.store[a]...), e.store[b]...)
								mp := fmt.Sprintf("%s/%s/2024/01/01/c%d_%d/data.parquet", pa[0], pa[1], s, u())
								addFile(replay, mp, merged)
								files = append(files, mp)
								e.opRm(a)
								e.opRm(b)
								fmt.Fprintf(replay, "rm %s\nrm %s\n", a, b)
								e.c.Tag("history:compaction")
							}
						}
					}
					now += vh.Pick(r, []int64{0, 1000, 86400 * 1_000_000_000, 43200 * 1_000_000_000, int64(r.Intn(3*86400)) * 1_000_000_000})
					setNow(replay, now)
					cutUs = (now - int64(ret+buf)*86400*1_000_000_000) / 1000
				}
			}
			return anyDel
		})
	}
	verifclock.Real()
	c.Finish("cases = (file layout over 1–4 measurements / 1–3 databases with shared name prefixes: files below/across/above the cutoff, max exactly at / one µs around the cutoff, NULL times, empty files, compacted day files, non-parquet files; history of 1–3 retention runs (dry run + HTTP or scheduler execution, with/without measurement filter) interleaved with compaction-style file replacement and clock advances); edge grid over layout class × sub-µs clock phase × execution path, then random; non-trivial = some run deleted a file; distinct = distinct op text")
}
