//go:build verif

// C11 correspondence harness: the real api.RetentionHandler (HTTP create + execute routes, and
// ExecutePolicy as the scheduler calls it) over a real DuckDB + storage.LocalBackend in a temp dir,
// under the virtual clock (retention.go is clockified by the overlay).
//
// Ops (the Lean model `drive_c11` answers the same lines):
//
//	reset                                       -> ok
//	file <relpath> <t,t,~,…|->                  write a parquet file (row times in µs, ~ = NULL) -> ok
//	rm <relpath>                                external removal (compaction replaced it)        -> ok
//	now <unix-ns>                               set the virtual clock                            -> ok
//	run <dry|http|sched|nocf|x:DC> <db> <meas|*> <ret> <buf>   create a policy and execute it (x:DC = HTTP body flags
//	                                            dry_run/confirm, each t|f|a(bsent); dry=x:tf http=x:ft nocf=x:ff)
//	                                            -> ok cutoff=<unix s> rows=<n> files=<n> meas=<a,b|-> | rejected
//	ls                                          -> sorted list of stored files
//	replace <relpath> <t,…>                     new content under the SAME path, by rename-over (restore / re-import) -> ok
//	del <db> <meas> <µs>                        POST /api/v1/delete {where: epoch_us(time) >= µs} through the REAL
//	                                            DeleteHandler (in-place rewrite by rename-over / whole-file removal) -> ok deleted=<n>
//
// Monitors (independent of the model) look at the files/rows before and after each run.
package main

import (
	"context"
	"database/sql"
	"encoding/json"
	"fmt"
	"io"
	"net/http/httptest"
	"os"
	"path/filepath"
	"sort"
	"strings"
	"time"

	"github.com/basekick-labs/arc/internal/api"
	"github.com/basekick-labs/arc/internal/config"
	"github.com/basekick-labs/arc/internal/database"
	"github.com/basekick-labs/arc/internal/storage"
	"github.com/basekick-labs/arc/internal/verif/vh"
	"github.com/basekick-labs/arc/internal/verifclock"
	"github.com/gofiber/fiber/v2"
	"github.com/rs/zerolog"
)

const nullT = int64(-1 << 62)

type env struct {
	c     *vh.Ctx
	root  string
	db    *database.DuckDB
	h     *api.RetentionHandler
	used  map[string]bool // every path ever written in this process (never re-created, see uniq)
	app   *fiber.App
	store map[string][]int64 // relpath -> row times (µs; nullT = NULL); the harness's own record
	now   int64
	polN  int
	be      *storage.LocalBackend
	rootDir string
	pols    map[string]int64 // named policies (kept across runs and handler restarts) -> id
	crashed map[string]bool  // named policies with a leftover `running` execution row
	rgs     map[string]int   // relpath -> number of parquet row groups (only recorded when > 1)
	sdb     *sql.DB          // the harness's own connection to the policy/execution SQLite file
}

func must(err error) {
	if err != nil {
		panic(err)
	}
}

func newEnv(c *vh.Ctx) *env {
	root, err := os.MkdirTemp("/var/tmp", "verif-c11-*")
	must(err)
	logger := zerolog.New(io.Discard).Level(zerolog.Disabled)
	data := filepath.Join(root, "data")
	be, err := storage.NewLocalBackend(data, logger)
	must(err)
	db, err := database.New(&database.Config{MemoryLimit: "512MB", ThreadCount: 2, MaxConnections: 2, LocalStorageRoot: data}, logger)
	must(err)
	h, err := api.NewRetentionHandler(be, db, &config.RetentionConfig{Enabled: true, DBPath: filepath.Join(root, "retention.db")}, nil, nil, logger)
	must(err)
	app := fiber.New(fiber.Config{DisableStartupMessage: true})
	h.RegisterRoutes(app)
	// ONE long-lived RetentionHandler for the whole run (as in the server), plus the real DeleteHandler
	// on the same DuckDB + storage for in-place rewrites between retention runs.
	dh := api.NewDeleteHandler(db, be, &config.DeleteConfig{Enabled: true, ConfirmationThreshold: 1 << 30, MaxRowsPerDelete: 1 << 30}, nil, filepath.Join(root, "_tmp"), logger)
	dh.RegisterRoutes(app)
	return &env{c: c, root: data, db: db, h: h, app: app, store: map[string][]int64{}, used: map[string]bool{},
		be: be, rootDir: root, pols: map[string]int64{}, crashed: map[string]bool{}, rgs: map[string]int{}}
}

// opRestart: the server process is restarted — a NEW RetentionHandler (and routes) over the same
// policy/execution database, DuckDB and storage.
func (e *env) opRestart() {
	logger := zerolog.New(io.Discard).Level(zerolog.Disabled)
	e.h.Close()
	h, err := api.NewRetentionHandler(e.be, e.db, &config.RetentionConfig{Enabled: true, DBPath: filepath.Join(e.rootDir, "retention.db")}, nil, nil, logger)
	must(err)
	app := fiber.New(fiber.Config{DisableStartupMessage: true})
	h.RegisterRoutes(app)
	dh := api.NewDeleteHandler(e.db, e.be, &config.DeleteConfig{Enabled: true, ConfirmationThreshold: 1 << 30, MaxRowsPerDelete: 1 << 30}, nil, filepath.Join(e.rootDir, "_tmp"), logger)
	dh.RegisterRoutes(app)
	e.h, e.app = h, app
	e.c.Op("restart", "ok")
	e.c.Tag("history:restart")
}

// opCrash leaves the persistent state a killed run leaves behind for the named policy:
//
//	start     killed right after recordExecutionStart: a `running` execution row, nothing deleted
//	complete  killed right before recordExecutionComplete: the latest execution row (of a run that did
//	          all its deletions) is still `running`
//
// (a kill in the middle of the deletion loop = `start` plus some of the eligible files already gone,
// which the caller produces with rm ops). Written through the harness's own SQLite connection with
// the very statement recordExecutionStart uses.
func (e *env) opCrash(pol, point string) {
	if e.sdb == nil {
		d, err := sql.Open("sqlite3", filepath.Join(e.rootDir, "retention.db"))
		must(err)
		e.sdb = d
	}
	id := e.pols[pol]
	switch point {
	case "start":
		_, err := e.sdb.Exec(`INSERT INTO retention_executions (policy_id, execution_time, status, cutoff_date) VALUES (?, CURRENT_TIMESTAMP, 'running', ?)`, id, time.Unix(0, e.now).UTC().Format(time.RFC3339))
		must(err)
	case "complete":
		_, err := e.sdb.Exec(`UPDATE retention_executions SET status = 'running' WHERE id = (SELECT MAX(id) FROM retention_executions WHERE policy_id = ?)`, id)
		must(err)
	}
	e.crashed[pol] = true
	e.c.Op("crash "+pol+" "+point, "ok")
	e.c.Tag("history:crash-" + point)
}

// opFileGen writes a time-sorted parquet file of n rows (start + k*step µs) with a small row group size,
// i.e. a file with SEVERAL row groups (like a compacted day file with > 122880 rows).
func (e *env) opFileGen(rel string, start, step int64, n, rg int) []int64 {
	if e.used[rel] {
		panic("harness bug: path re-created: " + rel)
	}
	e.used[rel] = true
	full := filepath.Join(e.root, rel)
	must(os.MkdirAll(filepath.Dir(full), 0o755))
	q := fmt.Sprintf("COPY (SELECT make_timestamp(CAST(%d + i * %d AS BIGINT)) AS \"time\", i AS v FROM range(%d) r(i) ORDER BY i) TO '%s' (FORMAT PARQUET, ROW_GROUP_SIZE %d)", start, step, n, full, rg)
	_, err := e.db.DB().Exec(q)
	must(err)
	ts := make([]int64, n)
	for k := range ts {
		ts[k] = start + int64(k)*step
	}
	e.store[rel] = ts
	var groups int
	must(e.db.DB().QueryRow(fmt.Sprintf("SELECT count(DISTINCT row_group_id) FROM parquet_metadata('%s')", full)).Scan(&groups))
	if groups > 1 {
		e.rgs[rel] = groups
		e.c.Tag("layout:multi-row-group-file")
	} else {
		e.c.Tag("layout:multi-row-group-file:FAILED-single-group")
	}
	e.c.Op(fmt.Sprintf("filegen %s %d %d %d %d", rel, start, step, n, rg), "ok")
	return ts
}

func (e *env) close() {
	e.h.Close()
	e.db.Close()
	os.RemoveAll(filepath.Dir(e.root))
}

func encTimes(ts []int64) string {
	if len(ts) == 0 {
		return "-"
	}
	p := make([]string, len(ts))
	for i, t := range ts {
		if t == nullT {
			p[i] = "~"
		} else {
			p[i] = fmt.Sprint(t)
		}
	}
	return strings.Join(p, ",")
}

func (e *env) opReset() {
	ents, _ := os.ReadDir(e.root)
	for _, en := range ents {
		os.RemoveAll(filepath.Join(e.root, en.Name()))
	}
	e.store = map[string][]int64{}
	e.c.Op("reset", "ok")
}

func (e *env) writeParquet(full string, ts []int64) {
	var vals []string
	for i, t := range ts {
		if t == nullT {
			vals = append(vals, fmt.Sprintf("(CAST(NULL AS TIMESTAMP), %d)", i))
		} else {
			vals = append(vals, fmt.Sprintf("(make_timestamp(CAST(%d AS BIGINT)), %d)", t, i))
		}
	}
	limit := ""
	if len(vals) == 0 {
		vals = []string{"(CAST(NULL AS TIMESTAMP), 0)"}
		limit = " LIMIT 0"
	}
	q := fmt.Sprintf("COPY (SELECT CAST(c0 AS TIMESTAMP) AS \"time\", CAST(c1 AS BIGINT) AS v FROM (VALUES %s) t(c0,c1)%s) TO '%s' (FORMAT PARQUET)",
		strings.Join(vals, ", "), limit, full)
	_, err := e.db.DB().Exec(q)
	must(err)
}

func (e *env) opFile(rel string, ts []int64) {
	if e.used[rel] {
		panic("harness bug: path re-created (DuckDB parquet_metadata_cache flake): " + rel)
	}
	e.used[rel] = true
	full := filepath.Join(e.root, rel)
	must(os.MkdirAll(filepath.Dir(full), 0o755))
	if strings.HasSuffix(strings.ToLower(rel), ".parquet") {
		e.writeParquet(full, ts)
	} else {
		must(os.WriteFile(full, []byte("{}"), 0o644))
	}
	e.store[rel] = ts
	e.c.Op("file "+rel+" "+encTimes(ts), "ok")
}

// opReplace puts new content under an EXISTING path the way a restore / re-import does: write a
// sibling temp file, then rename it over the original (the same mechanism delete.go uses).
func (e *env) opReplace(rel string, ts []int64) {
	full := filepath.Join(e.root, rel)
	tmpDir := filepath.Join(filepath.Dir(full), ".tmp")
	must(os.MkdirAll(tmpDir, 0o755))
	tmp := filepath.Join(tmpDir, fmt.Sprintf("r%d.new", u()))
	e.writeParquet(tmp, ts)
	must(os.Rename(tmp, full))
	os.Remove(tmpDir)
	e.store[rel] = ts
	e.c.Op("replace "+rel+" "+encTimes(ts), "ok")
}

// readTimes reads a stored parquet file back (row order = v), independent of the model.
func (e *env) readTimes(rel string) []int64 {
	rs, err := e.db.DB().Query(fmt.Sprintf("SELECT epoch_us(\"time\") FROM read_parquet('%s') ORDER BY v", filepath.Join(e.root, rel)))
	must(err)
	defer rs.Close()
	out := []int64{}
	for rs.Next() {
		var t *int64
		must(rs.Scan(&t))
		if t == nil {
			out = append(out, nullT)
		} else {
			out = append(out, *t)
		}
	}
	must(rs.Err())
	return out
}

// opDel: row-level delete of every row with time >= x µs in db/meas through the real DeleteHandler.
func (e *env) opDel(db, meas string, x int64) {
	st, b := e.http("POST", "/api/v1/delete/", map[string]any{"database": db, "measurement": meas,
		"where": fmt.Sprintf("epoch_us(time) >= %d", x), "confirm": true})
	var r struct {
		Success      bool  `json:"success"`
		DeletedCount int64 `json:"deleted_count"`
	}
	json.Unmarshal(b, &r)
	out := fmt.Sprintf("ok deleted=%d", r.DeletedCount)
	if st != 200 || !r.Success {
		out = fmt.Sprintf("err=%d", st)
	}
	e.c.Op(fmt.Sprintf("del %s %s %d", db, meas, x), out)
	// refresh the harness's own record from what is stored now
	for rel := range e.store {
		if !strings.HasSuffix(strings.ToLower(rel), ".parquet") {
			continue
		}
		if _, err := os.Stat(filepath.Join(e.root, rel)); err != nil {
			delete(e.store, rel)
			continue
		}
		e.store[rel] = e.readTimes(rel)
	}
	e.c.Tag("history:delete-api")
}

func (e *env) opRm(rel string) {
	os.Remove(filepath.Join(e.root, rel))
	delete(e.store, rel)
	e.c.Op("rm "+rel, "ok")
}

func (e *env) opNow(ns int64) {
	e.now = ns
	verifclock.Set(ns)
	e.c.Op(fmt.Sprintf("now %d", ns), "ok")
}

// present lists the files physically under the storage root.
func (e *env) present() []string {
	var out []string
	filepath.WalkDir(e.root, func(p string, d os.DirEntry, err error) error {
		if err == nil && !d.IsDir() {
			rel, _ := filepath.Rel(e.root, p)
			out = append(out, rel)
		}
		return nil
	})
	sort.Strings(out)
	return out
}

func (e *env) opLs() []string {
	ps := e.present()
	s := "-"
	if len(ps) > 0 {
		s = strings.Join(ps, " ")
	}
	e.c.Op("ls", s)
	return ps
}

type execResp struct {
	PolicyID             int64    `json:"policy_id"`
	DeletedCount         int64    `json:"deleted_count"`
	FilesDeleted         int      `json:"files_deleted"`
	DryRun               bool     `json:"dry_run"`
	CutoffDate           string   `json:"cutoff_date"`
	AffectedMeasurements []string `json:"affected_measurements"`
	Error                string   `json:"error"`
}

func (e *env) http(method, path string, body any) (int, []byte) {
	b, _ := json.Marshal(body)
	req := httptest.NewRequest(method, path, strings.NewReader(string(b)))
	req.Header.Set("Content-Type", "application/json")
	resp, err := e.app.Test(req, -1)
	must(err)
	out, _ := io.ReadAll(resp.Body)
	return resp.StatusCode, out
}

// flags: the HTTP execute body of a mode. 't' true, 'f' false, 'a' field absent.
// dry = x:tf, http = x:ft, nocf = x:ff; x:<d><c> spells any other combination (x:tt = BOTH flags).
func flags(mode string) (d, c byte) {
	switch mode {
	case "dry":
		return 't', 'f'
	case "http":
		return 'f', 't'
	case "nocf":
		return 'f', 'f'
	}
	if len(mode) == 4 && strings.HasPrefix(mode, "x:") {
		return mode[2], mode[3]
	}
	return 'f', 'f'
}

// isDryReq: the request carries dry_run=true — whatever else it carries, it must delete nothing.
func isDryReq(mode string) bool { d, _ := flags(mode); return mode != "sched" && d == 't' }

type runRes struct {
	ok    bool
	out   string
	rows  int64
	files int
}

func (e *env) run(mode, db, meas string, ret, buf int, polName string) runRes {
	var pol struct {
		ID int64 `json:"id"`
	}
	if id, ok := e.pols[polName]; ok && polName != "" {
		pol.ID = id
	} else {
		e.polN++
		name := fmt.Sprintf("p%d", e.polN)
		if polName != "" {
			name = polName
		}
		body := map[string]any{"name": name, "database": db, "retention_days": ret, "buffer_days": buf, "is_active": true}
		if meas != "*" {
			body["measurement"] = meas
		}
		st, b := e.http("POST", "/api/v1/retention/", body)
		if st != 201 {
			return runRes{false, "rejected", 0, 0}
		}
		must(json.Unmarshal(b, &pol))
		if polName != "" {
			e.pols[polName] = pol.ID
		}
	}
	var r execResp
	switch mode {
	case "sched":
		resp, err := e.h.ExecutePolicy(context.Background(), pol.ID)
		if err != nil {
			return runRes{false, "err=" + strings.ReplaceAll(err.Error(), " ", "_"), 0, 0}
		}
		bb, _ := json.Marshal(resp)
		json.Unmarshal(bb, &r)
	default:
		body := map[string]any{}
		if d, c := flags(mode); true {
			if d != 'a' {
				body["dry_run"] = d == 't'
			}
			if c != 'a' {
				body["confirm"] = c == 't'
			}
		}
		st, b := e.http("POST", fmt.Sprintf("/api/v1/retention/%d/execute", pol.ID), body)
		if st != 200 {
			return runRes{false, fmt.Sprintf("err=%d", st), 0, 0}
		}
		must(json.Unmarshal(b, &r))
		if r.DryRun != isDryReq(mode) {
			e.c.Fail("dry-run-flag-lost:handleExecute", "response dry_run flag differs from the request", "")
		}
	}
	ct, err := time.Parse(time.RFC3339, r.CutoffDate)
	must(err)
	ms := append([]string{}, r.AffectedMeasurements...)
	sort.Strings(ms)
	m := "-"
	if len(ms) > 0 {
		m = strings.Join(ms, ",")
	}
	return runRes{true, fmt.Sprintf("ok cutoff=%d rows=%d files=%d meas=%s", ct.Unix(), r.DeletedCount, r.FilesDeleted, m), r.DeletedCount, r.FilesDeleted}
}

// covered: does the harness itself consider rel a data file of (db, meas)?  meas "*" = every
// first-level directory of db.
func covered(rel, db, meas string) bool {
	if !strings.HasSuffix(strings.ToLower(rel), ".parquet") {
		return false
	}
	parts := strings.Split(rel, "/")
	if len(parts) < 3 || parts[0] != db {
		return false
	}
	return meas == "*" || parts[1] == meas
}

func maxOf(ts []int64) (int64, bool) {
	ok := false
	var m int64
	for _, t := range ts {
		if t != nullT && (!ok || t > m) {
			m, ok = t, true
		}
	}
	return m, ok
}

func (e *env) opRun(mode, db, meas string, ret, buf int, replay *strings.Builder, lastDry *runRes) runRes {
	return e.opRunP("", mode, db, meas, ret, buf, replay, lastDry)
}

// opRunP: pol == "" creates a fresh policy per run (op `run`); otherwise the NAMED policy is created on
// first use and re-used afterwards (op `prun`, which repeats the policy's parameters so it is self-contained).
func (e *env) opRunP(pol, mode, db, meas string, ret, buf int, replay *strings.Builder, lastDry *runRes) runRes {
	before := map[string][]int64{}
	for k, v := range e.store {
		before[k] = v
	}
	res := e.run(mode, db, meas, ret, buf, pol)
	op := fmt.Sprintf("run %s %s %s %d %d", mode, db, meas, ret, buf)
	if pol != "" {
		op = fmt.Sprintf("prun %s %s %s %s %d %d", mode, pol, db, meas, ret, buf)
	}
	e.c.Op(op, res.out)
	fmt.Fprintf(replay, "%s   -- %s\n", op, res.out)
	after := map[string]bool{}
	ps := e.opLs()
	for _, p := range ps {
		after[p] = true
	}
	fmt.Fprintf(replay, "ls   -- %s\n", strings.Join(ps, " "))
	e.c.Tag("run:" + mode)
	if !res.ok {
		e.c.Tag("run:" + res.out)
	}
	cutoff := time.Unix(0, e.now).UTC().Add(-time.Duration(ret+buf) * 24 * time.Hour).UnixNano()
	var goneRows int64
	goneFiles := 0
	for rel, ts := range before {
		if after[rel] {
			continue
		}
		goneFiles++
		goneRows += int64(len(ts))
		delete(e.store, rel)
		if isDryReq(mode) || !res.ok {
			e.c.Fail("dry-run-deleted:handleExecute", fmt.Sprintf("%s disappeared although the request carried dry_run=true (or was refused): mode %s", rel, mode), replay.String())
			continue
		}
		if !covered(rel, db, meas) {
			e.c.Fail("outside-file-deleted:deleteOldFiles", fmt.Sprintf("%s is not a parquet file of database %q measurement %q but was deleted", rel, db, meas), replay.String())
		}
		if m, ok := maxOf(ts); ok && m*1000 == cutoff {
			e.c.Fail("boundary-file-deleted:deleteOldFiles", fmt.Sprintf("%s has MAX(time) exactly at the cutoff and was deleted", rel), replay.String())
		}
		for _, t := range ts {
			if t != nullT && t*1000 >= cutoff {
				e.c.Fail("fresh-row-deleted:deleteOldFiles", fmt.Sprintf("%s deleted although it holds a row with time %dµs >= cutoff %dns", rel, t, cutoff), replay.String())
				if g := e.rgs[rel]; g > 1 {
					e.c.Fail("unexpired-rows-deleted:multi-row-group-file", fmt.Sprintf("%s (%d row groups, time-sorted) was deleted although rows in its later row groups are at/after the cutoff (e.g. %dµs >= %dns)", rel, g, t, cutoff), replay.String())
				}
				break
			}
		}
	}
	if res.ok && isDryReq(mode) {
		var wantRows int64
		wantFiles := 0
		for rel, ts := range before {
			if m, ok := maxOf(ts); ok && covered(rel, db, meas) && m*1000 < cutoff {
				wantFiles++
				wantRows += int64(len(ts))
			}
		}
		if res.files != wantFiles || res.rows != wantRows {
			e.c.Fail("dry-run-report-wrong:handleExecute", fmt.Sprintf("dry run reported rows=%d files=%d; the stored files of the covered measurements whose rows are all older than the cutoff hold rows=%d files=%d", res.rows, res.files, wantRows, wantFiles), replay.String())
		}
	}
	if res.ok && !isDryReq(mode) {
		if res.rows != goneRows || res.files != goneFiles {
			e.c.Fail("retention-count-mismatch:deleteOldFiles", fmt.Sprintf("reported rows=%d files=%d, actually removed rows=%d files=%d", res.rows, res.files, goneRows, goneFiles), replay.String())
		}
		for rel, ts := range before {
			if !after[rel] || !covered(rel, db, meas) {
				continue
			}
			if m, ok := maxOf(ts); ok && m*1000 < cutoff {
				e.c.Fail("stale-file-kept:deleteOldFiles", fmt.Sprintf("%s remains after a successful run although all its rows are older than the cutoff (max %dµs, cutoff %dns)", rel, m, cutoff), replay.String())
				if pol != "" && e.crashed[pol] {
					e.c.Fail("expired-files-kept:stale-running-execution", fmt.Sprintf("policy %s has a leftover `running` execution row from a killed run; a later run reported success but %s (all rows older than the cutoff) is still stored", pol, rel), replay.String())
				}
			}
		}
		if lastDry != nil && lastDry.ok && (lastDry.rows != res.rows || lastDry.files != res.files) {
			e.c.Fail("dry-run-report-differs:handleExecute", fmt.Sprintf("dry run reported rows=%d files=%d, the real run at the same instant deleted rows=%d files=%d", lastDry.rows, lastDry.files, res.rows, res.files), replay.String())
		}
		if goneFiles > 0 {
			e.c.Tag("run:deleted-some")
		}
	}
	return res
}

// ---------------------------------------------------------------- generation

const day = int64(86400) * 1_000_000 // µs
const hour = int64(3600) * 1_000_000

type gen struct {
	r *vh.Rand
}

// uniq: never re-create a path inside one process. Removing a parquet file and creating another one
// under the same path makes DuckDB's parquet_metadata_cache (enabled by arc) intermittently serve
// the OLD footer; arc's writers never do that. In-place changes go through rename-over (opReplace,
// the real DeleteHandler), which was never observed stale. Uniqueness comes from per-case database
// names, so partition directories and base names are the REAL ones and collide freely.
var uniq int

func u() int { uniq++; return uniq }

// timesAround builds a file's row times relative to the cutoff (µs): kind selects the layout class.
func (g gen) timesAround(cutUs int64, kind int) []int64 {
	r := g.r
	n := r.Range(1, 4)
	var ts []int64
	old := func() int64 {
		switch r.Intn(4) {
		case 0: // same hour partition as the cutoff (when the cutoff is not at its very start)
			return cutUs - 1 - int64(r.Intn(1000))
		case 1: // same day, earlier hour
			return cutUs - 1 - int64(r.Intn(3))*hour - int64(r.Intn(1000))
		default:
			return cutUs - 1 - int64(r.Intn(3))*day/2 - int64(r.Intn(1000))
		}
	}
	fresh := func() int64 {
		if r.Chance(40) {
			return cutUs + 1 + int64(r.Intn(1000))
		}
		return cutUs + 1 + int64(r.Intn(3))*day/2 + int64(r.Intn(1000))
	}
	switch kind {
	case 0: // all below
		for i := 0; i < n; i++ {
			ts = append(ts, old())
		}
	case 1: // all above
		for i := 0; i < n; i++ {
			ts = append(ts, fresh())
		}
	case 2: // across
		ts = append(ts, old(), fresh())
		for i := 2; i < n; i++ {
			ts = append(ts, vh.Pick(r, []int64{old(), fresh()}))
		}
	case 3: // max exactly at the cutoff (to the µs)
		for i := 1; i < n; i++ {
			ts = append(ts, old())
		}
		ts = append(ts, cutUs)
	case 4: // max one µs below / above
		for i := 1; i < n; i++ {
			ts = append(ts, old())
		}
		ts = append(ts, cutUs+vh.Pick(r, []int64{-1, 1}))
	case 5: // NULL times mixed in
		ts = append(ts, nullT)
		for i := 1; i < n; i++ {
			ts = append(ts, vh.Pick(r, []int64{old(), nullT, fresh()}))
		}
	case 6: // empty file
	case 7: // all below, newest row a few seconds before the cutoff (inside the cutoff's hour/day partition)
		for i := 0; i < n; i++ {
			ts = append(ts, cutUs-1_000_000*int64(1+r.Intn(5))-int64(r.Intn(1000)))
		}
	}
	for i := len(ts) - 1; i > 0; i-- {
		j := r.Intn(i + 1)
		ts[i], ts[j] = ts[j], ts[i]
	}
	return ts
}

var measNames = []string{"m", "m2", "mm", "m_x", "cpu"}

// partPath: the REAL storage layout — db/m/YYYY/MM/DD/HH/<file> for hourly files, db/m/YYYY/MM/DD/<m>_daily.parquet
// for daily-compacted ones; the partition is the one holding the file's newest row (refUs when it has none).
func (e *env) partPath(g gen, db, m string, ts []int64, refUs int64, daily bool) string {
	t, ok := maxOf(ts)
	if !ok {
		t = refUs
	}
	tm := time.UnixMicro(t).UTC()
	names := []string{"data.parquet", "data.parquet", "f0.parquet", "DATA.PARQUET", m + "_compacted.parquet"}
	dir := tm.Format("2006/01/02/15")
	if daily {
		dir = tm.Format("2006/01/02")
		names = []string{m + "_daily.parquet", m + "_daily.parquet", "data_daily.parquet"}
	}
	for try := 0; ; try++ {
		name := vh.Pick(g.r, names)
		if try > 3 {
			name = fmt.Sprintf("f%d.parquet", try)
		}
		p := fmt.Sprintf("%s/%s/%s/%s", db, m, dir, name)
		if !e.used[p] {
			return p
		}
	}
}

func main() {
	c := vh.Start()
	e := newEnv(c)
	defer e.close()
	r := vh.NewRand(c.Seed)
	g := gen{r}
	n := c.N
	if n == 0 {
		n = 120
		if c.Thorough() {
			n = 1200
		}
	}
	base := int64(1_750_000_000) * 1_000_000_000 // 2025-06-15 15:06:40 UTC: the cutoff falls INSIDE an hour and a day

	caseNo := 0
	var D, D2, D3 string // per-case database names sharing prefixes: D3 < D < D2 as strings
	runCase := func(tag string, f func(replay *strings.Builder) bool) {
		caseNo++
		D3 = fmt.Sprintf("db%d", caseNo)
		D = D3 + "x"
		D2 = D + "2"
		var replay strings.Builder
		e.opReset()
		replay.WriteString("reset\n")
		nontriv := f(&replay)
		seen := map[string]bool{}
		for p := range e.store {
			if b := filepath.Base(p); seen[b] {
				e.c.Tag("layout:same-basename")
				break
			} else {
				seen[b] = true
			}
		}
		e.c.Tag("case:" + tag)
		e.c.Case(replay.String(), nontriv)
	}
	addFile := func(replay *strings.Builder, rel string, ts []int64) {
		e.opFile(rel, ts)
		fmt.Fprintf(replay, "file %s %s\n", rel, encTimes(ts))
	}
	setNow := func(replay *strings.Builder, ns int64) {
		e.opNow(ns)
		fmt.Fprintf(replay, "now %d\n", ns)
	}
	replace := func(replay *strings.Builder, rel string, ts []int64) {
		e.opReplace(rel, ts)
		fmt.Fprintf(replay, "replace %s %s   -- same path, new content (rename-over)\n", rel, encTimes(ts))
		e.c.Tag("history:replace-in-place")
	}
	del := func(replay *strings.Builder, db, m string, x int64) {
		e.opDel(db, m, x)
		fmt.Fprintf(replay, "del %s %s %d   -- POST /api/v1/delete where epoch_us(time) >= %d\n", db, m, x, x)
	}
	ceilUs := func(ns int64) int64 { return (ns + 999) / 1000 } // smallest µs value >= the ns instant
	tagPartition := func(rel string, ts []int64, cutNs int64) {
		// does the file sit in the hour/day partition that CONTAINS the cutoff while all its rows are older?
		parts := strings.Split(rel, "/")
		m, ok := maxOf(ts)
		if !ok || m*1000 >= cutNs || len(parts) < 6 {
			return
		}
		ct := time.Unix(0, cutNs).UTC()
		if len(parts) >= 7 && strings.Join(parts[len(parts)-5:len(parts)-1], "/") == ct.Format("2006/01/02/15") {
			e.c.Tag("layout:all-old-file-in-cutoff-hour")
		}
		if strings.Join(parts[len(parts)-4:len(parts)-1], "/") == ct.Format("2006/01/02") {
			e.c.Tag("layout:all-old-file-in-cutoff-day")
		}
	}

	// (1) edge grid: layout class × sub-µs phase of the clock × execution mode, real partition paths
	for _, phase := range []int64{0, 1, 500, 999} {
		for kind := 0; kind <= 7; kind++ {
			for _, mode := range []string{"http", "sched"} {
				if !c.Thorough() && (int(phase)+kind+len(mode))%2 != int(c.Seed%2) {
					continue
				}
				runCase(fmt.Sprintf("edge:kind%d", kind), func(replay *strings.Builder) bool {
					now := base + phase
					cutNs := now - int64(37)*86400*1_000_000_000
					cutUs := cutNs / 1000 // floor; equals the cutoff exactly iff phase == 0
					if kind == 3 && phase != 0 {
						cutUs++ // smallest µs value >= cutoff
					}
					setNow(replay, now)
					ts := g.timesAround(cutUs, kind)
					p := e.partPath(g, D, "m", ts, cutUs, false)
					addFile(replay, p, ts)
					tagPartition(p, ts, cutNs)
					fr := []int64{cutUs + hour}
					addFile(replay, e.partPath(g, D, "m", fr, cutUs, false), fr) // next hour, fresh
					if kind%2 == 1 {
						dl := []int64{cutUs - 2*hour, cutUs - 3*hour - 5}
						pd := e.partPath(g, D, "m", dl, cutUs, true) // daily-compacted file of the cutoff's day, all rows older
						addFile(replay, pd, dl)
						tagPartition(pd, dl, cutNs)
					}
					od := []int64{cutUs - day}
					addFile(replay, e.partPath(g, D, "m2", od, cutUs, false), od)
					addFile(replay, e.partPath(g, D2, "m", od, cutUs, false), od)
					addFile(replay, e.partPath(g, D3, "m", od, cutUs, false), od)
					addFile(replay, filepath.Dir(p)+"/manifest.json", nil)
					d := e.opRun("dry", D, "m", 30, 7, replay, nil)
					res := e.opRun(mode, D, "m", 30, 7, replay, &d)
					return res.files > 0
				})
			}
		}
	}
	// (1b) histories on the ONE long-lived handler with in-place content changes between runs
	for _, mode := range []string{"http", "sched"} {
		// a straddling file is kept; the DELETE API removes its rows >= cutoff in place; the next run must delete it
		runCase("edge:rewrite-then-run", func(replay *strings.Builder) bool {
			now := base + 7
			cutNs := now - int64(37)*86400*1_000_000_000
			cutUs := cutNs / 1000
			setNow(replay, now)
			ts := []int64{cutUs - 5_000_000, cutUs + 5_000_000, cutUs - 9_000_000}
			p := e.partPath(g, D, "m", []int64{cutUs - 5_000_000}, cutUs, false)
			addFile(replay, p, ts)
			e.opRun("dry", D, "m", 30, 7, replay, nil)
			e.opRun(mode, D, "m", 30, 7, replay, nil)
			del(replay, D, "m", ceilUs(cutNs))
			d := e.opRun("dry", D, "m", 30, 7, replay, nil)
			res := e.opRun(mode, D, "m", 30, 7, replay, &d)
			return res.files > 0
		})
		// a dry run sees an expired file; it is replaced under the same name by newer rows; the real run must keep it
		runCase("edge:dry-replace-run", func(replay *strings.Builder) bool {
			now := base + 7
			cutNs := now - int64(37)*86400*1_000_000_000
			cutUs := cutNs / 1000
			setNow(replay, now)
			ts := []int64{cutUs - 5_000_000, cutUs - 9_000_000}
			p := e.partPath(g, D, "m", ts, cutUs, false)
			addFile(replay, p, ts)
			e.opRun("dry", D, "m", 30, 7, replay, nil)
			replace(replay, p, []int64{cutUs - 5_000_000, cutUs + 60_000_000, cutUs + 61_000_000})
			res := e.opRun(mode, D, "m", 30, 7, replay, nil)
			// and back: replaced by expired rows only, the next run must delete it
			replace(replay, p, []int64{cutUs - 5_000_000})
			res2 := e.opRun(mode, D, "m", 30, 7, replay, nil)
			return res.files > 0 || res2.files > 0
		})
	}
	// flag matrix of POST /:id/execute: dry_run × confirm × absent, on an expired file that a real run deletes
	for _, fm := range []string{"x:tt", "x:ta", "x:tf", "x:ft", "x:at", "x:ff", "x:fa", "x:af", "x:aa"} {
		runCase("edge:flags-"+fm[2:], func(replay *strings.Builder) bool {
			now := base + 3
			cutUs := (now - int64(37)*86400*1_000_000_000) / 1000
			setNow(replay, now)
			ts := []int64{cutUs - 5_000_000, cutUs - 9_000_000}
			addFile(replay, e.partPath(g, D, "m", ts, cutUs, false), ts)
			fr := []int64{cutUs + 5_000_000}
			addFile(replay, e.partPath(g, D, "m", fr, cutUs, false), fr)
			res := e.opRun(fm, D, "m", 30, 7, replay, nil)
			res2 := e.opRun("http", D, "m", 30, 7, replay, nil)
			return res.files > 0 || res2.files > 0
		})
	}
	// multi-row-group files (time-sorted, ROW_GROUP_SIZE 2048, 3–4 groups): the cutoff falls between row
	// groups / inside a later group / inside the first group / after the whole file
	for k, off := range []int64{2048, 2047, 3000, 4096, 100, 7000} {
		for _, mode := range []string{"http", "sched"} {
			if !c.Thorough() && (k+len(mode))%2 != int(c.Seed%2) {
				continue
			}
			runCase(fmt.Sprintf("edge:multi-row-group-%d", off), func(replay *strings.Builder) bool {
				now := base // phase 0: cutoff is a whole µs
				cutUs := (now - int64(37)*86400*1_000_000_000) / 1000
				setNow(replay, now)
				step := int64(1_000_000)
				start := cutUs - off*step // row `off` sits exactly at the cutoff
				n := 6144
				last := []int64{start + int64(n-1)*step}
				rel := e.partPath(g, D, "m", last, cutUs, true)
				e.opFileGen(rel, start, step, n, 2048)
				fmt.Fprintf(replay, "filegen %s %d %d %d 2048   -- %d time-sorted rows, 1 s apart, row %d exactly at the cutoff\n", rel, start, step, n, n, off)
				d := e.opRun("dry", D, "m", 30, 7, replay, nil)
				res := e.opRun(mode, D, "m", 30, 7, replay, &d)
				return res.files > 0
			})
		}
	}
	// crash histories: a run of a NAMED policy is killed (leftover `running` execution row), the server
	// restarts, later scheduled runs under an advancing clock must still delete every expired file
	for k, point := range []string{"start", "mid", "complete"} {
		for _, later := range []string{"sched", "http"} {
			if !c.Thorough() && (k+len(later))%2 != int(c.Seed%2) && point != "start" {
				continue
			}
			runCase("edge:crash-"+point, func(replay *strings.Builder) bool {
				pol := fmt.Sprintf("crashpol%d", caseNo)
				now := base + 11
				cutUs := (now - int64(37)*86400*1_000_000_000) / 1000
				setNow(replay, now)
				var olds []string
				for i := 0; i < 3; i++ {
					ts := []int64{cutUs - int64(i+1)*hour - 5, cutUs - int64(i+1)*hour - 9}
					p := e.partPath(g, D, "m", ts, cutUs, false)
					addFile(replay, p, ts)
					olds = append(olds, p)
				}
				soon := []int64{cutUs + 10*1_000_000, cutUs + 20*1_000_000} // expires after the clock moved on
				ps := e.partPath(g, D, "m", soon, cutUs, false)
				addFile(replay, ps, soon)
				fr := []int64{cutUs + 30*day}
				addFile(replay, e.partPath(g, D, "m", fr, cutUs, false), fr)
				any := false
				switch point {
				case "start":
					e.opRunP(pol, "dry", D, "m", 30, 7, replay, nil) // creates the policy
					e.opCrash(pol, "start")
				case "mid":
					e.opRunP(pol, "dry", D, "m", 30, 7, replay, nil)
					e.opCrash(pol, "start")
					e.opRm(olds[0]) // the killed run had already removed one eligible file
					fmt.Fprintf(replay, "rm %s\n", olds[0])
				case "complete":
					r0 := e.opRunP(pol, "sched", D, "m", 30, 7, replay, nil) // all deletions done …
					any = r0.files > 0
					e.opCrash(pol, "complete") // … but the process died before recordExecutionComplete
				}
				fmt.Fprintf(replay, "crash %s %s   -- run killed: leftover `running` execution row\n", pol, point)
				e.opRestart()
				replay.WriteString("restart\n")
				for step := 0; step < 2; step++ {
					now += 3600 * 1_000_000_000
					setNow(replay, now)
					res := e.opRunP(pol, later, D, "m", 30, 7, replay, nil)
					any = any || res.files > 0
				}
				return any
			})
		}
	}
	// policy validation gate
	runCase("edge:policy-gate", func(replay *strings.Builder) bool {
		setNow(replay, base)
		addFile(replay, e.partPath(g, D, "m", []int64{0}, 0, false), []int64{0})
		e.opRun("http", D, "m", 0, 0, replay, nil)
		e.opRun("http", D, "m", 5, 5, replay, nil)
		e.opRun("http", D, "m", 5, 7, replay, nil)
		e.opRun("http", D, "m", 5, 4, replay, nil)
		e.opRun("nocf", D, "m", 5, 4, replay, nil)
		return true
	})

	// (2) random layouts and histories
	for k := 0; k < n; k++ {
		runCase("random", func(replay *strings.Builder) bool {
			dbs := []string{D, D2, D3}
			now := vh.Pick(r, []int64{base, base, base, base - 400*1_000_000_000 /* cutoff on an hour boundary */}) +
				int64(r.Intn(1000))*1_000_000_000*int64(r.Intn(2)) + vh.Pick(r, []int64{0, 0, 1, 999, 1000, 123456})
			setNow(replay, now)
			ret := r.Range(1, 40)
			buf := r.Intn(ret)
			cutNs := now - int64(ret+buf)*86400*1_000_000_000
			cutUs := cutNs / 1000
			nm := r.Range(1, 4)
			nf := r.Range(1, 7)
			var files []string
			for i := 0; i < nf; i++ {
				db := dbs[0]
				if r.Chance(25) {
					db = vh.Pick(r, dbs)
				}
				m := measNames[r.Intn(nm)]
				kind := vh.Pick(r, []int{0, 0, 1, 1, 2, 2, 2, 3, 4, 5, 6, 7, 7})
				ts := g.timesAround(cutUs, kind)
				p := e.partPath(g, db, m, ts, cutUs, r.Chance(25))
				addFile(replay, p, ts)
				tagPartition(p, ts, cutNs)
				files = append(files, p)
				if r.Chance(10) {
					np := filepath.Dir(p) + "/notes.json"
					if !e.used[np] {
						addFile(replay, np, nil)
					}
				}
			}
			if r.Chance(10) {
				step := vh.Pick(r, []int64{1_000_000, 500_000, 3_000_000})
				off := int64(vh.Pick(r, []int{-50, 100, 2047, 2048, 2049, 3000, 4096, 5000, 6143, 6144, 7000}))
				start := cutUs - off*step
				rel := e.partPath(g, dbs[0], measNames[0], []int64{start + 6143*step}, cutUs, true)
				e.opFileGen(rel, start, step, 6144, 2048)
				fmt.Fprintf(replay, "filegen %s %d %d 6144 2048\n", rel, start, step)
				files = append(files, rel)
			}
			namedPol, polDB, polMeas := "", "", ""
			if r.Chance(30) {
				namedPol = fmt.Sprintf("pol%d", caseNo)
			}
			anyDel := false
			steps := r.Range(1, 4)
			for s := 0; s < steps; s++ {
				meas := "*"
				if r.Chance(55) {
					meas = measNames[r.Intn(nm+1)]
				}
				db := dbs[0]
				if r.Chance(15) {
					db = vh.Pick(r, dbs)
				}
				var d *runRes
				if r.Chance(60) {
					x := e.opRun(vh.Pick(r, []string{"dry", "dry", "x:tt", "x:ta"}), db, meas, ret, buf, replay, nil)
					d = &x
					// the stored data changes between the dry run and the real run: no comparison of the two reports then
					if r.Chance(20) {
						var live []string
						for _, p := range files {
							if _, ok := e.store[p]; ok {
								live = append(live, p)
							}
						}
						if len(live) > 0 {
							replace(replay, vh.Pick(r, live), g.timesAround(cutUs, vh.Pick(r, []int{0, 1, 2, 4, 7})))
							d = nil
						}
					}
				}
				var res runRes
				if namedPol != "" {
					// a named policy keeps its database / measurement filter for the whole history
					if s == 0 {
						polDB, polMeas = db, meas
					}
					if d != nil && (db != polDB || meas != polMeas) {
						d = nil
					}
					res = e.opRunP(namedPol, vh.Pick(r, []string{"http", "sched"}), polDB, polMeas, ret, buf, replay, d)
					if s+1 < steps && r.Chance(50) {
						point := vh.Pick(r, []string{"start", "complete"})
						e.opCrash(namedPol, point)
						fmt.Fprintf(replay, "crash %s %s\n", namedPol, point)
						if r.Chance(70) {
							e.opRestart()
							replay.WriteString("restart\n")
						}
					}
				} else {
					res = e.opRun(vh.Pick(r, []string{"http", "sched"}), db, meas, ret, buf, replay, d)
				}
				anyDel = anyDel || res.files > 0
				if s+1 < steps {
					// history between runs of the same handler: the DELETE API rewrites files in place, a restore
					// replaces one, compaction merges two into a daily file; the clock moves on
					switch r.Intn(5) {
					case 0, 1:
						m := measNames[r.Intn(nm)]
						x := vh.Pick(r, []int64{ceilUs(cutNs), ceilUs(cutNs), cutUs - int64(r.Intn(3))*hour, cutUs + int64(r.Intn(2000)), cutUs + hour})
						del(replay, dbs[0], m, x)
					case 2:
						var live []string
						for _, p := range files {
							if _, ok := e.store[p]; ok {
								live = append(live, p)
							}
						}
						if len(live) > 0 {
							replace(replay, vh.Pick(r, live), g.timesAround(cutUs, vh.Pick(r, []int{0, 1, 2, 3, 4, 5, 7})))
						}
					case 3:
						var live []string
						for _, p := range files {
							if ts, ok := e.store[p]; ok && strings.HasSuffix(strings.ToLower(p), ".parquet") && len(ts) > 0 {
								live = append(live, p)
							}
						}
						if len(live) >= 2 {
							a, b := live[0], live[1]
							pa := strings.Split(a, "/")
							if strings.HasPrefix(b, pa[0]+"/"+pa[1]+"/") {
								merged := append(append([]int64{}, e.store[a]...), e.store[b]...)
								mp := e.partPath(g, pa[0], pa[1], merged, cutUs, true)
								addFile(replay, mp, merged)
								files = append(files, mp)
								e.opRm(a)
								e.opRm(b)
								fmt.Fprintf(replay, "rm %s\nrm %s\n", a, b)
								e.c.Tag("history:compaction")
							}
						}
					}
					now += vh.Pick(r, []int64{0, 0, 1000, 86400 * 1_000_000_000, 43200 * 1_000_000_000, int64(r.Intn(3*86400)) * 1_000_000_000})
					setNow(replay, now)
					cutNs = now - int64(ret+buf)*86400*1_000_000_000
					cutUs = cutNs / 1000
				}
			}
			return anyDel
		})
	}
	verifclock.Real()
	c.Finish("cases = (file layout in the real db/m/YYYY/MM/DD/HH/<file> and daily db/m/YYYY/MM/DD/<m>_daily.parquet partitions over 1–4 measurements / 3 databases with shared name prefixes and colliding base names: files below/across/above the cutoff incl. all-old files inside the hour/day partition that contains the cutoff, max exactly at / one µs around the cutoff, NULL times, empty files, non-parquet files; history of 1–4 retention runs on ONE long-lived handler (dry run + HTTP or scheduler execution, with/without measurement filter) interleaved with in-place rewrites by the real DELETE API, same-path replacement, compaction-style merges and clock advances); edge grid, then random; non-trivial = some run deleted a file; distinct = distinct op text")
}
