//go:build verif

// C28 handler-level harness: the REAL QueryHandler.executeQuery on a fiber app (token info injected
// by a middleware, governance-enabled license) in front of the REAL governance.Manager under the
// virtual clock. Every request carries an empty SQL string, so a request that passes the governance
// block stops at request validation (400); a 429 is a governance rejection.
//
// Ops are the manager ops of the c28 harness (m.new / m.set / m.del / m.query / m.burst / m.usage),
// m.query and m.burst being issued over HTTP; the same model driver (drive_c28) is diffed against
// the verdicts and the full limiter/tracker state after every op, so the order in which
// executeQuery consults CheckRateLimit and CheckQuota is checked against `handleTok`.
//
// Property monitor: a request answered with a rate-limit 429 must leave the token's quota counters
// untouched, and after a burst GetTokenUsage may have grown by at most the number of admitted
// requests (key quota-consumed-on-ratelimit-reject:executeQuery).
package main

import (
	"context"
	"database/sql"
	"fmt"
	"io"
	"net/http"
	"net/http/httptest"
	"strconv"
	"strings"
	"time"

	"github.com/basekick-labs/arc/internal/api"
	"github.com/basekick-labs/arc/internal/auth"
	"github.com/basekick-labs/arc/internal/config"
	"github.com/basekick-labs/arc/internal/governance"
	"github.com/basekick-labs/arc/internal/license"
	"github.com/basekick-labs/arc/internal/metrics"
	"github.com/basekick-labs/arc/internal/verif/vh"
	"github.com/basekick-labs/arc/internal/verifclock"
	"github.com/gofiber/fiber/v2"
	_ "github.com/mattn/go-sqlite3"
	"github.com/rs/zerolog"
)

const (
	sec = int64(time.Second)
	hr  = int64(time.Hour)
	day = 24 * int64(time.Hour)
	h0  = int64(1700002800) * sec // an hour boundary
	d0  = int64(1700006400) * sec // a UTC day boundary
)

func slotsStr(sl []int) string {
	var b []string
	for i, v := range sl {
		if v != 0 {
			b = append(b, fmt.Sprintf("%d:%d", i, v))
		}
	}
	if len(b) == 0 {
		return "-"
	}
	return strings.Join(b, ",")
}

func swStr(s *governance.VerifSW) string {
	st := s.VerifState()
	return fmt.Sprintf("total=%d cur=%d last=%d limit=%d slots=%s", st.Total, st.Cur, st.Last, st.Limit, slotsStr(st.Slots))
}

func qtStr(q *governance.VerifQT) string {
	st := q.VerifState()
	return fmt.Sprintf("h=%d d=%d hr=%d dr=%d mh=%d md=%d", st.H, st.D, st.HourReset, st.DayReset, st.MaxH, st.MaxD)
}

func tokStr(m *governance.Manager, tok int64) string {
	mi, ho, qt := m.VerifTok(tok)
	a, b, c := "M[-]", "H[-]", "Q[-]"
	if mi != nil {
		a = "M[" + swStr(mi) + "]"
	}
	if ho != nil {
		b = "H[" + swStr(ho) + "]"
	}
	if qt != nil {
		c = "Q[" + qtStr(qt) + "]"
	}
	return a + " " + b + " " + c
}

type hcase struct {
	c     *vh.Ctx
	canon strings.Builder
	rej   bool
	db    *sql.DB
	m     *governance.Manager
	app   *fiber.App
	has   map[int64]bool
}

func (k *hcase) op(op, out string) {
	k.c.Op(op, out)
	k.canon.WriteString(op)
	k.canon.WriteByte(';')
}

func newCase(c *vh.Ctx, lc *license.Client, d [4]int) *hcase {
	db, err := sql.Open("sqlite3", ":memory:")
	if err != nil {
		panic(err)
	}
	db.SetMaxOpenConns(1)
	cfg := &config.GovernanceConfig{Enabled: true, DefaultRateLimitPerMin: d[0], DefaultRateLimitPerHour: d[1], DefaultMaxQueriesPerHour: d[2], DefaultMaxQueriesPerDay: d[3]}
	m, err := governance.NewManager(&governance.ManagerConfig{DB: db, Config: cfg, Logger: zerolog.Nop()})
	if err != nil {
		panic(err)
	}
	app := fiber.New(fiber.Config{DisableStartupMessage: true})
	app.Use(func(fc *fiber.Ctx) error {
		id, _ := strconv.ParseInt(fc.Get("X-Verif-Token"), 10, 64)
		fc.Locals("token_info", &auth.TokenInfo{ID: id, Name: "verif", Enabled: true})
		return fc.Next()
	})
	app.Post("/api/v1/query", api.VerifC28QueryHandler(m, lc))
	k := &hcase{c: c, db: db, m: m, app: app, has: map[int64]bool{}}
	k.op(fmt.Sprintf("m.new %d %d %d %d", d[0], d[1], d[2], d[3]), "ok")
	return k
}

func (k *hcase) close() { k.app.Shutdown(); k.db.Close() }

// request sends one query of token tok through the real handler.
// 0 admitted (got past governance), 1 rl-minute, 2 rl-hour, 3 q-hour, 4 q-day, 5 unexpected.
func (k *hcase) request(tok int64) (int, int, string) {
	req := httptest.NewRequest(http.MethodPost, "/api/v1/query", strings.NewReader(`{"sql":""}`))
	req.Header.Set("Content-Type", "application/json")
	req.Header.Set("X-Verif-Token", strconv.FormatInt(tok, 10))
	resp, err := k.app.Test(req, -1)
	if err != nil {
		return 5, 0, "error:" + err.Error()
	}
	b, _ := io.ReadAll(resp.Body)
	resp.Body.Close()
	body := string(b)
	if resp.StatusCode != fiber.StatusTooManyRequests {
		if resp.StatusCode == fiber.StatusBadRequest {
			return 0, 0, ""
		}
		return 5, 0, fmt.Sprintf("status=%d", resp.StatusCode)
	}
	retry, _ := strconv.Atoi(resp.Header.Get("Retry-After"))
	switch {
	case strings.Contains(body, "Rate limit exceeded") && strings.Contains(body, "per minute"):
		return 1, retry, ""
	case strings.Contains(body, "Rate limit exceeded") && strings.Contains(body, "per hour"):
		return 2, retry, ""
	case strings.Contains(body, "Hourly query quota exceeded"):
		return 3, 0, ""
	case strings.Contains(body, "Daily query quota exceeded"):
		return 4, 0, ""
	}
	return 5, 0, "429:" + strings.ReplaceAll(body, " ", "_")
}

type qsnap struct {
	present bool
	h, d    int
}

func (k *hcase) snap(tok int64) qsnap {
	_, _, qt := k.m.VerifTok(tok)
	if qt == nil {
		return qsnap{}
	}
	st := qt.VerifState()
	return qsnap{true, st.H, st.D}
}

var vnames = []string{"admit", "rl-minute", "rl-hour", "q-hour", "q-day", "unexpected"}

const failKey = "quota-consumed-on-ratelimit-reject:executeQuery"

func (k *hcase) query(tok, now int64) {
	verifclock.Set(now)
	before := k.snap(tok)
	v, retry, extra := k.request(tok)
	after := k.snap(tok)
	out := vnames[v]
	if v == 1 || v == 2 {
		out += fmt.Sprintf(" retry=%d", retry)
	}
	if v == 5 {
		out += " " + extra
	}
	k.op(fmt.Sprintf("m.query %d %d", tok, now), out+" "+tokStr(k.m, tok))
	k.c.Tag("h.query:" + vnames[v])
	if v != 0 {
		k.rej = true
	}
	if (v == 1 || v == 2) && before != after {
		k.c.Fail(failKey, fmt.Sprintf("executeQuery: token %d got a rate-limit 429 at %d, yet its quota counters went from %+v to %+v (a query rejected by the rate limit must consume no quota)", tok, now, before, after), k.canon.String())
	}
}

func (k *hcase) burst(tok, now int64, n int) {
	verifclock.Set(now)
	before := k.snap(tok)
	var cnt [6]int
	for i := 0; i < n; i++ {
		b := k.snap(tok)
		v, _, _ := k.request(tok)
		a := k.snap(tok)
		cnt[v]++
		if (v == 1 || v == 2) && b != a {
			k.c.Fail(failKey, fmt.Sprintf("executeQuery: token %d got a rate-limit 429 at %d (request %d of a burst of %d), yet its quota counters went from %+v to %+v", tok, now, i+1, n, b, a), k.canon.String()+fmt.Sprintf("m.burst %d %d %d;", tok, now, n))
		}
	}
	k.op(fmt.Sprintf("m.burst %d %d %d", tok, now, n),
		fmt.Sprintf("admit=%d rlm=%d rlh=%d qh=%d qd=%d ", cnt[0], cnt[1], cnt[2], cnt[3], cnt[4])+tokStr(k.m, tok))
	k.c.Tag("h.burst")
	if cnt[0] < n {
		k.rej = true
	}
	// what the token sees on the usage endpoint: grown by at most the number of admitted requests
	// (the clock is frozen during the burst, so a reset can only make the counters smaller)
	u := k.m.GetTokenUsage(tok)
	k.op(fmt.Sprintf("m.usage %d %d", tok, now),
		fmt.Sprintf("h=%d d=%d hr=%d dr=%d remM=%d remH=%d ", u.QueriesThisHour, u.QueriesThisDay, u.HourResetAt.UnixNano(), u.DayResetAt.UnixNano(),
			u.RateLimitRemainingPerMin, u.RateLimitRemainingPerHour)+tokStr(k.m, tok))
	if cnt[1]+cnt[2] > 0 && (u.QueriesThisHour > before.h+cnt[0] || u.QueriesThisDay > before.d+cnt[0]) {
		k.c.Fail(failKey, fmt.Sprintf("executeQuery: token %d sent a burst of %d at %d: %d admitted, %d rate limited; GetTokenUsage went from hour=%d day=%d to hour=%d day=%d (more than the admitted requests)",
			tok, n, now, cnt[0], cnt[1]+cnt[2], before.h, before.d, u.QueriesThisHour, u.QueriesThisDay), k.canon.String())
	}
}

func (k *hcase) set(tok int64, p [4]int, now int64) {
	verifclock.Set(now)
	pol := &governance.Policy{TokenID: tok, RateLimitPerMinute: p[0], RateLimitPerHour: p[1], MaxQueriesPerHour: p[2], MaxQueriesPerDay: p[3]}
	var err error
	if k.has[tok] {
		_, err = k.m.UpdatePolicy(context.Background(), pol)
	} else {
		_, err = k.m.CreatePolicy(context.Background(), pol)
	}
	out := "ok " + tokStr(k.m, tok)
	if err != nil {
		out = "error:" + strings.ReplaceAll(err.Error(), " ", "_")
	}
	k.has[tok] = true
	k.op(fmt.Sprintf("m.set %d %d %d %d %d %d", tok, p[0], p[1], p[2], p[3], now), out)
	k.c.Tag("h.set")
}

func (k *hcase) del(tok int64) {
	err := k.m.DeletePolicy(context.Background(), tok)
	out := "ok " + tokStr(k.m, tok)
	if err != nil {
		out = "error:" + strings.ReplaceAll(err.Error(), " ", "_")
	}
	delete(k.has, tok)
	k.op(fmt.Sprintf("m.del %d", tok), out)
	k.c.Tag("h.del")
}

func (k *hcase) done() { k.c.Case(k.canon.String(), k.rej); k.close() }

func main() {
	c := vh.Start()
	metrics.Init(zerolog.Nop())
	lc := license.VerifC28GovernanceClient()
	if !lc.CanUseQueryGovernance() {
		panic("license hook does not enable query governance")
	}
	r := vh.NewRand(c.Seed)

	// (0) minimal cases: rate limit 2/min + hourly quota 10, burst of 4 (two rejected by the rate limit);
	// the same with the per-hour limiter and the daily quota, and with the default policy
	{
		k := newCase(c, lc, [4]int{})
		k.set(42, [4]int{2, 0, 10, 0}, h0+5)
		k.burst(42, h0+5, 4)
		k.done()
		k = newCase(c, lc, [4]int{})
		k.set(42, [4]int{0, 1, 0, 10}, h0+5)
		k.query(42, h0+5)
		k.query(42, h0+6)
		k.done()
		k = newCase(c, lc, [4]int{1, 0, 3, 3})
		k.query(7, h0+5)
		k.query(7, h0+5)
		k.query(7, h0+6)
		k.done()
	}
	// (1) grid: (rpm, rph, qh, qd) × burst size × phase w.r.t. slot / hour boundary
	gi := 0
	for _, p := range [][4]int{{1, 0, 2, 0}, {2, 0, 3, 0}, {2, 0, 0, 3}, {0, 2, 3, 0}, {0, 1, 0, 2}, {2, 3, 4, 5}, {3, 2, 2, 4}, {1, 1, 1, 1}, {2, 0, 2, 0}, {0, 0, 2, 0}, {2, 0, 0, 0}} {
		for _, t1 := range []int64{h0 - 2, h0, h0 + sec - 1, d0 - 1, d0} {
			for _, gap := range []int64{0, 1, sec, 59 * sec, 60 * sec, hr - 1, hr} {
				gi++
				if !c.Thorough() && gi%3 != int(c.Seed%3) {
					continue
				}
				k := newCase(c, lc, [4]int{})
				k.set(1, p, t1)
				k.burst(1, t1, 5)
				k.query(1, t1+gap)
				k.burst(1, t1+gap, 3)
				k.done()
			}
		}
	}
	// (2) random histories
	n := 2000
	if c.Thorough() {
		n = 30000
	}
	if c.N > 0 {
		n = c.N
	}
	for i := 0; i < n; i++ {
		var defs [4]int
		if r.Chance(40) {
			defs = [4]int{vh.Pick(r, []int{0, 1, 2, 3}), vh.Pick(r, []int{0, 0, 2, 4}), vh.Pick(r, []int{0, 0, 2, 3}), vh.Pick(r, []int{0, 0, 3, 5})}
		}
		k := newCase(c, lc, defs)
		now := vh.Pick(r, []int64{h0, d0, h0 - 61*sec, d0 - hr}) + vh.Pick(r, []int64{0, 1, -1, sec / 2, -30 * sec})
		back := r.Chance(25)
		steps := r.Range(5, 30)
		for j := 0; j < steps; j++ {
			switch r.Intn(9) {
			case 0:
				now += 1
			case 1:
				now += int64(r.Intn(int(2 * sec)))
			case 2:
				now += sec - now%sec // next slot boundary
			case 3:
				now += vh.Pick(r, []int64{58, 59, 60, 61}) * sec
			case 4:
				now += hr - now%hr + vh.Pick(r, []int64{-1, 0, 1})
			case 5:
				now += day - now%day + vh.Pick(r, []int64{-1, 0, 1})
			case 6:
				if back {
					now -= vh.Pick(r, []int64{1, sec, 61 * sec, hr})
				}
			}
			tok := int64(1 + r.Intn(2))
			switch x := r.Intn(20); {
			case x < 9:
				k.query(tok, now)
			case x < 14:
				k.burst(tok, now, r.Range(2, 7))
			case x < 18:
				k.set(tok, [4]int{vh.Pick(r, []int{0, 1, 2, 3}), vh.Pick(r, []int{0, 0, 2, 4}), vh.Pick(r, []int{0, 1, 2, 4}), vh.Pick(r, []int{0, 0, 2, 3, 6})}, now)
			default:
				k.del(tok)
			}
		}
		k.done()
	}
	verifclock.Real()
	c.Finish("cases = one Manager + fiber app lifetime: policy sets/deletes and HTTP requests/bursts through the real executeQuery at controlled clock readings (grid over limits × boundary phase × gap, random histories with clock jumps); non-trivial = at least one 429; distinct = distinct op text")
}
