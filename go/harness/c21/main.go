//go:build verif

// C21 harness: forces chosen interleavings of VerifyToken goroutines and one token mutator on the
// REAL AuthManager (SQLite file database, one pooled connection) through the schedule points the
// overlay injects (verifsched.Point), records every step that was observed, and lets the Lean LTS
// replay the same schedule (drive_c21).  Monitors check the property statement itself on the real
// behaviour.
package main

import (
	"context"
	"crypto/pbkdf2"
	"crypto/sha256"
	"encoding/base64"
	"encoding/hex"
	"encoding/json"
	"fmt"
	"os"
	"path/filepath"
	"strings"
	"time"

	"github.com/basekick-labs/arc/internal/auth"
	"github.com/basekick-labs/arc/internal/verif/vh"
	"github.com/basekick-labs/arc/internal/verif/verifsched"
	"github.com/basekick-labs/arc/internal/verifclock"
	"github.com/rs/zerolog"
)

const sec = int64(time.Second)

var base = int64(1_700_000_000) * sec

// ---------------------------------------------------------------- real-code plumbing

type fakeProposer struct{ am *auth.AuthManager }

// Propose does what the cluster's FSM apply callback does on this node: decode the payload and call
// the matching Apply*Token method synchronously.
func (p *fakeProposer) Propose(ctx context.Context, ct uint8, payload []byte, _ time.Duration) error {
	switch ct {
	case auth.ProposalCommandRevokeToken, auth.ProposalCommandDeleteToken:
		var x struct {
			ID int64 `json:"id"`
		}
		if err := json.Unmarshal(payload, &x); err != nil {
			return err
		}
		if ct == auth.ProposalCommandRevokeToken {
			return p.am.ApplyRevokeToken(x.ID)
		}
		return p.am.ApplyDeleteToken(x.ID)
	case auth.ProposalCommandRotateToken:
		var x struct {
			ID        int64  `json:"id"`
			NewHash   string `json:"new_hash"`
			NewPrefix string `json:"new_prefix"`
		}
		if err := json.Unmarshal(payload, &x); err != nil {
			return err
		}
		return p.am.ApplyRotateToken(x.ID, x.NewHash, x.NewPrefix)
	}
	return fmt.Errorf("fakeProposer: unsupported command %d", ct)
}
func (p *fakeProposer) IsLeader() bool { return true }

type mgr struct {
	am  *auth.AuthManager
	ttl int64
	max int
}

func shaHex(tok string) string { h := sha256.Sum256([]byte(tok)); return hex.EncodeToString(h[:]) }

// pbkdf2Hash1 is a well-formed $pbkdf2-sha256$ hash with iteration count 1 (the verifier accepts any
// count in 1..10M), so that bulk cases do not pay 600k iterations per verification.
func pbkdf2Hash1(tok string, salt []byte) string {
	dk, err := pbkdf2.Key(sha256.New, tok, salt, 1, 32)
	if err != nil {
		panic(err)
	}
	return fmt.Sprintf("$pbkdf2-sha256$1$%s$%s", base64.RawStdEncoding.EncodeToString(salt), base64.RawStdEncoding.EncodeToString(dk))
}

// ---------------------------------------------------------------- harness state

type opLine struct{ op, out string }

type H struct {
	c      *vh.Ctx
	r      *vh.Rand
	mgrs   []*mgr
	dbdir  string
	nextID int64
	serial int
	grace  time.Duration
	buf    []opLine
	// counters
	runs, probes, retries int
	replayMgr             *rmgr
	notes                 map[string]string
}

type rmgr struct {
	am   *auth.AuthManager
	path string
	ttl  int64
}

func (h *H) op(op, out string) { h.buf = append(h.buf, opLine{op, out}) }
func (h *H) flush() string {
	var sb strings.Builder
	for _, l := range h.buf {
		h.c.Op(l.op, l.out)
		sb.WriteString(l.op)
		sb.WriteString(" => ")
		sb.WriteString(l.out)
		sb.WriteString("; ")
	}
	h.buf = h.buf[:0]
	return sb.String()
}
func (h *H) replay() string {
	var sb strings.Builder
	for _, l := range h.buf {
		sb.WriteString(l.op)
		sb.WriteString(" => ")
		sb.WriteString(l.out)
		sb.WriteString("; ")
	}
	return sb.String()
}

func (h *H) newMgr(ttl int64, max int) *mgr {
	p := filepath.Join(h.dbdir, fmt.Sprintf("auth-%d-%d.db", ttl/sec, max))
	am, err := auth.NewAuthManager(p, time.Duration(ttl), max, zerolog.Nop())
	if err != nil {
		panic(err)
	}
	m := &mgr{am: am, ttl: ttl, max: max}
	h.mgrs = append(h.mgrs, m)
	return m
}

// ---------------------------------------------------------------- one case

type caseSpec struct {
	cluster  bool
	kind     string // revoke | delete | rotate
	slowPath bool   // rotate through RotateToken (600k-iteration hashToken) instead of ApplyRotateToken
	vals     []int  // value each verifier presents: 1 = the issued value, 2 = the rotated-to value, 3 = never issued
	warm     bool   // one sequential verification before the threads start (cache holds the value)
	warmTick int64  // with warm: clock advance after that verification (past half the cache TTL: a sliding-expiration hit path would re-insert)
	legacy   bool   // row stored with token_prefix = '__legacy__'
	pbk      bool   // pbkdf2 (iter 1) instead of legacy sha256 hash
	expiry   int64  // 0 = none, else offset (ns) from the case's time origin
	newExp   int64  // kind "setexp": the expires_at the update writes (offset ns)
	ticks    []int64
	m        *mgr
}

func (cs caseSpec) name() string {
	mode := "direct"
	if cs.cluster {
		mode = "cluster"
	}
	return cs.kind + ":" + mode
}

const tickBase = 1000 // schedule items >= tickBase advance the clock by cs.ticks[item-tickBase]

type thr struct {
	t       *verifsched.Thread
	isM     bool
	idx     int
	val     int
	started bool
	pending bool // released, not yet seen at its next point
	// set when the thread takes its first step
	startedAfterMDone bool
	startNow          int64
	res               *auth.TokenInfo
	err               error
}

func (h *H) tokStr(val int) string {
	if val == 4 {
		return ""
	}
	return fmt.Sprintf("vt%07d-%d-%s", h.serial, val, strings.Repeat("x", 36))
}

const (
	stArrived = iota
	stBlocked
	stHung
)

// step releases th and observes where it stops: at its next point / done, or blocked on the database
// connection. "Blocked" is never inferred from elapsed time alone: the thread itself must have announced
// (verifsched.Mark, injected right before db.Query / db.Exec) that it is asking the pool for a connection,
// the pool must report a new waiter and no free connection, and the thread must still not have arrived
// after the grace period. A thread that has not marked is simply waited for, however slow the machine is.
// A thread that was released and has not arrived is `pending`.
func (h *H) step(am *auth.AuthManager, th *thr) (string, int) {
	db := am.GetDB()
	wc0 := db.Stats().WaitCount
	if th.pending {
		panic("C21 harness: step on a thread that has not reached its next point")
	}
	th.t.Release()
	th.pending = true
	deadline := time.Now().Add(120 * time.Second)
	for {
		if p, ok := th.await(100 * time.Microsecond); ok {
			return p, stArrived
		}
		if th.t.WantsDB() {
			st := db.Stats()
			if st.WaitCount > wc0 && st.InUse >= 1 && (st.MaxOpenConnections == 0 || st.InUse >= st.MaxOpenConnections) {
				if p, ok := th.await(h.grace); ok {
					return p, stArrived
				}
				st = db.Stats()
				if th.t.WantsDB() && st.InUse >= 1 && (st.MaxOpenConnections == 0 || st.InUse >= st.MaxOpenConnections) {
					return "", stBlocked
				}
			}
		}
		if time.Now().After(deadline) {
			return "", stHung
		}
	}
}

func (th *thr) await(d time.Duration) (string, bool) {
	p, ok := th.t.Await(d)
	if ok {
		th.pending = false
	}
	return p, ok
}

// drain lets every thread run freely to completion (used when a run has to be discarded).
func drain(ths []*thr) {
	deadline := time.Now().Add(120 * time.Second)
	for {
		all := true
		for _, th := range ths {
			if th.t.Done() {
				continue
			}
			all = false
			if !th.pending {
				th.t.Release()
				th.pending = true
			}
			th.await(200 * time.Microsecond)
		}
		if all {
			return
		}
		if time.Now().After(deadline) {
			panic("C21 harness: threads hung while draining a discarded run")
		}
	}
}

type runOut struct {
	path  []int
	alts  [][]int
	retry bool
}

func (h *H) vOut(am *auth.AuthManager, th *thr, p string) string {
	if p == "done" {
		if th.isM {
			if th.err == nil {
				p = "done:ok"
			} else {
				p = "done:err"
			}
		} else if th.res != nil {
			p = "done:ok"
		} else {
			p = "done:nil"
		}
	}
	return fmt.Sprintf("%s len=%d", p, am.VerifCacheLen())
}

// runForced executes one schedule: first the choices in prefix, then (rnd == nil) always the lowest
// live thread, or (rnd != nil) a random live thread. It records, for every depth beyond the prefix,
// the live threads that were not chosen (the DFS alternatives).
func (h *H) runForced(cs caseSpec, prefix []int, rnd *vh.Rand, tickP int) runOut {
	h.serial++
	h.buf = h.buf[:0]
	am := cs.m.am
	var out runOut
	if cs.cluster {
		am.SetRaftProposer(&fakeProposer{am})
	} else {
		am.SetRaftProposer(nil)
	}
	verifclock.Set(base)
	now := int64(0)
	h.op(fmt.Sprintf("new %d %d", cs.m.ttl, cs.m.max), "ok")
	h.nextID++
	id := h.nextID
	tok1 := h.tokStr(1)
	ent := auth.ClusterTokenEntry{ID: id, Name: fmt.Sprintf("t%d", id), Permissions: "read,write", CreatedAtUnixNano: base, Enabled: true}
	if cs.pbk {
		ent.TokenHash = pbkdf2Hash1(tok1, []byte("0123456789abcdef"))
	} else {
		ent.TokenHash = shaHex(tok1)
	}
	ent.TokenPrefix = auth.VerifTokenPrefix(tok1)
	if cs.legacy {
		ent.TokenPrefix = "__legacy__"
	}
	expS := "-"
	if cs.expiry != 0 {
		ent.ExpiresAtUnixNano = base + cs.expiry
		expS = fmt.Sprint(cs.expiry)
	}
	if err := am.ApplyCreateToken(ent); err != nil {
		panic(err)
	}
	lg := 0
	if cs.legacy {
		lg = 1
	}
	h.op(fmt.Sprintf("row 1 %d 1 %s", lg, expS), "ok")
	seq := func(val int, tok string) bool {
		r := am.VerifyToken(tok)
		o := "nil"
		if r != nil {
			o = "ok"
		}
		h.op(fmt.Sprintf("seq %d", val), fmt.Sprintf("%s len=%d", o, am.VerifCacheLen()))
		return r != nil
	}
	if cs.warm {
		seq(1, tok1)
		if cs.warmTick > 0 {
			now += cs.warmTick
			verifclock.Set(base + now)
			h.op(fmt.Sprintf("tick %d", cs.warmTick), fmt.Sprintf("now=%d", now))
		}
	}
	n := len(cs.vals)
	ths := make([]*thr, n+1)
	tok2 := h.tokStr(2)
	for i, v := range cs.vals {
		th := &thr{idx: i, val: v}
		tk := h.tokStr(v)
		th.t = verifsched.Spawn(fmt.Sprintf("v%d", i), func() { th.res = am.VerifyToken(tk) })
		ths[i] = th
		h.op(fmt.Sprintf("vspawn %d", v), fmt.Sprintf("v%d", i))
	}
	mt := &thr{isM: true, idx: n}
	ctx := context.Background()
	var rotated string
	switch {
	case cs.kind == "revoke":
		mt.t = verifsched.Spawn("m", func() { mt.err = am.RevokeToken(ctx, id) })
	case cs.kind == "delete":
		mt.t = verifsched.Spawn("m", func() { mt.err = am.DeleteToken(ctx, id) })
	case cs.kind == "setexp" && !cs.cluster:
		nt := time.Unix(0, base+cs.newExp)
		mt.t = verifsched.Spawn("m", func() { mt.err = am.UpdateToken(ctx, id, nil, nil, nil, &nt) })
	case cs.kind == "setexp": // cluster: what the FSM applies after merging the changed field into its entry
		ue := auth.ClusterTokenEntry{ID: id, Name: ent.Name, Permissions: ent.Permissions, ExpiresAtUnixNano: base + cs.newExp}
		mt.t = verifsched.Spawn("m", func() { mt.err = am.ApplyUpdateToken(ue) })
	case cs.kind == "rotate" && (cs.slowPath || !cs.cluster):
		mt.t = verifsched.Spawn("m", func() { rotated, mt.err = am.RotateToken(ctx, id) })
	default: // cluster rotate as the FSM applies it, with a harness-chosen new value
		mt.t = verifsched.Spawn("m", func() {
			mt.err = am.ApplyRotateToken(id, shaHex(tok2), auth.VerifTokenPrefix(tok2))
			if mt.err == nil {
				rotated = tok2
			}
		})
	}
	ths[n] = mt
	cl := 0
	if cs.cluster {
		cl = 1
	}
	if cs.kind == "rotate" {
		h.op(fmt.Sprintf("mspawn rotate %d 2", cl), "ok")
	} else if cs.kind == "setexp" {
		h.op(fmt.Sprintf("mspawn setexp %d %d", cl, cs.newExp), "ok")
	} else {
		h.op(fmt.Sprintf("mspawn %s %d", cs.kind, cl), "ok")
	}

	mDone := false
	interleaved := false // some verifier stepped while the mutator was between its SQL statement and its return
	blockedSeen := false
	opName := func(th *thr) string {
		if th.isM {
			return "m"
		}
		return fmt.Sprintf("v %d", th.idx)
	}
	doStep := func(th *thr) (string, int) {
		if !th.started {
			th.started = true
			th.startedAfterMDone = mDone
			th.startNow = now
		}
		if !th.isM && mt.t.At == "m.upd" {
			interleaved = true
		}
		p, st := h.step(am, th)
		if st == stArrived {
			h.op(opName(th), h.vOut(am, th, p))
			if th.isM && p == "done" {
				mDone = true
			}
		}
		return p, st
	}
	finish := func(th *thr) bool { // run a thread alone to completion
		for !th.t.Done() {
			if _, st := doStep(th); st != stArrived {
				return false
			}
		}
		return true
	}
	abort := func() runOut {
		// let everything finish so the manager can be reused, then ask for a retry
		drain(ths)
		h.cleanup(am)
		out.retry = true
		return out
	}

	depth := 0
	for {
		var live []int
		for i, th := range ths {
			if !th.t.Done() {
				live = append(live, i)
			}
		}
		if len(live) == 0 {
			break
		}
		var ch int
		switch {
		case depth < len(prefix):
			ch = prefix[depth]
		case rnd != nil:
			if len(cs.ticks) > 0 && rnd.Chance(tickP) {
				ch = tickBase + rnd.Intn(len(cs.ticks))
			} else {
				ch = live[rnd.Intn(len(live))]
			}
		default:
			ch = live[0]
		}
		if depth >= len(prefix) {
			var a []int
			if rnd == nil {
				for _, l := range live {
					if l != ch {
						a = append(a, l)
					}
				}
			}
			out.alts = append(out.alts, a)
		} else {
			out.alts = append(out.alts, nil)
		}
		out.path = append(out.path, ch)
		depth++
		if ch >= tickBase {
			d := cs.ticks[ch-tickBase]
			now += d
			verifclock.Set(base + now)
			h.op(fmt.Sprintf("tick %d", d), fmt.Sprintf("now=%d", now))
			continue
		}
		th := ths[ch]
		_, st := doStep(th)
		if st == stHung {
			panic("C21 harness: thread hung: " + h.replay())
		}
		if st == stBlocked {
			// observed: th waits for the pooled connection. Record it (the model must agree the step is
			// disabled), then let the holder finish, see th proceed, and run the rest one at a time.
			h.probes++
			blockedSeen = true
			if th.isM {
				h.op("mblock", "blocked")
			} else {
				h.op(fmt.Sprintf("vblock %d", th.idx), "blocked")
			}
			var holder *thr
			for _, o := range ths {
				if o != th && !o.isM && !o.pending && (o.t.At == "v.row" || o.t.At == "v.preins" || o.t.At == "v.ins") {
					holder = o
				}
			}
			if holder == nil {
				// nobody that could own the connection is parked: the wait was transient (the AuthManager's
				// own last_used_at writer) and the grace period too short.
				return abort()
			}
			if _, ok := th.await(0); ok {
				return abort() // it was not blocked after all
			}
			for !holder.t.Done() {
				if _, ok := th.await(0); ok {
					return abort() // it got a connection while the presumed owner still holds its rows: not blocked
				}
				if _, st := doStep(holder); st != stArrived {
					return abort()
				}
			}
			p, ok := th.await(60 * time.Second)
			if !ok {
				panic("C21 harness: blocked thread never resumed: " + h.replay())
			}
			h.op(opName(th), h.vOut(am, th, p))
			if th.isM && p == "done" {
				mDone = true
			}
			if !finish(th) {
				return abort()
			}
			for _, o := range ths {
				if !finish(o) {
					return abort()
				}
			}
			break
		}
	}
	// ---- after everything returned: late authentications
	lateOld := seq(1, tok1)
	if cs.kind == "rotate" && rotated != "" {
		seq(2, rotated)
	}
	h.runs++
	// ---- monitors (the property statement, on the real outcomes)
	if mt.err == nil && cs.kind == "setexp" {
		// the "has not expired" clause after an expiry update: once UpdateToken returned, a verification that
		// starts past the NEW expires_at must be rejected
		if lateOld && now > cs.newExp {
			h.c.Fail("expired-token-accepted:expiry-update-not-invalidated", fmt.Sprintf("%s set expires_at=%dns and returned; VerifyToken at t=%dns still authenticated", cs.name(), cs.newExp, now), h.replay())
		}
		for _, th := range ths[:n] {
			if th.val == 1 && th.startedAfterMDone && th.res != nil && th.startNow > cs.newExp {
				h.c.Fail("expired-token-accepted:expiry-update-not-invalidated", fmt.Sprintf("v%d started at t=%dns after %s had set expires_at=%dns and returned, and authenticated", th.idx, th.startNow, cs.name(), cs.newExp), h.replay())
			}
		}
	} else if mt.err == nil {
		if lateOld {
			h.c.Fail("stale-auth-after-"+cs.name(), fmt.Sprintf("%s returned, then VerifyToken(old value) still authenticated", cs.name()), h.replay())
		}
		for _, th := range ths[:n] {
			if th.val == 1 && th.startedAfterMDone && th.res != nil {
				h.c.Fail("stale-auth-after-"+cs.name(), fmt.Sprintf("verification v%d started after %s had returned and authenticated the old value", th.idx, cs.name()), h.replay())
			}
		}
	}
	for _, th := range ths[:n] {
		if th.res == nil {
			continue
		}
		if th.val == 3 || th.val == 4 || (th.val == 2 && cs.kind != "rotate") {
			h.c.Fail("never-issued-value-authenticated", fmt.Sprintf("v%d authenticated a value that was never issued", th.idx), h.replay())
		}
		if cs.expiry != 0 && cs.kind != "setexp" && th.startNow > cs.expiry {
			h.c.Fail("expired-token-authenticates:cache-hit", fmt.Sprintf("v%d started at t=%dns, after the token's expires_at=%dns, and authenticated", th.idx, th.startNow, cs.expiry), h.replay())
		}
	}
	h.c.Tag("forced:" + cs.name())
	if blockedSeen {
		h.c.Tag("forced:blocked-on-connection")
	}
	if interleaved {
		h.c.Tag("forced:verifier-step-inside-mutation")
	}
	h.cleanup(am)
	canon := h.flush()
	h.c.Case(canon, interleaved || blockedSeen)
	return out
}

func (h *H) cleanup(am *auth.AuthManager) {
	am.SetRaftProposer(nil)
	if _, err := am.GetDB().Exec("DELETE FROM api_tokens"); err != nil {
		panic(err)
	}
	am.InvalidateCache()
}

func (h *H) forced(cs caseSpec, prefix []int, rnd *vh.Rand, tickP int) runOut {
	g := h.grace
	defer func() { h.grace = g }()
	for try := 0; try < 6; try++ {
		var seedCopy *vh.Rand
		if rnd != nil {
			c := *rnd
			seedCopy = &c
		}
		o := h.runForced(cs, prefix, seedCopy, tickP)
		if !o.retry {
			if rnd != nil {
				*rnd = *seedCopy
			}
			return o
		}
		h.retries++
		h.grace *= 6
	}
	panic("C21 harness: a step was classified as blocked/not blocked inconsistently 6 times")
}

// enumerate runs ALL schedules of the case (stateless DFS with re-execution); limit 0 = no limit.
// Returns (runs, complete).
func (h *H) enumerate(cs caseSpec, limit int) (int, bool) {
	stack := [][]int{{}}
	runs := 0
	for len(stack) > 0 {
		if limit > 0 && runs >= limit {
			return runs, false
		}
		p := stack[len(stack)-1]
		stack = stack[:len(stack)-1]
		o := h.forced(cs, p, nil, 0)
		runs++
		for d := len(o.path) - 1; d >= len(p); d-- {
			for _, a := range o.alts[d] {
				np := append(append([]int{}, o.path[:d]...), a)
				stack = append(stack, np)
			}
		}
	}
	return runs, true
}

// ---------------------------------------------------------------- sequential histories

// seqCase: one token, a random history of sequential verifications (issued / rotated-to / never issued /
// empty value), clock advances around the token expiry and the cache TTL, janitor runs, and token
// mutations executed alone.
func (h *H) seqCase(m *mgr, script []string) {
	h.serial++
	h.buf = h.buf[:0]
	am := m.am
	verifclock.Set(base)
	now := int64(0)
	h.op(fmt.Sprintf("new %d %d", m.ttl, m.max), "ok")
	r := h.r
	var id int64
	var curName string
	expiryUpdated := false
	cur := 0 // value currently stored (0 = no row)
	enabled := false
	var expiry int64
	strs := map[int]string{3: h.tokStr(3), 4: ""}
	nextVal := 10
	issue := func(slow bool) {
		if cur != 0 || id != 0 {
			if _, err := am.GetDB().Exec("DELETE FROM api_tokens"); err != nil {
				panic(err)
			}
			am.InvalidateCache()
			h.op(fmt.Sprintf("new %d %d", m.ttl, m.max), "ok")
			h.op(fmt.Sprintf("tick %d", now), fmt.Sprintf("now=%d", now))
		}
		nextVal++
		cur = nextVal
		strs[cur] = h.tokStr(cur)
		expiry = 0
		expiryUpdated = false
		if r.Chance(60) {
			expiry = now + vh.Pick(r, []int64{1, sec, 10 * sec, m.ttl - sec, m.ttl, m.ttl + sec, 3 * m.ttl})
		}
		h.nextID++
		id = h.nextID
		curName = fmt.Sprintf("t%d", id)
		legacy := r.Chance(20)
		lg := 0
		if legacy {
			lg = 1
		}
		if slow && !legacy {
			var ex *time.Time
			if expiry != 0 {
				t := time.Unix(0, base+expiry)
				ex = &t
			}
			am.SetRaftProposer(nil)
			if _, err := am.CreateTokenWithValue(context.Background(), strs[cur], fmt.Sprintf("t%d", id), "", "read", ex); err != nil {
				panic(err)
			}
			if err := am.GetDB().QueryRow("SELECT id FROM api_tokens WHERE name = ?", fmt.Sprintf("t%d", id)).Scan(&id); err != nil {
				panic(err)
			}
			if id > h.nextID {
				h.nextID = id
			}
			h.c.Tag("seq:issue-CreateTokenWithValue")
		} else {
			ent := auth.ClusterTokenEntry{ID: id, Name: fmt.Sprintf("t%d", id), Permissions: "read", CreatedAtUnixNano: base + now, Enabled: true,
				TokenPrefix: auth.VerifTokenPrefix(strs[cur])}
			if r.Bool() {
				ent.TokenHash = shaHex(strs[cur])
			} else {
				ent.TokenHash = pbkdf2Hash1(strs[cur], []byte("fedcba9876543210"))
			}
			if legacy {
				ent.TokenPrefix = "__legacy__"
			}
			if expiry != 0 {
				ent.ExpiresAtUnixNano = base + expiry
			}
			if err := am.ApplyCreateToken(ent); err != nil {
				panic(err)
			}
		}
		enabled = true
		ex := "-"
		if expiry != 0 {
			ex = fmt.Sprint(expiry)
		}
		h.op(fmt.Sprintf("row %d %d 1 %s", cur, lg, ex), "ok")
	}
	old := []int{}
	var canon strings.Builder
	for _, a := range script {
		canon.WriteString(a + ",")
		switch a {
		case "issue":
			issue(false)
		case "issue-slow":
			issue(true)
		case "tick":
			d := vh.Pick(r, []int64{1, sec, 9 * sec, m.ttl - 1, m.ttl, m.ttl + 1, 2 * m.ttl})
			if expiry > now && r.Chance(40) {
				d = vh.Pick(r, []int64{expiry - now - 1, expiry - now, expiry - now + 1})
				if d <= 0 {
					d = 1
				}
			}
			now += d
			verifclock.Set(base + now)
			h.op(fmt.Sprintf("tick %d", d), fmt.Sprintf("now=%d", now))
		case "janitor":
			am.VerifCleanupExpiredCache()
			h.op("janitor", fmt.Sprintf("len=%d", am.VerifCacheLen()))
		case "verify":
			val := cur
			switch {
			case r.Chance(15):
				val = 3
			case r.Chance(5):
				val = 4
			case len(old) > 0 && r.Chance(30):
				val = vh.Pick(r, old)
			}
			if val == 0 {
				val = 3
			}
			res := am.VerifyToken(strs[val])
			o := "nil"
			if res != nil {
				o = "ok"
			}
			h.op(fmt.Sprintf("seq %d", val), fmt.Sprintf("%s len=%d", o, am.VerifCacheLen()))
			h.c.Tag("seq:verify-" + o)
			// monitor: authenticates only if issued, enabled, not expired (sequential: exact)
			if res != nil {
				switch {
				case val != cur:
					h.c.Fail("never-issued-or-replaced-value-authenticated", fmt.Sprintf("value %d authenticated but the stored token value is %d", val, cur), h.replay())
				case !enabled:
					h.c.Fail("disabled-token-authenticated", "a revoked token authenticated", h.replay())
				case expiry != 0 && now > expiry && expiryUpdated:
					h.c.Fail("expired-token-accepted:expiry-update-not-invalidated", fmt.Sprintf("VerifyToken at t=%dns authenticated a token whose expires_at had been updated to %dns (update returned earlier)", now, expiry), h.replay())
				case expiry != 0 && now > expiry:
					h.c.Fail("expired-token-authenticates:cache-hit", fmt.Sprintf("VerifyToken at t=%dns authenticated a token whose expires_at=%dns had passed (cached entry, cache TTL %dns)", now, expiry, m.ttl), h.replay())
				}
			}
		case "revoke", "delete", "rotate", "setexp":
			if id == 0 {
				continue
			}
			cluster := r.Bool()
			if a == "rotate" && !cluster && !r.Chance(8) {
				cluster = true // RotateToken's 600k-iteration hashToken costs ~0.3 s
			}
			slow := a == "rotate" && r.Chance(4)
			if cluster {
				am.SetRaftProposer(&fakeProposer{am})
			} else {
				am.SetRaftProposer(nil)
			}
			cl := 0
			if cluster {
				cl = 1
			}
			nv := 0
			ctx := context.Background()
			var err error
			var t *verifsched.Thread
			tid := id
			var newExp int64
			switch a {
			case "setexp":
				// UpdateToken / ApplyUpdateToken touching only expires_at: shorten to just ahead, to the past,
				// extend, or (cluster apply only: 0 = NULL) clear
				newExp = vh.Pick(r, []int64{now + 1, now + 10*sec, now + m.ttl + sec, now - 5*sec, now / 2})
				if newExp < 1 {
					newExp = 1
				}
				if cluster && r.Chance(15) {
					newExp = 0
				}
				es := "-"
				if newExp != 0 {
					es = fmt.Sprint(newExp)
				}
				h.op(fmt.Sprintf("mspawn setexp %d %s", cl, es), "ok")
				if cluster {
					ue := auth.ClusterTokenEntry{ID: tid, Name: curName, Permissions: "read"}
					if newExp != 0 {
						ue.ExpiresAtUnixNano = base + newExp
					}
					t = verifsched.Spawn("m", func() { err = am.ApplyUpdateToken(ue) })
				} else {
					nt := time.Unix(0, base+newExp)
					t = verifsched.Spawn("m", func() { err = am.UpdateToken(ctx, tid, nil, nil, nil, &nt) })
				}
			case "revoke":
				h.op(fmt.Sprintf("mspawn revoke %d", cl), "ok")
				t = verifsched.Spawn("m", func() { err = am.RevokeToken(ctx, tid) })
			case "delete":
				h.op(fmt.Sprintf("mspawn delete %d", cl), "ok")
				t = verifsched.Spawn("m", func() { err = am.DeleteToken(ctx, tid) })
			case "rotate":
				nextVal++
				nv = nextVal
				h.op(fmt.Sprintf("mspawn rotate %d %d", cl, nv), "ok")
				if !cluster || slow {
					t = verifsched.Spawn("m", func() {
						var s string
						s, err = am.RotateToken(ctx, tid)
						strs[nv] = s
					})
				} else {
					strs[nv] = h.tokStr(nv)
					t = verifsched.Spawn("m", func() { err = am.ApplyRotateToken(tid, shaHex(strs[nv]), auth.VerifTokenPrefix(strs[nv])) })
				}
			}
			mth := &thr{t: t, isM: true}
			for !t.Done() {
				p, st := h.step(am, mth)
				if st != stArrived {
					// nobody else can hold the connection: the wait was the AuthManager's own last_used_at
					// writer; just wait for the statement to finish
					var ok bool
					if p, ok = mth.await(60 * time.Second); !ok {
						panic("C21 harness: lone mutator did not proceed")
					}
				}
				if p == "done" {
					if err == nil {
						p = "done:ok"
					} else {
						p = "done:err"
					}
				}
				h.op("m", fmt.Sprintf("%s len=%d", p, am.VerifCacheLen()))
			}
			am.SetRaftProposer(nil)
			h.c.Tag("seq:" + a)
			if err == nil && cur != 0 {
				switch a {
				case "setexp":
					expiry = newExp
					expiryUpdated = true
				case "revoke":
					enabled = false
				case "delete":
					old = append(old, cur)
					cur = 0
				case "rotate":
					old = append(old, cur)
					cur = nv
				}
			}
		}
	}
	h.cleanup(am)
	h.flush()
	h.c.Case(canon.String()+fmt.Sprint(h.serial), true)
}


// corpusExpiry: issue a token that expires at t=10s, authenticate at t=0 (fills the cache), advance the
// clock to t=60s (cache TTL 1h), authenticate again. Before /repo b9131b8 the second call authenticated
// from the cache (finding expired-token-authenticates:cache-hit); the monitor stays live as a regression guard.
func (h *H) corpusExpiry(m *mgr, viaCreate bool) {
	h.serial++
	h.buf = h.buf[:0]
	am := m.am
	am.SetRaftProposer(nil)
	verifclock.Set(base)
	h.op(fmt.Sprintf("new %d %d", m.ttl, m.max), "ok")
	tok := h.tokStr(1)
	exp := 10 * sec
	h.nextID++
	if viaCreate {
		t := time.Unix(0, base+exp)
		if _, err := am.CreateTokenWithValue(context.Background(), tok, fmt.Sprintf("t%d", h.nextID), "", "read", &t); err != nil {
			panic(err)
		}
	} else {
		if err := am.ApplyCreateToken(auth.ClusterTokenEntry{ID: h.nextID, Name: fmt.Sprintf("t%d", h.nextID), Permissions: "read", TokenHash: shaHex(tok),
			TokenPrefix: auth.VerifTokenPrefix(tok), CreatedAtUnixNano: base, ExpiresAtUnixNano: base + exp, Enabled: true}); err != nil {
			panic(err)
		}
	}
	h.op(fmt.Sprintf("row 1 0 1 %d", exp), "ok")
	now := int64(0)
	verify := func() {
		res := am.VerifyToken(tok)
		o := "nil"
		if res != nil {
			o = "ok"
		}
		h.op("seq 1", fmt.Sprintf("%s len=%d", o, am.VerifCacheLen()))
		if res != nil && now > exp {
			h.c.Fail("expired-token-authenticates:cache-hit", fmt.Sprintf("VerifyToken at t=%dns authenticated a token whose expires_at=%dns had passed (entry cached at t=0, cache TTL %dns)", now, exp, m.ttl), h.replay())
		}
	}
	verify()
	now = 60 * sec
	verifclock.Set(base + now)
	h.op(fmt.Sprintf("tick %d", now), fmt.Sprintf("now=%d", now))
	verify()
	am.InvalidateCache() // a cache flush makes the same value fail: the database path does check expires_at
	res := am.VerifyToken(tok)
	if res != nil {
		h.c.Fail("expired-token-authenticates:database-path", "VerifyToken authenticated an expired token on a cache miss", h.replay())
	}
	h.c.Tag("corpus:expiry")
	h.cleanup(am)
	c := h.flush()
	h.c.Case(c, true)
}


// loneMutator runs f on a controlled thread with nothing else running, recording its two steps.
func (h *H) loneMutator(am *auth.AuthManager, f func() error) bool {
	var err error
	t := verifsched.Spawn("m", func() { err = f() })
	mth := &thr{t: t, isM: true}
	for !t.Done() {
		p, st := h.step(am, mth)
		if st != stArrived {
			var ok bool
			if p, ok = mth.await(60 * time.Second); !ok {
				panic("C21 harness: lone mutator did not proceed")
			}
		}
		if p == "done" {
			if err == nil {
				p = "done:ok"
			} else {
				p = "done:err"
			}
		}
		h.op("m", fmt.Sprintf("%s len=%d", p, am.VerifCacheLen()))
	}
	return err == nil
}

// corpusExpiryUpdate: warm cache, then an expiry-ONLY UpdateToken / ApplyUpdateToken shortening expires_at
// to t=5s, clock to t=10s, authenticate again: must be rejected (the update has to flush the cache, the
// cached entry still carries the old expires_at).
func (h *H) corpusExpiryUpdate(m *mgr, cluster bool) {
	h.serial++
	h.buf = h.buf[:0]
	am := m.am
	am.SetRaftProposer(nil)
	verifclock.Set(base)
	h.op(fmt.Sprintf("new %d %d", m.ttl, m.max), "ok")
	tok := h.tokStr(1)
	h.nextID++
	id := h.nextID
	name := fmt.Sprintf("t%d", id)
	if err := am.ApplyCreateToken(auth.ClusterTokenEntry{ID: id, Name: name, Permissions: "read", TokenHash: shaHex(tok),
		TokenPrefix: auth.VerifTokenPrefix(tok), CreatedAtUnixNano: base, Enabled: true}); err != nil {
		panic(err)
	}
	h.op("row 1 0 1 -", "ok")
	now := int64(0)
	verify := func() bool {
		res := am.VerifyToken(tok)
		o := "nil"
		if res != nil {
			o = "ok"
		}
		h.op("seq 1", fmt.Sprintf("%s len=%d", o, am.VerifCacheLen()))
		return res != nil
	}
	verify()
	exp := 5 * sec
	cl := 0
	if cluster {
		cl = 1
	}
	h.op(fmt.Sprintf("mspawn setexp %d %d", cl, exp), "ok")
	if cluster {
		h.loneMutator(am, func() error {
			return am.ApplyUpdateToken(auth.ClusterTokenEntry{ID: id, Name: name, Permissions: "read", ExpiresAtUnixNano: base + exp})
		})
	} else {
		nt := time.Unix(0, base+exp)
		h.loneMutator(am, func() error { return am.UpdateToken(context.Background(), id, nil, nil, nil, &nt) })
	}
	now = 10 * sec
	verifclock.Set(base + now)
	h.op(fmt.Sprintf("tick %d", now), fmt.Sprintf("now=%d", now))
	if verify() {
		h.c.Fail("expired-token-accepted:expiry-update-not-invalidated", fmt.Sprintf("expires_at was updated to %dns and the update returned; VerifyToken at t=%dns still authenticated (cached entry)", exp, now), h.replay())
	}
	h.c.Tag("corpus:expiry-update")
	h.cleanup(am)
	h.c.Case(h.flush(), true)
}

// ---------------------------------------------------------------- cluster-apply log replay (node restart)

type logEnt struct {
	kind string // create | revoke | delete | rotate | setexp
	val  int    // create: value; rotate: new value
	exp  int64  // create / setexp: expires_at offset (0 = none / cleared)
	leg  bool
}

func (e logEnt) op() string {
	es := "-"
	if e.exp != 0 {
		es = fmt.Sprint(e.exp)
	}
	switch e.kind {
	case "create":
		lg := 0
		if e.leg {
			lg = 1
		}
		return fmt.Sprintf("rcreate %d %d %s", e.val, lg, es)
	case "rotate":
		return fmt.Sprintf("rmut rotate %d", e.val)
	case "setexp":
		return "rmut setexp " + es
	}
	return "rmut " + e.kind
}

// replayCase: a cluster-apply history on a persistent SQLite file: the log L (create, then mutations) is
// applied through the Apply*Token callbacks with probes in between; then the node RESTARTS (the
// AuthManager is closed and re-opened on the same file) and a prefix of L is re-applied from index 0, as
// the Raft FSM does when it replays its log; after every re-applied entry every token value is probed.
func (h *H) replayCase(log []logEnt, now int64, prefix int) {
	h.serial++
	h.buf = h.buf[:0]
	am := h.replayMgr.am
	verifclock.Set(base + now)
	h.op("rnew", "ok")
	h.nextID++
	id := h.nextID
	name := fmt.Sprintf("t%d", id)
	toks := map[int]string{}
	tok := func(v int) string {
		if _, ok := toks[v]; !ok {
			toks[v] = h.tokStr(v)
		}
		return toks[v]
	}
	vals := []int{3}
	for _, e := range log {
		if e.kind == "create" || e.kind == "rotate" {
			vals = append(vals, e.val)
		}
	}
	apply := func(e logEnt) {
		var err error
		switch e.kind {
		case "create":
			ent := auth.ClusterTokenEntry{ID: id, Name: name, Permissions: "read", TokenHash: shaHex(tok(e.val)), TokenPrefix: auth.VerifTokenPrefix(tok(e.val)),
				CreatedAtUnixNano: base, Enabled: true}
			if e.leg {
				ent.TokenPrefix = "__legacy__"
			}
			if e.exp != 0 {
				ent.ExpiresAtUnixNano = base + e.exp
			}
			err = am.ApplyCreateToken(ent)
		case "revoke":
			err = am.ApplyRevokeToken(id)
		case "delete":
			err = am.ApplyDeleteToken(id)
		case "rotate":
			err = am.ApplyRotateToken(id, shaHex(tok(e.val)), auth.VerifTokenPrefix(tok(e.val)))
		case "setexp":
			ue := auth.ClusterTokenEntry{ID: id, Name: name, Permissions: "read"}
			if e.exp != 0 {
				ue.ExpiresAtUnixNano = base + e.exp
			}
			err = am.ApplyUpdateToken(ue)
		}
		o := "ok"
		if err != nil {
			o = "err"
		}
		h.op(e.op(), o)
	}
	probe := func(v int) bool {
		am.InvalidateCache()
		res := am.VerifyToken(tok(v))
		o := "nil"
		if res != nil {
			o = "ok"
		}
		h.op(fmt.Sprintf("rprobe %d %d", v, now), o)
		return res != nil
	}
	for _, e := range log {
		apply(e)
		for _, v := range vals {
			probe(v)
		}
	}
	// state at the crash point
	accepted := map[int]bool{}
	for _, v := range vals {
		accepted[v] = probe(v)
	}
	var rowExists, rowEnabled bool
	var en int
	if err := am.GetDB().QueryRow("SELECT enabled FROM api_tokens WHERE id = ?", id).Scan(&en); err == nil {
		rowExists, rowEnabled = true, en == 1
	}
	// restart: close and re-open the manager on the same database file
	h.replayMgr.am.Close()
	nam, err := auth.NewAuthManager(h.replayMgr.path, time.Duration(h.replayMgr.ttl), 100, zerolog.Nop())
	if err != nil {
		panic(err)
	}
	h.replayMgr.am = nam
	am = nam
	for k := 0; k < prefix && k < len(log); k++ {
		apply(log[k])
		for _, v := range vals {
			if probe(v) && !accepted[v] {
				switch {
				case rowExists && !rowEnabled:
					h.c.Fail("revoked-token-accepted:replayed-create-resurrects", fmt.Sprintf("after a restart, re-applying log entry #%d (%s) made value %d authenticate although the token was revoked before the restart", k, log[k].kind, v), h.replay())
				case !rowExists:
					h.c.Tag("replay-window:deleted-row-reinserted-until-delete-replayed")
					h.note("deleted-row-reinserted", h.replay())
				case log[k].kind == "rotate":
					h.c.Tag("replay-window:intermediate-rotation-value-until-later-rotate-replayed")
					h.note("intermediate-rotation-value", h.replay())
				default:
					h.c.Tag("replay-window:earlier-expiry-until-later-update-replayed")
					h.note("earlier-expiry", h.replay())
				}
			}
		}
	}
	h.c.Tag("replay:history")
	if _, err := am.GetDB().Exec("DELETE FROM api_tokens"); err != nil {
		panic(err)
	}
	am.InvalidateCache()
	h.c.Case(h.flush(), true)
}

func (h *H) note(class, replay string) {
	if h.notes == nil {
		h.notes = map[string]string{}
	}
	if _, ok := h.notes[class]; !ok {
		if len(replay) > 700 {
			replay = replay[:700] + "…"
		}
		h.notes[class] = replay
	}
}

// ---------------------------------------------------------------- main

func main() {
	c := vh.Start()
	h := &H{c: c, r: vh.NewRand(c.Seed), grace: 5 * time.Millisecond, nextID: 1000}
	if g := os.Getenv("C21_GRACE_US"); g != "" { // test knob: grace period of the blocked-on-connection probe
		var us int
		fmt.Sscan(g, &us)
		if us > 0 {
			h.grace = time.Duration(us) * time.Microsecond
		}
	}
	dir := c.OutDir
	if d, err := os.MkdirTemp("/dev/shm", "verif-c21-"); err == nil {
		dir = d
		defer os.RemoveAll(d)
	}
	h.dbdir = dir
	// facts: what the model was configured with (informational; the monitors do not depend on it)
	if c.Facts != nil {
		c.Extra["facts"] = map[string]any{"max_open_conns": c.Facts["max_open_conns"], "rows_held_across_insert": c.Facts["rows_held_across_insert"],
			"gen_guard": c.Facts["gen_guard"], "hit_checks_expiry": c.Facts["hit_checks_expiry"]}
	}
	// cache TTLs >= 1h: the AuthManager's own janitor ticker (real time, interval = TTL) never fires during a run
	mBig := h.newMgr(3600*sec, 100)
	mOne := h.newMgr(7200*sec, 1)
	mZero := h.newMgr(3600*sec, 0)
	r := h.r
	thorough := c.Thorough()

	// corpus: the minimal sequential history for the expiry clause, first (smallest replay)
	h.corpusExpiry(mBig, false)
	h.corpusExpiry(mBig, true)
	h.corpusExpiryUpdate(mBig, false)
	h.corpusExpiryUpdate(mBig, true)

	// cluster-apply log replay across a restart (persistent SQLite file, manager closed and re-opened)
	{
		p := filepath.Join(h.dbdir, "auth-replay.db")
		am, err := auth.NewAuthManager(p, time.Duration(3600*sec), 100, zerolog.Nop())
		if err != nil {
			panic(err)
		}
		h.replayMgr = &rmgr{am: am, path: p, ttl: 3600 * sec}
		// corpus: create, revoke, restart, replayed create (the seeded class), and the same with an expiry
		h.replayCase([]logEnt{{kind: "create", val: 1}, {kind: "revoke"}}, 0, 2)
		h.replayCase([]logEnt{{kind: "create", val: 1, exp: 100 * sec}, {kind: "setexp", exp: 5 * sec}, {kind: "revoke"}}, 60*sec, 3)
		nRep := 120
		if thorough {
			nRep = 3000
		}
		for i := 0; i < nRep; i++ {
			lg := []logEnt{{kind: "create", val: 1, leg: r.Chance(15)}}
			if r.Chance(40) {
				lg[0].exp = vh.Pick(r, []int64{10 * sec, 100 * sec, 1000 * sec})
			}
			nv := 1
			k := r.Range(1, 5)
			for j := 0; j < k; j++ {
				switch vh.Pick(r, []string{"revoke", "revoke", "rotate", "rotate", "setexp", "setexp", "delete"}) {
				case "revoke":
					lg = append(lg, logEnt{kind: "revoke"})
				case "delete":
					lg = append(lg, logEnt{kind: "delete"})
				case "rotate":
					nv++
					lg = append(lg, logEnt{kind: "rotate", val: nv + 10})
				case "setexp":
					lg = append(lg, logEnt{kind: "setexp", exp: vh.Pick(r, []int64{0, 5 * sec, 50 * sec, 500 * sec})})
				}
			}
			h.replayCase(lg, vh.Pick(r, []int64{0, 7 * sec, 60 * sec, 600 * sec}), r.Range(1, len(lg)))
		}
		h.replayMgr.am.Close()
	}

	// (0) the schedule DESIGN.md predicted as a counterexample, attempted literally on the real code in
	// both modes and for every kind: V.lookup V.dbread | M.dbupdate M.invalidate | V.insert … V'.lookup
	enumStats := map[string]any{}
	for _, cluster := range []bool{false, true} {
		for _, kind := range []string{"revoke", "delete", "rotate"} {
			if kind == "rotate" && !cluster && !thorough && c.Seed%2 == 0 {
				continue
			}
			cs := caseSpec{cluster: cluster, kind: kind, vals: []int{1, 1}, m: mBig}
			h.forced(cs, []int{0, 0, 2, 2, 0, 0, 0, 1}, nil, 0)
			h.c.Tag("corpus:stale-insert-schedule")
		}
	}

	// (1) exhaustive enumeration of all interleavings, by number of verifiers
	type plan struct {
		cs    caseSpec
		limit int // 0 = all
		name  string
	}
	var plans []plan
	for _, cluster := range []bool{false, true} {
		for _, kind := range []string{"revoke", "delete", "rotate"} {
			slowRotate := kind == "rotate" && !cluster
			for _, warm := range []bool{false, true} {
				for nv := 1; nv <= 3; nv++ {
					vals := make([]int, nv)
					for i := range vals {
						vals[i] = 1
					}
					cs := caseSpec{cluster: cluster, kind: kind, vals: vals, warm: warm, m: mBig, pbk: (nv+len(kind))%2 == 0}
					if warm {
						cs.warmTick = mBig.ttl/2 + sec // entries past half their lifetime, still valid
					}
					lim := 0
					switch {
					case slowRotate && nv == 1:
						lim = 0
					case slowRotate && !thorough:
						lim = -1 // skip (sampled below)
					case slowRotate && nv == 2:
						lim = 0
					case slowRotate && nv == 3:
						lim = 150 // RotateToken hashes with 600k PBKDF2 iterations (~0.25 s per schedule): a DFS prefix only
					case nv == 3 && !warm && !thorough:
						lim = -1 // ~5·10^4 schedules each: thorough only (quick samples them randomly below)
					}
					if lim < 0 {
						continue
					}
					plans = append(plans, plan{cs, lim, fmt.Sprintf("%s/n=%d/warm=%v", cs.name(), nv, warm)})
				}
			}
		}
	}
	for _, p := range plans {
		t0 := time.Now()
		n, complete := h.enumerate(p.cs, p.limit)
		enumStats[p.name] = map[string]any{"schedules": n, "complete": complete, "ms": time.Since(t0).Milliseconds()}
	}

	// (2) random schedules: 3 verifiers, mixed values (issued / rotated-to / never issued), legacy-prefix
	// rows, token expiry with clock ticks inside the schedule, small caches
	nRand := 240
	if thorough {
		nRand = 6000
	}
	if c.N > 0 {
		nRand = c.N
	}
	for i := 0; i < nRand; i++ {
		kind := vh.Pick(r, []string{"revoke", "delete", "rotate", "revoke", "delete", "rotate", "setexp"})
		cluster := r.Bool()
		if kind == "rotate" && !cluster && !r.Chance(6) {
			cluster = true // RotateToken's 600k-iteration hash makes the direct path ~0.3 s per schedule
		}
		slowPath := kind == "rotate" && cluster && r.Chance(3)
		nv := r.Range(1, 3)
		vals := make([]int, nv)
		for j := range vals {
			vals[j] = 1
			if r.Chance(25) {
				vals[j] = vh.Pick(r, []int{2, 3, 3})
			}
			if vals[j] == 2 && !(kind == "rotate" && cluster && !slowPath) {
				// the rotated-to value is only known in advance when the harness chooses it (ApplyRotateToken)
				vals[j] = 3
			}
		}
		cs := caseSpec{cluster: cluster, kind: kind, vals: vals, warm: r.Chance(35), legacy: r.Chance(20), pbk: r.Bool(),
			m: vh.Pick(r, []*mgr{mBig, mBig, mOne, mZero})}
		cs.slowPath = slowPath
		if cs.warm && r.Bool() {
			cs.warmTick = cs.m.ttl/2 + int64(r.Intn(1000))*sec
		}
		tickP := 0
		if r.Chance(45) {
			cs.expiry = vh.Pick(r, []int64{5 * sec, 60 * sec, cs.m.ttl + 5*sec})
			cs.ticks = []int64{1, sec, cs.expiry - 1, cs.expiry, cs.expiry + 1, cs.m.ttl, cs.m.ttl + 1}
			tickP = 20
		}
		if kind == "setexp" {
			// expiry-only update on a (mostly) warm cache, then the clock crosses the new expiry
			cs.warm = r.Chance(75)
			if !cs.warm {
				cs.warmTick = 0
			}
			cs.newExp = cs.warmTick + vh.Pick(r, []int64{1, 5 * sec, 30 * sec})
			cs.ticks = append(cs.ticks, 1, sec, 6*sec, 31*sec)
			tickP = 25
		}
		rr := r.Fork()
		h.forced(cs, nil, rr, tickP)
	}

	// (3) sequential histories (the "authenticates only if issued, enabled, not expired" clause, exact)
	nSeq := 250
	if thorough {
		nSeq = 5000
	}
	acts := []string{"verify", "verify", "verify", "verify", "tick", "tick", "tick", "janitor", "revoke", "delete", "rotate", "issue", "setexp", "setexp"}
	for i := 0; i < nSeq; i++ {
		m := vh.Pick(r, []*mgr{mBig, mBig, mOne, mZero})
		k := r.Range(3, 14)
		sc := []string{"issue"}
		if (thorough && i%250 == 0) || (!thorough && i == 7) {
			sc = []string{"issue-slow"}
		}
		for j := 0; j < k; j++ {
			sc = append(sc, vh.Pick(r, acts))
		}
		h.r = r.Fork()
		h.seqCase(m, sc)
	}

	for _, m := range h.mgrs {
		m.am.Close()
	}
	verifclock.Real()
	c.Extra["enumerations"] = enumStats
	c.Extra["forced_runs"] = h.runs
	c.Extra["blocked_probes"] = h.probes
	c.Extra["retries"] = h.retries
	c.Extra["replay_windows_observed"] = h.notes
	c.Finish("cases = forced schedules of n<=3 VerifyToken goroutines x 1 token mutator on the real AuthManager (all interleavings over the injected schedule points by DFS with re-execution; random schedules with mixed values, legacy rows, expiry and clock ticks) plus sequential histories; non-trivial = a verifier stepped inside the mutation or a thread was observed blocked on the pooled connection (forced), every sequential history; distinct = distinct observed trace")
}
