//go:build verif

package main

import (
	"fmt"
	"strings"
)

// malformedStream posts requests the handler must refuse (validateWhereClause deny-lists, missing
// fields, broken JSON) against a small dataset and checks — on the real results only, there is no
// model op for these — that nothing is stored differently afterwards. A request that is NOT refused
// is only tagged (the accept set of validateWhereClause is not part of C10's statement).
func (e *env) malformedStream() {
	e.reset()
	I := func(v int64) cell { return cell{k: 'i', n: v} }
	rows := []row{
		{I(1), {k: 't', n: tsBase}, I(5), {k: 'f', n: 2}, {k: 's', s: "ab"}, {k: 'b', n: 1}},
		{I(2), {k: 't', n: tsBase}, null, {k: 'f', n: 2}, {k: 's', s: "ab"}, {k: 'b', n: 1}},
	}
	e.writeFile("2024/01/01/00/a.parquet", rows)
	before, _ := e.snap("")
	type bad struct{ name, body string }
	j := func(where string) string {
		return fmt.Sprintf(`{"database":%q,"measurement":%q,"where":%q,"dry_run":false,"confirm":true}`, e.dbName, meas, where)
	}
	cases := []bad{
		{"empty-where", j("")},
		{"blank-where", j("   ")},
		{"semicolon", j("i > 1; DROP TABLE x")},
		{"comment", j("i > 1 -- x")},
		{"block-comment", j("i > 1 /* x */")},
		{"subselect", j("i = (SELECT 1)")},
		{"keyword-case", j("i > 1 uNiOn all")},
		{"unmatched-quote", j("s = 'a")},
		{"unmatched-paren", j("(i > 1")},
		{"io-function", j("list_contains(glob('/etc/*'), 'x')")},
		{"io-function-quoted", j(`"read_parquet"('/x') IS NOT NULL`)},
		{"prefix-xp", j("xp_cmd = 1")},
		{"no-database", fmt.Sprintf(`{"measurement":%q,"where":"i > 1","confirm":true}`, meas)},
		{"no-measurement", fmt.Sprintf(`{"database":%q,"where":"i > 1","confirm":true}`, e.dbName)},
		{"traversal-db", fmt.Sprintf(`{"database":"../%s","measurement":%q,"where":"i > 1","confirm":true}`, e.dbName, meas)},
		{"traversal-meas", fmt.Sprintf(`{"database":%q,"measurement":"m/..","where":"i > 1","confirm":true}`, e.dbName)},
		{"broken-json", `{"database":`},
		{"unknown-column", j("nosuchcol > 1")},
		{"type-error", j("s > 1 AND i LIKE 'a'")},
	}
	for _, b := range cases {
		status, r := e.post([]byte(b.body))
		after, _ := e.snap("")
		e.c.Tag(fmt.Sprintf("malformed:%s:status=%d", b.name, status))
		if (status != 200 || !r.Success) && !sameSnap(before, after) {
			e.c.Fail("rejected-delete-mutated:handleDelete", fmt.Sprintf("malformed request %s answered %d (%s) but the stored rows changed", b.name, status, strings.TrimSpace(r.Error)), b.body)
		}
		if status == 200 && r.Success && r.DeletedCount == 0 && !sameSnap(before, after) {
			e.c.Fail("deleted-count-mismatch:handleDelete", "malformed request "+b.name+" reported 0 deleted rows but the stored rows changed", b.body)
		}
		before = after
	}
}
