//go:build verif

// C10 correspondence harness: the real api.DeleteHandler (fiber route POST /api/v1/delete) over a
// real DuckDB + storage.LocalBackend in a temp dir, on random multi-file datasets with nullable
// columns of each type and predicates from a grammar (comparisons, AND/OR/NOT, IN, LIKE, IS [NOT]
// NULL, boolean literals).
//
// Ops (one line each; the Lean model `drive_c10` answers the same lines):
//
//	ds                                   reset the dataset            -> ok
//	file <relpath> <row;row;…|->         add a parquet file           -> ok rows=<n>
//	del <dry> <confirm> <max> <thr> <P>  POST /api/v1/delete          -> status=… (see delOut)
//	dump                                 read every file back         -> path=[rows]|path=[rows]…
//
// Monitors (independent of the model): before every delete the predicate is evaluated by DuckDB
// itself on every row (`SELECT rid, (<where>)`), and the rows that are present afterwards are
// compared with "previous rows for which the predicate is not TRUE".
package main

import (
	"database/sql"
	"encoding/json"
	"fmt"
	"io"
	"net/http/httptest"
	"os"
	"path/filepath"
	"regexp"
	"sort"
	"strings"

	"github.com/basekick-labs/arc/internal/api"
	"github.com/basekick-labs/arc/internal/config"
	"github.com/basekick-labs/arc/internal/database"
	"github.com/basekick-labs/arc/internal/storage"
	"github.com/basekick-labs/arc/internal/verif/vh"
	"github.com/gofiber/fiber/v2"
	"github.com/rs/zerolog"
)

// ---------------------------------------------------------------- cells / rows

// cell kinds: '~' null, 'i' BIGINT, 'f' DOUBLE in quarter units, 's' VARCHAR, 'b' BOOLEAN, 't' TIMESTAMP (µs)
type cell struct {
	k byte
	n int64
	s string
}

var null = cell{k: '~'}

// op lines are space separated and single-line: blanks inside string cells are written ^_ ^t ^n (^^ = ^)
var escWS = strings.NewReplacer("^", "^^", " ", "^_", "\t", "^t", "\n", "^n")

func (c cell) enc() string {
	switch c.k {
	case '~':
		return "~"
	case 's':
		return "s:" + escWS.Replace(c.s)
	default:
		return fmt.Sprintf("%c:%d", c.k, c.n)
	}
}

// column schema (fixed): index, name, kind
var colNames = []string{"rid", "time", "i", "f", "s", "b"}
var colKinds = []byte{'i', 't', 'i', 'f', 's', 'b'}
var sqlTypes = map[byte]string{'i': "BIGINT", 't': "TIMESTAMP", 'f': "DOUBLE", 's': "VARCHAR", 'b': "BOOLEAN"}

type row []cell

func (r row) enc() string {
	p := make([]string, len(r))
	for i, c := range r {
		p[i] = c.enc()
	}
	return strings.Join(p, ",")
}

func encRows(rs []row) string {
	if len(rs) == 0 {
		return "-"
	}
	p := make([]string, len(rs))
	for i, r := range rs {
		p[i] = r.enc()
	}
	return strings.Join(p, ";")
}

func quarters(q int64) string {
	neg := q < 0
	if neg {
		q = -q
	}
	s := fmt.Sprintf("%d.%02d", q/4, (q%4)*25)
	if neg {
		s = "-" + s
	}
	return s
}

// sqlLit renders a cell as a DuckDB literal of its column type (used both for writing files and in predicates).
func sqlLit(c cell, kind byte) string {
	switch c.k {
	case '~':
		return "CAST(NULL AS " + sqlTypes[kind] + ")"
	case 'i':
		return fmt.Sprintf("CAST(%d AS BIGINT)", c.n)
	case 'f':
		return "CAST(" + quarters(c.n) + " AS DOUBLE)"
	case 's':
		return "'" + strings.ReplaceAll(c.s, "'", "''") + "'"
	case 'b':
		if c.n != 0 {
			return "true"
		}
		return "false"
	case 't':
		return fmt.Sprintf("make_timestamp(CAST(%d AS BIGINT))", c.n)
	}
	panic("bad cell")
}

// predLit renders a literal inside a WHERE clause (plain literals, as a user would write them).
func predLit(c cell) string {
	switch c.k {
	case '~':
		return "NULL"
	case 'i':
		return fmt.Sprintf("%d", c.n)
	case 'f':
		return quarters(c.n)
	case 's':
		return "'" + c.s + "'"
	case 'b':
		if c.n != 0 {
			return "true"
		}
		return "false"
	case 't':
		sec, us := c.n/1_000_000, c.n%1_000_000
		// base is 2024-01-01 00:00:00 UTC = 1704067200; only offsets inside that day are generated
		d := sec - 1704067200
		return fmt.Sprintf("TIMESTAMP '2024-01-01 %02d:%02d:%02d.%06d'", d/3600, (d/60)%60, d%60, us)
	}
	panic("bad cell")
}

// ---------------------------------------------------------------- predicates

type pred struct {
	op   string // cmp and or not in like isnull notnull lit
	cmp  string // eq ne lt le gt ge
	col  int
	lit  cell
	lits []cell
	a, b *pred
}

var cmpSQL = map[string]string{"eq": "=", "ne": "<>", "lt": "<", "le": "<=", "gt": ">", "ge": ">="}

// wsSep separates tokens OUTSIDE string literals: " " normally, "\n\t" for pretty-printed multi-line
// requests (same predicate, same op line).
var wsSep = " "

func (p *pred) sql() string {
	switch p.op {
	case "cmp":
		return colNames[p.col] + wsSep + cmpSQL[p.cmp] + wsSep + predLit(p.lit)
	case "and":
		return "(" + p.a.sql() + ")" + wsSep + "AND" + wsSep + "(" + p.b.sql() + ")"
	case "or":
		return "(" + p.a.sql() + ")" + wsSep + "OR" + wsSep + "(" + p.b.sql() + ")"
	case "not":
		return "NOT (" + p.a.sql() + ")"
	case "in":
		ls := make([]string, len(p.lits))
		for i, l := range p.lits {
			ls[i] = predLit(l)
		}
		return colNames[p.col] + " IN (" + strings.Join(ls, ", ") + ")"
	case "like":
		return colNames[p.col] + " LIKE " + predLit(p.lit)
	case "isnull":
		return colNames[p.col] + " IS NULL"
	case "notnull":
		return colNames[p.col] + " IS NOT NULL"
	case "lit":
		switch p.lit.k {
		case '~':
			return "NULL"
		default:
			if p.lit.n != 0 {
				return "TRUE"
			}
			return "FALSE"
		}
	}
	panic("bad pred")
}

func (p *pred) enc() string {
	switch p.op {
	case "cmp":
		return fmt.Sprintf("cmp %s %d %s", p.cmp, p.col, p.lit.enc())
	case "and", "or":
		return p.op + " " + p.a.enc() + " " + p.b.enc()
	case "not":
		return "not " + p.a.enc()
	case "in":
		ls := make([]string, len(p.lits))
		for i, l := range p.lits {
			ls[i] = l.enc()
		}
		return fmt.Sprintf("in %d %d %s", p.col, len(p.lits), strings.Join(ls, " "))
	case "like":
		return fmt.Sprintf("like %d %s", p.col, p.lit.enc())
	case "isnull", "notnull":
		return fmt.Sprintf("%s %d", p.op, p.col)
	case "lit":
		switch {
		case p.lit.k == '~':
			return "lit n"
		case p.lit.n != 0:
			return "lit t"
		}
		return "lit f"
	}
	panic("bad pred")
}

func (p *pred) kinds(m map[string]bool) {
	m[p.op] = true
	if p.a != nil {
		p.a.kinds(m)
	}
	if p.b != nil {
		p.b.kinds(m)
	}
}

// ---------------------------------------------------------------- generators

const tsBase = int64(1704067200) * 1_000_000

var strPool = []string{"", "a", "ab", "abc", "b", "ba", "bab", "c", "A", "aB", "a%", "a_c",
	"a b", "a  b", "a   b", "a\tb", "a\nb", " a", "a ", "  a", "a b c", "a  b c"}
var likePool = []string{"%", "a%", "%b", "%a%", "_", "a_", "_b%", "a_c", "abc", "", "%%", "_%_", "A%", "a\\%",
	"a %", "a  %", "a\t%", "% b", "%  b", "a__b", " %", "% ", "a b%", "a  b%"}

func genCell(r *vh.Rand, kind byte, nullPct int) cell {
	if r.Chance(nullPct) {
		return null
	}
	switch kind {
	case 'i':
		return cell{k: 'i', n: int64(r.Range(-2, 3))}
	case 'f':
		return cell{k: 'f', n: int64(r.Range(-5, 6))}
	case 's':
		return cell{k: 's', s: vh.Pick(r, strPool)}
	case 'b':
		return cell{k: 'b', n: int64(r.Intn(2))}
	case 't':
		return cell{k: 't', n: tsBase + int64(r.Intn(5))*1_000_000 + int64(r.Intn(2))*500_000}
	}
	panic("kind")
}

func genPred(r *vh.Rand, depth int) *pred {
	if depth > 0 && r.Chance(45) {
		switch r.Intn(3) {
		case 0:
			return &pred{op: "and", a: genPred(r, depth-1), b: genPred(r, depth-1)}
		case 1:
			return &pred{op: "or", a: genPred(r, depth-1), b: genPred(r, depth-1)}
		default:
			return &pred{op: "not", a: genPred(r, depth-1)}
		}
	}
	col := r.Range(1, 5)
	kind := colKinds[col]
	switch x := r.Intn(100); {
	case x < 40:
		ops := []string{"eq", "ne", "lt", "le", "gt", "ge"}
		return &pred{op: "cmp", cmp: vh.Pick(r, ops), col: col, lit: genCell(r, kind, 6)}
	case x < 58:
		n := r.Range(1, 3)
		ls := make([]cell, n)
		for i := range ls {
			ls[i] = genCell(r, kind, 15)
		}
		return &pred{op: "in", col: col, lits: ls}
	case x < 72:
		return &pred{op: "like", col: 4, lit: cell{k: 's', s: vh.Pick(r, likePool)}}
	case x < 82:
		return &pred{op: "isnull", col: col}
	case x < 92:
		return &pred{op: "notnull", col: col}
	default:
		return &pred{op: "lit", lit: vh.Pick(r, []cell{null, {k: 'b', n: 1}, {k: 'b', n: 0}})}
	}
}

// ---------------------------------------------------------------- environment

type env struct {
	c      *vh.Ctx
	root   string
	db     *database.DuckDB
	sqldb  *sql.DB
	be     *storage.LocalBackend
	cfg    *config.DeleteConfig
	app    *fiber.App
	dbName string
	files  []string // relative paths of the current dataset (sorted)
	junk   map[string][]byte // unreadable *.parquet files of the current dataset (fault world) -> their bytes
	pendingJunk []junkF
	caseNo int
}

func must(err error) {
	if err != nil {
		panic(err)
	}
}

func newEnv(c *vh.Ctx) *env {
	root, err := os.MkdirTemp("/var/tmp", "verif-c10-*")
	must(err)
	logger := zerolog.New(io.Discard).Level(zerolog.Disabled)
	be, err := storage.NewLocalBackend(root, logger)
	must(err)
	db, err := database.New(&database.Config{MemoryLimit: "512MB", ThreadCount: 2, MaxConnections: 2, LocalStorageRoot: root}, logger)
	must(err)
	cfg := &config.DeleteConfig{Enabled: true, ConfirmationThreshold: 10000, MaxRowsPerDelete: 1000000}
	h := api.NewDeleteHandler(db, be, cfg, nil, filepath.Join(root, "_tmp"), logger)
	app := fiber.New(fiber.Config{DisableStartupMessage: true})
	h.RegisterRoutes(app)
	return &env{c: c, root: root, db: db, sqldb: db.DB(), be: be, cfg: cfg, app: app}
}

func (e *env) close() {
	e.db.Close()
	os.RemoveAll(e.root)
}

func (e *env) reset() {
	if e.dbName != "" {
		os.RemoveAll(filepath.Join(e.root, e.dbName))
	}
	e.caseNo++
	e.dbName = fmt.Sprintf("db%d", e.caseNo)
	e.files = nil
	e.junk = map[string][]byte{}
}

func (e *env) writeJunk(j junkF) {
	full := filepath.Join(e.root, e.dbName, meas, j.path)
	must(os.MkdirAll(filepath.Dir(full), 0o755))
	var b []byte
	switch j.kind {
	case "zero":
	case "magic":
		b = []byte("PAR0 this is not a parquet file, only a name ending in .parquet PAR0")
	case "trunc":
		tmp := full + ".src"
		_, err := e.sqldb.Exec(fmt.Sprintf("COPY (SELECT range AS rid, 'x' AS s FROM range(50)) TO '%s' (FORMAT PARQUET)", tmp))
		must(err)
		full0, err := os.ReadFile(tmp)
		must(err)
		os.Remove(tmp)
		b = full0[:len(full0)/2]
	}
	must(os.WriteFile(full, b, 0o644))
	e.junk[j.path] = b
}

func (e *env) junkIntact() (string, bool) {
	for p, b := range e.junk {
		got, err := os.ReadFile(filepath.Join(e.root, e.dbName, meas, p))
		if err != nil || string(got) != string(b) {
			return p, false
		}
	}
	return "", true
}

const meas = "m"

func (e *env) writeFile(rel string, rows []row) {
	full := filepath.Join(e.root, e.dbName, meas, rel)
	must(os.MkdirAll(filepath.Dir(full), 0o755))
	var sel []string
	for i, n := range colNames {
		sel = append(sel, fmt.Sprintf("CAST(c%d AS %s) AS \"%s\"", i, sqlTypes[colKinds[i]], n))
	}
	var vals []string
	src := rows
	limit := ""
	if len(rows) == 0 {
		src = []row{{cell{k: 'i'}, null, null, null, null, null}}
		limit = " LIMIT 0"
	}
	for _, r := range src {
		p := make([]string, len(r))
		for i, c := range r {
			p[i] = sqlLit(c, colKinds[i])
		}
		vals = append(vals, "("+strings.Join(p, ", ")+")")
	}
	q := fmt.Sprintf("COPY (SELECT %s FROM (VALUES %s) t(c0,c1,c2,c3,c4,c5)%s) TO '%s' (FORMAT PARQUET)",
		strings.Join(sel, ", "), strings.Join(vals, ", "), limit, full)
	_, err := e.sqldb.Exec(q)
	must(err)
	e.files = append(e.files, rel)
	sort.Strings(e.files)
}

// readFiles reads the given existing files with ONE query (rows ordered by file, rid). extra is an
// optional select expression (the predicate), returned as a tri-state per row (0 false, 1 true, 2 NULL).
func (e *env) readFiles(rels []string, extra string) (map[string][]row, map[string][]int) {
	out, pvs := map[string][]row{}, map[string][]int{}
	if len(rels) == 0 {
		return out, pvs
	}
	base := filepath.Join(e.root, e.dbName, meas) + "/"
	var list []string
	for _, rel := range rels {
		out[rel], pvs[rel] = []row{}, []int{}
		list = append(list, "'"+base+rel+"'")
	}
	x := "NULL::BOOLEAN"
	if extra != "" {
		x = "(" + extra + ")"
	}
	rs, err := e.sqldb.Query(fmt.Sprintf("SELECT filename, rid, epoch_us(time), i, f, s, b, %s FROM read_parquet([%s], filename=true) ORDER BY filename, rid", x, strings.Join(list, ", ")))
	must(err)
	defer rs.Close()
	for rs.Next() {
		var fn string
		var rid int64
		var t, i sql.NullInt64
		var f sql.NullFloat64
		var s sql.NullString
		var b, p sql.NullBool
		must(rs.Scan(&fn, &rid, &t, &i, &f, &s, &b, &p))
		rel := strings.TrimPrefix(fn, base)
		if _, ok := out[rel]; !ok {
			panic("unexpected filename from DuckDB: " + fn)
		}
		r := row{{k: 'i', n: rid}, null, null, null, null, null}
		if t.Valid {
			r[1] = cell{k: 't', n: t.Int64}
		}
		if i.Valid {
			r[2] = cell{k: 'i', n: i.Int64}
		}
		if f.Valid {
			q := f.Float64 * 4
			if q != float64(int64(q)) {
				panic(fmt.Sprintf("non-quarter float read back: %v", f.Float64))
			}
			r[3] = cell{k: 'f', n: int64(q)}
		}
		if s.Valid {
			r[4] = cell{k: 's', s: s.String}
		}
		if b.Valid {
			r[5] = cell{k: 'b'}
			if b.Bool {
				r[5].n = 1
			}
		}
		out[rel] = append(out[rel], r)
		v := 2 // NULL
		if p.Valid {
			v = 0
			if p.Bool {
				v = 1
			}
		}
		pvs[rel] = append(pvs[rel], v)
	}
	must(rs.Err())
	return out, pvs
}

type snapshot map[string][]row // present files only

func (e *env) snap(where string) (snapshot, map[string][]int) {
	var present []string
	for _, f := range e.files {
		if _, err := os.Stat(filepath.Join(e.root, e.dbName, meas, f)); err == nil {
			present = append(present, f)
		}
	}
	rows, pv := e.readFiles(present, where)
	return snapshot(rows), pv
}

func (s snapshot) enc(files []string) string {
	var parts []string
	for _, f := range files {
		if rows, ok := s[f]; ok {
			parts = append(parts, f+"=["+encRows(rows)+"]")
		}
	}
	if len(parts) == 0 {
		return "empty"
	}
	return strings.Join(parts, "|")
}

type delResp struct {
	Success        bool     `json:"success"`
	DeletedCount   int64    `json:"deleted_count"`
	AffectedFiles  int      `json:"affected_files"`
	RewrittenFiles int      `json:"rewritten_files"`
	DryRun         bool     `json:"dry_run"`
	FilesProcessed []string `json:"files_processed"`
	FailedFiles    []string `json:"failed_files"`
	Error          string   `json:"error"`
}

func errEnum(s string) string {
	switch {
	case strings.Contains(s, "Full table delete detected"):
		return "fulltable-confirm"
	case strings.Contains(s, "Confirmation required for delete"):
		return "confirm-required"
	case strings.Contains(s, "exceeding maximum"):
		return "max-rows"
	case strings.Contains(s, "rows (threshold"):
		return "threshold"
	case strings.Contains(s, "WHERE clause is required"):
		return "where-required"
	case strings.Contains(s, "forbidden"):
		return "forbidden"
	case strings.Contains(s, "unmatched"):
		return "unmatched"
	case strings.Contains(s, "disabled"):
		return "disabled"
	case strings.Contains(s, "is required"):
		return "field-required"
	case strings.Contains(s, "invalid characters"):
		return "invalid-name"
	case strings.Contains(s, "Invalid request body"):
		return "bad-body"
	case strings.Contains(s, "files failed to process"):
		return "files-failed"
	case strings.Contains(s, "Failed to find affected files"):
		return "find-failed"
	}
	return "other"
}

func (e *env) post(body []byte) (int, delResp) {
	req := httptest.NewRequest("POST", "/api/v1/delete/", strings.NewReader(string(body)))
	req.Header.Set("Content-Type", "application/json")
	resp, err := e.app.Test(req, -1)
	must(err)
	b, _ := io.ReadAll(resp.Body)
	var dr delResp
	json.Unmarshal(b, &dr)
	return resp.StatusCode, dr
}

func delOut(status int, r delResp) string {
	if status != 200 && status != 207 {
		return fmt.Sprintf("status=%d err=%s", status, errEnum(r.Error))
	}
	fp := append([]string{}, r.FilesProcessed...)
	sort.Strings(fp)
	ff := append([]string{}, r.FailedFiles...)
	sort.Strings(ff)
	j := func(x []string) string {
		if len(x) == 0 {
			return "-"
		}
		return strings.Join(x, ",")
	}
	return fmt.Sprintf("status=%d success=%v deleted=%d affected=%d rewritten=%d files=%s failed=%s",
		status, r.Success, r.DeletedCount, r.AffectedFiles, r.RewrittenFiles, j(fp), j(ff))
}

// ---------------------------------------------------------------- one case

// junkF: an unreadable file that sits in the measurement next to the healthy ones. It makes the batch
// count query fail, so the handler takes the per-file fallback (countMatchingRowsIndividually).
type junkF struct{ path, kind string }

type addF struct {
	path string
	rows []row
}

type delReq struct {
	dry, confirm bool
	max, thr     int
	p            *pred
	pretty       bool   // the WHERE text is sent multi-line (newline/tab between tokens)
	add          []addF // NEW parquet files (new paths) that land in the measurement before this request
}

func b01(b bool) int {
	if b {
		return 1
	}
	return 0
}

func (e *env) doDelete(d delReq, replay *strings.Builder) (int, delResp, snapshot, map[string][]int, snapshot) {
	where := d.p.sql()
	before, pv := e.snap(where)
	e.cfg.MaxRowsPerDelete, e.cfg.ConfirmationThreshold = d.max, d.thr
	body, _ := json.Marshal(map[string]any{"database": e.dbName, "measurement": meas, "where": where, "dry_run": d.dry, "confirm": d.confirm})
	status, r := e.post(body)
	op := fmt.Sprintf("del %d %d %d %d %s", b01(d.dry), b01(d.confirm), d.max, d.thr, d.p.enc())
	e.c.Op(op, delOut(status, r))
	fmt.Fprintf(replay, "%s   -- POST /api/v1/delete {where:%q dry_run:%v confirm:%v} -> %s\n", op, where, d.dry, d.confirm, delOut(status, r))
	after, _ := e.snap("")
	e.c.Op("dump", after.enc(e.files))
	fmt.Fprintf(replay, "dump   -- %s\n", after.enc(e.files))
	return status, r, before, pv, after
}

func total(s snapshot) int {
	n := 0
	for _, r := range s {
		n += len(r)
	}
	return n
}

func sameSnap(a, b snapshot) bool {
	if len(a) != len(b) {
		return false
	}
	for f, ra := range a {
		rb, ok := b[f]
		if !ok || encRows(ra) != encRows(rb) {
			return false
		}
	}
	return true
}

// monitorReal checks the property clauses for a confirmed (non-dry) delete that the handler reported as done.
func (e *env) monitorReal(where string, r delResp, before snapshot, pv map[string][]int, after snapshot, replay string) {
	for f, rows := range before {
		nTrue := 0
		for _, v := range pv[f] {
			if v == 1 {
				nTrue++
			}
		}
		if aft, ok := after[f]; nTrue == 0 && (!ok || encRows(aft) != encRows(rows)) {
			e.c.Fail("unaffected-file-changed:countMatchingRowsInFiles", fmt.Sprintf("file %s holds no row matching WHERE %s but was %s by the delete", f, where, map[bool]string{true: "rewritten", false: "removed"}[ok]), replay)
		}
		if _, ok := after[f]; nTrue > 0 && nTrue == len(rows) && ok {
			e.c.Tag("del:real:whole-file-kept-as-empty")
		}
		if nTrue > 0 && nTrue == len(rows) {
			e.c.Tag("del:real:whole-file")
		} else if nTrue > 0 {
			e.c.Tag("del:real:partial-file")
		}
		present := map[string]int{}
		for _, x := range after[f] {
			present[x.enc()]++
		}
		for k, x := range rows {
			key := x.enc()
			kept := present[key] > 0
			if kept {
				present[key]--
			}
			switch pv[f][k] {
			case 1:
				if kept {
					e.c.Fail("true-predicate-row-kept:rewriteFileWithoutDeletedRows", fmt.Sprintf("row %s of %s satisfies WHERE %s but is still present after a successful delete", key, f, where), replay)
				}
			case 0:
				if !kept {
					e.c.Fail("false-predicate-row-deleted:rewriteFileWithoutDeletedRows", fmt.Sprintf("row %s of %s has WHERE %s = FALSE but disappeared", key, f, where), replay)
				}
			case 2:
				if !kept {
					_, still := after[f]
					site := "rewriteLocalFile"
					if !still {
						site = "file-removed"
					}
					e.c.Tag("finding:null-row-deleted:" + site)
					e.c.Fail("null-predicate-row-deleted:"+site, fmt.Sprintf("row %s of %s has WHERE %s = NULL (DuckDB evaluation) but disappeared; the property says rows where the predicate is NULL stay untouched", key, f, where), replay)
				}
			}
		}
		for key, n := range present {
			if n > 0 {
				e.c.Fail("row-appeared:rewriteFileWithoutDeletedRows", fmt.Sprintf("row %s appeared in %s", key, f), replay)
			}
		}
	}
	for f := range after {
		if _, ok := before[f]; !ok {
			e.c.Fail("file-appeared:delete", "file "+f+" appeared", replay)
		}
	}
	if gone := int64(total(before) - total(after)); r.DeletedCount != gone {
		e.c.Fail("deleted-count-mismatch:handleDelete", fmt.Sprintf("deleted_count=%d but %d rows disappeared (WHERE %s)", r.DeletedCount, gone, where), replay)
	}
}

func (e *env) runCase(files map[string][]row, order []string, reqs []delReq, tag string) {
	e.reset()
	var canon, replay strings.Builder
	e.c.Op("ds", "ok")
	canon.WriteString("ds;")
	replay.WriteString("ds\n")
	for _, f := range order {
		e.writeFile(f, files[f])
		op := "file " + f + " " + encRows(files[f])
		e.c.Op(op, fmt.Sprintf("ok rows=%d", len(files[f])))
		canon.WriteString(op + ";")
		replay.WriteString(op + "\n")
	}
	for _, j := range e.pendingJunk {
		e.writeJunk(j)
		op := "junk " + j.path + " " + j.kind
		e.c.Op(op, "ok")
		canon.WriteString(op + ";")
		replay.WriteString(op + "   -- unreadable file (" + j.kind + ") in the measurement: the batch count fails, per-file fallback\n")
		e.c.Tag("world:unreadable-file:" + j.kind)
	}
	fallback := len(e.pendingJunk) > 0
	e.pendingJunk = nil
	s0, _ := e.snap("")
	e.c.Op("dump", s0.enc(e.files))
	nontriv := false
	var lastDry *delResp
	var lastDryWhere string
	for _, d := range reqs {
		for _, a := range d.add {
			e.writeFile(a.path, a.rows)
			op := "file " + a.path + " " + encRows(a.rows)
			e.c.Op(op, fmt.Sprintf("ok rows=%d", len(a.rows)))
			canon.WriteString(op + ";")
			replay.WriteString(op + "   -- a new file lands in the measurement\n")
			e.c.Tag("history:file-added-between-requests")
			lastDry = nil // the data changed: the earlier preview is not comparable any more
		}
		wsSep = " "
		if d.pretty {
			wsSep = "\n\t"
			e.c.Tag("del:pretty-printed-where")
		}
		where := d.p.sql()
		canon.WriteString(fmt.Sprintf("del %d %d %d %d %s;", b01(d.dry), b01(d.confirm), d.max, d.thr, d.p.enc()))
		status, r, before, pv, after := e.doDelete(d, &replay)
		nNull, nTrue := 0, 0
		for _, v := range pv {
			for _, x := range v {
				if x == 2 {
					nNull++
				}
				if x == 1 {
					nTrue++
				}
			}
		}
		if nTrue > 0 {
			nontriv = true
		}
		if jp, ok := e.junkIntact(); !ok {
			e.c.Fail("unreadable-file-touched:fallback-count-path", "the unreadable file "+jp+" was modified or removed by a delete request", replay.String())
		}
		e.c.Tag(fmt.Sprintf("del:status=%d", status))
		switch {
		case status != 200 && status != 207:
			e.c.Tag("del:err=" + errEnum(r.Error))
			if !sameSnap(before, after) {
				e.c.Fail("rejected-delete-mutated:handleDelete", fmt.Sprintf("request rejected with %d (%s) but the data changed", status, r.Error), replay.String())
			}
		case d.dry:
			e.c.Tag("del:dry")
			if !sameSnap(before, after) {
				e.c.Fail("dry-run-mutated:handleDelete", "dry_run=true changed the stored rows (WHERE "+where+")", replay.String())
			}
			if !r.DryRun {
				e.c.Fail("dry-run-flag-lost:handleDelete", "response of a dry run does not say dry_run=true", replay.String())
			}
			if status == 200 && r.DeletedCount != int64(nTrue) {
				e.c.Fail("dry-run-count-wrong:findAffectedFiles", fmt.Sprintf("dry run reported deleted_count=%d but %d stored rows satisfy WHERE %s (DuckDB evaluation over every file of the measurement)", r.DeletedCount, nTrue, where), replay.String())
			}
			rc := r
			lastDry, lastDryWhere = &rc, where
		default:
			e.c.Tag("del:real")
			if nTrue > 0 && nNull > 0 {
				e.c.Tag("del:real:has-null-rows")
			}
			if status == 200 && r.Success {
				nf := len(e.c.PropFails)
				e.monitorReal(where, r, before, pv, after, replay.String())
				if len(e.c.PropFails) > nf {
					// classify the failure by the world / request shape it occurred in
					lost := total(before)-total(after) > nTrue
					if fallback && lost {
						e.c.Fail("non-matching-rows-lost:fallback-count-path", fmt.Sprintf("with an unreadable file in the measurement (per-file fallback scan) the delete WHERE %s removed %d rows although only %d match", where, total(before)-total(after), nTrue), replay.String())
					}
					if wsLiteral.MatchString(where) {
						e.c.Fail("wrong-rows-deleted:predicate-text-altered", fmt.Sprintf("WHERE %q carries a string literal with a blank run / tab / newline / edge blank; the rows removed are not the rows DuckDB selects for that text", where), replay.String())
					}
				}
				if lastDry != nil && lastDryWhere == where {
					gone := int64(total(before) - total(after))
					if lastDry.DeletedCount != r.DeletedCount || lastDry.DeletedCount != gone {
						e.c.Tag("finding:dry-count-differs")
						e.c.Fail("dry-run-count-differs:handleDelete", fmt.Sprintf("dry run reported deleted_count=%d; the confirmed delete of the same request on the same data reported %d and removed %d rows (WHERE %s)", lastDry.DeletedCount, r.DeletedCount, gone, where), replay.String())
					}
				}
			} else {
				e.c.Tag("del:partial-failure")
			}
			lastDry = nil
		}
		m := map[string]bool{}
		d.p.kinds(m)
		for k := range m {
			e.c.Tag("pred:" + k)
		}
	}
	seen := map[string]bool{}
	for _, f := range order {
		if b := filepath.Base(f); seen[b] {
			e.c.Tag("layout:same-basename-in-several-partitions")
			break
		} else {
			seen[b] = true
		}
	}
	e.c.Tag("case:" + tag)
	e.c.Case(canon.String(), nontriv)
}

// wsLiteral: a quoted literal containing 2+ blanks in a row, a tab/newline, or a leading/trailing blank
var wsLiteral = regexp.MustCompile(`'[^']*(  |\t|\n)[^']*'|' [^']*'|'[^']* '`)

// ---------------------------------------------------------------- main

// genDataset: 1–5 files over hour partitions. Base names come from a tiny pool so the SAME base name
// regularly occurs in several partition directories (arc's writers name files per partition, not
// globally); `homog` datasets give every file one constant value in columns i/s/b so that
// predicates on those columns select WHOLE files (whole-file removal next to partial rewrites).
func genDataset(r *vh.Rand, rid *int64) (map[string][]row, []string, bool) {
	nf := r.Range(1, 5)
	files := map[string][]row{}
	var order []string
	nullPct := vh.Pick(r, []int{0, 15, 30, 50})
	homog := r.Chance(45)
	names := []string{"data.parquet", "data.parquet", "f0.parquet", "m_compacted.parquet"}
	for k := 0; k < nf; k++ {
		var name string
		for try := 0; ; try++ {
			name = fmt.Sprintf("2024/01/%02d/%02d/%s", 1+r.Intn(2), r.Intn(4), vh.Pick(r, names))
			if r.Chance(12) {
				name = fmt.Sprintf("2024/01/%02d/%s", 1+r.Intn(2), vh.Pick(r, names))
			}
			if _, dup := files[name]; !dup {
				break
			}
			if try > 20 {
				name = fmt.Sprintf("2024/01/03/%02d/f%d.parquet", k, k)
				break
			}
		}
		nr := r.Range(0, 6)
		var rows []row
		fi, fs, fb := genCell(r, 'i', 0), genCell(r, 's', 0), genCell(r, 'b', 0)
		partial := r.Chance(35) // a homogeneous file with a few deviating rows => partial rewrite
		for j := 0; j < nr; j++ {
			*rid++
			rw := row{{k: 'i', n: *rid}}
			for c := 1; c < len(colKinds); c++ {
				rw = append(rw, genCell(r, colKinds[c], nullPct))
			}
			if homog && !(partial && r.Chance(40)) {
				rw[2], rw[4], rw[5] = fi, fs, fb
			}
			rows = append(rows, rw)
		}
		files[name] = rows
		order = append(order, name)
	}
	sort.Strings(order)
	return files, order, homog
}

// genWholeFilePred: a predicate built from the constant values of some files of a homogeneous
// dataset, so it is TRUE on every row of those files.
func genWholeFilePred(r *vh.Rand, files map[string][]row, order []string) *pred {
	var lits []cell
	col := vh.Pick(r, []int{2, 4})
	for _, f := range order {
		if len(files[f]) > 0 && r.Chance(50) {
			lits = append(lits, files[f][0][col])
		}
	}
	if len(lits) == 0 {
		for _, f := range order {
			if len(files[f]) > 0 {
				lits = append(lits, files[f][0][col])
				break
			}
		}
	}
	if len(lits) == 0 {
		return genPred(r, 1)
	}
	if len(lits) == 1 && r.Bool() {
		return &pred{op: "cmp", cmp: "eq", col: col, lit: lits[0]}
	}
	return &pred{op: "in", col: col, lits: lits}
}

func main() {
	c := vh.Start()
	e := newEnv(c)
	defer e.close()
	r := vh.NewRand(c.Seed)
	n := c.N
	if n == 0 {
		n = 250
		if c.Thorough() {
			n = 1500
		}
	}
	I := func(v int64) cell { return cell{k: 'i', n: v} }
	S := func(v string) cell { return cell{k: 's', s: v} }
	B := func(v int64) cell { return cell{k: 'b', n: v} }
	F := func(v int64) cell { return cell{k: 'f', n: v} }
	T := func(v int64) cell { return cell{k: 't', n: tsBase + v} }
	big := 1000000

	// (1) edge grid: the minimal three-valued cases, one per predicate form, each as dry run + confirmed delete.
	mk := func(rows ...row) map[string][]row { return map[string][]row{"2024/01/01/00/a.parquet": rows} }
	one := []string{"2024/01/01/00/a.parquet"}
	r3 := func(rid int64, i cell) row { return row{I(rid), T(0), i, F(2), S("ab"), B(1)} }
	edge := []struct {
		tag  string
		data map[string][]row
		p    *pred
	}{
		{"edge:cmp-null-row", mk(r3(1, I(5)), r3(2, null)), &pred{op: "cmp", cmp: "gt", col: 2, lit: I(1)}},
		{"edge:cmp-null-row-keep", mk(r3(1, I(5)), r3(2, null), r3(3, I(0))), &pred{op: "cmp", cmp: "gt", col: 2, lit: I(1)}},
		{"edge:cmp-no-null", mk(r3(1, I(5)), r3(2, I(0))), &pred{op: "cmp", cmp: "gt", col: 2, lit: I(1)}},
		{"edge:in-null-lit", mk(r3(1, I(1)), r3(2, I(2))), &pred{op: "in", col: 2, lits: []cell{I(1), null}}},
		{"edge:not-in-null", mk(r3(1, I(1)), r3(2, I(2)), r3(3, null)), &pred{op: "not", a: &pred{op: "in", col: 2, lits: []cell{I(1)}}}},
		{"edge:eq-null-lit", mk(r3(1, I(1)), r3(2, null)), &pred{op: "or", a: &pred{op: "cmp", cmp: "eq", col: 2, lit: null}, b: &pred{op: "cmp", cmp: "eq", col: 2, lit: I(1)}}},
		{"edge:like-null", mk(row{I(1), T(0), I(1), F(1), S("abc"), B(0)}, row{I(2), T(0), I(1), F(1), null, B(0)}, row{I(3), T(0), I(1), F(1), S("b"), B(0)}), &pred{op: "like", col: 4, lit: S("a%")}},
		{"edge:isnull", mk(r3(1, I(1)), r3(2, null)), &pred{op: "isnull", col: 2}},
		{"edge:notnull", mk(r3(1, I(1)), r3(2, null)), &pred{op: "notnull", col: 2}},
		{"edge:and-false-null", mk(r3(1, I(5)), r3(2, null), r3(3, I(0))), &pred{op: "and", a: &pred{op: "cmp", cmp: "gt", col: 2, lit: I(1)}, b: &pred{op: "cmp", cmp: "eq", col: 5, lit: B(1)}}},
		{"edge:or-true-null", mk(r3(1, I(5)), r3(2, null)), &pred{op: "or", a: &pred{op: "cmp", cmp: "gt", col: 2, lit: I(1)}, b: &pred{op: "lit", lit: null}}},
		{"edge:all-true-or-null", mk(r3(1, I(5)), r3(2, null), r3(3, I(7))), &pred{op: "cmp", cmp: "gt", col: 2, lit: I(1)}},
		{"edge:full-table", mk(r3(1, I(5)), r3(2, null)), &pred{op: "lit", lit: B(1)}},
		{"edge:lit-null", mk(r3(1, I(5)), r3(2, null)), &pred{op: "lit", lit: null}},
		{"edge:time-cmp", mk(row{I(1), T(1000000), I(1), F(1), S("a"), B(0)}, row{I(2), null, I(1), F(1), S("a"), B(0)}, row{I(3), T(3000000), I(1), F(1), S("a"), B(0)}), &pred{op: "cmp", cmp: "lt", col: 1, lit: T(2000000)}},
		{"edge:float-cmp", mk(row{I(1), T(0), I(1), F(5), S("a"), B(0)}, row{I(2), T(0), I(1), null, S("a"), B(0)}, row{I(3), T(0), I(1), F(-3), S("a"), B(0)}), &pred{op: "cmp", cmp: "ge", col: 3, lit: F(5)}},
		{"edge:bool-cmp", mk(row{I(1), T(0), I(1), F(5), S("a"), B(0)}, row{I(2), T(0), I(1), F(5), S("a"), null}, row{I(3), T(0), I(1), F(5), S("a"), B(1)}), &pred{op: "cmp", cmp: "lt", col: 5, lit: B(1)}},
		{"edge:str-cmp", mk(row{I(1), T(0), I(1), F(5), S("a"), B(0)}, row{I(2), T(0), I(1), F(5), S("A"), B(0)}, row{I(3), T(0), I(1), F(5), S("ab"), B(1)}, row{I(4), T(0), I(1), F(5), S(""), B(1)}), &pred{op: "cmp", cmp: "le", col: 4, lit: S("a")}},
	}
	for _, ed := range edge {
		e.runCase(ed.data, one, []delReq{{dry: true, confirm: false, max: big, thr: big, p: ed.p}, {dry: false, confirm: false, max: big, thr: big, p: ed.p}, {dry: false, confirm: true, max: big, thr: big, p: ed.p}}, ed.tag)
	}
	// same base name in several hour partitions; the predicate selects every row of ONE of the files
	// (whole-file removal), of an earlier / a later / the middle one, next to a partial rewrite.
	{
		ri := func(rid, i int64) row { return row{I(rid), T(0), I(i), F(2), S("ab"), B(1)} }
		for k, sel := range []int64{10, 20, 30} {
			data := map[string][]row{
				"2024/01/01/00/data.parquet": {ri(1, 10), ri(2, 10)},
				"2024/01/01/01/data.parquet": {ri(3, 20), ri(4, 20), ri(5, 20)},
				"2024/01/01/02/data.parquet": {ri(6, 30)},
				"2024/01/02/00/data.parquet": {ri(7, sel), ri(8, 99)},
			}
			order := []string{"2024/01/01/00/data.parquet", "2024/01/01/01/data.parquet", "2024/01/01/02/data.parquet", "2024/01/02/00/data.parquet"}
			p := &pred{op: "cmp", cmp: "eq", col: 2, lit: I(sel)}
			e.runCase(data, order, []delReq{{dry: true, confirm: false, max: big, thr: big, p: p}, {dry: false, confirm: true, max: big, thr: big, p: p}}, fmt.Sprintf("edge:same-basename-%d", k))
		}
	}
	// gates: max rows, confirmation threshold
	{
		data := mk(r3(1, I(5)), r3(2, I(6)), r3(3, I(0)))
		p := &pred{op: "cmp", cmp: "gt", col: 2, lit: I(1)}
		e.runCase(data, one, []delReq{{dry: true, confirm: false, max: big, thr: 1, p: p}, {dry: true, confirm: true, max: big, thr: 1, p: p}, {dry: true, confirm: true, max: 1, thr: big, p: p}, {dry: false, confirm: true, max: 1, thr: big, p: p}, {dry: false, confirm: true, max: 2, thr: 1, p: p}}, "edge:gates")
	}

	// malformed / refused requests (monitors only)
	e.malformedStream()

	// histories on the ONE long-lived handler: preview, then the data changes, then the identical confirmed delete
	{
		ri := func(rid, i int64) row { return row{I(rid), T(0), I(i), F(2), S("ab"), B(1)} }
		p := &pred{op: "cmp", cmp: "eq", col: 2, lit: I(7)}
		q := &pred{op: "cmp", cmp: "eq", col: 2, lit: I(8)}
		data := map[string][]row{"2024/01/01/00/data.parquet": {ri(1, 7), ri(2, 8), ri(3, 9)}, "2024/01/01/01/data.parquet": {ri(4, 9)}}
		order := []string{"2024/01/01/00/data.parquet", "2024/01/01/01/data.parquet"}
		// new files (one brand-new partition, one next to an existing file) land between preview and confirm
		e.runCase(data, order, []delReq{{dry: true, max: big, thr: big, p: p},
			{confirm: true, max: big, thr: big, p: p, add: []addF{{"2024/01/01/02/data.parquet", []row{ri(5, 7), ri(6, 9)}}, {"2024/01/01/00/late.parquet", []row{ri(7, 7)}}}}}, "edge:preview-add-confirm")
		// an in-place rewrite (another delete) happens between preview and confirm
		e.runCase(data, order, []delReq{{dry: true, max: big, thr: big, p: p}, {confirm: true, max: big, thr: big, p: q}, {confirm: true, max: big, thr: big, p: p}}, "edge:preview-rewrite-confirm")
	}
	// string literals with blank runs, tabs, newlines, edge blanks: data holds the exact value AND its collapsed variants
	{
		rs := func(rid int64, v string) row { return row{I(rid), T(0), I(1), F(2), S(v), B(1)} }
		vals := []string{"rack  7", "rack 7", "rack\t7", "rack\n7", " rack 7", "rack 7 ", "rack   7", "rack7"}
		var rows []row
		for k, v := range vals {
			rows = append(rows, rs(int64(k+1), v))
		}
		data := func() map[string][]row { return map[string][]row{"2024/01/01/00/a.parquet": append([]row{}, rows...)} }
		for k, p := range []*pred{
			{op: "cmp", cmp: "eq", col: 4, lit: S("rack  7")},
			{op: "cmp", cmp: "eq", col: 4, lit: S("rack\t7")},
			{op: "cmp", cmp: "eq", col: 4, lit: S("rack\n7")},
			{op: "cmp", cmp: "eq", col: 4, lit: S(" rack 7")},
			{op: "in", col: 4, lits: []cell{S("rack   7"), S("rack 7 "), S("zz")}},
			{op: "like", col: 4, lit: S("rack  %")},
			{op: "like", col: 4, lit: S("rack\t_")},
			{op: "cmp", cmp: "ne", col: 4, lit: S("rack  7")},
		} {
			e.runCase(data(), one, []delReq{{dry: true, max: big, thr: big, p: p}, {confirm: true, max: big, thr: big, p: p, pretty: k%2 == 1}}, fmt.Sprintf("edge:blank-literal-%d", k))
		}
	}
	// fault worlds: healthy files + one unreadable *.parquet (zero-byte / wrong magic / truncated) => per-file fallback scan
	{
		ri := func(rid, i int64) row { return row{I(rid), T(0), I(i), F(2), S("ab"), B(1)} }
		order := []string{"2024/01/01/00/data.parquet", "2024/01/01/01/data.parquet", "2024/01/01/03/data.parquet"}
		for k, kind := range []string{"zero", "magic", "trunc"} {
			data := map[string][]row{
				order[0]: {ri(1, 7), ri(2, 8), row{I(3), T(0), null, F(2), S("ab"), B(1)}}, // partial: TRUE, FALSE, NULL
				order[1]: {ri(4, 7), ri(5, 7)},                                                // whole file
				order[2]: {ri(6, 9)},                                                          // unaffected
			}
			e.pendingJunk = []junkF{{[]string{"2024/01/01/02/data.parquet", "2024/01/01/00/broken.parquet", "2024/01/02/00/data.parquet"}[k], kind}}
			p := &pred{op: "cmp", cmp: "eq", col: 2, lit: I(7)}
			e.runCase(data, order, []delReq{{dry: true, max: big, thr: big, p: p}, {confirm: true, max: big, thr: big, p: p}}, "edge:unreadable-"+kind)
		}
	}
	// many small files: 101–260 one-/two-row hourly files with the same base name, matches spread over the whole listing
	{
		nMany := 2
		if c.Thorough() {
			nMany = 10
		}
		var rid int64 = 1_000_000
		for k := 0; k < nMany; k++ {
			nf := r.Range(101, 150)
			if k%2 == 1 {
				nf = r.Range(201, 260)
			}
			data := map[string][]row{}
			var order []string
			for j := 0; j < nf; j++ {
				name := fmt.Sprintf("2024/01/%02d/%02d/data.parquet", 1+j/24, j%24)
				nr := 1 + r.Intn(2)
				var rows []row
				for x := 0; x < nr; x++ {
					rid++
					rows = append(rows, row{I(rid), T(int64(j) * 1_000_000), I(int64(r.Intn(4))), genCell(r, 'f', 20), genCell(r, 's', 20), genCell(r, 'b', 20)})
				}
				data[name] = rows
				order = append(order, name)
			}
			sort.Strings(order)
			p := &pred{op: "cmp", cmp: "eq", col: 2, lit: I(int64(r.Intn(4)))}
			if k%3 == 2 {
				p = &pred{op: "in", col: 2, lits: []cell{I(0), I(3)}}
			}
			e.runCase(data, order, []delReq{{dry: true, max: big, thr: big, p: p}, {confirm: true, max: big, thr: big, p: p}}, "many-files")
		}
	}

	// (2) random datasets × predicates; each: dry run, confirmed delete, sometimes a follow-up delete.
	var rid int64 = 100
	for k := 0; k < n; k++ {
		files, order, homog := genDataset(r, &rid)
		if r.Chance(12) {
			e.pendingJunk = []junkF{{fmt.Sprintf("2024/01/%02d/%02d/%s", 1+r.Intn(2), 4+r.Intn(3), vh.Pick(r, []string{"data.parquet", "zz_broken.parquet", "a0.parquet"})), vh.Pick(r, []string{"zero", "magic", "trunc"})}}
		}
		var reqs []delReq
		nd := r.Range(1, 2)
		for j := 0; j < nd; j++ {
			p := genPred(r, r.Range(0, 3))
			if homog && r.Chance(70) {
				p = genWholeFilePred(r, files, order)
			}
			max, thr := big, big
			if r.Chance(8) {
				max = r.Range(0, 3)
			}
			if r.Chance(8) {
				thr = r.Range(0, 3)
			}
			dryFirst := r.Chance(85)
			if dryFirst {
				reqs = append(reqs, delReq{dry: true, confirm: r.Chance(50), max: max, thr: thr, p: p})
			}
			real := delReq{dry: false, confirm: !r.Chance(7), max: max, thr: thr, p: p, pretty: r.Chance(20)}
			if r.Chance(30) {
				// new files land (new paths) before the confirmed delete; rows are copies of stored rows with
				// fresh rids, so they match the predicate as often as the stored ones do
				na := r.Range(1, 2)
				for a := 0; a < na; a++ {
					var src []row
					for _, f := range order {
						src = append(src, files[f]...)
					}
					var rows []row
					for x := r.Range(1, 3); x > 0 && len(src) > 0; x-- {
						rid++
						rw := append(row{}, vh.Pick(r, src)...)
						rw[0] = cell{k: 'i', n: rid}
						rows = append(rows, rw)
					}
					name := fmt.Sprintf("2024/01/%02d/%02d/late%d_%d.parquet", 1+r.Intn(2), r.Intn(4), j, a)
					if r.Chance(50) {
						name = fmt.Sprintf("2024/01/03/%02d/data.parquet", 2*j+a)
					}
					real.add = append(real.add, addF{name, rows})
				}
			}
			reqs = append(reqs, real)
		}
		e.runCase(files, order, reqs, "random")
	}
	c.Finish("cases = (dataset of 1–4 parquet files × 0–6 rows over nullable BIGINT/DOUBLE/VARCHAR/BOOLEAN/TIMESTAMP columns, sequence of delete requests: dry run then confirmed delete, with row-limit/confirmation gates); an edge grid with one minimal three-valued case per predicate form, then random; non-trivial = some request's predicate is TRUE on at least one stored row; distinct = distinct op text")
}
