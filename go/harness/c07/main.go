//go:build verif

// C07 harness: the REAL ingest.ArrowBuffer + wal.Writer + wal.Recovery + shutdown.Coordinator are driven
// through fault/event sequences under a virtual clock; the maintenance tick and the shutdown
// registrations are replayed in the order / with the kinds and priorities that factgen extracted from
// cmd/arc/main.go (the closures themselves live in func main and cannot be linked).  After every event a
// digest of the observable state (buffers, queue depth, in-flight, flag, WAL channel, WAL files with
// their entries and mtimes, rows found in the written Parquet files) is printed and diffed against the
// Lean LTS; property monitors look at the rows stored after storage healed and maintenance, graceful
// shutdown and restart completed.
package main

import (
	"bytes"
	"context"
	"fmt"
	"os"
	"path/filepath"
	"sort"
	"strconv"
	"strings"
	"sync"
	"time"

	"github.com/Basekick-Labs/msgpack/v6"
	"github.com/apache/arrow-go/v18/arrow/array"
	"github.com/apache/arrow-go/v18/arrow/memory"
	"github.com/apache/arrow-go/v18/parquet/file"
	"github.com/apache/arrow-go/v18/parquet/pqarrow"
	"github.com/basekick-labs/arc/internal/config"
	"github.com/basekick-labs/arc/internal/ingest"
	"github.com/basekick-labs/arc/internal/shutdown"
	"github.com/basekick-labs/arc/internal/storage"
	"github.com/basekick-labs/arc/internal/verif/vh"
	"github.com/basekick-labs/arc/internal/verifclock"
	"github.com/basekick-labs/arc/internal/wal"
	"github.com/rs/zerolog"
)

// virtual epoch: 2025-01-01T00:00:00Z; data hours are offsets from the same instant
var t0 = time.Date(2025, 1, 1, 0, 0, 0, 0, time.UTC)

const (
	maxBufferAgeMS = 600_500                            // 600.5 s  -> model ageMax 601
	rotAge         = 300*time.Second + 500*time.Millisecond // 300.5 s -> model rotAge 301
)

// ---------------------------------------------------------------- fault-injecting storage backend

type memStore struct {
	storage.Backend // unimplemented methods panic (none is used by the flush path)
	mu              sync.Mutex
	files           map[string][]int64 // path -> gids found in the written Parquet file
	failAfter       int                // -1 ok; k>=0: k more writes succeed, then every write fails
	succ            []int              // hours of successful writes since failAfter was set
	dead            bool               // process "crashed": nothing reaches storage
	stall           bool               // failing writes block until the flush context is done
	stalledIDs      []int64            // rows of the writes that stalled since the last worker task finished
	unflagged       map[int64]bool     // rows whose stalled worker flush ended without the flush-failure flag
	late            bool               // writes succeed, but return only after the flush context is done
	lateIDs         []int64            // rows stored by such writes since the last task finished
	taskFailed      bool               // some write returned an error since the last task finished
	prevFlag        bool               // flush-failure flag when the current task / op started
	falseFail       map[int64]bool     // rows whose flush was reported failed (flag raised) although every write succeeded
	clashes         int
	badDecode       int
}

func newMemStore() *memStore {
	return &memStore{files: map[string][]int64{}, failAfter: -1, unflagged: map[int64]bool{}, falseFail: map[int64]bool{}}
}

func hourOfPath(p string) int {
	// db/m/YYYY/MM/DD/HH/file
	parts := strings.Split(p, "/")
	if len(parts) < 7 {
		return -1
	}
	d, _ := strconv.Atoi(parts[4])
	h, _ := strconv.Atoi(parts[5])
	return (d-1)*24 + h
}

func (m *memStore) Write(ctx context.Context, path string, data []byte) error {
	m.mu.Lock()
	defer m.mu.Unlock()
	defer verifclock.Advance(time.Millisecond) // the next file name differs
	if m.dead {
		return fmt.Errorf("storage unreachable (process gone)")
	}
	if m.failAfter == 0 {
		m.taskFailed = true
		if m.stall {
			if g, err := gidsOfParquet(data); err == nil {
				m.stalledIDs = append(m.stalledIDs, g...)
			}
			m.mu.Unlock()
			select { // a storage write that never returns: only the flush deadline ends it
			case <-ctx.Done():
			case <-time.After(5 * time.Second):
			}
			m.mu.Lock()
			if err := ctx.Err(); err != nil {
				return err
			}
			return fmt.Errorf("injected storage stall (context without deadline)")
		}
		return fmt.Errorf("injected storage failure")
	}
	if m.failAfter > 0 {
		m.failAfter--
	}
	gids, err := gidsOfParquet(data)
	if err != nil {
		m.badDecode++
	}
	if _, ok := m.files[path]; ok {
		m.clashes++
	}
	m.files[path] = gids
	m.succ = append(m.succ, hourOfPath(path))
	if m.late {
		// the file IS stored; the call only returns after the flush deadline (slow backend that ignores ctx)
		m.lateIDs = append(m.lateIDs, gids...)
		m.mu.Unlock()
		select {
		case <-ctx.Done():
		case <-time.After(200 * time.Millisecond):
		}
		m.mu.Lock()
	}
	return nil
}

// taskEnded: a worker task or a synchronous flush is over and the flag reads `flag`.
func (m *memStore) taskEnded(flag bool) {
	if flag && !m.prevFlag && !m.taskFailed {
		for _, id := range m.lateIDs {
			m.falseFail[id] = true
		}
	}
	m.lateIDs, m.taskFailed, m.prevFlag = nil, false, flag
}
func (m *memStore) Close() error       { return nil }
func (m *memStore) Type() string       { return "verif-mem" }
func (m *memStore) ConfigJSON() string { return "{}" }

func (m *memStore) stored() []int64 {
	m.mu.Lock()
	defer m.mu.Unlock()
	var out []int64
	for _, g := range m.files {
		out = append(out, g...)
	}
	sort.Slice(out, func(i, j int) bool { return out[i] < out[j] })
	return out
}

func gidsOfParquet(data []byte) ([]int64, error) {
	pf, err := file.NewParquetReader(bytes.NewReader(data))
	if err != nil {
		return nil, err
	}
	defer pf.Close()
	rd, err := pqarrow.NewFileReader(pf, pqarrow.ArrowReadProperties{}, memory.DefaultAllocator)
	if err != nil {
		return nil, err
	}
	tbl, err := rd.ReadTable(context.Background())
	if err != nil {
		return nil, err
	}
	defer tbl.Release()
	var out []int64
	for ci := 0; ci < int(tbl.NumCols()); ci++ {
		col := tbl.Column(ci)
		if col.Name() != "gid" {
			continue
		}
		for _, ch := range col.Data().Chunks() {
			a, ok := ch.(*array.Int64)
			if !ok {
				return nil, fmt.Errorf("gid column is %T", ch)
			}
			for i := 0; i < a.Len(); i++ {
				if a.IsNull(i) {
					out = append(out, -1)
				} else {
					out = append(out, a.Value(i))
				}
			}
		}
	}
	return out, nil
}

// ---------------------------------------------------------------- worker gate

type gate struct {
	mu      sync.Mutex
	cond    *sync.Cond
	hold    bool
	tokens  int
	waiting bool
}

func newGate() *gate { g := &gate{}; g.cond = sync.NewCond(&g.mu); return g }

func (g *gate) enter() {
	g.mu.Lock()
	for g.hold && g.tokens == 0 {
		g.waiting = true
		g.cond.Wait()
	}
	if g.hold {
		g.tokens--
	}
	g.waiting = false
	g.mu.Unlock()
}
func (g *gate) set(hold bool) {
	g.mu.Lock()
	g.hold = hold
	g.tokens = 0
	if !hold {
		g.waiting = false
	}
	g.cond.Broadcast()
	g.mu.Unlock()
}
func (g *gate) one() {
	g.mu.Lock()
	g.tokens = 1
	g.waiting = false
	g.cond.Broadcast()
	g.mu.Unlock()
}
func (g *gate) isWaiting() bool { g.mu.Lock(); defer g.mu.Unlock(); return g.waiting }
func (g *gate) holding() bool   { g.mu.Lock(); defer g.mu.Unlock(); return g.hold }

// ---------------------------------------------------------------- facts

type regFact struct {
	Name, Kind, Action string
	Priority           int
}
type factsT struct {
	tickFlag, tickElse []string
	regs               []regFact
	minFileAge         time.Duration
	safeMult           int64
	safeFloor          time.Duration
	purgeGuarded       bool // the shutdown purge is skipped while the flush-failure flag is up
	resetClean         bool // the tick resets the flag only after a pass without a rejected entry
}

func loadFacts(c *vh.Ctx) factsT {
	f := factsT{tickFlag: []string{"purge", "replay", "reset"}, tickElse: []string{"purge"},
		regs: []regFact{{"wal", "component", "walClose", 40}, {"arrow-buffer", "component", "bufClose", 30}, {"wal-purge", "hook", "purgeAll", 35}},
		minFileAge: 5 * time.Second, safeMult: 3, safeFloor: 30 * time.Second}
	if c.Facts == nil {
		return f
	}
	strs := func(k string) []string {
		var out []string
		if xs, ok := c.Facts[k].([]any); ok {
			for _, x := range xs {
				out = append(out, fmt.Sprint(x))
			}
		}
		return out
	}
	num := func(k string) int64 {
		v, _ := c.Facts[k].(float64)
		return int64(v)
	}
	f.tickFlag, f.tickElse = strs("tick_flag"), strs("tick_else")
	f.regs = nil
	if xs, ok := c.Facts["registrations"].([]any); ok {
		for _, x := range xs {
			m := x.(map[string]any)
			p, _ := m["priority"].(float64)
			f.regs = append(f.regs, regFact{fmt.Sprint(m["name"]), fmt.Sprint(m["kind"]), fmt.Sprint(m["action"]), int(p)})
		}
	}
	f.minFileAge = time.Duration(num("min_file_age_ns"))
	f.safeMult = num("safe_age_mult")
	f.safeFloor = time.Duration(num("safe_age_floor_ns"))
	f.purgeGuarded, _ = c.Facts["purge_guarded_by_flag"].(bool)
	f.resetClean, _ = c.Facts["reset_requires_clean_pass"].(bool)
	return f
}

func (f factsT) safeAge() time.Duration {
	s := time.Duration(maxBufferAgeMS) * time.Millisecond * time.Duration(f.safeMult)
	if s < f.safeFloor {
		s = f.safeFloor
	}
	return s
}

// ---------------------------------------------------------------- the system under test

type caseCfg struct {
	wal     bool
	walBuf  int // wal.WriterConfig.BufferSize (model chanCap = walBuf+1)
	qCap    int
	bufMax  int
}

type row struct {
	id   int64
	hour int
}

type sys struct {
	cc     caseCfg
	facts  factsT
	root   string
	walDir string
	store  *memStore
	g      *gate

	w     *wal.Writer
	buf   *ingest.ArrowBuffer
	coord *shutdown.Coordinator
	dec   *ingest.MessagePackDecoder
	failAt   int     // replay callback invocation to reject in the current pass (-1 none)
	cbCount  int
	rejected []int64 // rows of the rejected entry
	replayed []int64 // rows handed to the buffer by the replay callbacks during the current op
	decTyped *ingest.MessagePackDecoder

	now      int64 // model seconds
	up       bool
	paused   bool
	inHand   bool
	walSent  int64 // Append calls issued to the current writer
	sizes    map[string]int64
	lastAck  bool
	everDrop int64 // dropped entries of earlier writers
	err      string
}

func newSys(cc caseCfg, facts factsT, root string) *sys {
	s := &sys{cc: cc, facts: facts, root: root, walDir: filepath.Join(root, "wal"), store: newMemStore(), g: newGate(),
		sizes: map[string]int64{}, dec: ingest.NewMessagePackDecoder(zerolog.Nop()), failAt: -1}
	s.decTyped = ingest.NewMessagePackDecoder(zerolog.Nop())
	s.decTyped.SetTypedDecodeEnabled(true)
	ingest.VerifC07Gate = s.g.enter
	st := s.store
	ingest.VerifC07OnDone = func(flag bool) {
		st.mu.Lock()
		if !flag {
			for _, id := range st.stalledIDs {
				st.unflagged[id] = true
			}
		}
		st.stalledIDs = nil
		st.taskEnded(flag)
		st.mu.Unlock()
	}
	return s
}

func (s *sys) vnow() time.Time { return t0.Add(time.Duration(s.now) * time.Second) }

func (s *sys) fail(format string, a ...any) {
	if s.err == "" {
		s.err = fmt.Sprintf(format, a...)
	}
}

// settleWorker waits until the flush worker is idle (queue empty, every taken task finished) or parked
// at the gate with a task in hand.
func (s *sys) settleWorker() {
	deadline := time.Now().Add(20 * time.Second)
	for {
		depth := s.buf.VerifC07QueueDepth() // read BEFORE the counters (the worker counts, then decrements)
		taken, done := ingest.VerifC07Counters()
		if taken == done && depth == 0 {
			return
		}
		if s.g.holding() && taken == done+1 && s.g.isWaiting() {
			return
		}
		if time.Now().After(deadline) {
			s.fail("worker did not settle (taken=%d done=%d depth=%d)", taken, done, depth)
			return
		}
		time.Sleep(20 * time.Microsecond)
	}
}

// settleWAL waits until the writer goroutine has consumed what it can.
func (s *sys) settleWAL() {
	if s.w == nil {
		return
	}
	deadline := time.Now().Add(20 * time.Second)
	if s.paused {
		// the stalled goroutine takes exactly one entry and then blocks on the mutex
		if !s.inHand {
			for s.w.VerifC07ChanLen() > 0 {
				if time.Now().After(deadline) {
					s.fail("stalled WAL writer did not take an entry")
					return
				}
				time.Sleep(20 * time.Microsecond)
			}
			s.inHand = true
		}
		return
	}
	for {
		total, dropped := s.w.VerifC07Counts()
		if total+dropped == s.walSent && s.w.VerifC07ChanLen() == 0 {
			break
		}
		if time.Now().After(deadline) {
			s.fail("WAL writer did not drain (total=%d dropped=%d sent=%d)", total, dropped, s.walSent)
			return
		}
		time.Sleep(20 * time.Microsecond)
	}
	s.w.VerifC07Lock() // the writeEntry critical section (incl. rotation) is over
	s.w.VerifC07Unlock()
}

// fixMtimes: the WAL files live on a real filesystem whose mtimes are wall-clock; every file that
// changed during this op gets the virtual time of the op as mtime (what a virtual-clock FS would do).
func (s *sys) fixMtimes() {
	fs, _ := filepath.Glob(filepath.Join(s.walDir, "*.wal"))
	seen := map[string]bool{}
	for _, f := range fs {
		seen[f] = true
		st, err := os.Stat(f)
		if err != nil {
			continue
		}
		if old, ok := s.sizes[f]; !ok || old != st.Size() {
			s.sizes[f] = st.Size()
			os.Chtimes(f, s.vnow(), s.vnow())
		}
	}
	for f := range s.sizes {
		if !seen[f] {
			delete(s.sizes, f)
		}
	}
}

func toI64(v interface{}) int64 {
	switch x := v.(type) {
	case int64:
		return x
	case int8:
		return int64(x)
	case int16:
		return int64(x)
	case int32:
		return int64(x)
	case int:
		return int64(x)
	case uint8:
		return int64(x)
	case uint16:
		return int64(x)
	case uint32:
		return int64(x)
	case uint64:
		return int64(x)
	case float64:
		return int64(x)
	}
	return -1
}

func idsText(ids []int64) string {
	if len(ids) == 0 {
		return "-"
	}
	p := make([]string, len(ids))
	for i, x := range ids {
		p[i] = strconv.FormatInt(x, 10)
	}
	return strings.Join(p, ".")
}

// walFileIDs reads a WAL file with the real reader.
func walFileIDs(path string) []int64 {
	rd := wal.NewReader(path, zerolog.Nop())
	es, err := rd.ReadAll()
	if err != nil {
		return []int64{-2}
	}
	var out []int64
	for _, e := range es {
		if e.ColumnarData == nil {
			if e.Records == nil {
				out = append(out, -3)
			}
			for _, rec := range e.Records {
				out = append(out, toI64(rec["gid"]))
			}
			continue
		}
		for _, v := range e.ColumnarData.Columns["gid"] {
			out = append(out, toI64(v))
		}
	}
	return out
}

type obsState struct {
	bufs    map[int][]int64
	q       int64
	inf     bool
	flag    bool
	ch      int
	dropped int64
	active  []int64
	hasAct  bool
	rot     [][]int64
	stored  []int64
}

func (s *sys) observe() (string, obsState) {
	var o obsState
	o.bufs = map[int][]int64{}
	bs := "-"
	if s.up {
		raw := s.buf.VerifC07Bufs()
		var keys []int
		for k, ids := range raw {
			n, _ := strconv.Atoi(strings.TrimPrefix(k, "db/m"))
			o.bufs[n] = ids
			keys = append(keys, n)
		}
		sort.Ints(keys)
		var parts []string
		for _, k := range keys {
			parts = append(parts, fmt.Sprintf("%d:%s", k, idsText(o.bufs[k])))
		}
		if len(parts) > 0 {
			bs = strings.Join(parts, ",")
		}
		o.q = s.buf.VerifC07QueueDepth()
		taken, done := ingest.VerifC07Counters()
		o.inf = taken != done
		o.flag = s.buf.HasFlushFailure()
	}
	o.dropped = s.everDrop
	actPath := ""
	if s.up && s.w != nil {
		o.ch = s.w.VerifC07ChanLen()
		if s.paused && s.inHand {
			o.ch++
		}
		_, d := s.w.VerifC07Counts()
		o.dropped += d
		actPath = s.w.VerifC07PathNoLock()
	}
	act := "x"
	var rots []string
	fs, _ := filepath.Glob(filepath.Join(s.walDir, "*.wal"))
	sort.Strings(fs)
	for _, f := range fs {
		st, err := os.Stat(f)
		if err != nil {
			continue
		}
		ids := walFileIDs(f)
		txt := fmt.Sprintf("%d:%s", int64(st.ModTime().Sub(t0)/time.Second), idsText(ids))
		if f == actPath {
			act = txt
			o.active, o.hasAct = ids, true
		} else {
			rots = append(rots, txt)
			o.rot = append(o.rot, ids)
		}
	}
	rot := "-"
	if len(rots) > 0 {
		rot = strings.Join(rots, "|")
	}
	o.stored = s.store.stored()
	b := func(x bool) string {
		if x {
			return "1"
		}
		return "0"
	}
	return fmt.Sprintf("ack=%s up=%s buf=%s q=%d inf=%s flag=%s ch=%d dr=%d act=%s rot=%s st=%s",
		b(s.lastAck), b(s.up), bs, o.q, b(o.inf), b(o.flag), o.ch, o.dropped, act, rot, idsText(o.stored)), o
}

// ---------------------------------------------------------------- events on the real code

func (s *sys) colCallback() wal.ColumnarRecoveryCallback {
	// same body as cmd/arc/main.go:createColumnarRecoveryCallback (shape checked by factgen); after
	// each entry the harness waits for the flush worker so that the schedule is the deterministic
	// "worker keeps up" one
	return func(ctx context.Context, database, measurement string, columns map[string][]interface{}) error {
		if database == "" {
			database = "default"
		}
		s.cbCount++
		if s.cbCount-1 == s.failAt {
			for _, v := range columns["gid"] {
				s.rejected = append(s.rejected, toI64(v))
			}
			return fmt.Errorf("injected transient rejection of replayed entry %d", s.failAt)
		}
		for _, v := range columns["gid"] {
			s.replayed = append(s.replayed, toI64(v))
		}
		err := s.buf.WriteColumnarDirectNoWAL(ctx, database, measurement, columns)
		s.settleWorker()
		return err
	}
}

// same body as cmd/arc/main.go:createWALRecoveryCallback (row-format entries: one write per record)
func (s *sys) rowCallback() wal.RecoveryCallback {
	return func(ctx context.Context, records []map[string]interface{}) error {
		s.cbCount++
		if s.cbCount-1 == s.failAt {
			for _, rec := range records {
				s.rejected = append(s.rejected, toI64(rec["gid"]))
			}
			return fmt.Errorf("injected transient rejection of replayed entry %d", s.failAt)
		}
		for _, rec := range records {
			s.replayed = append(s.replayed, toI64(rec["gid"]))
			measurement, _ := rec["_measurement"].(string)
			if measurement == "" {
				continue
			}
			database, _ := rec["_database"].(string)
			if database == "" {
				database = "default"
			}
			columns := make(map[string][]interface{})
			for key, value := range rec {
				if key == "_measurement" || key == "_database" {
					continue
				}
				columns[key] = []interface{}{value}
			}
			err := s.buf.WriteColumnarDirectNoWAL(ctx, database, measurement, columns)
			s.settleWorker()
			if err != nil {
				return err
			}
		}
		return nil
	}
}

func (s *sys) restart() {
	if s.cc.wal {
		w, err := wal.NewWriter(&wal.WriterConfig{WALDir: s.walDir, SyncMode: wal.SyncModeAsync, MaxSizeBytes: 1 << 40,
			MaxAge: rotAge, SyncInterval: 1000 * time.Hour, BufferSize: s.cc.walBuf, Logger: zerolog.Nop()})
		if err != nil {
			s.fail("NewWriter: %v", err)
			return
		}
		s.w = w
		s.walSent = 0
	}
	cfg := &config.IngestConfig{MaxBufferSize: s.cc.bufMax, MaxBufferAgeMS: maxBufferAgeMS, Compression: "snappy",
		WriteStatistics: true, DataPageVersion: "2.0", FlushWorkers: 1, FlushQueueSize: s.cc.qCap, ShardCount: 2}
	s.g.set(false)
	s.buf = ingest.NewArrowBuffer(cfg, s.store, zerolog.Nop())
	s.store.mu.Lock()
	stalling := s.store.stall || s.store.late
	s.store.mu.Unlock()
	if stalling {
		s.buf.VerifC07SetFlushTimeout(3 * time.Millisecond)
	}
	s.coord = shutdown.New(60*time.Second, zerolog.Nop())
	// registrations exactly as extracted from cmd/arc/main.go (kind + priority decide the order)
	for _, r := range s.facts.regs {
		switch r.Action {
		case "walClose":
			if s.w != nil {
				s.coord.Register(r.Name, s.w, r.Priority)
			}
		case "bufClose":
			s.coord.Register(r.Name, s.buf, r.Priority)
		case "purgeAll":
			if s.w != nil {
				w := s.w
				buf, guarded := s.buf, s.facts.purgeGuarded
				hook := func(ctx context.Context) error {
					if guarded && buf.HasFlushFailure() {
						return nil
					}
					_, err := w.PurgeAll()
					return err
				}
				if r.Kind == "hook" {
					s.coord.RegisterHook(r.Name, hook, r.Priority)
				} else {
					s.coord.Register(r.Name, closerFunc(func() error { return hook(context.Background()) }), r.Priority)
				}
			}
		}
	}
	s.up, s.paused, s.inHand = true, false, false
	if s.w != nil {
		s.buf.SetWAL(s.w)
		s.fixMtimes() // the fresh active file
		rec := wal.NewRecovery(s.walDir, zerolog.Nop())
		_, err := rec.RecoverWithOptions(context.Background(), s.rowCallback(), &wal.RecoveryOptions{
			SkipActiveFile: s.w.CurrentFile(), ColumnarCallback: s.colCallback()})
		if err != nil {
			s.fail("startup recovery: %v", err)
		}
	}
}

type closerFunc func() error

func (f closerFunc) Close() error { return f() }

// writeDirect: ArrowBuffer.WriteTypedColumnarDirect with a pre-typed batch (TLE / importer path; the WAL
// gets the row-format fallback of typedBatchToWALRecords)
func (s *sys) writeDirect(key int, rows []row) {
	times := make([]int64, len(rows))
	gids := make([]int64, len(rows))
	for i, r := range rows {
		times[i] = t0.Add(time.Duration(r.hour)*time.Hour).UnixMicro() + r.id
		gids[i] = r.id
	}
	batch := &ingest.TypedColumnBatch{Data: map[string]interface{}{"time": times, "gid": gids}}
	if s.w != nil {
		s.walSent++
	}
	err := s.buf.WriteTypedColumnarDirect(context.Background(), "db", fmt.Sprintf("m%d", key), batch, len(rows))
	s.lastAck = err == nil
	s.settleWAL()
	s.settleWorker()
}

func (s *sys) write(key int, rows []row, typed bool) {
	times := make([]interface{}, len(rows))
	gids := make([]interface{}, len(rows))
	for i, r := range rows {
		times[i] = t0.Add(time.Duration(r.hour)*time.Hour).UnixMicro() + r.id
		gids[i] = r.id
	}
	payload, err := msgpack.Marshal(map[string]interface{}{"m": fmt.Sprintf("m%d", key),
		"columns": map[string]interface{}{"time": times, "gid": gids}})
	if err != nil {
		s.fail("marshal: %v", err)
		return
	}
	dec := s.dec
	if typed {
		dec = s.decTyped
	}
	recs, err := dec.Decode(payload)
	if err != nil {
		s.fail("decode: %v", err)
		return
	}
	if typed {
		if l, ok := recs.([]interface{}); !ok || len(l) != 1 {
			s.fail("typed decode: unexpected result %T", recs)
			return
		} else if _, ok := l[0].(*ingest.TypedColumnarRecord); !ok {
			s.fail("typed decode fell back to the generic path: %T", l[0])
			return
		}
	}
	if s.w != nil {
		s.walSent++
	}
	// what api/msgpack.go does: 204 iff Write returns nil
	err = s.buf.Write(context.Background(), "db", recs)
	s.lastAck = err == nil
	s.settleWAL()
	s.settleWorker()
}

func (s *sys) tick() {
	if s.w == nil {
		return
	}
	acts := s.facts.tickElse
	if s.buf.HasFlushFailure() {
		acts = s.facts.tickFlag
	}
	ok := true
	for _, a := range acts {
		switch a {
		case "purge":
			s.w.PurgeOlderThan(s.facts.safeAge())
		case "replay":
			rec := wal.NewRecovery(s.walDir, zerolog.Nop())
			_, err := rec.RecoverWithOptions(context.Background(), s.rowCallback(), &wal.RecoveryOptions{
				SkipActiveFile: s.w.CurrentFile(), MinFileAge: s.facts.minFileAge, ColumnarCallback: s.colCallback()})
			ok = err == nil
		case "reset":
			if ok && !(s.facts.resetClean && len(s.rejected) > 0) {
				s.buf.ResetFlushFailure()
			}
		}
	}
}

// shutdown runs the real coordinator; returns the number of queued tasks the worker still took.
func (s *sys) shutdown() int {
	taken0, done0 := ingest.VerifC07Counters()
	fin := make(chan struct{})
	go func() { s.coord.Shutdown(); close(fin) }()
	deadline := time.Now().Add(30 * time.Second)
	released := false
	for {
		select {
		case <-fin:
			taken1, _ := ingest.VerifC07Counters()
			if s.w != nil {
				_, d := s.w.VerifC07Counts()
				s.everDrop += d
			}
			s.up, s.w, s.paused, s.inHand = false, nil, false, false
			inflight := taken0 - done0
			_ = inflight
			return int(taken1 - taken0)
		default:
		}
		if !released && s.buf.VerifC07Closing() {
			s.g.set(false)
			released = true
		}
		if time.Now().After(deadline) {
			s.fail("shutdown did not finish")
			s.g.set(false)
			<-fin
			return 0
		}
		time.Sleep(20 * time.Microsecond)
	}
}

func (s *sys) crash() {
	s.store.mu.Lock()
	s.store.dead = true
	s.store.mu.Unlock()
	if s.w != nil {
		if !s.paused {
			s.w.VerifC07Lock()
		}
		s.w.VerifC07Kill()
		s.w.VerifC07Unlock()
		_, d := s.w.VerifC07Counts()
		s.everDrop += d
		s.w.Close()
	}
	fin := make(chan struct{})
	go func() { s.buf.Close(); close(fin) }()
	for {
		select {
		case <-fin:
			s.store.mu.Lock()
			s.store.dead = false
			s.store.mu.Unlock()
			s.up, s.w, s.paused, s.inHand = false, nil, false, false
			return
		default:
		}
		if s.buf.VerifC07Closing() {
			s.g.set(false)
		}
		time.Sleep(20 * time.Microsecond)
	}
}

// ---------------------------------------------------------------- ops

type op struct {
	kind string
	n    int   // adv seconds / mode k (-1 ok)
	key  int
	rows []row
}

func (o op) text(obsDrained int) string {
	switch o.kind {
	case "adv":
		return fmt.Sprintf("adv %d", o.n)
	case "mode":
		if o.n < 0 {
			return "mode ok"
		}
		return fmt.Sprintf("mode %d", o.n)
	case "w", "wt", "wd":
		p := make([]string, len(o.rows))
		for i, r := range o.rows {
			p[i] = fmt.Sprintf("%d:%d", r.id, r.hour)
		}
		return fmt.Sprintf("%s %d %s", o.kind, o.key, strings.Join(p, ","))
	case "shut":
		return fmt.Sprintf("shut %d", obsDrained)
	case "tickf", "restartf":
		return fmt.Sprintf("%s %d", o.kind, o.n)
	}
	return o.kind
}

// apply executes one op on the real system and returns the op line (with observations) and the digest.
func (s *sys) apply(o op) (string, string, obsState) {
	s.lastAck = false
	drained := 0
	isRestart := o.kind == "restart" || o.kind == "restartf"
	needUp := o.kind != "adv" && o.kind != "mode" && o.kind != "stall" && o.kind != "late" && !isRestart
	s.failAt, s.cbCount, s.rejected, s.replayed = -1, 0, nil, nil
	if o.kind == "tickf" || o.kind == "restartf" {
		s.failAt = o.n
	}
	s.store.mu.Lock()
	s.store.lateIDs, s.store.taskFailed = nil, false
	s.store.prevFlag = s.up && s.buf.HasFlushFailure()
	s.store.mu.Unlock()
	switch {
	case o.kind == "adv":
		s.now += int64(o.n)
	case needUp && !s.up, isRestart && s.up:
		// no-op (the model ignores it as well)
	default:
		s.now++
	}
	verifclock.Set(s.vnow().UnixNano())
	if !(needUp && !s.up) && !(isRestart && s.up) {
		switch o.kind {
		case "mode":
			s.store.mu.Lock()
			s.store.failAfter = o.n
			s.store.succ = nil
			s.store.stall = false
			s.store.late = false
			s.store.mu.Unlock()
			if s.up {
				s.buf.VerifC07SetFlushTimeout(30 * time.Second)
			}
		case "late":
			s.store.mu.Lock()
			s.store.failAfter = -1
			s.store.succ = nil
			s.store.stall = false
			s.store.late = true
			s.store.mu.Unlock()
			if s.up {
				s.buf.VerifC07SetFlushTimeout(3 * time.Millisecond)
			}
		case "restart", "restartf":
			s.restart()
		case "w":
			s.write(o.key, o.rows, false)
		case "wt":
			s.write(o.key, o.rows, true)
		case "wd":
			s.writeDirect(o.key, o.rows)
		case "stall":
			s.store.mu.Lock()
			s.store.failAfter = 0
			s.store.succ = nil
			s.store.stall = true
			s.store.late = false
			s.store.mu.Unlock()
			if s.up {
				s.buf.VerifC07SetFlushTimeout(3 * time.Millisecond)
			}
		case "wpause":
			if s.w != nil && !s.paused {
				s.w.VerifC07Lock()
				s.paused, s.inHand = true, false
			}
		case "wresume":
			if s.w != nil && s.paused {
				s.paused, s.inHand = false, false
				s.w.VerifC07Unlock()
				s.settleWAL()
			}
		case "hold":
			s.g.set(true)
		case "unhold":
			s.g.set(false)
			s.settleWorker()
		case "step1":
			taken, done := ingest.VerifC07Counters()
			if taken != done {
				s.g.one()
				for d := done; d == done; _, d = ingest.VerifC07Counters() {
					time.Sleep(20 * time.Microsecond)
				}
				s.settleWorker()
			}
		case "age":
			s.buf.VerifC07FlushAged()
		case "tick", "tickf":
			s.tick()
		case "shut":
			drained = s.shutdown()
		case "crash":
			s.crash()
		}
	}
	// rows whose stalled SYNC flush (aged flush) ended in this op: flagged?
	s.store.mu.Lock()
	if s.up && o.kind == "age" {
		s.store.taskEnded(s.buf.HasFlushFailure())
	}
	if len(s.store.stalledIDs) > 0 {
		if s.up && o.kind == "age" && !s.buf.HasFlushFailure() {
			for _, id := range s.store.stalledIDs {
				s.store.unflagged[id] = true
			}
		}
		s.store.stalledIDs = nil
	}
	s.store.mu.Unlock()
	if s.up || o.kind == "shut" || o.kind == "crash" {
		s.fixMtimes()
	}
	line := o.text(drained)
	s.store.mu.Lock()
	if s.store.failAfter >= 0 && len(s.store.succ) > 0 {
		p := make([]string, len(s.store.succ))
		for i, h := range s.store.succ {
			p[i] = strconv.Itoa(h)
		}
		line += " obs=" + strings.Join(p, ".")
	}
	s.store.mu.Unlock()
	dg, o2 := s.observe()
	return line, dg, o2
}

func (s *sys) cleanup() {
	if s.up {
		s.store.mu.Lock()
		s.store.dead = true
		s.store.mu.Unlock()
		s.crash()
	}
	os.RemoveAll(s.root)
}
