//go:build verif

package main

// Case runner, generators (scenario corpus, exhaustive short sequences, random fault histories) and the
// property monitors of C07.

import (
	"fmt"
	"os"
	"path/filepath"
	"strings"

	"github.com/basekick-labs/arc/internal/ingest"
	"github.com/basekick-labs/arc/internal/verif/vh"
)

type caseRes struct {
	lines   []string // op lines as executed (with observations)
	lost    map[int64]string // acked id never stored -> op kind after which no copy was left anywhere
	dup     map[int64]string // id stored more than once -> op kind after which the 2nd copy appeared
	fullAck map[int64]bool   // id acknowledged by a write that took the queue-full arm
	typed   map[int64]bool   // written through the pre-typed path (typed msgpack decode / WriteTypedColumnarDirect)
	cause   map[int64]string // closed classification: which event removed the id's last WAL-file copy
	acked   []int64
	crash   bool
	err     string
}

var caseNo int

func hasID(xs []int64, id int64) bool {
	for _, x := range xs {
		if x == id {
			return true
		}
	}
	return false
}

func countID(xs []int64, id int64) int {
	n := 0
	for _, x := range xs {
		if x == id {
			n++
		}
	}
	return n
}

// healing: storage works again, the writer and the worker run, maintenance ticks, aged flush, graceful
// shutdown, restart (start-up recovery), maintenance again, graceful shutdown.
func healing(up, paused, hold bool) []op {
	var o []op
	o = append(o, op{kind: "mode", n: -1})
	if up && paused {
		o = append(o, op{kind: "wresume"})
	}
	if up && hold {
		o = append(o, op{kind: "unhold"})
	}
	round := []op{{kind: "adv", n: 10}, {kind: "tick"}, {kind: "adv", n: 610}, {kind: "age"}, {kind: "tick"}, {kind: "shut"}}
	if up {
		o = append(o, round...)
	}
	o = append(o, op{kind: "restart"})
	o = append(o, round...)
	return o
}

func cfgLine(cc caseCfg, f factsT) string {
	w := 0
	if cc.wal {
		w = 1
	}
	sa := int64(f.safeAge()/1e9) + 1 // now-mtime > safeAge  (safeAge has a .5 s fraction)
	mf := int64((f.minFileAge + 1e9 - 1) / 1e9)
	return fmt.Sprintf("new wal=%d cc=%d q=%d bm=%d am=%d sa=%d ra=%d mf=%d", w, cc.walBuf+1, cc.qCap, cc.bufMax,
		maxBufferAgeMS/1000+1, sa, int64(rotAge/1e9)+1, mf)
}

// runCase executes ops (+ healing) on a fresh system, records op/digest lines, evaluates the property.
func runCase(c *vh.Ctx, scratch string, cc caseCfg, facts factsT, ops []op, record bool) caseRes {
	caseNo++
	root := filepath.Join(scratch, fmt.Sprintf("c%d", caseNo))
	os.MkdirAll(root, 0o755)
	s := newSys(cc, facts, root)
	defer s.cleanup()
	res := caseRes{lost: map[int64]string{}, dup: map[int64]string{}, fullAck: map[int64]bool{}, cause: map[int64]string{}, typed: map[int64]bool{}}
	hdr := cfgLine(cc, facts)
	res.lines = append(res.lines, hdr)
	if record {
		c.Op(hdr, "ok")
	}
	gone := map[int64]string{}
	dupAt := map[int64]string{}
	inWal := map[int64]bool{}     // currently in some WAL file
	rejectedGone := map[int64]bool{}
	replayedBy := map[int64]string{}
	storedBefore := map[int64]int{}
	walGone := map[int64]string{} // event after which the id's last WAL-file copy was removed
	exec := func(o op) {
		full0 := ingest.VerifC07FullCount()
		line, dg, st := s.apply(o)
		res.lines = append(res.lines, line)
		if record {
			c.Op(line, dg)
		}
		if o.kind == "crash" {
			res.crash = true
		}
		fullHit := ingest.VerifC07FullCount() > full0
		if (o.kind == "w" || o.kind == "wt" || o.kind == "wd") && s.lastAck {
			for _, r := range o.rows {
				res.acked = append(res.acked, r.id)
				if fullHit {
					res.fullAck[r.id] = true
				}
				if o.kind != "w" {
					res.typed[r.id] = true
				}
			}
		}
		kind := o.kind
		if fullHit {
			kind += ":queue-full"
		}
		pending := st.q > 0 || st.inf || st.ch > 0
		for _, id := range res.acked {
			// which replaying event put a second copy of the row into memory / Parquet (the file may stay on
			// disk when an entry of it was rejected, so "the event that removed the file" is not it)
			if o.kind == "tick" || o.kind == "tickf" || o.kind == "restart" || o.kind == "restartf" {
				if hasID(s.replayed, id) {
					replayedBy[id] = strings.TrimSuffix(o.kind, "f")
				}
			}
			storedBefore[id] = countID(st.stored, id)
			nowIn := hasID(st.active, id)
			for _, f := range st.rot {
				nowIn = nowIn || hasID(f, id)
			}
			if inWal[id] && !nowIn {
				walGone[id] = strings.TrimSuffix(o.kind, "f") // tickf / restartf are a tick / restart
				// by cause: this very replay pass rejected the entry holding the row, yet its file is gone
				if hasID(s.rejected, id) && (o.kind == "tickf" || o.kind == "restartf") {
					rejectedGone[id] = true
				}
			}
			inWal[id] = nowIn
			if _, ok := gone[id]; !ok && !pending {
				vis := hasID(st.stored, id) || hasID(st.active, id)
				for _, b := range st.bufs {
					vis = vis || hasID(b, id)
				}
				for _, f := range st.rot {
					vis = vis || hasID(f, id)
				}
				if !vis {
					gone[id] = kind
				}
			}
			if _, ok := dupAt[id]; !ok && countID(st.stored, id) > 1 {
				dupAt[id] = kind
			}
		}
	}
	for _, o := range ops {
		if s.err != "" {
			break
		}
		// guards: the tick and the coordinator take the writer mutex
		if (o.kind == "tick" || o.kind == "tickf" || o.kind == "shut") && s.paused {
			exec(op{kind: "wresume"})
		}
		if o.kind == "late" && s.g.holding() {
			exec(op{kind: "unhold"})
		}
		if o.kind == "hold" && s.store.late {
			continue
		}
		// a parked task keeps the flush deadline it was created with: stall mode and a held worker are
		// kept apart so that every stalled flush runs into a deadline created in stall mode
		if o.kind == "stall" && s.g.holding() {
			exec(op{kind: "unhold"})
		}
		if o.kind == "hold" && s.store.stall {
			continue
		}
		exec(o)
	}
	for _, o := range healing(s.up, s.paused, s.g.holding()) {
		if s.err != "" {
			break
		}
		exec(o)
	}
	res.err = s.err
	if s.store.badDecode > 0 {
		res.err += fmt.Sprintf(" parquet-decode-failures=%d", s.store.badDecode)
	}
	if s.store.clashes > 0 {
		res.err += fmt.Sprintf(" file-name-clashes=%d", s.store.clashes)
	}
	final := s.store.stored()
	for _, id := range res.acked {
		switch n := countID(final, id); {
		case n == 0:
			k := gone[id]
			if k == "" {
				k = "end"
			}
			res.lost[id] = k
			res.cause[id] = "never-in-wal-file"
			if g, ok := walGone[id]; ok {
				res.cause[id] = "wal-copy-removed-by-" + g
			}
			if rejectedGone[id] {
				res.cause[id] = "wal-file-deleted-after-rejected-entry-replay"
			}
			if s.store.unflagged[id] {
				// by cause: the row's flush ran into the flush deadline on stalled storage and the
				// failure site did not raise the flush-failure flag, so no replay was ever armed
				res.cause[id] = "flush-timeout-never-flagged"
			}
		case n > 1:
			res.dup[id] = dupAt[id]
			res.cause[id] = "wal-replayed-by-" + walGone[id]
			if rb, ok := replayedBy[id]; ok {
				res.cause[id] = "wal-replayed-by-" + rb
			}
			if s.store.falseFail[id] {
				// by cause: every storage write of the row's flush succeeded, the flush was still reported
				// failed (flag raised), so the maintenance replay stored the row again
				res.cause[id] = "flush-reported-failed-after-successful-write"
			}
		}
	}
	return res
}

// report turns the outcome of a case into property failures.  forced != "" (scenario corpus): one key
// for the scenario's class.  Otherwise generic keys by the event after which the last copy vanished /
// the second copy appeared.
func report(c *vh.Ctx, cc caseCfg, res caseRes, forced string) bool {
	if res.err != "" {
		c.Tag("harness-error")
		c.Extra["harness_error"] = res.err + " @ " + strings.Join(res.lines, " ; ")
		return false
	}
	if res.crash {
		// a kill loses what the async WAL channel had not persisted: only the causes that do not depend on
		// that are monitored in traces with a crash
		c.Tag("crash-trace(cause-monitors-only)")
		for id := range res.lost {
			if res.cause[id] != "wal-file-deleted-after-rejected-entry-replay" {
				delete(res.lost, id)
			}
		}
		for id := range res.dup {
			if res.cause[id] != "flush-reported-failed-after-successful-write" {
				delete(res.dup, id)
			}
		}
	}
	replay := strings.Join(res.lines, " ; ")
	bad := false
	fail := func(key, what string) {
		bad = true
		c.Tag("propfail:" + key)
		c.Fail(key, what, replay)
	}
	for id, k := range res.lost {
		if !cc.wal {
			// WAL disabled: only the clause "not acknowledged when the rows cannot be buffered or flushed"
			if res.fullAck[id] {
				key := "nowal-ack:queue-full-dropped-but-acknowledged"
				if res.typed[id] {
					key += ":typed-path"
				}
				fail(key, fmt.Sprintf("WAL disabled: row %d was dropped by the queue-full arm of tryEnqueueFlush, the write still returned nil (HTTP 204) and the row is never stored", id))
			}
			continue
		}
		key := "loss:" + res.cause[id]
		if strings.HasPrefix(forced, "loss:") && res.cause[id] != "flush-timeout-never-flagged" {
			key = forced
		}
		if res.cause[id] == "wal-file-deleted-after-rejected-entry-replay" {
			key = "acked-row-lost:" + res.cause[id]
		}
		fail(key, fmt.Sprintf("acknowledged row %d is never stored although storage recovered and maintenance ticks, aged flush, graceful shutdown and restart completed (last copy gone after event %q)", id, k))
	}
	for id, k := range res.dup {
		key := "dup:" + res.cause[id]
		if strings.HasPrefix(forced, "dup:") {
			key = forced
		}
		if res.cause[id] == "flush-reported-failed-after-successful-write" {
			key = "stored-twice:" + res.cause[id]
		}
		fail(key, fmt.Sprintf("row %d is stored more than once (second Parquet copy appeared after event %q)", id, k))
	}
	return bad
}

// ---------------------------------------------------------------- scenario corpus

type scenario struct {
	key  string
	wal  bool
	tries int
	ops  []op
}

func w(key int, rows ...row) op { return op{kind: "w", key: key, rows: rows} }
func k(kind string) op         { return op{kind: kind} }
func wk(kind string, key int, rows ...row) op { return op{kind: kind, key: key, rows: rows} }
func adv(n int) op             { return op{kind: "adv", n: n} }
func mode(n int) op            { return op{kind: "mode", n: n} }
func r(id int64, h int) row    { return row{id, h} }

func scenarios() []scenario {
	return []scenario{
		// (a) queue-full drop with WAL disabled: 204 and lost
		{"nowal-ack:queue-full-dropped-but-acknowledged", false, 1, []op{k("restart"), k("hold"),
			w(0, r(1, 0), r(2, 0)), w(0, r(3, 0), r(4, 0)), w(0, r(5, 0), r(6, 0))}},
		// (a-typed) the same through the pre-typed write path (typed msgpack decode, WriteTypedColumnarDirect)
		{"nowal-ack:queue-full-dropped-but-acknowledged:typed-path", false, 1, []op{k("restart"), k("hold"),
			wk("wt", 0, r(1, 0), r(2, 0)), wk("wd", 0, r(3, 0), r(4, 0)), wk("wt", 0, r(5, 0), r(6, 0)), wk("wd", 0, r(7, 0), r(8, 0))}},
		// (t) storage stalls past the flush deadline on the worker path: must raise the flag like an error
		{"loss:flush-timeout-never-flagged", true, 1, []op{k("restart"), k("stall"), w(0, r(1, 0), r(2, 0)),
			adv(310), wk("wt", 1, r(3, 0), r(4, 0)), mode(-1), adv(10), k("tick")}},
		// (t2) the same for the aged (sync) flush and a WriteTypedColumnarDirect batch (row-format WAL entry)
		{"loss:flush-timeout-never-flagged", true, 1, []op{k("restart"), wk("wd", 0, r(1, 0)), k("stall"), adv(610), k("age"),
			wk("wd", 1, r(2, 0), r(3, 0)), mode(-1), adv(10), k("tick")}},
		// (r) mixed-format WAL file (columnar, row-format, columnar entry); the replay pass of the tick has
		// its first callback invocation rejected: the file must stay until every entry was replayed
		{"acked-row-lost:wal-file-deleted-after-rejected-entry-replay", true, 1, []op{k("restart"), mode(0), w(0, r(1, 0), r(2, 0)),
			wk("wd", 1, r(3, 0), r(4, 0)), adv(310), w(0, r(5, 0)), mode(-1), adv(10), op{kind: "tickf", n: 0},
			adv(10), mode(0), w(1, r(6, 0), r(7, 0)), mode(-1), adv(310), w(1, r(8, 0)), adv(10), k("tick")}},
		// (r2) the same at start-up recovery after a kill -- not monitored (crash), model diff only; and
		// after a graceful stop that left files behind is impossible (PurgeAll), so a second tick variant
		// with the rejected entry in the middle of the file
		{"acked-row-lost:wal-file-deleted-after-rejected-entry-replay", true, 1, []op{k("restart"), mode(0), wk("wd", 1, r(1, 0), r(2, 0)),
			w(0, r(3, 0), r(4, 0)), wk("wd", 1, r(5, 0), r(6, 0)), adv(310), w(0, r(7, 0)), mode(-1), adv(10), op{kind: "tickf", n: 1},
			adv(10), mode(0), w(1, r(8, 0), r(9, 0)), mode(-1), adv(310), w(1, r(10, 0)), adv(10), k("tick")}},
		{"acked-row-lost:wal-file-deleted-after-rejected-entry-replay", true, 1, []op{k("restart"), mode(0), w(0, r(1, 0), r(2, 0)),
			wk("wd", 1, r(3, 0), r(4, 0)), k("crash"), mode(-1), op{kind: "restartf", n: 0}}},
		// (l) the storage write succeeds but returns only after the flush deadline (backend ignoring ctx):
		// the flush IS a success -- no flag, no replay, every row stored once (single- and multi-hour)
		{"stored-twice:flush-reported-failed-after-successful-write", true, 1, []op{k("restart"), k("late"), w(0, r(1, 0), r(2, 0)),
			mode(-1), adv(310), w(1, r(3, 0), r(4, 0)), adv(10), k("tick")}},
		{"stored-twice:flush-reported-failed-after-successful-write", true, 1, []op{k("restart"), k("late"), wk("wt", 0, r(1, 0), r(2, 1)),
			mode(-1), adv(310), w(1, r(3, 0), r(4, 0)), adv(10), k("tick")}},
		{"stored-twice:flush-reported-failed-after-successful-write", true, 1, []op{k("restart"), w(0, r(1, 0)), k("late"), adv(610), k("age"),
			mode(-1), adv(310), w(1, r(2, 0), r(3, 0)), adv(10), k("tick")}},
		// (b) queue-full drop with WAL, the tick comes in time (file rotated, younger than safeAge): before
		// repair B (52926d5) the flag was not raised, no replay ran and the shutdown purge removed the rows
		{"loss:queue-full-drop-never-replayed-then-purged", true, 1, []op{k("restart"), k("hold"),
			w(0, r(1, 0), r(2, 0)), w(0, r(3, 0), r(4, 0)), w(0, r(5, 0), r(6, 0)), k("unhold"),
			adv(310), w(1, r(7, 0)), adv(10), k("tick")}},
		// (b') same overflow, but no tick before the rotated file is older than safeAge: the flag branch
		// purges before it replays
		{"loss:queue-full-drop-purged-before-replay-after-safeAge", true, 1, []op{k("restart"), k("hold"),
			w(0, r(1, 0), r(2, 0)), w(0, r(3, 0), r(4, 0)), w(0, r(5, 0), r(6, 0)), k("unhold"),
			adv(310), w(1, r(7, 0)), adv(1810), k("tick")}},
		// (c) outage longer than safeAge: the tick purges the rotated file before replaying it
		{"loss:outage-longer-than-safeAge-purged-before-replay", true, 1, []op{k("restart"), mode(0),
			w(0, r(1, 0), r(2, 0)), adv(310), w(1, r(3, 0)), adv(1810), mode(-1), k("tick")}},
		// (d) replay re-stores rows that are already in Parquet
		{"dup:replay-restores-already-stored-rows", true, 1, []op{k("restart"), w(0, r(1, 0), r(2, 0)), mode(0),
			w(1, r(3, 0), r(4, 0)), mode(-1), adv(310), w(0, r(5, 0)), adv(10), k("tick")}},
		// (d2) replay after a partial multi-hour flush
		{"dup:partial-multi-hour-flush-replayed", true, 1, []op{k("restart"), mode(1), w(0, r(1, 0), r(2, 1)),
			mode(-1), adv(310), w(1, r(3, 0)), adv(10), k("tick")}},
		// (e) shutdown purges the WAL although the final flush of Close() fails
		{"loss:shutdown-purges-wal-final-flush-failed", true, 1, []op{k("restart"), w(0, r(1, 0)), mode(0), k("shut")}},
		// (f) Close() drops queued tasks (and the WAL is purged)
		{"loss:close-drops-queued-tasks", true, 24, []op{k("restart"), k("hold"), w(0, r(1, 0), r(2, 0)),
			w(0, r(3, 0), r(4, 0)), k("shut")}},
		// (g) WAL channel full (entry dropped) and the flush fails
		{"loss:wal-entry-dropped-then-flush-failed", true, 1, []op{k("restart"), k("wpause"), w(0, r(1, 0)), w(1, r(2, 0)),
			mode(0), w(0, r(3, 0)), k("wresume"), mode(-1)}},
		// (h) the tick resets the flag although the failed rows sit in the ACTIVE file, which replay skips
		{"loss:flag-reset-while-rows-in-active-wal-file", true, 1, []op{k("restart"), mode(0), w(0, r(1, 0), r(2, 0)),
			mode(-1), adv(10), k("tick"), adv(310), w(1, r(3, 0)), adv(1810), k("tick")}},
		// (i) replay while storage is still failing: file deleted after re-buffering, rows dropped again
		{"loss:replay-during-outage-deletes-wal-file", true, 1, []op{k("restart"), mode(0), w(0, r(1, 0), r(2, 0)),
			adv(310), w(1, r(3, 0)), adv(10), k("tick"), mode(-1)}},
	}
}

// ---------------------------------------------------------------- random / exhaustive generation

type genState struct {
	nextID int64
}

func (g *genState) rows(rd *vh.Rand, multiHour bool) []row {
	n := 1
	if rd.Chance(45) {
		n = 2
	}
	var out []row
	for i := 0; i < n; i++ {
		h := 0
		if multiHour && rd.Chance(35) {
			h = rd.Intn(3)
		}
		g.nextID++
		out = append(out, row{g.nextID, h})
	}
	return out
}

// symbolic alphabet; concrete ops are made when the sequence is instantiated
var alphabet = []string{"w0", "w0x2", "w1", "w1mh", "wt0", "wt0x2", "wd1", "wd0x2", "stall", "late", "tickf0", "tickf1", "restartf0", "hold", "unhold", "step1", "fail", "fail1", "ok", "wpause", "wresume",
	"adv10", "adv310", "adv610", "adv1810", "age", "tick", "shut", "restart", "crash"}

// reduced alphabet for the exhaustive enumeration (thorough)
var alphabetEx = []string{"w0x2", "wt1", "wd0x2", "stall", "late", "tickf0", "hold", "unhold", "fail", "ok", "adv310", "adv1810", "tick", "shut", "restart"}

func instantiate(g *genState, sym string) op {
	mk := func(key int, hs ...int) op {
		var rs []row
		for _, h := range hs {
			g.nextID++
			rs = append(rs, row{g.nextID, h})
		}
		return op{kind: "w", key: key, rows: rs}
	}
	switch sym {
	case "w0":
		return mk(0, 0)
	case "w0x2":
		return mk(0, 0, 0)
	case "w1":
		return mk(1, 0)
	case "w1mh":
		return mk(1, 0, 1)
	case "tickf0":
		return op{kind: "tickf", n: 0}
	case "tickf1":
		return op{kind: "tickf", n: 1}
	case "restartf0":
		return op{kind: "restartf", n: 0}
	case "wt0":
		o := mk(0, 0)
		o.kind = "wt"
		return o
	case "wt0x2":
		o := mk(0, 0, 0)
		o.kind = "wt"
		return o
	case "wt1":
		o := mk(1, 0)
		o.kind = "wt"
		return o
	case "wd1":
		o := mk(1, 0)
		o.kind = "wd"
		return o
	case "wd0x2":
		o := mk(0, 0, 0)
		o.kind = "wd"
		return o
	case "fail":
		return mode(0)
	case "fail1":
		return mode(1)
	case "ok":
		return mode(-1)
	case "adv10":
		return adv(10)
	case "adv310":
		return adv(310)
	case "adv610":
		return adv(610)
	case "adv1810":
		return adv(1810)
	}
	return k(sym)
}

func randomSeq(rd *vh.Rand, maxLen int, crashOK bool) []string {
	n := 3 + rd.Intn(maxLen-2)
	seq := []string{"restart"}
	weights := map[string]int{"late": 3, "tickf0": 3, "tickf1": 2, "restartf0": 1, "wt0": 5, "wt0x2": 5, "wd1": 4, "wd0x2": 5, "stall": 3, "w0": 10, "w0x2": 10, "w1": 8, "w1mh": 5, "hold": 4, "unhold": 4, "step1": 3, "fail": 6, "fail1": 3,
		"ok": 6, "wpause": 2, "wresume": 2, "adv10": 5, "adv310": 6, "adv610": 3, "adv1810": 4, "age": 3, "tick": 9, "shut": 2, "restart": 2, "crash": 0}
	if crashOK {
		weights["crash"] = 1
	}
	tot := 0
	for _, a := range alphabet {
		tot += weights[a]
	}
	for len(seq) < n {
		x := rd.Intn(tot)
		for _, a := range alphabet {
			if x < weights[a] {
				seq = append(seq, a)
				break
			}
			x -= weights[a]
		}
	}
	return seq
}

// sanitize: a partial-failure mode together with several buffers flushed synchronously in one event
// depends on Go map iteration order beyond what one observation can pin down; the generator avoids it
// (mode k>0 is downgraded to k=0 before age/shut when more than one key may be buffered).
func instantiateSeq(syms []string) []op {
	g := &genState{}
	var ops []op
	partial := false
	keys := map[int]bool{}
	for _, s := range syms {
		o := instantiate(g, s)
		switch o.kind {
		case "mode":
			partial = o.n > 0
		case "w", "wt", "wd":
			keys[o.key] = true
		case "age", "shut":
			if partial && len(keys) > 1 {
				ops = append(ops, mode(0))
				partial = false
			}
		}
		ops = append(ops, o)
	}
	return ops
}

func canon(cc caseCfg, syms []string) string {
	return fmt.Sprintf("wal=%v cc=%d q=%d|%s", cc.wal, cc.walBuf, cc.qCap, strings.Join(syms, ","))
}

func main() {
	c := vh.Start()
	facts := loadFacts(c)
	scratch, err := os.MkdirTemp("/dev/shm", "verif-c07-")
	if err != nil {
		scratch, err = os.MkdirTemp("", "verif-c07-")
		if err != nil {
			panic(err)
		}
	}
	defer os.RemoveAll(scratch)
	rd := vh.NewRand(c.Seed)

	// malformed stream for the driver (rejected with bad-op by the model; nothing to run on the code)
	for _, l := range []string{"w x 1:0", "new wal=1", "mode", "shut", "tick 3", "w 0 1-0", "frobnicate"} {
		c.Op(l, "bad-op")
	}

	base := caseCfg{wal: true, walBuf: 1, qCap: 1, bufMax: 2}
	// 1. scenario corpus: one minimal trace per predicted / discovered class
	for _, sc := range scenarios() {
		cc := base
		cc.wal = sc.wal
		hit := false
		for t := 0; t < sc.tries && !hit; t++ {
			res := runCase(c, scratch, cc, facts, sc.ops, true)
			c.Case("scenario:"+sc.key+fmt.Sprint(t), true)
			report(c, cc, res, sc.key)
			for _, pf := range c.PropFails {
				hit = hit || pf.Key == sc.key
			}
		}
		if hit {
			c.Tag("scenario-violates:" + sc.key)
		} else {
			c.Tag("scenario-holds:" + sc.key)
		}
	}

	one := func(cc caseCfg, syms []string) {
		res := runCase(c, scratch, cc, facts, instantiateSeq(syms), true)
		nontriv := false
		for _, s := range syms {
			if s == "fail" || s == "fail1" || s == "stall" || s == "hold" || s == "wpause" || s == "shut" || s == "crash" {
				nontriv = true
			}
		}
		c.Case(canon(cc, syms), nontriv)
		if len(res.lost) > 0 {
			c.Tag("outcome:loss")
		} else if len(res.dup) > 0 {
			c.Tag("outcome:dup")
		} else {
			c.Tag("outcome:clean")
		}
		report(c, cc, res, "")
	}

	// 2. exhaustive short sequences (thorough): every sequence over the reduced alphabet up to length L
	if c.Thorough() {
		L := 3
		var rec func(prefix []string, depth int, cc caseCfg)
		rec = func(prefix []string, depth int, cc caseCfg) {
			if depth > 0 {
				one(cc, append([]string{"restart"}, prefix...))
			}
			if depth == L {
				return
			}
			for _, a := range alphabetEx {
				if a == "restart" && (depth == 0 || prefix[depth-1] != "shut") {
					continue
				}
				rec(append(append([]string{}, prefix...), a), depth+1, cc)
			}
		}
		for _, wal := range []bool{true, false} {
			cc := base
			cc.wal = wal
			L = 3
			if wal {
				L = 4
			}
			rec(nil, 0, cc)
		}
	}

	// 3. random fault histories (<= 14 events)
	n := c.N
	if n == 0 {
		n = 1500
		if c.Thorough() {
			n = 15000
		}
	}
	for i := 0; i < n; i++ {
		cc := caseCfg{wal: !rd.Chance(25), walBuf: 1 + rd.Intn(2), qCap: 1 + rd.Intn(2), bufMax: 2}
		one(cc, randomSeq(rd, 14, c.Thorough() && rd.Chance(10)))
	}
	c.Finish("distinct (config, symbolic event sequence); non-trivial = contains a storage failure, queue hold, WAL stall, shutdown or crash")
}
