//go:build verif

// C12 correspondence harness: the REAL tiering.Manager / Migrator (MigrateTier -> FindCandidates ->
// MigrateBatch -> MigrateFile, ReconcileOrphanedFiles, ScanAndRegisterFiles, RunMigrationCycle) over
// two fault-injecting wrappers of the real storage.LocalBackend (hot, cold) and the real SQLite
// tier metadata behind a fault-injecting database/sql driver wrapper (mattn/go-sqlite3 underneath).
//
// Faults: every mutation ATTEMPT on the tracked file (SQL INSERT/UPDATE of its rows, WriteReader
// begin / per-chunk read / EOF, Delete, the reconcile Exists probe) consumes the next letter of the
// op's oracle: o = proceed, f = return an injected error without effect, r = (at a chunk of the
// streaming copy) the SOURCE read fails: the hot backend's ReadTo returns an error after delivering
// the chunks so far — possibly none — while the destination accepts what it received (elsewhere r = f),
// c = CRASH: the world is
// frozen (this and every later mutation through any wrapper returns a sentinel error and has no
// effect), the harness then "restarts" by building fresh backends/DB/Manager over the same
// directories and SQLite file.
//
// Ops (the Lean model `drive_c12` answers the same lines):
//
//	new <chunks> <sibHot> <sibCold>   fresh world: file F in hot (registered hot) + optional siblings
//	mig|rec|scan|cycle <oracle>        MigrateTier(hot,cold) | ReconcileOrphanedFiles | ScanAndRegisterFiles | RunMigrationCycle
//	tick <sec>                         virtual time passes (metadata.go is clockified: tier-cache TTL)
//	query                              a query in the RUNNING process: real routing through the long-lived MetadataStore's
//	                                   30 s tier cache (GetTiersForMeasurement + buildMultiTierReadParquet), executed by DuckDB
//	addmig <k> older|newer             k more files of the measurement ingested + migrated cleanly by the real MigrateFile,
//	                                   earlier / later than the tracked file (ReconcileOrphanedFiles walks newest first)
//	age                                > 48 h pass without tiering activity (migrated_at moved back 49 h)
//	obs                                bytes on disk per tier, tier_files row, open tier_migrations rows, and what the
//	                                   real query path returns: FROM-expression of the real QueryHandler
//	                                   (buildMultiTierReadParquet) executed by the real DuckDB
//
// Monitors (independent of the model) on every obs: readable clauses; after a clean (fault-free)
// migration / reconciliation / cycle: every row of F is returned exactly once.
package main

import (
	"bytes"
	"context"
	"crypto/sha256"
	"database/sql"
	"database/sql/driver"
	"errors"
	"fmt"
	"io"
	"os"
	"path/filepath"
	"regexp"
	"strings"
	"sync"
	"time"

	"github.com/basekick-labs/arc/internal/api"
	"github.com/basekick-labs/arc/internal/config"
	"github.com/basekick-labs/arc/internal/database"
	"github.com/basekick-labs/arc/internal/license"
	"github.com/basekick-labs/arc/internal/storage"
	"github.com/basekick-labs/arc/internal/tiering"
	"github.com/basekick-labs/arc/internal/verif/vh"
	"github.com/basekick-labs/arc/internal/verifclock"
	sqlite3 "github.com/mattn/go-sqlite3"
	"github.com/rs/zerolog"
)

// ---------------------------------------------------------------- fault controller

var (
	errInjected = errors.New("verif: injected step failure")
	errSrcRead  = errors.New("verif: injected source read failure")
	errCrashed  = errors.New("verif: process crashed (world frozen)")
)

// copyPlan: the fate of ONE streaming copy of the tracked file, fixed atomically by whichever side
// (source ReadTo / destination WriteReader — they run in two goroutines) arrives first, so that the
// oracle is consumed in a deterministic order: the `begin` letter, then one letter per chunk up to
// the first non-ok one. kind: 'f' destination write fails at chunk `at`, 'r' the SOURCE read fails
// instead of delivering chunk `at` (at-1 chunks were delivered; at=1: nothing), 'c' crash at chunk `at`.
type copyPlan struct {
	beginErr error
	kind     byte
	at       int
	arrived  int
	left     int
}

type ctl struct {
	mu      sync.Mutex
	target  string // tracked file (relative path)
	armed   bool
	orc     []byte
	crashed bool
	trace   []string
	plans   map[string]*copyPlan
	nChunks int    // chunks of the tracked file
	srcFull string // its full path in the hot directory
}

func (c *ctl) letter(kind string) byte {
	o := byte('o')
	if len(c.orc) > 0 {
		o, c.orc = c.orc[0], c.orc[1:]
	}
	c.trace = append(c.trace, kind+":"+string(o))
	return o
}

func (c *ctl) plan(path string) *copyPlan {
	c.mu.Lock()
	defer c.mu.Unlock()
	if c.plans == nil {
		c.plans = map[string]*copyPlan{}
	}
	if p := c.plans[path]; p != nil {
		p.arrived++
		return p
	}
	p := &copyPlan{arrived: 1}
	c.plans[path] = p
	switch {
	case c.crashed:
		p.beginErr = errCrashed
	case !c.armed || path != c.target:
	default:
		switch c.letter("begin") {
		case 'f', 'r':
			p.beginErr = errInjected
		case 'c':
			c.crashed = true
			p.beginErr = errCrashed
		default:
			if _, err := os.Stat(c.srcFull); err == nil {
				for j := 1; j <= c.nChunks; j++ {
					if o := c.letter("chunk"); o != 'o' {
						p.kind, p.at = o, j
						break
					}
				}
			}
		}
	}
	return p
}

func (c *ctl) leave(path string) {
	c.mu.Lock()
	defer c.mu.Unlock()
	if p := c.plans[path]; p != nil {
		p.left++
		if p.arrived >= 2 && p.left >= 2 {
			delete(c.plans, path)
		}
	}
}

func (c *ctl) crashNow() { c.mu.Lock(); c.crashed = true; c.mu.Unlock() }

var cur = &ctl{} // the fault driver is registered once; it consults the current controller

const (
	vOK = iota
	vFail
	vCrash
)

// gate is called right before a mutation attempt takes effect.
func (c *ctl) gate(kind, path string) error {
	c.mu.Lock()
	defer c.mu.Unlock()
	if c.crashed {
		return errCrashed
	}
	if !c.armed || path != c.target {
		return nil
	}
	o := byte('o')
	if len(c.orc) > 0 {
		o, c.orc = c.orc[0], c.orc[1:]
	}
	c.trace = append(c.trace, kind+":"+string(o))
	switch o {
	case 'f', 'r': // 'r' (source read failure) only differs from 'f' inside the streaming copy
		return errInjected
	case 'c':
		c.crashed = true
		return errCrashed
	}
	return nil
}

func (c *ctl) frozen() bool { c.mu.Lock(); defer c.mu.Unlock(); return c.crashed }

func (c *ctl) arm(orc string) {
	c.mu.Lock()
	defer c.mu.Unlock()
	c.armed, c.crashed, c.trace, c.plans = true, false, nil, nil
	if orc == "-" {
		orc = ""
	}
	c.orc = []byte(orc)
}

func (c *ctl) disarm() (crashed bool, trace []string) {
	c.mu.Lock()
	defer c.mu.Unlock()
	crashed, trace = c.crashed, c.trace
	c.armed, c.crashed, c.orc = false, false, nil
	return
}

// ---------------------------------------------------------------- fault-injecting backend (wraps the real LocalBackend)

type fbackend struct {
	*storage.LocalBackend
	tier  string
	chunk int
}

type freader struct {
	r     io.Reader
	path  string
	chunk int
	plan  *copyPlan
	count int
	pend  []byte
	dead  error
}

func (f *freader) Read(p []byte) (int, error) {
	if len(f.pend) > 0 {
		n := copy(p, f.pend)
		f.pend = f.pend[n:]
		return n, nil
	}
	if f.dead != nil {
		return 0, f.dead
	}
	buf := make([]byte, f.chunk)
	n, err := io.ReadFull(f.r, buf)
	if n > 0 {
		f.count++
		var e error
		switch {
		case cur.frozen():
			e = errCrashed
		case f.plan.kind == 'f' && f.count == f.plan.at:
			e = errInjected
		case f.plan.kind == 'c' && f.count == f.plan.at:
			cur.crashNow()
			e = errCrashed
		}
		if e != nil {
			f.dead = e
			return 0, e
		}
		f.pend = buf[:n]
		m := copy(p, f.pend)
		f.pend = f.pend[m:]
		return m, nil
	}
	if err == io.EOF {
		if e := cur.gate("done", f.path); e != nil {
			f.dead = e
			return 0, e
		}
		f.dead = io.EOF
		return 0, io.EOF
	}
	f.dead = err
	return 0, err
}

func (b *fbackend) WriteReader(ctx context.Context, path string, r io.Reader, size int64) error {
	p := cur.plan(path)
	defer cur.leave(path)
	if p.beginErr != nil {
		return p.beginErr
	}
	return b.LocalBackend.WriteReader(ctx, path, &freader{r: r, path: path, chunk: b.chunk, plan: p}, size)
}

// fwriter sits between the real LocalBackend.ReadTo of the SOURCE and the pipe: it forwards the
// bytes in whole chunks and makes the source read fail where the plan says so.
type fwriter struct {
	w     io.Writer
	chunk int
	plan  *copyPlan
	count int
	buf   []byte
}

func (f *fwriter) emit(b []byte) error {
	f.count++
	if f.plan.kind == 'r' && f.count == f.plan.at {
		return errSrcRead
	}
	_, err := f.w.Write(b)
	return err
}

func (f *fwriter) Write(b []byte) (int, error) {
	f.buf = append(f.buf, b...)
	for len(f.buf) >= f.chunk {
		if err := f.emit(f.buf[:f.chunk]); err != nil {
			return 0, err
		}
		f.buf = f.buf[f.chunk:]
	}
	return len(b), nil
}

func (b *fbackend) ReadTo(ctx context.Context, path string, w io.Writer) error {
	p := cur.plan(path)
	defer cur.leave(path)
	fw := &fwriter{w: w, chunk: b.chunk, plan: p}
	err := b.LocalBackend.ReadTo(ctx, path, fw)
	if err == nil && len(fw.buf) > 0 {
		err = fw.emit(fw.buf)
	}
	return err
}

func (b *fbackend) Write(ctx context.Context, path string, data []byte) error {
	if e := cur.gate("write", path); e != nil {
		return e
	}
	return b.LocalBackend.Write(ctx, path, data)
}

func (b *fbackend) Delete(ctx context.Context, path string) error {
	if e := cur.gate("delete-"+b.tier, path); e != nil {
		return e
	}
	return b.LocalBackend.Delete(ctx, path)
}

func (b *fbackend) DeleteBatch(ctx context.Context, paths []string) error {
	for _, p := range paths {
		if err := b.Delete(ctx, p); err != nil {
			return err
		}
	}
	return nil
}

func (b *fbackend) Exists(ctx context.Context, path string) (bool, error) {
	if e := cur.gate("probe-"+b.tier, path); e != nil {
		return false, e
	}
	return b.LocalBackend.Exists(ctx, path)
}

func (b *fbackend) RemoveDirectory(ctx context.Context, path string) error {
	if cur.frozen() {
		return errCrashed
	}
	return b.LocalBackend.RemoveDirectory(ctx, path)
}

func (b *fbackend) AppendReader(ctx context.Context, path string, r io.Reader, n int64) error {
	return errors.New("verif: AppendReader not expected")
}

// ---------------------------------------------------------------- fault-injecting SQL driver (wraps the real sqlite3 driver)

type fdriver struct{ inner sqlite3.SQLiteDriver }
type fconn struct{ *sqlite3.SQLiteConn }

func (d *fdriver) Open(dsn string) (driver.Conn, error) {
	c, err := d.inner.Open(dsn)
	if err != nil {
		return nil, err
	}
	return &fconn{c.(*sqlite3.SQLiteConn)}, nil
}

func argStr(args []driver.NamedValue, i int) string {
	if i < len(args) {
		if s, ok := args[i].Value.(string); ok {
			return s
		}
	}
	return ""
}

func sqlGate(query string, args []driver.NamedValue) error {
	q := strings.Join(strings.Fields(query), " ")
	switch {
	case strings.HasPrefix(q, "INSERT INTO tier_migrations"):
		return cur.gate("record", argStr(args, 0))
	case strings.HasPrefix(q, "UPDATE tier_migrations"):
		return cur.gate("complete", cur.target) // keyed by migration id; only the tracked file ever migrates
	case strings.HasPrefix(q, "UPDATE tier_files"):
		return cur.gate("meta", argStr(args, 1))
	case strings.HasPrefix(q, "INSERT INTO tier_files"):
		return cur.gate("regfile", argStr(args, 0))
	case strings.HasPrefix(q, "DELETE FROM tier_files"):
		return cur.gate("unregfile", argStr(args, 0))
	}
	if cur.frozen() {
		return errCrashed
	}
	return nil
}

func (c *fconn) ExecContext(ctx context.Context, query string, args []driver.NamedValue) (driver.Result, error) {
	if err := sqlGate(query, args); err != nil {
		return nil, err
	}
	return c.SQLiteConn.ExecContext(ctx, query, args)
}

func (c *fconn) Exec(query string, args []driver.Value) (driver.Result, error) {
	nv := make([]driver.NamedValue, len(args))
	for i, a := range args {
		nv[i] = driver.NamedValue{Ordinal: i + 1, Value: a}
	}
	return c.ExecContext(context.Background(), query, nv)
}

func (c *fconn) PrepareContext(ctx context.Context, query string) (driver.Stmt, error) {
	q := strings.ToUpper(strings.TrimSpace(query))
	if !strings.HasPrefix(q, "SELECT") && !strings.HasPrefix(q, "PRAGMA") {
		return nil, fmt.Errorf("verif: prepared mutation not expected: %s", query)
	}
	return c.SQLiteConn.PrepareContext(ctx, query)
}

func (c *fconn) Prepare(query string) (driver.Stmt, error) {
	return c.PrepareContext(context.Background(), query)
}

// ---------------------------------------------------------------- world

const dbName = "db"

// The measurement name is unique per case ("m<case>"), so no parquet path is ever reused inside the
// process: arc enables DuckDB's parquet metadata cache, and a recreated path may serve a stale footer.
var (
	meas = "m0"
	fRel = dbName + "/" + meas + "/2024/01/01/00/f_daily.parquet"
)

func must(err error) {
	if err != nil {
		panic(err)
	}
}

type tmpl struct {
	path   string
	bytes  []byte
	sum    [32]byte
	rows   int
	chunks int
}

type world struct {
	c       *vh.Ctx
	base    string
	duck    *database.DuckDB
	dsql    *sql.DB
	logger  zerolog.Logger
	tmpls   []tmpl
	sibHotT tmpl
	sibColT tmpl
	chunk   int
	caseNo  int
	extraNo int

	// per case
	root, hotDir, coldDir, metaPath string
	t                               tmpl
	sibHot, sibCold                 bool
	sibHotRel, sibColdRel           string
	mdb                             *sql.DB
	mgr                             *tiering.Manager
	hot, cold                       *fbackend
}

func (w *world) mkTemplate(name string, fid, rows int) tmpl {
	p := filepath.Join(w.base, "tmpl", name)
	must(os.MkdirAll(filepath.Dir(p), 0o755))
	q := fmt.Sprintf("COPY (SELECT %d AS fid, i AS rid, TIMESTAMP '2024-01-01 00:00:00' + INTERVAL (i) SECOND AS time, "+
		"(i*7919)%%1000003 AS v, md5(i::VARCHAR) AS s FROM range(%d) t(i)) TO '%s' (FORMAT PARQUET, COMPRESSION UNCOMPRESSED)", fid, rows, p)
	_, err := w.dsql.Exec(q)
	must(err)
	b, err := os.ReadFile(p)
	must(err)
	return tmpl{path: p, bytes: b, sum: sha256.Sum256(b), rows: rows, chunks: (len(b) + w.chunk - 1) / w.chunk}
}

func (w *world) openManager() {
	var err error
	w.mdb, err = sql.Open("sqlite3_verif_c12", w.metaPath+"?_busy_timeout=5000&_synchronous=0&_journal_mode=MEMORY")
	must(err)
	hl, err := storage.NewLocalBackend(w.hotDir, w.logger)
	must(err)
	cl, err := storage.NewLocalBackend(w.coldDir, w.logger)
	must(err)
	w.hot = &fbackend{LocalBackend: hl, tier: "hot", chunk: w.chunk}
	w.cold = &fbackend{LocalBackend: cl, tier: "cold", chunk: w.chunk}
	w.mgr, err = tiering.NewManager(&tiering.ManagerConfig{
		HotBackend: w.hot, ColdBackend: w.cold, DB: w.mdb, Config: tierCfg(),
		LicenseClient: license.VerifTieringClient(), Logger: w.logger,
	})
	must(err)
}

func tierCfg() *config.TieredStorageConfig {
	return &config.TieredStorageConfig{
		Enabled: true, MigrationSchedule: "0 2 * * *", MigrationMaxConcurrent: 2, MigrationBatchSize: 10,
		DefaultHotMaxAgeDays: 7,
		Cold:                 config.ColdTierConfig{Enabled: true, Backend: "local"},
	}
}

func (w *world) closeManager() {
	if w.mdb != nil {
		w.mdb.Close()
		w.mdb = nil
	}
	w.mgr = nil
}

func (w *world) restart() { w.closeManager(); w.openManager() }

func writeFile(p string, b []byte) {
	must(os.MkdirAll(filepath.Dir(p), 0o700))
	must(os.WriteFile(p, b, 0o600))
}

// newCase: the world is reset to "F lives in hot and is registered hot (as ingestion does)" plus the
// requested siblings. Directories and the SQLite file are created once per run; between cases the
// objects are removed and both tiering tables emptied (a fresh Manager is built for every case).
func (w *world) newCase(ti int, sibHot, sibCold bool) {
	t0 := time.Now()
	defer func() { tNew += time.Since(t0) }()
	w.caseNo++
	meas = fmt.Sprintf("m%d", w.caseNo)
	fRel = dbName + "/" + meas + "/2024/01/01/00/f_daily.parquet"
	cur = &ctl{target: fRel}
	verifclock.Set(time.Now().UnixNano()) // metadata.go is clockified: the tier-cache TTL runs on this clock
	defer func() { cur.nChunks, cur.srcFull = w.t.chunks, filepath.Join(w.hotDir, fRel) }()
	if w.root == "" {
		w.root = filepath.Join(w.base, "world")
		w.hotDir, w.coldDir = filepath.Join(w.root, "hot"), filepath.Join(w.root, "cold")
		w.metaPath = filepath.Join(w.root, "meta.db")
		must(os.MkdirAll(w.hotDir, 0o700))
		must(os.MkdirAll(w.coldDir, 0o700))
		w.openManager()
	} else {
		must(os.RemoveAll(filepath.Join(w.hotDir, dbName)))
		must(os.RemoveAll(filepath.Join(w.coldDir, dbName)))
		for _, q := range []string{"DELETE FROM tier_files", "DELETE FROM tier_migrations", "DELETE FROM sqlite_sequence"} {
			_, err := w.mdb.Exec(q)
			must(err)
		}
		w.restart()
	}
	w.t, w.sibHot, w.sibCold = w.tmpls[ti], sibHot, sibCold
	ctx := context.Background()
	writeFile(filepath.Join(w.hotDir, fRel), w.t.bytes)
	must(w.mgr.RecordNewFile(ctx, &tiering.FileMetadata{Path: fRel, Database: dbName, Measurement: meas,
		PartitionTime: time.Date(2024, 1, 1, 0, 0, 0, 0, time.UTC), SizeBytes: int64(len(w.t.bytes))}))
	if sibHot { // recent data of the same measurement, still hot (not a migration candidate: too young)
		now := time.Now().UTC()
		w.sibHotRel = fmt.Sprintf("%s/%s/%04d/%02d/%02d/%02d/recent.parquet", dbName, meas, now.Year(), int(now.Month()), now.Day(), now.Hour())
		writeFile(filepath.Join(w.hotDir, w.sibHotRel), w.sibHotT.bytes)
		must(w.mgr.RecordNewFile(ctx, &tiering.FileMetadata{Path: w.sibHotRel, Database: dbName, Measurement: meas,
			PartitionTime: now.Truncate(time.Hour), SizeBytes: int64(len(w.sibHotT.bytes))}))
	}
	if sibCold { // an older file of the same measurement that was migrated cleanly before
		w.sibColdRel = dbName + "/" + meas + "/2023/12/31/00/old_daily.parquet"
		writeFile(filepath.Join(w.coldDir, w.sibColdRel), w.sibColT.bytes)
		must(w.mgr.RecordNewFile(ctx, &tiering.FileMetadata{Path: w.sibColdRel, Database: dbName, Measurement: meas,
			PartitionTime: time.Date(2023, 12, 31, 0, 0, 0, 0, time.UTC), SizeBytes: int64(len(w.sibColT.bytes))}))
		must(w.mgr.GetMetadata().UpdateTier(ctx, w.sibColdRel, tiering.TierCold))
	}
}

// ---------------------------------------------------------------- ops on the real code

func (w *world) runOp(kind, orc string) (string, []string) {
	ctx := context.Background()
	t0 := time.Now()
	defer func() { tOp += time.Since(t0) }()
	cur.arm(orc)
	res := vh.Guard(func() string {
		switch kind {
		case "mig":
			m, e := w.mgr.VerifMigrator().MigrateTier(ctx, tiering.TierHot, tiering.TierCold)
			return fmt.Sprintf("mig=%d/%d", m, e)
		case "rec":
			f, d, e := w.mgr.VerifMigrator().ReconcileOrphanedFiles(ctx)
			return fmt.Sprintf("rec=%d/%d/%d", f, d, e)
		case "tick":
			var sec int
			fmt.Sscan(orc, &sec)
			verifclock.Advance(time.Duration(sec) * time.Second)
			return "ok"
		case "addmig":
			return w.addMig(orc)
		case "age":
			// more than the 48 h reconcile window passes: the only clock the tiering code reads for the
			// window is SQLite's CURRENT_TIMESTAMP stored in migrated_at, so ageing = moving it back 49 h
			if _, err := w.mdb.Exec("UPDATE tier_files SET migrated_at = datetime('now', '-49 hours') WHERE migrated_at IS NOT NULL AND database = ?", dbName); err != nil {
				return "age=err"
			}
			return "ok"
		case "scan":
			if _, err := w.mgr.ScanAndRegisterFiles(ctx); err != nil {
				return "scan=err"
			}
			return "scan=ok"
		case "cycle":
			if err := w.mgr.RunMigrationCycle(ctx); err != nil {
				return "cycle=err"
			}
			return "cycle=ok"
		}
		return "bad-op"
	})
	crashed, trace := cur.disarm()
	if crashed {
		res = kind + "=crash"
		w.restart()
	}
	return res, trace
}

// warmQuery: a query in the RUNNING process — the tier routing goes through the long-lived
// MetadataStore of w.mgr (30 s per-measurement tier cache under the virtual clock).
func (w *world) warmQuery() obsv {
	var o obsv
	qm := w.mgr.VerifQueryView(w.hot.LocalBackend, w.cold.LocalBackend)
	o.expr = api.VerifTieredFromExpr(w.hot.LocalBackend, qm, dbName, meas)
	w.evalExpr(&o)
	return o
}

// addMig "<k> older|newer": k more files of the measurement are ingested and migrated cleanly by the
// real MigrateFile; their migrated_at is placed before (older) or after (newer) the tracked file's.
func (w *world) addMig(arg string) string {
	var k int
	var pos string
	fmt.Sscan(arg, &k, &pos)
	ctx := context.Background()
	var paths []string
	for i := 0; i < k; i++ {
		w.extraNo++
		rel := fmt.Sprintf("%s/%s/2024/01/02/%02d/x%d_daily.parquet", dbName, meas, w.extraNo%24, w.extraNo)
		writeFile(filepath.Join(w.hotDir, rel), w.sibColT.bytes)
		pt := time.Date(2024, 1, 2, w.extraNo%24, 0, 0, 0, time.UTC)
		must(w.mgr.RecordNewFile(ctx, &tiering.FileMetadata{Path: rel, Database: dbName, Measurement: meas, PartitionTime: pt, SizeBytes: int64(len(w.sibColT.bytes))}))
		must(w.mgr.VerifMigrator().MigrateFile(ctx, tiering.MigrationCandidate{Path: rel, Database: dbName, Measurement: meas,
			PartitionTime: pt, SizeBytes: int64(len(w.sibColT.bytes)), CurrentTier: tiering.TierHot, TargetTier: tiering.TierCold}))
		paths = append(paths, rel)
	}
	for _, p := range paths {
		if pos == "older" {
			_, err := w.mdb.Exec("UPDATE tier_files SET migrated_at = datetime('now', '-2 hours') WHERE path = ?", p)
			must(err)
		}
	}
	if pos == "newer" && k > 0 {
		_, err := w.mdb.Exec("UPDATE tier_files SET migrated_at = datetime(migrated_at, '-1 hours') WHERE migrated_at IS NOT NULL AND path = ?", fRel)
		must(err)
	}
	return "ok"
}

type obsv struct {
	hot, cold  string // "1" intact, "0" absent, "X" present but different bytes
	part       string
	tier       string
	pend       int
	recent     int
	globs      string
	vis        string
	visN       int
	expr       string
	hotPartBad bool
}

func fileState(p string, want [32]byte) string {
	b, err := os.ReadFile(p)
	if err != nil {
		return "0"
	}
	if sha256.Sum256(b) == want {
		return "1"
	}
	return "X"
}

var quoted = regexp.MustCompile(`'([^']*)'`)

// observe builds FRESH objects (plain LocalBackends, a fresh Manager) over the same directories and
// SQLite file — what a restarted server / a concurrent query sees.
var tObs, tDuck, tOp, tNew time.Duration

func (w *world) observe() obsv {
	t0 := time.Now()
	defer func() { tObs += time.Since(t0) }()
	ctx := context.Background()
	var o obsv
	o.hot = fileState(filepath.Join(w.hotDir, fRel), w.t.sum)
	o.cold = fileState(filepath.Join(w.coldDir, fRel), w.t.sum)
	o.part = "-"
	if st, err := os.Stat(filepath.Join(w.coldDir, fRel) + ".part"); err == nil {
		o.part = fmt.Sprint((int(st.Size()) + w.chunk - 1) / w.chunk)
	}
	if _, err := os.Stat(filepath.Join(w.hotDir, fRel) + ".part"); err == nil {
		o.hotPartBad = true
	}
	hl, err := storage.NewLocalBackend(w.hotDir, w.logger)
	must(err)
	cl, err := storage.NewLocalBackend(w.coldDir, w.logger)
	must(err)
	om, err := tiering.NewManager(&tiering.ManagerConfig{HotBackend: hl, ColdBackend: cl, DB: w.mdb, Config: tierCfg(),
		LicenseClient: license.VerifTieringClient(), Logger: w.logger})
	must(err)
	fm, err := om.GetMetadata().GetFile(ctx, fRel)
	must(err)
	o.tier = "none"
	if fm != nil {
		o.tier = string(fm.Tier)
	}
	must(w.mdb.QueryRow("SELECT count(*) FROM tier_migrations WHERE file_path = ? AND completed_at IS NULL", fRel).Scan(&o.pend))
	o.recent = w.recent(o.tier)

	// the real query path
	o.expr = api.VerifTieredFromExpr(hl, om, dbName, meas)
	w.evalExpr(&o)
	return o
}

// evalExpr: which tier globs the FROM expression names, and how many times the real DuckDB returns
// the rows of F over it.
func (w *world) evalExpr(op *obsv) {
	o := *op
	defer func() { *op = o }()
	var gl []string
	globVis := 0
	for _, m := range quoted.FindAllStringSubmatch(o.expr, -1) {
		p := m[1]
		suffix := "/" + dbName + "/" + meas + "/**/*.parquet"
		if !strings.HasSuffix(p, suffix) {
			gl = append(gl, "?"+p)
			continue
		}
		root := strings.TrimSuffix(p, suffix)
		switch root {
		case w.hotDir:
			gl = append(gl, "hot")
		case w.coldDir:
			gl = append(gl, "cold")
		default:
			gl = append(gl, "?"+root)
			continue
		}
		if _, err := os.Stat(filepath.Join(root, fRel)); err == nil {
			globVis++
		}
	}
	o.globs = strings.Join(gl, ",")
	if o.globs == "" {
		o.globs = "-"
	}
	// rows of F returned by the real DuckDB over that expression
	var n int64
	t1 := time.Now()
	qerr := w.dsql.QueryRow("SELECT count(*) " + o.expr + " WHERE fid = 1").Scan(&n)
	tDuck += time.Since(t1)
	switch {
	case qerr != nil && strings.Contains(qerr.Error(), "No files found"):
		n = 0
	case qerr != nil:
		o.vis = "qerr:" + strings.ReplaceAll(strings.SplitN(qerr.Error(), "\n", 2)[0], " ", "_")
		o.visN = -1
		return
	}
	if n%int64(w.t.rows) != 0 {
		o.vis = fmt.Sprintf("%d/%d", n, w.t.rows)
		o.visN = -1
		return
	}
	o.visN = int(n / int64(w.t.rows))
	o.vis = fmt.Sprint(o.visN)
	if o.visN != globVis {
		o.vis = fmt.Sprintf("%d(duckdb)!=%d(glob)", o.visN, globVis)
	}
}

func (o obsv) line() string {
	return fmt.Sprintf("h=%s c=%s p=%s t=%s pend=%d r=%d globs=%s vis=%s", o.hot, o.cold, o.part, o.tier, o.pend, o.recent, o.globs, o.vis)
}

// ---------------------------------------------------------------- histories

type opn struct{ kind, orc string }

func clean(orc string) bool { return strings.Trim(orc, "o-") == "" }

func (w *world) runHistory(ti int, sibHot, sibCold bool, ops []opn) {
	c := w.c
	w.newCase(ti, sibHot, sibCold)
	var canon strings.Builder
	emit := func(op, out string) {
		c.Op(op, out)
		canon.WriteString(op + "\n")
	}
	b := func(x bool) int {
		if x {
			return 1
		}
		return 0
	}
	emit(fmt.Sprintf("new %d %d %d", w.t.chunks, b(sibHot), b(sibCold)), "ok")
	replay := func() string {
		return canon.String() + fmt.Sprintf("# file=%s size=%dB chunk=%dB; hot=%s cold=%s; oracle letters: one per mutation attempt on the file (o ok, f injected error, r source read of the copy fails, c crash+restart)",
			fRel, len(w.t.bytes), w.chunk, "LocalBackend(hot/)", "LocalBackend(cold/)")
	}
	check := func(last *opn, lastRes string) {
		o := w.observe()
		emit("obs", o.line())
		// ---- readable clauses (every reachable state)
		if o.hot != "1" && o.cold != "1" {
			c.Fail("unreadable:no-complete-copy-in-any-tier", "after "+histTail(last)+": neither tier holds the complete file ("+o.line()+")", replay())
		}
		if (o.tier == "hot" && o.hot != "1") || (o.tier == "cold" && o.cold != "1") || (o.tier != "hot" && o.tier != "cold") {
			c.Fail("unreadable:metadata-tier-has-no-complete-copy", "after "+histTail(last)+": tier_files says "+o.tier+" but that tier does not hold the complete file ("+o.line()+")", replay())
		}
		if o.hot == "X" || o.cold == "X" {
			c.Fail("unreadable:corrupt-object-under-final-name", "after "+histTail(last)+": an object under the final name differs from the original bytes ("+o.line()+")", replay())
		}
		if o.visN == 0 {
			c.Fail("invisible:query-returns-no-copy", "after "+histTail(last)+": the multi-tier query returns none of the file's rows ("+o.line()+"; "+o.expr+")", replay())
		}
		if o.visN < 0 || o.hotPartBad {
			c.Fail("query-broken:"+strings.SplitN(o.vis, ":", 2)[0], "after "+histTail(last)+": query over the selected tiers failed or returned a partial file ("+o.line()+"; "+o.expr+")", replay())
		}
		// ---- exactly-once clause: once the migration or the reconciliation has finished
		if last != nil && clean(last.orc) && o.visN >= 0 && o.visN != 1 {
			fin := ""
			switch {
			case last.kind == "mig" && lastRes == "mig=1/0":
				fin = "migration"
			case last.kind == "rec" && strings.HasSuffix(lastRes, "/0") && lastRes != "rec=crash":
				fin = "reconcile"
			case last.kind == "cycle" && lastRes == "cycle=ok":
				fin = "cycle"
			}
			if fin == "reconcile" && o.tier == "cold" && w.outsideWindow() {
				// outside the 48 h window the reconciliation does not enumerate the file (stated assumption);
				// the clause is checked on the next clean CYCLE instead, whose scan + re-migration must remove it
				c.Tag("stale-hot-orphan-after-reconcile")
				fin = ""
			}
			if fin != "" {
				class := "other"
				switch {
				case o.tier == "hot" && o.cold == "1" && o.hot == "1":
					class = "cold-orphan"
				case o.tier == "cold" && o.cold == "1" && o.hot == "1":
					class = "hot-orphan"
				}
				c.Fail(fmt.Sprintf("visible-%dx-after-clean-%s:%s", o.visN, fin, class),
					fmt.Sprintf("a fault-free %s has finished, yet a query over %s.%s returns every row of %s %d times (%s; %s)",
						fin, dbName, meas, fRel, o.visN, o.line(), o.expr), replay())
			}
		}
		c.Tag(fmt.Sprintf("state:h%s-c%s-%s", o.hot, o.cold, o.tier))
		c.Tag("vis:" + o.vis)
	}
	check(nil, "")
	nontriv := false
	for i := range ops {
		op := ops[i]
		if op.kind == "query" {
			q := w.warmQuery()
			emit("query", fmt.Sprintf("globs=%s vis=%s", q.globs, q.vis))
			fresh := w.observe()
			switch {
			case q.visN == 0 && fresh.visN >= 1:
				c.Fail("rows-invisible:stale-tier-cache", fmt.Sprintf("a query in the running process is routed by a stale tier-cache entry and returns none of the rows of %s (routed globs=%s; a fresh process would glob %s and see %d copy; %s)",
					fRel, q.globs, fresh.globs, fresh.visN, q.expr), replay())
			case q.visN >= 0 && fresh.visN >= 0 && q.visN != fresh.visN:
				c.Fail(fmt.Sprintf("rows-%dx-vs-%dx:stale-tier-cache", q.visN, fresh.visN), fmt.Sprintf("a query in the running process (globs=%s) and a fresh process (globs=%s) disagree on how often the rows of %s are returned", q.globs, fresh.globs, fRel), replay())
			case q.visN == 0:
				c.Fail("invisible:query-returns-no-copy", "warm query returns none of the file's rows ("+q.expr+")", replay())
			case q.visN < 0:
				c.Fail("query-broken:"+strings.SplitN(q.vis, ":", 2)[0], "warm query failed ("+q.vis+"; "+q.expr+")", replay())
			}
			c.Tag("warm-vis:" + q.vis)
			continue
		}
		if op.kind == "tick" || op.kind == "addmig" {
			res, _ := w.runOp(op.kind, op.orc)
			if op.kind == "tick" {
				emit("tick "+op.orc, res)
			} else {
				emit("addmig "+op.orc, res+" "+w.quickState())
				check(&ops[i], res)
			}
			continue
		}
		res, trace := w.runOp(op.kind, op.orc)
		if op.kind == "age" {
			emit("age", res+" "+w.quickState())
			c.Tag("res:age")
			check(&ops[i], res)
			continue
		}
		emit(op.kind+" "+op.orc, res+" "+w.quickState())
		for _, t := range trace {
			if !strings.HasSuffix(t, ":o") {
				c.Tag(op.kind + "@" + t)
				nontriv = true
			}
		}
		c.Tag("res:" + res)
		check(&ops[i], res)
	}
	c.Case(canon.String(), nontriv)
}

func histTail(last *opn) string {
	if last == nil {
		return "setup"
	}
	return "`" + last.kind + " " + last.orc + "`"
}

// quickState: the persistent state part of an op's output line (same format as obs without query).
func (w *world) quickState() string {
	hot := fileState(filepath.Join(w.hotDir, fRel), w.t.sum)
	cold := fileState(filepath.Join(w.coldDir, fRel), w.t.sum)
	part := "-"
	if st, err := os.Stat(filepath.Join(w.coldDir, fRel) + ".part"); err == nil {
		part = fmt.Sprint((int(st.Size()) + w.chunk - 1) / w.chunk)
	}
	var tier string
	if err := w.mdb.QueryRow("SELECT tier FROM tier_files WHERE path = ?", fRel).Scan(&tier); err != nil {
		tier = "none"
	}
	var pend int
	must(w.mdb.QueryRow("SELECT count(*) FROM tier_migrations WHERE file_path = ? AND completed_at IS NULL", fRel).Scan(&pend))
	return fmt.Sprintf("h=%s c=%s p=%s t=%s pend=%d r=%d", hot, cold, part, tier, pend, w.recent(tier))
}

// outsideWindow: independent of the code under test (the monitors must not trust
// GetRecentlyMigratedFiles): is the row's migrated_at NULL or older than 48 h by SQLite's own clock?
func (w *world) outsideWindow() bool {
	var in sql.NullBool
	if err := w.mdb.QueryRow("SELECT migrated_at >= datetime('now', '-48 hours') FROM tier_files WHERE path = ?", fRel).Scan(&in); err != nil {
		return false
	}
	return !in.Valid || !in.Bool
}

// recent: is the file inside the working set the REAL GetRecentlyMigratedFiles(tier, 48 h) returns?
func (w *world) recent(tier string) int {
	fs, err := w.mgr.GetMetadata().GetRecentlyMigratedFiles(context.Background(), tiering.TierFromString(tier), 48*time.Hour)
	must(err)
	for _, f := range fs {
		if f.Path == fRel {
			return 1
		}
	}
	return 0
}

// ---------------------------------------------------------------- main

func main() {
	c := vh.Start()
	r := vh.NewRand(c.Seed)
	sql.Register("sqlite3_verif_c12", &fdriver{})
	base, err := os.MkdirTemp("/var/tmp", "verif-c12-*")
	must(err)
	defer os.RemoveAll(base)
	logger := zerolog.New(io.Discard).Level(zerolog.Disabled)
	duck, err := database.New(&database.Config{MemoryLimit: "512MB", ThreadCount: 2, MaxConnections: 2, LocalStorageRoot: base}, logger)
	must(err)
	defer duck.Close()
	w := &world{c: c, base: base, duck: duck, dsql: duck.DB(), logger: logger, chunk: 16384}
	// three file sizes (real parquet written by DuckDB): < 1 chunk, a few chunks, many chunks (> the 32 KiB pipe block)
	w.tmpls = []tmpl{w.mkTemplate("small.parquet", 1, 40), w.mkTemplate("medium.parquet", 1, 700), w.mkTemplate("large.parquet", 1, 4000)}
	if c.Thorough() {
		w.tmpls = append(w.tmpls, w.mkTemplate("xl.parquet", 1, 20000))
	}
	w.sibHotT = w.mkTemplate("sibhot.parquet", 2, 7)
	w.sibColT = w.mkTemplate("sibcold.parquet", 3, 5)
	for i, t := range w.tmpls {
		c.Extra[fmt.Sprintf("file%d", i)] = fmt.Sprintf("%d bytes, %d rows, %d chunks of %d", len(t.bytes), t.rows, t.chunks, w.chunk)
	}

	sibs := [][2]bool{{false, false}, {true, false}, {false, true}, {true, true}}
	// number of mutation attempts of a fault-free MigrateFile: record, begin, chunks, done, meta, delete, complete
	nEv := func(t tmpl) int { return t.chunks + 6 }
	single := func(k int, x byte) string { return strings.Repeat("o", k) + string(x) }
	follow := [][]opn{
		{{"rec", "-"}},
		{{"mig", "-"}, {"rec", "-"}},
		{{"rec", "-"}, {"mig", "-"}, {"rec", "-"}},
		{{"cycle", "-"}},
		{{"scan", "-"}, {"rec", "-"}},
	}
	cat := func(a []opn, b ...opn) []opn { return append(append([]opn{}, a...), b...) }

	// (0) malformed stream (the model must reject what the harness rejects)
	for _, bad := range []string{"mig oxo", "frobnicate", "new x 0 0", "rec", "obs now"} {
		c.Op(bad, "bad-op")
	}
	// (1) fault-free baselines
	for ti := range w.tmpls {
		for _, sb := range sibs {
			w.runHistory(ti, sb[0], sb[1], []opn{{"mig", "-"}, {"rec", "-"}, {"mig", "-"}, {"cycle", "-"}})
			w.runHistory(ti, sb[0], sb[1], []opn{{"cycle", "-"}, {"rec", "-"}})
			w.runHistory(ti, sb[0], sb[1], []opn{{"rec", "-"}, {"scan", "-"}, {"mig", "-"}})
		}
	}
	// (2) every crash point and every single step failure of the migration, each followed by the
	//     reconciliation / retry / cycle variants; all sibling configurations for the small and medium
	//     file, a rotating one for larger files in the quick tier.
	gi := 0
	for ti, t := range w.tmpls {
		for k := 0; k < nEv(t); k++ {
			for _, x := range []byte{'c', 'f', 'r'} {
				if x == 'r' && (k < 2 || k >= 2+t.chunks) {
					continue // a source read failure exists only at the chunk positions (k-2 chunks delivered, incl. 0)
				}
				for fi, fo := range follow {
					for si, sb := range sibs {
						gi++
						if !c.Thorough() && ti >= 2 && (si+fi+k)%4 != int(c.Seed%4) {
							continue
						}
						w.runHistory(ti, sb[0], sb[1], cat([]opn{{"mig", single(k, x)}}, fo...))
					}
				}
			}
		}
	}
	// (3) two faults: all oracle strings with two non-ok letters for the small file (covers a failed
	//     metadata update followed by a failed / crashed rollback, failed bookkeeping + failed delete, …),
	//     then reconciliation and a clean cycle.
	{
		t := w.tmpls[0]
		L := nEv(t) + 1
		for i := 0; i < L; i++ {
			for j := i + 1; j < L; j++ {
				for _, xy := range []string{"ff", "fc", "rf", "rc"} {
					gi++
					if !c.Thorough() && gi%2 != int(c.Seed%2) {
						continue
					}
					o := []byte(strings.Repeat("o", j+1))
					o[i], o[j] = xy[0], xy[1]
					sb := sibs[gi%4]
					w.runHistory(0, sb[0], sb[1], []opn{{"mig", string(o)}, {"rec", "-"}, {"cycle", "-"}})
				}
			}
		}
	}
	// (4) faults inside the follow-up (reconcile / retry / scan / cycle) after a first fault
	{
		firsts := []string{}
		t := w.tmpls[0]
		for k := 0; k < nEv(t); k++ {
			firsts = append(firsts, single(k, 'c'), single(k, 'f'))
			if k >= 2 && k < 2+t.chunks {
				firsts = append(firsts, single(k, 'r'))
			}
		}
		for _, f1 := range firsts {
			for _, k2 := range []string{"rec", "mig", "scan", "cycle"} {
				max2 := map[string]int{"rec": 2, "mig": nEv(t), "scan": 1, "cycle": nEv(t) + 3}[k2]
				for p := 0; p < max2; p++ {
					for _, x := range []byte{'c', 'f'} {
						gi++
						if !c.Thorough() && gi%5 != int(c.Seed%5) {
							continue
						}
						sb := sibs[gi%4]
						w.runHistory(0, sb[0], sb[1], []opn{{"mig", f1}, {k2, single(p, x)}, {"rec", "-"}, {"mig", "-"}, {"rec", "-"}})
					}
				}
			}
		}
	}
	// (4b) ageing: after every crash point / step failure more than the 48 h reconcile window passes
	//      without a cycle (migrated_at leaves GetRecentlyMigratedFiles' working set), then the next
	//      cycle / reconcile / scan+retry runs.
	{
		aged := [][]opn{
			{{"age", ""}, {"cycle", "-"}},
			{{"age", ""}, {"rec", "-"}, {"cycle", "-"}},
			{{"age", ""}, {"scan", "-"}, {"mig", "-"}, {"rec", "-"}},
			{{"rec", "-"}, {"age", ""}, {"mig", "-"}, {"rec", "-"}, {"age", ""}, {"cycle", "-"}},
		}
		for ti, t := range w.tmpls {
			for k := 0; k < nEv(t); k++ {
				for _, x := range []byte{'c', 'f'} {
					for fi, fo := range aged {
						for si, sb := range sibs {
							gi++
							if !c.Thorough() && ti >= 1 && (si+fi+k)%4 != int(c.Seed%4) {
								continue
							}
							if !c.Thorough() && ti >= 2 && k >= 2 && k < t.chunks {
								continue
							}
							w.runHistory(ti, sb[0], sb[1], cat([]opn{{"mig", single(k, x)}}, fo...))
						}
					}
				}
			}
		}
	}
	// (4c) queries in the running process around migrate / reconcile / scan / cycle steps, with gaps
	//      below and above the 30 s tier-cache TTL (the cache is filled by the query BEFORE the step)
	{
		// oracle with one fault at a named step of MigrateFile for a file of n chunks
		at := func(t tmpl, step string, x byte) string {
			pos := map[string]int{"record": 0, "begin": 1, "chunk": 2, "done": 2 + t.chunks, "meta": 3 + t.chunks, "delete": 4 + t.chunks, "complete": 5 + t.chunks}[step]
			return single(pos, x)
		}
		q, tk := opn{"query", ""}, func(sec int) opn { return opn{"tick", fmt.Sprint(sec)} }
		for ti := 0; ti < 2; ti++ {
			t := w.tmpls[ti]
			hs := [][]opn{
				{q, {"mig", "-"}, q},
				{q, tk(10), {"mig", "-"}, tk(10), q, tk(9), q, tk(1), q, tk(25), q},
				{q, tk(29), {"mig", "-"}, q, tk(1), q},
				{q, tk(31), {"mig", "-"}, q},
				{q, {"cycle", "-"}, q, tk(40), q},
				{q, {"mig", at(t, "delete", 'f')}, q, {"rec", "-"}, q, tk(30), q},
				{q, {"mig", at(t, "delete", 'c')}, q, tk(5), {"rec", "-"}, q},
				{q, {"mig", at(t, "meta", 'c')}, q, {"cycle", "-"}, q},
				{q, {"mig", at(t, "meta", 'f')}, q, {"mig", "-"}, tk(15), q},
				{q, {"mig", at(t, "chunk", 'r')}, q, {"mig", "-"}, q},
				{{"mig", at(t, "delete", 'f')}, q, {"scan", "-"}, q, {"mig", "-"}, q, {"rec", "-"}, q},
				{{"mig", at(t, "delete", 'c')}, q, {"age", ""}, q, {"cycle", "-"}, q},
				{q, {"addmig", "2 older"}, q, {"mig", "-"}, q},
				{{"mig", "-"}, q, {"addmig", "1 newer"}, tk(3), q},
			}
			for hi, h := range hs {
				for si, sb := range sibs {
					gi++
					if !c.Thorough() && ti == 1 && (hi+si)%2 != int(c.Seed%2) {
						continue
					}
					w.runHistory(ti, sb[0], sb[1], h)
				}
			}
		}
		// (4d) several files: the tracked file is left as a hot orphan (source delete failed / crash
		//      before it) at the first / a middle / the last position among N cleanly migrated files
		//      (N up to 3 x MigrationMaxConcurrent = 6), then reconciliation must still remove it.
		t := w.tmpls[0]
		for _, orphan := range []string{at(t, "delete", 'f'), at(t, "delete", 'c')} {
			for _, k := range []int{1, 2, 4, 5, 6} {
				for pi, place := range [][]opn{
					{{"addmig", fmt.Sprintf("%d newer", k)}},
					{{"addmig", fmt.Sprintf("%d older", k)}},
					{{"addmig", fmt.Sprintf("%d older", (k+1)/2)}, {"addmig", fmt.Sprintf("%d newer", k)}},
				} {
					gi++
					sb := sibs[1+2*(gi%2)] // the measurement still has other hot data
					if !c.Thorough() && (k == 2 || k == 5) && pi != int(c.Seed%3) {
						continue
					}
					h := cat([]opn{{"mig", orphan}}, place...)
					w.runHistory(0, sb[0], sb[1], cat(h, opn{"rec", "-"}, q, opn{"cycle", "-"}))
				}
			}
		}
	}
	// (5) random histories with random oracles
	n := c.N
	if n == 0 {
		n = 150
		if c.Thorough() {
			n = 2500
		}
	}
	for i := 0; i < n; i++ {
		ti := r.Intn(len(w.tmpls))
		if !c.Thorough() && r.Chance(60) {
			ti = r.Intn(2)
		}
		t := w.tmpls[ti]
		sb := vh.Pick(r, sibs)
		var ops []opn
		for j, k := 0, r.Range(2, 7); j < k; j++ {
			kind := vh.Pick(r, []string{"mig", "mig", "mig", "rec", "rec", "scan", "cycle", "age"})
			if kind == "age" {
				ops = append(ops, opn{"age", ""})
				continue
			}
			if r.Chance(35) {
				ops = append(ops, opn{"query", ""})
				if r.Chance(60) {
					ops = append(ops, opn{"tick", fmt.Sprint(vh.Pick(r, []int{1, 10, 29, 30, 31, 45}))})
				}
			}
			L := r.Intn(nEv(t) + 4)
			o := make([]byte, L)
			for q := range o {
				switch x := r.Intn(100); {
				case x < 78:
					o[q] = 'o'
				case x < 87:
					o[q] = 'f'
				case x < 93:
					o[q] = 'r'
				default:
					o[q] = 'c'
				}
			}
			orc := string(bytes.TrimRight(o, "o"))
			if orc == "" {
				orc = "-"
			}
			ops = append(ops, opn{kind, orc})
		}
		if r.Chance(50) {
			ops = append(ops, vh.Pick(r, follow)...)
		}
		w.runHistory(ti, sb[0], sb[1], ops)
	}
	w.closeManager()
	c.Extra["time"] = fmt.Sprintf("newCase=%v ops=%v observe=%v (duckdb=%v)", tNew.Round(time.Millisecond), tOp.Round(time.Millisecond), tObs.Round(time.Millisecond), tDuck.Round(time.Millisecond))
	c.Finish("cases = (file size, sibling tiers of the measurement, history of mig/rec/scan/cycle ops each with a fault oracle) — " +
		"every crash point, every single step failure and every source-read failure position (after 0..n-1 chunks) of MigrateFile for each file size × follow-up (reconcile, retry, reconcile+retry, full cycle, scan+reconcile), " +
		"queries in the running process (30 s tier cache, virtual clock) before/after each step with gaps below/above the TTL, a hot orphan at the first/middle/last position among up to 6 other cleanly migrated files, ageing past the 48 h reconcile window after every crash point / step failure followed by cycle / reconcile / scan+retry, all two-fault oracles for the small file, faults inside the follow-up, and random histories; non-trivial = at least one injected failure/crash was consumed; distinct = distinct op text")
}
