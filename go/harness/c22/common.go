//go:build verif

// Shared by the C22 and C23 harnesses (go/harness/c23/common.go is a verbatim copy).
// Drives the REAL ClusterFSM (Apply / Snapshot / Persist / Restore) with JSON commands built from
// the real payload types, dumps primaries AND indexes canonically (same text as the Lean model's
// Arc.C22.Wire.dump), and hosts the property monitors.
package main

import (
	"bytes"
	"encoding/json"
	"fmt"
	"io"
	"sort"
	"strconv"
	"strings"
	"time"
	"unicode/utf8"

	craft "github.com/basekick-labs/arc/internal/cluster/raft"
	"github.com/basekick-labs/arc/internal/verif/vh"
	hraft "github.com/hashicorp/raft"
	"github.com/rs/zerolog"
)

const zeroSec = int64(-62135596800) // time.Time{}.Unix()

// ---------------------------------------------------------------- string tokens (= Lean encTok)
func safeByte(b byte) bool {
	return (b >= '0' && b <= '9') || (b >= 'A' && b <= 'Z') || (b >= 'a' && b <= 'z') ||
		b == '_' || b == '.' || b == '/' || b == '*' || b == '@' || b == '+'
}

func encBytes(s string) string {
	var b strings.Builder
	for i := 0; i < len(s); i++ {
		if safeByte(s[i]) {
			b.WriteByte(s[i])
		} else {
			fmt.Fprintf(&b, "%%%02x", s[i])
		}
	}
	return b.String()
}

// tok: "-" = empty; a run of one code point repeated >= 16 times = ^n^<unit>; else %-escaped bytes.
func tok(s string) string {
	if s == "" {
		return "-"
	}
	rs := []rune(s)
	if len(rs) >= 16 && utf8.ValidString(s) {
		same := true
		for _, r := range rs {
			if r != rs[0] {
				same = false
				break
			}
		}
		if same {
			return "^" + strconv.Itoa(len(rs)) + "^" + encBytes(string(rs[0]))
		}
	}
	return encBytes(s)
}

func b01(b bool) string {
	if b {
		return "1"
	}
	return "0"
}
func i64(v int64) string  { return strconv.FormatInt(v, 10) }
func u64(v uint64) string { return strconv.FormatUint(v, 10) }

func mkTime(sec int64) time.Time {
	if sec == zeroSec {
		return time.Time{}
	}
	return time.Unix(sec, 0).UTC()
}

// ---------------------------------------------------------------- canonical dump (= Lean Wire.dump)
func sortedKeys[V any](m map[string]V) []string {
	ks := make([]string, 0, len(m))
	for k := range m {
		ks = append(ks, k)
	}
	sort.Strings(ks)
	return ks
}
func sortedIKeys[V any](m map[int64]V) []int64 {
	ks := make([]int64, 0, len(m))
	for k := range m {
		ks = append(ks, k)
	}
	sort.Slice(ks, func(i, j int) bool { return ks[i] < ks[j] })
	return ks
}
func sortedInts(v []int64) []int64 {
	c := append([]int64(nil), v...)
	sort.Slice(c, func(i, j int) bool { return c[i] < c[j] })
	return c
}
func joinInts(v []int64) string {
	p := make([]string, len(v))
	for i, x := range sortedInts(v) {
		p[i] = i64(x)
	}
	return strings.Join(p, ",")
}
func sect(name string, items []string) string { return name + "[" + strings.Join(items, ";") + "]" }

func intSetSect(name string, m map[int64][]int64) string {
	var it []string
	for _, k := range sortedIKeys(m) {
		it = append(it, i64(k)+":"+joinInts(m[k]))
	}
	return sect(name, it)
}

// dumpSections returns the named sections in canonical order.
func dumpSections(s craft.VerifState) [][2]string {
	var out [][2]string
	add := func(name, text string) { out = append(out, [2]string{name, text}) }
	var it []string
	for _, k := range sortedKeys(s.Nodes) {
		n := s.Nodes[k]
		it = append(it, tok(k)+"~"+strings.Join([]string{tok(n.ID), tok(n.Name), tok(n.Role), tok(n.ClusterName),
			tok(n.Address), tok(n.APIAddress), tok(n.State), tok(n.Version), tok(n.WriterState), strconv.Itoa(n.CoreCount)}, "|"))
	}
	add("N", sect("N", it))
	add("PW", "PW="+tok(s.PW))
	add("AC", "AC="+tok(s.AC))
	it = nil
	for _, k := range sortedKeys(s.Files) {
		f := s.Files[k]
		it = append(it, tok(k)+"~"+strings.Join([]string{tok(f.Path), tok(f.SHA256), i64(f.SizeBytes), tok(f.Database),
			tok(f.Measurement), i64(f.PartitionTime.Unix()), tok(f.OriginNodeID), tok(f.Tier), i64(f.CreatedAt.Unix()), u64(f.LSN)}, "|"))
	}
	add("F", sect("F", it))
	it = nil
	for _, k := range sortedKeys(s.FilesByDB) {
		ps := append([]string(nil), s.FilesByDB[k]...)
		sort.Strings(ps)
		for i := range ps {
			ps[i] = tok(ps[i])
		}
		it = append(it, tok(k)+":"+strings.Join(ps, ","))
	}
	add("FDB", sect("FDB", it))
	it = nil
	for _, k := range sortedIKeys(s.Tokens) {
		t := s.Tokens[k]
		it = append(it, i64(k)+"~"+strings.Join([]string{i64(t.ID), tok(t.Name), tok(t.Description), tok(t.Permissions),
			tok(t.TokenHash), tok(t.TokenPrefix), i64(t.CreatedAtUnixNano), i64(t.ExpiresAtUnixNano), b01(t.Enabled), u64(t.LSN)}, "|"))
	}
	add("T", sect("T", it))
	it = nil
	for _, k := range sortedKeys(s.ByPrefix) {
		it = append(it, tok(k)+":"+joinInts(s.ByPrefix[k]))
	}
	add("TP", sect("TP", it))
	it = nil
	for _, k := range sortedKeys(s.ByName) {
		it = append(it, tok(k)+":"+i64(s.ByName[k]))
	}
	add("TN", sect("TN", it))
	it = nil
	for _, k := range sortedIKeys(s.Orgs) {
		e := s.Orgs[k]
		it = append(it, i64(k)+"~"+strings.Join([]string{i64(e.ID), tok(e.Name), tok(e.Description), i64(e.CreatedAtUnixNano),
			i64(e.UpdatedAtUnixNano), b01(e.Enabled), u64(e.LSN)}, "|"))
	}
	add("O", sect("O", it))
	it = nil
	for _, k := range sortedKeys(s.OrgsByName) {
		it = append(it, tok(k)+":"+i64(s.OrgsByName[k]))
	}
	add("ON", sect("ON", it))
	it = nil
	for _, k := range sortedIKeys(s.Teams) {
		e := s.Teams[k]
		it = append(it, i64(k)+"~"+strings.Join([]string{i64(e.ID), i64(e.OrganizationID), tok(e.Name), tok(e.Description),
			i64(e.CreatedAtUnixNano), i64(e.UpdatedAtUnixNano), b01(e.Enabled), u64(e.LSN)}, "|"))
	}
	add("TM", sect("TM", it))
	it = nil
	for _, k := range sortedIKeys(s.TeamsByOrg) {
		inner := s.TeamsByOrg[k]
		var ps []string
		for _, n := range sortedKeys(inner) {
			ps = append(ps, tok(n)+"="+i64(inner[n]))
		}
		it = append(it, i64(k)+":"+strings.Join(ps, ","))
	}
	add("TMO", sect("TMO", it))
	it = nil
	for _, k := range sortedIKeys(s.Roles) {
		e := s.Roles[k]
		it = append(it, i64(k)+"~"+strings.Join([]string{i64(e.ID), i64(e.TeamID), tok(e.DatabasePattern), tok(e.Permissions),
			i64(e.CreatedAtUnixNano), u64(e.LSN)}, "|"))
	}
	add("R", sect("R", it))
	add("RT", intSetSect("RT", s.RolesByTeam))
	it = nil
	for _, k := range sortedIKeys(s.MPerms) {
		e := s.MPerms[k]
		it = append(it, i64(k)+"~"+strings.Join([]string{i64(e.ID), i64(e.RoleID), tok(e.MeasurementPattern), tok(e.Permissions),
			i64(e.CreatedAtUnixNano), u64(e.LSN)}, "|"))
	}
	add("MP", sect("MP", it))
	add("MPR", intSetSect("MPR", s.MPermsByRole))
	it = nil
	for _, k := range sortedIKeys(s.Members) {
		e := s.Members[k]
		it = append(it, i64(k)+"~"+strings.Join([]string{i64(e.ID), i64(e.TokenID), i64(e.TeamID), i64(e.CreatedAtUnixNano), u64(e.LSN)}, "|"))
	}
	add("M", sect("M", it))
	it = nil
	for _, k := range sortedIKeys(s.MemByPair) {
		inner := s.MemByPair[k]
		var ps []string
		for _, t := range sortedIKeys(inner) {
			ps = append(ps, i64(t)+"="+i64(inner[t]))
		}
		it = append(it, i64(k)+":"+strings.Join(ps, ","))
	}
	add("MPAIR", sect("MPAIR", it))
	add("MTOK", intSetSect("MTOK", s.MemByToken))
	add("MTEAM", intSetSect("MTEAM", s.MemByTeam))
	return out
}

func dumpState(s craft.VerifState) string {
	secs := dumpSections(s)
	p := make([]string, len(secs))
	for i, x := range secs {
		p[i] = x[1]
	}
	d := strings.Join(p, " ")
	if s.NilEntries > 0 {
		d += " NIL=" + strconv.Itoa(s.NilEntries)
	}
	return d
}

// diffSections lists the names of the sections in which two states differ.
func diffSections(a, b craft.VerifState) []string {
	sa, sb := dumpSections(a), dumpSections(b)
	var out []string
	for i := range sa {
		if sa[i][1] != sb[i][1] {
			out = append(out, sa[i][0])
		}
	}
	return out
}

// ---------------------------------------------------------------- ops
type op struct {
	kind string // addnode, rmnode, … (first word of text)
	text string // op line after "ap <idx> "
	data func(idx uint64) []byte
	// expansion of a batch into single commands (for the sequential twin); nil for non-batch ops
	expand []op
	// fields used by monitors
	nodeID, wstate string
}

func cmdBytes(t craft.CommandType, payload any) []byte {
	pb, err := json.Marshal(payload)
	if err != nil {
		panic(err)
	}
	b, err := json.Marshal(craft.Command{Type: t, Payload: pb})
	if err != nil {
		panic(err)
	}
	return b
}
func rawCmd(t craft.CommandType, payload []byte) []byte {
	b, _ := json.Marshal(craft.Command{Type: t, Payload: payload})
	return b
}
func constData(b []byte) func(uint64) []byte { return func(uint64) []byte { return b } }

func nodeFields(n craft.NodeInfo) string {
	return strings.Join([]string{tok(n.ID), tok(n.Name), tok(n.Role), tok(n.ClusterName), tok(n.Address), tok(n.APIAddress),
		tok(n.State), tok(n.Version), tok(n.WriterState), strconv.Itoa(n.CoreCount)}, " ")
}
func opAddNode(n craft.NodeInfo) op {
	return op{kind: "addnode", text: "addnode " + nodeFields(n), data: constData(cmdBytes(craft.CommandAddNode, craft.AddNodePayload{Node: n})), nodeID: n.ID, wstate: n.WriterState}
}
func opUpdNode(n craft.NodeInfo) op {
	return op{kind: "updnode", text: "updnode " + nodeFields(n), data: constData(cmdBytes(craft.CommandUpdateNode, craft.UpdateNodePayload{Node: n})), nodeID: n.ID, wstate: n.WriterState}
}
func opRmNode(id string) op {
	return op{kind: "rmnode", text: "rmnode " + tok(id), data: constData(cmdBytes(craft.CommandRemoveNode, craft.RemoveNodePayload{NodeID: id})), nodeID: id}
}
func opNodeState(id, st string) op {
	return op{kind: "nodestate", text: "nodestate " + tok(id) + " " + tok(st), data: constData(cmdBytes(craft.CommandUpdateNodeState, craft.UpdateNodeStatePayload{NodeID: id, NewState: st})), nodeID: id}
}
func opPromote(id, old string) op {
	return op{kind: "promote", text: "promote " + tok(id) + " " + tok(old), data: constData(cmdBytes(craft.CommandPromoteWriter, craft.PromoteWriterPayload{NodeID: id, OldPrimaryID: old})), nodeID: id}
}
func opDemote(id string) op {
	return op{kind: "demote", text: "demote " + tok(id), data: constData(cmdBytes(craft.CommandDemoteWriter, craft.DemoteWriterPayload{NodeID: id})), nodeID: id}
}
func opCompactor(id, old string) op {
	return op{kind: "compactor", text: "compactor " + tok(id), data: constData(cmdBytes(craft.CommandAssignCompactor, craft.AssignCompactorPayload{NodeID: id, OldCompactorID: old})), nodeID: id}
}

type fileSpec struct {
	path, sha    string
	size         int64
	db, meas     string
	pt           int64
	origin, tier string
	ct           int64
	lsn          uint64
}

func (f fileSpec) entry() craft.FileEntry {
	return craft.FileEntry{Path: f.path, SHA256: f.sha, SizeBytes: f.size, Database: f.db, Measurement: f.meas,
		PartitionTime: mkTime(f.pt), OriginNodeID: f.origin, Tier: f.tier, CreatedAt: mkTime(f.ct), LSN: f.lsn}
}
func (f fileSpec) fields() string {
	return strings.Join([]string{tok(f.path), tok(f.sha), i64(f.size), tok(f.db), tok(f.meas), i64(f.pt), tok(f.origin), tok(f.tier), i64(f.ct), u64(f.lsn)}, " ")
}
func opRegFile(f fileSpec) op {
	return op{kind: "regfile", text: "regfile " + f.fields(), data: constData(cmdBytes(craft.CommandRegisterFile, craft.RegisterFilePayload{File: f.entry()}))}
}
func opUpdFile(f fileSpec) op {
	return op{kind: "updfile", text: "updfile " + f.fields(), data: constData(cmdBytes(craft.CommandUpdateFile, craft.UpdateFilePayload{File: f.entry()}))}
}
func opDelFile(path, reason string) op {
	return op{kind: "delfile", text: "delfile " + tok(path), data: constData(cmdBytes(craft.CommandDeleteFile, craft.DeleteFilePayload{Path: path, Reason: reason}))}
}

// batch items: 'r','u' (file), 'd' (path), 'x' (malformed payload of a register op), 't' (unsupported type)
type batchItem struct {
	k    byte
	f    fileSpec
	path string
}

func opBatch(items []batchItem) op {
	var ops []craft.BatchFileOp
	var texts []string
	var exp []op
	for _, it := range items {
		switch it.k {
		case 'r':
			pb, _ := json.Marshal(craft.RegisterFilePayload{File: it.f.entry()})
			ops = append(ops, craft.BatchFileOp{Type: craft.CommandRegisterFile, Payload: pb})
			texts = append(texts, "r "+it.f.fields())
			exp = append(exp, opRegFile(it.f))
		case 'u':
			pb, _ := json.Marshal(craft.UpdateFilePayload{File: it.f.entry()})
			ops = append(ops, craft.BatchFileOp{Type: craft.CommandUpdateFile, Payload: pb})
			texts = append(texts, "u "+it.f.fields())
			exp = append(exp, opUpdFile(it.f))
		case 'd':
			pb, _ := json.Marshal(craft.DeleteFilePayload{Path: it.path, Reason: "compaction"})
			ops = append(ops, craft.BatchFileOp{Type: craft.CommandDeleteFile, Payload: pb})
			texts = append(texts, "d "+tok(it.path))
			exp = append(exp, opDelFile(it.path, "compaction"))
		case 'x':
			ops = append(ops, craft.BatchFileOp{Type: craft.CommandRegisterFile, Payload: []byte(`{"file":17}`)})
			texts = append(texts, "x")
		case 't':
			ops = append(ops, craft.BatchFileOp{Type: craft.CommandAddNode, Payload: []byte(`{}`)})
			texts = append(texts, "t")
		}
	}
	t := "batch"
	if len(texts) > 0 {
		t += " " + strings.Join(texts, " ")
	}
	if exp == nil {
		exp = []op{}
	}
	return op{kind: "batch", text: t, data: constData(cmdBytes(craft.CommandBatchFileOps, craft.BatchFileOpsPayload{Ops: ops})), expand: exp}
}

func opMkToken(t craft.TokenEntry) op {
	txt := strings.Join([]string{"mktoken", i64(t.ID), tok(t.Name), tok(t.Description), tok(t.Permissions), tok(t.TokenHash), tok(t.TokenPrefix),
		i64(t.CreatedAtUnixNano), i64(t.ExpiresAtUnixNano), b01(t.Enabled), u64(t.LSN)}, " ")
	return op{kind: "mktoken", text: txt, data: constData(cmdBytes(craft.CommandCreateToken, craft.CreateTokenPayload{Token: t}))}
}
func toks(xs []string) string {
	if len(xs) == 0 {
		return ""
	}
	p := make([]string, len(xs))
	for i, x := range xs {
		p[i] = tok(x)
	}
	return " " + strings.Join(p, " ")
}
func opUpdToken(id int64, name, desc, perms string, exp int64, changed []string) op {
	txt := strings.Join([]string{"updtoken", i64(id), tok(name), tok(desc), tok(perms), i64(exp)}, " ") + toks(changed)
	return op{kind: "updtoken", text: txt, data: constData(cmdBytes(craft.CommandUpdateToken, craft.UpdateTokenPayload{ID: id, Name: name, Description: desc, Permissions: perms, ExpiresAtUnixNano: exp, ChangedFields: changed}))}
}
func opRevoke(id int64) op {
	return op{kind: "revoke", text: "revoke " + i64(id), data: constData(cmdBytes(craft.CommandRevokeToken, craft.RevokeTokenPayload{ID: id}))}
}
func opDelToken(id int64) op {
	return op{kind: "deltoken", text: "deltoken " + i64(id), data: constData(cmdBytes(craft.CommandDeleteToken, craft.DeleteTokenPayload{ID: id}))}
}
func opRotate(id int64, hash, pfx string) op {
	return op{kind: "rotate", text: "rotate " + i64(id) + " " + tok(hash) + " " + tok(pfx), data: constData(cmdBytes(craft.CommandRotateToken, craft.RotateTokenPayload{ID: id, NewHash: hash, NewPrefix: pfx}))}
}
func opMkOrg(e craft.OrganizationEntry) op {
	txt := strings.Join([]string{"mkorg", i64(e.ID), tok(e.Name), tok(e.Description), i64(e.CreatedAtUnixNano), i64(e.UpdatedAtUnixNano), b01(e.Enabled), u64(e.LSN)}, " ")
	return op{kind: "mkorg", text: txt, data: constData(cmdBytes(craft.CommandCreateOrganization, craft.CreateOrganizationPayload{Organization: e}))}
}
func opUpdOrg(id int64, name, desc string, en bool, upd int64, changed []string) op {
	txt := strings.Join([]string{"updorg", i64(id), tok(name), tok(desc), b01(en), i64(upd)}, " ") + toks(changed)
	return op{kind: "updorg", text: txt, data: constData(cmdBytes(craft.CommandUpdateOrganization, craft.UpdateOrganizationPayload{ID: id, Name: name, Description: desc, Enabled: en, UpdatedAtUnixNano: upd, ChangedFields: changed}))}
}
func opDelOrg(id int64) op {
	return op{kind: "delorg", text: "delorg " + i64(id), data: constData(cmdBytes(craft.CommandDeleteOrganization, craft.DeleteOrganizationPayload{ID: id}))}
}
func opMkTeam(e craft.TeamEntry) op {
	txt := strings.Join([]string{"mkteam", i64(e.ID), i64(e.OrganizationID), tok(e.Name), tok(e.Description), i64(e.CreatedAtUnixNano), i64(e.UpdatedAtUnixNano), b01(e.Enabled), u64(e.LSN)}, " ")
	return op{kind: "mkteam", text: txt, data: constData(cmdBytes(craft.CommandCreateTeam, craft.CreateTeamPayload{Team: e}))}
}
func opUpdTeam(id int64, name, desc string, en bool, upd int64, changed []string) op {
	txt := strings.Join([]string{"updteam", i64(id), tok(name), tok(desc), b01(en), i64(upd)}, " ") + toks(changed)
	return op{kind: "updteam", text: txt, data: constData(cmdBytes(craft.CommandUpdateTeam, craft.UpdateTeamPayload{ID: id, Name: name, Description: desc, Enabled: en, UpdatedAtUnixNano: upd, ChangedFields: changed}))}
}
func opDelTeam(id int64) op {
	return op{kind: "delteam", text: "delteam " + i64(id), data: constData(cmdBytes(craft.CommandDeleteTeam, craft.DeleteTeamPayload{ID: id}))}
}
func opMkRole(e craft.RoleEntry) op {
	txt := strings.Join([]string{"mkrole", i64(e.ID), i64(e.TeamID), tok(e.DatabasePattern), tok(e.Permissions), i64(e.CreatedAtUnixNano), u64(e.LSN)}, " ")
	return op{kind: "mkrole", text: txt, data: constData(cmdBytes(craft.CommandCreateRole, craft.CreateRolePayload{Role: e}))}
}
func opUpdRole(id int64, pattern, perms string, changed []string) op {
	txt := strings.Join([]string{"updrole", i64(id), tok(pattern), tok(perms)}, " ") + toks(changed)
	return op{kind: "updrole", text: txt, data: constData(cmdBytes(craft.CommandUpdateRole, craft.UpdateRolePayload{ID: id, DatabasePattern: pattern, Permissions: perms, ChangedFields: changed}))}
}
func opDelRole(id int64) op {
	return op{kind: "delrole", text: "delrole " + i64(id), data: constData(cmdBytes(craft.CommandDeleteRole, craft.DeleteRolePayload{ID: id}))}
}
func opMkMPerm(e craft.MeasurementPermissionEntry) op {
	txt := strings.Join([]string{"mkmperm", i64(e.ID), i64(e.RoleID), tok(e.MeasurementPattern), tok(e.Permissions), i64(e.CreatedAtUnixNano), u64(e.LSN)}, " ")
	return op{kind: "mkmperm", text: txt, data: constData(cmdBytes(craft.CommandCreateMeasurementPermission, craft.CreateMeasurementPermissionPayload{MeasurementPermission: e}))}
}
func opDelMPerm(id int64) op {
	return op{kind: "delmperm", text: "delmperm " + i64(id), data: constData(cmdBytes(craft.CommandDeleteMeasurementPermission, craft.DeleteMeasurementPermissionPayload{ID: id}))}
}
func opAddMem(e craft.TokenMembershipEntry) op {
	txt := strings.Join([]string{"addmem", i64(e.ID), i64(e.TokenID), i64(e.TeamID), i64(e.CreatedAtUnixNano), u64(e.LSN)}, " ")
	return op{kind: "addmem", text: txt, data: constData(cmdBytes(craft.CommandAddTokenToTeam, craft.AddTokenToTeamPayload{Membership: e}))}
}
func opRmMem(token, team int64) op {
	return op{kind: "rmmem", text: "rmmem " + i64(token) + " " + i64(team), data: constData(cmdBytes(craft.CommandRemoveTokenFromTeam, craft.RemoveTokenFromTeamPayload{TokenID: token, TeamID: team}))}
}
func opMalformed(t craft.CommandType) op {
	// a payload whose top-level field has the wrong JSON type for every payload struct
	return op{kind: "malformed", text: "malformed " + strconv.Itoa(int(t)), data: constData(rawCmd(t, []byte(`[1,2`)))}
}
func opGarbage() op {
	return op{kind: "garbage", text: "garbage", data: constData([]byte(`{"type":`))}
}
func opUnknown(t int) op {
	return op{kind: "unknown", text: "unknown " + strconv.Itoa(t), data: constData(rawCmd(craft.CommandType(t), []byte(`{}`)))}
}

// ---------------------------------------------------------------- real FSM plumbing
func newFSM() *craft.ClusterFSM { return craft.NewClusterFSM(zerolog.Nop()) }

func classify(res any) string {
	if res == nil {
		return "ok"
	}
	err, ok := res.(error)
	if !ok {
		return "nonerror:" + fmt.Sprint(res)
	}
	s := err.Error()
	switch {
	case strings.Contains(s, "unmarshal"):
		return "unmarshal"
	case strings.Contains(s, "unknown command type"):
		return "unknown"
	case strings.Contains(s, "not found"):
		return "notfound"
	case strings.Contains(s, "already exists"), strings.Contains(s, "already a member"):
		return "exists"
	}
	return "invalid"
}

// guardT runs f with panic recovery AND a watchdog: a panic inside Apply can leave the FSM mutex held,
// after which every later call on that FSM blocks forever. Result "panic:…" or "hang:…" means the FSM
// must not be touched again (see broken()).
func guardT(f func() string) string {
	ch := make(chan string, 1)
	go func() { ch <- vh.Guard(f) }()
	select {
	case r := <-ch:
		return r
	case <-time.After(5 * time.Second):
		return "hang:no answer within 5s (FSM lock held?)"
	}
}

func broken(res string) bool {
	return strings.HasPrefix(res, "panic:") || strings.HasPrefix(res, "hang:")
}

func applyOp(f *craft.ClusterFSM, idx uint64, o op) string {
	return guardT(func() string {
		return classify(f.Apply(&hraft.Log{Index: idx, Term: 1, Type: hraft.LogCommand, Data: o.data(idx)}))
	})
}

type memSink struct{ bytes.Buffer }

func (m *memSink) ID() string    { return "verif" }
func (m *memSink) Cancel() error { return nil }
func (m *memSink) Close() error  { return nil }

// snapRestore runs the real Snapshot → Persist → Restore into a fresh FSM.
func snapRestore(f *craft.ClusterFSM) (g *craft.ClusterFSM, errText string) {
	errText = guardT(func() string {
		snap, err := f.Snapshot()
		if err != nil {
			return "snapshot:" + err.Error()
		}
		sink := &memSink{}
		if err := snap.Persist(sink); err != nil {
			return "persist:" + err.Error()
		}
		snap.Release()
		g = newFSM()
		if err := g.Restore(io.NopCloser(bytes.NewReader(sink.Bytes()))); err != nil {
			return "restore:" + err.Error()
		}
		return ""
	})
	return
}

// ---------------------------------------------------------------- generator over the small universe
type gen struct {
	r       *vh.Rand
	scratch *craft.ClusterFSM // a real FSM the generator applies its own ops to, to learn which ids exist
	pending *[]int64          // id list that receives idx if the op just built succeeds
	weights map[string]int
	// ids of successfully created entities (log indexes of the create ops)
	tokens, orgs, teams, roles, mperms, members []int64
}

var (
	nodeIDs   = []string{"n1", "n2", "n3", "n4"}
	goodPaths = []string{"db1/m/2026/f1.parquet", "db1/m/f2.parquet", "db2/cpu/f3.parquet", "f4"}
	badPaths  = []string{"", "/etc/passwd", "s3://b/k", "db/../x", `C:\x`, "a\x00b", strings.Repeat("a", 4097), `db\..\y`, "file:/x"}
	oddPaths  = []string{"db1/m/..f", "a..b/c", strings.Repeat("a", 4096), "é/f", strings.Repeat("é", 2048), strings.Repeat("é", 2049), strings.Repeat("é", 4096)}
	dbs       = []string{"db1", "db2", "db1", "", "dbé"}
	permsU    = []string{"", "read", "read,write", " read , admin", "read,write,delete,admin", "root", "read,,write", "write\t"}
	tokNames  = []string{"tA", "tB", "tC"}
	orgNames  = []string{"acme", "globex"}
	teamNames = []string{"core", "ops"}
	patterns  = []string{"*", "prod", "metrics_*"}
)

func (g *gen) pickID(known []int64) int64 {
	r := g.r
	if len(known) > 0 && r.Chance(85) {
		return vh.Pick(r, known)
	}
	return vh.Pick(r, []int64{0, 999, -1, 1, 2})
}

func (g *gen) node(id string) craft.NodeInfo {
	r := g.r
	return craft.NodeInfo{ID: id, Name: "N" + id, Role: vh.Pick(r, []string{"writer", "writer", "writer", "reader", "compactor"}),
		ClusterName: "c", Address: id + ":7000", APIAddress: id + ":8000", State: vh.Pick(r, []string{"healthy", "unhealthy"}),
		Version: vh.Pick(r, []string{"v1", "v2"}), WriterState: vh.Pick(r, []string{"", "", "", "", "standby", "primary"}), CoreCount: vh.Pick(r, []int{2, 4})}
}
func (g *gen) nodeID() string {
	if g.r.Chance(4) {
		return ""
	}
	if g.r.Chance(3) {
		return "nœud"
	}
	return vh.Pick(g.r, nodeIDs)
}
func (g *gen) file() fileSpec {
	r := g.r
	p := vh.Pick(r, goodPaths)
	if r.Chance(10) {
		p = vh.Pick(r, badPaths)
	} else if r.Chance(5) {
		p = vh.Pick(r, oddPaths)
	}
	ct := vh.Pick(r, []int64{1700000100, 1700000200})
	if r.Chance(6) {
		ct = zeroSec
	}
	return fileSpec{path: p, sha: vh.Pick(r, []string{"s1", "s2"}), size: vh.Pick(r, []int64{1, 100}), db: vh.Pick(r, dbs),
		meas: vh.Pick(r, []string{"m", "cpu"}), pt: vh.Pick(r, []int64{zeroSec, 1700000000}), origin: vh.Pick(r, nodeIDs),
		tier: vh.Pick(r, []string{"hot", "cold"}), ct: ct, lsn: vh.Pick(r, []uint64{0, 0, 77})}
}
func (g *gen) changed(universe []string) []string {
	r := g.r
	n := r.Intn(4)
	var out []string
	for i := 0; i < n; i++ {
		out = append(out, vh.Pick(r, universe))
	}
	return out
}

// limitNames: strings around a byte limit, ASCII and multi-byte (bytes vs runes must not be confused)
func limitNames(maxLen int) []string {
	return []string{
		strings.Repeat("x", maxLen-1), strings.Repeat("x", maxLen), strings.Repeat("x", maxLen+1),
		strings.Repeat("é", maxLen/2),   // exactly maxLen bytes
		strings.Repeat("é", maxLen/2+1), // maxLen+2 bytes, far fewer runes
		strings.Repeat("é", maxLen*3/4), // ≤ maxLen runes, > maxLen bytes
		strings.Repeat("é", maxLen),     // exactly maxLen runes, 2·maxLen bytes
		strings.Repeat("€", maxLen/3), strings.Repeat("€", maxLen/3+1),
		strings.Repeat("😀", maxLen/4), strings.Repeat("😀", maxLen/4+1),
	}
}

func (g *gen) name(base []string, maxLen int) string {
	r := g.r
	switch {
	case r.Chance(6):
		return ""
	case r.Chance(10):
		return vh.Pick(r, limitNames(maxLen))
	case r.Chance(4):
		return vh.Pick(r, []string{"Zoë", "数据", "nœud"})
	}
	return vh.Pick(r, base)
}
func (g *gen) created() int64 {
	if g.r.Chance(5) {
		return 0
	}
	return vh.Pick(g.r, []int64{1000, 2000})
}

// next generates one op for log index idx, applies it to the generator's scratch FSM and remembers
// the id of a successful create, so that later ops mostly refer to entities that exist.
func (g *gen) next(idx uint64) op {
	if g.scratch == nil {
		g.scratch = newFSM()
	}
	g.pending = nil
	o := g.build(idx)
	r := applyOp(g.scratch, idx, o)
	if broken(r) {
		g.scratch = newFSM() // poisoned (lock may be held): start over, known ids become stale
	} else if r == "ok" && g.pending != nil {
		*g.pending = append(*g.pending, int64(idx))
	}
	return o
}

func (g *gen) build(idx uint64) op {
	r := g.r
	total := 0
	kinds := make([]string, 0, len(g.weights))
	for k := range g.weights {
		kinds = append(kinds, k)
	}
	sort.Strings(kinds)
	for _, k := range kinds {
		total += g.weights[k]
	}
	x := r.Intn(total)
	kind := ""
	for _, k := range kinds {
		if x < g.weights[k] {
			kind = k
			break
		}
		x -= g.weights[k]
	}
	switch kind {
	case "addnode":
		return opAddNode(g.node(g.nodeID()))
	case "updnode":
		return opUpdNode(g.node(g.nodeID()))
	case "rmnode":
		return opRmNode(g.nodeID())
	case "nodestate":
		return opNodeState(g.nodeID(), vh.Pick(r, []string{"healthy", "unhealthy", "dead"}))
	case "promote":
		return opPromote(g.nodeID(), vh.Pick(r, []string{"", "n1", "n2"}))
	case "demote":
		return opDemote(g.nodeID())
	case "compactor":
		return opCompactor(g.nodeID(), "")
	case "regfile":
		return opRegFile(g.file())
	case "updfile":
		return opUpdFile(g.file())
	case "delfile":
		p := vh.Pick(r, goodPaths)
		if r.Chance(8) {
			p = vh.Pick(r, badPaths)
		}
		return opDelFile(p, "retention")
	case "batch":
		n := r.Intn(5)
		var items []batchItem
		for i := 0; i < n; i++ {
			switch {
			case r.Chance(40):
				items = append(items, batchItem{k: 'r', f: g.file()})
			case r.Chance(40):
				items = append(items, batchItem{k: 'u', f: g.file()})
			case r.Chance(85):
				p := vh.Pick(r, goodPaths)
				if r.Chance(8) {
					p = ""
				}
				items = append(items, batchItem{k: 'd', path: p})
			case r.Bool():
				items = append(items, batchItem{k: 'x'})
			default:
				items = append(items, batchItem{k: 't'})
			}
		}
		return opBatch(items)
	case "mktoken":
		g.pending = &g.tokens
		hash := vh.Pick(r, []string{"h1", "h2"})
		if r.Chance(6) {
			hash = vh.Pick(r, append(limitNames(512), ""))
		}
		pfx := vh.Pick(r, []string{"p1", "p2"})
		if r.Chance(6) {
			pfx = vh.Pick(r, append(limitNames(256), ""))
		}
		return opMkToken(craft.TokenEntry{ID: vh.Pick(r, []int64{0, 0, 55}), Name: g.name(tokNames, 256), Description: vh.Pick(r, []string{"", "d"}),
			Permissions: vh.Pick(r, permsU), TokenHash: hash, TokenPrefix: pfx, CreatedAtUnixNano: g.created(),
			ExpiresAtUnixNano: vh.Pick(r, []int64{0, 5000}), Enabled: r.Bool(), LSN: vh.Pick(r, []uint64{0, 9})})
	case "updtoken":
		return opUpdToken(g.pickID(g.tokens), g.name(tokNames, 256), vh.Pick(r, []string{"", "d2"}), vh.Pick(r, permsU), vh.Pick(r, []int64{0, 7000}),
			g.changed([]string{"name", "description", "permissions", "expires_at", "bogus", "name"}))
	case "revoke":
		return opRevoke(g.pickID(g.tokens))
	case "deltoken":
		return opDelToken(g.pickID(g.tokens))
	case "rotate":
		hash := vh.Pick(r, []string{"h3", "h4"})
		if r.Chance(8) {
			hash = vh.Pick(r, append(limitNames(512), ""))
		}
		pfx := vh.Pick(r, []string{"p1", "p2", "p3"})
		if r.Chance(8) {
			pfx = vh.Pick(r, append(limitNames(256), ""))
		}
		return opRotate(g.pickID(g.tokens), hash, pfx)
	case "mkorg":
		g.pending = &g.orgs
		desc := vh.Pick(r, []string{"", "d"})
		if r.Chance(6) {
			desc = vh.Pick(r, limitNames(1024))
		}
		return opMkOrg(craft.OrganizationEntry{ID: vh.Pick(r, []int64{0, 44}), Name: g.name(orgNames, 256), Description: desc, CreatedAtUnixNano: g.created(),
			UpdatedAtUnixNano: vh.Pick(r, []int64{0, 0, 1500}), Enabled: r.Bool()})
	case "updorg":
		desc := vh.Pick(r, []string{"", "d2"})
		if r.Chance(6) {
			desc = vh.Pick(r, limitNames(1024))
		}
		return opUpdOrg(g.pickID(g.orgs), g.name(orgNames, 256), desc, r.Bool(), vh.Pick(r, []int64{0, 3000}),
			g.changed([]string{"name", "description", "enabled", "bogus", "name"}))
	case "delorg":
		return opDelOrg(g.pickID(g.orgs))
	case "mkteam":
		g.pending = &g.teams
		return opMkTeam(craft.TeamEntry{ID: 0, OrganizationID: g.pickID(g.orgs), Name: g.name(teamNames, 256), Description: vh.Pick(r, []string{"", "d"}),
			CreatedAtUnixNano: g.created(), UpdatedAtUnixNano: vh.Pick(r, []int64{0, 0, 1500}), Enabled: r.Bool()})
	case "updteam":
		return opUpdTeam(g.pickID(g.teams), g.name(teamNames, 256), vh.Pick(r, []string{"", "d2"}), r.Bool(), vh.Pick(r, []int64{0, 3000}),
			g.changed([]string{"name", "description", "enabled", "bogus", "name"}))
	case "delteam":
		return opDelTeam(g.pickID(g.teams))
	case "mkrole":
		g.pending = &g.roles
		return opMkRole(craft.RoleEntry{TeamID: g.pickID(g.teams), DatabasePattern: g.name(patterns, 256), Permissions: vh.Pick(r, permsU), CreatedAtUnixNano: g.created()})
	case "updrole":
		return opUpdRole(g.pickID(g.roles), g.name(patterns, 256), vh.Pick(r, permsU), g.changed([]string{"database_pattern", "permissions", "bogus"}))
	case "delrole":
		return opDelRole(g.pickID(g.roles))
	case "mkmperm":
		g.pending = &g.mperms
		return opMkMPerm(craft.MeasurementPermissionEntry{RoleID: g.pickID(g.roles), MeasurementPattern: g.name(patterns, 256), Permissions: vh.Pick(r, permsU), CreatedAtUnixNano: g.created()})
	case "delmperm":
		return opDelMPerm(g.pickID(g.mperms))
	case "addmem":
		g.pending = &g.members
		return opAddMem(craft.TokenMembershipEntry{TokenID: g.pickID(g.tokens), TeamID: g.pickID(g.teams), CreatedAtUnixNano: g.created()})
	case "rmmem":
		return opRmMem(g.pickID(g.tokens), g.pickID(g.teams))
	case "malformed":
		return opMalformed(craft.CommandType(1 + r.Intn(29)))
	case "garbage":
		return opGarbage()
	case "unknown":
		return opUnknown(vh.Pick(r, []int{0, 30, 99, 255}))
	}
	panic("unknown kind " + kind)
}

var allKinds = map[string]int{
	"addnode": 8, "updnode": 3, "rmnode": 3, "nodestate": 2, "promote": 7, "demote": 3, "compactor": 2,
	"regfile": 8, "updfile": 5, "delfile": 4, "batch": 5,
	"mktoken": 8, "updtoken": 5, "revoke": 2, "deltoken": 3, "rotate": 3,
	"mkorg": 5, "updorg": 3, "delorg": 2, "mkteam": 6, "updteam": 3, "delteam": 2,
	"mkrole": 5, "updrole": 2, "delrole": 2, "mkmperm": 4, "delmperm": 1, "addmem": 6, "rmmem": 2,
	"malformed": 1, "garbage": 1, "unknown": 1,
}

// ---------------------------------------------------------------- monitors on the real state

// recomputed indexes: what each secondary index must contain if it agrees with the primaries
func indexFindings(s craft.VerifState) map[string]string {
	out := map[string]string{}
	// filesByDB
	want := map[string]map[string]bool{}
	for p, e := range s.Files {
		if want[e.Database] == nil {
			want[e.Database] = map[string]bool{}
		}
		want[e.Database][p] = true
	}
	got := map[string]map[string]bool{}
	emptyInner := false
	for db, ps := range s.FilesByDB {
		got[db] = map[string]bool{}
		if len(ps) == 0 {
			emptyInner = true
		}
		for _, p := range ps {
			got[db][p] = true
		}
	}
	onlyEmptyDBMissing, other := false, false
	for db, ps := range want {
		for p := range ps {
			if !got[db][p] {
				if db == "" {
					onlyEmptyDBMissing = true
				} else {
					other = true
				}
			}
		}
	}
	for db, ps := range got {
		for p := range ps {
			if !want[db][p] {
				other = true
			}
		}
	}
	if other || emptyInner {
		out["index:filesByDB"] = "filesByDB disagrees with files (beyond the empty-database case)"
	} else if onlyEmptyDBMissing {
		out["index:filesByDB-empty-db"] = "a file whose database is \"\" is in files but not in filesByDB[\"\"] (applyUpdateFileStruct skips the index for an empty database; applyRegisterFileStruct and Restore do index it)"
	}
	// tokens
	wantN := map[string]int64{}
	wantP := map[string][]int64{}
	dupName := false
	for id, t := range s.Tokens {
		if _, ok := wantN[t.Name]; ok {
			dupName = true
		}
		wantN[t.Name] = id
		wantP[t.TokenPrefix] = append(wantP[t.TokenPrefix], id)
		if t.ID != id {
			out["index:token-key"] = fmt.Sprintf("tokens[%d].ID = %d", id, t.ID)
		}
	}
	if dupName || !eqStrInt(wantN, s.ByName) {
		out["index:tokensByName"] = "tokensByName disagrees with tokens"
	}
	if !eqStrInts(wantP, s.ByPrefix) {
		out["index:tokensByPrefix"] = "tokensByPrefix disagrees with tokens"
	}
	// orgs
	wantON := map[string]int64{}
	dup := false
	for id, e := range s.Orgs {
		if _, ok := wantON[e.Name]; ok {
			dup = true
		}
		wantON[e.Name] = id
	}
	if dup || !eqStrInt(wantON, s.OrgsByName) {
		out["index:organizationsByName"] = "organizationsByName disagrees with organizations"
	}
	// teamsByOrg
	wantTO := map[int64]map[string]int64{}
	dup = false
	for id, e := range s.Teams {
		if wantTO[e.OrganizationID] == nil {
			wantTO[e.OrganizationID] = map[string]int64{}
		}
		if _, ok := wantTO[e.OrganizationID][e.Name]; ok {
			dup = true
		}
		wantTO[e.OrganizationID][e.Name] = id
	}
	if dup || dumpNested(wantTO) != dumpNested(s.TeamsByOrg) {
		out["index:teamsByOrg"] = "teamsByOrg disagrees with teams"
	}
	wantRT := map[int64][]int64{}
	for id, e := range s.Roles {
		wantRT[e.TeamID] = append(wantRT[e.TeamID], id)
	}
	if intSetSect("x", wantRT) != intSetSect("x", s.RolesByTeam) {
		out["index:rolesByTeam"] = "rolesByTeam disagrees with roles"
	}
	wantMR := map[int64][]int64{}
	for id, e := range s.MPerms {
		wantMR[e.RoleID] = append(wantMR[e.RoleID], id)
	}
	if intSetSect("x", wantMR) != intSetSect("x", s.MPermsByRole) {
		out["index:measurementPermsByRole"] = "measurementPermsByRole disagrees with measurementPermissions"
	}
	wantPair := map[int64]map[int64]int64{}
	wantTok := map[int64][]int64{}
	wantTeam := map[int64][]int64{}
	dup = false
	for id, e := range s.Members {
		if wantPair[e.TokenID] == nil {
			wantPair[e.TokenID] = map[int64]int64{}
		}
		if _, ok := wantPair[e.TokenID][e.TeamID]; ok {
			dup = true
		}
		wantPair[e.TokenID][e.TeamID] = id
		wantTok[e.TokenID] = append(wantTok[e.TokenID], id)
		wantTeam[e.TeamID] = append(wantTeam[e.TeamID], id)
	}
	if dup || dumpNestedI(wantPair) != dumpNestedI(s.MemByPair) {
		out["index:tokenMembershipsByPair"] = "tokenMembershipsByPair disagrees with tokenMemberships"
	}
	if intSetSect("x", wantTok) != intSetSect("x", s.MemByToken) {
		out["index:tokenMembershipsByToken"] = "tokenMembershipsByToken disagrees with tokenMemberships"
	}
	if intSetSect("x", wantTeam) != intSetSect("x", s.MemByTeam) {
		out["index:tokenMembershipsByTeam"] = "tokenMembershipsByTeam disagrees with tokenMemberships"
	}
	return out
}

func eqStrInt(a, b map[string]int64) bool {
	if len(a) != len(b) {
		return false
	}
	for k, v := range a {
		if w, ok := b[k]; !ok || w != v {
			return false
		}
	}
	return true
}
func eqStrInts(a, b map[string][]int64) bool {
	if len(a) != len(b) {
		return false
	}
	for k, v := range a {
		w, ok := b[k]
		if !ok || joinInts(v) != joinInts(w) {
			return false
		}
	}
	return true
}
func dumpNested(m map[int64]map[string]int64) string {
	var it []string
	for _, k := range sortedIKeys(m) {
		var ps []string
		for _, n := range sortedKeys(m[k]) {
			ps = append(ps, tok(n)+"="+i64(m[k][n]))
		}
		it = append(it, i64(k)+":"+strings.Join(ps, ","))
	}
	return strings.Join(it, ";")
}
func dumpNestedI(m map[int64]map[int64]int64) string {
	var it []string
	for _, k := range sortedIKeys(m) {
		var ps []string
		for _, n := range sortedIKeys(m[k]) {
			ps = append(ps, i64(n)+"="+i64(m[k][n]))
		}
		it = append(it, i64(k)+":"+strings.Join(ps, ","))
	}
	return strings.Join(it, ";")
}

// tokenNameRestorable: validateTokenEntry's name clause (the only restore-time check that an
// apply-time mutation — applyUpdateToken with "name" in changed_fields — does not enforce).
func tokenNameRestorable(name string) bool { return name != "" && len(name) <= 256 }

// restoreFindings classifies the difference between a live state and restore(snapshot(live)).
func restoreFindings(live, restored craft.VerifState) map[string]string {
	out := map[string]string{}
	diff := diffSections(live, restored)
	if len(diff) == 0 {
		return out
	}
	explained := map[string]bool{}
	if _, q1 := indexFindings(live)["index:filesByDB-empty-db"]; q1 {
		out["restore:filesByDB-empty-db"] = "restore(snapshot s) ≠ s: Restore indexes files with database \"\" under filesByDB[\"\"], the live FSM (after UpdateFile) did not"
		explained["FDB"] = true
	}
	badTok := false
	for _, t := range live.Tokens {
		if !tokenNameRestorable(t.Name) {
			badTok = true
		}
	}
	if badTok {
		out["restore:token-name-unvalidated"] = "restore(snapshot s) ≠ s: a token renamed by UpdateToken to an empty/over-long name is accepted by apply but quarantined (dropped, with its memberships) by Restore's validateTokenEntry"
		for _, x := range []string{"T", "TP", "TN", "M", "MPAIR", "MTOK", "MTEAM"} {
			explained[x] = true
		}
	}
	var rest []string
	for _, d := range diff {
		if !explained[d] {
			rest = append(rest, d)
		}
	}
	if len(rest) > 0 {
		out["restore:other:"+strings.Join(rest, ",")] = "restore(snapshot s) ≠ s in sections " + strings.Join(rest, ",")
	}
	return out
}

// rbacOrphans: every team/role/measurement permission/membership refers to existing parents.
func rbacOrphans(s craft.VerifState) map[string]string {
	out := map[string]string{}
	for id, e := range s.Teams {
		if _, ok := s.Orgs[e.OrganizationID]; !ok {
			out["rbac-orphan:team"] = fmt.Sprintf("team %d refers to missing organization %d", id, e.OrganizationID)
		}
	}
	for id, e := range s.Roles {
		if _, ok := s.Teams[e.TeamID]; !ok {
			out["rbac-orphan:role"] = fmt.Sprintf("role %d refers to missing team %d", id, e.TeamID)
		}
	}
	for id, e := range s.MPerms {
		if _, ok := s.Roles[e.RoleID]; !ok {
			out["rbac-orphan:measurement-permission"] = fmt.Sprintf("measurement permission %d refers to missing role %d", id, e.RoleID)
		}
	}
	for id, e := range s.Members {
		if _, ok := s.Tokens[e.TokenID]; !ok {
			out["rbac-orphan:membership-token"] = fmt.Sprintf("membership %d refers to missing token %d", id, e.TokenID)
		}
		if _, ok := s.Teams[e.TeamID]; !ok {
			out["rbac-orphan:membership-team"] = fmt.Sprintf("membership %d refers to missing team %d", id, e.TeamID)
		}
	}
	return out
}

func primaries(s craft.VerifState) []string {
	var out []string
	for _, id := range sortedKeys(s.Nodes) {
		if s.Nodes[id].WriterState == "primary" {
			out = append(out, id)
		}
	}
	return out
}

// roleFindings checks the C23 role clauses on the transition before --o--> after.
func roleFindings(before, after craft.VerifState, o op, res string) map[string]string {
	out := map[string]string{}
	onePrimary := func(s craft.VerifState) bool { return len(primaries(s)) <= 1 }
	primaryExists := func(s craft.VerifState) bool {
		if s.PW == "" {
			return true
		}
		n, ok := s.Nodes[s.PW]
		return ok && n.WriterState == "primary"
	}
	if onePrimary(before) && !onePrimary(after) {
		cause := "other:" + o.kind
		if (o.kind == "addnode" || o.kind == "updnode") && o.wstate == "primary" {
			cause = "node-payload"
		}
		for _, id := range primaries(before) {
			if id != before.PW || before.PW == "" { // a mark that no promotion recorded: it came in with a node payload
				cause = "node-payload"
			}
		}
		out["one-primary:"+cause] = fmt.Sprintf("nodes marked primary after %s: %v", o.kind, primaries(after))
	}
	if primaryExists(before) && !primaryExists(after) {
		cause := "other:" + o.kind
		_, had := before.Nodes[o.nodeID]
		switch {
		case o.kind == "promote" && !had:
			cause = "promote-unknown"
		case o.kind == "rmnode" && o.nodeID == before.PW:
			cause = "remove-primary"
		case (o.kind == "addnode" || o.kind == "updnode") && o.nodeID == before.PW:
			cause = "record-replaced"
		}
		what := fmt.Sprintf("primaryWriterID=%q", after.PW)
		if n, ok := after.Nodes[after.PW]; !ok {
			what += " names a node that does not exist"
		} else {
			what += fmt.Sprintf(" names a node whose writer_state is %q", n.WriterState)
		}
		out["primary-exists:"+cause] = what + " after " + o.kind + " (result " + res + ")"
	}
	if o.kind == "addnode" {
		if old, ok := before.Nodes[o.nodeID]; ok {
			if nw, ok2 := after.Nodes[o.nodeID]; ok2 && nw.WriterState != old.WriterState {
				out["reregister:role-changed"] = fmt.Sprintf("AddNode of existing node %q changed its recorded writer_state %q → %q (primaryWriterID=%q)", o.nodeID, old.WriterState, nw.WriterState, after.PW)
			}
		}
	}
	return out
}

func failAll(c *vh.Ctx, fs map[string]string, replay string) {
	keys := make([]string, 0, len(fs))
	for k := range fs {
		keys = append(keys, k)
	}
	sort.Strings(keys)
	for _, k := range keys {
		c.Fail(k, fs[k], replay)
	}
}

// ---------------------------------------------------------------- case runner
type runCfg struct {
	c22, c23  bool  // which property's monitors run
	snapEvery bool  // snapshot-and-restore after every command (else only at the end)
	quiet     bool  // emit "aq" (result only) instead of "ap" (result + dump) for every command
	replayAt  []int // prefixes k at which a second run swaps to restore(snapshot) and continues
	gaps      []int // log index increments (cycled); nil = 1
	holdAt    []int // prefixes k after which Snapshot() is taken but Persist()ed only at the end of the history
}

type heldSnap struct {
	k            int
	snap         hraft.FSMSnapshot
	restoredThen craft.VerifState
	replay       string
}

type caseResult struct {
	final      craft.VerifState
	nontrivial bool
}

func (cfg runCfg) step(i int) uint64 {
	if len(cfg.gaps) == 0 {
		return 1
	}
	return uint64(cfg.gaps[i%len(cfg.gaps)])
}

// runCase drives the real FSM through ops, records op/impl lines and runs the monitors.
func runCase(c *vh.Ctx, ops []op, cfg runCfg) {
	var replay strings.Builder
	replay.WriteString("new")
	c.Op("new", "ok")
	main, peer, twin := newFSM(), newFSM(), newFSM()
	idx := uint64(0)
	idxs := make([]uint64, len(ops))
	nontrivial := false
	var canon strings.Builder
	st := main.VerifState()
	var holds []heldSnap
	for i, o := range ops {
		idx += cfg.step(i)
		idxs[i] = idx
		before := st
		res := applyOp(main, idx, o)
		line := fmt.Sprintf("%d %s", idx, o.text)
		fmt.Fprintf(&replay, "; ap %s", line)
		fmt.Fprintf(&canon, "%s;", line)
		if broken(res) {
			// the FSM may hold its lock now: record and abandon the case, never touch it again
			c.Op("aq "+line, res)
			c.Fail("apply-panic:"+o.kind, res, replay.String())
			c.Case(canon.String(), true)
			return
		}
		st = main.VerifState()
		if cfg.quiet {
			c.Op("aq "+line, res)
		} else {
			c.Op("ap "+line, res+" "+dumpState(st))
		}
		c.Tag(o.kind + ":" + res)
		if res != "ok" {
			nontrivial = true
		}
		if strings.HasPrefix(res, "panic:") || strings.HasPrefix(res, "nonerror:") {
			c.Fail("apply-panic:"+o.kind, res, replay.String())
		}
		if cfg.c22 {
			// determinism: a second node applying the same log ends in the same state
			resP := applyOp(peer, idx, o)
			if broken(resP) {
				c.Fail("apply-panic:"+o.kind, resP, replay.String())
				c.Case(canon.String(), true)
				return
			}
			if resP != res || dumpState(peer.VerifState()) != dumpState(st) {
				c.Fail("determinism:peer-differs:"+o.kind, "two FSMs applying the same committed log disagree", replay.String())
			}
			// batch all-or-nothing: error ⇒ no effect; success ⇒ same as the single commands in order
			if o.expand != nil {
				if res != "ok" {
					if dumpState(before) != dumpState(st) {
						c.Fail("batch:partial", "a refused batch ("+res+") left side effects in the FSM", replay.String())
					}
				} else {
					for _, e := range o.expand {
						r := applyOp(twin, idx, e)
						if broken(r) {
							c.Fail("apply-panic:"+e.kind, r, replay.String())
							c.Case(canon.String(), true)
							return
						}
						if r != "ok" {
							c.Fail("batch:not-sequential", "batch succeeded but its op "+e.text+" applied alone returns "+r, replay.String())
						}
					}
				}
			} else {
				if r := applyOp(twin, idx, o); broken(r) {
					c.Fail("apply-panic:"+o.kind, r, replay.String())
					c.Case(canon.String(), true)
					return
				}
			}
			if dumpState(twin.VerifState()) != dumpState(st) {
				c.Fail("batch:not-sequential", "state after batches differs from applying their ops one by one", replay.String())
			}
		}
		// all ten secondary indexes recomputed from the primary records, and RBAC parent existence,
		// after every command (both properties rely on them)
		failAll(c, indexFindings(st), replay.String())
		failAll(c, rbacOrphans(st), replay.String())
		if cfg.c23 {
			failAll(c, roleFindings(before, st, o, res), replay.String())
		}
		if cfg.snapEvery || i == len(ops)-1 {
			g, e := snapRestore(main)
			if e != "" {
				c.Op("snap", "error:"+e)
				c.Fail("restore:error", e, replay.String())
				continue
			}
			rs := g.VerifState()
			c.Op("snap", dumpState(rs))
			if cfg.c22 {
				failAll(c, restoreFindings(st, rs), replay.String()+"; snap")
			}
			if cfg.c23 {
				// the role clauses are state invariants: they must survive a restore unchanged
				if dumpSections(rs)[0] != dumpSections(st)[0] || rs.PW != st.PW {
					c.Fail("restore:nodes-differ", "nodes/primaryWriterID changed across snapshot+restore", replay.String()+"; snap")
				}
			}
			failAll(c, rbacOrphans(rs), replay.String()+"; snap")
			failAll(c, indexFindings(rs), replay.String()+"; snap")
		}
		for _, k := range cfg.holdAt {
			if k == i+1 && i != len(ops)-1 {
				sn, err := main.Snapshot()
				g, e := snapRestore(main) // reference: the same state persisted at once
				if err != nil || e != "" {
					continue
				}
				c.Op(fmt.Sprintf("hold %d", k), "ok")
				holds = append(holds, heldSnap{k: k, snap: sn, restoredThen: g.VerifState(), replay: replay.String()})
			}
		}
	}
	finalDump := dumpState(st)
	if cfg.quiet {
		c.Op("dump", finalDump)
	}
	// snapshots taken earlier are persisted only now (hashicorp/raft runs Persist on another goroutine
	// while Apply continues): what they restore to must be the state at the time of Snapshot()
	for _, hd := range holds {
		var restored *craft.ClusterFSM
		e := vh.Guard(func() string {
			sink := &memSink{}
			if err := hd.snap.Persist(sink); err != nil {
				return "persist:" + err.Error()
			}
			hd.snap.Release()
			restored = newFSM()
			if err := restored.Restore(io.NopCloser(bytes.NewReader(sink.Bytes()))); err != nil {
				return "restore:" + err.Error()
			}
			return ""
		})
		if e != "" {
			c.Op(fmt.Sprintf("held %d", hd.k), "error:"+e)
			c.Fail("restore:error", e, hd.replay+"; …; held")
			continue
		}
		rs := restored.VerifState()
		c.Op(fmt.Sprintf("held %d", hd.k), dumpState(rs))
		if d := diffSections(hd.restoredThen, rs); len(d) > 0 {
			c.Fail("snapshot-not-isolated:"+strings.Join(d, ","),
				fmt.Sprintf("a snapshot taken after %d commands but persisted after %d commands restores to a different state than the same snapshot persisted at once (sections %v): commands applied after Snapshot() leaked into it", hd.k, len(ops), d),
				replay.String()+fmt.Sprintf("; [Snapshot() was taken after command %d, Persist() after the last]", hd.k))
		}
	}
	// replay from a snapshot taken after prefix k must end in the same state as replay from empty
	for _, k := range cfg.replayAt {
		if k < 0 || k > len(ops) {
			continue
		}
		var rp strings.Builder
		rp.WriteString("new")
		c.Op("new", "ok")
		f := newFSM()
		dead := false
		for i := 0; i < k; i++ {
			r := applyOp(f, idxs[i], ops[i])
			c.Op(fmt.Sprintf("aq %d %s", idxs[i], ops[i].text), r)
			fmt.Fprintf(&rp, "; ap %d %s", idxs[i], ops[i].text)
			if broken(r) {
				c.Fail("apply-panic:"+ops[i].kind, r, rp.String())
				dead = true
				break
			}
		}
		if dead {
			continue
		}
		liveK := f.VerifState()
		g, e := snapRestore(f)
		if e != "" {
			c.Op("swap", "error:"+e)
			c.Fail("restore:error", e, rp.String())
			continue
		}
		restK := g.VerifState()
		c.Op("swap", dumpState(restK))
		rp.WriteString("; swap")
		for i := k; i < len(ops); i++ {
			r := applyOp(g, idxs[i], ops[i])
			c.Op(fmt.Sprintf("aq %d %s", idxs[i], ops[i].text), r)
			fmt.Fprintf(&rp, "; ap %d %s", idxs[i], ops[i].text)
			if broken(r) {
				// the replica that restored the snapshot cannot apply a command the never-restored
				// replica applied: divergence (and the FSM may hold its lock — abandon it)
				key := "restored-replica-diverges:apply-panics-after-restore"
				if em := emptyComponents(liveK); len(em) > 0 {
					key += "-of-empty-component"
					r += " [empty at snapshot time: " + strings.Join(em, ",") + "]"
				}
				c.Fail(key, fmt.Sprintf("after restoring a snapshot taken after %d commands, applying %q: %s", k, ops[i].text, r), rp.String())
				dead = true
				break
			}
		}
		if dead {
			continue
		}
		fd := dumpState(g.VerifState())
		c.Op("dump", fd)
		if cfg.c22 && fd != finalDump {
			causes := restoreFindings(liveK, restK)
			var cs []string
			for k := range causes {
				cs = append(cs, strings.TrimPrefix(k, "restore:"))
			}
			sort.Strings(cs)
			if len(cs) == 0 {
				cs = []string{"unexplained"}
			}
			for _, cause := range cs {
				c.Fail("replay-diverges:"+cause,
					fmt.Sprintf("replaying the log from a snapshot taken after %d commands ends in a different state than replaying it from empty (sections %v)", k, diffSections(st, g.VerifState())),
					rp.String())
			}
		}
	}
	c.Case(canon.String(), nontrivial)
}

// ---------------------------------------------------------------- RBAC membership scenarios (shared)
func mOrg(n string) op { return opMkOrg(craft.OrganizationEntry{Name: n, CreatedAtUnixNano: 5}) }
func mTeam(o int64, n string) op {
	return opMkTeam(craft.TeamEntry{OrganizationID: o, Name: n, CreatedAtUnixNano: 5})
}
func mRole(t int64) op {
	return opMkRole(craft.RoleEntry{TeamID: t, DatabasePattern: "*", Permissions: "read", CreatedAtUnixNano: 5})
}
func mTok(n, pfx string) op {
	return opMkToken(craft.TokenEntry{Name: n, TokenHash: "h", TokenPrefix: pfx, CreatedAtUnixNano: 5})
}
func mMem(t, tm int64) op {
	return opAddMem(craft.TokenMembershipEntry{TokenID: t, TeamID: tm, CreatedAtUnixNano: 5})
}

// membershipDirected: tokens in several teams, teams with several tokens, partial removals followed by
// team / organization / token cascades, duplicate adds and removes afterwards.
// ids = log indexes: orgs 1,2; teams 3 (org1 "core"), 4 (org1 "ops"), 5 (org2 "core"); tokens 6,7,8;
// memberships 9:(6,3) 10:(6,4) 11:(6,5) 12:(7,3) 13:(8,3) 14:(8,4)
func membershipDirected() [][]op {
	base := []op{mOrg("acme"), mOrg("globex"), mTeam(1, "core"), mTeam(1, "ops"), mTeam(2, "core"),
		mTok("tA", "p1"), mTok("tB", "p1"), mTok("tC", "p2"),
		mMem(6, 3), mMem(6, 4), mMem(6, 5), mMem(7, 3), mMem(8, 3), mMem(8, 4)}
	tails := [][]op{
		// delete ONE of a token's teams, then probe the pair index: duplicate add, remove, re-add
		{opDelTeam(3), mMem(6, 4), opRmMem(6, 4), mMem(6, 4), opRmMem(6, 5), opDelTeam(4), opDelTeam(5)},
		{opDelTeam(4), mMem(6, 3), mMem(8, 3), opRmMem(8, 3), opRmMem(8, 3), opDelOrg(1), mMem(6, 5), opDelOrg(2)},
		// delete ONE of the organizations that own a token's teams
		{opDelOrg(2), mMem(6, 3), opRmMem(6, 4), opDelOrg(1)},
		{opDelOrg(1), mMem(6, 5), opRmMem(6, 5), mMem(6, 5), opDelToken(6), opDelOrg(2)},
		// remove the token whose ONLY membership is the team, then cascade the team / its org
		{opRmMem(7, 3), opDelTeam(3), opDelTeam(4)},
		{opRmMem(7, 3), opDelOrg(1), opDelOrg(2)},
		{opRmMem(8, 4), opRmMem(6, 4), opDelTeam(4), opRmMem(8, 3), opRmMem(7, 3), opDelTeam(3), opDelTeam(5)},
		// token cascades with the token in several teams, then team cascades over what is left
		{opDelToken(6), opDelTeam(3), mMem(8, 4), opDelToken(8), opDelTeam(4)},
		{opDelToken(7), opRmMem(6, 3), opRmMem(8, 3), opDelTeam(3), mTeam(1, "core"), mMem(6, 15), opDelOrg(1)},
	}
	var out [][]op
	for _, t := range tails {
		out = append(out, append(append([]op(nil), base...), t...))
	}
	return out
}

// membership alphabet over the fixed prefix org 1, teams 2 ("core"), 3 ("ops"), tokens 4, 5
func membershipPrefix() []op {
	return []op{mOrg("acme"), mTeam(1, "core"), mTeam(1, "ops"), mTok("tA", "p1"), mTok("tB", "p1")}
}
func membershipAlphabet() []op {
	return []op{mMem(4, 2), mMem(4, 3), mMem(5, 2), mMem(5, 3), opRmMem(4, 2), opRmMem(5, 2), opRmMem(4, 3),
		opDelTeam(2), opDelTeam(3), opDelToken(4), opDelOrg(1)}
}

// enumerateOps runs prefix ++ w for every word w of exactly n letters.
func enumerateOps(c *vh.Ctx, prefix, alpha []op, n int, cfg runCfg) int {
	count := 0
	seq := make([]int, n)
	var rec func(d int)
	rec = func(d int) {
		if d == n {
			ops := append([]op(nil), prefix...)
			for _, li := range seq {
				ops = append(ops, alpha[li])
			}
			runCase(c, ops, cfg)
			count++
			return
		}
		for i := range alpha {
			seq[d] = i
			rec(d + 1)
		}
	}
	rec(0)
	return count
}

// membershipKinds: random histories dominated by membership traffic over few teams and tokens
var membershipKinds = map[string]int{
	"mkorg": 4, "mkteam": 10, "mktoken": 8, "addmem": 30, "rmmem": 10, "delteam": 7, "delorg": 3, "deltoken": 4,
	"updteam": 2, "mkrole": 3, "mkmperm": 2, "delrole": 1, "rotate": 1, "updtoken": 1,
}

// limitDirected: every named entity at every validator limit (bytes vs runes), on the create AND the
// update path; each history is snapshot-and-restored after every command by the caller.
func limitDirected() [][]op {
	var out [][]op
	tokE := func(n, h, p string) op {
		return opMkToken(craft.TokenEntry{Name: n, Permissions: "read", TokenHash: h, TokenPrefix: p, CreatedAtUnixNano: 5})
	}
	for _, L := range limitNames(256) {
		out = append(out, []op{
			opMkOrg(craft.OrganizationEntry{Name: L, CreatedAtUnixNano: 5}),
			mOrg("acme"), opUpdOrg(2, L, "", true, 0, []string{"name"}),
			opMkTeam(craft.TeamEntry{OrganizationID: 2, Name: L, CreatedAtUnixNano: 5}),
			mTeam(2, "core"), opUpdTeam(5, L, "", true, 0, []string{"name"}),
			opMkRole(craft.RoleEntry{TeamID: 5, DatabasePattern: L, Permissions: "read", CreatedAtUnixNano: 5}),
			mRole(5), opUpdRole(8, L, "", []string{"database_pattern"}),
			opMkMPerm(craft.MeasurementPermissionEntry{RoleID: 8, MeasurementPattern: L, Permissions: "read", CreatedAtUnixNano: 5}),
			tokE(L, "h", "p"), tokE("tA", "h", "p"), opUpdToken(12, L, "", "", 0, []string{"name"}),
			tokE("tB", "h", L), opRotate(12, "h2", L),
			mRole(5), mMem(12, 5),
		})
	}
	for _, L := range limitNames(1024) {
		out = append(out, []op{
			opMkOrg(craft.OrganizationEntry{Name: "o1", Description: L, CreatedAtUnixNano: 5}),
			mOrg("acme"), opUpdOrg(2, "", L, true, 0, []string{"description"}),
			opMkTeam(craft.TeamEntry{OrganizationID: 2, Name: "t1", Description: L, CreatedAtUnixNano: 5}),
			mTeam(2, "core"), opUpdTeam(5, "", L, true, 0, []string{"description"}),
		})
	}
	for _, L := range limitNames(512) {
		out = append(out, []op{tokE("tA", L, "p"), tokE("tB", "h", "p"), opRotate(2, L, "q")})
	}
	for _, L := range limitNames(4096) {
		f := fileSpec{path: L, sha: "s", size: 1, db: "dbé", meas: "m", pt: 1700000000, origin: "nœud", tier: "hot", ct: 1700000100}
		out = append(out, []op{opRegFile(f), opUpdFile(f), opBatch([]batchItem{{k: 'r', f: f}}), opDelFile(L, "x"),
			opAddNode(craft.NodeInfo{ID: "nœud", Name: "Nœ", Role: "writer", State: "healthy"}), opPromote("nœud", "")})
	}
	return out
}

// emptyComponents names the map-typed primary fields that are empty in a state.
func emptyComponents(s craft.VerifState) []string {
	var out []string
	add := func(n string, l int) {
		if l == 0 {
			out = append(out, n)
		}
	}
	add("nodes", len(s.Nodes))
	add("files", len(s.Files))
	add("tokens", len(s.Tokens))
	add("organizations", len(s.Orgs))
	add("teams", len(s.Teams))
	add("roles", len(s.Roles))
	add("measurementPermissions", len(s.MPerms))
	add("tokenMemberships", len(s.Members))
	return out
}

type replayCase struct {
	ops []op
	at  []int // prefixes at which a replica restores a snapshot and continues
}

// emptyComponentDirected: snapshots taken while a map-typed component is empty (empty prefix, or
// add-then-remove-all), restored, and then further commands that touch that component; the restored
// replica must behave like the never-restored one.
func emptyComponentDirected() []replayCase {
	n1 := craft.NodeInfo{ID: "n1", Name: "N1", Role: "writer", State: "healthy"}
	n2 := craft.NodeInfo{ID: "n2", Name: "N2", Role: "writer", State: "healthy"}
	fa := fileSpec{path: "db1/m/fa.parquet", sha: "s", size: 1, db: "db1", meas: "m", pt: 1700000000, origin: "n1", tier: "hot", ct: 1700000100}
	fb := fileSpec{path: "db2/m/fb.parquet", sha: "s", size: 1, db: "", meas: "m", pt: 1700000000, origin: "n1", tier: "hot", ct: 1700000100}
	every := []op{opAddNode(n1), opUpdNode(n2), opPromote("n1", ""), opNodeState("n2", "unhealthy"), opCompactor("n1", ""),
		opRegFile(fa), opUpdFile(fb), opBatch([]batchItem{{k: 'r', f: fa}, {k: 'd', path: fb.path}}),
		mTok("tA", "p1"), mOrg("acme"), mTeam(10, "core"), mRole(11), opMkMPerm(craft.MeasurementPermissionEntry{RoleID: 12, MeasurementPattern: "cpu", Permissions: "read", CreatedAtUnixNano: 5}), mMem(9, 11)}
	cases := []replayCase{
		// the empty prefix: every component empty, then every component touched
		{ops: every, at: []int{0}},
		// nodes: add, remove all, snapshot, add/update/promote again
		{ops: []op{opAddNode(n1), opAddNode(n2), opRmNode("n1"), opRmNode("n2"), opAddNode(n1), opUpdNode(n2), opPromote("n1", ""), opDemote("n1"), opNodeState("n2", "dead")}, at: []int{4}},
		{ops: []op{opRegFile(fa), opCompactor("n9", ""), opUpdNode(n1), opPromote("n1", "")}, at: []int{1, 2}},
		// files
		{ops: []op{opRegFile(fa), opUpdFile(fb), opDelFile(fa.path, "x"), opDelFile(fb.path, "x"), opUpdFile(fa), opRegFile(fb), opBatch([]batchItem{{k: 'd', path: fa.path}, {k: 'r', f: fa}})}, at: []int{4}},
		// tokens
		{ops: []op{mTok("tA", "p1"), mTok("tB", "p1"), opDelToken(1), opDelToken(2), mTok("tA", "p1"), opRotate(5, "h2", "p2"), opUpdToken(5, "tC", "", "", 0, []string{"name"}), opRevoke(5)}, at: []int{4}},
		// the whole RBAC hierarchy emptied by one cascade (and the token deleted), then rebuilt
		{ops: []op{mOrg("acme"), mTeam(1, "core"), mRole(2), opMkMPerm(craft.MeasurementPermissionEntry{RoleID: 3, MeasurementPattern: "cpu", Permissions: "read", CreatedAtUnixNano: 5}),
			mTok("tA", "p1"), mMem(5, 2), opDelOrg(1), opDelToken(5),
			mOrg("acme"), mTeam(9, "core"), mRole(10), opMkMPerm(craft.MeasurementPermissionEntry{RoleID: 11, MeasurementPattern: "cpu", Permissions: "read", CreatedAtUnixNano: 5}),
			mTok("tA", "p1"), mMem(13, 10), opUpdOrg(9, "globex", "", true, 0, []string{"name"}), opUpdTeam(10, "ops", "", true, 0, []string{"name"}), opDelTeam(10)}, at: []int{7, 8, 9}},
		// partially empty: teams gone but org stays; memberships gone but token stays
		{ops: []op{mOrg("acme"), mTeam(1, "core"), mTok("tA", "p1"), mMem(3, 2), opRmMem(3, 2), opDelTeam(2), mTeam(1, "core"), mMem(3, 7), mRole(7)}, at: []int{5, 6}},
	}
	return cases
}
