//go:build verif

// C22 correspondence harness: replay determinism, snapshot fidelity, batch atomicity and index
// agreement of the real ClusterFSM, diffed line by line against the Lean model (drive_c22).
package main

import (
	"strings"

	craft "github.com/basekick-labs/arc/internal/cluster/raft"
	"github.com/basekick-labs/arc/internal/verif/vh"
)

func f1(db string) fileSpec {
	return fileSpec{path: "db1/m/f1.parquet", sha: "s1", size: 1, db: db, meas: "m", pt: 1700000000, origin: "n1", tier: "hot", ct: 1700000100}
}
func f2(db string) fileSpec {
	return fileSpec{path: "db1/m/f2.parquet", sha: "s2", size: 100, db: db, meas: "m", pt: zeroSec, origin: "n2", tier: "cold", ct: 1700000200}
}
func tokenE(name, pfx string) craft.TokenEntry {
	return craft.TokenEntry{Name: name, Permissions: "read,write", TokenHash: "h1", TokenPrefix: pfx, CreatedAtUnixNano: 1000}
}

// exhaustive alphabet: each letter builds an op from the ids created so far in the sequence
type exhCtx struct{ tok, org, team, role int64 }
type letter struct {
	name string
	mk   func(x *exhCtx, idx int64) op
	made func(x *exhCtx, idx int64) // called when the op returned ok
}

func c22Alphabet() []letter {
	bad := f2("db1")
	bad.path = "s3://b/k"
	return []letter{
		{"reg-f1-db1", func(x *exhCtx, i int64) op { return opRegFile(f1("db1")) }, nil},
		{"reg-f1-nodb", func(x *exhCtx, i int64) op { return opRegFile(f1("")) }, nil},
		{"upd-f1-nodb", func(x *exhCtx, i int64) op { return opUpdFile(f1("")) }, nil},
		{"upd-f1-db2", func(x *exhCtx, i int64) op { return opUpdFile(f1("db2")) }, nil},
		{"del-f1", func(x *exhCtx, i int64) op { return opDelFile("db1/m/f1.parquet", "manual") }, nil},
		{"batch-ok", func(x *exhCtx, i int64) op {
			return opBatch([]batchItem{{k: 'r', f: f2("db1")}, {k: 'd', path: "db1/m/f1.parquet"}, {k: 'u', f: f2("")}})
		}, nil},
		{"batch-bad", func(x *exhCtx, i int64) op {
			return opBatch([]batchItem{{k: 'r', f: f2("db2")}, {k: 'd', path: "db1/m/f1.parquet"}, {k: 'u', f: bad}})
		}, nil},
		{"mktoken-A", func(x *exhCtx, i int64) op { return opMkToken(tokenE("tA", "p1")) }, func(x *exhCtx, i int64) { x.tok = i }},
		{"mktoken-B", func(x *exhCtx, i int64) op { return opMkToken(tokenE("tB", "p1")) }, func(x *exhCtx, i int64) { x.tok = i }},
		{"rename-empty", func(x *exhCtx, i int64) op { return opUpdToken(x.tok, "", "", "", 0, []string{"name"}) }, nil},
		{"rename-B", func(x *exhCtx, i int64) op { return opUpdToken(x.tok, "tB", "", "", 0, []string{"name"}) }, nil},
		{"rotate-p2", func(x *exhCtx, i int64) op { return opRotate(x.tok, "h9", "p2") }, nil},
		{"deltoken", func(x *exhCtx, i int64) op { return opDelToken(x.tok) }, nil},
		{"mkorg", func(x *exhCtx, i int64) op {
			return opMkOrg(craft.OrganizationEntry{Name: "acme", CreatedAtUnixNano: 1000})
		}, func(x *exhCtx, i int64) { x.org = i }},
		{"mkteam", func(x *exhCtx, i int64) op {
			return opMkTeam(craft.TeamEntry{OrganizationID: x.org, Name: "core", CreatedAtUnixNano: 1000})
		}, func(x *exhCtx, i int64) { x.team = i }},
		{"addmem", func(x *exhCtx, i int64) op {
			return opAddMem(craft.TokenMembershipEntry{TokenID: x.tok, TeamID: x.team, CreatedAtUnixNano: 1000})
		}, nil},
		{"delorg", func(x *exhCtx, i int64) op { return opDelOrg(x.org) }, nil},
	}
}

// enumerate all sequences of exactly n letters; ids are resolved while the sequence runs, so the
// ops are built against a scratch FSM first.
func enumerate(c *vh.Ctx, alpha []letter, n int, cfg runCfg) int {
	count := 0
	seq := make([]int, n)
	var rec func(d int)
	rec = func(d int) {
		if d == n {
			x := &exhCtx{}
			scratch := newFSM()
			ops := make([]op, n)
			for i, li := range seq {
				idx := int64(i + 1)
				ops[i] = alpha[li].mk(x, idx)
				if applyOp(scratch, uint64(idx), ops[i]) == "ok" && alpha[li].made != nil {
					alpha[li].made(x, idx)
				}
			}
			runCase(c, ops, cfg)
			count++
			return
		}
		for i := range alpha {
			seq[d] = i
			rec(d + 1)
		}
	}
	rec(0)
	return count
}

func main() {
	c := vh.Start()
	r := vh.NewRand(c.Seed)
	full := runCfg{c22: true, snapEvery: true}

	// (1) directed cases: the candidate defects of DESIGN.md §7 C22 and edge shapes
	directed := [][]op{
		{opUpdFile(f1("")), opRegFile(f2(""))},
		{opRegFile(f1("db1")), opUpdFile(f1("")), opDelFile("db1/m/f1.parquet", "x")},
		{opRegFile(f1("")), opUpdFile(f1("")), opUpdFile(f1("db2")), opRegFile(f1("db1"))},
		{opMkToken(tokenE("tA", "p1")), opUpdToken(1, "", "", "", 0, []string{"name"}), opMkToken(tokenE("tB", "p1"))},
		{opMkToken(tokenE("tA", "p1")), opMkToken(tokenE("tB", "p1")), opRotate(1, "h2", "p2"), opRotate(2, "h2", "p2"), opRotate(1, "h3", "p1"), opDelToken(2)},
		{opMkToken(tokenE("tA", "p1")), opUpdToken(1, strings.Repeat("n", 257), "", "", 0, []string{"name", "name"}),
			opMkOrg(craft.OrganizationEntry{Name: "acme", CreatedAtUnixNano: 5}), opMkTeam(craft.TeamEntry{OrganizationID: 3, Name: "core", CreatedAtUnixNano: 5}),
			opAddMem(craft.TokenMembershipEntry{TokenID: 1, TeamID: 4, CreatedAtUnixNano: 5})},
		{opBatch(nil), opBatch([]batchItem{{k: 'r', f: f1("db1")}, {k: 'x'}}), opBatch([]batchItem{{k: 'r', f: f1("db1")}, {k: 't'}}),
			opBatch([]batchItem{{k: 'r', f: f1("db1")}, {k: 'd', path: ""}}), opBatch([]batchItem{{k: 'r', f: f1("db1")}, {k: 'r', f: f1("db2")}, {k: 'd', path: "db1/m/f1.parquet"}, {k: 'r', f: f1("")}})},
		{opMkOrg(craft.OrganizationEntry{Name: "acme", CreatedAtUnixNano: 5}), opMkTeam(craft.TeamEntry{OrganizationID: 1, Name: "core", CreatedAtUnixNano: 5}),
			opMkRole(craft.RoleEntry{TeamID: 2, DatabasePattern: "*", Permissions: "read", CreatedAtUnixNano: 5}),
			opMkMPerm(craft.MeasurementPermissionEntry{RoleID: 3, MeasurementPattern: "cpu", Permissions: "read", CreatedAtUnixNano: 5}),
			opMkToken(tokenE("tA", "p1")), opAddMem(craft.TokenMembershipEntry{TokenID: 5, TeamID: 2, CreatedAtUnixNano: 5}),
			opUpdTeam(2, "ops", "", false, 9, []string{"name", "enabled", "name"}), opUpdOrg(1, "globex", "d", false, 0, []string{"name", "name", "description"}),
			opDelToken(5), opDelOrg(1)},
	}
	// in-place mutations (token revoke/update/rotate, node state, promote/demote) applied between
	// Snapshot() and Persist(): every prefix of these histories is held and persisted at the end
	directed = append(directed, []op{
		opMkToken(tokenE("tA", "p1")), opMkToken(tokenE("tB", "p1")), opRevoke(1),
		opUpdToken(2, "tC", "d", "read", 7000, []string{"name", "description", "permissions", "expires_at"}),
		opRotate(1, "h9", "p2"), opRotate(2, "h8", "p2"), opUpdToken(1, "tZ", "", "", 0, []string{"name"}), opDelToken(2),
	}, []op{
		opAddNode(craft.NodeInfo{ID: "n1", Role: "writer", State: "healthy"}), opAddNode(craft.NodeInfo{ID: "n2", Role: "writer", State: "healthy"}),
		opPromote("n1", ""), opNodeState("n1", "unhealthy"), opPromote("n2", "n1"), opDemote("n2"), opCompactor("n1", ""), opNodeState("n2", "dead"),
	})
	// every pre-validation clause failing at the LAST position of a batch whose first op is fine
	zc := f2("db1")
	zc.ct = zeroSec
	bp := f2("db1")
	bp.path = "db/../x"
	var refused []op
	for _, last := range []batchItem{{k: 'r', f: bp}, {k: 'r', f: zc}, {k: 'u', f: bp}, {k: 'u', f: zc}, {k: 'd', path: ""}, {k: 'x'}, {k: 't'}} {
		refused = append(refused, opBatch([]batchItem{{k: 'r', f: f1("db1")}, {k: 'd', path: "nope"}, last}))
	}
	refused = append(refused, opBatch([]batchItem{{k: 'r', f: f1("db1")}, {k: 'u', f: f2("db2")}, {k: 'd', path: "db1/m/f1.parquet"}}))
	directed = append(directed, refused)
	directed = append(directed, membershipDirected()...)
	directed = append(directed, limitDirected()...)
	for _, ops := range directed {
		cfg := full
		if len(ops) <= 14 {
			for k := 0; k <= len(ops); k++ {
				cfg.replayAt = append(cfg.replayAt, k)
			}
		} else {
			cfg.replayAt = []int{len(ops) / 2, len(ops) - 1}
		}
		for k := 1; k < len(ops); k++ {
			cfg.holdAt = append(cfg.holdAt, k)
		}
		runCase(c, ops, cfg)
	}

	for _, rc := range emptyComponentDirected() {
		cfg := full
		cfg.replayAt = rc.at
		for k := 1; k < len(rc.ops); k++ {
			cfg.holdAt = append(cfg.holdAt, k)
		}
		runCase(c, rc.ops, cfg)
	}

	// (2) exhaustive short sequences over the reduced alphabet (every prefix is itself enumerated,
	// so one snapshot-and-restore at the end of each sequence covers "at every prefix")
	alpha := c22Alphabet()
	maxLen := 3
	if c.Thorough() {
		maxLen = 4
	}
	exh := 0
	for n := 1; n <= maxLen; n++ {
		cfg := runCfg{c22: true, quiet: true}
		if n >= 2 {
			cfg.holdAt = []int{n - 1}
		}
		if n <= 3 {
			for k := 0; k < n; k++ {
				if k == 0 && n > 2 {
					continue
				}
				cfg.replayAt = append(cfg.replayAt, k)
			}
		} else {
			cfg.replayAt = []int{n - 1}
		}
		exh += enumerate(c, alpha, n, cfg)
	}
	// membership words over a fixed org/2 teams/2 tokens prefix (tokens in several teams, teams with
	// several tokens, partial removals, then cascades), snapshot+restore and one replay per word
	ml := 3
	if c.Thorough() {
		ml = 4
	}
	for n := 1; n <= ml; n++ {
		exh += enumerateOps(c, membershipPrefix(), membershipAlphabet(), n, runCfg{c22: true, quiet: true, replayAt: []int{5 + n - 1}})
	}
	c.Extra["exhaustive_sequences"] = exh
	c.Extra["exhaustive_alphabet"] = len(alpha)
	c.Extra["exhaustive_max_len"] = maxLen

	// (3) random histories ≤ 30 commands over the small universe
	nCases := c.N
	if nCases == 0 {
		nCases = 120
		if c.Thorough() {
			nCases = 2500
		}
	}
	for n := 0; n < nCases; n++ {
		g := &gen{r: r, weights: allKinds}
		if r.Chance(25) { // membership heavy
			g.weights = membershipKinds
		} else if r.Chance(30) { // file/token heavy
			w := map[string]int{}
			for k, v := range allKinds {
				w[k] = v
			}
			for _, k := range []string{"regfile", "updfile", "delfile", "batch", "mktoken", "updtoken", "rotate", "deltoken"} {
				w[k] *= 4
			}
			g.weights = w
		}
		ln := r.Range(3, 30)
		cfg := full
		if r.Chance(40) {
			cfg.gaps = []int{1, 2, 1, 5}
		}
		ops := make([]op, ln)
		idx := uint64(0)
		for i := range ops {
			idx += cfg.step(i)
			ops[i] = g.next(idx)
		}
		nrep := 2
		if c.Thorough() {
			nrep = 4
		}
		for j := 0; j < nrep; j++ {
			cfg.replayAt = append(cfg.replayAt, r.Range(0, ln))
			cfg.holdAt = append(cfg.holdAt, r.Range(1, ln-1))
		}
		runCase(c, ops, cfg)
	}
	c.Finish("cases = command histories on the real ClusterFSM: directed defect candidates; ALL sequences up to the stated length over a 17-letter alphabet (files with/without database, batches, token create/rename/rotate/delete, org/team/membership, cascade delete); random histories of 3–30 commands over ≤4 nodes, 4+ paths, 3 databases, 3 token names, 2 prefixes, 2 orgs/teams, incl. invalid/duplicate/conflicting/out-of-order commands; snapshot-and-restore after every command and replays from snapshots at sampled prefixes; non-trivial = at least one command refused; distinct = distinct op text")
}
