//go:build verif

// C25 correspondence harness: the REAL filereplication.Puller (processEntry / pullOnce /
// tryResumeFromPartial), the REAL FetchClient.Fetch (ack validation, streaming through SHA-256,
// digest comparison) talking over an in-memory connection to a scripted peer, and the REAL
// storage.LocalBackend in a temp dir under /var/tmp.  Every attempt's observable state (bytes at
// the final path and at <path>.part, puller counters, resume offsets, status) is one impl line and
// is diffed against the Lean model; property monitors watch the real state after every attempt.
package main

import (
	"bytes"
	"context"
	"crypto/sha256"
	"encoding/hex"
	"errors"
	"fmt"
	"hash"
	"io"
	"net"
	"os"
	"path/filepath"
	"runtime"
	"strconv"
	"strings"
	"sync"
	"time"

	"github.com/basekick-labs/arc/internal/cluster/filereplication"
	"github.com/basekick-labs/arc/internal/cluster/protocol"
	"github.com/basekick-labs/arc/internal/cluster/raft"
	"github.com/basekick-labs/arc/internal/storage"
	"github.com/basekick-labs/arc/internal/verif/vh"
	"github.com/rs/zerolog"
)

const relPath = "db/m/2026/04/11/14/f.parquet"

// ---------------------------------------------------------------- outcomes
type outcome struct {
	kind string // dial err nop bad wsz wsh ok t c
	i    int
}

func (o outcome) tok() string {
	if o.kind == "t" || o.kind == "c" {
		return o.kind + strconv.Itoa(o.i)
	}
	return o.kind
}

func toks(os []outcome) string {
	if len(os) == 0 {
		return "-"
	}
	s := make([]string, len(os))
	for i, o := range os {
		s[i] = o.tok()
	}
	return strings.Join(s, ",")
}

func alphabet(n int) []outcome {
	a := []outcome{{"dial", 0}, {"err", 0}, {"nop", 0}, {"bad", 0}, {"wsz", 0}, {"wsh", 0}, {"ok", 0}}
	for i := 0; i < n; i++ {
		a = append(a, outcome{"t", i})
	}
	for i := 0; i < n; i++ {
		a = append(a, outcome{"c", i})
	}
	return a
}

// ---------------------------------------------------------------- scripted peer + recorders
type snap struct {
	final, part *[]byte
	st          map[string]int64
}

type world struct {
	mu       sync.Mutex
	base     string
	content  []byte
	sha      string
	attempts [][]outcome // script of the current processEntry call
	calls    int         // resolver calls in the current processEntry call
	snaps    []snap      // snapshot at each resolver call
	offs     map[int][]int64
	dels     map[int][]*[]byte // per attempt: what each Delete issued by the puller found at the final path
	omu      sync.Mutex
	trans    []transient // observations of the final path DURING attempts that do not match the manifest bytes
	watch    bool
	peers    sync.WaitGroup
	puller   *filereplication.Puller
}

var w = &world{}

type transient struct {
	site string
	got  []byte
}

// obsBackend wraps the real LocalBackend (AppendReader is promoted through the embedded pointer, so
// it still is a storage.AppendingBackend).  It looks at the FINAL path whenever the puller touches
// the backend in the middle of an attempt: before StatFile / ReadToAt / Delete, and right after the
// write goroutine's WriteReader / AppendReader returned (i.e. possibly before Fetch delivered its
// digest verdict and before the cleanup Delete).
type obsBackend struct{ *storage.LocalBackend }

func (o obsBackend) inspect(site string) *[]byte {
	f := readOpt(filepath.Join(w.base, relPath))
	w.omu.Lock()
	if w.watch && f != nil && !bytes.Equal(*f, w.content) {
		w.trans = append(w.trans, transient{site, *f})
	}
	w.omu.Unlock()
	return f
}

func (o obsBackend) StatFile(ctx context.Context, path string) (int64, error) {
	o.inspect("at-StatFile")
	return o.LocalBackend.StatFile(ctx, path)
}

func (o obsBackend) ReadToAt(ctx context.Context, path string, wr io.Writer, off int64) error {
	o.inspect("at-ReadToAt")
	return o.LocalBackend.ReadToAt(ctx, path, wr, off)
}

func (o obsBackend) Delete(ctx context.Context, path string) error {
	f := o.inspect("at-Delete")
	w.mu.Lock()
	k := w.calls - 1
	w.dels[k] = append(w.dels[k], f)
	w.mu.Unlock()
	return o.LocalBackend.Delete(ctx, path)
}

func (o obsBackend) WriteReader(ctx context.Context, path string, r io.Reader, size int64) error {
	err := o.LocalBackend.WriteReader(ctx, path, r, size)
	o.inspect("after-WriteReader")
	return err
}

func (o obsBackend) AppendReader(ctx context.Context, path string, r io.Reader, n int64) error {
	err := o.LocalBackend.AppendReader(ctx, path, r, n)
	o.inspect("after-AppendReader")
	return err
}

func readOpt(p string) *[]byte {
	b, err := os.ReadFile(p)
	if err != nil {
		return nil
	}
	if b == nil {
		b = []byte{}
	}
	return &b
}

func (w *world) snapNow() snap {
	full := filepath.Join(w.base, relPath)
	return snap{readOpt(full), readOpt(full + ".part"), w.puller.Stats()}
}

// PeerResolver: the k-th call of a processEntry call is attempt k; one address per scripted outcome.
func (w *world) ResolvePeers(origin, path string) []string {
	w.mu.Lock()
	defer w.mu.Unlock()
	k := w.calls
	w.calls++
	w.snaps = append(w.snaps, w.snapNow())
	if k >= len(w.attempts) {
		return nil
	}
	out := make([]string, len(w.attempts[k]))
	for j := range w.attempts[k] {
		out[j] = fmt.Sprintf("a%dp%d", k, j)
	}
	return out
}

func parseAddr(addr string) (int, int) {
	var k, j int
	fmt.Sscanf(addr, "a%dp%d", &k, &j)
	return k, j
}

// recFetcher records the resume offset the puller passes to Fetch, then runs the real FetchClient.
type recFetcher struct{ inner *filereplication.FetchClient }

func (r recFetcher) Fetch(ctx context.Context, peerAddr string, entry *raft.FileEntry, dst io.Writer, off int64, ph hash.Hash) (int64, error) {
	k, _ := parseAddr(peerAddr)
	w.mu.Lock()
	w.offs[k] = append(w.offs[k], off)
	w.mu.Unlock()
	return r.inner.Fetch(ctx, peerAddr, entry, dst, off, ph)
}

func dial(addr string, _ time.Duration) (net.Conn, error) {
	k, j := parseAddr(addr)
	w.mu.Lock()
	o := w.attempts[k][j]
	content, sha := w.content, w.sha
	w.mu.Unlock()
	if o.kind == "dial" {
		return nil, errors.New("connect: connection refused")
	}
	cli, srv := net.Pipe()
	w.peers.Add(1)
	go func() {
		defer w.peers.Done()
		defer srv.Close()
		serve(srv, o, content, sha)
	}()
	return cli, nil
}

func serve(conn net.Conn, o outcome, content []byte, sha string) {
	msg, err := protocol.ReceiveMessage(conn, 10*time.Second)
	if err != nil || msg.Type != protocol.MsgFetchFile {
		return
	}
	req := msg.Payload.(*protocol.FetchFileRequest)
	off := req.ByteOffset
	ack := &protocol.FetchFileAckHeader{Status: "ok", SizeBytes: int64(len(content)) - off, SHA256: sha, ByteOffset: off}
	var full []byte
	// the serving side's offset validation (Coordinator.handleFetchFile step 5): a resume request at
	// or beyond the end of the file is answered with bad_offset before any ok-ack
	if off > 0 && off >= int64(len(content)) && o.kind != "err" && o.kind != "nop" && o.kind != "bad" {
		o = outcome{"bad", 0}
	}
	switch o.kind {
	case "err":
		ack = &protocol.FetchFileAckHeader{Status: "error", Code: protocol.AckCodeBackend, Error: "backend exploded"}
	case "nop":
		ack = &protocol.FetchFileAckHeader{Status: "error", Code: protocol.AckCodeNotFound, Error: protocol.ErrMsgFileNotFound}
	case "bad":
		ack = &protocol.FetchFileAckHeader{Status: "error", Code: protocol.AckCodeBadOffset, Error: "offset rejected"}
	case "wsz":
		ack.SizeBytes++
	case "wsh":
		h := sha256.Sum256(append([]byte("other:"), content...))
		ack.SHA256 = hex.EncodeToString(h[:])
	case "t":
		n := o.i
		if n > len(content) {
			n = len(content)
		}
		full = content[:n]
	case "c":
		full = append([]byte{}, content...)
		if o.i < len(full) {
			full[o.i] = byte((int(full[o.i]) + 1) % 256)
		}
	case "ok":
		full = content
	}
	if err := protocol.SendMessage(conn, &protocol.Message{Type: protocol.MsgFetchFileAck, Payload: ack}, 10*time.Second); err != nil {
		return
	}
	if o.kind == "t" || o.kind == "c" || o.kind == "ok" {
		if int(off) < len(full) {
			conn.SetWriteDeadline(time.Now().Add(10 * time.Second))
			conn.Write(full[off:])
		}
	}
}

// ---------------------------------------------------------------- cases
type caseSpec struct {
	content  []byte
	maxA     int
	final    *[]byte
	part     *[]byte
	hist     [][][]outcome // processEntry calls → attempts → per-peer outcomes
	pool     bool          // run through Start/RunCatchUp/Enqueue + a real worker instead of the direct hook
	monitors bool          // the initial state is inside the property's quantifier
}

func hexOpt(b *[]byte) string {
	if b == nil {
		return "none"
	}
	return vh.Hex(*b)
}

var factsLine string
var nCase int

func runCase(c *vh.Ctx, cs caseSpec) {
	nCase++
	full := filepath.Join(w.base, relPath)
	os.Remove(full)
	os.Remove(full + ".part")
	os.MkdirAll(filepath.Dir(full), 0o700)
	if cs.final != nil {
		os.WriteFile(full, *cs.final, 0o600)
	}
	if cs.part != nil {
		os.WriteFile(full+".part", *cs.part, 0o600)
	}
	sum := sha256.Sum256(cs.content)
	entry := &raft.FileEntry{Path: relPath, SHA256: hex.EncodeToString(sum[:]), SizeBytes: int64(len(cs.content)),
		Database: "db", Measurement: "m", OriginNodeID: "origin", Tier: "hot"}
	lb, err := storage.NewLocalBackend(w.base, zerolog.Nop())
	if err != nil {
		panic(err)
	}
	fcl, err := filereplication.NewFetchClient(filereplication.FetchClient{SelfNodeID: "self", ClusterName: "c1", SharedSecret: "verif-secret"})
	if err != nil {
		panic(err)
	}
	p, err := filereplication.New(filereplication.Config{
		SelfNodeID: "self", Backend: obsBackend{lb}, Fetcher: recFetcher{fcl}, PeerResolver: w, Workers: 1, QueueSize: 4,
		RetryMaxAttempts: cs.maxA, RetryInitialBackoff: time.Nanosecond, FetchTimeout: 20 * time.Second, Logger: zerolog.Nop(),
	})
	if err != nil {
		panic(err)
	}
	w.mu.Lock()
	w.puller, w.content, w.sha = p, cs.content, entry.SHA256
	w.mu.Unlock()
	if cs.pool {
		p.Start(context.Background())
		defer p.Stop()
	}

	var canon strings.Builder
	emit := func(op, out string) {
		c.Op(op, out)
		canon.WriteString(op)
		if out != "ok" {
			canon.WriteString(" => " + out)
		}
		canon.WriteString("; ")
	}
	suffix := ""
	if len(cs.content) == 0 {
		suffix = ":zero-size"
	}
	emit(factsLine, "ok")
	emit(fmt.Sprintf("new %s %d %s %s", vh.Hex(cs.content), cs.maxA, hexOpt(cs.final), hexOpt(cs.part)), "ok")
	nontriv := false
	good := func(f *[]byte) bool { return f != nil && bytes.Equal(*f, cs.content) }

	runProc := func(script [][]outcome, first bool) snap {
		w.mu.Lock()
		w.attempts, w.calls, w.snaps, w.offs, w.dels = script, 0, nil, map[int][]int64{}, map[int][]*[]byte{}
		w.mu.Unlock()
		w.omu.Lock()
		w.trans, w.watch = nil, cs.monitors
		w.omu.Unlock()
		before := p.Stats()
		emit("proc", "ok")
		if cs.pool {
			if first {
				served := false
				p.RunCatchUp(context.Background(), func(cursor string, limit int) ([]*raft.FileEntry, string, error) {
					if served {
						return nil, "", nil
					}
					served = true
					return []*raft.FileEntry{entry}, "", nil
				})
			} else {
				p.Enqueue(entry)
			}
			for i := 0; ; i++ {
				st := p.Stats()
				if st["inflight_count"] == 0 && st["queue_depth"] == 0 {
					break
				}
				if i < 200 {
					runtime.Gosched()
				} else {
					time.Sleep(20 * time.Microsecond)
				}
			}
		} else {
			p.VerifProcessEntry(entry)
		}
		w.peers.Wait()
		w.mu.Lock()
		defer w.mu.Unlock()
		end := w.snapNow()
		R := w.calls
		dSk := int(end.st["skipped_local"] - before["skipped_local"])
		dPulled := end.st["pulled"] - before["pulled"]
		dFailed := end.st["failed"] - before["failed"]
		nAtt := R + dSk
		line := func(s snap, skAdj int64, offs []int64, dels []*[]byte, st string) string {
			ds := "-"
			if len(dels) > 0 {
				xs := make([]string, len(dels))
				for i, d := range dels {
					xs[i] = hexOpt(d)
				}
				ds = strings.Join(xs, ",")
			}
			os := "-"
			if len(offs) > 0 {
				xs := make([]string, len(offs))
				for i, o := range offs {
					xs[i] = strconv.FormatInt(o, 10)
				}
				os = strings.Join(xs, ",")
			}
			return fmt.Sprintf("final=%s part=%s pulled=%d skipped=%d failed=%d cksum=%d badoff=%d nopeer=%d offs=%s dels=%s st=%s",
				hexOpt(s.final), hexOpt(s.part), s.st["pulled"], s.st["skipped_local"]-skAdj, s.st["failed"],
				s.st["checksum_mismatch"], s.st["bad_offset_server"], s.st["peer_lookup_failure"], os, ds, st)
		}
		for k := 0; k < nAtt; k++ {
			op := "att -"
			if k < len(script) {
				op = "att " + toks(script[k])
				for _, o := range script[k] {
					if o.kind != "ok" {
						nontriv = true
					}
				}
			}
			var s snap
			var out, st string
			switch {
			case k < R-1:
				s, st = w.snaps[k+1], "cont"
				out = line(s, 0, w.offs[k], w.dels[k], st)
			case k == R-1 && dSk == 1:
				s, st = end, "cont"
				out = line(s, 1, w.offs[k], w.dels[k], st)
			case k == R-1:
				s = end
				switch {
				case dPulled > 0:
					st = "pulled"
				case dFailed > 0:
					st = "failed"
				case nAtt >= cs.maxA:
					st = "exhausted"
				default:
					st = "returned-early"
				}
				out = line(s, 0, w.offs[k], w.dels[k], st)
			default: // the skip attempt
				s, st = end, "skipped"
				out = line(s, 0, nil, nil, st)
			}
			emit(op, out)
			c.Tag("st:" + st)
			if !cs.monitors {
				continue
			}
			// ---- property monitors on the REAL state after this attempt
			if s.final != nil && !bytes.Equal(*s.final, cs.content) {
				c.Fail("final-holds-wrong-bytes:LocalBackend-promote"+suffix,
					fmt.Sprintf("final path holds %s but the manifest file is %s", hexOpt(s.final), vh.Hex(cs.content)), canon.String())
			}
			if st == "skipped" && !good(s.final) {
				c.Tag("phantom-skip")
				c.Fail("counted-present-but-final-missing:processEntry-StatFile-part"+suffix,
					fmt.Sprintf("processEntry counted the file as already present (skipped_local++, succeeded) while the final path holds %s and %s.part holds %s; manifest bytes %s",
						hexOpt(s.final), relPath, hexOpt(s.part), vh.Hex(cs.content)), canon.String())
			}
			if st == "pulled" && !good(s.final) {
				c.Fail("counted-pulled-but-final-missing:pullOnce"+suffix,
					fmt.Sprintf("pulled++ while the final path holds %s", hexOpt(s.final)), canon.String())
			}
		}
		// ---- convergence inside a call: the faults stopped and retries remained (the last two executed
		// attempts each had a healthy first candidate peer), yet the call gave up
		if cs.monitors && dFailed > 0 && nAtt >= 2 {
			healthy := func(k int) bool { return k >= 0 && k < len(script) && len(script[k]) > 0 && script[k][0].kind == "ok" }
			if healthy(nAtt-1) && healthy(nAtt-2) {
				key := "not-converged-within-call:healthy-retries-exhausted:processEntry"
				if end.part != nil && len(*end.part) >= len(cs.content) && end.st["bad_offset_server"] > before["bad_offset_server"] {
					key = "not-converged:full-length-part-reused-as-resume-point"
				}
				c.Tag("not-converged-within-call")
				c.Fail(key+suffix,
					fmt.Sprintf("the last two attempts of the call had a healthy first peer, yet processEntry gave up (failed++): final=%s .part=%s bad_offset_server=%d; manifest bytes %s",
						hexOpt(end.final), hexOpt(end.part), end.st["bad_offset_server"], vh.Hex(cs.content)), canon.String())
			}
		}
		// ---- what was visible at the final path DURING the attempts of this call
		w.omu.Lock()
		trans := w.trans
		w.watch = false
		w.omu.Unlock()
		for _, t := range trans {
			c.Tag("transient-wrong-final:" + t.site)
			c.Fail("final-holds-wrong-bytes:transient:"+t.site+suffix,
				fmt.Sprintf("in the middle of an attempt (%s) the final path held %s, which is not the manifest file %s — unverified bytes were promoted before the SHA-256 verdict",
					t.site, vh.Hex(t.got), vh.Hex(cs.content)), canon.String())
		}
		if cs.pool && cs.monitors && p.FullyCaughtUp() && !good(end.final) {
			if dSk == 1 || dPulled > 0 {
				c.Fail("catchup-gate-open-but-file-missing:FullyCaughtUp"+suffix,
					fmt.Sprintf("FullyCaughtUp()=true (query gate open) after a call that counted the file, while the final path holds %s; catch-up status %v", hexOpt(end.final), p.CatchUpStatus()), canon.String())
			} else {
				// not a fetch outcome of the property's alphabet (the resolver returned no candidate
				// peer on the last attempt): processEntry returns with neither failed nor succeeded
				c.Tag("gate-open-after-no-peer-exhaustion")
			}
		}
		return end
	}

	for i, script := range cs.hist {
		runProc(script, i == 0)
	}
	// faults stop: the entry is re-enqueued (FSM callback / catch-up) and every peer is healthy
	okScript := make([][]outcome, cs.maxA)
	for i := range okScript {
		okScript[i] = []outcome{{"ok", 0}}
	}
	end := runProc(okScript, len(cs.hist) == 0)
	if cs.monitors && !good(end.final) {
		c.Tag("not-converged")
		c.Fail("not-converged-after-faults-stop:processEntry"+suffix,
			fmt.Sprintf("after the faults stopped a full processEntry call with healthy peers left the final path holding %s (.part %s); manifest bytes %s",
				hexOpt(end.final), hexOpt(end.part), vh.Hex(cs.content)), canon.String())
	}
	c.Case(canon.String(), nontriv)
}

// ---------------------------------------------------------------- generators
func contentOf(n int, salt byte) []byte {
	x := make([]byte, n)
	for i := range x {
		x[i] = byte(0x0a + i*7 + int(salt))
	}
	return x
}

type initState struct {
	final, part *[]byte
	monitors    bool
}

func initStates(content []byte) []initState {
	n := len(content)
	cp := func(x []byte) *[]byte { y := append([]byte{}, x...); return &y }
	garb := func(k int) *[]byte {
		y := make([]byte, k)
		for i := range y {
			y[i] = byte(0xe0 + i)
		}
		return &y
	}
	out := []initState{{nil, nil, true}}
	// partial files left by earlier attempts: correct proper prefixes (incl. the empty staging file)
	for k := 0; k < n; k++ {
		out = append(out, initState{nil, cp(content[:k]), true})
	}
	if n > 1 {
		out = append(out, initState{nil, garb(n - 1), true}) // a short staging file with foreign bytes
	}
	out = append(out, initState{cp(content), nil, true}) // already replicated
	if n > 0 {
		out = append(out, initState{cp(content), cp(content[:n-1]), true}) // replicated + stale staging file
	}
	// outside the property's quantifier (correspondence only): staging file of full size or longer, foreign final file
	out = append(out, initState{nil, cp(content), false})
	out = append(out, initState{nil, garb(n), false})
	out = append(out, initState{nil, garb(n + 1), false})
	if n > 1 {
		out = append(out, initState{garb(n - 1), nil, false})
		out = append(out, initState{garb(n - 1), cp(content[:1]), false})
	}
	out = append(out, initState{garb(n + 2), nil, false})
	return out
}

func seqs(alpha []outcome, k int, f func([]outcome)) {
	cur := make([]outcome, k)
	var rec func(i int)
	rec = func(i int) {
		if i == k {
			f(cur)
			return
		}
		for _, o := range alpha {
			cur[i] = o
			rec(i + 1)
		}
	}
	rec(0)
}

func single(s []outcome) [][]outcome {
	out := make([][]outcome, len(s))
	for i, o := range s {
		out[i] = []outcome{o}
	}
	return out
}

func main() {
	c := vh.Start()
	bit := func(k string) int {
		if v, ok := c.Facts[k].(bool); ok && v {
			return 1
		}
		return 0
	}
	if c.Facts == nil {
		fmt.Fprintln(os.Stderr, "-facts required")
		os.Exit(64)
	}
	factsLine = fmt.Sprintf("facts %d %d %d %d %d", bit("stat_part_fallback"), bit("delete_removes_part"), bit("presence_needs_final"), bit("promote_after_verdict"), bit("resume_full_part"))
	base, err := os.MkdirTemp("/var/tmp", "verif-c25-")
	if err != nil {
		panic(err)
	}
	defer os.RemoveAll(base)
	w.base = base
	filereplication.VerifDial = dial
	r := vh.NewRand(c.Seed)
	thorough := c.Thorough()

	// (0) the two-step sequence the property's rationale names, smallest file first
	for _, n := range []int{1, 3} {
		ct := contentOf(n, 0)
		runCase(c, caseSpec{content: ct, maxA: 3, hist: [][][]outcome{single([]outcome{{"c", 0}, {"ok", 0}, {"ok", 0}})}, monitors: true})
	}

	// (0b) one full-length corrupted transfer, then fault-free retries inside the same call — from the
	// empty replica and from staging files of size n-1, n, n+1 left by a crash
	for _, n := range []int{1, 2, 3} {
		ct := contentOf(n, byte(0x20+n))
		over := append(append([]byte{}, ct...), 0x7f)
		parts := []struct {
			p   *[]byte
			mon bool
		}{{nil, true}, {func() *[]byte { x := append([]byte{}, ct[:n-1]...); return &x }(), true},
			{func() *[]byte { x := append([]byte{}, ct...); return &x }(), false}, {&over, false}}
		for _, pt := range parts {
			for i := 0; i < n; i++ {
				for _, first := range []outcome{{"c", i}, {"dial", 0}, {"t", n - 1}} {
					for _, k := range []int{3, 4} {
						sc := []outcome{first}
						for len(sc) < k {
							sc = append(sc, outcome{"ok", 0})
						}
						runCase(c, caseSpec{content: ct, maxA: k, part: pt.p, hist: [][][]outcome{single(sc)}, monitors: pt.mon})
					}
				}
			}
		}
	}

	// (1) exhaustive grids: every outcome sequence, three file sizes, every initial state
	for _, n := range []int{1, 2, 3, 0} {
		ct := contentOf(n, byte(n))
		alpha := alphabet(n)
		inits := initStates(ct)
		maxLenAll := 2 // every initial state
		if thorough {
			maxLenAll = 3
		}
		for _, is := range inits {
			for k := 1; k <= maxLenAll; k++ {
				seqs(alpha, k, func(s []outcome) {
					runCase(c, caseSpec{content: ct, maxA: k, final: is.final, part: is.part, hist: [][][]outcome{single(s)}, monitors: is.monitors})
				})
			}
		}
		if thorough {
			// all sequences of 4 attempts from the empty replica
			seqs(alpha, 4, func(s []outcome) {
				runCase(c, caseSpec{content: ct, maxA: 4, hist: [][][]outcome{single(s)}, monitors: true})
			})
		} else {
			// sampled sequences of 3 and 4 attempts
			for i := 0; i < 500; i++ {
				k := 3 + r.Intn(2)
				s := make([]outcome, k)
				for j := range s {
					s[j] = vh.Pick(r, alpha)
				}
				is := vh.Pick(r, inits)
				runCase(c, caseSpec{content: ct, maxA: k, final: is.final, part: is.part, hist: [][][]outcome{single(s)}, monitors: is.monitors})
			}
		}
		// two processEntry calls (re-enqueue after giving up), 2 attempts each
		if thorough && n == 2 {
			seqs(alpha, 4, func(s []outcome) {
				runCase(c, caseSpec{content: ct, maxA: 2, hist: [][][]outcome{single(s[:2]), single(s[2:])}, monitors: true})
			})
		}
		// through the real worker pool + RunCatchUp + query gate
		seqs(alpha, 2, func(s []outcome) {
			runCase(c, caseSpec{content: ct, maxA: 2, hist: [][][]outcome{single(s)}, pool: true, monitors: true})
		})
	}

	// (2) random histories: several candidate peers per attempt, empty peer lists, several calls,
	// more sizes (incl. the empty file and files larger than the 32 KiB copy buffer)
	nRand := c.N
	if nRand == 0 {
		nRand = 700
		if thorough {
			nRand = 6000
		}
	}
	sizes := []int{0, 1, 2, 3, 4, 5, 8, 13}
	for i := 0; i < nRand; i++ {
		n := vh.Pick(r, sizes)
		big := false
		if r.Intn(250) == 0 {
			n, big = 40000+r.Intn(3000), true
		}
		ct := contentOf(n, byte(r.Intn(200)))
		var alpha []outcome
		if big {
			alpha = []outcome{{"dial", 0}, {"bad", 0}, {"wsh", 0}, {"ok", 0}, {"t", 1}, {"t", 32768}, {"t", 32769}, {"t", n - 1}, {"c", 0}, {"c", 32768}, {"c", n - 1}, {"t", r.Intn(n)}, {"c", r.Intn(n)}}
		} else {
			alpha = append(alphabet(n), outcome{"t", n}, outcome{"c", n}, outcome{"t", n + 3})
		}
		var is initState
		if big {
			is = initState{nil, nil, true}
		} else {
			is = vh.Pick(r, initStates(ct))
		}
		maxA := r.Range(1, 4)
		nproc := 1
		if r.Chance(30) {
			nproc = r.Range(2, 3)
		}
		var hist [][][]outcome
		for pi := 0; pi < nproc; pi++ {
			script := make([][]outcome, maxA)
			for a := range script {
				np := 1
				switch x := r.Intn(10); {
				case x == 0:
					np = 0
				case x < 4:
					np = r.Range(2, 3)
				}
				for j := 0; j < np; j++ {
					o := vh.Pick(r, alpha)
					if r.Chance(35) {
						o = outcome{vh.Pick(r, []string{"t", "c", "ok"}), 0}
						if o.kind != "ok" && n > 0 {
							o.i = r.Intn(n)
						}
					}
					script[a] = append(script[a], o)
				}
			}
			hist = append(hist, script)
		}
		runCase(c, caseSpec{content: ct, maxA: maxA, final: is.final, part: is.part, hist: hist, pool: r.Chance(25), monitors: is.monitors})
	}
	c.Extra["cases"] = nCase
	c.Finish("cases = (manifest file bytes, initial final/.part state, history of processEntry calls, per attempt one scripted outcome per candidate peer) followed by one all-healthy call; exhaustive over the outcome alphabet {dial,err,nop,bad,wsz,wsh,ok,t0..t(n-1),c0..c(n-1)} for n=1,2,3 (length<=2 quick / <=3 for every initial state and all 4-attempt sequences thorough) plus random multi-peer histories; non-trivial = at least one non-ok outcome scripted; distinct = distinct op text")
}
