//go:build verif

// C02 harness: runs the REAL MessagePackDecoder.Decode with the typed columnar fast path switched on
// and off (+ the typing chokepoint convertColumnsToTyped every generic columnar record goes through
// in ArrowBuffer.Write) on structure-aware MessagePack bodies.
//
//	op line    dec <hex body>
//	impl line  T=<tryDecodeColumnarTyped: miss | hit{rec}> G=<Decode(off)+convertColumnsToTyped outcome>
//
// The impl line is diffed against the Lean model (drive_c02). Property monitor: for every body the
// full observation (accepted?, measurement, per-column type/values/null positions, row count, row
// records field by field, column signature, raw payload length) with the flag ON must equal the one
// with the flag OFF; any difference => c.Fail with a stable key. Time is the virtual clock, so
// generated timestamps are equal on both sides by construction.
package main

import (
	"context"
	"encoding/binary"
	"encoding/hex"
	"fmt"
	"math"
	"os"
	"path/filepath"
	"reflect"
	"runtime/pprof"
	"sort"
	"strconv"
	"strings"
	"time"

	"github.com/Basekick-Labs/msgpack/v6"
	"github.com/basekick-labs/arc/internal/config"
	"github.com/basekick-labs/arc/internal/ingest"
	"github.com/basekick-labs/arc/internal/verif/vh"
	"github.com/basekick-labs/arc/internal/verifclock"
	"github.com/basekick-labs/arc/internal/wal"
	"github.com/basekick-labs/arc/pkg/models"
	"github.com/rs/zerolog"
)

const nowUs = int64(1_700_000_000_000_000) // = Arc.C02.Drive.now

// ---------------------------------------------------------------- canonical text (mirrors Arc/Drive/C02.lean)

func hx(b []byte) string { return vh.Hex(b) }

func bitsStr(bs []bool) string {
	b := make([]byte, len(bs))
	for i, v := range bs {
		if v {
			b[i] = '1'
		} else {
			b[i] = '0'
		}
	}
	return string(b)
}

func batchStr(meas string, n int, tb *ingest.TypedColumnBatch) string {
	names := make([]string, 0, len(tb.Data))
	for k := range tb.Data {
		names = append(names, k)
	}
	sort.Strings(names)
	cols := make([]string, 0, len(names))
	for _, k := range names {
		var t, vals string
		switch arr := tb.Data[k].(type) {
		case []int64:
			t = "i"
			xs := make([]string, len(arr))
			for i, v := range arr {
				xs[i] = strconv.FormatInt(v, 10)
			}
			vals = strings.Join(xs, ",")
		case []float64:
			t = "f"
			xs := make([]string, len(arr))
			for i, v := range arr {
				xs[i] = fmt.Sprintf("%016x", math.Float64bits(v))
			}
			vals = strings.Join(xs, ",")
		case []string:
			t = "s"
			xs := make([]string, len(arr))
			for i, v := range arr {
				xs[i] = hx([]byte(v))
			}
			vals = strings.Join(xs, ",")
		case []bool:
			t = "b"
			vals = bitsStr(arr)
		default:
			t = fmt.Sprintf("?%T", arr)
		}
		v := "-"
		if vl, ok := tb.Validity[k]; ok {
			v = bitsStr(vl)
		}
		cols = append(cols, hx([]byte(k))+":"+t+":"+vals+":"+v)
	}
	return "{m=" + hx([]byte(meas)) + " n=" + strconv.Itoa(n) + " " + strings.Join(cols, ";") + "}"
}

func newDec(typed bool) *ingest.MessagePackDecoder {
	d := ingest.NewMessagePackDecoder(zerolog.Nop())
	d.SetTypedDecodeEnabled(typed)
	return d
}

func cp(b []byte) []byte { return append(make([]byte, 0, len(b)), b...) }

// T= part: the typed fast path alone. hasNils: the hit carries at least one NULL cell.
func typedLine(body []byte) (line string, hasNils bool) {
	line = vh.Guard(func() string {
		rec, ok := ingest.VerifC02TryTyped(newDec(true), cp(body))
		if !ok {
			return "miss"
		}
		for _, vl := range rec.Batch.Validity {
			for _, v := range vl {
				if !v {
					hasNils = true
				}
			}
		}
		return "hit" + batchStr(rec.Measurement, rec.NumRecords, rec.Batch)
	})
	return
}

func errClass(err error) string {
	s := err.Error()
	switch {
	case strings.HasPrefix(s, "failed to unmarshal msgpack"):
		return "E:unmarshal"
	case strings.HasPrefix(s, "unsupported msgpack payload type"):
		return "E:unsupported"
	}
	return "E:payload"
}

// itemStr: coarse (model-level) or deep (monitor-level) text of one decoded record after the typing step.
func itemStr(it interface{}, deep bool) string {
	switch r := it.(type) {
	case *models.ColumnarRecord:
		tb, n, err := ingest.VerifC02ConvertColumnsToTyped(r.Measurement, r.Columns)
		if err != nil {
			return "X(" + hx([]byte(r.Measurement)) + ")"
		}
		s := "C" + batchStr(r.Measurement, n, tb)
		if deep {
			s += fmt.Sprintf("sig=%s raw=%d", hx([]byte(tb.Signature)), len(r.RawPayload))
		}
		return s
	case *ingest.TypedColumnarRecord:
		s := "C" + batchStr(r.Measurement, r.NumRecords, r.Batch)
		if deep {
			s += fmt.Sprintf("sig=%s raw=%d", hx([]byte(r.Batch.Signature)), len(r.RawPayload))
		}
		return s
	case *models.Record:
		if !deep {
			return "R(" + hx([]byte(r.Measurement)) + ")"
		}
		var fs, ts []string
		for k, v := range r.Fields {
			fs = append(fs, hx([]byte(k))+"="+deepVal(v))
		}
		for k, v := range r.Tags {
			ts = append(ts, hx([]byte(k))+"="+tagText(v))
		}
		sort.Strings(fs)
		sort.Strings(ts)
		return "R(" + hx([]byte(r.Measurement)) + "|" + strconv.FormatInt(r.Time.UnixNano(), 10) + "|" + strings.Join(fs, ",") + "|" + strings.Join(ts, ",") + ")"
	case []interface{}:
		if !deep {
			return "nested"
		}
		xs := make([]string, len(r))
		for i, x := range r {
			xs[i] = itemStr(x, true)
		}
		return "nested[" + strings.Join(xs, " ") + "]"
	}
	return fmt.Sprintf("?%T", it)
}

// deepVal: canonical, order-independent text of a decoded Go value. Never fmt %v: floats are bit
// patterns, maps (of any key type, incl. duplicate NaN keys) are sorted lists of (key text, value text).
func deepVal(v interface{}) string {
	if v == nil {
		return "_"
	}
	if t, ok := v.(time.Time); ok {
		return "time:" + strconv.FormatInt(t.UnixNano(), 10)
	}
	rv := reflect.ValueOf(v)
	switch rv.Kind() {
	case reflect.Bool:
		if rv.Bool() {
			return "b:1"
		}
		return "b:0"
	case reflect.Int, reflect.Int8, reflect.Int16, reflect.Int32, reflect.Int64:
		return rv.Type().String() + ":" + strconv.FormatInt(rv.Int(), 10)
	case reflect.Uint, reflect.Uint8, reflect.Uint16, reflect.Uint32, reflect.Uint64:
		return rv.Type().String() + ":" + strconv.FormatUint(rv.Uint(), 10)
	case reflect.Float32:
		return fmt.Sprintf("f32:%08x", math.Float32bits(float32(rv.Float())))
	case reflect.Float64:
		return fmt.Sprintf("f64:%016x", math.Float64bits(rv.Float()))
	case reflect.String:
		return "s:" + hx([]byte(rv.String()))
	case reflect.Slice, reflect.Array:
		if rv.Kind() == reflect.Slice && rv.Type().Elem().Kind() == reflect.Uint8 {
			return "b:" + hx(rv.Bytes())
		}
		xs := make([]string, rv.Len())
		for i := range xs {
			xs[i] = deepVal(rv.Index(i).Interface())
		}
		return "[" + strings.Join(xs, ",") + "]"
	case reflect.Map:
		xs := make([]string, 0, rv.Len())
		it := rv.MapRange()
		for it.Next() {
			xs = append(xs, deepVal(it.Key().Interface())+"="+deepVal(it.Value().Interface()))
		}
		sort.Strings(xs)
		return rv.Type().String() + "{" + strings.Join(xs, ",") + "}"
	case reflect.Ptr, reflect.Interface:
		if rv.IsNil() {
			return "_"
		}
		return deepVal(rv.Elem().Interface())
	}
	return "?" + rv.Type().String()
}

// tagText: row-format tag values are produced by the REAL code with fmt.Sprintf("%v", v); for a map
// with several NaN keys fmt's entry order is unspecified, so such strings are compared as token multisets.
func tagText(v string) string {
	if strings.Count(v, "NaN:") >= 2 {
		fs := strings.Fields(strings.NewReplacer("[", " ", "]", " ").Replace(v))
		sort.Strings(fs)
		return "nanmap:" + hx([]byte(strings.Join(fs, " ")))
	}
	return hx([]byte(v))
}

// decodeObs: Decode with the flag + typing step; deep selects monitor-level detail.
func decodeObs(body []byte, typed, deep bool) string {
	return vh.Guard(func() string {
		res, err := newDec(typed).Decode(cp(body))
		if err != nil {
			return errClass(err)
		}
		list, ok := res.([]interface{})
		if !ok {
			return fmt.Sprintf("?%T", res)
		}
		xs := make([]string, len(list))
		for i, it := range list {
			xs[i] = itemStr(it, deep)
		}
		return "ok[" + strings.Join(xs, " ") + "]"
	})
}

// A panic raised inside msgpack.Unmarshal itself (nil first key of a non-string map, nil key of a
// time-keyed map) is reported as E:unmarshal: the model decodes the value tree first and cannot
// order such a panic before a later truncation. Any other panic stays E:panic (and would mismatch).
func canonPanic(s string, body []byte) string {
	if strings.HasPrefix(s, "panic:") {
		u := vh.Guard(func() string {
			var v interface{}
			_ = msgpack.Unmarshal(cp(body), &v)
			return "no-panic"
		})
		if strings.HasPrefix(u, "panic:") {
			return "E:unmarshal"
		}
		return "E:panic"
	}
	return s
}

// ---------------------------------------------------------------- msgpack writers (every width)

type W struct{ b []byte }

func (w *W) u8(v byte)    { w.b = append(w.b, v) }
func (w *W) be16(v uint16) { w.b = binary.BigEndian.AppendUint16(w.b, v) }
func (w *W) be32(v uint32) { w.b = binary.BigEndian.AppendUint32(w.b, v) }
func (w *W) be64(v uint64) { w.b = binary.BigEndian.AppendUint64(w.b, v) }
func (w *W) raw(b []byte)  { w.b = append(w.b, b...) }
func (w *W) nilv()         { w.u8(0xc0) }
func (w *W) boolv(v bool) {
	if v {
		w.u8(0xc3)
	} else {
		w.u8(0xc2)
	}
}

// intW writes v with width code wd (0 fix,1 i8,2 i16,3 i32,4 i64,5 u8,6 u16,7 u32,8 u64); the
// caller guarantees the value fits (else it is truncated, which is still a valid encoding).
func (w *W) intW(v int64, wd int) {
	switch wd {
	case 0:
		w.u8(byte(v))
	case 1:
		w.u8(0xd0)
		w.u8(byte(v))
	case 2:
		w.u8(0xd1)
		w.be16(uint16(v))
	case 3:
		w.u8(0xd2)
		w.be32(uint32(v))
	case 4:
		w.u8(0xd3)
		w.be64(uint64(v))
	case 5:
		w.u8(0xcc)
		w.u8(byte(v))
	case 6:
		w.u8(0xcd)
		w.be16(uint16(v))
	case 7:
		w.u8(0xce)
		w.be32(uint32(v))
	default:
		w.u8(0xcf)
		w.be64(uint64(v))
	}
}

// widths in which the int64 value v is exactly representable
func intWidths(v int64) []int {
	var ws []int
	if v >= -32 && v <= 127 {
		ws = append(ws, 0)
	}
	if v >= -128 && v <= 127 {
		ws = append(ws, 1)
	}
	if v >= -32768 && v <= 32767 {
		ws = append(ws, 2)
	}
	if v >= math.MinInt32 && v <= math.MaxInt32 {
		ws = append(ws, 3)
	}
	ws = append(ws, 4)
	if v >= 0 {
		if v <= 255 {
			ws = append(ws, 5)
		}
		if v <= 65535 {
			ws = append(ws, 6)
		}
		if v <= math.MaxUint32 {
			ws = append(ws, 7)
		}
		ws = append(ws, 8)
	}
	return ws
}

func (w *W) f32(bits uint32) { w.u8(0xca); w.be32(bits) }
func (w *W) f64(bits uint64) { w.u8(0xcb); w.be64(bits) }

// str with header width hw (0 fix,1 str8,2 str16,3 str32); falls to the next valid width.
func (w *W) strW(s []byte, hw int) {
	n := len(s)
	switch {
	case hw == 0 && n <= 31:
		w.u8(0xa0 | byte(n))
	case hw <= 1 && n <= 255:
		w.u8(0xd9)
		w.u8(byte(n))
	case hw <= 2 && n <= 65535:
		w.u8(0xda)
		w.be16(uint16(n))
	default:
		w.u8(0xdb)
		w.be32(uint32(n))
	}
	w.raw(s)
}
func (w *W) str(s string) { w.strW([]byte(s), 0) }

func (w *W) binW(s []byte, hw int) {
	n := len(s)
	switch {
	case hw <= 1 && n <= 255:
		w.u8(0xc4)
		w.u8(byte(n))
	case hw <= 2 && n <= 65535:
		w.u8(0xc5)
		w.be16(uint16(n))
	default:
		w.u8(0xc6)
		w.be32(uint32(n))
	}
	w.raw(s)
}

func (w *W) extW(ty byte, d []byte, hw int) {
	n := len(d)
	fix := map[int]byte{1: 0xd4, 2: 0xd5, 4: 0xd6, 8: 0xd7, 16: 0xd8}
	if c, ok := fix[n]; ok && hw == 0 {
		w.u8(c)
	} else if hw <= 1 && n <= 255 {
		w.u8(0xc7)
		w.u8(byte(n))
	} else if hw <= 2 && n <= 65535 {
		w.u8(0xc8)
		w.be16(uint16(n))
	} else {
		w.u8(0xc9)
		w.be32(uint32(n))
	}
	w.u8(ty)
	w.raw(d)
}

// array / map headers: hw 0 fix, 1 = 16, 2 = 32
func (w *W) arrH(n int, hw int) {
	switch {
	case hw == 0 && n <= 15:
		w.u8(0x90 | byte(n))
	case hw <= 1 && n <= 65535:
		w.u8(0xdc)
		w.be16(uint16(n))
	default:
		w.u8(0xdd)
		w.be32(uint32(n))
	}
}
func (w *W) mapH(n int, hw int) {
	switch {
	case hw == 0 && n <= 15:
		w.u8(0x80 | byte(n))
	case hw <= 1 && n <= 65535:
		w.u8(0xde)
		w.be16(uint16(n))
	default:
		w.u8(0xdf)
		w.be32(uint32(n))
	}
}

// ---------------------------------------------------------------- generators

type G struct {
	r *vh.Rand
	c *vh.Ctx
}

var edgeInts = []int64{0, 1, -1, -32, -33, 31, 127, 128, -128, -129, 255, 256, 32767, 32768, -32768, -32769,
	65535, 65536, math.MaxInt32, math.MaxInt32 + 1, math.MinInt32, math.MinInt32 - 1, math.MaxUint32, math.MaxUint32 + 1,
	math.MaxInt64, math.MinInt64, math.MaxInt64 - 1,
	9_999_999_999, 10_000_000_000, 10_000_000_001, 9_999_999_999_999, 10_000_000_000_000, 9_999_999_999_999_999,
	10_000_000_000_000_000, 1_700_000_000, 1_700_000_000_000, 1_700_000_000_000_000, 1_700_000_000_000_000_000,
	9_223_372_036_854_775, 9_223_372_036_854_776, 9_223_372_036_855, 9_223_372_036_856, -9_223_372_036_855, 1 << 53, 1<<53 + 1}

var edgeU64 = []uint64{1 << 63, 1<<63 + 1, math.MaxUint64, math.MaxUint64 - 1, 1<<63 - 1, 1<<63 + 1024, 1<<64 - 1024, 1 << 62}

func f64b(f float64) uint64 { return math.Float64bits(f) }

var edgeF64 = []uint64{0, 1 << 63, f64b(1), f64b(-1), f64b(1.5), f64b(-1.5), f64b(0.1), f64b(1e10), f64b(1e10 - 1), f64b(9999999999.5),
	f64b(1e13), f64b(1e16), f64b(1.7e9), f64b(1.7e12), f64b(1.7e15), f64b(1.7e18),
	f64b(9223372036854775808.0), f64b(9223372036854774784.0), f64b(9223372036854777856.0), f64b(-9223372036854775808.0),
	f64b(-9223372036854777856.0), f64b(-9223372036854774784.0), f64b(18446744073709551616.0), f64b(1e300), f64b(-1e300),
	0x7ff0000000000000, 0xfff0000000000000, 0x7ff8000000000000, 0x7ff8000000000001, 0x7ff0000000000001, 0xfff4000000000000,
	0x0000000000000001, 0x000fffffffffffff, f64b(math.MaxFloat32), f64b(math.MaxFloat32 * 2), f64b(-math.MaxFloat32 * 1.0000001),
	f64b(4294967296), f64b(-0.5), f64b(9007199254740993), f64b(255), f64b(256)}

func f32b(f float32) uint32 { return math.Float32bits(f) }

var edgeF32 = []uint32{0, 1 << 31, f32b(1), f32b(-1), f32b(1.5), f32b(0.1), f32b(1e10), f32b(1e13), f32b(1e16), f32b(1.7e9),
	f32b(9223372036854775808.0), f32b(9223371487098961920.0), f32b(9223373136366403584.0), f32b(-9223372036854775808.0),
	f32b(-9223373136366403584.0), 0x7f800000, 0xff800000, 0x7fc00000, 0x7fa00000, 0xffa00001, 0x7f800001, 0x00000001, f32b(16777217),
	f32b(math.MaxFloat32), f32b(3), f32b(-7)}

var edgeStrs = [][]byte{{}, []byte("a"), []byte("cpu"), []byte("héllo"), {0xff}, {0xc3}, {0xe2, 0x82}, {0xed, 0xa0, 0x80}, {0xf4, 0x90, 0x80, 0x80},
	[]byte("us-west-2"), {0x61, 0x80, 0x62}, {0xf0, 0x9f, 0x98, 0x80}, {0xc0, 0xaf}, {0xef, 0xbf, 0xbd}, []byte("0123456789012345678901234567890123456789")}

func (g *G) randInt() int64 {
	switch g.r.Intn(6) {
	case 0:
		return vh.Pick(g.r, edgeInts)
	case 1:
		return int64(g.r.Intn(256)) - 64
	case 2:
		return int64(g.r.U64() >> uint(g.r.Intn(64)))
	case 3:
		return -int64(g.r.U64() >> uint(1+g.r.Intn(63)))
	case 4:
		base := []int64{1e10, 1e13, 1e16, 1.7e9, 1.7e12, 1.7e15, 1.7e18}
		return vh.Pick(g.r, base) + int64(g.r.Intn(7)) - 3
	}
	return int64(g.r.U64())
}

func (g *G) wInt(w *W) {
	if g.r.Chance(6) {
		v := vh.Pick(g.r, edgeU64)
		if g.r.Chance(30) {
			v = g.r.U64() | 1<<63
		}
		w.u8(0xcf)
		w.be64(v)
		return
	}
	v := g.randInt()
	w.intW(v, vh.Pick(g.r, intWidths(v)))
}

func (g *G) wFloat(w *W) {
	switch g.r.Intn(6) {
	case 0, 1:
		w.f64(vh.Pick(g.r, edgeF64))
	case 2:
		w.f32(vh.Pick(g.r, edgeF32))
	case 3:
		w.f64(f64b(float64(g.randInt()) + float64(g.r.Intn(4))*0.25))
	case 4:
		w.f32(f32b(float32(g.randInt())))
	default:
		if g.r.Bool() {
			w.f64(g.r.U64())
		} else {
			w.f32(uint32(g.r.U64()))
		}
	}
}

func (g *G) randStr() []byte {
	switch g.r.Intn(5) {
	case 0, 1:
		return vh.Pick(g.r, edgeStrs)
	case 2:
		n := g.r.Intn(8)
		b := make([]byte, n)
		for i := range b {
			b[i] = byte('a' + g.r.Intn(26))
		}
		return b
	case 3:
		n := g.r.Intn(6)
		b := make([]byte, n)
		for i := range b {
			b[i] = byte(g.r.U64())
		}
		return b
	}
	n := vh.Pick(g.r, []int{31, 32, 33, 255, 256, 300})
	b := make([]byte, n)
	for i := range b {
		b[i] = byte('a' + i%26)
	}
	if g.r.Chance(30) {
		b[g.r.Intn(n)] = 0xfe
	}
	return b
}

func (g *G) wStr(w *W) {
	s := g.randStr()
	w.strW(s, g.r.Intn(4)%(1+g.r.Intn(4)))
}

func (g *G) wExt(w *W) {
	ty := vh.Pick(g.r, []byte{0xff, 0xff, 0x80, 5, 13, 0, 1, 0x7f})
	n := vh.Pick(g.r, []int{0, 1, 2, 4, 4, 8, 8, 12, 12, 16, 3, 5})
	d := make([]byte, n)
	for i := range d {
		d[i] = byte(g.r.U64())
	}
	w.extW(ty, d, g.r.Intn(3))
}

// any value; depth bounds nesting. kinds: scalars, bin, ext, arrays, string maps, typed maps
func (g *G) wAny(w *W, depth int) {
	k := g.r.Intn(14)
	if depth <= 0 && k >= 10 {
		k = g.r.Intn(10)
	}
	switch k {
	case 0, 1:
		g.wInt(w)
	case 2:
		g.wFloat(w)
	case 3, 4:
		g.wStr(w)
	case 5:
		w.boolv(g.r.Bool())
	case 6:
		w.nilv()
	case 7:
		w.binW(g.randStr(), g.r.Intn(3))
	case 8:
		g.wExt(w)
	case 9:
		g.wInt(w)
	case 10, 11:
		n := g.r.Intn(4)
		w.arrH(n, g.r.Intn(3)%(1+g.r.Intn(3)))
		for i := 0; i < n; i++ {
			g.wAny(w, depth-1)
		}
	case 12:
		n := g.r.Intn(3)
		w.mapH(n, g.r.Intn(3)%(1+g.r.Intn(3)))
		for i := 0; i < n; i++ {
			if i > 0 && g.r.Chance(15) {
				g.wKeyOdd(w)
			} else {
				g.wStr(w)
			}
			g.wAny(w, depth-1)
		}
	default: // typed map: first key not a string
		n := 1 + g.r.Intn(3)
		w.mapH(n, 0)
		kind := g.r.Intn(8)
		for i := 0; i < n; i++ {
			if i > 0 && g.r.Chance(25) {
				g.wKeyOdd(w)
			} else {
				switch kind {
				case 0, 1:
					g.wInt(w)
				case 2:
					g.wFloat(w)
				case 3:
					w.boolv(g.r.Bool())
				case 4:
					w.nilv()
				case 5:
					w.binW(g.randStr(), 0)
				case 6:
					g.wExt(w)
				default:
					w.arrH(0, 0)
				}
			}
			g.wAny(w, depth-1)
		}
	}
}

// a non-str key: bin / nil / int / float / bool / ext / array
func (g *G) wKeyOdd(w *W) {
	switch g.r.Intn(8) {
	case 0, 1:
		w.binW(g.randStr(), g.r.Intn(3))
	case 2:
		w.nilv()
	case 3:
		g.wInt(w)
	case 4:
		g.wFloat(w)
	case 5:
		w.boolv(g.r.Bool())
	case 6:
		g.wExt(w)
	default:
		w.arrH(1, 0)
		w.nilv()
	}
}

const (
	clInt = iota
	clFloat
	clStr
	clBool
	clNil
	clMixed
	clBad
)

func (g *G) wElem(w *W, cls int) {
	switch cls {
	case clInt:
		g.wInt(w)
	case clFloat:
		g.wFloat(w)
	case clStr:
		g.wStr(w)
	case clBool:
		w.boolv(g.r.Bool())
	case clNil:
		w.nilv()
	case clBad:
		switch g.r.Intn(4) {
		case 0:
			w.binW(g.randStr(), g.r.Intn(3))
		case 1:
			g.wExt(w)
		case 2:
			w.arrH(1, 0)
			g.wInt(w)
		default:
			w.mapH(1, 0)
			w.str("k")
			g.wInt(w)
		}
	default:
		g.wElem(w, g.r.Intn(5))
	}
}

// one value column of n elements
func (g *G) wValueColumn(w *W, n int, hw int) {
	cls := vh.Pick(g.r, []int{clInt, clInt, clFloat, clFloat, clStr, clStr, clBool, clNil, clMixed})
	nilP := vh.Pick(g.r, []int{0, 0, 10, 30, 60})
	mixP := vh.Pick(g.r, []int{0, 0, 0, 15, 40})
	badP := vh.Pick(g.r, []int{0, 0, 0, 0, 5})
	w.arrH(n, hw)
	g.c.Tag(fmt.Sprintf("col-class-%d", cls))
	for i := 0; i < n; i++ {
		switch {
		case g.r.Chance(nilP):
			w.nilv()
		case g.r.Chance(badP):
			g.wElem(w, clBad)
		case g.r.Chance(mixP):
			// numeric cross-coercions are the interesting mix; sometimes a real class conflict
			if (cls == clInt || cls == clFloat) && g.r.Chance(75) {
				g.wElem(w, vh.Pick(g.r, []int{clInt, clFloat}))
			} else {
				g.wElem(w, g.r.Intn(5))
			}
		default:
			g.wElem(w, cls)
		}
	}
}

func (g *G) wTimeColumn(w *W, n int, hw int) {
	w.arrH(n, hw)
	unit := vh.Pick(g.r, []int64{1, 1000, 1_000_000, 1_000_000_000})
	for i := 0; i < n; i++ {
		switch g.r.Intn(12) {
		case 0:
			g.wInt(w)
		case 1:
			g.wFloat(w)
		case 2:
			if g.r.Chance(30) {
				g.wElem(w, vh.Pick(g.r, []int{clNil, clStr, clBool, clBad}))
			} else {
				g.wInt(w)
			}
		case 3:
			w.f64(f64b(float64(1_700_000_000*unit) + float64(g.r.Intn(1000))))
		case 4, 5:
			// float epoch with a fractional part (time.time()-style), either sign, f64 or f32
			fr := vh.Pick(g.r, []float64{0.5, 0.75, 0.25, 0.999999, 1e-9, 0.001})
			v := float64((1_700_000_000+int64(g.r.Intn(100000)))*vh.Pick(g.r, []int64{1, 1, 1000, 1000, 1_000_000})) + fr
			if g.r.Chance(15) {
				v = -v
			}
			if g.r.Chance(15) {
				v = vh.Pick(g.r, []float64{1e10, 1e13, 9999999999, 9999999999999, 0, 1}) + fr*float64(1-2*g.r.Intn(2))
			}
			if g.r.Chance(20) {
				w.f32(f32b(float32(float64(g.r.Intn(1<<20)) + fr)))
			} else {
				w.f64(f64b(v))
			}
		default:
			v := (1_700_000_000 + int64(g.r.Intn(100000))) * unit
			w.intW(v, vh.Pick(g.r, intWidths(v)))
		}
	}
}

var colNames = []string{"a", "b", "c", "val", "host", "region", "_internal", "", "time", "Time", "columns", "m", "x1"}

// the "columns" map
func (g *G) wColumns(w *W) {
	if g.r.Chance(3) { // not a map at all
		g.wAny(w, 1)
		return
	}
	k := vh.Pick(g.r, []int{0, 1, 1, 2, 2, 2, 3, 3, 4, 6})
	n := vh.Pick(g.r, []int{0, 1, 1, 2, 3, 3, 4, 5, 16, 17})
	if g.r.Chance(1) {
		n = vh.Pick(g.r, []int{255, 256, 300})
	}
	hasTime := g.r.Chance(65)
	names := make([]string, 0, k+1)
	perm := g.r.Intn(1 << 30)
	for i := 0; i < k; i++ {
		names = append(names, colNames[(perm+i*5)%8])
	}
	if hasTime {
		pos := g.r.Intn(len(names) + 1)
		names = append(names[:pos], append([]string{"time"}, names[pos:]...)...)
	}
	// structural anomalies
	type colSpec struct {
		name    string
		kind    int // 0 array, 1 non-array value, 2 empty array, 3 other length, 4 odd key
	}
	specs := make([]colSpec, 0, len(names)+2)
	for _, nm := range names {
		specs = append(specs, colSpec{nm, 0})
	}
	if len(specs) > 0 {
		if g.r.Chance(12) { // duplicate of an existing key, array or not, anywhere
			d := specs[g.r.Intn(len(specs))]
			d.kind = vh.Pick(g.r, []int{0, 1, 1, 2, 3})
			pos := g.r.Intn(len(specs) + 1)
			specs = append(specs[:pos], append([]colSpec{d}, specs[pos:]...)...)
			g.c.Tag("dup-column-key")
		}
		if g.r.Chance(8) {
			specs[g.r.Intn(len(specs))].kind = 1
			g.c.Tag("non-array-column")
		}
		if g.r.Chance(4) {
			specs[g.r.Intn(len(specs))].kind = 2
		}
		if g.r.Chance(5) {
			specs[g.r.Intn(len(specs))].kind = 3
			g.c.Tag("length-mismatch")
		}
		if g.r.Chance(4) {
			specs[g.r.Intn(len(specs))].kind = 4
			g.c.Tag("non-string-column-key")
		}
	}
	cnt := len(specs)
	if g.r.Chance(2) {
		cnt += g.r.Intn(3) - 1 // header count off by one
		if cnt < 0 {
			cnt = 0
		}
	}
	w.mapH(cnt, g.r.Intn(3)%(1+g.r.Intn(3)))
	for _, sp := range specs {
		if sp.kind == 4 {
			g.wKeyOdd(w)
		} else {
			w.strW([]byte(sp.name), g.r.Intn(4)%(1+g.r.Intn(6)))
		}
		hw := g.r.Intn(3) % (1 + g.r.Intn(4))
		switch sp.kind {
		case 1:
			g.wAny(w, 2)
		case 2:
			w.arrH(0, hw)
		default:
			m := n
			if sp.kind == 3 {
				m = n + 1 + g.r.Intn(2)
			}
			if sp.name == "time" && g.r.Chance(92) {
				g.wTimeColumn(w, m, hw)
			} else {
				g.wValueColumn(w, m, hw)
			}
		}
	}
}

func (g *G) wMeas(w *W) {
	switch g.r.Intn(12) {
	case 0:
		g.wInt(w)
	case 1:
		w.u8(0xcf)
		w.be64(vh.Pick(g.r, edgeU64))
	case 2:
		g.wAny(w, 1)
	case 3:
		g.wStr(w)
	default:
		w.strW([]byte(vh.Pick(g.r, []string{"cpu", "mem", "m", "", "disk.io", "x"})), g.r.Intn(4)%(1+g.r.Intn(6)))
	}
}

// a top-level / batch-item map. shape: 0 columnar, 1 row, 2 batch
func (g *G) wPayloadMap(w *W, shape int, depth int) {
	type kv struct {
		key string
		f   func()
	}
	var kvs []kv
	if g.r.Chance(95) {
		kvs = append(kvs, kv{"m", func() { g.wMeas(w) }})
	}
	switch shape {
	case 0:
		kvs = append(kvs, kv{"columns", func() { g.wColumns(w) }})
	case 1:
		if g.r.Chance(80) {
			kvs = append(kvs, kv{"t", func() {
				if g.r.Chance(85) {
					g.wInt(w)
				} else {
					g.wAny(w, 0)
				}
			}})
		}
		if g.r.Chance(50) {
			kvs = append(kvs, kv{"h", func() { g.wAny(w, 0) }})
		}
		if g.r.Chance(75) {
			kvs = append(kvs, kv{"fields", func() {
				if g.r.Chance(90) {
					n := g.r.Intn(4)
					w.mapH(n, 0)
					for i := 0; i < n; i++ {
						w.str(vh.Pick(g.r, []string{"v", "x", "y", "load"}))
						g.wAny(w, 1)
					}
				} else {
					g.wAny(w, 1)
				}
			}})
		}
		if g.r.Chance(20) {
			kvs = append(kvs, kv{"f", func() { g.wAny(w, 1) }})
		}
		if g.r.Chance(50) {
			kvs = append(kvs, kv{"tags", func() {
				n := g.r.Intn(3)
				w.mapH(n, 0)
				for i := 0; i < n; i++ {
					w.str(vh.Pick(g.r, []string{"host", "dc"}))
					if g.r.Chance(70) {
						g.wStr(w)
					} else {
						g.wInt(w)
					}
				}
			}})
		}
	case 2:
		kvs = append(kvs, kv{"batch", func() {
			if g.r.Chance(8) {
				g.wAny(w, 1)
				return
			}
			n := g.r.Intn(4)
			w.arrH(n, g.r.Intn(3)%(1+g.r.Intn(3)))
			for i := 0; i < n; i++ {
				if g.r.Chance(10) || depth <= 0 {
					g.wAny(w, 1)
				} else {
					g.wPayloadMap(w, vh.Pick(g.r, []int{0, 0, 1, 1, 2}), depth-1)
				}
			}
		}})
		if g.r.Chance(30) {
			kvs = append(kvs, kv{"columns", func() { g.wColumns(w) }})
		}
	}
	// extra / skipped keys
	for g.r.Chance(25) && len(kvs) < 7 {
		name := vh.Pick(g.r, []string{"extra", "z", "t", "h", "tags", "fields", "meta", "f"})
		kvs = append(kvs, kv{name, func() { g.wAny(w, 2) }})
	}
	// duplicates of special keys
	if g.r.Chance(6) && len(kvs) > 0 {
		d := kvs[g.r.Intn(len(kvs))]
		if g.r.Chance(40) {
			d.f = func() { g.wAny(w, 1) }
		}
		kvs = append(kvs, d)
		g.c.Tag("dup-top-key")
	}
	if g.r.Chance(4) {
		kvs = append(kvs, kv{"batch", func() { g.wAny(w, 1) }})
	}
	// shuffle
	for i := len(kvs) - 1; i > 0; i-- {
		j := g.r.Intn(i + 1)
		kvs[i], kvs[j] = kvs[j], kvs[i]
	}
	cnt := len(kvs)
	if g.r.Chance(2) {
		cnt += g.r.Intn(3) - 1
		if cnt < 0 {
			cnt = 0
		}
	}
	w.mapH(cnt, g.r.Intn(3)%(1+g.r.Intn(4)))
	for i, e := range kvs {
		if g.r.Chance(2) {
			g.wKeyOdd(w)
			g.c.Tag("non-string-top-key")
			if i == 0 {
				g.c.Tag("non-string-first-top-key")
			}
		} else {
			w.strW([]byte(e.key), g.r.Intn(4)%(1+g.r.Intn(6)))
		}
		e.f()
	}
}

func (g *G) body() ([]byte, string) {
	w := &W{}
	kind := ""
	switch k := g.r.Intn(100); {
	case k < 62:
		kind = "columnar"
		g.wPayloadMap(w, 0, 1)
	case k < 72:
		kind = "row"
		g.wPayloadMap(w, 1, 1)
	case k < 82:
		kind = "batch"
		g.wPayloadMap(w, 2, 2)
	case k < 92:
		kind = "toparray"
		n := g.r.Intn(4)
		w.arrH(n, g.r.Intn(3)%(1+g.r.Intn(3)))
		for i := 0; i < n; i++ {
			if g.r.Chance(12) {
				g.wAny(w, 1)
			} else {
				g.wPayloadMap(w, vh.Pick(g.r, []int{0, 0, 1, 2}), 1)
			}
		}
	case k < 97:
		kind = "anyvalue"
		g.wAny(w, 3)
	default:
		kind = "randombytes"
		n := g.r.Intn(24)
		for i := 0; i < n; i++ {
			w.u8(byte(g.r.U64()))
		}
	}
	return w.b, kind
}

var hotBytes = []byte{0xc0, 0xc1, 0xc2, 0xc3, 0xc4, 0xc7, 0xca, 0xcb, 0xcc, 0xcf, 0xd0, 0xd3, 0xd4, 0xd9, 0xdb, 0xdc, 0xdd, 0xde, 0xdf,
	0x80, 0x81, 0x90, 0x91, 0xa0, 0xa1, 0xa4, 0x00, 0x7f, 0xe0, 0xff, 0x92, 0x82}

// post-processing: trailing bytes, truncation, byte mutation, forged length headers
func (g *G) mutate(b []byte) ([]byte, string) {
	switch k := g.r.Intn(100); {
	case k < 62:
		return b, "intact"
	case k < 70:
		n := 1 + g.r.Intn(4)
		o := cp(b)
		for i := 0; i < n; i++ {
			o = append(o, byte(g.r.U64()))
		}
		return o, "trailing"
	case k < 80:
		if len(b) == 0 {
			return b, "intact"
		}
		return cp(b[:g.r.Intn(len(b))]), "truncated"
	case k < 94:
		if len(b) == 0 {
			return b, "intact"
		}
		o := cp(b)
		m := 1 + g.r.Intn(2)
		for i := 0; i < m; i++ {
			p := g.r.Intn(len(o))
			if g.r.Bool() {
				o[p] = vh.Pick(g.r, hotBytes)
			} else if g.r.Bool() {
				o[p] ^= 1 << uint(g.r.Intn(8))
			} else {
				o[p] = byte(g.r.U64())
			}
		}
		return o, "mutated"
	case k < 99:
		if len(b) == 0 {
			return b, "intact"
		}
		o := cp(b)
		p := g.r.Intn(len(o))
		if g.r.Bool() {
			o = append(o[:p], o[p+1:]...)
		} else {
			o = append(o[:p], append([]byte{vh.Pick(g.r, hotBytes)}, o[p:]...)...)
		}
		return o, "indel"
	default:
		// forge a length header: find an array/map/str16/32 header byte and inflate it
		o := cp(b)
		for try := 0; try < 8 && len(o) > 0; try++ {
			p := g.r.Intn(len(o))
			c := o[p]
			if c >= 0x90 && c <= 0x9f {
				// fixarray -> array32 with a forged count (bounded so that the library's 1e6 cap, arc's 1<<20 cap and plain EOF are all hit)
				cnt := vh.Pick(g.r, []uint32{1 << 20, 1<<20 + 1, 1_000_000, 1_000_001, 0xffffffff, 70000, 1 << 31})
				h := []byte{0xdd, 0, 0, 0, 0}
				binary.BigEndian.PutUint32(h[1:], cnt)
				o = append(o[:p], append(h, o[p+1:]...)...)
				return o, "forged-array-len"
			}
			if c >= 0x80 && c <= 0x8f {
				// (a forged map claim makes the library pre-size a 10^6-entry map: ~40 ms per decode, keep rare)
				cnt := vh.Pick(g.r, []uint32{65536, 70000, 65536, 100000, 65537, 16})
				if g.r.Chance(4) {
					cnt = vh.Pick(g.r, []uint32{1_000_001, 0xffffffff, 1 << 31})
				}
				h := []byte{0xdf, 0, 0, 0, 0}
				binary.BigEndian.PutUint32(h[1:], cnt)
				o = append(o[:p], append(h, o[p+1:]...)...)
				return o, "forged-map-len"
			}
			if c >= 0xa0 && c <= 0xbf {
				cnt := vh.Pick(g.r, []uint32{0xffffffff, 1 << 20, 1 << 31, 70000})
				h := []byte{0xdb, 0, 0, 0, 0}
				binary.BigEndian.PutUint32(h[1:], cnt)
				o = append(o[:p], append(h, o[p+1:]...)...)
				return o, "forged-str-len"
			}
		}
		return o, "intact"
	}
}

// ---------------------------------------------------------------- one case

type runner struct {
	c         *vh.Ctx
	hits      int
	walSeen   int
	walStride int  // every walStride-th typed hit with NULLs goes through the WAL stage
	forceWAL  bool // edge grid / corpus: all of them
	walRuns   int
}

// ---------------------------------------------------------------- WAL stage (what the rows are rebuilt from after a crash)

func walCfg() *config.IngestConfig {
	return &config.IngestConfig{
		MaxBufferSize: 1 << 30, MaxBufferAgeMS: 3600_000, Compression: "none",
		FlushWorkers: 1, FlushQueueSize: 4, ShardCount: 2,
	}
}

// walEntries: payloads of the framed entries of every WAL file in dir, rendered `raw:<hex body>` for
// an enveloped raw client payload (must carry database "db") or `rows` for a row-record entry.
func walEntries(dir string) ([]string, error) {
	fs, _ := filepath.Glob(filepath.Join(dir, "*"))
	sort.Strings(fs)
	var out []string
	for _, f := range fs {
		b, err := os.ReadFile(f)
		if err != nil {
			return nil, err
		}
		off := wal.WALFileHeaderSize
		for off+wal.WALEntryHeaderSize <= len(b) {
			n := int(binary.BigEndian.Uint32(b[off : off+4]))
			end := off + wal.WALEntryHeaderSize + n
			if end > len(b) {
				break
			}
			pl := b[off+wal.WALEntryHeaderSize : end]
			if len(pl) > 3 && pl[0] == wal.WALEnvelopeMarker {
				db, inner := wal.ParseEnvelope(pl, "?")
				if db != "db" {
					out = append(out, "raw-db-"+hx([]byte(db)))
				} else {
					out = append(out, "raw:"+hx(inner))
				}
			} else {
				out = append(out, "rows")
			}
			off = end
		}
	}
	return out, nil
}

// walRun: the real handler glue with a WAL configured — Decode (flag), ArrowBuffer.Write with a real
// wal.Writer — then the process "dies" (buffer abandoned, its object store discards writes), a fresh
// buffer replays the WAL through the real recovery callbacks of cmd/arc/main.go, flushes, and the
// stored Parquet rows are read back. Returns (WAL entries, stored rows).
func (r *runner) walRun(body []byte, typed bool) (entries string, stored string) {
	ctx := context.Background()
	dir, err := os.MkdirTemp(r.c.OutDir, "wal")
	if err != nil {
		return "err:" + err.Error(), ""
	}
	defer os.RemoveAll(dir)
	out := vh.Guard(func() string {
		w, err := wal.NewWriter(&wal.WriterConfig{WALDir: dir, SyncMode: wal.SyncModeAsync, BufferSize: 64, Logger: zerolog.Nop()})
		if err != nil {
			return "err:walwriter:" + err.Error()
		}
		d1 := newDisk()
		v1 := d1.open()
		live := ingest.NewArrowBuffer(walCfg(), v1, zerolog.Nop())
		live.SetWAL(w)
		res, err := newDec(typed).Decode(cp(body))
		if err != nil {
			w.Close()
			v1.kill()
			live.Close()
			return "err:decode"
		}
		werr := live.Write(ctx, "db", res)
		w.Close() // drains the async queue: the WAL is durable
		v1.kill() // crash: nothing of the in-memory buffer reaches the store
		live.Close()
		es, err := walEntries(dir)
		if err != nil {
			return "err:walread:" + err.Error()
		}
		entries = strings.Join(es, " ")
		if werr != nil {
			entries += " write-rejected"
		}
		// restart
		d2 := newDisk()
		rec := ingest.NewArrowBuffer(walCfg(), d2.open(), zerolog.Nop())
		rowCb := createWALRecoveryCallback(rec, zerolog.Nop())
		colCb := createColumnarRecoveryCallback(rec, zerolog.Nop())
		_, rerr := wal.NewRecovery(dir, zerolog.Nop()).RecoverWithOptions(ctx, rowCb, &wal.RecoveryOptions{ColumnarCallback: colCb})
		ferr := rec.FlushAll(ctx)
		rec.Close()
		rows, derr := d2.allRows()
		var ts []string
		for i := range rows {
			ts = append(ts, rows[i].text(nil))
		}
		sort.Strings(ts)
		stored = strings.Join(ts, " ; ")
		if rerr != nil {
			stored += " recovery-error"
		}
		if ferr != nil {
			stored += " flush-error"
		}
		if derr != nil {
			stored += " readback-error:" + derr.Error()
		}
		return ""
	})
	if out != "" {
		return out, stored
	}
	return entries, stored
}

// ---------------------------------------------------------------- sequence stage (several writes to one measurement)

// seqRun: the bodies are decoded (flag) and written, in order, through the real ArrowBuffer.Write into
// one buffer with its own object store; with withWAL the process then "dies" and the WAL is replayed
// into a fresh buffer (as in walRun). FlushAll, Close, and every stored Parquet file is read back.
// Returns "files=<n> rows=<sorted rows>" (+ error markers). Real clock: flush file names must be unique.
func (r *runner) seqRun(bodies [][]byte, typed, withWAL bool) string {
	ctx := context.Background()
	verifclock.Real()
	defer verifclock.Set(nowUs * 1000)
	var dir string
	if withWAL {
		d, err := os.MkdirTemp(r.c.OutDir, "wal")
		if err != nil {
			return "err:" + err.Error()
		}
		dir = d
		defer os.RemoveAll(dir)
	}
	return vh.Guard(func() string {
		d1 := newDisk()
		v1 := d1.open()
		buf := ingest.NewArrowBuffer(walCfg(), v1, zerolog.Nop())
		var w *wal.Writer
		if withWAL {
			var err error
			w, err = wal.NewWriter(&wal.WriterConfig{WALDir: dir, SyncMode: wal.SyncModeAsync, BufferSize: 64, Logger: zerolog.Nop()})
			if err != nil {
				return "err:walwriter:" + err.Error()
			}
			buf.SetWAL(w)
		}
		var marks []string
		for i, b := range bodies {
			res, err := newDec(typed).Decode(cp(b))
			if err != nil {
				marks = append(marks, fmt.Sprintf("decode-rejected@%d", i))
				continue
			}
			if err := buf.Write(ctx, "db", res); err != nil {
				marks = append(marks, fmt.Sprintf("write-rejected@%d", i))
			}
		}
		d := d1
		if withWAL {
			w.Close()
			v1.kill()
			buf.Close()
			d = newDisk()
			buf = ingest.NewArrowBuffer(walCfg(), d.open(), zerolog.Nop())
			rowCb := createWALRecoveryCallback(buf, zerolog.Nop())
			colCb := createColumnarRecoveryCallback(buf, zerolog.Nop())
			if _, err := wal.NewRecovery(dir, zerolog.Nop()).RecoverWithOptions(ctx, rowCb, &wal.RecoveryOptions{ColumnarCallback: colCb}); err != nil {
				marks = append(marks, "recovery-error")
			}
		}
		if err := buf.FlushAll(ctx); err != nil {
			marks = append(marks, "flush-error")
		}
		buf.Close()
		rows, derr := d.allRows()
		if derr != nil {
			marks = append(marks, "readback-error:"+derr.Error())
		}
		files := map[string]bool{}
		ts := make([]string, len(rows))
		for i := range rows {
			ts[i] = rows[i].text(nil)
			files[rows[i].path] = true
		}
		sort.Strings(ts)
		return fmt.Sprintf("files=%d rows=%d [%s] %s", len(files), len(rows), strings.Join(ts, " ; "), strings.Join(marks, ","))
	})
}

func (r *runner) seqStage(bodies [][]byte, withWAL bool) {
	c := r.c
	on := r.seqRun(bodies, true, withWAL)
	off := r.seqRun(bodies, false, withWAL)
	hs := make([]string, len(bodies))
	for i, b := range bodies {
		hs[i] = hx(b)
	}
	canon := "seq " + strings.Join(hs, " ")
	c.Tag("seq-stage")
	if withWAL {
		c.Tag("seq-stage-wal")
	}
	c.Case(canon, true)
	if on != off {
		key := "stored-differs:sequence:typed-vs-generic"
		if withWAL {
			key = "stored-differs-after-replay:sequence:typed-vs-generic"
		}
		c.Fail(key, "rows stored after a sequence of writes to one measurement (FlushAll, all files) differ with the typed fast path on/off ON="+clip(on)+" OFF="+clip(off), canon)
		c.Tag("PROPFAIL " + key)
	}
}

// one body of a sequence: {m:"seq", columns:{time:[…], v:[…] (class vc), w:[…] (class wc, -1 = absent)}}
// classes: 0 int, 1 float, 2 str, 3 bool, 4 all-nil; nilAt >= 0 puts a NULL into v at that row.
func seqBody(t0 int64, n int, vc, wc int, nilAt int) []byte {
	elem := func(w *W, cls int, i int) {
		switch cls {
		case 0:
			w.intW(int64(i+1), 0)
		case 1:
			w.f64(f64b(float64(i) + 1.5))
		case 2:
			w.str(fmt.Sprintf("s%d", i))
		case 3:
			w.boolv(i%2 == 0)
		default:
			w.nilv()
		}
	}
	return mk(func(w *W) {
		w.mapH(2, 0)
		w.str("m")
		w.str("seq")
		w.str("columns")
		k := 2
		if wc >= 0 {
			k = 3
		}
		w.mapH(k, 0)
		w.str("time")
		w.arrH(n, 0)
		for i := 0; i < n; i++ {
			w.intW(t0+int64(i), 4)
		}
		w.str("v")
		w.arrH(n, 0)
		for i := 0; i < n; i++ {
			if i == nilAt {
				w.nilv()
			} else {
				elem(w, vc, i)
			}
		}
		if wc >= 0 {
			w.str("w")
			w.arrH(n, 0)
			for i := 0; i < n; i++ {
				elem(w, wc, i)
			}
		}
	})
}

// edge grid of the sequence stage: every type triple A,B,C of one column over {int,float,str,bool,all-nil}
// (3 writes inside one flush window), and column-set changes.
func (r *runner) seqGrid() {
	const base = int64(1_700_000_000_000_000)
	for a := 0; a < 5; a++ {
		for b := 0; b < 5; b++ {
			for cc := 0; cc < 5; cc++ {
				if a == b && b == cc {
					continue
				}
				r.seqStage([][]byte{seqBody(base, 2, a, -1, -1), seqBody(base+10, 1, b, -1, -1), seqBody(base+20, 2, cc, -1, -1)}, false)
			}
		}
	}
	for _, ws := range [][]int{{-1, 0, -1}, {0, -1, 0}, {0, 1, 0}, {-1, 2, 0, -1}, {1, 1, 0, 0, 1}} {
		var bs [][]byte
		for i, wc := range ws {
			bs = append(bs, seqBody(base+int64(10*i), 2, 0, wc, i%2))
		}
		r.seqStage(bs, false)
		r.seqStage(bs, true)
	}
	r.seqStage([][]byte{seqBody(base, 2, 0, -1, -1), seqBody(base+10, 1, 1, -1, -1), seqBody(base+20, 2, 0, -1, 0)}, true)
}

func (r *runner) seqRandom(g *G, n int) {
	const base = int64(1_700_000_000_000_000)
	for i := 0; i < n; i++ {
		k := g.r.Range(2, 5)
		var bs [][]byte
		vc, wc := g.r.Intn(5), g.r.Intn(6)-1
		for j := 0; j < k; j++ {
			if g.r.Chance(55) {
				vc = g.r.Intn(5)
			}
			if g.r.Chance(35) {
				wc = g.r.Intn(6) - 1
			}
			rows := g.r.Range(1, 3)
			nilAt := -1
			if g.r.Chance(30) {
				nilAt = g.r.Intn(rows)
			}
			bs = append(bs, seqBody(base+int64(10*j), rows, vc, wc, nilAt))
		}
		r.seqStage(bs, g.r.Chance(15))
	}
}

func (r *runner) walStage(body []byte) {
	c := r.c
	r.walRuns++
	eOn, sOn := r.walRun(body, true)
	eOff, sOff := r.walRun(body, false)
	short := func(e string) string { // model-level rendering
		return e
	}
	rejOn, rejOff := strings.HasSuffix(eOn, "write-rejected"), strings.HasSuffix(eOff, "write-rejected")
	if rejOn && rejOff {
		// ArrowBuffer.Write rejects the record with the flag on AND off (e.g. an empty column name): the
		// request is not acknowledged either way, there is no WAL record "of the write" to compare (the
		// generic path appends before it validates, the typed path validates first — a C05 matter);
		// what ends up stored after replay is still compared below.
		c.Tag("wal-stage-write-rejected-both")
	} else {
		c.Op("wal "+hx(body), "on="+short(eOn)+" off="+short(eOff))
	}
	c.Tag("wal-stage")
	if eOn != eOff && !(rejOn && rejOff) {
		c.Fail("wal-entry-differs:typed-vs-generic",
			"the WAL record of the same request differs with the typed fast path on/off (rows would be rebuilt from different data after a crash) ON="+clip(eOn)+" OFF="+clip(eOff),
			"wal "+hx(body))
		c.Tag("PROPFAIL wal-entry-differs:typed-vs-generic")
	}
	if sOn != sOff {
		c.Fail("stored-differs-after-replay:typed-vs-generic",
			"rows / null positions stored after crash + WAL replay differ with the typed fast path on/off ON="+clip(sOn)+" OFF="+clip(sOff),
			"wal "+hx(body))
		c.Tag("PROPFAIL stored-differs-after-replay:typed-vs-generic")
	}
}

func (r *runner) run(body []byte, tags ...string) {
	c := r.c
	tl, hasNils := typedLine(body)
	t := canonPanic(tl, nil)
	gline := canonPanic(decodeObs(body, false, false), body)
	c.Op("dec "+hx(body), "T="+t+" G="+gline)
	hit := strings.HasPrefix(t, "hit")
	r.monitor(body)
	// WAL stage: only for writes BOTH settings accept (inside the known Skip-vs-Unmarshal class the
	// generic path rejects the request, so there is no second WAL record to compare with)
	if hit && hasNils && len(body) < 4096 && strings.HasPrefix(gline, "ok[C") {
		r.walSeen++
		if r.walSeen%r.walStride == 0 || r.forceWAL {
			r.walStage(body)
		}
	}
	if hit {
		r.hits++
		c.Tag("typed-hit")
	} else {
		c.Tag("typed-miss")
	}
	for _, tg := range tags {
		c.Tag(tg)
	}
	switch {
	case strings.HasPrefix(gline, "ok[C"):
		c.Tag("generic-columnar-accepted")
	case strings.HasPrefix(gline, "ok["):
		c.Tag("generic-ok-other")
	default:
		c.Tag("generic-" + gline)
	}
	c.Case(hx(body), hit || !strings.HasPrefix(gline, "E:unmarshal"))
}

// monitor: the property itself on the REAL code — flag on vs flag off, deep observation.
func (r *runner) monitor(body []byte) {
	c := r.c
	on := decodeObs(body, true, true)
	off := decodeObs(body, false, true)
	if on != off {
		key, what := classify(on, off, body)
		replay := "dec " + hx(body)
		if len(body) > 4096 {
			replay = fmt.Sprintf("dec <%d bytes, prefix %s>", len(body), hx(body[:64]))
		}
		c.Fail(key, what+" ON="+clip(on)+" OFF="+clip(off), replay)
		c.Tag("PROPFAIL " + key)
	}
}

func clip(s string) string {
	if len(s) > 300 {
		return s[:300] + "…"
	}
	return s
}

func accepted(obs string) bool {
	return strings.HasPrefix(obs, "ok[") && !strings.Contains(obs, "X(") && !strings.Contains(obs, "nested")
}

// field of the single columnar record text "ok[C{m=.. n=.. cols}sig=.. raw=..]"
func colNamesOf(obs string) string {
	i := strings.Index(obs, " n=")
	j := strings.LastIndex(obs, "}")
	if i < 0 || j < i {
		return ""
	}
	rest := obs[i:j]
	k := strings.Index(rest[1:], " ")
	if k < 0 {
		return ""
	}
	var names []string
	for _, col := range strings.Split(rest[k+2:], ";") {
		names = append(names, strings.SplitN(col, ":", 2)[0])
	}
	return strings.Join(names, ",")
}

// ---- a minimal msgpack walker, used only to attribute a difference to its root cause

func beN(b []byte, p, k int) (int, bool) {
	if p+k > len(b) {
		return 0, false
	}
	v := 0
	for i := 0; i < k; i++ {
		v = v<<8 | int(b[p+i])
	}
	return v, true
}

// header of a length-carrying value at p: (count, position after header, kind) kind: 's' str, 'b' bin, 'a' array, 'm' map, 'e' ext
func hdr(b []byte, p int) (n, np int, kind byte, ok bool) {
	if p >= len(b) {
		return 0, 0, 0, false
	}
	c := b[p]
	switch {
	case c >= 0x80 && c <= 0x8f:
		return int(c & 0xf), p + 1, 'm', true
	case c >= 0x90 && c <= 0x9f:
		return int(c & 0xf), p + 1, 'a', true
	case c >= 0xa0 && c <= 0xbf:
		return int(c & 0x1f), p + 1, 's', true
	}
	tab := map[byte]struct {
		k    int
		kind byte
	}{0xc4: {1, 'b'}, 0xc5: {2, 'b'}, 0xc6: {4, 'b'}, 0xc7: {1, 'e'}, 0xc8: {2, 'e'}, 0xc9: {4, 'e'},
		0xd9: {1, 's'}, 0xda: {2, 's'}, 0xdb: {4, 's'}, 0xdc: {2, 'a'}, 0xdd: {4, 'a'}, 0xde: {2, 'm'}, 0xdf: {4, 'm'}}
	if t, found := tab[c]; found {
		v, ok := beN(b, p+1, t.k)
		return v, p + 1 + t.k, t.kind, ok
	}
	return 0, 0, 0, false
}

func skipVal(b []byte, p int) (int, bool) {
	if p >= len(b) {
		return 0, false
	}
	c := b[p]
	fixed := map[byte]int{0xc0: 0, 0xc2: 0, 0xc3: 0, 0xca: 4, 0xcb: 8, 0xcc: 1, 0xcd: 2, 0xce: 4, 0xcf: 8, 0xd0: 1, 0xd1: 2, 0xd2: 4, 0xd3: 8,
		0xd4: 2, 0xd5: 3, 0xd6: 5, 0xd7: 9, 0xd8: 17}
	if c <= 0x7f || c >= 0xe0 {
		return p + 1, true
	}
	if k, ok := fixed[c]; ok {
		return p + 1 + k, p+1+k <= len(b)
	}
	n, np, kind, ok := hdr(b, p)
	if !ok {
		return 0, false
	}
	switch kind {
	case 's', 'b':
		return np + n, np+n <= len(b)
	case 'e':
		return np + 1 + n, np+1+n <= len(b)
	case 'm':
		n *= 2
	}
	for i := 0; i < n; i++ {
		if np, ok = skipVal(b, np); !ok {
			return 0, false
		}
	}
	return np, true
}

// shadowedDup: the top-level "columns" map has a key with an array value and LATER a non-array value.
func shadowedDup(b []byte) bool {
	n, p, kind, ok := hdr(b, 0)
	if !ok || kind != 'm' {
		return false
	}
	for i := 0; i < n; i++ {
		kl, kp, kk, ok := hdr(b, p)
		if !ok || kk != 's' || kp+kl > len(b) {
			return false
		}
		key := string(b[kp : kp+kl])
		p = kp + kl
		if key == "columns" {
			cn, cp, ck, ok := hdr(b, p)
			if ok && ck == 'm' {
				arr := map[string]bool{}
				for j := 0; j < cn; j++ {
					l, q, k2, ok := hdr(b, cp)
					if !ok || k2 != 's' || q+l > len(b) {
						break
					}
					name := string(b[q : q+l])
					cp = q + l
					_, _, vk, vok := hdr(b, cp)
					isArr := vok && vk == 'a'
					if isArr {
						arr[name] = true
					} else if arr[name] {
						return true
					}
					if cp, ok = skipVal(b, cp); !ok {
						break
					}
				}
			}
		}
		if p, ok = skipVal(b, p); !ok {
			return false
		}
	}
	return false
}

// columns of "ok[C{m=.. n=.. c1;c2;..}sig=.. raw=..]" as name -> text
func colMap(obs string) map[string]string {
	i := strings.Index(obs, " n=")
	j := strings.LastIndex(obs, "}")
	if i < 0 || j < i {
		return nil
	}
	rest := obs[i+1 : j]
	k := strings.Index(rest, " ")
	if k < 0 {
		return nil
	}
	m := map[string]string{"#head": obs[:i] + rest[:k] + obs[j:]}
	for _, col := range strings.Split(rest[k+1:], ";") {
		m[strings.SplitN(col, ":", 2)[0]] = col
	}
	return m
}

func onlyTimeDiffers(on, off string) bool {
	a, b := colMap(on), colMap(off)
	if a == nil || b == nil || len(a) != len(b) {
		return false
	}
	diff := 0
	for k, v := range a {
		if b[k] != v {
			if k != "74696d65" {
				return false
			}
			diff++
		}
	}
	return diff == 1
}

// timeHasFraction: some array under a "time" key of the top-level "columns" map holds a float32/64
// element with a non-zero fractional part.
func timeHasFraction(b []byte) bool {
	n, p, kind, ok := hdr(b, 0)
	if !ok || kind != 'm' {
		return false
	}
	for i := 0; i < n; i++ {
		kl, kp, kk, ok := hdr(b, p)
		if !ok || kk != 's' || kp+kl > len(b) {
			return false
		}
		key := string(b[kp : kp+kl])
		p = kp + kl
		if key == "columns" {
			cn, cp, ck, ok := hdr(b, p)
			for j := 0; ok && ck == 'm' && j < cn; j++ {
				l, q, k2, ok2 := hdr(b, cp)
				if !ok2 || k2 != 's' || q+l > len(b) {
					break
				}
				name := string(b[q : q+l])
				cp = q + l
				if an, ap, ak, aok := hdr(b, cp); aok && ak == 'a' && name == "time" {
					for e := 0; e < an && ap < len(b); e++ {
						switch b[ap] {
						case 0xcb:
							if v, ok3 := beN(b, ap+1, 8); ok3 {
								f := math.Float64frombits(uint64(v))
								if f != math.Trunc(f) && !math.IsNaN(f) {
									return true
								}
							}
						case 0xca:
							if v, ok3 := beN(b, ap+1, 4); ok3 {
								f := float64(math.Float32frombits(uint32(v)))
								if f != math.Trunc(f) && !math.IsNaN(f) {
									return true
								}
							}
						}
						var ok4 bool
						if ap, ok4 = skipVal(b, ap); !ok4 {
							break
						}
					}
				}
				var ok5 bool
				if cp, ok5 = skipVal(b, cp); !ok5 {
					break
				}
			}
		}
		if p, ok = skipVal(b, p); !ok {
			return false
		}
	}
	return false
}

// classify attributes an ON/OFF difference to a root cause where one is recognised (stable keys).
func classify(on, off string, body []byte) (string, string) {
	aOn, aOff := accepted(on), accepted(off)
	if aOn && !aOff && strings.HasPrefix(off, "panic:") {
		return "accept-differs:typed-Skip-vs-generic-Unmarshal:panic", "flag ON accepts a body on which flag OFF panics inside msgpack.Unmarshal (a value the typed path only Skip()s)"
	}
	if aOn && !aOff && off == "E:unmarshal" {
		return "accept-differs:typed-Skip-vs-generic-Unmarshal:error", "flag ON accepts a body flag OFF rejects: a value the typed path only Skip()s cannot be unmarshalled by the generic path"
	}
	if aOn && shadowedDup(body) {
		return "columns-differ:duplicate-column-key-array-then-non-array", "a column key carries an array and later a non-array value: flag ON keeps the array column, flag OFF (last-wins map) drops it (different column set / generated instead of supplied time / rejection when no column is left)"
	}
	switch {
	case aOn && !aOff:
		if strings.HasPrefix(off, "E:") {
			return "accept-differs:typed-accepts:generic-decode-rejects", "flag ON accepts a body the generic decoder rejects"
		}
		return "accept-differs:typed-accepts:generic-typing-rejects", "flag ON accepts a body convertColumnsToTyped rejects"
	case !aOn && aOff:
		return "accept-differs:typed-rejects:generic-accepts", "flag ON rejects a body that flag OFF accepts"
	case aOn && aOff:
		if onlyTimeDiffers(on, off) {
			if timeHasFraction(body) {
				return "typed-generic-differ:time-float-fraction", "client-supplied time column stored differently with the flag on/off; the column has float elements with a fractional part (truncation before vs after unit scaling)"
			}
			return "typed-generic-differ:time-column-values", "client-supplied time column stored differently with the flag on/off"
		}
		if colNamesOf(on) != colNamesOf(off) {
			return "stored-differs:column-set", "stored column set differs"
		}
		return "stored-differs:values-types-or-nulls", "same columns, different measurement / type / values / null positions / row count / signature"
	}
	return "reject-differs", "both reject but observably differently"
}

// ---------------------------------------------------------------- edge grid

func H(s string) []byte {
	b, err := hex.DecodeString(strings.ReplaceAll(s, " ", ""))
	if err != nil {
		panic(err)
	}
	return b
}

func mk(f func(w *W)) []byte {
	w := &W{}
	f(w)
	return w.b
}

// {m: "x", columns: {<cols>}, <extra>}
func columnar(ncols int, cols func(w *W), nextra int, extra func(w *W)) []byte {
	return mk(func(w *W) {
		w.mapH(2+nextra, 0)
		w.str("m")
		w.str("x")
		w.str("columns")
		w.mapH(ncols, 0)
		cols(w)
		if extra != nil {
			extra(w)
		}
	})
}

func (r *runner) edgeGrid() {
	// minimal witnesses of the known divergence class FIRST (c.Fail keeps the first replay per key);
	// the duplicate-column bodies are the regression inputs of the fixed finding (d7052e6): the
	// columns-differ monitor stays live and must never fire
	r.run(H("83 a16d a178 a7636f6c756d6e73 81 a161 9101 a17a d40500"), "edge")        // skipped ext (unknown id)
	r.run(H("83 a16d a178 a7636f6c756d6e73 81 a161 9101 a17a 81c001"), "edge")        // skipped map with nil key (Unmarshal panics)
	r.run(H("82 a16d a178 a7636f6c756d6e73 83 a161 9101 a162 9102 a161 05"), "edge")  // a:[1], b:[2], a:5
	r.run(H("82 a16d a178 a7636f6c756d6e73 82 a161 9101 a162 d40500"), "edge")        // non-array column value = ext
	r.run(H("82 a16d a178 a7636f6c756d6e73 83 a474696d65 9101 a162 9102 a474696d65 05"), "edge")
	r.run(H("83 a16d a178 a7636f6c756d6e73 81 a161 9101 a17a 82 a161 01 05 02"), "edge") // skipped string map with int later key
	r.run(H("83 a16d a178 a7636f6c756d6e73 81 a161 9101 a17a 82 01 01 a161 02"), "edge") // skipped typed map, later key str

	// every scalar encoding as: single element of a value column, of the time column, as measurement,
	// as skipped top-level value, as non-array column value; next to an int / float / str / bool / nil first element
	var scalars [][]byte
	for _, v := range edgeInts {
		for _, wd := range intWidths(v) {
			scalars = append(scalars, mk(func(w *W) { w.intW(v, wd) }))
		}
	}
	for _, v := range edgeU64 {
		scalars = append(scalars, mk(func(w *W) { w.u8(0xcf); w.be64(v) }))
	}
	for _, v := range edgeF64 {
		scalars = append(scalars, mk(func(w *W) { w.f64(v) }))
	}
	for _, v := range edgeF32 {
		scalars = append(scalars, mk(func(w *W) { w.f32(v) }))
	}
	for _, s := range edgeStrs {
		for hw := 0; hw < 4; hw++ {
			scalars = append(scalars, mk(func(w *W) { w.strW(s, hw) }))
		}
		for hw := 1; hw < 4; hw++ {
			scalars = append(scalars, mk(func(w *W) { w.binW(s, hw) }))
		}
	}
	scalars = append(scalars, H("c0"), H("c2"), H("c3"), H("c1"), H("d4ff00"), H("d6ff00000001"), H("d7ff0000000100000002"),
		H("c70cff000000010000000000000002"), H("d48000"), H("d50500 00"), H("c700ff"), H("c7030501 0203"), H("90"), H("9101"), H("80"), H("81a16101"),
		H("8101 02"), H("81c0 02"), H("81c3 02"), H("81cb3ff0000000000000 02"), H("81c400 02"), H("8190 02"), H("81d6ff00000001 02"),
		H("8201 02 a161 03"), H("8201 02 cb3ff8000000000000 03"), H("8201 02 c0 03"), H("82c2 02 c0 03"), H("82c2 02 01 03"),
		H("82d6ff00000001 02 c0 03"), H("82d6ff00000001 02 d6ff00000002 03"), H("82ca3fc00000 01 cb47efffffe0000001 02"),
		H("82cc01 01 cbbff0000000000000 02"), H("82cc01 01 cb7ff8000000000000 02"), H("82a161 01 c0 02"), H("82a161 01 c40162 02"),
		H("82a161 01 a161 02"), H("82a161 01 01 02"), H("81a161 81a162 81 c0 01"), H("dc0000"), H("dd00000000"), H("de0000"), H("df00000000"))
	firsts := [][]byte{nil, H("01"), H("cb3ff8000000000000"), H("a178"), H("c3"), H("c0")}
	for _, s := range scalars {
		for _, f := range firsts {
			n := 1
			if f != nil {
				n = 2
			}
			r.run(columnar(1, func(w *W) { w.str("a"); w.arrH(n, 0); w.raw(f); w.raw(s) }, 0, nil), "edge")
		}
		r.run(columnar(1, func(w *W) { w.str("time"); w.arrH(1, 0); w.raw(s) }, 0, nil), "edge")
		r.run(columnar(2, func(w *W) { w.str("a"); w.arrH(2, 0); w.u8(1); w.u8(2); w.str("time"); w.arrH(2, 0); w.raw(H("ce65000000")); w.raw(s) }, 0, nil), "edge")
		r.run(columnar(2, func(w *W) { w.str("a"); w.arrH(1, 0); w.u8(1); w.str("b"); w.raw(s) }, 0, nil), "edge")
		r.run(columnar(1, func(w *W) { w.str("a"); w.arrH(1, 0); w.u8(1) }, 1, func(w *W) { w.str("zz"); w.raw(s) }), "edge")
		r.run(mk(func(w *W) {
			w.mapH(2, 0)
			w.str("m")
			w.raw(s)
			w.str("columns")
			w.mapH(1, 0)
			w.str("a")
			w.arrH(1, 0)
			w.u8(1)
		}), "edge")
		// as a key of the columns map / of the top-level map (first and later position)
		r.run(columnar(2, func(w *W) { w.str("a"); w.arrH(1, 0); w.u8(1); w.raw(s); w.arrH(1, 0); w.u8(2) }, 0, nil), "edge")
		r.run(columnar(2, func(w *W) { w.raw(s); w.arrH(1, 0); w.u8(2); w.str("a"); w.arrH(1, 0); w.u8(1) }, 0, nil), "edge")
		r.run(columnar(1, func(w *W) { w.str("a"); w.arrH(1, 0); w.u8(1) }, 1, func(w *W) { w.raw(s); w.u8(1) }), "edge")
		r.run(mk(func(w *W) {
			w.mapH(3, 0)
			w.raw(s)
			w.u8(1)
			w.str("m")
			w.str("x")
			w.str("columns")
			w.mapH(1, 0)
			w.str("a")
			w.arrH(1, 0)
			w.u8(1)
		}), "edge")
		// row format field / timestamp
		r.run(mk(func(w *W) {
			w.mapH(3, 0)
			w.str("m")
			w.str("x")
			w.str("t")
			w.raw(s)
			w.str("fields")
			w.mapH(1, 0)
			w.str("v")
			w.raw(s)
		}), "edge")
	}
	// time columns with fractional float epochs (seconds / milliseconds / at every unit boundary, either
	// sign, f64 and f32), alone and mixed with ints in either order
	{
		var fl [][]byte
		for _, basev := range []float64{1.7e9, 1.7e12, 1.7e15, 1.7e18, 1e10, 1e13, 1e16, 9999999999, 9999999999999, 0, 1, 86400, 1 << 20} {
			for _, fr := range []float64{0.5, 0.75, 0.999999, 1e-9, -0.5, -0.75, 0.25} {
				for _, sg := range []float64{1, -1} {
					fl = append(fl, mk(func(w *W) { w.f64(f64b(sg * (basev + fr))) }))
				}
			}
		}
		for _, v := range []float32{1.5, 0.75, -0.5, 1048576.5, 8388607.5, 123456.75, -86400.25} {
			fl = append(fl, mk(func(w *W) { w.f32(f32b(v)) }))
		}
		ints := [][]byte{H("ce6553f100"), H("cf0000018bcfe56800"), H("01"), H("d3fffffffffffffffe")}
		for i, f := range fl {
			r.run(columnar(1, func(w *W) { w.str("time"); w.arrH(1, 0); w.raw(f) }, 0, nil), "edge-time-frac")
			it := ints[i%len(ints)]
			r.run(columnar(2, func(w *W) { w.str("time"); w.arrH(2, 0); w.raw(it); w.raw(f); w.str("a"); w.arrH(2, 0); w.u8(1); w.u8(2) }, 0, nil), "edge-time-frac")
			r.run(columnar(2, func(w *W) { w.str("a"); w.arrH(2, 0); w.u8(1); w.u8(2); w.str("time"); w.arrH(2, 0); w.raw(f); w.raw(it) }, 0, nil), "edge-time-frac")
		}
	}
	// array header widths and allocation guards (all-nil columns at the limits; the two bodies at
	// maxTypedPreallocElems / +1 are the only megabyte-sized ones)
	for _, n := range []int{0, 1, 15, 16, 65535, 65536} {
		for hw := 0; hw < 3; hw++ {
			r.run(columnar(1, func(w *W) {
				w.str("a")
				w.arrH(n, hw)
				for i := 0; i < n; i++ {
					w.u8(0xc0)
				}
			}, 0, nil), "edge-alloc")
		}
	}
	for _, n := range []int{1 << 20, 1<<20 + 1} { // monitor only (megabyte lines are not sent to the model)
		r.monitor(columnar(2, func(w *W) {
			w.str("a")
			w.arrH(n, 2)
			for i := 0; i < n; i++ {
				w.u8(0xc0)
			}
			w.str("b")
			w.arrH(n, 2)
			for i := 0; i < n; i++ {
				w.u8(byte(i & 0x7f))
			}
		}, 0, nil))
		// forged claims of the same sizes with only a few real elements
		r.run(columnar(1, func(w *W) { w.str("a"); w.arrH(n, 2); w.u8(1); w.u8(2) }, 0, nil), "edge-alloc")
	}
	// every truncation and every single-byte substitution by a hot byte of a representative body
	rep := H("83 a16d a3637075 a7636f6c756d6e73 84 a474696d65 92 ce65000000 cb41d9400000000000 a176 92 cb3ff8000000000000 c0 a168 92 a161 d90162 a162 92 c3 c2 a17a 81 a16b 91 01")
	for i := 0; i <= len(rep); i++ {
		r.run(cp(rep[:i]), "edge-trunc")
	}
	for i := 0; i < len(rep); i++ {
		for _, hb := range hotBytes {
			o := cp(rep)
			o[i] = hb
			r.run(o, "edge-subst")
		}
	}
	r.run(nil, "edge")
}

// tameBin32: the fork's generic path allocates (and zeroes) the CLAIMED size of a bin32 up front, so
// a forged 0xc6 header costs up to 4 GiB per decode. Random bodies keep bin32 claims below 64 KiB
// (still far beyond the available bytes); larger claims are exercised by the edge grid only.
func tameBin32(b []byte) []byte {
	for i := 0; i+4 < len(b); i++ {
		if b[i] == 0xc6 && (b[i+1] != 0 || b[i+2] != 0) {
			b[i+1], b[i+2] = 0, 0
		}
	}
	return b
}

func readCorpus(dir string) [][]byte {
	var out [][]byte
	fs, _ := filepath.Glob(filepath.Join(dir, "*"))
	sort.Strings(fs)
	for _, f := range fs {
		b, err := os.ReadFile(f)
		if err != nil {
			continue
		}
		for _, ln := range strings.Split(string(b), "\n") {
			fl := strings.Fields(ln)
			if len(fl) == 2 && (fl[0] == "dec" || fl[0] == "wal") {
				if fl[1] == "-" {
					out = append(out, nil)
				} else if x, err := hex.DecodeString(fl[1]); err == nil {
					out = append(out, x)
				}
			}
		}
	}
	return out
}

func main() {
	c := vh.Start()
	if p := os.Getenv("C02_PROF"); p != "" {
		f, _ := os.Create(p)
		pprof.StartCPUProfile(f)
		defer pprof.StopCPUProfile()
	}
	verifclock.Set(nowUs * 1000)
	r := &runner{c: c, walStride: 1, forceWAL: true}
	if c.Replay != "" {
		for _, b := range readCorpus(c.Replay) {
			r.run(b, "replay")
		}
		c.Finish("replay")
		return
	}
	for _, b := range readCorpus("/verif/corpus/C02") {
		r.run(b, "corpus")
	}
	r.forceWAL = false
	r.walStride = 6 // edge grid: every 6th typed hit with NULL cells
	if os.Getenv("C02_NOEDGE") == "" {
		r.edgeGrid()
	}
	n := c.N
	if n == 0 {
		n = 50_000
		if c.Thorough() {
			n = 1_400_000
		}
	}
	// random part: every k-th typed hit with NULL cells goes through the (much slower) WAL stage
	r.forceWAL = false
	r.walStride = 12
	if c.Thorough() {
		r.walStride = 60
	}
	g := &G{r: vh.NewRand(c.Seed), c: c}
	for i := 0; i < n; i++ {
		b, kind := g.body()
		b, mut := g.mutate(b)
		b = tameBin32(b)
		r.run(b, "kind-"+kind, "mut-"+mut)
	}
	nseq := 150
	if c.Thorough() {
		nseq = 3000
	}
	if os.Getenv("C02_NOEDGE") == "" {
		r.seqGrid()
	}
	r.seqRandom(g, nseq)
	c.Extra["typed_hits"] = r.hits
	c.Extra["wal_stage_runs"] = r.walRuns
	c.Finish("non-trivial = the typed fast path hits or the generic path gets past msgpack.Unmarshal")
}
