//go:build verif

package main

// C02 WAL stage: in-memory object store (a dead view discards writes = abandoned process) and decoding of
// the Parquet files it holds (arrow-go reader, same library the repo uses). Own copy of the C05 helper.

import (
	"bytes"
	"context"
	"encoding/hex"
	"fmt"
	"io"
	"math"
	"sort"
	"strconv"
	"strings"
	"sync"

	"github.com/apache/arrow-go/v18/arrow"
	"github.com/apache/arrow-go/v18/arrow/array"
	"github.com/apache/arrow-go/v18/arrow/memory"
	"github.com/apache/arrow-go/v18/parquet/file"
	"github.com/apache/arrow-go/v18/parquet/pqarrow"
)

// disk: the durable object store. A process incarnation writes through a view; killing the
// incarnation makes its view dead, so writes issued by goroutines of the dead process are discarded.
type disk struct {
	mu    sync.Mutex
	files map[string][]byte
	seq   int
}

func newDisk() *disk { return &disk{files: map[string][]byte{}} }

type view struct {
	d       *disk
	mu      sync.Mutex
	dead    bool
	onWrite func(path string, data []byte)
}

func (d *disk) open() *view { return &view{d: d} }
func (v *view) kill() {
	v.mu.Lock()
	v.dead = true
	v.mu.Unlock()
}

func (v *view) Write(ctx context.Context, path string, data []byte) error {
	v.mu.Lock()
	defer v.mu.Unlock()
	if v.dead {
		return fmt.Errorf("process is dead")
	}
	cp := append([]byte(nil), data...)
	v.d.mu.Lock()
	v.d.files[path] = cp
	v.d.seq++
	v.d.mu.Unlock()
	if v.onWrite != nil {
		v.onWrite(path, cp)
	}
	return nil
}
func (v *view) WriteReader(ctx context.Context, path string, rd io.Reader, size int64) error {
	b, err := io.ReadAll(rd)
	if err != nil {
		return err
	}
	return v.Write(ctx, path, b)
}
func (v *view) Read(ctx context.Context, path string) ([]byte, error) {
	v.d.mu.Lock()
	defer v.d.mu.Unlock()
	b, ok := v.d.files[path]
	if !ok {
		return nil, fmt.Errorf("not found: %s", path)
	}
	return b, nil
}
func (v *view) ReadTo(ctx context.Context, path string, w io.Writer) error {
	b, err := v.Read(ctx, path)
	if err != nil {
		return err
	}
	_, err = w.Write(b)
	return err
}
func (v *view) ReadToAt(ctx context.Context, path string, w io.Writer, off int64) error {
	b, err := v.Read(ctx, path)
	if err != nil {
		return err
	}
	if off < 0 || off >= int64(len(b)) {
		return fmt.Errorf("bad offset")
	}
	_, err = w.Write(b[off:])
	return err
}
func (v *view) StatFile(ctx context.Context, path string) (int64, error) {
	v.d.mu.Lock()
	defer v.d.mu.Unlock()
	b, ok := v.d.files[path]
	if !ok {
		return -1, nil
	}
	return int64(len(b)), nil
}
func (v *view) List(ctx context.Context, prefix string) ([]string, error) {
	v.d.mu.Lock()
	defer v.d.mu.Unlock()
	var out []string
	for p := range v.d.files {
		if strings.HasPrefix(p, prefix) {
			out = append(out, p)
		}
	}
	sort.Strings(out)
	return out, nil
}
func (v *view) Delete(ctx context.Context, path string) error {
	v.d.mu.Lock()
	delete(v.d.files, path)
	v.d.mu.Unlock()
	return nil
}
func (v *view) Exists(ctx context.Context, path string) (bool, error) {
	v.d.mu.Lock()
	_, ok := v.d.files[path]
	v.d.mu.Unlock()
	return ok, nil
}
func (v *view) Close() error       { return nil }
func (v *view) Type() string       { return "mem" }
func (v *view) ConfigJSON() string { return "{}" }

// ---- stored rows

type cell struct {
	name string
	text string // i<dec> f<16 hex> s<hex> b0 b1
}

type srow struct {
	db, meas string
	time     int64
	cells    []cell // non-NULL cells except "time", sorted by hex(name)
	rid      int64
	hasRid   bool
	path     string
}

func hexs(s string) string {
	if s == "" {
		return "-"
	}
	return hex.EncodeToString([]byte(s))
}

// canonical text, identical to the Lean driver's rendering of a model row
func (r *srow) text(timeOverride *int64) string {
	var sb strings.Builder
	sb.WriteString(hexs(r.db))
	sb.WriteByte('|')
	sb.WriteString(hexs(r.meas))
	sb.WriteByte('|')
	t := r.time
	if timeOverride != nil {
		t = *timeOverride
	}
	sb.WriteString(strconv.FormatInt(t, 10))
	sb.WriteByte('|')
	if len(r.cells) == 0 {
		sb.WriteByte('-')
	}
	for i, c := range r.cells {
		if i > 0 {
			sb.WriteByte(',')
		}
		sb.WriteString(hexs(c.name))
		sb.WriteByte(':')
		sb.WriteString(c.text)
	}
	return sb.String()
}

func decodeParquetRows(path string, data []byte) ([]srow, error) {
	parts := strings.Split(path, "/")
	if len(parts) != 7 {
		return nil, fmt.Errorf("unexpected storage path %q", path)
	}
	db, meas := parts[0], parts[1]
	pf, err := file.NewParquetReader(bytes.NewReader(data))
	if err != nil {
		return nil, err
	}
	defer pf.Close()
	rd, err := pqarrow.NewFileReader(pf, pqarrow.ArrowReadProperties{}, memory.DefaultAllocator)
	if err != nil {
		return nil, err
	}
	tbl, err := rd.ReadTable(context.Background())
	if err != nil {
		return nil, err
	}
	defer tbl.Release()
	n := int(tbl.NumRows())
	rows := make([]srow, n)
	for i := range rows {
		rows[i] = srow{db: db, meas: meas, path: path}
	}
	haveTime := false
	for ci := 0; ci < int(tbl.NumCols()); ci++ {
		col := tbl.Column(ci)
		name := col.Name()
		idx := 0
		for _, ch := range col.Data().Chunks() {
			for i := 0; i < ch.Len(); i++ {
				r := &rows[idx]
				idx++
				if ch.IsNull(i) {
					if name == "time" {
						return nil, fmt.Errorf("null time in %s", path)
					}
					continue
				}
				var txt string
				switch a := ch.(type) {
				case *array.Int64:
					txt = "i" + strconv.FormatInt(a.Value(i), 10)
					if name == "rid" {
						r.rid, r.hasRid = a.Value(i), true
					}
				case *array.Timestamp:
					if tt, ok := a.DataType().(*arrow.TimestampType); !ok || tt.Unit != arrow.Microsecond {
						return nil, fmt.Errorf("time unit of %s in %s is not us", name, path)
					}
					txt = "i" + strconv.FormatInt(int64(a.Value(i)), 10)
					if name == "time" {
						r.time = int64(a.Value(i))
						haveTime = true
						continue
					}
				case *array.Float64:
					txt = fmt.Sprintf("f%016x", math.Float64bits(a.Value(i)))
				case *array.String:
					txt = "s" + hexs(a.Value(i))
				case *array.Boolean:
					if a.Value(i) {
						txt = "b1"
					} else {
						txt = "b0"
					}
				default:
					txt = "?" + ch.DataType().Name()
				}
				if name == "time" {
					return nil, fmt.Errorf("time column of %s has type %s", path, ch.DataType().Name())
				}
				r.cells = append(r.cells, cell{name, txt})
			}
		}
	}
	if n > 0 && !haveTime {
		return nil, fmt.Errorf("no time column in %s", path)
	}
	for i := range rows {
		cs := rows[i].cells
		sort.Slice(cs, func(a, b int) bool { return hexs(cs[a].name) < hexs(cs[b].name) })
	}
	return rows, nil
}

// allRows decodes every Parquet object of the disk.
func (d *disk) allRows() ([]srow, error) {
	d.mu.Lock()
	paths := make([]string, 0, len(d.files))
	for p := range d.files {
		paths = append(paths, p)
	}
	sort.Strings(paths)
	datas := make([][]byte, len(paths))
	for i, p := range paths {
		datas[i] = d.files[p]
	}
	d.mu.Unlock()
	var out []srow
	for i, p := range paths {
		rs, err := decodeParquetRows(p, datas[i])
		if err != nil {
			return nil, err
		}
		out = append(out, rs...)
	}
	return out, nil
}
