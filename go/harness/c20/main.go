//go:build verif

// C20 correspondence harness: drives the REAL AuthManager + RBACManager (in-memory SQLite, foreign
// keys on, RBAC feature licensed on) under the virtual clock, in the direct-database mode and in the
// cluster-apply mode (real raft.ClusterFSM + the Apply* callbacks wired exactly as cmd/arc/main.go
// wires them; the proposer applies each command to the FSM synchronously, as the Raft leader does).
//
// After EVERY mutating op the harness re-evaluates, with a second cache-free RBACManager on the same
// database, the truth of every request key used so far; every permission check (single and batched,
// hit or miss) made through the caching manager is compared with that truth:
//     cached decision != cache-free decision on the current state  =>  c.Fail("stale-decision:<mode>:<Method>")
// where <Method> is the last mutation that changed the truth of that key.
package main

import (
	"bufio"
	"context"
	"encoding/json"
	"errors"
	"fmt"
	"os"
	"reflect"
	"sort"
	"strconv"
	"strings"
	"time"

	hraft "github.com/hashicorp/raft"
	"github.com/rs/zerolog"

	"github.com/basekick-labs/arc/internal/auth"
	craft "github.com/basekick-labs/arc/internal/cluster/raft"
	"github.com/basekick-labs/arc/internal/license"
	"github.com/basekick-labs/arc/internal/verif/vh"
	"github.com/basekick-labs/arc/internal/verifclock"
)

const ttlNs = int64(30 * time.Second)
const baseNs = int64(1_700_000_000) * int64(time.Second)

var goName = map[string]string{
	"corg": "CreateOrganization", "uorg": "UpdateOrganization", "dorg": "DeleteOrganization",
	"cteam": "CreateTeam", "uteam": "UpdateTeam", "dteam": "DeleteTeam",
	"crole": "CreateRole", "urole": "UpdateRole", "drole": "DeleteRole",
	"cmp": "CreateMeasurementPermission", "dmp": "DeleteMeasurementPermission",
	"amem": "AddTokenToTeam", "rmem": "RemoveTokenFromTeam",
	"seed": "CreateOrganization:realign", "clean": "cleanupExpiredCache",
	"ctok": "CreateToken", "utok": "UpdateToken", "rvtok": "RevokeToken", "dtok": "DeleteToken", "rottok": "RotateToken",
}

// ---- cluster mode: proposer = "this node is the Raft leader": wrap, apply to the FSM, return its verdict
type leaderProposer struct {
	fsm *craft.ClusterFSM
	idx uint64
}

func (p *leaderProposer) IsLeader() bool { return true }
func (p *leaderProposer) Propose(ctx context.Context, cmdType uint8, payload []byte, timeout time.Duration) error {
	p.idx++
	data, err := json.Marshal(&craft.Command{Type: craft.CommandType(cmdType), Payload: payload})
	if err != nil {
		return err
	}
	resp := p.fsm.Apply(&hraft.Log{Index: p.idx, Term: 1, Type: hraft.LogCommand, Data: data})
	if e, ok := resp.(error); ok && e != nil {
		return fmt.Errorf("%w: %w", auth.ErrApplyFailed, e) // cluster.wrapApplyError
	}
	return nil
}

type key struct {
	tok         int64
	db, meas, p string
}

type hist struct {
	c     *vh.Ctx
	mode  string
	am    *auth.AuthManager
	rm    *auth.RBACManager // the caching manager under test
	rm2   *auth.RBACManager // cache-free evaluator over the same database (caches cleared before every use)
	plain map[int64]string  // token id -> current plaintext
	lines []string
	// monitor state
	tracked    []key
	isTracked  map[key]bool
	truth      map[key]string
	lastChange map[key]string // Go method name of the last mutation that changed truth[key]
	// per token: fingerprint of its uncached effective permissions (teams/roles/measurement perms + own
	// permissions) and the last mutation that changed it — attributes stale decisions of keys that
	// were never checked before (they can only come from stale per-token RBAC data)
	tokFP      map[int64]string
	tokChange  map[int64]string
	nHit, nRbac int
	failed     bool
	cap        int
	r          *vh.Rand
	victims    []string // capacity evictions performed by the op in progress (chosen by h.choose)
	seeded     bool
}

// choose is the eviction chooser: any entry is a legal victim of the production code; we pick one at
// random and remember it — it becomes the eviction oracle of the op line the model reads.
func (h *hist) choose(kind string, keys []string) int {
	i := h.r.Intn(len(keys))
	h.victims = append(h.victims, keys[i])
	return i
}

func newHist(c *vh.Ctx, mode string) *hist { return newHistCap(c, mode, 10000, vh.NewRand(1)) }

func newHistCap(c *vh.Ctx, mode string, capN int, r *vh.Rand) *hist {
	verifclock.Set(baseNs)
	lg := zerolog.Nop()
	am, err := auth.NewAuthManager(":memory:", 5*time.Minute, 1000, lg)
	if err != nil {
		panic(err)
	}
	lic := license.VerifNewClient(&license.License{LicenseKey: "verif", Tier: license.TierEnterprise, Status: "active",
		Features: []string{license.FeatureRBAC}, ExpiresAt: time.Unix(4_000_000_000, 0)})
	mk := func(n int) *auth.RBACManager {
		return auth.NewRBACManager(&auth.RBACManagerConfig{DB: am.GetDB(), LicenseClient: lic, Logger: lg, CacheTTL: time.Duration(ttlNs), MaxCacheSize: n})
	}
	h := &hist{c: c, mode: mode, am: am, rm: mk(capN), rm2: mk(1000000), cap: capN, r: r, plain: map[int64]string{},
		isTracked: map[key]bool{}, truth: map[key]string{}, lastChange: map[key]string{},
		tokFP: map[int64]string{}, tokChange: map[int64]string{}}
	if !h.rm.IsRBACEnabled() {
		panic("RBAC not enabled")
	}
	// forward-compatible wiring of a possible repair: if AuthManager grows a setter through which it can
	// invalidate the RBAC manager's caches on token mutations, wire it the way main.go would.
	for _, nm := range []string{"SetRBACCacheInvalidator", "SetRBACManager", "SetRBACInvalidator"} {
		if m := reflect.ValueOf(am).MethodByName(nm); m.IsValid() && m.Type().NumIn() == 1 && reflect.TypeOf(h.rm).AssignableTo(m.Type().In(0)) {
			m.Call([]reflect.Value{reflect.ValueOf(h.rm)})
		}
	}
	auth.VerifEvictChoose = h.choose
	if mode == "cluster" {
		h.wireCluster(0)
	}
	h.op(fmt.Sprintf("new %s %d %d %d", mode, ttlNs, baseNs, capN), "ok")
	return h
}

// wireCluster: real ClusterFSM + the Apply* callbacks as cmd/arc/main.go wires them; this node is the leader.
func (h *hist) wireCluster(firstIdx uint64) {
	am, lg := h.am, zerolog.Nop()
	{
		fsm := craft.NewClusterFSM(lg)
		rm := h.rm
		fsm.SetAuthCallbacks(
			func(e *craft.TokenEntry) {
				_ = am.ApplyCreateToken(auth.ClusterTokenEntry{ID: e.ID, Name: e.Name, Description: e.Description, Permissions: e.Permissions,
					TokenHash: e.TokenHash, TokenPrefix: e.TokenPrefix, CreatedAtUnixNano: e.CreatedAtUnixNano, ExpiresAtUnixNano: e.ExpiresAtUnixNano, Enabled: e.Enabled, LSN: e.LSN})
			},
			func(e *craft.TokenEntry) {
				_ = am.ApplyUpdateToken(auth.ClusterTokenEntry{ID: e.ID, Name: e.Name, Description: e.Description, Permissions: e.Permissions,
					TokenHash: e.TokenHash, TokenPrefix: e.TokenPrefix, CreatedAtUnixNano: e.CreatedAtUnixNano, ExpiresAtUnixNano: e.ExpiresAtUnixNano, Enabled: e.Enabled, LSN: e.LSN})
			},
			func(id int64) { _ = am.ApplyRevokeToken(id) },
			func(id int64) { _ = am.ApplyDeleteToken(id) },
			func(id int64, nh, np string, lsn uint64) { _ = am.ApplyRotateToken(id, nh, np) },
		)
		fsm.SetRBACCallbacks(
			func(e *craft.OrganizationEntry) {
				_ = rm.ApplyCreateOrganization(auth.ClusterOrganizationEntry{ID: e.ID, Name: e.Name, Description: e.Description, CreatedAtUnixNano: e.CreatedAtUnixNano, UpdatedAtUnixNano: e.UpdatedAtUnixNano, Enabled: e.Enabled, LSN: e.LSN})
			},
			func(e *craft.OrganizationEntry) {
				_ = rm.ApplyUpdateOrganization(auth.ClusterOrganizationEntry{ID: e.ID, Name: e.Name, Description: e.Description, CreatedAtUnixNano: e.CreatedAtUnixNano, UpdatedAtUnixNano: e.UpdatedAtUnixNano, Enabled: e.Enabled, LSN: e.LSN})
			},
			func(id int64) { _ = rm.ApplyDeleteOrganization(id) },
			func(e *craft.TeamEntry) {
				_ = rm.ApplyCreateTeam(auth.ClusterTeamEntry{ID: e.ID, OrganizationID: e.OrganizationID, Name: e.Name, Description: e.Description, CreatedAtUnixNano: e.CreatedAtUnixNano, UpdatedAtUnixNano: e.UpdatedAtUnixNano, Enabled: e.Enabled, LSN: e.LSN})
			},
			func(e *craft.TeamEntry) {
				_ = rm.ApplyUpdateTeam(auth.ClusterTeamEntry{ID: e.ID, OrganizationID: e.OrganizationID, Name: e.Name, Description: e.Description, CreatedAtUnixNano: e.CreatedAtUnixNano, UpdatedAtUnixNano: e.UpdatedAtUnixNano, Enabled: e.Enabled, LSN: e.LSN})
			},
			func(id int64) { _ = rm.ApplyDeleteTeam(id) },
			func(e *craft.RoleEntry) {
				_ = rm.ApplyCreateRole(auth.ClusterRoleEntry{ID: e.ID, TeamID: e.TeamID, DatabasePattern: e.DatabasePattern, Permissions: e.Permissions, CreatedAtUnixNano: e.CreatedAtUnixNano, LSN: e.LSN})
			},
			func(e *craft.RoleEntry) {
				_ = rm.ApplyUpdateRole(auth.ClusterRoleEntry{ID: e.ID, TeamID: e.TeamID, DatabasePattern: e.DatabasePattern, Permissions: e.Permissions, CreatedAtUnixNano: e.CreatedAtUnixNano, LSN: e.LSN})
			},
			func(id int64) { _ = rm.ApplyDeleteRole(id) },
			func(e *craft.MeasurementPermissionEntry) {
				_ = rm.ApplyCreateMeasurementPermission(auth.ClusterMeasurementPermissionEntry{ID: e.ID, RoleID: e.RoleID, MeasurementPattern: e.MeasurementPattern, Permissions: e.Permissions, CreatedAtUnixNano: e.CreatedAtUnixNano, LSN: e.LSN})
			},
			func(id int64) { _ = rm.ApplyDeleteMeasurementPermission(id) },
			func(e *craft.TokenMembershipEntry) {
				_ = rm.ApplyAddTokenToTeam(auth.ClusterTokenMembershipEntry{ID: e.ID, TokenID: e.TokenID, TeamID: e.TeamID, CreatedAtUnixNano: e.CreatedAtUnixNano, LSN: e.LSN})
			},
			func(tok, team int64) { _ = rm.ApplyRemoveTokenFromTeam(tok, team) },
		)
		p := &leaderProposer{fsm: fsm, idx: firstIdx}
		am.SetRaftProposer(p)
		h.rm.SetRaftProposer(p)
	}
}

// seed: the standalone node joins a cluster (fresh FSM whose log is already at firstIdx) and runs the
// upgrade seed: one CreateOrganization proposal per local organization; each lands in
// ApplyCreateOrganization's name-collision branch (delete + cascade + insert under the FSM's id).
func (h *hist) seed() {
	var maxID int64 = 1000
	for _, t := range []string{"api_tokens", "rbac_organizations", "rbac_teams", "rbac_roles", "rbac_measurement_permissions", "rbac_token_memberships"} {
		for _, id := range h.ids(t) {
			if id >= maxID {
				maxID = id + 1
			}
		}
	}
	h.wireCluster(uint64(maxID))
	h.mode = "cluster"
	h.seeded = true
	out := vh.Guard(func() string {
		if err := h.rm.SeedRBACFromLocalSQLite(context.Background()); err != nil {
			return "error"
		}
		return "ok"
	})
	line := "seed"
	for _, id := range h.ids("rbac_organizations") {
		line += " " + itoa(id)
	}
	h.op(line, out)
	h.c.Tag("seed:" + out)
	h.refreshTruth(goName["seed"])
}

func (h *hist) clean() {
	h.rm.VerifCleanup()
	p, t := h.rm.VerifCacheSizes()
	h.op("clean", fmt.Sprintf("ok p=%d t=%d", p, t))
	h.c.Tag("clean")
}

func (h *hist) close() {
	h.rm.Close()
	h.rm2.Close()
	h.am.Close()
}

func (h *hist) op(line, out string) {
	h.lines = append(h.lines, line)
	h.c.Op(line, out)
}

func classify(err error) string {
	if err == nil {
		return "ok"
	}
	switch {
	case errors.Is(err, auth.ErrNotFound):
		return "notfound"
	case errors.Is(err, auth.ErrNameConflict), errors.Is(err, auth.ErrConflict):
		return "conflict"
	case errors.Is(err, auth.ErrInvalidName), errors.Is(err, auth.ErrInvalidRoleInput), errors.Is(err, auth.ErrMissingField):
		return "invalid"
	}
	s := err.Error()
	switch {
	case strings.Contains(s, "token not found"):
		return "notfound"
	case strings.Contains(s, "already exists"):
		return "conflict"
	case strings.Contains(s, "invalid permission"):
		return "invalid"
	}
	return "error"
}

func dec(s string) string { // "~" = empty string
	if s == "~" {
		return ""
	}
	return s
}
func optS(s string) *string {
	if s == "=" {
		return nil
	}
	v := dec(s)
	return &v
}
func optB(s string) *bool {
	switch s {
	case "1":
		v := true
		return &v
	case "0":
		v := false
		return &v
	}
	return nil
}
func csv(s string) []string {
	if s == "~" || s == "=" {
		return nil
	}
	return strings.Split(s, ",")
}
func i64(s string) int64 { v, _ := strconv.ParseInt(s, 10, 64); return v }
func itoa(v int64) string { return strconv.FormatInt(v, 10) }

// mutate executes one mutating op (fields WITHOUT the trailing new-id of create ops) on the real
// managers; returns the result class and the id the implementation allocated (0 if none).
func (h *hist) mutate(f []string) (string, int64) {
	ctx := context.Background()
	rm, am := h.rm, h.am
	switch f[0] {
	case "corg":
		o, err := rm.CreateOrganization(ctx, &auth.CreateOrganizationRequest{Name: dec(f[1])})
		if err == nil {
			return "ok", o.ID
		}
		return classify(err), 0
	case "uorg":
		return classify(rm.UpdateOrganization(ctx, i64(f[1]), &auth.UpdateOrganizationRequest{Name: optS(f[2]), Enabled: optB(f[3])})), 0
	case "dorg":
		return classify(rm.DeleteOrganization(ctx, i64(f[1]))), 0
	case "cteam":
		t, err := rm.CreateTeam(ctx, i64(f[1]), &auth.CreateTeamRequest{Name: dec(f[2])})
		if err == nil {
			return "ok", t.ID
		}
		return classify(err), 0
	case "uteam":
		return classify(rm.UpdateTeam(ctx, i64(f[1]), &auth.UpdateTeamRequest{Name: optS(f[2]), Enabled: optB(f[3])})), 0
	case "dteam":
		return classify(rm.DeleteTeam(ctx, i64(f[1]))), 0
	case "crole":
		r, err := rm.CreateRole(ctx, i64(f[1]), &auth.CreateRoleRequest{DatabasePattern: dec(f[2]), Permissions: csv(f[3])})
		if err == nil {
			return "ok", r.ID
		}
		return classify(err), 0
	case "urole":
		return classify(rm.UpdateRole(ctx, i64(f[1]), &auth.UpdateRoleRequest{DatabasePattern: optS(f[2]), Permissions: csv(f[3])})), 0
	case "drole":
		return classify(rm.DeleteRole(ctx, i64(f[1]))), 0
	case "cmp":
		m, err := rm.CreateMeasurementPermission(ctx, i64(f[1]), &auth.CreateMeasurementPermissionRequest{MeasurementPattern: dec(f[2]), Permissions: csv(f[3])})
		if err == nil {
			return "ok", m.ID
		}
		return classify(err), 0
	case "dmp":
		return classify(rm.DeleteMeasurementPermission(ctx, i64(f[1]))), 0
	case "amem":
		m, err := rm.AddTokenToTeam(ctx, i64(f[1]), i64(f[2]))
		if err == nil {
			return "ok", m.ID
		}
		return classify(err), 0
	case "rmem":
		return classify(rm.RemoveTokenFromTeam(ctx, i64(f[1]), i64(f[2]))), 0
	case "ctok":
		perms := dec(f[2])
		if perms == "" {
			perms = auth.PermissionsNone
		}
		plain, err := am.CreateToken(ctx, dec(f[1]), "", perms, nil)
		if err != nil {
			return classify(err), 0
		}
		toks, _ := am.ListTokens()
		for _, t := range toks {
			if t.Name == dec(f[1]) {
				h.plain[t.ID] = plain
				return "ok", t.ID
			}
		}
		return "error", 0
	case "utok":
		p := dec(f[2])
		return classify(am.UpdateToken(ctx, i64(f[1]), nil, nil, &p, nil)), 0
	case "rvtok":
		return classify(am.RevokeToken(ctx, i64(f[1]))), 0
	case "dtok":
		return classify(am.DeleteToken(ctx, i64(f[1]))), 0
	case "rottok":
		plain, err := am.RotateToken(ctx, i64(f[1]))
		if err == nil {
			// in cluster mode a rotation of a token the FSM does not know "succeeds" without rotating
			// anything: keep whichever plaintext actually authenticates as this token
			if _, ok := h.plain[i64(f[1])]; ok {
				if ti := am.VerifyToken(plain); ti != nil && ti.ID == i64(f[1]) {
					h.plain[i64(f[1])] = plain
				}
			}
		}
		return classify(err), 0
	}
	panic("unknown op " + f[0])
}

var creates = map[string]bool{"corg": true, "cteam": true, "crole": true, "cmp": true, "amem": true, "ctok": true}

// do runs one mutating op, records it, refreshes the truth table. Returns (result, new id).
func (h *hist) do(f ...string) (string, int64) {
	var id int64
	out := vh.Guard(func() string {
		var r string
		r, id = h.mutate(f)
		return r
	})
	line := strings.Join(f, " ")
	if creates[f[0]] {
		line += " " + itoa(id)
	}
	h.op(line, out)
	h.c.Tag(h.mode + ":" + f[0] + ":" + out)
	h.refreshTruth(goName[f[0]])
	return out, id
}

func (h *hist) adv(d int64) {
	verifclock.Advance(time.Duration(d))
	h.op(fmt.Sprintf("adv %d", d), "ok")
}

// info = the production request path's first half: VerifyToken with the token's current plaintext.
func (h *hist) info(tok int64) *auth.TokenInfo {
	p, ok := h.plain[tok]
	if !ok {
		return nil
	}
	return h.am.VerifyToken(p)
}

func resStr(r *auth.PermissionCheckResult) string {
	a := "deny:"
	if r.Allowed {
		a = "allow:"
	}
	return a + r.Source
}

// uncached = decision of the REAL policy code on the current database with empty caches
func (h *hist) uncached(k key) string {
	ti := h.info(k.tok)
	if ti == nil {
		return "deny:unauth"
	}
	h.rm2.InvalidateAllCache()
	return resStr(h.rm2.CheckPermission(&auth.PermissionCheckRequest{TokenInfo: ti, Database: k.db, Measurement: k.meas, Permission: k.p}))
}

func (h *hist) track(k key) {
	if !h.isTracked[k] {
		h.isTracked[k] = true
		h.tracked = append(h.tracked, k)
		h.truth[k] = h.uncached(k)
		h.lastChange[k] = "(none)"
	}
}

func (h *hist) fingerprint(tok int64) string {
	ti := h.info(tok)
	if ti == nil {
		return "unauth"
	}
	eff, err := h.rm2.GetEffectivePermissions(tok, ti)
	b, _ := json.Marshal(eff)
	return fmt.Sprint(err) + string(b)
}

func (h *hist) refreshTruth(method string) {
	for tok := range h.plain {
		if fp := h.fingerprint(tok); fp != h.tokFP[tok] {
			h.tokFP[tok] = fp
			h.tokChange[tok] = method
		}
	}
	for _, k := range h.tracked {
		if t := h.uncached(k); t != h.truth[k] {
			h.truth[k] = t
			h.lastChange[k] = method
		}
	}
}

func (h *hist) monitor(k key, got string, how string) {
	want := h.truth[k]
	if got == want {
		return
	}
	h.failed = true
	who := h.lastChange[k]
	if who == "(none)" || who == "" { // key never checked before: stale per-token RBAC data
		who = h.tokChange[k.tok]
	}
	if who == "" {
		who = "unattributed"
	}
	h.c.Tag("STALE:" + h.mode + ":" + who)
	h.c.Fail("stale-decision:"+h.mode+":"+who,
		fmt.Sprintf("%s mode: %s check (token %d, db %q, measurement %q, %s) returned %s but the policy on the current database gives %s; the decision last changed at a %s that left the cached entry in place",
			h.mode, how, k.tok, k.db, k.meas, k.p, got, want, who),
		strings.Join(h.lines, "; "))
}

func kstr(k key) string {
	m := k.meas
	if m == "" {
		m = "~"
	}
	return fmt.Sprintf("%d %s %s %s", k.tok, k.db, m, k.p)
}

func (h *hist) chk(k key) string {
	h.track(k)
	var out string
	ti := h.info(k.tok)
	if ti == nil {
		out = "deny:unauth:miss"
	} else {
		before := h.rm.GetCacheStats()
		h.victims = nil
		r := h.rm.CheckPermission(&auth.PermissionCheckRequest{TokenInfo: ti, Database: k.db, Measurement: k.meas, Permission: k.p})
		after := h.rm.GetCacheStats()
		hm := ":miss"
		if after["hits"] > before["hits"] {
			hm = ":hit"
			h.nHit++
		}
		if r.Source == "rbac" {
			h.nRbac++
		}
		out = resStr(r) + hm
	}
	line := "chk " + kstr(k)
	if ti != nil && len(h.victims) > 0 {
		line += " / " + strings.Join(h.victims, " ")
		h.c.Tag("evict")
	}
	h.op(line, out)
	h.c.Tag("chk:" + out)
	h.monitor(k, out[:strings.LastIndex(out, ":")], "single")
	return out
}

func (h *hist) bat(ks []key) {
	for _, k := range ks {
		h.track(k)
	}
	res := make([]string, len(ks))
	var reqs []*auth.PermissionCheckRequest
	var idx []int
	for i, k := range ks {
		ti := h.info(k.tok)
		if ti == nil {
			res[i] = "deny:unauth"
			continue
		}
		reqs = append(reqs, &auth.PermissionCheckRequest{TokenInfo: ti, Database: k.db, Measurement: k.meas, Permission: k.p})
		idx = append(idx, i)
	}
	before := h.rm.GetCacheStats()
	h.victims = nil
	out := h.rm.CheckPermissionsBatch(reqs)
	after := h.rm.GetCacheStats()
	for j, r := range out {
		res[idx[j]] = resStr(r)
	}
	var parts []string
	for _, k := range ks {
		parts = append(parts, kstr(k))
	}
	if len(h.victims) > 0 {
		parts = append(parts, "/")
		parts = append(parts, h.victims...)
		h.c.Tag("evict")
	}
	h.op("bat "+strings.Join(parts, " "), fmt.Sprintf("%s h=%d m=%d", strings.Join(res, ","), after["hits"]-before["hits"], after["misses"]-before["misses"]))
	h.c.Tag("bat")
	h.nHit += int(after["hits"] - before["hits"])
	for i, k := range ks {
		h.monitor(k, res[i], "batched")
	}
}

func (h *hist) finish() {
	h.c.Case(strings.Join(h.lines, ";"), h.nHit > 0 && h.nRbac > 0)
	h.close()
}

// ---- live ids straight from the database (cascades included)
func (h *hist) ids(table string) []int64 {
	rows, err := h.am.GetDB().Query("SELECT id FROM " + table + " ORDER BY id")
	if err != nil {
		panic(err)
	}
	defer rows.Close()
	var out []int64
	for rows.Next() {
		var v int64
		rows.Scan(&v)
		out = append(out, v)
	}
	return out
}
func (h *hist) memPairs() [][2]int64 {
	rows, err := h.am.GetDB().Query("SELECT token_id, team_id FROM rbac_token_memberships ORDER BY id")
	if err != nil {
		panic(err)
	}
	defer rows.Close()
	var out [][2]int64
	for rows.Next() {
		var a, b int64
		rows.Scan(&a, &b)
		out = append(out, [2]int64{a, b})
	}
	return out
}

// ---------------------------------------------------------------- universe
var (
	orgNames   = []string{"o1", "o2"}
	teamNames  = []string{"t1", "t2", "t3"}
	tokNames   = []string{"k1", "k2", "k3"}
	patterns   = []string{"*", "a_*", "*_x", "ab*", "prod"}
	badPats    = []string{"a*b", "~", "**", "a.b"}
	badNames   = []string{"9x", "~", "a.b"}
	dbs        = []string{"a_1", "b_x", "abc", "prod", "zz", "a_x", "ab"}
	measReq    = []string{"", "", "a_1", "cpu_x", "abz", "prod"}
	permV      = []string{"read", "write", "delete", "admin"}
	permLists  = []string{"read", "write", "read,write", "delete", "admin", "write,delete", "read,write,delete"}
	tokPermsLs = []string{"~", "~", "read", "read,write", "write", "admin", "delete"}
)

func pickID(r *vh.Rand, live []int64, all int64) int64 {
	// mostly a live id, sometimes a dead / never-used one
	if len(live) > 0 && !r.Chance(8) {
		return vh.Pick(r, live)
	}
	return int64(r.Range(1, int(all)+3))
}

func randomKey(r *vh.Rand, toks []int64) key {
	var t int64 = 1
	if len(toks) > 0 && !r.Chance(5) {
		t = vh.Pick(r, toks)
	} else {
		t = int64(r.Range(1, 6))
	}
	return key{t, vh.Pick(r, dbs), vh.Pick(r, measReq), vh.Pick(r, permV)}
}

func (h *hist) checksAfterOp(r *vh.Rand, ws *[]key, everTok []int64) {
	n := r.Range(2, 4)
	for i := 0; i < n; i++ {
		var k key
		if len(*ws) > 0 && r.Chance(75) {
			k = vh.Pick(r, *ws)
		} else {
			k = randomKey(r, everTok)
			if len(*ws) < 8 {
				*ws = append(*ws, k)
			}
		}
		h.chk(k)
	}
	if r.Chance(60) {
		var ks []key
		m := r.Range(1, 4)
		for i := 0; i < m; i++ {
			if len(*ws) > 0 && r.Chance(75) {
				ks = append(ks, vh.Pick(r, *ws))
			} else {
				ks = append(ks, randomKey(r, everTok))
			}
		}
		if h.cap < 10000 {
			// with capacity evictions the (random) order in which CheckPermissionsBatch visits its
			// per-token groups would matter; production batches carry one token, so do these
			for i := range ks {
				ks[i].tok = ks[0].tok
			}
		}
		h.bat(ks)
	}
}

func randomHistory(c *vh.Ctx, r *vh.Rand, mode string, nOps int) {
	capN := 10000
	if r.Chance(45) {
		capN = vh.Pick(r, []int{1, 2, 2, 3, 3, 4, 6})
	}
	h := newHistCap(c, mode, capN, r.Fork())
	defer h.finish()
	seedAt := -1
	if mode == "direct" && r.Chance(35) {
		seedAt = r.Range(6, nOps)
	}
	var ws []key
	var everTok []int64
	maxID := int64(0)
	note := func(id int64) {
		if id > maxID {
			maxID = id
		}
	}
	bootstrap := r.Chance(75)
	for n := 0; n < nOps; n++ {
		toks, orgs, teams, roles, mps := h.ids("api_tokens"), h.ids("rbac_organizations"), h.ids("rbac_teams"), h.ids("rbac_roles"), h.ids("rbac_measurement_permissions")
		mems := h.memPairs()
		var f []string
		// bootstrap: build token -> membership -> team -> role quickly so that decisions are interesting
		if bootstrap && n < 6 {
			switch {
			case len(toks) == 0:
				f = []string{"ctok", vh.Pick(r, tokNames), vh.Pick(r, tokPermsLs)}
			case len(orgs) == 0:
				f = []string{"corg", vh.Pick(r, orgNames)}
			case len(teams) == 0:
				f = []string{"cteam", itoa(orgs[0]), vh.Pick(r, teamNames)}
			case len(roles) == 0:
				f = []string{"crole", itoa(teams[0]), vh.Pick(r, patterns), vh.Pick(r, permLists)}
			case len(mems) == 0:
				f = []string{"amem", itoa(toks[0]), itoa(teams[0])}
			}
		}
		if n == seedAt {
			h.seed()
			h.checksAfterOp(r, &ws, everTok)
			continue
		}
		if f == nil && r.Chance(7) {
			if r.Chance(50) {
				h.adv(vh.Pick(r, []int64{ttlNs / 2, ttlNs - 1, ttlNs, ttlNs + 1}))
			}
			h.clean()
			h.checksAfterOp(r, &ws, everTok)
			continue
		}
		if f == nil {
			switch w := r.Intn(100); {
			case w < 6:
				d := vh.Pick(r, []int64{1, ttlNs / 2, ttlNs - 1, ttlNs, ttlNs + 1, 2 * ttlNs, int64(time.Second)})
				h.adv(d)
				h.checksAfterOp(r, &ws, everTok)
				continue
			case w < 11:
				nm := vh.Pick(r, orgNames)
				if r.Chance(6) {
					nm = vh.Pick(r, badNames)
				}
				f = []string{"corg", nm}
			case w < 15:
				nm, en := "=", "="
				if r.Chance(40) {
					nm = vh.Pick(r, orgNames)
				}
				if r.Chance(60) {
					en = vh.Pick(r, []string{"0", "1"})
				}
				f = []string{"uorg", itoa(pickID(r, orgs, maxID)), nm, en}
			case w < 19:
				f = []string{"dorg", itoa(pickID(r, orgs, maxID))}
			case w < 26:
				nm := vh.Pick(r, teamNames)
				if r.Chance(5) {
					nm = vh.Pick(r, badNames)
				}
				if len(teams) >= 3 && !r.Chance(15) {
					f = []string{"dteam", itoa(pickID(r, teams, maxID))}
				} else {
					f = []string{"cteam", itoa(pickID(r, orgs, maxID)), nm}
				}
			case w < 33:
				nm, en := "=", "="
				if r.Chance(30) {
					nm = vh.Pick(r, teamNames)
				}
				if r.Chance(75) {
					en = vh.Pick(r, []string{"0", "1"})
				}
				f = []string{"uteam", itoa(pickID(r, teams, maxID)), nm, en}
			case w < 37:
				f = []string{"dteam", itoa(pickID(r, teams, maxID))}
			case w < 46:
				p := vh.Pick(r, patterns)
				if r.Chance(5) {
					p = vh.Pick(r, badPats)
				}
				pl := vh.Pick(r, permLists)
				if r.Chance(4) {
					pl = vh.Pick(r, []string{"~", "bogus", "read,,write"})
				}
				if len(roles) >= 3 && !r.Chance(15) {
					f = []string{"drole", itoa(pickID(r, roles, maxID))}
				} else {
					f = []string{"crole", itoa(pickID(r, teams, maxID)), p, pl}
				}
			case w < 53:
				p, pl := "=", "="
				if r.Chance(60) {
					p = vh.Pick(r, patterns)
					if r.Chance(5) {
						p = vh.Pick(r, badPats)
					}
				}
				if r.Chance(60) {
					pl = vh.Pick(r, permLists)
				}
				f = []string{"urole", itoa(pickID(r, roles, maxID)), p, pl}
			case w < 57:
				f = []string{"drole", itoa(pickID(r, roles, maxID))}
			case w < 64:
				p := vh.Pick(r, patterns)
				if r.Chance(5) {
					p = vh.Pick(r, badPats)
				}
				if len(mps) >= 3 && !r.Chance(15) {
					f = []string{"dmp", itoa(pickID(r, mps, maxID))}
				} else {
					f = []string{"cmp", itoa(pickID(r, roles, maxID)), p, vh.Pick(r, permLists)}
				}
			case w < 68:
				f = []string{"dmp", itoa(pickID(r, mps, maxID))}
			case w < 77:
				f = []string{"amem", itoa(pickID(r, toks, maxID)), itoa(pickID(r, teams, maxID))}
			case w < 82:
				if len(mems) > 0 && !r.Chance(10) {
					m := vh.Pick(r, mems)
					f = []string{"rmem", itoa(m[0]), itoa(m[1])}
				} else {
					f = []string{"rmem", itoa(pickID(r, toks, maxID)), itoa(pickID(r, teams, maxID))}
				}
			case w < 87:
				pl := vh.Pick(r, tokPermsLs)
				if r.Chance(4) {
					pl = "bogus"
				}
				nm := vh.Pick(r, tokNames)
				if h.seeded { // the FSM does not know the pre-switch tokens (nor their names): use fresh names
					nm = "s" + nm
				}
				f = []string{"ctok", nm, pl}
			case w < 93:
				f = []string{"utok", itoa(pickID(r, toks, maxID)), vh.Pick(r, tokPermsLs)}
			case w < 95:
				f = []string{"rvtok", itoa(pickID(r, toks, maxID))}
			case w < 97:
				f = []string{"dtok", itoa(pickID(r, toks, maxID))}
			default:
				f = []string{"rottok", itoa(pickID(r, toks, maxID))}
			}
		}
		_, id := h.do(f...)
		note(id)
		if f[0] == "ctok" && id != 0 {
			everTok = append(everTok, id)
		}
		h.checksAfterOp(r, &ws, everTok)
	}
}

// ---------------------------------------------------------------- scenario grid (runs first; gives the minimal replays)
type fx struct{ tok, org, team, role int64 }

// setup: token k1 (own perms tp) in team t1 of org o1 holding one role (pattern, perms)
func (h *hist) setup(tp, pattern, perms string) fx {
	var x fx
	_, x.tok = h.do("ctok", "k1", tp)
	_, x.org = h.do("corg", "o1")
	_, x.team = h.do("cteam", itoa(x.org), "t1")
	_, x.role = h.do("crole", itoa(x.team), pattern, perms)
	h.do("amem", itoa(x.tok), itoa(x.team))
	return x
}

func scenarios(c *vh.Ctx, mode string) {
	run := func(body func(h *hist)) {
		h := newHist(c, mode)
		body(h)
		h.finish()
	}
	// each: cache a decision, mutate, check again (single + batch), then past the TTL
	probe := func(h *hist, k key) {
		h.chk(k)
		h.bat([]key{k, {k.tok, "zz", "", k.p}})
		h.adv(ttlNs)
		h.chk(k)
	}
	// --- a cached ALLOW, then the grant is taken away
	revoke := []func(h *hist, x fx){
		func(h *hist, x fx) { h.do("dorg", itoa(x.org)) },
		func(h *hist, x fx) { h.do("uorg", itoa(x.org), "=", "0") },
		func(h *hist, x fx) { h.do("uorg", itoa(x.org), "o2", "=") },
		func(h *hist, x fx) { h.do("uteam", itoa(x.team), "=", "0") },
		func(h *hist, x fx) { h.do("uteam", itoa(x.team), "t2", "=") },
		func(h *hist, x fx) { h.do("dteam", itoa(x.team)) },
		func(h *hist, x fx) { h.do("urole", itoa(x.role), "prod", "=") },
		func(h *hist, x fx) { h.do("urole", itoa(x.role), "=", "write") },
		func(h *hist, x fx) { h.do("drole", itoa(x.role)) },
		func(h *hist, x fx) { h.do("cmp", itoa(x.role), "prod", "read") },
		func(h *hist, x fx) { h.do("rmem", itoa(x.tok), itoa(x.team)) },
		func(h *hist, x fx) { h.do("rvtok", itoa(x.tok)) },
		func(h *hist, x fx) { h.do("dtok", itoa(x.tok)) },
		func(h *hist, x fx) { h.do("rottok", itoa(x.tok)) },
		func(h *hist, x fx) { h.do("utok", itoa(x.tok), "write") },
		func(h *hist, x fx) { h.do("corg", "o2") },
		func(h *hist, x fx) { h.do("cteam", itoa(x.org), "t2") },
		func(h *hist, x fx) { h.do("ctok", "k2", "read") },
	}
	for _, mut := range revoke {
		mut := mut
		run(func(h *hist) {
			x := h.setup("~", "a_*", "read")
			k := key{x.tok, "a_1", "cpu_x", "read"}
			h.chk(k)
			h.chk(k)
			mut(h, x)
			probe(h, k)
		})
	}
	// token's OWN permission narrowed / widened (no team: pure OSS path; and with a team: fallback path)
	for _, withTeam := range []bool{false, true} {
		for _, np := range []string{"~", "write", "read,write", "admin"} {
			withTeam, np := withTeam, np
			run(func(h *hist) {
				var tok int64
				if withTeam {
					tok = h.setup("read", "prod", "write").tok
				} else {
					_, tok = h.do("ctok", "k1", "read")
				}
				k, k2 := key{tok, "abc", "", "read"}, key{tok, "abc", "", "write"}
				h.chk(k)
				h.chk(k2)
				h.do("utok", itoa(tok), np)
				h.chk(k)
				h.chk(k2)
				h.bat([]key{k, k2})
				h.adv(ttlNs)
				h.chk(k)
				h.chk(k2)
			})
		}
	}
	// --- a cached DENY, then access is granted
	run(func(h *hist) { // role created after the deny
		_, tok := h.do("ctok", "k1", "~")
		_, org := h.do("corg", "o1")
		_, team := h.do("cteam", itoa(org), "t1")
		h.do("amem", itoa(tok), itoa(team))
		k := key{tok, "abc", "", "write"}
		h.chk(k)
		h.do("crole", itoa(team), "ab*", "write")
		probe(h, k)
	})
	run(func(h *hist) { // membership added after the deny
		_, tok := h.do("ctok", "k1", "~")
		_, org := h.do("corg", "o1")
		_, team := h.do("cteam", itoa(org), "t1")
		h.do("crole", itoa(team), "*_x", "delete")
		k := key{tok, "b_x", "", "delete"}
		h.chk(k)
		h.do("amem", itoa(tok), itoa(team))
		probe(h, k)
	})
	run(func(h *hist) { // team re-enabled / measurement permission added & deleted
		x := h.setup("~", "*", "read")
		k := key{x.tok, "zz", "abz", "write"}
		h.do("uteam", itoa(x.team), "=", "0")
		h.chk(k)
		h.do("uteam", itoa(x.team), "=", "1")
		h.chk(k)
		_, mp := h.do("cmp", itoa(x.role), "ab*", "write")
		h.chk(k)
		h.chk(key{x.tok, "zz", "", "write"})
		h.do("dmp", itoa(mp))
		probe(h, k)
	})
	run(func(h *hist) { // re-create an organization/team chain with the same names after a cascade delete
		x := h.setup("~", "*", "admin")
		k := key{x.tok, "prod", "", "delete"}
		h.chk(k)
		h.do("dorg", itoa(x.org))
		h.chk(k)
		_, org := h.do("corg", "o1")
		_, team := h.do("cteam", itoa(org), "t1")
		h.chk(k)
		h.do("amem", itoa(x.tok), itoa(team))
		h.do("crole", itoa(team), "prod", "delete")
		probe(h, k)
	})
	// --- TTL boundaries of both caches
	run(func(h *hist) {
		x := h.setup("read", "ab*", "write")
		k, k2 := key{x.tok, "abc", "", "write"}, key{x.tok, "abc", "", "delete"}
		h.chk(k)
		h.adv(ttlNs - 1)
		h.chk(k)  // hit (1 ns before expiry)
		h.chk(k2) // perm miss, token data still cached
		h.adv(1)
		h.chk(k)  // expired exactly at expiresAt
		h.chk(k2) // still cached (stored 1 ns ago)
		h.adv(ttlNs - 1)
		h.bat([]key{k, k2, k})
		h.adv(1)
		h.bat([]key{k2, k})
	})
	// --- the two caches are bounded and swept INDEPENDENTLY: a token's loaded data can be gone while one of
	// its decisions is still cached; per-token invalidation must still drop that decision
	if mode == "direct" || mode == "cluster" {
		// (a) TTL sweep: data loaded at t0, a second decision computed later from the cached data
		for _, mut := range []func(h *hist, x fx){
			func(h *hist, x fx) { h.do("rmem", itoa(x.tok), itoa(x.team)) },
			func(h *hist, x fx) { h.do("utok", itoa(x.tok), "~") },
		} {
			mut := mut
			run(func(h *hist) {
				x := h.setup("delete", "a_*", "read")
				k1, k2, k3 := key{x.tok, "a_1", "", "read"}, key{x.tok, "a_x", "", "read"}, key{x.tok, "zz", "", "delete"}
				h.chk(k1)
				h.adv(ttlNs / 2)
				h.chk(k2)
				h.chk(k3)
				h.adv(ttlNs/2 + 1) // data (and k1) past the TTL, k2/k3 not
				h.clean()
				mut(h, x)
				h.chk(k2)
				h.chk(k3)
				h.bat([]key{k2, k3, k1})
			})
		}
		// (b) capacity: other tokens' traffic through 2-entry caches evicts the member's data / decisions
		for rep := 0; rep < 6; rep++ {
			rep := rep
			for _, mutk := range []string{"rmem", "utok", "amem"} {
				mutk := mutk
				h := newHistCap(c, mode, 2, vh.NewRand(uint64(1000+rep)))
				x := h.setup("delete", "a_*", "read")
				_, o1 := h.do("ctok", "k2", "read")
				_, o2 := h.do("ctok", "k3", "read")
				k, kd := key{x.tok, "a_1", "", "read"}, key{x.tok, "zz", "", "delete"}
				if mutk == "amem" {
					h.do("rmem", itoa(x.tok), itoa(x.team))
				}
				h.chk(k)
				h.chk(kd)
				for i := 0; i < 2+rep%3; i++ {
					h.bat([]key{{o1, "zz", "", "read"}})
					h.chk(k)
					h.bat([]key{{o2, "zz", "", "read"}})
					h.chk(kd)
				}
				switch mutk {
				case "rmem":
					h.do("rmem", itoa(x.tok), itoa(x.team))
				case "utok":
					h.do("utok", itoa(x.tok), "~")
				case "amem":
					h.do("amem", itoa(x.tok), itoa(x.team))
				}
				h.chk(k)
				h.chk(kd)
				h.bat([]key{k, kd})
				h.finish()
			}
		}
	}
	// --- upgrade: a standalone node with RBAC rows joins a cluster; the seed re-creates every organization
	// under the FSM's id and the local delete cascades the old organization's teams/roles/memberships away
	if mode == "direct" {
		run(func(h *hist) {
			x := h.setup("~", "a_*", "read")
			h.do("corg", "o2")
			k := key{x.tok, "a_1", "cpu_x", "read"}
			h.chk(k)
			h.bat([]key{k, {x.tok, "a_x", "", "read"}})
			h.seed()
			h.chk(k)
			h.bat([]key{k, {x.tok, "a_x", "", "read"}})
			h.chk(key{x.tok, "a_1", "", "read"}) // never cached: goes through the token-data cache
			// life goes on in cluster mode
			orgs := h.ids("rbac_organizations")
			_, team := h.do("cteam", itoa(orgs[0]), "t1")
			h.do("crole", itoa(team), "a_*", "read")
			h.do("amem", itoa(x.tok), itoa(team)) // pre-switch token: unknown to the FSM
			_, nt := h.do("ctok", "sk1", "~")
			h.do("amem", itoa(nt), itoa(team))
			h.do("utok", itoa(x.tok), "read")
			h.chk(k)
			h.chk(key{nt, "a_1", "", "read"})
			h.adv(ttlNs)
			h.chk(k)
		})
	}
	// --- malformed / rejected inputs leave state and caches alone
	run(func(h *hist) {
		x := h.setup("~", "a_*", "read")
		k := key{x.tok, "a_1", "", "read"}
		h.chk(k)
		h.do("corg", "9x")
		h.do("corg", "~")
		h.do("corg", "o1")
		h.do("cteam", itoa(x.org), "t1")
		h.do("cteam", "99", "t2")
		h.do("uorg", itoa(x.org), "=", "=")
		h.do("uorg", "99", "=", "1")
		h.do("uteam", "99", "=", "1")
		h.do("uteam", itoa(x.team), "~", "=")
		h.do("crole", itoa(x.team), "a*b", "read")
		h.do("crole", itoa(x.team), "~", "read")
		h.do("crole", itoa(x.team), "*", "~")
		h.do("crole", itoa(x.team), "*", "bogus")
		h.do("crole", "99", "*", "read")
		h.do("urole", itoa(x.role), "=", "=")
		h.do("urole", "99", "*", "=")
		h.do("urole", itoa(x.role), "**", "=")
		h.do("drole", "99")
		h.do("cmp", "99", "*", "read")
		h.do("cmp", itoa(x.role), "~", "read")
		h.do("dmp", "99")
		h.do("amem", itoa(x.tok), itoa(x.team))
		h.do("amem", "99", itoa(x.team))
		h.do("amem", itoa(x.tok), "99")
		h.do("rmem", itoa(x.tok), "99")
		h.do("ctok", "k1", "read")
		h.do("utok", "99", "read")
		h.do("rvtok", "99")
		h.do("dtok", "99")
		h.do("rottok", "99")
		h.do("dorg", "99")
		h.do("dteam", "99")
		h.chk(k)
		h.chk(key{99, "a_1", "", "read"})
		h.bat([]key{{99, "a_1", "", "read"}, k})
	})
}

// ---------------------------------------------------------------- replay of an op file
func replay(c *vh.Ctx, path string) {
	fh, err := os.Open(path)
	if err != nil {
		panic(err)
	}
	defer fh.Close()
	var h *hist
	sc := bufio.NewScanner(fh)
	sc.Buffer(make([]byte, 1<<20), 1<<24)
	for sc.Scan() {
		for _, ln := range strings.Split(sc.Text(), ";") {
			f := strings.Fields(ln)
			if len(f) == 0 {
				continue
			}
			switch f[0] {
			case "new":
				if h != nil {
					h.finish()
				}
				capN := 10000
				if len(f) > 4 {
					capN = int(i64(f[4]))
				}
				h = newHistCap(c, f[1], capN, vh.NewRand(c.Seed))
			case "seed":
				h.seed()
			case "clean":
				h.clean()
			case "adv":
				h.adv(i64(f[1]))
			case "chk":
				h.chk(key{i64(f[1]), f[2], dec(f[3]), f[4]})
			case "bat":
				var ks []key
				for i, x := range f {
					if x == "/" {
						f = f[:i]
						break
					}
				}
				for i := 1; i+3 < len(f); i += 4 {
					ks = append(ks, key{i64(f[i]), f[i+1], dec(f[i+2]), f[i+3]})
				}
				h.bat(ks)
			default:
				if creates[f[0]] {
					f = f[:len(f)-1]
				}
				h.do(f...)
			}
		}
	}
	if h != nil {
		h.finish()
	}
}

func main() {
	c := vh.Start()
	if c.Replay != "" {
		replay(c, c.Replay)
		verifclock.Real()
		c.Finish("replay")
		return
	}
	r := vh.NewRand(c.Seed)
	n := c.N
	if n == 0 {
		n = 1200
		if c.Thorough() {
			n = 15000
		}
	}
	for _, mode := range []string{"direct", "cluster"} {
		scenarios(c, mode)
	}
	for i := 0; i < n; i++ {
		mode := "direct"
		if i%2 == 1 {
			mode = "cluster"
		}
		randomHistory(c, r.Fork(), mode, r.Range(12, 40))
	}
	verifclock.Real()
	keys := make([]string, 0)
	for k := range c.Hist {
		if strings.HasPrefix(k, "STALE:") {
			keys = append(keys, k)
		}
	}
	sort.Strings(keys)
	c.Extra["stale_classes"] = keys
	c.Finish("cases = histories: a scenario grid (every mutation kind after a cached allow / cached deny, token narrowing/widening, TTL boundaries, rejected inputs) in both modes, then random histories of 12..40 mutating/clock ops over 3 tokens, 2 orgs, 3 teams, 3 roles, patterns {*, a_*, *_x, ab*, exact}, each op followed by 2..4 single checks and usually a batch; non-trivial = at least one cache hit and one RBAC-sourced allow; distinct = distinct op text")
}
