//go:build verif

package main

import (
	"bytes"
	"encoding/binary"
	"encoding/hex"
	"fmt"
	"math"
	"os"
	"sort"
	"strings"

	"github.com/basekick-labs/arc/internal/config"
	"github.com/basekick-labs/arc/internal/ingest"
	"github.com/basekick-labs/arc/internal/verif/vh"
	"github.com/basekick-labs/arc/pkg/models"
	"github.com/klauspost/compress/gzip"
	"github.com/klauspost/compress/zstd"
	"github.com/rs/zerolog"
)

// ---------------------------------------------------------------- a tiny MessagePack writer (key order and duplicates under control)

type kv struct {
	k string
	v interface{}
}
type mpMap []kv    // string-keyed map in this order
type mpRaw []byte  // spliced verbatim
type mpU64 uint64  // forced uint64 encoding
type mpF32 float32 // forced float32 encoding
type mpBin []byte

func mpEnc(b *bytes.Buffer, v interface{}) {
	switch x := v.(type) {
	case nil:
		b.WriteByte(0xc0)
	case bool:
		if x {
			b.WriteByte(0xc3)
		} else {
			b.WriteByte(0xc2)
		}
	case int:
		mpEnc(b, int64(x))
	case int64:
		switch {
		case x >= 0 && x <= 127:
			b.WriteByte(byte(x))
		case x < 0 && x >= -32:
			b.WriteByte(byte(x))
		default:
			b.WriteByte(0xd3)
			binary.Write(b, binary.BigEndian, x)
		}
	case mpU64:
		b.WriteByte(0xcf)
		binary.Write(b, binary.BigEndian, uint64(x))
	case float64:
		b.WriteByte(0xcb)
		binary.Write(b, binary.BigEndian, math.Float64bits(x))
	case mpF32:
		b.WriteByte(0xca)
		binary.Write(b, binary.BigEndian, math.Float32bits(float32(x)))
	case string:
		n := len(x)
		switch {
		case n < 32:
			b.WriteByte(0xa0 | byte(n))
		case n < 256:
			b.WriteByte(0xd9)
			b.WriteByte(byte(n))
		default:
			b.WriteByte(0xda)
			binary.Write(b, binary.BigEndian, uint16(n))
		}
		b.WriteString(x)
	case mpBin:
		b.WriteByte(0xc4)
		b.WriteByte(byte(len(x)))
		b.Write(x)
	case []interface{}:
		n := len(x)
		if n < 16 {
			b.WriteByte(0x90 | byte(n))
		} else {
			b.WriteByte(0xdc)
			binary.Write(b, binary.BigEndian, uint16(n))
		}
		for _, e := range x {
			mpEnc(b, e)
		}
	case mpMap:
		n := len(x)
		if n < 16 {
			b.WriteByte(0x80 | byte(n))
		} else {
			b.WriteByte(0xde)
			binary.Write(b, binary.BigEndian, uint16(n))
		}
		for _, e := range x {
			mpEnc(b, e.k)
			mpEnc(b, e.v)
		}
	case mpRaw:
		b.Write(x)
	default:
		panic(fmt.Sprintf("mpEnc: %T", v))
	}
}

func mp(v interface{}) []byte {
	var b bytes.Buffer
	mpEnc(&b, v)
	return b.Bytes()
}

func gz(b []byte) []byte {
	var o bytes.Buffer
	w := gzip.NewWriter(&o)
	w.Write(b)
	w.Close()
	return o.Bytes()
}

func zs(b []byte) []byte {
	enc, _ := zstd.NewWriter(nil)
	defer enc.Close()
	return enc.EncodeAll(b, nil)
}

// ---------------------------------------------------------------- structure-aware request builders

const baseUS = int64(1700000000000000) // 2023-11-14T22:13:20Z, 800 s into its hour

type col struct {
	name string
	vals []interface{}
}

func colOf(name string, vals ...interface{}) col { return col{name, vals} }

func timesCol(start int64, n int) col {
	v := make([]interface{}, n)
	for i := range v {
		v[i] = start + int64(i)
	}
	return col{"time", v}
}

func columnarMap(meas interface{}, cols []col) mpMap {
	var cm mpMap
	for _, c := range cols {
		cm = append(cm, kv{c.name, c.vals})
	}
	return mpMap{{"m", meas}, {"columns", cm}}
}

func unusualOf(names []string) string {
	u := ""
	for _, n := range names {
		switch {
		case n == "":
			u = "empty"
		case n[0] == '_' && u == "":
			u = "underscore"
		}
	}
	return u
}

// a columnar msgpack write (typed fast path when it is a single top-level map)
func reqColumnar(db, meas string, cols []col, tag string) reqSpec {
	r := reqSpec{Ep: "msgpack", Body: mp(columnarMap(meas, cols)), Tag: tag}
	if db != "" {
		r.DBHeader = strp(db)
	}
	n, hasTime := 0, false
	var names []string
	var times []int64
	for _, c := range cols {
		if c.name == "time" {
			hasTime = true
			for _, v := range c.vals {
				if t, ok := v.(int64); ok {
					times = append(times, t)
				}
			}
			continue
		}
		names = append(names, c.name)
		n = len(c.vals)
	}
	if hasTime && len(times) == n && n > 0 {
		d := db
		if d == "" {
			d = "default"
		}
		r.Exp = &expect{DB: d, Meas: meas, Cols: names, Rows: n, Times: times, Unusual: unusualOf(names)}
	}
	return r
}

func reqMsgpackRaw(db string, body []byte, tag string) reqSpec {
	r := reqSpec{Ep: "msgpack", Body: body, Tag: tag}
	if db != "" {
		r.DBHeader = strp(db)
	}
	return r
}

func rowMap(meas string, t interface{}, tags mpMap, fields mpMap) mpMap {
	m := mpMap{{"m", meas}}
	if t != nil {
		m = append(m, kv{"t", t})
	}
	if tags != nil {
		m = append(m, kv{"tags", tags})
	}
	m = append(m, kv{"fields", fields})
	return m
}

func reqLP(ep, db, body, tag string) reqSpec {
	r := reqSpec{Ep: ep, Body: []byte(body), Tag: tag, Query: map[string]string{}}
	switch ep {
	case "lp":
		if db != "" {
			r.DBHeader = strp(db)
		}
	case "lp1":
		r.Query["db"] = db
	case "lp2":
		r.Query["bucket"] = db
	case "implp":
		r.Query["db"] = db
	}
	return r
}

func reqCSV(db, meas, body, tag string) reqSpec {
	return reqSpec{Ep: "csv", Body: []byte(body), Tag: tag, Query: map[string]string{"db": db, "measurement": meas}}
}

// a CSV import whose integer cells identify their column: cell(col j, row i) = 100*(j+1)+i
func reqCSVCols(db, meas, timeCol string, header []string, rows int, start int64) reqSpec {
	var b strings.Builder
	q := func(s string) string {
		if strings.ContainsAny(s, ",\"\n") {
			return "\"" + strings.ReplaceAll(s, "\"", "\"\"") + "\""
		}
		return s
	}
	for j, h := range header {
		if j > 0 {
			b.WriteByte(',')
		}
		b.WriteString(q(h))
	}
	b.WriteByte('\n')
	vals := map[string][]int64{}
	for i := 0; i < rows; i++ {
		for j, h := range header {
			if j > 0 {
				b.WriteByte(',')
			}
			if h == timeCol {
				fmt.Fprintf(&b, "%d", start+int64(i))
				continue
			}
			v := int64(100*(j+1) + i)
			fmt.Fprintf(&b, "%d", v)
			vals[h] = append(vals[h], v)
		}
		b.WriteByte('\n')
	}
	r := reqSpec{Ep: "csv", Body: []byte(b.String()), Tag: "csv-padded-header", Query: map[string]string{"db": db, "measurement": meas}}
	if timeCol != "time" {
		r.Query["time_column"] = timeCol
	}
	r.Exp = &expect{DB: db, Meas: meas, ImportEp: "csv", ColVals: vals}
	return r
}

// a Parquet import with a timestamp `time` column and int64 columns whose cells identify their column
func reqParquetCols(db, meas string, names []string, rows int, start int64) reqSpec {
	cols := []pqCol{{name: "time", kind: "ts", n: rows, base: start}}
	vals := map[string][]int64{}
	for j, nm := range names {
		base := int64(100 * (j + 1))
		cols = append(cols, pqCol{name: nm, kind: "i", n: rows, base: base})
		for i := 0; i < rows; i++ {
			vals[nm] = append(vals[nm], base+int64(i))
		}
	}
	r := reqParquet(db, meas, buildParquet(cols), "parquet-unusual-names")
	r.Exp = &expect{DB: db, Meas: meas, ImportEp: "parquet", ColVals: vals}
	return r
}

func reqParquet(db, meas string, body []byte, tag string) reqSpec {
	return reqSpec{Ep: "parquet", Body: body, Tag: tag, Query: map[string]string{"db": db, "measurement": meas}}
}

const tleISS = "ISS (ZARYA)\n1 25544U 98067A   24051.34722222  .00016717  00000-0  10270-3 0  9014\n2 25544  51.6400 208.9163 0006703 319.1918  40.8793 15.49560830442108\n"

func reqTLE(ep, db, meas, body, tag string) reqSpec {
	r := reqSpec{Ep: ep, Body: []byte(body), Tag: tag, Query: map[string]string{}}
	if ep == "imptle" {
		r.Query["db"] = db
	} else if db != "" {
		r.DBHeader = strp(db)
	}
	if meas != "" {
		r.MeasHdr = strp(meas)
	}
	return r
}

func withBody(r reqSpec, body []byte, tag string) reqSpec {
	r.Body = body
	r.Exp = nil
	r.Tag = r.Tag + "+" + tag
	return r
}

// ---------------------------------------------------------------- edge grid (runs first, same on every seed)

func edgeGrid() []seqSpec {
	var out []seqSpec
	add := func(name string, reqs ...reqSpec) {
		for _, mb := range []int{1000000, 2} {
			for _, w := range []bool{false, true} {
				rs := make([]reqSpec, len(reqs))
				copy(rs, reqs)
				out = append(out, seqSpec{MaxBuf: mb, WAL: w, Reqs: rs, Name: name})
			}
		}
	}
	one := func(name string, reqs ...reqSpec) {
		out = append(out, seqSpec{MaxBuf: 1000000, WAL: false, Reqs: reqs, Name: name})
	}
	t := baseUS
	good := func(meas string, start int64, n int) reqSpec {
		v := make([]interface{}, n)
		for i := range v {
			v[i] = float64(i) + 0.5
		}
		return reqColumnar("db1", meas, []col{timesCol(start, n), {"v", v}}, "columnar-good")
	}
	// --- ordinary traffic, several requests merged by one flush
	add("good-x3", good("m", t, 2), good("m", t+10, 1), good("m", t+20, 3))
	add("good-two-measurements", good("m", t, 1), good("n", t, 1), good("m", t+5, 1))
	// --- type change of an ordinary column between requests: signature differs -> synchronous flush
	add("type-change-ordinary",
		reqColumnar("db1", "m", []col{timesCol(t, 1), colOf("v", int64(1))}, "columnar-int"),
		reqColumnar("db1", "m", []col{timesCol(t+1, 1), colOf("v", 1.5)}, "columnar-float"),
		reqColumnar("db1", "m", []col{timesCol(t+2, 1), colOf("v", "s")}, "columnar-str"),
		reqColumnar("db1", "m", []col{timesCol(t+3, 1), colOf("v", true)}, "columnar-bool"))
	// --- empty column name
	add("empty-column-name", reqColumnar("db1", "m", []col{timesCol(t, 2), colOf("", int64(1), int64(2)), colOf("v", 1.0, 2.0)}, "columnar-empty-name"))
	add("empty-column-name-generic", reqMsgpackRaw("db1", mp([]interface{}{columnarMap("m", []col{timesCol(t, 1), colOf("", int64(1))})}), "array-empty-name"))
	// --- `_`-prefixed column: same type twice (dropped from the file), then a type change
	add("underscore-same-type",
		reqColumnar("db1", "m", []col{timesCol(t, 1), colOf("_x", int64(1)), colOf("v", 1.0)}, "columnar-underscore"),
		reqColumnar("db1", "m", []col{timesCol(t+1, 1), colOf("_x", int64(2)), colOf("v", 2.0)}, "columnar-underscore"))
	add("underscore-type-change",
		reqColumnar("db1", "m", []col{timesCol(t, 1), colOf("_x", int64(1)), colOf("v", 1.0)}, "columnar-underscore"),
		reqColumnar("db1", "m", []col{timesCol(t+1, 1), colOf("_x", "a"), colOf("v", 2.0)}, "columnar-underscore-str"))
	add("underscore-type-change-then-other-signature",
		reqColumnar("db1", "m", []col{timesCol(t, 1), colOf("_x", int64(1)), colOf("v", 1.0)}, "columnar-underscore"),
		reqColumnar("db1", "m", []col{timesCol(t+1, 1), colOf("_x", 1.5), colOf("v", 2.0)}, "columnar-underscore-float"),
		reqColumnar("db1", "m", []col{timesCol(t+2, 1), colOf("w", 2.0)}, "columnar-other-signature"))
	add("underscore-lp",
		reqLP("lp", "db1", fmt.Sprintf("m _x=1i,v=1 %d\n", t*1000), "lp-underscore"),
		reqLP("lp", "db1", fmt.Sprintf("m _x=\"a\",v=2 %d\n", (t+1)*1000), "lp-underscore-str"))
	add("underscore-msgpack-then-csv-import",
		reqColumnar("db1", "m", []col{timesCol(t, 1), colOf("_x", int64(1)), colOf("v", int64(1))}, "columnar-underscore"),
		reqCSV("db1", "m", fmt.Sprintf("time,_x,v\n%d,abc,2\n", t+1), "csv-underscore-str"))
	// --- reserved name `time` as a tag / field
	add("row-field-time-unsorted",
		reqMsgpackRaw("db1", mp(rowMap("m", int64(1700000000), nil, mpMap{{"time", t - 1}, {"v", int64(1)}})), "row-field-time"))
	add("row-field-time-sorted",
		reqMsgpackRaw("db1", mp(rowMap("m", int64(1700000000), nil, mpMap{{"time", t + 1}, {"v", int64(1)}})), "row-field-time"))
	{
		// array.NewRecord panics only when Go's map order puts the long `time` column first (1 in 3 per flush):
		// twelve measurements, each flushed on its own
		var rs []reqSpec
		for i := 0; i < 12; i++ {
			rs = append(rs, reqMsgpackRaw("db1", mp(rowMap(fmt.Sprintf("m%d", i), int64(1700000000), nil, mpMap{{"time", t + 1}, {"v", int64(1)}})), "row-field-time-sorted"))
		}
		add("row-field-time-sorted-x12", rs...)
	}
	add("empty-name-then-other-signature",
		reqColumnar("db1", "m", []col{timesCol(t, 1), colOf("", int64(1)), colOf("v", 1.0)}, "columnar-empty-name"),
		reqColumnar("db1", "m", []col{timesCol(t+1, 1), colOf("w", 2.0)}, "columnar-other-signature"))
	add("empty-name-then-import",
		reqColumnar("db1", "m", []col{timesCol(t, 1), colOf("", int64(1)), colOf("v", 1.0)}, "columnar-empty-name"),
		reqCSV("db1", "c", fmt.Sprintf("time,v\n%d,1\n", t), "csv-good"))
	add("row-field-time-then-other-signature",
		reqMsgpackRaw("db1", mp(rowMap("m", int64(1700000000), nil, mpMap{{"time", t - 1}, {"v", int64(1)}})), "row-field-time"),
		reqColumnar("db1", "m", []col{timesCol(t+1, 1), colOf("w", 2.0)}, "columnar-other-signature"))
	add("row-field-time-other-hour",
		reqMsgpackRaw("db1", mp(rowMap("m", int64(1700000000), nil, mpMap{{"time", int64(5)}, {"v", int64(1)}})), "row-field-time"))
	add("row-tag-time", reqMsgpackRaw("db1", mp(rowMap("m", int64(1700000000), mpMap{{"time", "x"}}, mpMap{{"v", int64(1)}})), "row-tag-time"))
	add("row-value-collision", reqMsgpackRaw("db1", mp(rowMap("m", int64(1700000000), mpMap{{"a", "x"}}, mpMap{{"a", int64(1)}, {"a_value", int64(2)}})), "row-value-collision"))
	add("lp-field-time", reqLP("lp", "db1", fmt.Sprintf("m time=5i,v=1 %d\n", t*1000), "lp-field-time"))
	add("lp-tag-time", reqLP("lp", "db1", fmt.Sprintf("m,time=x v=1 %d\n", t*1000), "lp-tag-time"))
	add("columnar-reserved-names", reqColumnar("db1", "m", []col{timesCol(t, 1), colOf("measurement", "x"), colOf("database", "y"), colOf("host", "h"), colOf("a b", 1.0), colOf("sélect", int64(1))}, "columnar-reserved"))
	// --- a rejected record after an accepted one in the same request
	add("batch-good-then-bad",
		reqMsgpackRaw("db1", mp([]interface{}{columnarMap("m", []col{timesCol(t, 2), colOf("v", int64(1), int64(2))}), columnarMap("n", []col{timesCol(t, 1), colOf("v", mpMap{{"k", int64(1)}})})}), "array-good-bad"))
	add("batch-format-good-then-bad",
		reqMsgpackRaw("db1", mp(mpMap{{"batch", []interface{}{columnarMap("m", []col{timesCol(t, 1), colOf("v", int64(1))}), columnarMap("n", []col{colOf("time", "2024"), colOf("v", int64(1))})}}}), "batch-good-bad"))
	add("nested-batch", reqMsgpackRaw("db1", mp([]interface{}{columnarMap("m", []col{timesCol(t, 1), colOf("v", int64(1))}), mpMap{{"batch", []interface{}{columnarMap("n", []col{timesCol(t, 1), colOf("v", int64(1))})}}}}), "array-nested-batch"))
	// (Go map order decides which measurement is written first: eight good ones, one bad)
	lpMixed := ""
	for _, m := range []string{"a", "c", "d", "e", "f", "g", "h", "i"} {
		lpMixed += fmt.Sprintf("%s v=1i %d\n", m, t*1000)
	}
	lpMixed += fmt.Sprintf("b v=1i %d\nb v=\"x\" %d\n", t*1000, t*1000+1000)
	add("lp-mixed-types", reqLP("lp", "db1", lpMixed, "lp-mixed"))
	add("implp-mixed-types", reqLP("implp", "db1", lpMixed, "implp-mixed"))
	// --- one INVALID measurement name among many valid ones, in every position: name validation must reject
	// the whole request before anything is buffered (Go map order would expose a validate-while-writing loop)
	{
		valid := []string{"a", "c", "d", "e", "f", "g", "h", "i"}
		for _, ep := range []string{"lp", "lp1", "implp"} {
			var rs []reqSpec
			for pos := 0; pos <= len(valid); pos += 2 {
				body := ""
				for j, m := range valid {
					if j == pos {
						body += fmt.Sprintf("9bad v=1i %d\n", t*1000)
					}
					body += fmt.Sprintf("%s v=1i %d\n", m, t*1000)
				}
				if pos == len(valid) {
					body += fmt.Sprintf("a.b v=1i %d\n", t*1000)
				}
				rs = append(rs, reqLP(ep, "db1", body, ep+"-invalid-measurement-name"))
			}
			one("invalid-measurement-name-"+ep, rs...)
		}
		var rs []reqSpec
		for pos := 0; pos <= len(valid); pos += 2 {
			var items []interface{}
			for j, m := range valid {
				if j == pos {
					items = append(items, columnarMap("9bad", []col{timesCol(t, 1), colOf("v", int64(1))}))
				}
				items = append(items, columnarMap(m, []col{timesCol(t, 1), colOf("v", int64(1))}))
			}
			if pos == len(valid) {
				items = append(items, rowMap("a.b", int64(1700000000), nil, mpMap{{"v", int64(1)}}))
			}
			rs = append(rs, reqMsgpackRaw("db1", mp(items), "array-invalid-measurement-name"))
			rs = append(rs, reqMsgpackRaw("db1", mp(mpMap{{"batch", items}}), "batch-invalid-measurement-name"))
		}
		one("invalid-measurement-name-msgpack", rs...)
		one("invalid-database-name-multi", reqLP("lp", "9db", "a v=1i\nb v=1i\nc v=1i\n", "lp-invalid-db"), reqLP("implp", "d.b", "a v=1i\nb v=1i\n", "implp-invalid-db"))
	}
	// --- CSV headers that are distinct only by padding / collide after trimming with another column, with
	// `time`, with the chosen time_column, or with the empty name: 2xx => every column stored under its RAW name
	{
		type hc struct {
			timeCol string
			header  []string
		}
		cases := []hc{
			{"time", []string{"time", "v", " v"}}, {"time", []string{"time", "v ", "v"}}, {"time", []string{"time", "\tv", "v", "v\t"}},
			{"time", []string{"time", " time", "v"}}, {"time", []string{"time", "time ", "w"}},
			{"ts", []string{"ts", " time", "v"}}, {"ts", []string{"ts", "time ", "v"}}, {"ts", []string{"ts", " ts", "v"}}, {"ts", []string{" ts", "ts", "v"}},
			{"time", []string{"time", " ", "v"}}, {"time", []string{"time", "  ", " ", "v"}}, {"time", []string{"time", "\t", "v"}},
			{"time", []string{"time", "a b", "a  b", "V", "v"}}, {" ts", []string{" ts", "ts", "time "}},
			// `_`-prefixed header names: rejected since 273e2e1 (before: accepted and silently left out of the file)
			{"time", []string{"time", "_x", "v"}}, {"time", []string{"time", "_", "v"}}, {"_ts", []string{"_ts", "v"}}, {"time", []string{"time", " _x", "v"}},
		}
		var rs []reqSpec
		for i, cs := range cases {
			rs = append(rs, reqCSVCols("db1", fmt.Sprintf("h%d", i), cs.timeCol, cs.header, 2, t))
		}
		one("csv-padded-header-names", rs...)
		// parser-stage edge cases (outside the model, search only): BOM, rows longer / shorter than the header
		one("csv-bom-and-ragged-rows",
			reqCSV("db1", "bom", fmt.Sprintf("\xef\xbb\xbftime,v\n%d,1\n", t), "csv-bom"),
			reqCSV("db1", "bomq", fmt.Sprintf("\xef\xbb\xbf\"time\",v\n%d,1\n", t), "csv-bom-quoted"),
			reqCSV("db1", "long", fmt.Sprintf("time,v\n%d,1,2,3\n", t), "csv-row-longer-than-header"),
			reqCSV("db1", "short", fmt.Sprintf("time,v,w\n%d,1\n%d,2,3\n", t, t+1), "csv-row-shorter-than-header"),
			reqCSV("db1", "bigint", fmt.Sprintf("time,v\n%d,9007199254740993\n%d,1.5\n", t, t+1), "csv-int-beyond-float53"))
		// Parquet imports with unusual column names: 2xx => every int64 column stored under its name
		var ps []reqSpec
		for i, names := range [][]string{{"v", " v"}, {"_x", "v"}, {" ", "v"}, {"time ", "v"}, {"measurement", "a b"}} {
			ps = append(ps, reqParquetCols("db1", fmt.Sprintf("pq%d", i), names, 2, t))
		}
		one("parquet-unusual-column-names", ps...)
	}
	// --- zero-row columnar record, then an import that flushes everything
	add("empty-arrays-then-import",
		reqMsgpackRaw("db1", mp(columnarMap("z", []col{{"x", []interface{}{}}})), "columnar-empty-arrays"),
		reqCSV("db1", "c", fmt.Sprintf("time,v\n%d,1\n", t), "csv-good"))
	// --- imports
	add("csv-good", reqCSV("db1", "c", fmt.Sprintf("time,v,s\n%d,1,a\n%d,2,b\n", t, t+1), "csv-good"))
	add("csv-empty-header-name", reqCSV("db1", "c", fmt.Sprintf("time,,v\n%d,1,2\n", t), "csv-empty-name"))
	add("csv-underscore", reqCSV("db1", "c", fmt.Sprintf("time,_x,v\n%d,1,2\n", t), "csv-underscore"))
	add("csv-dup-and-time", reqCSV("db1", "c", fmt.Sprintf("time,v,v\n%d,1,2\n", t), "csv-dup"), reqCSV("db1", "c", "v\n1\n", "csv-no-time"))
	add("parquet-good", reqParquet("db1", "p", buildParquet([]pqCol{{name: "time", kind: "ts", n: 3, base: t}, {name: "v", kind: "f", n: 3, base: 1}, {name: "s", kind: "s", n: 3, null: []int{1}}}), "parquet-good"))
	add("parquet-unusual-names", reqParquet("db1", "p", buildParquet([]pqCol{{name: "time", kind: "i", n: 2, base: t}, {name: "", kind: "i", n: 2}, {name: "_x", kind: "s", n: 2}}), "parquet-empty-name"),
		reqParquet("db1", "p", buildParquet([]pqCol{{name: "time", kind: "i", n: 2, base: t}, {name: "_x", kind: "s", n: 2}, {name: "v", kind: "b", n: 2, null: []int{0}}}), "parquet-underscore"))
	add("tle", reqTLE("tle", "db1", "", tleISS, "tle-good"), reqTLE("tle", "db1", "", "garbage\n1 xx\n2 yy\n", "tle-garbage"), reqTLE("imptle", "db1", "", tleISS+tleISS, "imptle-good"))
	add("implp", reqLP("implp", "db1", fmt.Sprintf("m v=1 %d\nn v=2 %d\n", t*1000, t*1000), "implp-good"))
	// --- compression, valid and broken
	goodBody := mp(columnarMap("m", []col{timesCol(t, 2), colOf("v", 1.0, 2.0)}))
	gzb, zsb := gz(goodBody), zs(goodBody)
	add("compressed", reqMsgpackRaw("db1", gzb, "gzip"), reqMsgpackRaw("db1", zsb, "zstd"),
		reqMsgpackRaw("db1", gzb[:len(gzb)-5], "gzip-truncated"), reqMsgpackRaw("db1", zsb[:len(zsb)-3], "zstd-truncated"),
		reqMsgpackRaw("db1", []byte{0x1f, 0x8b}, "gzip-magic-only"), reqMsgpackRaw("db1", []byte{0x28, 0xb5, 0x2f, 0xfd}, "zstd-magic-only"),
		reqLP("lp", "db1", string(gz([]byte(fmt.Sprintf("m v=1 %d\n", t*1000)))), "lp-gzip"), reqLP("lp", "db1", string(zs([]byte(fmt.Sprintf("m v=2 %d\n", t*1000+1000)))), "lp-zstd"),
		reqLP("lp", "db1", string(gz(gz([]byte("m v=1\n")))), "lp-double-gzip"))
	// --- database names (envelope header of the WAL is 3+255 bytes)
	add("db-names",
		reqColumnar(strings.Repeat("d", 64), "m", []col{timesCol(t, 1), colOf("v", 1.0)}, "db-64"),
		reqColumnar(strings.Repeat("d", 65), "m", []col{timesCol(t, 1), colOf("v", 1.0)}, "db-65"),
		reqColumnar(strings.Repeat("d", 300), "m", []col{timesCol(t, 1), colOf("v", 1.0)}, "db-300"),
		reqColumnar("../x", "m", []col{timesCol(t, 1), colOf("v", 1.0)}, "db-traversal"),
		reqLP("lp1", strings.Repeat("e", 300), "m v=1\n", "lp-db-300"),
		reqColumnar("db1", "", []col{timesCol(t, 1), colOf("v", 1.0)}, "empty-measurement"),
		reqColumnar("db1", "bad/name", []col{timesCol(t, 1), colOf("v", 1.0)}, "bad-measurement"))
	// --- bodies that are not MessagePack at all / library edge cases
	one("garbage",
		reqMsgpackRaw("db1", nil, "empty-body"), reqMsgpackRaw("db1", []byte{0xc1}, "mp-c1"),
		reqMsgpackRaw("db1", []byte{0xdd, 0xff, 0xff, 0xff, 0xff}, "mp-huge-array"), reqMsgpackRaw("db1", []byte{0xdf, 0x7f, 0xff, 0xff, 0xff}, "mp-huge-map"),
		reqMsgpackRaw("db1", mp(mpMap{{"m", "m"}, {"columns", mpMap{{"time", []interface{}{mpU64(math.MaxUint64)}}, {"v", []interface{}{mpU64(math.MaxUint64)}}}}}), "mp-u64-max"),
		reqMsgpackRaw("db1", mp(int64(5)), "mp-scalar"), reqMsgpackRaw("db1", mp("str"), "mp-string"),
		reqMsgpackRaw("db1", mp(mpMap{{"m", int64(7)}, {"columns", mpMap{{"v", []interface{}{nil, nil}}}}}), "mp-all-nil"),
		reqMsgpackRaw("db1", mp(mpMap{{"m", "m"}, {"columns", mpMap{{"time", []interface{}{nil}}, {"v", []interface{}{int64(1)}}}}}), "mp-nil-time"),
		reqMsgpackRaw("db1", mp(mpMap{{"m", "m"}, {"columns", mpMap{{"time", []interface{}{t, t + 1}}, {"v", []interface{}{int64(1)}}}}}), "mp-len-mismatch"),
		reqMsgpackRaw("db1", mp(mpMap{{"m", "m"}, {"columns", mpMap{{"v", []interface{}{mpBin{1, 2}}}}}}), "mp-bin-column"),
		reqLP("lp", "db1", "\x00\xff\xfe garbage ===,,, \\\n\"\n", "lp-garbage"), reqLP("lp2", "db1", "m v=1 notanumber\n", "lp-bad-ts"),
		reqCSV("db1", "c", "\"unterminated\n1,2", "csv-garbage"), reqCSV("db1", "c", "", "csv-empty"),
		reqParquet("db1", "p", []byte("PAR1 not a parquet file PAR1"), "parquet-garbage"),
		reqSpec{Ep: "csv", NoFile: true, Query: map[string]string{"db": "db1", "measurement": "c"}, Tag: "csv-no-file"})
	// a map whose first key is nil: the msgpack library panics inside Unmarshal (reflect on a nil type)
	one("mp-nil-key-map", reqMsgpackRaw("db1", []byte{0x81, 0xc0, 0x01}, "mp-nil-key-map"))
	// minimised past finds (corpus): a mutated Parquet file on which arrow-go's reader dereferences nil
	if b, err := os.ReadFile("/verif/corpus/C04/parquet-reader-panic.hex"); err == nil {
		if raw, err := hex.DecodeString(strings.TrimSpace(string(b))); err == nil {
			one("corpus-parquet-reader-panic", reqParquet("db2", "m", raw, "corpus-parquet"))
		}
	}
	// a 458-byte upload (column chunk without metadata) on which pqarrow panics on a reader GOROUTINE
	if b, err := os.ReadFile("/verif/corpus/C04/parquet-import-goroutine-crash.hex"); err == nil {
		if raw, err := hex.DecodeString(strings.TrimSpace(string(b))); err == nil {
			one("corpus-parquet-goroutine-crash", reqParquet("db1", "m", raw, "corpus-parquet-crash"))
		}
	}
	return out
}

// ---------------------------------------------------------------- random sequences

var measPool = []string{"m", "m", "n", "cpu"}
var colPool = []string{"v", "v", "w", "_x", "_x", "", "host", "time_", "tag", "measurement", "a b", "_", "__y", "é", "value", "v_value"}
var dbPool = []string{"db1", "db1", "", "db2", "default"}

func randVal(r *vh.Rand, kind int, i int) interface{} {
	switch kind {
	case 0:
		return int64(r.Intn(1000)) - 500
	case 1:
		return float64(r.Intn(1000)) / 8
	case 2:
		return fmt.Sprintf("s%d", r.Intn(50))
	case 3:
		return r.Bool()
	case 4:
		return mpU64(uint64(math.MaxInt64) + uint64(r.Intn(5)))
	case 5:
		return mpF32(float32(r.Intn(100)) / 4)
	default:
		return nil
	}
}

func randCol(r *vh.Rand, name string, n int) col {
	kind := r.Intn(4)
	vals := make([]interface{}, n)
	for i := range vals {
		vals[i] = randVal(r, kind, i)
		switch {
		case r.Chance(8):
			vals[i] = nil
		case r.Chance(3):
			vals[i] = randVal(r, r.Intn(6), i) // a cell of another kind
		}
	}
	return col{name, vals}
}

func randCols(r *vh.Rand, start int64, n int) []col {
	var cols []col
	if !r.Chance(6) {
		tc := timesCol(start, n)
		if r.Chance(10) { // unsorted / other hour
			for i := range tc.vals {
				tc.vals[i] = start - int64(i)*vh.Pick(r, []int64{1, 1000, 4000000000})
			}
		}
		cols = append(cols, tc)
	}
	k := r.Range(1, 3)
	seen := map[string]bool{}
	for j := 0; j < k; j++ {
		nm := vh.Pick(r, colPool)
		if seen[nm] {
			continue
		}
		seen[nm] = true
		cols = append(cols, randCol(r, nm, n))
	}
	return cols
}

func lpValue(r *vh.Rand) string {
	switch r.Intn(5) {
	case 0:
		return fmt.Sprintf("%di", r.Intn(100))
	case 1:
		return fmt.Sprintf("%d.5", r.Intn(100))
	case 2:
		return fmt.Sprintf("\"s%d\"", r.Intn(9))
	case 3:
		return "t"
	default:
		return fmt.Sprintf("%du", r.Intn(100))
	}
}

func randLPBody(r *vh.Rand, start int64) string {
	var b strings.Builder
	lines := r.Range(1, 4)
	for i := 0; i < lines; i++ {
		b.WriteString(vh.Pick(r, measPool))
		if r.Chance(40) {
			fmt.Fprintf(&b, ",%s=t%d", vh.Pick(r, []string{"host", "_x", "tag", "time", "v"}), r.Intn(3))
		}
		b.WriteByte(' ')
		k := r.Range(1, 3)
		for j := 0; j < k; j++ {
			if j > 0 {
				b.WriteByte(',')
			}
			fmt.Fprintf(&b, "%s=%s", vh.Pick(r, []string{"v", "w", "_x", "time", "host", "_"}), lpValue(r))
		}
		if !r.Chance(10) {
			fmt.Fprintf(&b, " %d", (start+int64(i))*1000)
		}
		b.WriteByte('\n')
	}
	return b.String()
}

func randCSVBody(r *vh.Rand, start int64) string {
	names := []string{"time"}
	k := r.Range(1, 3)
	for j := 0; j < k; j++ {
		names = append(names, vh.Pick(r, []string{"v", "w", "_x", "", "host", "v", "s"}))
	}
	var b strings.Builder
	b.WriteString(strings.Join(names, ","))
	b.WriteByte('\n')
	rows := r.Range(1, 3)
	for i := 0; i < rows; i++ {
		fmt.Fprintf(&b, "%d", start+int64(i))
		for j := 1; j < len(names); j++ {
			b.WriteByte(',')
			switch r.Intn(5) {
			case 0:
				fmt.Fprintf(&b, "%d", r.Intn(9))
			case 1:
				fmt.Fprintf(&b, "%d.25", r.Intn(9))
			case 2:
				b.WriteString("abc")
			case 3:
				b.WriteString("true")
			}
		}
		b.WriteByte('\n')
	}
	return b.String()
}

func mutate(r *vh.Rand, b []byte) []byte {
	if len(b) == 0 {
		return []byte{byte(r.Intn(256))}
	}
	o := append([]byte(nil), b...)
	switch r.Intn(6) {
	case 0: // flip bits
		for k := r.Range(1, 3); k > 0; k-- {
			o[r.Intn(len(o))] ^= byte(1 << r.Intn(8))
		}
	case 1: // truncate
		o = o[:r.Intn(len(o))]
	case 2: // overwrite a byte with an interesting value
		o[r.Intn(len(o))] = vh.Pick(r, []byte{0x00, 0xff, 0xc0, 0xc1, 0x80, 0x90, 0xa0, 0xdc, 0xdd, 0xde, 0xdf, 0xcf, 0xd3, 0x5f, 0x2c, 0x0a})
	case 3: // duplicate a slice
		i := r.Intn(len(o))
		j := i + r.Intn(len(o)-i)
		o = append(o[:j:j], append(append([]byte(nil), o[i:j]...), o[j:]...)...)
	case 4: // delete a slice
		i := r.Intn(len(o))
		j := i + r.Intn(len(o)-i)
		o = append(o[:i:i], o[j:]...)
	default: // insert random bytes
		i := r.Intn(len(o) + 1)
		ins := make([]byte, r.Range(1, 4))
		for k := range ins {
			ins[k] = byte(r.Intn(256))
		}
		o = append(o[:i:i], append(ins, o[i:]...)...)
	}
	return o
}

func randomBytes(r *vh.Rand) []byte {
	b := make([]byte, r.Range(0, 24))
	for i := range b {
		b[i] = byte(r.Intn(256))
	}
	return b
}

func compressMaybe(r *vh.Rand, rq reqSpec) reqSpec {
	if isImport(rq.Ep) && rq.Ep != "implp" && rq.Ep != "imptle" {
		return rq
	}
	switch r.Intn(10) {
	case 0:
		rq.Body = gz(rq.Body)
		rq.Tag += "+gzip"
	case 1:
		if !isImport(rq.Ep) {
			rq.Body = zs(rq.Body)
			rq.Tag += "+zstd"
		}
	case 2:
		if r.Bool() {
			rq.Body = mutate(r, gz(rq.Body))
		} else {
			rq.Body = mutate(r, zs(rq.Body))
		}
		rq.Exp = nil
		rq.Tag += "+broken-compression"
	}
	return rq
}

func randomReq(r *vh.Rand, start int64) reqSpec {
	db := vh.Pick(r, dbPool)
	meas := vh.Pick(r, measPool)
	n := r.Range(1, 4)
	var rq reqSpec
	switch r.Intn(14) {
	case 0, 1, 2, 3: // columnar (typed fast path)
		rq = reqColumnar(db, meas, randCols(r, start, n), "columnar")
	case 4: // top-level array / batch of columnar + row items
		var items []interface{}
		for k := r.Range(1, 3); k > 0; k-- {
			if r.Chance(70) {
				items = append(items, columnarMap(vh.Pick(r, measPool), randCols(r, start, r.Range(1, 3))))
			} else {
				items = append(items, rowMap(vh.Pick(r, measPool), start/1000000, nil, mpMap{{vh.Pick(r, colPool), int64(1)}}))
			}
		}
		if r.Bool() {
			rq = reqMsgpackRaw(db, mp(items), "array")
		} else {
			rq = reqMsgpackRaw(db, mp(mpMap{{"batch", items}}), "batch")
		}
	case 5: // row format
		var tags, fields mpMap
		for k := r.Range(0, 2); k > 0; k-- {
			tags = append(tags, kv{vh.Pick(r, []string{"host", "_x", "time", "a", "tag"}), fmt.Sprintf("t%d", r.Intn(3))})
		}
		for k := r.Range(1, 3); k > 0; k-- {
			fields = append(fields, kv{vh.Pick(r, []string{"v", "w", "_x", "", "time", "a", "a_value"}), randVal(r, r.Intn(4), 0)})
		}
		var tv interface{} = start / 1000000
		if r.Chance(15) {
			tv = nil
		}
		rq = reqMsgpackRaw(db, mp(rowMap(meas, tv, tags, fields)), "row")
	case 6, 7:
		ep := vh.Pick(r, []string{"lp", "lp", "lp1", "lp2"})
		d := db
		if d == "" && ep != "lp" {
			d = "db1"
		}
		rq = reqLP(ep, d, randLPBody(r, start), "lp")
	case 8:
		d := db
		if d == "" {
			d = "db1"
		}
		if r.Chance(40) {
			pool := []string{"v", " v", "v ", "w", "\tw", " ", "time ", " time", "x y", "V"}
			hdr := []string{"time"}
			seen := map[string]bool{"time": true}
			for k := r.Range(1, 4); k > 0; k-- {
				n := vh.Pick(r, pool)
				if !seen[n] {
					seen[n] = true
					hdr = append(hdr, n)
				}
			}
			rq = reqCSVCols(d, fmt.Sprintf("csvp%d", r.Intn(1000000)), "time", hdr, r.Range(1, 3), start)
			break
		}
		rq = reqCSV(d, meas, randCSVBody(r, start), "csv")
	case 9:
		d := db
		if d == "" {
			d = "db1"
		}
		cols := []pqCol{{name: "time", kind: vh.Pick(r, []string{"ts", "i", "i", "s"}), n: n, base: start}}
		for k := r.Range(1, 2); k > 0; k-- {
			cols = append(cols, pqCol{name: vh.Pick(r, []string{"v", "w", "_x", "", "host"}), kind: vh.Pick(r, []string{"i", "f", "s", "b"}), n: n, null: []int{r.Intn(n + 1)}})
		}
		rq = reqParquet(d, meas, buildParquet(cols), "parquet")
	case 10:
		ep := vh.Pick(r, []string{"tle", "tle", "imptle"})
		d := db
		if d == "" && ep == "imptle" {
			d = "db1"
		}
		m := ""
		if r.Chance(30) {
			m = meas
		}
		rq = reqTLE(ep, d, m, tleISS, "tle")
	case 11:
		d := db
		if d == "" {
			d = "db1"
		}
		rq = reqLP("implp", d, randLPBody(r, start), "implp")
	case 12: // arbitrary bytes to any endpoint
		ep := vh.Pick(r, []string{"msgpack", "msgpack", "lp", "tle", "csv", "parquet", "implp", "imptle"})
		rq = reqSpec{Ep: ep, Body: randomBytes(r), Tag: "random-bytes", Query: map[string]string{}}
		if isImport(ep) {
			rq.Query["db"] = "db1"
			rq.Query["measurement"] = meas
		} else {
			rq.DBHeader = strp("db1")
		}
	default: // unusual database / measurement names
		dbs := []string{strings.Repeat("x", 64), strings.Repeat("x", 65), strings.Repeat("x", 256), "1db", "d b", "d/b", "_db", "Db-1_"}
		rq = reqColumnar(vh.Pick(r, dbs), vh.Pick(r, []string{"m", "", "1m", "m m", strings.Repeat("m", 129), "m-1_"}), randCols(r, start, n), "names")
		rq.Exp = nil
	}
	if r.Chance(22) && len(rq.Body) > 0 { // structure-aware mutation of a well-formed body
		rq = withBody(rq, mutate(r, rq.Body), "mutated")
	}
	return compressMaybe(r, rq)
}

func randomSeq(r *vh.Rand) seqSpec {
	sq := seqSpec{MaxBuf: vh.Pick(r, []int{1000000, 1000000, 2, 3, 5, 8}), WAL: r.Chance(35), Name: "random"}
	k := r.Range(2, 7)
	start := baseUS + int64(r.Intn(1000))*1000
	for i := 0; i < k; i++ {
		sq.Reqs = append(sq.Reqs, randomReq(r, start+int64(i)*10))
	}
	return sq
}

// ---------------------------------------------------------------- pure cross-checks: sig / conv / r2c

func cellValue(k byte) interface{} {
	switch k {
	case 'n':
		return nil
	case 'i':
		return int64(3)
	case 'u':
		return uint64(math.MaxUint64)
	case 'f':
		return 2.5
	case 'g':
		return 1e300
	case 's':
		return "s"
	case 'b':
		return true
	default:
		return map[string]interface{}{"k": 1}
	}
}

func pureOps(c *vh.Ctx, r *vh.Rand) {
	buf := ingest.NewArrowBuffer(&config.IngestConfig{MaxBufferSize: 10, MaxBufferAgeMS: 3600000, FlushWorkers: 1, FlushQueueSize: 1, ShardCount: 1}, newMem(), zerolog.Nop())
	defer buf.Close()
	// --- which names does the signature skip
	names := []string{"", "_", "_x", "__", "x", "x_", "time", "_time", "é", " _x", "0", "a,b", "a:b", "\x00", "_\x00"}
	for i := 0; i < 12; i++ {
		names = append(names, string(randomBytes(r)))
	}
	for _, n := range names {
		out := "keep"
		if ingest.VerifC04SigEntry(n, []int64{1}) == "" {
			out = "skip"
		}
		c.Op("sig "+hx(n), out)
		c.Tag("sig:" + out)
	}
	// --- convertColumnsToTyped on cell-kind grids
	kinds := "niufgsbx"
	var grids []map[string]string
	for _, a := range kinds {
		for _, b := range kinds {
			grids = append(grids, map[string]string{"v": string([]rune{a, b}), "time": "ii"})
			grids = append(grids, map[string]string{"time": string([]rune{a, b}), "v": "ii"})
		}
	}
	for i := 0; i < 120; i++ {
		g := map[string]string{}
		n := r.Range(0, 4)
		for k := r.Range(1, 3); k > 0; k-- {
			cs := make([]byte, n)
			for j := range cs {
				cs[j] = kinds[r.Intn(len(kinds))]
				if r.Chance(60) && j > 0 {
					cs[j] = cs[0]
				}
			}
			g[vh.Pick(r, []string{"v", "w", "time", "", "_x"})] = string(cs)
		}
		grids = append(grids, g)
	}
	for _, g := range grids {
		cols := map[string][]interface{}{}
		var ks []string
		for k := range g {
			ks = append(ks, k)
		}
		sort.Strings(ks)
		var parts []string
		for _, k := range ks {
			cells := g[k]
			vs := make([]interface{}, len(cells))
			for i := range cells {
				vs[i] = cellValue(cells[i])
			}
			cols[k] = vs
			cs := cells
			if cs == "" {
				cs = "."
			}
			parts = append(parts, hx(k)+":"+cs)
		}
		var out string
		g2 := vh.Guard(func() string {
			tc, _, err := buf.VerifC04Convert("m", cols)
			if err != nil {
				return "reject"
			}
			s, ok := typedColsStr(tc)
			if !ok {
				return "untyped"
			}
			return s
		})
		out = g2
		c.Op("conv "+strings.Join(parts, ";"), out)
		if out == "reject" {
			c.Tag("conv:reject")
		} else {
			c.Tag("conv:ok")
		}
	}
	// --- rowsToColumnar
	type rowDef struct {
		tags   []string
		fields []kv
	}
	mk := func(rows []rowDef) {
		var recs []*models.Record
		var parts []string
		for i, rd := range rows {
			rec := &models.Record{Measurement: "m", Timestamp: baseUS + int64(i), Tags: map[string]string{}, Fields: map[string]interface{}{}}
			tp, fp := ".", "."
			var ts, fs []string
			for _, t := range rd.tags {
				if _, dup := rec.Tags[t]; dup {
					continue
				}
				rec.Tags[t] = "x"
				ts = append(ts, hx(t))
			}
			for _, f := range rd.fields {
				if _, dup := rec.Fields[f.k]; dup {
					continue
				}
				k := f.v.(byte)
				rec.Fields[f.k] = cellValue(k)
				fs = append(fs, hx(f.k)+":"+string([]byte{k}))
			}
			if len(ts) > 0 {
				tp = strings.Join(ts, ",")
			}
			if len(fs) > 0 {
				fp = strings.Join(fs, ",")
			}
			parts = append(parts, tp+"/"+fp)
			recs = append(recs, rec)
		}
		cols := buf.VerifC04RowsToColumnar("m", recs)
		var outp []string
		for _, cdef := range cols {
			cs := []byte(cdef.Cells)
			sort.Slice(cs, func(i, j int) bool { return cs[i] < cs[j] })
			s := string(cs)
			if s == "" {
				s = "."
			}
			outp = append(outp, fmt.Sprintf("%s:%d:%s", hx(cdef.Name), cdef.Len, s))
		}
		c.Op("r2c "+strings.Join(parts, ";"), strings.Join(outp, ";"))
		c.Tag("r2c")
	}
	mk([]rowDef{{nil, []kv{{"v", byte('i')}}}})
	mk([]rowDef{{nil, []kv{{"time", byte('i')}, {"v", byte('i')}}}})
	mk([]rowDef{{[]string{"time"}, []kv{{"v", byte('f')}}}})
	mk([]rowDef{{[]string{"a"}, []kv{{"a", byte('i')}, {"a_value", byte('s')}}}})
	mk([]rowDef{{[]string{"h"}, []kv{{"v", byte('i')}}}, {nil, []kv{{"w", byte('s')}}}})
	fnames := []string{"v", "w", "time", "a", "a_value", "_x", ""}
	tnames := []string{"a", "h", "time", "_x"}
	for i := 0; i < 60; i++ {
		var rows []rowDef
		for k := r.Range(1, 3); k > 0; k-- {
			var rd rowDef
			for j := r.Range(0, 2); j > 0; j-- {
				rd.tags = append(rd.tags, vh.Pick(r, tnames))
			}
			for j := r.Range(1, 3); j > 0; j-- {
				rd.fields = append(rd.fields, kv{vh.Pick(r, fnames), kinds[r.Intn(7)]})
			}
			rows = append(rows, rd)
		}
		mk(rows)
	}
}
