//go:build verif

// C04 harness: "no request payload can crash the server".
//
// Sends SEQUENCES of HTTP requests to ONE server instance built from the REAL fiber handlers
// (msgpack, line protocol x3, TLE, import csv/parquet/lp/tle; fiber's recover middleware installed as
// api.NewServer does) over a REAL ingest.ArrowBuffer (with and without a real wal.Writer), so that
// later flushes merge batches that came from different requests.
//
//   parent (in-process)  every request through app.Test; request-goroutine panics are caught by the
//                        recover middleware (stack captured); the two flush goroutines run under a
//                        recover that exists only in the parent (VerifC04RecoverFlush) so that a
//                        flush-goroutine panic is observed instead of killing the harness.
//   child (-replay f)    every sequence on which the parent saw a panic, and every k-th sequence, is
//                        re-run in a SUBPROCESS of this binary with the recover switched off and a
//                        short buffer age: if the real code panics on a flush goroutine the child
//                        dies (exit 2, "panic:" + goroutine trace on stderr).  Only that is reported
//                        as panic:flush-goroutine:<site>.
//
// Ops (see lean/Arc/Drive/C04.lean): new / req / fin per sequence, plus the pure cross-checks
// r2c (rowsToColumnar), sig (getColumnSignature skip rule), conv (convertColumnsToTyped).
package main

import (
	"bytes"
	"context"
	"crypto/sha256"
	"encoding/hex"
	"encoding/json"
	"fmt"
	"io"
	"mime/multipart"
	"net/http"
	"net/http/httptest"
	"net/url"
	"os"
	"os/exec"
	"path/filepath"
	"regexp"
	"runtime/debug"
	"sort"
	"strings"
	"sync"
	"time"

	"github.com/apache/arrow-go/v18/arrow"
	"github.com/apache/arrow-go/v18/arrow/array"
	"github.com/apache/arrow-go/v18/arrow/memory"
	"github.com/apache/arrow-go/v18/parquet"
	"github.com/apache/arrow-go/v18/parquet/file"
	"github.com/apache/arrow-go/v18/parquet/pqarrow"
	"github.com/basekick-labs/arc/internal/api"
	"github.com/basekick-labs/arc/internal/config"
	"github.com/basekick-labs/arc/internal/ingest"
	"github.com/basekick-labs/arc/internal/storage"
	"github.com/basekick-labs/arc/internal/verif/vh"
	"github.com/basekick-labs/arc/internal/wal"
	"github.com/basekick-labs/arc/pkg/models"
	"github.com/gofiber/fiber/v2"
	"github.com/gofiber/fiber/v2/middleware/recover"
	"github.com/rs/zerolog"
)

// ---------------------------------------------------------------- in-memory storage backend

type memBackend struct {
	mu    sync.Mutex
	files map[string][]byte
}

func newMem() *memBackend { return &memBackend{files: map[string][]byte{}} }
func (m *memBackend) Write(_ context.Context, p string, d []byte) error {
	m.mu.Lock()
	defer m.mu.Unlock()
	m.files[p] = append([]byte(nil), d...)
	return nil
}
func (m *memBackend) WriteReader(ctx context.Context, p string, r io.Reader, _ int64) error {
	b, err := io.ReadAll(r)
	if err != nil {
		return err
	}
	return m.Write(ctx, p, b)
}
func (m *memBackend) Read(_ context.Context, p string) ([]byte, error) {
	m.mu.Lock()
	defer m.mu.Unlock()
	d, ok := m.files[p]
	if !ok {
		return nil, os.ErrNotExist
	}
	return d, nil
}
func (m *memBackend) ReadTo(ctx context.Context, p string, w io.Writer) error {
	d, err := m.Read(ctx, p)
	if err != nil {
		return err
	}
	_, err = w.Write(d)
	return err
}
func (m *memBackend) ReadToAt(ctx context.Context, p string, w io.Writer, off int64) error {
	d, err := m.Read(ctx, p)
	if err != nil {
		return err
	}
	if off < 0 || off >= int64(len(d)) {
		return fmt.Errorf("offset out of range")
	}
	_, err = w.Write(d[off:])
	return err
}
func (m *memBackend) StatFile(_ context.Context, p string) (int64, error) {
	m.mu.Lock()
	defer m.mu.Unlock()
	if d, ok := m.files[p]; ok {
		return int64(len(d)), nil
	}
	return -1, nil
}
func (m *memBackend) List(_ context.Context, prefix string) ([]string, error) {
	m.mu.Lock()
	defer m.mu.Unlock()
	var out []string
	for k := range m.files {
		if strings.HasPrefix(k, prefix) {
			out = append(out, k)
		}
	}
	sort.Strings(out)
	return out, nil
}
func (m *memBackend) Delete(_ context.Context, p string) error {
	m.mu.Lock()
	defer m.mu.Unlock()
	delete(m.files, p)
	return nil
}
func (m *memBackend) Exists(_ context.Context, p string) (bool, error) {
	m.mu.Lock()
	defer m.mu.Unlock()
	_, ok := m.files[p]
	return ok, nil
}
func (m *memBackend) Close() error       { return nil }
func (m *memBackend) Type() string       { return "verif-mem" }
func (m *memBackend) ConfigJSON() string { return "{}" }

var _ storage.Backend = (*memBackend)(nil)

// ---------------------------------------------------------------- sequences

// One HTTP request. Everything the child needs is here (JSON, []byte as base64).
type reqSpec struct {
	Ep        string            `json:"ep"`   // msgpack lp lp1 lp2 tle csv parquet implp imptle
	Query     map[string]string `json:"q"`    // URL query parameters
	DBHeader  *string           `json:"dbh"`  // x-arc-database header (nil = absent)
	MeasHdr   *string           `json:"mh"`   // x-arc-measurement header (TLE)
	Body      []byte            `json:"body"` // request body (write endpoints) or uploaded file content (imports)
	NoFile    bool              `json:"nofile"`
	Tag       string            `json:"tag"`
	Exp       *expect           `json:"-"`
	plainBody []byte            // body before compression, when the generator knows it
}

// what a structure-aware generator knows about its request (for the mis-stored monitor)
type expect struct {
	DB, Meas string
	Cols     []string // column names that must be found in the stored files when the request is accepted
	Rows     int      // rows the request carries
	Times    []int64  // expected stored time values (µs), when known
	Unusual  string   // "", "underscore", "empty", "reserved-time", "reserved"
	// imports: every column of the uploaded file, under its RAW header name, with these int64 cell values
	ImportEp string
	ColVals  map[string][]int64
}

type seqSpec struct {
	MaxBuf int       `json:"maxbuf"`
	WAL    bool      `json:"wal"`
	Reqs   []reqSpec `json:"reqs"`
	Name   string    `json:"name"`
}

var epPath = map[string]string{
	"msgpack": "/api/v1/write/msgpack", "lp": "/api/v1/write/line-protocol", "lp1": "/write", "lp2": "/api/v2/write",
	"tle": "/api/v1/write/tle", "csv": "/api/v1/import/csv", "parquet": "/api/v1/import/parquet",
	"implp": "/api/v1/import/lp", "imptle": "/api/v1/import/tle",
}

// endpoint name in op lines / monitor keys
func modelEp(ep string) string {
	switch ep {
	case "lp1", "lp2":
		return "lp"
	}
	return ep
}

func isImport(ep string) bool { return ep == "csv" || ep == "parquet" || ep == "implp" || ep == "imptle" }

func (r *reqSpec) httpRequest() *http.Request {
	q := url.Values{}
	for k, v := range r.Query {
		q.Set(k, v)
	}
	u := epPath[r.Ep]
	if len(q) > 0 {
		u += "?" + q.Encode()
	}
	var req *http.Request
	if isImport(r.Ep) {
		var buf bytes.Buffer
		mw := multipart.NewWriter(&buf)
		if !r.NoFile {
			fw, _ := mw.CreateFormFile("file", "upload.dat")
			fw.Write(r.Body)
		} else {
			mw.WriteField("other", "x")
		}
		mw.Close()
		req = httptest.NewRequest("POST", u, &buf)
		req.Header.Set("Content-Type", mw.FormDataContentType())
	} else {
		req = httptest.NewRequest("POST", u, bytes.NewReader(r.Body))
		req.Header.Set("Content-Type", "application/octet-stream")
	}
	if r.DBHeader != nil {
		req.Header.Set("x-arc-database", *r.DBHeader)
	}
	if r.MeasHdr != nil {
		req.Header.Set("x-arc-measurement", *r.MeasHdr)
	}
	return req
}

func (r *reqSpec) replayLine() string {
	var hs []string
	if r.DBHeader != nil {
		hs = append(hs, fmt.Sprintf("x-arc-database:%q", *r.DBHeader))
	}
	if r.MeasHdr != nil {
		hs = append(hs, fmt.Sprintf("x-arc-measurement:%q", *r.MeasHdr))
	}
	q := url.Values{}
	for k, v := range r.Query {
		q.Set(k, v)
	}
	kind := "body"
	if isImport(r.Ep) {
		kind = "multipart-file"
	}
	return fmt.Sprintf("POST %s?%s [%s] %s-hex=%s", epPath[r.Ep], q.Encode(), strings.Join(hs, " "), kind, hex.EncodeToString(r.Body))
}

func (s *seqSpec) replayText() string {
	var b strings.Builder
	fmt.Fprintf(&b, "server: ingest.max_buffer_size=%d wal=%v; requests in order:", s.MaxBuf, s.WAL)
	for i := range s.Reqs {
		fmt.Fprintf(&b, " || %s", s.Reqs[i].replayLine())
	}
	return b.String()
}

// ---------------------------------------------------------------- server instance

const maxPayload = 16 << 20

type server struct {
	tmp   string
	store *memBackend
	buf   *ingest.ArrowBuffer
	walw  *wal.Writer
	app   *fiber.App
	mp    *api.MsgPackHandler
	mu    sync.Mutex
	rpMsg string // last request-goroutine panic (message) and stack
	rpStk string
}

func newServer(maxBuf int, walOn bool, ageMS int) *server {
	s := &server{store: newMem()}
	lg := zerolog.Nop()
	cfg := &config.IngestConfig{MaxBufferSize: maxBuf, MaxBufferAgeMS: ageMS, FlushWorkers: 1, FlushQueueSize: 64, ShardCount: 2}
	s.buf = ingest.NewArrowBuffer(cfg, s.store, lg)
	if walOn {
		base := "/dev/shm"
		if _, err := os.Stat(base); err != nil {
			base = "/var/tmp"
		}
		tmp, err := os.MkdirTemp(base, "verif-c04-")
		if err != nil {
			panic(err)
		}
		s.tmp = tmp
		w, err := wal.NewWriter(&wal.WriterConfig{WALDir: filepath.Join(tmp, "wal"), SyncMode: wal.SyncModeAsync, Logger: lg})
		if err != nil {
			panic(err)
		}
		s.walw = w
		s.buf.SetWAL(w)
	}
	// the middleware stack relevant here is api.NewServer's first entry: recover.New(EnableStackTrace)
	// (fact `handlerPanicsRecovered` is regenerated from NewServer); the stack-trace handler only records.
	app := fiber.New(fiber.Config{DisableStartupMessage: true, BodyLimit: 64 << 20, DisablePreParseMultipartForm: true,
		ErrorHandler: func(c *fiber.Ctx, err error) error {
			code := fiber.StatusInternalServerError
			if e, ok := err.(*fiber.Error); ok {
				code = e.Code
			}
			return c.Status(code).JSON(fiber.Map{"error": err.Error()})
		}})
	app.Use(recover.New(recover.Config{EnableStackTrace: true, StackTraceHandler: func(c *fiber.Ctx, e interface{}) {
		s.mu.Lock()
		s.rpMsg = strings.ReplaceAll(fmt.Sprint(e), "\n", " ")
		s.rpStk = string(debug.Stack())
		s.mu.Unlock()
		if os.Getenv("C04_DEBUG") == "2" {
			fmt.Fprintf(os.Stderr, "REQUEST-PANIC %v\n%s\n", e, debug.Stack())
		}
	}}))
	s.mp = api.NewMsgPackHandler(lg, s.buf, maxPayload)
	lp := api.NewLineProtocolHandler(s.buf, lg)
	tl := api.NewTLEHandler(s.buf, lg)
	ih := api.NewImportHandler(lg)
	ih.SetArrowBuffer(s.buf)
	s.mp.RegisterRoutes(app)
	lp.RegisterRoutes(app)
	tl.RegisterRoutes(app)
	ih.RegisterRoutes(app)
	s.app = app
	return s
}

func (s *server) close() {
	vh.Guard(func() string { s.buf.Close(); return "" })
	if s.walw != nil {
		s.walw.Close()
	}
	if s.tmp != "" {
		os.RemoveAll(s.tmp)
	}
}

func (s *server) takeReqPanic() (string, string) {
	s.mu.Lock()
	defer s.mu.Unlock()
	m, st := s.rpMsg, s.rpStk
	s.rpMsg, s.rpStk = "", ""
	return m, st
}

func (s *server) stat(name string) int64 {
	v, _ := s.buf.GetStats()[name].(int64)
	return v
}

func waitFlushIdle() bool {
	for i := 0; i < 5000; i++ {
		if ingest.VerifC04FlushIdle() {
			return true
		}
		time.Sleep(time.Millisecond)
	}
	return false
}

// ---------------------------------------------------------------- panic sites

var siteTable = []struct{ frag, site string }{
	{"(*ArrowBuffer).mergeBatches", "mergeTypeAssert"},
	{"(*ArrowWriter).getSchema", "schemaName0"},
	{"(*ArrowWriter).inferSchema", "schemaName0"},
	{"ingest.applyPermutation", "permIndex"},
	{"ingest.sortTypedColumnBatchByKeys", "permValidIndex"},
	{").AppendValues", "appendValuesLen"},
	{"array.NewRecordBatchWithMetadata", "newRecordRows"},
	{"array.NewRecord", "newRecordRows"},
	{"(*Writer).AppendRawWithMeta", "walEnvelope"},
	{"Basekick-Labs/msgpack/v6.", "library:msgpack.Unmarshal"},
}

var funcLine = regexp.MustCompile(`(?m)^([A-Za-z0-9_./\-]+(?:\(\*?[A-Za-z0-9_]+\))?[A-Za-z0-9_.\[\]…]*)\(`)

// siteOf maps a goroutine stack to the model's site name, or "other:<function>" for a panic
// outside the modelled pipeline (library code).
func siteOf(stack string) string {
	// frames are listed innermost first; skip runtime / recover / harness frames
	lines := strings.Split(stack, "\n")
	other := ""
	for _, l := range lines {
		if strings.HasPrefix(l, "\t") || strings.HasPrefix(l, "goroutine ") || l == "" {
			continue
		}
		if strings.HasPrefix(l, "runtime.") || strings.HasPrefix(l, "runtime/debug.") || strings.HasPrefix(l, "panic(") ||
			strings.Contains(l, "middleware/recover") || strings.Contains(l, "verifC04GuardFlush") || strings.HasPrefix(l, "created by") ||
			strings.Contains(l, "vh.Guard") || strings.HasPrefix(l, "main.") {
			continue
		}
		for _, e := range siteTable {
			if strings.Contains(l, e.frag) {
				return e.site
			}
		}
		if other == "" {
			fn := l
			if i := strings.LastIndex(fn, "("); i > 0 {
				fn = fn[:i]
			}
			if i := strings.LastIndex(fn, "/"); i >= 0 {
				fn = fn[i+1:]
			}
			other = "other:" + fn
		}
	}
	if other == "" {
		other = "other:unknown"
	}
	if strings.Contains(stack, "pqarrow.(*FileReader)") || strings.Contains(stack, "parquet/file.") {
		return "library:parquet-reader" // arrow-go's Parquet reader, reached from importParquet
	}
	return other
}

func modelSite(site string) bool {
	return !strings.HasPrefix(site, "other:") && !strings.HasPrefix(site, "library:")
}

// which goroutine of the real server died, from the fatal stack of the child
func goroutineOf(stderr string) string {
	switch {
	case strings.Contains(stderr, "(*ArrowBuffer).flushWorker"):
		return "flushWorker"
	case strings.Contains(stderr, "(*ArrowBuffer).periodicFlush"):
		return "periodicFlush"
	}
	return "unknown"
}

// ---------------------------------------------------------------- op-line encoding

func hx(s string) string {
	if s == "" {
		return "-"
	}
	return hex.EncodeToString([]byte(s))
}

func timesStr(ts []int64, has bool) string {
	if !has || len(ts) == 0 {
		return "."
	}
	p := make([]string, len(ts))
	for i, t := range ts {
		p[i] = fmt.Sprint(t)
	}
	return strings.Join(p, ",")
}

func genericColsStr(cols []ingest.VerifC04Col) string {
	if len(cols) == 0 {
		return "."
	}
	p := make([]string, len(cols))
	for i, c := range cols {
		cells := c.Cells
		if cells == "" {
			cells = "."
		}
		p[i] = hx(c.Name) + ":" + cells
	}
	return strings.Join(p, ";")
}

func typedColsStr(cols []ingest.VerifC04Col) (string, bool) {
	if len(cols) == 0 {
		return ".", true
	}
	p := make([]string, len(cols))
	for i, c := range cols {
		if c.Ty == "?" || c.Ty == "d" {
			return "", false
		}
		p[i] = fmt.Sprintf("%s:%s:%d:%d", hx(c.Name), c.Ty, c.Len, c.VLen)
	}
	return strings.Join(p, ";"), true
}

// logical writes reconstructed from the trace: a generic write is "G" optionally followed by its "C"
type write struct {
	g, c, t *ingest.VerifC04Rec
}

func groupTrace(tr []ingest.VerifC04Rec) []write {
	var ws []write
	for i := 0; i < len(tr); i++ {
		e := &tr[i]
		switch e.Kind {
		case "G":
			w := write{g: e}
			if i+1 < len(tr) && tr[i+1].Kind == "C" {
				w.c = &tr[i+1]
				i++
			}
			ws = append(ws, w)
		case "T":
			ws = append(ws, write{t: e})
		case "C": // cannot happen without its G
			ws = append(ws, write{c: e})
		}
	}
	return ws
}

func (w write) meas() string {
	switch {
	case w.g != nil:
		return w.g.Meas
	case w.t != nil:
		return w.t.Meas
	}
	return ""
}

func (w write) rejected() bool { return w.g != nil && w.c == nil }

func (w write) rec() (string, bool) {
	switch {
	case w.t != nil:
		cs, ok := typedColsStr(w.t.Cols)
		if !ok {
			return "", false
		}
		return fmt.Sprintf("T|%s|%d|%s|%s", hx(w.t.Meas), w.t.NumRecords, timesStr(w.t.Times, w.t.HasTime), cs), true
	case w.g != nil:
		nr, ts := 0, "."
		if w.c != nil {
			nr, ts = w.c.NumRecords, timesStr(w.c.Times, w.c.HasTime)
		}
		return fmt.Sprintf("G|%s|%d|%s|%s", hx(w.g.Meas), nr, ts, genericColsStr(w.g.Cols)), true
	}
	return "", false
}

// ---------------------------------------------------------------- oracles for the stages outside the model

type oracle struct {
	pre   string   // "ok" or a status
	db    string   // database after defaulting
	vmeas []string // measurement names the handler validates
	mpRes []interface{}
}

func strp(s string) *string { return &s }

func (s *server) oracleFor(r *reqSpec) oracle {
	o := oracle{pre: "ok"}
	hdr := ""
	if r.DBHeader != nil {
		hdr = *r.DBHeader
	}
	switch r.Ep {
	case "msgpack":
		o.db = hdr
		if o.db == "" {
			o.db = "default"
		}
		if len(r.Body) == 0 {
			o.pre = "400"
			return o
		}
		var payload []byte
		isGz := len(r.Body) >= 2 && r.Body[0] == 0x1f && r.Body[1] == 0x8b
		isZs := len(r.Body) >= 4 && r.Body[0] == 0x28 && r.Body[1] == 0xB5 && r.Body[2] == 0x2F && r.Body[3] == 0xFD
		if isGz || isZs {
			p, _, err := api.VerifC04Decompress(r.Body, maxPayload)
			if err != nil {
				o.pre = "400"
				return o
			}
			payload = p
		} else {
			payload = r.Body
		}
		dec := ingest.NewMessagePackDecoder(zerolog.Nop())
		dec.SetTypedDecodeEnabled(true)
		var res interface{}
		var derr error
		g := vh.Guard(func() string {
			res, derr = dec.Decode(append([]byte(nil), payload...))
			return ""
		})
		if strings.HasPrefix(g, "panic:") {
			o.pre = "500" // a panic inside the msgpack library: recovered by the middleware
			return o
		}
		if derr != nil {
			o.pre = "400"
			return o
		}
		o.vmeas = s.mp.VerifC04ExtractMeasurements(res)
		o.mpRes, _ = res.([]interface{})
	case "lp", "lp1", "lp2", "implp":
		switch r.Ep {
		case "lp":
			o.db = hdr
			if r.DBHeader == nil || hdr == "" {
				o.db = "default"
			}
		case "lp1":
			o.db = "default"
			if v, ok := r.Query["db"]; ok && v != "" {
				o.db = v
			}
			if hdr != "" {
				o.db = hdr
			}
		case "lp2":
			o.db = "default"
			if v, ok := r.Query["bucket"]; ok && v != "" {
				o.db = v
			}
			if hdr != "" {
				o.db = hdr
			}
		case "implp":
			o.db = hdr
			if o.db == "" {
				o.db = r.Query["db"]
			}
		}
		prec := "ns"
		if v, ok := r.Query["precision"]; ok && v != "" {
			prec = v
		}
		if prec != "ns" && prec != "us" && prec != "ms" && prec != "s" {
			o.pre = "400"
			return o
		}
		if r.Ep == "implp" && r.NoFile {
			o.pre = "400"
			return o
		}
		body := r.Body
		if r.Ep == "implp" {
			if len(body) >= 2 && body[0] == 0x1f && body[1] == 0x8b {
				p, _, err := api.VerifC04Decompress(body, 500<<20)
				if err != nil {
					o.pre = "400"
					return o
				}
				body = p
			}
		} else {
			p, _, err := api.VerifC04Decompress(body, 0)
			if err != nil {
				o.pre = "400"
				return o
			}
			body = p
		}
		if len(body) == 0 {
			o.pre = "400"
			return o
		}
		recs := ingest.NewLineProtocolParser().ParseBatchWithPrecision(body, prec)
		if len(recs) == 0 {
			o.pre = "400"
			return o
		}
		if r.Ep == "implp" {
			if mf := r.Query["measurement"]; mf != "" {
				if !api.VerifC04ValidMeas(mf) {
					o.pre = "400"
					return o
				}
				var f []*models.Record
				for _, x := range recs {
					if x.Measurement == mf {
						f = append(f, x)
					}
				}
				if len(f) == 0 {
					o.pre = "400"
					return o
				}
				recs = f
			}
		}
		for m := range ingest.BatchToColumnar(recs) {
			o.vmeas = append(o.vmeas, m)
		}
	case "tle", "imptle":
		o.db = hdr
		if r.Ep == "tle" {
			if o.db == "" {
				o.db = "default"
			}
		} else if o.db == "" {
			o.db = r.Query["db"]
		}
		if r.Ep == "imptle" && r.NoFile {
			o.pre = "400"
			return o
		}
		body := r.Body
		if r.Ep == "imptle" {
			if len(body) >= 2 && body[0] == 0x1f && body[1] == 0x8b {
				p, _, err := api.VerifC04Decompress(body, 500<<20)
				if err != nil {
					o.pre = "400"
					return o
				}
				body = p
			}
		} else {
			p, _, err := api.VerifC04Decompress(body, 0)
			if err != nil {
				o.pre = "400"
				return o
			}
			body = p
		}
		if len(body) == 0 {
			o.pre = "400"
			return o
		}
		m := "satellite_tle"
		if r.MeasHdr != nil && *r.MeasHdr != "" {
			m = *r.MeasHdr
		}
		o.vmeas = []string{m}
		var n int
		g := vh.Guard(func() string {
			recs, _ := ingest.NewTLEParser().ParseTLEFile(append([]byte(nil), body...))
			n = len(recs)
			return ""
		})
		if strings.HasPrefix(g, "panic:") {
			o.pre = "500"
			return o
		}
		if n == 0 {
			o.pre = "400"
		}
	case "csv", "parquet":
		o.db = hdr
		if o.db == "" {
			o.db = r.Query["db"]
		}
		o.vmeas = []string{r.Query["measurement"]}
		// the CSV / Parquet readers are library code outside the model: `pre` is filled in from the observed
		// status when the request was rejected before anything reached the buffer (see runSeq)
	}
	return o
}

// recs of the op line: what reached the buffer layer, in the order the handler processed it
func assembleRecs(r *reqSpec, o *oracle, ws []write) ([]string, bool) {
	var out []string
	add := func(w write) bool {
		s, ok := w.rec()
		if !ok {
			return false
		}
		out = append(out, s)
		return true
	}
	if r.Ep != "msgpack" {
		for _, w := range ws {
			if !add(w) {
				return nil, false
			}
		}
		return out, true
	}
	i := 0
	stopped := false
	for _, el := range o.mpRes {
		if stopped {
			break
		}
		switch el.(type) {
		case *models.ColumnarRecord:
			if i >= len(ws) {
				// nothing (more) reached the buffer layer: the handler answered before Write (name validation)
				return out, true
			}
			if ws[i].g == nil {
				return nil, false
			}
			if !add(ws[i]) {
				return nil, false
			}
			if ws[i].rejected() {
				stopped = true
			}
			i++
		case *ingest.TypedColumnarRecord:
			if i >= len(ws) {
				return out, true
			}
			if ws[i].t == nil {
				return nil, false
			}
			if !add(ws[i]) {
				return nil, false
			}
			i++
		case *models.Record:
			// grouped by measurement, written after the loop
		default:
			out = append(out, "N")
			stopped = true
		}
	}
	for ; i < len(ws); i++ { // row groups, in the (map) order they were actually written
		if ws[i].g == nil {
			return nil, false
		}
		if !add(ws[i]) {
			return nil, false
		}
	}
	return out, true
}

// ---------------------------------------------------------------- stored files

type storedInfo struct {
	rows  int64
	cols  map[string]bool
	times []int64
	ints  map[string][]int64 // int64 columns by name (all files, sorted)
}

func (s *server) storedUnder(prefix string) storedInfo {
	info := storedInfo{cols: map[string]bool{}, ints: map[string][]int64{}}
	s.store.mu.Lock()
	var datas [][]byte
	for p, d := range s.store.files {
		if strings.HasPrefix(p, prefix) {
			datas = append(datas, d)
		}
	}
	s.store.mu.Unlock()
	for _, d := range datas {
		vh.Guard(func() string {
			pf, err := file.NewParquetReader(bytes.NewReader(d))
			if err != nil {
				return ""
			}
			defer pf.Close()
			info.rows += pf.NumRows()
			sc := pf.MetaData().Schema
			for i := 0; i < sc.NumColumns(); i++ {
				info.cols[sc.Column(i).Name()] = true
			}
			ar, err := pqarrow.NewFileReader(pf, pqarrow.ArrowReadProperties{}, memory.DefaultAllocator)
			if err != nil {
				return ""
			}
			tbl, err := ar.ReadTable(context.Background())
			if err != nil {
				return ""
			}
			defer tbl.Release()
			for i := 0; i < int(tbl.NumCols()); i++ {
				if tbl.Column(i).Name() != "time" {
					for _, ch := range tbl.Column(i).Data().Chunks() {
						if ia, ok := ch.(*array.Int64); ok {
							for j := 0; j < ia.Len(); j++ {
								if !ia.IsNull(j) {
									info.ints[tbl.Column(i).Name()] = append(info.ints[tbl.Column(i).Name()], ia.Value(j))
								}
							}
						}
					}
					continue
				}
				for _, ch := range tbl.Column(i).Data().Chunks() {
					if ta, ok := ch.(*array.Timestamp); ok {
						for j := 0; j < ta.Len(); j++ {
							info.times = append(info.times, int64(ta.Value(j)))
						}
					}
				}
			}
			return ""
		})
	}
	sort.Slice(info.times, func(i, j int) bool { return info.times[i] < info.times[j] })
	for _, v := range info.ints {
		sort.Slice(v, func(i, j int) bool { return v[i] < v[j] })
	}
	return info
}

// ---------------------------------------------------------------- running one sequence in the parent

type runner struct {
	c        *vh.Ctx
	exe      string
	nSeq     int
	nChild   int
	childK   int
	confirmed map[string]bool
	pqSeen    map[string]bool
	childTime time.Duration
}

type seqResult struct {
	suspicious bool
	reqPanic   string // site of a request-goroutine panic
	flushPanic string // site of a flush-goroutine panic seen under the parent's recover
	finPanic   string
}

func classOf(code int) string {
	switch {
	case code >= 200 && code < 300:
		return "2xx"
	case code >= 400 && code < 500:
		return "4xx"
	default:
		return "5xx"
	}
}

func (rn *runner) runSeq(sq *seqSpec) seqResult {
	c := rn.c
	var res seqResult
	rn.nSeq++
	if d := os.Getenv("C04_DUMP"); d != "" { // debugging aid: the sequence about to run
		js, _ := json.Marshal(sq)
		os.WriteFile(d, js, 0o644)
	}
	ingest.VerifC04RecoverFlush.Store(true)
	ingest.VerifC04TraceOn.Store(true)
	ingest.VerifC04TakeTrace()
	ingest.VerifC04TakeUneven()
	ingest.VerifC04TakeFlushPanics()
	srv := newServer(sq.MaxBuf, sq.WAL, 3600000)
	defer srv.close()
	walS := "0"
	if sq.WAL {
		walS = "1"
	}
	c.Op(fmt.Sprintf("new %d %s", sq.MaxBuf, walS), "ok")
	var accepted []accReq
	touched := map[string]bool{} // db/meas keys that received rows from a request WITHOUT expectation
	uTypes := map[string]string{} // key|_column -> Go slice type of the batches appended so far
	uConflict := false
	dead := false
	canon := []string{fmt.Sprintf("mb=%d wal=%s", sq.MaxBuf, walS)}
	for i := range sq.Reqs {
		r := &sq.Reqs[i]
		o := srv.oracleFor(r)
		before := srv.stat("total_records_buffered")
		var code int
		g := vh.Guard(func() string {
			resp, err := srv.app.Test(r.httpRequest(), -1)
			if err != nil {
				return "test-error:" + err.Error()
			}
			io.Copy(io.Discard, resp.Body)
			resp.Body.Close()
			code = resp.StatusCode
			return ""
		})
		if g != "" {
			// app.Test itself failed (not a handler outcome): keep the run honest
			c.Fail("harness-error:app-test", g, sq.replayText())
			code = 599
		}
		idle := waitFlushIdle()
		if !idle {
			c.Fail("harness-error:flush-not-idle", "a queued flush task was not processed within 5 s", sq.replayText())
		}
		added := srv.stat("total_records_buffered") - before
		rpMsg, rpStk := srv.takeReqPanic()
		fps := ingest.VerifC04TakeFlushPanics()
		uneven := ingest.VerifC04TakeUneven()
		ws := groupTrace(ingest.VerifC04TakeTrace())
		ep := modelEp(r.Ep)
		for _, w := range ws {
			var cols []ingest.VerifC04Col
			switch {
			case w.c != nil:
				cols = w.c.Cols
			case w.t != nil:
				cols = w.t.Cols
			}
			if w.t != nil && w.t.HasTime {
				// producer contract of C04_partial: typed batches have columns (and validity) of one length
				for _, cdef := range cols {
					if cdef.Len != len(w.t.Times) || (cdef.VLen != 0 && cdef.VLen != cdef.Len) {
						c.Fail("ragged-typed-batch:"+ep, fmt.Sprintf("%s handed the buffer a typed batch whose column %q has %d values (validity %d) against %d timestamps", r.Ep, cdef.Name, cdef.Len, cdef.VLen, len(w.t.Times)), rn.prefixReplay(sq, i))
					}
				}
			}
			for _, cdef := range cols {
				if len(cdef.Name) > 0 && cdef.Name[0] == '_' {
					k := o.db + "/" + w.meas() + "|" + cdef.Name
					if t, seen := uTypes[k]; seen && t != cdef.Ty {
						uConflict = true
					}
					uTypes[k] = cdef.Ty
				}
			}
		}
		if (r.Ep == "csv" || r.Ep == "parquet") && len(ws) == 0 && code >= 400 && api.VerifC04ValidDB(o.db) && api.VerifC04ValidMeas(r.Query["measurement"]) {
			o.pre = fmt.Sprint(code)
		}
		recs, ok := assembleRecs(r, &o, ws)
		if !ok {
			c.Tag("unmodelled-record(decimal/unknown type or trace shape)")
			if os.Getenv("C04_DEBUG") != "" {
				fmt.Fprintf(os.Stderr, "UNMODELLED %s %s tag=%s nres=%d ws=%+v\n", sq.Name, r.Ep, r.Tag, len(o.mpRes), ws)
			}
			dead = true
			break
		}
		vm := "*"
		if len(o.vmeas) > 0 {
			p := make([]string, len(o.vmeas))
			for j, m := range o.vmeas {
				p[j] = hx(m)
			}
			sort.Strings(p)
			vm = strings.Join(p, ",")
		}
		op := fmt.Sprintf("req %s %s %s %s", ep, hx(o.db), o.pre, vm)
		if len(recs) > 0 {
			op += " " + strings.Join(recs, " ")
		}
		// ---- implementation line
		rpSite, fpSite := "", ""
		if rpMsg != "" {
			rpSite = siteOf(rpStk)
		}
		if len(fps) > 0 {
			parts := strings.SplitN(fps[0], "|", 3)
			fpSite = siteOf(parts[2])
			res.flushPanic = fpSite
			c.Tag("parent-saw-flush-goroutine-panic:" + fpSite)
		}
		var line string
		switch {
		case uneven > 0 && (rpSite == "" || rpSite == "newRecordRows") && (fpSite == "" || fpSite == "newRecordRows"):
			line = "mis"
			dead = true
			res.suspicious = true
		case fpSite != "" && modelSite(fpSite):
			line = "- added=- rp=- crash=" + fpSite
			dead = true
		case rpSite != "" && modelSite(rpSite):
			line = fmt.Sprintf("%s added=%d rp=%s crash=-", classOf(code), added, rpSite)
			dead = true
		default:
			line = fmt.Sprintf("%s added=%d rp=- crash=-", classOf(code), added)
			if fpSite != "" || rpSite != "" {
				dead = true // a panic outside the modelled pipeline: reported by the monitors below
			}
		}
		c.Op(op, line)
		canon = append(canon, r.Ep+":"+hex.EncodeToString(r.Body)+fmt.Sprint(r.Query, r.DBHeader != nil))
		c.Tag("ep:" + r.Ep)
		c.Tag("status:" + classOf(code))
		if r.Tag != "" {
			c.Tag("gen:" + r.Tag)
		}
		// ---- monitors (the property itself, on the real code)
		if rpSite != "" {
			res.suspicious = true
			res.reqPanic = rpSite
			if modelSite(rpSite) {
				c.Fail("panic:request-goroutine:"+rpSite,
					fmt.Sprintf("%s handler panicked on the request goroutine (%s); fiber's recover middleware answered %d; rows of earlier, acknowledged requests that had been extracted from the buffer for the synchronous flush are dropped", r.Ep, rpMsg, code),
					rn.minimalReplay(sq, i, "rp:"+rpSite))
			} else {
				// a panic inside library code reached from the handler (msgpack fork, arrow-go Parquet reader):
				// the middleware answers 500, the process survives, nothing is stored - not a violation of C04;
				// recorded as a note (histogram + extra), search only
				c.Tag("note:request-goroutine-panic-recovered:" + rpSite)
				if notes, _ := c.Extra["library_panics"].(map[string]string); notes != nil {
					if _, seen := notes[rpSite]; !seen {
						notes[rpSite] = fmt.Sprintf("%s: %s -> %d; replay: %s", r.Ep, rpMsg, code, r.replayLine())
					}
				}
				if added > 0 {
					c.Fail("rejected-request-stored-rows:"+ep+":after-library-panic", fmt.Sprintf("handler panicked in library code (%s) after %d rows had been buffered", rpMsg, added), rn.prefixReplay(sq, i))
				}
			}
		}
		if fpSite != "" {
			res.suspicious = true
		}
		if code >= 400 && added > 0 && rpSite == "" && fpSite == "" {
			// WHY was it rejected? A different cause is a different key.
			nameBad := !api.VerifC04ValidDB(o.db)
			for _, m := range o.vmeas {
				if !api.VerifC04ValidMeas(m) {
					nameBad = true
				}
			}
			writeFailed := false
			for _, w := range ws {
				if w.rejected() {
					writeFailed = true
				}
				if w.t != nil {
					for _, cdef := range w.t.Cols {
						if cdef.Name == "" {
							writeFailed = true
						}
					}
				}
			}
			for _, rc := range recs {
				if rc == "N" {
					writeFailed = true
				}
			}
			var cls, why string
			switch {
			case code < 500 && nameBad:
				cls = "name-validation"
				why = "the request was rejected by database/measurement NAME VALIDATION, which must run before anything is buffered"
			case code < 500:
				cls = fmt.Sprintf("rejected-%d", code)
				why = "the request was rejected with a 4xx"
			case writeFailed:
				cls = "write-error-after-earlier-record"
				why = "the per-record write loop (ArrowBuffer.Write / the handler's per-measurement loop) stopped at a record that failed convertColumnsToTyped (or is of an unknown type / has an empty column name) and returned the error; the records of the same request written before it stay buffered"
			case isImport(r.Ep):
				cls = "flushall-error-after-own-write"
				why = "the import wrote its own batch, then FlushAll returned an error for SOME buffer (e.g. a zero-row batch of an earlier request: `no time data in batch`) and the handler answered 500"
			default:
				cls = fmt.Sprintf("rejected-%d", code)
				why = "the request was rejected with a 5xx that is not a record-conversion error"
			}
			c.Fail("rejected-request-stored-rows:"+ep+":"+cls,
				fmt.Sprintf("%s request answered %d but %d of its rows were appended to the write buffer (and are flushed to storage later): %s", r.Ep, code, added, why),
				rn.prefixReplay(sq, i))
		}
		if code < 300 && r.Exp != nil {
			accepted = append(accepted, accReq{r.Exp})
		} else if code < 300 || added > 0 {
			for _, w := range ws {
				touched[o.db+"/"+w.meas()] = true
			}
		}
		if dead {
			break
		}
	}
	if !dead {
		// end of sequence: what the age timer would do on the periodicFlush goroutine, done here under a guard
		var ferr string
		g := vh.Guard(func() string {
			if err := srv.buf.VerifC04FlushAll(); err != nil {
				ferr = err.Error()
			}
			return ""
		})
		uneven := ingest.VerifC04TakeUneven()
		ingest.VerifC04TakeTrace()
		_ = ferr
		switch {
		case uneven > 0:
			c.Op("fin", "mis")
			res.suspicious = true
		case strings.HasPrefix(g, "panic:"):
			c.Op("fin", "crash")
			res.suspicious = true
			res.finPanic = g
		default:
			st, bf := srv.stat("total_records_written"), srv.stat("total_records_buffered")
			c.Op("fin", fmt.Sprintf("stored=%d appended=%d", st, bf))
			if bf > st {
				key := "rows-lost:flush-error"
				why := "a flush returned an error"
				if uConflict {
					key = "rows-lost:underscore-column-type-conflict:flush-error"
					why = "a `_`-prefixed column changed its type between requests; getColumnSignature ignores such columns, the batches shared a buffer and mergeBatches returned an error"
				}
				c.Fail(key, fmt.Sprintf("%d rows were appended to buffers (their requests were answered 2xx) but only %d were written to storage: %s; the rows are dropped (with the WAL off they exist nowhere)", bf, st, why), sq.replayText())
			}
			if bf <= st { // with rows lost by a flush error (reported above) the files are incomplete by definition
				rn.checkStored(srv, sq, accepted, touched)
			}
		}
	}
	c.Case(strings.Join(canon, "|"), len(sq.Reqs) > 1 || res.suspicious)
	return res
}

type accReq struct{ exp *expect }

// unusual-name-mis-stored: every column of an ACCEPTED structure-aware request must be in the files.
func (rn *runner) checkStored(srv *server, sq *seqSpec, accs []accReq, touched map[string]bool) {
	byKey := map[string][]*expect{}
	for _, a := range accs {
		k := a.exp.DB + "/" + a.exp.Meas
		byKey[k] = append(byKey[k], a.exp)
	}
	for k, exps := range byKey {
		info := srv.storedUnder(k + "/")
		rows := 0
		var times []int64
		unusual := ""
		timesKnown := true
		for _, e := range exps {
			if e.ImportEp != "" {
				// an accepted import: every column of the file is stored under its raw header name with its values
				for col, want := range e.ColVals {
					padded := strings.TrimSpace(col) != col
					cls := "other"
					if padded {
						cls = "padded-header-name"
					}
					got, have := info.ints[col]
					if !info.cols[col] || !have {
						rn.c.Fail("import-column-lost:"+e.ImportEp+":"+cls,
							fmt.Sprintf("%s import answered 2xx, but column %q of the uploaded file is in no stored Parquet file of %s (stored columns: %v) - neither stored nor rejected", e.ImportEp, col, k, keysOf(info.cols)), sq.replayText())
						continue
					}
					w := append([]int64(nil), want...)
					sort.Slice(w, func(i, j int) bool { return w[i] < w[j] })
					same := len(w) == len(got)
					for i := 0; same && i < len(w); i++ {
						same = w[i] == got[i]
					}
					if !same {
						rn.c.Fail("import-column-values-wrong:"+e.ImportEp+":"+cls,
							fmt.Sprintf("%s import answered 2xx, but column %q of %s holds %v instead of the uploaded %v", e.ImportEp, col, k, got, w), sq.replayText())
					}
				}
				continue
			}
			rows += e.Rows
			if e.Unusual != "" {
				unusual = e.Unusual
			}
			if e.Times == nil {
				timesKnown = false
			}
			times = append(times, e.Times...)
			for _, col := range e.Cols {
				if !info.cols[col] && info.rows > 0 {
					cls := "ordinary"
					switch {
					case col == "":
						cls = "empty"
					case col[0] == '_':
						cls = "underscore-dropped"
					}
					rn.c.Fail("unusual-name-mis-stored:"+cls,
						fmt.Sprintf("request accepted (2xx) with column %q for %s, but no stored Parquet file of that measurement has the column", col, k), sq.replayText())
				}
			}
		}
		if touched[k] || unusual == "" {
			continue
		}
		if int64(rows) != info.rows {
			rn.c.Fail("unusual-name-mis-stored:"+unusual+":row-count",
				fmt.Sprintf("accepted requests carried %d rows for %s, the stored files hold %d", rows, k, info.rows), sq.replayText())
		} else if timesKnown {
			sort.Slice(times, func(i, j int) bool { return times[i] < times[j] })
			same := len(times) == len(info.times)
			for i := 0; same && i < len(times); i++ {
				same = times[i] == info.times[i]
			}
			if !same {
				rn.c.Fail("unusual-name-mis-stored:"+unusual+":timestamp",
					fmt.Sprintf("stored time values %v differ from the request timestamps %v for %s", info.times, times, k), sq.replayText())
			}
		}
	}
}

func keysOf(m map[string]bool) []string {
	var ks []string
	for k := range m {
		ks = append(ks, k)
	}
	sort.Strings(ks)
	return ks
}

func (rn *runner) prefixReplay(sq *seqSpec, upto int) string {
	p := seqSpec{MaxBuf: sq.MaxBuf, WAL: sq.WAL, Reqs: sq.Reqs[:upto+1]}
	return p.replayText()
}

// ---------------------------------------------------------------- child process

type childOut struct {
	exit   int
	stderr string
	dur    time.Duration
}

func (rn *runner) runChild(sq *seqSpec) childOut {
	dir, err := os.MkdirTemp(rn.c.OutDir, "child-")
	if err != nil {
		panic(err)
	}
	defer os.RemoveAll(dir)
	js, _ := json.Marshal(sq)
	f := filepath.Join(dir, "seq.json")
	os.WriteFile(f, js, 0o644)
	t0 := time.Now()
	cmd := exec.Command(rn.exe, "-out", dir, "-replay", f)
	var eb bytes.Buffer
	cmd.Stderr = &eb
	cmd.Stdout = io.Discard
	cmd.Env = append(os.Environ(), "GOTRACEBACK=all")
	done := make(chan error, 1)
	if err := cmd.Start(); err != nil {
		return childOut{exit: -1, stderr: err.Error()}
	}
	go func() { done <- cmd.Wait() }()
	var werr error
	select {
	case werr = <-done:
	case <-time.After(60 * time.Second):
		cmd.Process.Kill()
		<-done
		return childOut{exit: -2, stderr: "child timeout", dur: time.Since(t0)}
	}
	rn.nChild++
	rn.childTime += time.Since(t0)
	co := childOut{stderr: eb.String(), dur: time.Since(t0)}
	if werr != nil {
		if ee, ok := werr.(*exec.ExitError); ok {
			co.exit = ee.ExitCode()
		} else {
			co.exit = -1
		}
	}
	return co
}

var panicLine = regexp.MustCompile(`(?m)^panic: (.*)$`)

// fatalStack: the stack of the goroutine that panicked ("goroutine N [running]:" block)
func fatalStack(stderr string) string {
	i := strings.Index(stderr, "[running]:")
	if i < 0 {
		return stderr
	}
	rest := stderr[i:]
	if j := strings.Index(rest, "\n\n"); j > 0 {
		rest = rest[:j]
	}
	return rest
}

// ---- Parquet uploads are screened before the parent executes them: arrow-go's pqarrow reads columns on
// its own errgroup goroutines, a panic there cannot be recovered by anybody (neither fiber's middleware in
// the real server nor this harness). A generator-built file is trusted; any other upload whose footer parses
// is first sent, alone, to a fresh server in a CHILD process. If the child dies, that is the finding, and the
// request is removed from the sequence the parent runs.
func (rn *runner) screenSeq(sq *seqSpec) {
	var keep []reqSpec
	for i := range sq.Reqs {
		r := sq.Reqs[i]
		if r.Ep != "parquet" || r.NoFile || rn.parquetSafe(&r) {
			keep = append(keep, r)
			continue
		}
		rn.c.Tag("parquet-upload-removed-from-parent-run(child died)")
	}
	sq.Reqs = keep
}

func (rn *runner) parquetSafe(r *reqSpec) bool {
	trusted := !strings.Contains(r.Tag, "mutated") && !strings.Contains(r.Tag, "random-bytes") && !strings.Contains(r.Tag, "corpus") && !strings.Contains(r.Tag, "broken")
	if trusted {
		return true
	}
	h := fmt.Sprintf("%x", sha256.Sum256(r.Body))
	if v, ok := rn.pqSeen[h]; ok {
		return v
	}
	// footer does not parse: the handler answers 422 on its own goroutine before any column is read
	g := vh.Guard(func() string {
		pf, err := file.NewParquetReader(bytes.NewReader(r.Body))
		if err != nil {
			return "err"
		}
		pf.Close()
		return "ok"
	})
	if g == "err" {
		rn.pqSeen[h] = true
		return true
	}
	one := seqSpec{MaxBuf: 1000000, WAL: false, Reqs: []reqSpec{*r}, Name: "parquet-screen"}
	one.Reqs[0].Query = map[string]string{"db": "db1", "measurement": "m"}
	one.Reqs[0].DBHeader = nil
	co := rn.runChild(&one)
	rn.c.Tag("parquet-upload-screened-in-child")
	if co.exit <= 0 {
		rn.pqSeen[h] = true
		return true
	}
	rn.pqSeen[h] = false
	msg := ""
	if m := panicLine.FindStringSubmatch(co.stderr); m != nil {
		msg = m[1]
	}
	cls := "other"
	switch {
	case strings.Contains(co.stderr, "errgroup.(*Group).Go") && strings.Contains(co.stderr, "pqarrow.") && strings.Contains(msg, "nil pointer dereference"):
		cls = "pqarrow-goroutine-nil-deref"
	case strings.Contains(co.stderr, "errgroup.(*Group).Go") && strings.Contains(co.stderr, "pqarrow."):
		cls = "pqarrow-goroutine-panic"
	}
	rn.c.Fail("server-crash:parquet-import:"+cls,
		fmt.Sprintf("one POST /api/v1/import/parquet kills the server process (exit %d, `panic: %s`): importParquet hands the upload to pqarrow.ReadTable, which reads columns on errgroup goroutines; the panic is on one of them, so fiber's recover middleware cannot catch it", co.exit, msg),
		one.replayText())
	return false
}

// confirm re-runs the sequence in a child and reports a dead child as panic:flush-goroutine:<site>
func (rn *runner) confirm(sq *seqSpec, why string) (died bool, site string) {
	co := rn.runChild(sq)
	if co.exit == 0 {
		rn.c.Tag("child-ok:" + why)
		return false, ""
	}
	if co.exit < 0 {
		rn.c.Fail("harness-error:child", fmt.Sprintf("child could not be run (%d): %s", co.exit, co.stderr), sq.replayText())
		return false, ""
	}
	msg := ""
	if m := panicLine.FindStringSubmatch(co.stderr); m != nil {
		msg = m[1]
	}
	stk := fatalStack(co.stderr)
	site = siteOf(strings.TrimPrefix(stk, "[running]:\n"))
	gor := goroutineOf(stk)
	if msg == "" {
		// not a Go panic (fatal error, kill): still a dead server
		site = "fatal:" + site
		tail := co.stderr
		if len(tail) > 300 {
			tail = tail[len(tail)-300:]
		}
		msg = strings.ReplaceAll(tail, "\n", " ")
	}
	rn.c.Tag("child-died:" + site)
	key := "panic:flush-goroutine:" + site
	if !rn.confirmed[key] {
		rn.confirmed[key] = true
		min := rn.minimize(sq)
		rn.c.Fail(key,
			fmt.Sprintf("server process died (exit %d) with `panic: %s` on the %s goroutine after every request of the sequence had been answered", co.exit, msg, gor),
			min.replayText())
	}
	return true, site
}

// greedy request-level minimisation of a crashing sequence (bounded number of child runs)
func (rn *runner) minimize(sq *seqSpec) *seqSpec {
	cur := *sq
	budget := 10
	for i := 0; i < len(cur.Reqs) && budget > 0 && len(cur.Reqs) > 1; {
		cand := cur
		cand.Reqs = append(append([]reqSpec(nil), cur.Reqs[:i]...), cur.Reqs[i+1:]...)
		budget--
		if co := rn.runChild(&cand); co.exit > 0 {
			cur = cand
		} else {
			i++
		}
	}
	return &cur
}

// minimal replay for a request-goroutine panic: the shortest suffix-free prefix is the sequence up to the request
func (rn *runner) minimalReplay(sq *seqSpec, upto int, _ string) string { return rn.prefixReplay(sq, upto) }

// childMain: the confirming subprocess. Unmodified behaviour (no recover around the flush goroutines),
// short buffer age so that whatever is left in the buffers is flushed by the periodicFlush goroutine.
func childMain(c *vh.Ctx) {
	b, err := os.ReadFile(c.Replay)
	if err != nil {
		fmt.Fprintln(os.Stderr, err)
		os.Exit(64)
	}
	var sq seqSpec
	if err := json.Unmarshal(b, &sq); err != nil {
		fmt.Fprintln(os.Stderr, err)
		os.Exit(64)
	}
	ingest.VerifC04RecoverFlush.Store(false)
	ingest.VerifC04TraceOn.Store(false)
	srv := newServer(sq.MaxBuf, sq.WAL, 300)
	for i := range sq.Reqs {
		resp, err := srv.app.Test(sq.Reqs[i].httpRequest(), -1)
		if err == nil {
			io.Copy(io.Discard, resp.Body)
			resp.Body.Close()
			fmt.Printf("req %d status %d\n", i, resp.StatusCode)
		} else {
			fmt.Printf("req %d error %v\n", i, err)
		}
	}
	// let the flush workers and the age timer do their work
	deadline := time.Now().Add(5 * time.Second)
	for time.Now().Before(deadline) {
		time.Sleep(15 * time.Millisecond)
		_, bufs := srv.buf.VerifC04Buffered()
		if bufs == 0 && ingest.VerifC04FlushIdle() {
			break
		}
	}
	time.Sleep(40 * time.Millisecond)
	fmt.Println("CHILD-OK")
	c.Finish("child")
	os.Exit(0)
}

// ---------------------------------------------------------------- parquet files for the import endpoint

type pqCol struct {
	name string
	kind string // i f s b ts(timestamp µs)
	n    int
	null []int // indices that are null
	base int64
}

func buildParquet(cols []pqCol) []byte {
	mem := memory.NewGoAllocator()
	var fields []arrow.Field
	var arrs []arrow.Array
	for _, cdef := range cols {
		isNull := map[int]bool{}
		for _, i := range cdef.null {
			isNull[i] = true
		}
		switch cdef.kind {
		case "i":
			b := array.NewInt64Builder(mem)
			for i := 0; i < cdef.n; i++ {
				if isNull[i] {
					b.AppendNull()
				} else {
					b.Append(cdef.base + int64(i))
				}
			}
			arrs = append(arrs, b.NewArray())
			fields = append(fields, arrow.Field{Name: cdef.name, Type: arrow.PrimitiveTypes.Int64, Nullable: true})
		case "f":
			b := array.NewFloat64Builder(mem)
			for i := 0; i < cdef.n; i++ {
				if isNull[i] {
					b.AppendNull()
				} else {
					b.Append(float64(cdef.base) + 0.5*float64(i))
				}
			}
			arrs = append(arrs, b.NewArray())
			fields = append(fields, arrow.Field{Name: cdef.name, Type: arrow.PrimitiveTypes.Float64, Nullable: true})
		case "s":
			b := array.NewStringBuilder(mem)
			for i := 0; i < cdef.n; i++ {
				if isNull[i] {
					b.AppendNull()
				} else {
					b.Append(fmt.Sprintf("s%d", cdef.base+int64(i)))
				}
			}
			arrs = append(arrs, b.NewArray())
			fields = append(fields, arrow.Field{Name: cdef.name, Type: arrow.BinaryTypes.String, Nullable: true})
		case "b":
			b := array.NewBooleanBuilder(mem)
			for i := 0; i < cdef.n; i++ {
				if isNull[i] {
					b.AppendNull()
				} else {
					b.Append(i%2 == 0)
				}
			}
			arrs = append(arrs, b.NewArray())
			fields = append(fields, arrow.Field{Name: cdef.name, Type: arrow.FixedWidthTypes.Boolean, Nullable: true})
		case "ts":
			b := array.NewTimestampBuilder(mem, &arrow.TimestampType{Unit: arrow.Microsecond})
			for i := 0; i < cdef.n; i++ {
				if isNull[i] {
					b.AppendNull()
				} else {
					b.Append(arrow.Timestamp(cdef.base + int64(i)))
				}
			}
			arrs = append(arrs, b.NewArray())
			fields = append(fields, arrow.Field{Name: cdef.name, Type: &arrow.TimestampType{Unit: arrow.Microsecond}, Nullable: true})
		}
	}
	var out []byte
	vh.Guard(func() string {
		schema := arrow.NewSchema(fields, nil)
		rec := array.NewRecord(schema, arrs, -1)
		defer rec.Release()
		tbl := array.NewTableFromRecords(schema, []arrow.Record{rec})
		defer tbl.Release()
		var buf bytes.Buffer
		if err := pqarrow.WriteTable(tbl, &buf, 1024, parquet.NewWriterProperties(), pqarrow.DefaultWriterProps()); err != nil {
			return ""
		}
		out = buf.Bytes()
		return ""
	})
	return out
}

// ---------------------------------------------------------------- main

func main() {
	c := vh.Start()
	if c.Replay != "" {
		childMain(c)
		return
	}
	exe, err := os.Executable()
	if err != nil {
		panic(err)
	}
	rn := &runner{c: c, exe: exe, confirmed: map[string]bool{}, pqSeen: map[string]bool{}}
	c.Extra["library_panics"] = map[string]string{}
	r := vh.NewRand(c.Seed)
	nRandom, childEvery := 200, 50
	if c.Thorough() {
		nRandom, childEvery = 2600, 60
	}
	if c.N > 0 {
		nRandom = c.N
	}
	rn.childK = childEvery
	t0 := time.Now()

	pureOps(c, r)

	sigSeen := map[string]int{}
	run := func(sq *seqSpec, forceChild bool) {
		rn.screenSeq(sq)
		res := rn.runSeq(sq)
		why := ""
		if res.suspicious {
			// one confirmation per (what the parent saw, buffer-size class, WAL); the rest is tagged only
			sig := fmt.Sprintf("rp=%s fp=%s fin=%v mb=%v", res.reqPanic, res.flushPanic, res.finPanic != "", sq.MaxBuf < 100)
			sigSeen[sig]++
			if sigSeen[sig] <= 1 {
				why = "suspicious"
			} else {
				c.Tag("suspicious-not-rerun(signature already confirmed)")
			}
		}
		if why == "" && (forceChild || rn.nSeq%rn.childK == 0) {
			why = "sampled"
		}
		if why != "" {
			died, _ := rn.confirm(sq, why)
			if res.flushPanic != "" && !died {
				// the parent's recover saw a flush-goroutine panic that the unmodified child did not reproduce
				if res.flushPanic == "newRecordRows" {
					c.Tag("parent-only-flush-panic:newRecordRows(map-order dependent)")
				} else {
					c.Fail("harness-error:parent-only-flush-panic:"+res.flushPanic, "flush-goroutine panic seen under the parent's recover was not reproduced by the child process", sq.replayText())
				}
			}
		}
	}
	for _, sq := range edgeGrid() {
		sq := sq
		run(&sq, false)
	}
	c.Extra["edge_sequences"] = rn.nSeq
	for i := 0; i < nRandom; i++ {
		sq := randomSeq(r.Fork())
		run(&sq, false)
	}
	c.Extra["sequences"] = rn.nSeq
	c.Extra["child_runs"] = rn.nChild
	c.Extra["child_seconds"] = int(rn.childTime.Seconds())
	c.Extra["harness_seconds"] = int(time.Since(t0).Seconds())
	c.Finish("distinct = different (server config, request bodies, headers) sequence; non-trivial = at least two requests to one server instance, or any panic observed")
}
