//go:build verif

// C26 handler-level harness: the REAL handlers that guard nonce-protected cluster requests
// (cache-invalidate fiber handler, Coordinator.handleForwardApply, Coordinator.handleReplicateSync)
// under the virtual clock. The handlers deliberately collapse rejection reasons on the wire, so the
// compared verdict is accepted | rejected (+ nonce-cache size).
package main

import (
	"fmt"
	"net"
	"net/http/httptest"
	"strings"
	"time"

	"github.com/basekick-labs/arc/internal/api"
	"github.com/basekick-labs/arc/internal/cluster"
	"github.com/basekick-labs/arc/internal/cluster/protocol"
	"github.com/basekick-labs/arc/internal/cluster/security"
	"github.com/basekick-labs/arc/internal/verif/vh"
	"github.com/basekick-labs/arc/internal/verifclock"
	"github.com/gofiber/fiber/v2"
	"github.com/rs/zerolog"
)

const secret = "verif-shared-secret"
const clusterName = "c1"

type ev struct {
	now           int64
	sender, nonce string
	ts            int64
	macOK         bool
	respell       bool // valid MAC bytes, hex re-spelled in upper case
	bigPayload    int  // forward only: command payload size (widens check/record windows)
}

func spell(mac string, e ev) string {
	if e.respell {
		mac = strings.ToUpper(mac)
	}
	if !e.macOK {
		mac = badMAC(mac)
	}
	return mac
}

type target interface {
	deliver(e ev) string
	len() int
}

func badMAC(mac string) string {
	if mac[0] == '0' {
		return "1" + mac[1:]
	}
	return "0" + mac[1:]
}

// ---- cache-invalidate through fiber
type ciTarget struct {
	app  *fiber.App
	nc   *security.NonceCache
	hits int
}

func newCI(tol, ttl time.Duration) *ciTarget {
	t := &ciTarget{}
	t.nc = security.NewNonceCache(ttl)
	h := api.NewCacheInvalidateHandler(secret, clusterName, "local", t.nc, tol, func() { t.hits++ }, zerolog.Nop())
	t.app = fiber.New(fiber.Config{DisableStartupMessage: true})
	h.Register(t.app)
	return t
}
func (t *ciTarget) deliver(e ev) string {
	mac := spell(security.ComputeCacheInvalidateHMAC(secret, e.nonce, e.sender, clusterName, e.ts), e)
	req := httptest.NewRequest("POST", api.CacheInvalidatePath, nil)
	req.Header.Set("X-Arc-Node-ID", e.sender)
	req.Header.Set("X-Arc-Cluster", clusterName)
	req.Header.Set("X-Arc-Nonce", e.nonce)
	req.Header.Set("X-Arc-HMAC", mac)
	req.Header.Set("X-Arc-Timestamp", fmt.Sprint(e.ts))
	before := t.hits
	resp, err := t.app.Test(req, -1)
	if err != nil {
		return "error"
	}
	if resp.StatusCode == 204 && t.hits == before+1 {
		return "accepted"
	}
	if resp.StatusCode == 403 && t.hits == before {
		return "rejected"
	}
	return fmt.Sprintf("odd:%d:%d", resp.StatusCode, t.hits-before)
}
func (t *ciTarget) len() int { return t.nc.Len() }

// ---- coordinator handlers over net.Pipe
type coTarget struct {
	c    *cluster.Coordinator
	kind string
}

func (t *coTarget) deliver(e ev) string {
	cli, srv := net.Pipe()
	defer cli.Close()
	done := make(chan struct{})
	payload := []byte(`{"type":1}`)
	if e.bigPayload > 0 {
		payload = append(payload, make([]byte, e.bigPayload)...)
	}
	go func() {
		defer close(done)
		defer srv.Close()
		switch t.kind {
		case "forward":
			mac := spell(security.ComputeForwardHMAC(secret, e.nonce, e.sender, clusterName, payload, e.ts), e)
			t.c.VerifForwardApply(srv, &protocol.ForwardApplyRequest{CommandJSON: payload, NodeID: e.sender, Nonce: e.nonce, Timestamp: e.ts, HMAC: mac})
		case "sync":
			mac := spell(security.ComputeReplicateSyncHMAC(secret, e.nonce, e.sender, clusterName, 7, e.ts), e)
			t.c.VerifReplicateSync(srv, &protocol.ReplicateSync{ReaderID: e.sender, LastKnownSequence: 7, Nonce: e.nonce, ClusterName: clusterName, Timestamp: e.ts, HMAC: mac})
		}
	}()
	// ReceiveMessage uses real deadlines; fine (virtual clock only affects the clockified packages).
	msg, err := protocol.ReceiveMessage(cli, 5*time.Second)
	<-done
	if err != nil {
		return "error:" + strings.ReplaceAll(err.Error(), " ", "_")
	}
	switch p := msg.Payload.(type) {
	case *protocol.ForwardApplyAck:
		if p.Error == "raft not initialized" {
			return "accepted" // passed authentication + replay protection
		}
		if p.Error == "authentication failed" || p.Error == "nonce replay" {
			return "rejected"
		}
		return "odd:" + p.Error
	case *protocol.ReplicateSyncAck:
		if p.Error == "authentication failed" {
			return "rejected"
		}
		if strings.Contains(p.Error, "not configured as a writer") {
			return "accepted"
		}
		return "odd:" + p.Error
	}
	return fmt.Sprintf("odd-payload:%T", msg.Payload)
}
func (t *coTarget) len() int { return t.c.VerifNonceLen() }

// ---- real lifecycle: NewCoordinator → Start → StartReplication → TCP accept loop
type lcTarget struct {
	c    *cluster.Coordinator
	addr string
	kind string
}

func (t *lcTarget) deliver(e ev) string {
	conn, err := net.DialTimeout("tcp", t.addr, 2*time.Second)
	if err != nil {
		return "error:dial"
	}
	defer conn.Close()
	payload := []byte(`{"type":1}`)
	var m *protocol.Message
	switch t.kind {
	case "lc-forward":
		mac := spell(security.ComputeForwardHMAC(secret, e.nonce, e.sender, clusterName, payload, e.ts), e)
		m = &protocol.Message{Type: protocol.MsgForwardApply, Payload: &protocol.ForwardApplyRequest{CommandJSON: payload, NodeID: e.sender, Nonce: e.nonce, Timestamp: e.ts, HMAC: mac}}
	default:
		mac := spell(security.ComputeReplicateSyncHMAC(secret, e.nonce, e.sender, clusterName, 0, e.ts), e)
		m = &protocol.Message{Type: protocol.MsgReplicateSync, Payload: &protocol.ReplicateSync{ReaderID: e.sender, LastKnownSequence: 0, Nonce: e.nonce, ClusterName: clusterName, Timestamp: e.ts, HMAC: mac}}
	}
	if err := protocol.SendMessage(conn, m, 2*time.Second); err != nil {
		return "error:send"
	}
	msg, err := protocol.ReceiveMessage(conn, 5*time.Second)
	if err != nil {
		return "error:recv"
	}
	switch p := msg.Payload.(type) {
	case *protocol.ForwardApplyAck:
		if p.Error == "authentication failed" || p.Error == "nonce replay" {
			return "rejected"
		}
		return "accepted" // got past authentication + replay protection (raft unavailable / unknown node / not leader …)
	case *protocol.ReplicateSyncAck:
		if p.Error == "authentication failed" {
			return "rejected"
		}
		return "accepted"
	}
	return fmt.Sprintf("odd-payload:%T", msg.Payload)
}
func (t *lcTarget) len() int { return t.c.VerifNonceLenOrMinus1() }

type site struct {
	name, kind   string
	tolNs, ttlNs int64
}

type sent struct {
	sender, nonce string
	ts            int64
}

func main() {
	c := vh.Start()
	var sites []site
	for _, s := range c.Facts["sites"].([]any) {
		m := s.(map[string]any)
		st := site{name: m["name"].(string), tolNs: int64(m["tol_ns"].(float64)), ttlNs: int64(m["ttl_ns"].(float64))}
		switch {
		case strings.HasPrefix(st.name, "cache-invalidate"):
			st.kind = "cacheinv"
		case strings.Contains(st.name, "ValidateForwardHMAC"):
			st.kind = "forward"
		case strings.Contains(st.name, "ValidateReplicateSyncHMAC"):
			st.kind = "sync"
		default:
			continue // edge-sync: validate+track live inside security.*WithReplay (function-level harness)
		}
		sites = append(sites, st)
	}
	if len(sites) < 3 {
		panic("expected cache-invalidate, forward and sync sites in facts")
	}
	const sec = int64(time.Second)
	base := int64(1_700_000_000) * sec
	r := vh.NewRand(c.Seed)

	// lifecycle coordinators are expensive (listeners, goroutines): one per configuration, unique
	// nonces per case; the model's cache is NOT reset between their cases ("cont" header).
	lcs := map[string]*lcTarget{}
	lcCount := map[string]int{}
	defer func() {
		for _, t := range lcs {
			t.c.Stop()
		}
	}()
	lcGet := func(kind string, raft bool) (*lcTarget, bool) {
		key := fmt.Sprintf("%s/%v", kind, raft)
		if t, ok := lcs[key]; ok {
			return t, false
		}
		dir := ""
		if raft {
			dir = c.OutDir + "/raft-" + kind
		}
		verifclock.Real()
		co, addr, err := cluster.VerifC26Lifecycle(secret, clusterName, dir)
		if err != nil {
			panic("lifecycle coordinator: " + err.Error())
		}
		t := &lcTarget{c: co, addr: addr, kind: kind}
		lcs[key] = t
		return t, true
	}
	_ = lcCount

	runCase := func(st site, evs []ev) {
		verifclock.Set(base)
		var tg target
		tolSec := int64(time.Duration(st.tolNs).Seconds())
		switch st.kind {
		case "cacheinv":
			tg = newCI(time.Duration(st.tolNs), time.Duration(st.ttlNs))
		case "lc-sync", "lc-forward":
			panic("lifecycle cases use runLC")
		default:
			// the handlers use the package constant tolerance themselves; the cache retention is the
			// value found at the real construction site
			tg = &coTarget{c: cluster.VerifC26Coordinator(secret, clusterName, "local", time.Duration(st.ttlNs)), kind: st.kind}
		}
		var canon strings.Builder
		hdr := fmt.Sprintf("new %s %d %d %d", st.kind, st.ttlNs, tolSec, base)
		c.Op(hdr, "ok")
		canon.WriteString(hdr + ";")
		accepted := map[sent]int64{}
		nontriv := false
		for _, e := range evs {
			verifclock.Set(e.now)
			v := vh.Guard(func() string { return tg.deliver(e) })
			mo := 0
			if e.macOK {
				mo = 1
				if e.respell {
					mo = 2
				}
			}
			op := fmt.Sprintf("hmsg %s %d %s %s %d %d", st.kind, e.now, e.sender, e.nonce, e.ts, mo)
			c.Op(op, fmt.Sprintf("%s len=%d", v, tg.len()))
			canon.WriteString(op + ";")
			c.Tag("h:" + st.kind + ":" + v)
			if v != "accepted" {
				nontriv = true
			}
			if v == "accepted" {
				k := sent{e.sender, e.nonce, e.ts}
				if t1, dup := accepted[k]; dup {
					c.Fail("handler-replay-accepted:"+st.kind,
						fmt.Sprintf("%s handler accepted (sender=%s nonce=%s ts=%d) at now=%d and again at now=%d", st.kind, e.sender, e.nonce, e.ts, t1, e.now),
						canon.String())
				}
				accepted[k] = e.now
				d := e.now/sec - e.ts
				if d < 0 {
					d = -d
				}
				if d > tolSec {
					c.Fail("handler-stale-accepted:"+st.kind, fmt.Sprintf("%s handler accepted a message with drift %ds > tolerance %ds", st.kind, d, tolSec), canon.String())
				}
				if !e.macOK {
					c.Fail("handler-badmac-accepted:"+st.kind, "handler accepted a message whose MAC does not verify", canon.String())
				}
			}
		}
		c.Case(canon.String(), nontriv)
	}

	// edge grid (subset in quick)
	for _, st := range sites {
		tolSec := int64(time.Duration(st.tolNs).Seconds())
		offs := []int64{-tolSec - 1, -tolSec, 0, tolSec, tolSec + 1}
		gaps := []int64{0, st.ttlNs - 1, st.ttlNs, tolSec * sec, 2*tolSec*sec - 1, 2*tolSec*sec + sec - 1, 2*tolSec*sec + sec}
		i := 0
		for _, off := range offs {
			for _, sub := range []int64{0, sec - 1} {
				for _, gap := range gaps {
					i++
					t1 := base + 1000*sec + sub
					ts := t1/sec + off
					nonce := fmt.Sprintf("g%d", i)
					evs := []ev{{now: t1, sender: "nodeA", nonce: nonce, ts: ts, macOK: true}, {now: t1 + gap, sender: "nodeA", nonce: nonce, ts: ts, macOK: true, respell: i%2 == 0}}
					if gap > 61*sec {
						evs = []ev{evs[0], {now: t1 + gap/2, sender: "nodeB", nonce: "x" + nonce, ts: (t1 + gap/2) / sec, macOK: true}, evs[1]}
					}
					runCase(st, evs)
				}
			}
		}
	}
	// lifecycle cases: the cache Start() really built, with and without Raft. The virtual clock only
	// moves forward across these cases (one long-lived coordinator), nonces are unique per case.
	{
		var coord site
		for _, st := range sites {
			if st.kind == "sync" {
				coord = st
			}
		}
		tolSec := int64(time.Duration(coord.tolNs).Seconds())
		lcNow := base + 10000*sec
		caseNo := 0
		for _, raft := range []bool{false, true} {
			for _, kind := range []string{"lc-sync", "lc-forward"} {
				tg, fresh := lcGet(kind, raft)
				if tg.len() < 0 {
					// Start() left the replay cache nil in this configuration: the model has a cache, so
					// this is a correspondence break; the monitor below decides whether replays get through.
					c.Tag("lc:nil-cache")
				}
				hdr := fmt.Sprintf("new %s %d %d %d", kind, coord.ttlNs, tolSec, lcNow)
				_ = fresh
				c.Op(hdr, "ok")
				for _, off := range []int64{0, tolSec, -tolSec, tolSec + 1} {
					for _, gap := range []int64{1, coord.ttlNs - 1, 2*tolSec*sec + sec - 1} {
						caseNo++
						lcNow += 3 * coord.ttlNs // later than every earlier nonce's expiry
						t1 := lcNow
						ts := t1/sec + off
						nonce := fmt.Sprintf("lc%d", caseNo)
						var canon strings.Builder
						canon.WriteString(fmt.Sprintf("lifecycle raft=%v %s;", raft, kind))
						acc := 0
						for i, now := range []int64{t1, t1 + gap} {
							verifclock.Set(now)
							e := ev{now: now, sender: "reader-7", nonce: nonce, ts: ts, macOK: true, respell: i == 1 && caseNo%2 == 0}
							v := vh.Guard(func() string { return tg.deliver(e) })
							op := fmt.Sprintf("lmsg %s %d %s %s %d 1", kind, now, e.sender, e.nonce, ts)
							c.Op(op, v)
							canon.WriteString(op + ";")
							c.Tag("lc:" + kind + ":" + v)
							if v == "accepted" {
								acc++
								if i == 1 && acc == 2 {
									c.Fail(fmt.Sprintf("lifecycle-replay-accepted:%s:raft=%v", kind, raft),
										fmt.Sprintf("real coordinator lifecycle (raft=%v): %s handshake (sender=%s nonce=%s ts=%d) accepted at %d and again at %d; nonce cache nil=%v", raft, kind, e.sender, nonce, ts, t1, now, tg.len() < 0),
										canon.String())
								}
							}
						}
						c.Case(canon.String(), acc < 2)
					}
				}
			}
		}
		lcNow += 0
	}
	// concurrent copies of ONE signed request on separate connections: check-and-record must be one
	// atomic step (Track under the cache mutex), so exactly one copy may be accepted. A large command
	// payload widens any window between a separate "seen?" check and the later record.
	{
		rounds := 3
		if c.Thorough() {
			rounds = 12
		}
		for _, st := range sites {
			for rd := 0; rd < rounds; rd++ {
				verifclock.Set(base + int64(20000+rd)*sec)
				now := base + int64(20000+rd)*sec
				var tg target
				big := 0
				switch st.kind {
				case "cacheinv":
					tg = newCI(time.Duration(st.tolNs), time.Duration(st.ttlNs))
				default:
					tg = &coTarget{c: cluster.VerifC26Coordinator(secret, clusterName, "local", time.Duration(st.ttlNs)), kind: st.kind}
					if st.kind == "forward" {
						big = 8 << 20
					}
				}
				e := ev{now: now, sender: "nodeA", nonce: fmt.Sprintf("cc%d", rd), ts: now / sec, macOK: true, bigPayload: big}
				const copies = 8
				res := make([]string, copies)
				start := make(chan struct{})
				doneCh := make(chan int, copies)
				for g := 0; g < copies; g++ {
					go func(g int) {
						<-start
						res[g] = vh.Guard(func() string { return tg.deliver(e) })
						doneCh <- g
					}(g)
				}
				close(start)
				for g := 0; g < copies; g++ {
					<-doneCh
				}
				acc := 0
				for _, v := range res {
					if v == "accepted" {
						acc++
					}
				}
				c.Tag(fmt.Sprintf("conc:%s:accepted=%d", st.kind, acc))
				canon := fmt.Sprintf("concurrent %s: %d simultaneous copies of (sender=nodeA nonce=cc%d ts=%d payload=%dB) at now=%d -> %d accepted", st.kind, copies, rd, now/sec, big, now, acc)
				if acc > 1 {
					c.Fail("concurrent-replay-accepted:"+st.kind, canon, canon)
				}
				if acc == 0 {
					c.Fail("concurrent-copies-all-rejected:"+st.kind, canon, canon)
				}
				c.Case(canon, true)
			}
		}
	}
	n := 120
	if c.Thorough() {
		n = 3000
	}
	for k := 0; k < n; k++ {
		st := vh.Pick(r, sites)
		tolSec := int64(time.Duration(st.tolNs).Seconds())
		now := base + int64(r.Intn(5000))*sec
		var evs, hist []ev
		for j, m := 0, r.Range(2, 10); j < m; j++ {
			switch r.Intn(4) {
			case 0:
				now += int64(r.Intn(int(2 * sec)))
			case 1:
				now += int64(r.Intn(120)) * sec
			case 2:
				now += vh.Pick(r, []int64{st.ttlNs - 1, st.ttlNs, tolSec * sec, 2*tolSec*sec + sec - 1, 2*tolSec*sec + sec})
			}
			var e ev
			if len(hist) > 0 && r.Chance(55) {
				e = vh.Pick(r, hist)
				e.now = now
				if r.Chance(10) {
					e.macOK = false
				}
				e.respell = r.Chance(30)
			} else {
				off := vh.Pick(r, []int64{-tolSec - 1, -tolSec, -2, 0, 3, tolSec, tolSec + 1, int64(r.Intn(int(2*tolSec+1))) - tolSec})
				e = ev{now: now, sender: vh.Pick(r, []string{"nodeA", "nodeB"}), nonce: fmt.Sprintf("n%d", r.Intn(4)), ts: now/sec + off, macOK: !r.Chance(10)}
			}
			evs = append(evs, e)
			hist = append(hist, e)
		}
		runCase(st, evs)
	}
	verifclock.Real()
	c.Finish("handler-level cases = (handler, delivery history) through the real fiber handler / Coordinator handlers over net.Pipe; edge grid + random replay histories; non-trivial = at least one rejection")
}
