//go:build verif

package main

import (
	"fmt"

	"github.com/basekick-labs/arc/internal/verif/vh"
)

const (
	S  = int64(1_000_000_000)
	T0 = int64(1_704_067_200) * S // 2024-01-01T00:00:00Z
)

type cse struct {
	ops        []string
	nontrivial bool
}

type gen struct {
	c  *vh.Ctx
	r  *vh.Rand
	no int
}

func newGen(c *vh.Ctx) *gen { return &gen{c: c, r: vh.NewRand(c.Seed)} }

func (g *gen) start(now, ivl int64, q string) []string {
	g.no++
	return []string{fmt.Sprintf("new %d %d %d %s", g.no, now, ivl, q)}
}

func src(tNs int64, host string) string { return fmt.Sprintf("src %d %s", tNs/1000, host) }
func sched(now int64, fault string) string {
	return fmt.Sprintf("sched %d %s", now, fault)
}
func man(now int64, s, e string, dry bool, fault string) string {
	d := 0
	if dry {
		d = 1
	}
	return fmt.Sprintf("man %d %s %s %d %s", now, s, e, d, fault)
}
func at(ns int64, offMin int) string { return fmt.Sprintf("%d:%d", ns, offMin) }
func upd(now int64, active bool, ivl int64, q string) string {
	a := 0
	if active {
		a = 1
	}
	return fmt.Sprintf("upd %d %d %d %s", now, a, ivl, q)
}
func restart(now int64) string { return fmt.Sprintf("restart %d", now) }

// seedSrc: a few source rows around T0 so that windows have something to count.
func seedSrc() []string {
	return []string{src(T0-3000*S, "a"), src(T0-1800*S, "b"), src(T0-10*S+500, "a"), src(T0+5*S+S/2, "a"), src(T0+10*S, "b"),
		src(T0+69*S+999_999_000, "a"), src(T0+70*S, "b"), src(T0+100*S, "a")}
}

func (g *gen) corpus() []cse {
	var out []cse
	add := func(nt bool, q string, ops ...string) {
		o := g.start(T0, 60, q)
		out = append(out, cse{append(o, ops...), nt})
	}
	withSrc := func(ops ...string) []string { return append(seedSrc(), ops...) }
	ms := S / 1000
	one := src(T0-1800*S, "a")
	// --- minimal witness histories first (the first replay per finding key is kept)
	// first execution at a sub-second clock: start = now-1h has a sub-second part; the label must be the
	// whole-second window start (regression for the defect fixed in /repo 388c9ab)
	add(true, "plain", one, sched(T0+10*S+250*ms, "none"))
	// manual backfill of an old range rewinds the cursor -> the next tick re-processes [T0-1800, T0+70)
	add(true, "plain", one, sched(T0+10*S, "none"), sched(T0+70*S, "none"),
		man(T0+80*S, at(T0-3600*S, 0), at(T0-1800*S, 0), false, "none"), sched(T0+130*S, "none"))
	// manual range starting ahead of the cursor -> [T0+10, T0+40) is never processed
	add(true, "plain", one, sched(T0+10*S, "none"), man(T0+50*S, at(T0+40*S, 0), "-", false, "none"), sched(T0+70*S, "none"))
	// rows written, record+advance fails -> the same window is emitted again by the next tick
	add(true, "plain", one, sched(T0+10*S, "none"), sched(T0+70*S, "upd"), sched(T0+130*S, "none"))
	// destination write rejected (injected / by the real buffer): a failed execution, cursor must stay
	add(true, "plain", one, sched(T0+10*S, "none"), sched(T0+70*S, "wr"), sched(T0+130*S, "none"))
	add(true, "badtime", one, sched(T0+10*S, "none"), man(T0+70*S, "-", "-", false, "none"),
		upd(T0+80*S, true, 60, "plain"), sched(T0+130*S, "none"))
	add(true, "plain", one, sched(T0+10*S, "none"), man(T0+70*S, "-", "-", false, "wr"), upd(T0+80*S, true, 60, "badtime"),
		sched(T0+130*S, "none"), upd(T0+140*S, true, 60, "grouped"), sched(T0+190*S, "wr"), src(T0+200*S, "b"), sched(T0+250*S, "wr"), sched(T0+310*S, "none"))
	// long idle periods: the first run afterwards must still start at the cursor
	day := 86400 * S
	add(true, "plain", one, sched(T0+10*S, "none"), sched(T0+10*S+3*day, "none"), sched(T0+70*S+3*day, "none"))
	add(true, "plain", one, sched(T0+10*S, "none"), restart(T0+20*S+9*day), sched(T0+30*S+9*day+S/2, "none"))
	add(true, "plain", one, sched(T0+10*S, "none"), upd(T0+20*S, false, 60, "plain"), upd(T0+20*S+30*day, true, 60, "plain"),
		src(T0+15*day, "a"), sched(T0+80*S+30*day, "none"), sched(T0+140*S+30*day, "none"))
	add(true, "plain", one, sched(T0+10*S, "none"), sched(T0+70*S+2*day, "agg"), sched(T0+70*S+4*day, "agg"), sched(T0+70*S+5*day, "none"))
	add(true, "plain", one, sched(T0+10*S, "none"), sched(T0+10*S+day, "none"), sched(T0+11*S+2*day, "none"), sched(T0+11*S+2*day+day+1, "none"))
	// tame: three ticks at sub-second clock positions
	add(false, "plain", withSrc(sched(T0+10*S+250*ms, "none"), sched(T0+70*S+750*ms, "none"), sched(T0+130*S+100*ms, "none"))...)
	// first execution at a whole-second clock
	add(false, "plain", withSrc(sched(T0+10*S, "none"), sched(T0+70*S, "none"))...)
	// manual backfill of an old range rewinds the cursor -> next tick overlaps
	add(true, "plain", withSrc(sched(T0+10*S, "none"), sched(T0+70*S, "none"),
		man(T0+80*S, at(T0-3600*S, 0), at(T0-1800*S, 0), false, "none"), sched(T0+130*S, "none"))...)
	// manual range starting ahead of the cursor -> gap
	add(true, "plain", withSrc(sched(T0+10*S, "none"), man(T0+50*S, at(T0+40*S, 0), "-", false, "none"), sched(T0+70*S, "none"))...)
	// manual end in the future: ticks are rejected until the clock passes it
	add(true, "plain", withSrc(sched(T0+10*S, "none"), man(T0+20*S, "-", at(T0+300*S, 0), false, "none"),
		sched(T0+70*S, "none"), sched(T0+310*S, "none"))...)
	// rows written, record fails (UPDATE / INSERT) -> window re-run
	add(true, "plain", withSrc(sched(T0+10*S, "none"), sched(T0+70*S, "upd"), sched(T0+130*S, "none"))...)
	add(true, "plain", withSrc(sched(T0+10*S, "none"), sched(T0+70*S, "ins"), sched(T0+130*S, "none"))...)
	add(true, "plain", withSrc(sched(T0+10*S, "none"), man(T0+70*S, "-", "-", false, "upd"), sched(T0+130*S, "none"))...)
	// aggregation fails -> no advance, retried window
	add(true, "plain", withSrc(sched(T0+10*S, "none"), sched(T0+70*S, "agg"), sched(T0+130*S, "none"))...)
	add(true, "plain", withSrc(sched(T0+10*S, "agg"), sched(T0+70*S, "none"))...)
	// two ticks inside the same second (empty second window)
	add(false, "plain", withSrc(sched(T0+10*S+100*ms, "none"), sched(T0+10*S+600*ms, "none"), sched(T0+11*S, "none"))...)
	// explicit range with fractional seconds and non-UTC offsets
	add(true, "plain", withSrc(man(T0+20*S, at(T0-100*S+S/2, 120), at(T0-50*S+250*ms, -330), false, "none"), sched(T0+70*S, "none"))...)
	add(true, "plain", withSrc(sched(T0+10*S, "none"), man(T0+20*S, at(T0+5*S+123_456_789, 60), "-", false, "none"))...)
	// deactivate / reactivate
	add(true, "plain", withSrc(sched(T0+10*S, "none"), upd(T0+20*S, false, 60, "plain"), sched(T0+70*S, "none"),
		man(T0+80*S, "-", "-", false, "none"), upd(T0+90*S, true, 60, "plain"), sched(T0+130*S, "none"))...)
	// broken SQL through update
	add(true, "plain", withSrc(sched(T0+10*S, "none"), upd(T0+20*S, true, 60, "broken"), sched(T0+70*S, "none"),
		man(T0+80*S, "-", "-", false, "none"), upd(T0+90*S, true, 30, "grouped"), sched(T0+130*S, "none"))...)
	// restarts
	add(true, "plain", withSrc(sched(T0+10*S, "none"), restart(T0+20*S), sched(T0+70*S, "none"),
		man(T0+80*S, "-", "-", false, "none"), restart(T0+90*S), sched(T0+130*S, "none"))...)
	add(true, "plain", withSrc(restart(T0+5*S), sched(T0+10*S+1, "none"))...)
	// no source files at all: read_parquet finds nothing -> aggregation fails
	add(true, "plain", sched(T0+10*S, "none"), man(T0+20*S, "-", "-", false, "none"), src(T0, "a"), sched(T0+70*S, "none"))
	// grouped query: windows with no rows still advance
	add(false, "grouped", withSrc(sched(T0+10*S+1000, "none"), sched(T0+40*S, "none"), sched(T0+50*S, "none"), sched(T0+60*S, "upd"), sched(T0+110*S, "none"))...)
	// dry run, malformed and empty time arguments
	add(true, "plain", withSrc(man(T0+20*S, at(T0-100*S, 0), at(T0-50*S, 0), true, "none"), man(T0+21*S, "bad", "-", false, "none"),
		man(T0+22*S, "-", "bad", false, "none"), man(T0+23*S, "bad", "bad", true, "none"), man(T0+24*S, "e", "e", false, "none"),
		man(T0+25*S, at(T0, 0), at(T0, 0), false, "none"), man(T0+26*S, at(T0+S, 0), at(T0, 0), true, "none"))...)
	// clock steps backwards
	add(true, "plain", withSrc(sched(T0+100*S, "none"), sched(T0+50*S, "none"), man(T0+60*S, "-", "-", false, "none"), sched(T0+100*S+1, "none"), sched(T0+101*S, "none"))...)
	// unparsable interval: no job after update / restart
	add(true, "plain", withSrc(upd(T0+5*S, true, 0, "plain"), sched(T0+10*S, "none"), restart(T0+20*S), sched(T0+70*S, "none"),
		man(T0+80*S, "-", "-", false, "none"), upd(T0+90*S, true, 5, "plain"), sched(T0+130*S, "none"))...)
	// manual default execution between ticks (chain runs through the manual window)
	add(false, "plain", withSrc(sched(T0+10*S, "none"), man(T0+40*S+S/3, "-", "-", false, "none"), sched(T0+70*S, "none"))...)
	// explicit end only, in the past of the cursor (rewind with start at cursor is rejected)
	add(true, "plain", withSrc(sched(T0+10*S, "none"), man(T0+20*S, "-", at(T0, 0), false, "none"), man(T0+21*S, at(T0-20*S, 0), at(T0, 0), false, "agg"), sched(T0+70*S, "none"))...)
	return out
}

func (g *gen) random() cse {
	r := g.r
	tame := r.Chance(35)
	q := "plain"
	if r.Chance(30) {
		q = "grouped"
	}
	// epoch of the case: mostly 2024, sometimes 1985 / 2001 / 2040 (past 2^31 s) / 2099
	base := vh.Pick(r, []int64{T0, T0, T0, T0, 473_385_600 * S, 978_307_200 * S, 2_208_988_800 * S, 4_070_908_800 * S})
	now := base + int64(r.Intn(100000))*S + int64(r.Intn(int(S)))
	if r.Chance(15) {
		now = now / S * S
	}
	ivl := vh.Pick(r, []int64{60, 10, 5, 3600})
	ops := g.start(now, ivl, q)
	nontrivial := false
	hosts := []string{"a", "b"}
	// initial source rows in the hour before `now`
	for i, k := 0, r.Range(0, 3); i < k; i++ {
		ops = append(ops, src(now-int64(r.Intn(4000))*S-int64(r.Intn(int(S))), vh.Pick(r, hosts)))
	}
	if len(ops) == 1 && r.Chance(85) {
		ops = append(ops, src(now-int64(r.Intn(3000))*S, "a"))
	}
	fault := func() string {
		if tame {
			if r.Chance(14) {
				nontrivial = true
				return vh.Pick(r, []string{"agg", "wr"})
			}
			return "none"
		}
		switch x := r.Intn(100); {
		case x < 7:
			nontrivial = true
			return "wr"
		case x < 14:
			nontrivial = true
			return "agg"
		case x < 21:
			nontrivial = true
			return "upd"
		case x < 27:
			nontrivial = true
			return "ins"
		}
		return "none"
	}
	advance := func() {
		switch r.Intn(8) {
		case 0:
			// same instant
		case 1:
			now += int64(r.Intn(int(S)))
		case 2:
			now += int64(r.Intn(5))*S + int64(r.Intn(int(S)))
		case 3, 4, 5:
			now += int64(r.Range(5, 120))*S + int64(r.Intn(int(S)))
		case 6:
			now = (now/S + int64(r.Range(1, 90))) * S // whole second
		case 7:
			if r.Chance(25) && !tame {
				now -= int64(r.Intn(30)) * S // clock stepped back
			} else if r.Chance(45) {
				// long idle period: days to weeks (downtime, paused query, failure streak)
				nontrivial = true
				now += int64(r.Range(1, 40))*86400*S + int64(r.Intn(86400))*S + int64(r.Intn(2))*int64(r.Intn(int(S)))
			} else {
				now += int64(r.Range(600, 7200)) * S
			}
		}
	}
	timeNear := func() string {
		var t int64
		switch r.Intn(5) {
		case 0:
			t = now - int64(r.Intn(7200))*S
		case 1:
			t = now - int64(r.Intn(7200))*S - int64(r.Intn(int(S)))
		case 2:
			t = now + int64(r.Range(-30, 30))*S
		case 3:
			t = now + int64(r.Range(1, 600))*S + int64(r.Intn(2))*int64(r.Intn(int(S)))
		case 4:
			t = (now / S) * S
		}
		off := vh.Pick(r, []int{0, 0, 0, 60, -330, 840, -720})
		return at(t, off)
	}
	active, curQ, curIvl := true, q, ivl
	k := r.Range(4, 12)
	for j := 0; j < k; j++ {
		advance()
		switch x := r.Intn(100); {
		case x < 42:
			ops = append(ops, sched(now, fault()))
		case x < 62:
			if tame {
				ops = append(ops, man(now, vh.Pick(r, []string{"-", "-", "e"}), vh.Pick(r, []string{"-", "-", "e"}), r.Chance(15), fault()))
				break
			}
			s, e := "-", "-"
			switch r.Intn(6) {
			case 0:
			case 1:
				s, e = timeNear(), timeNear()
			case 2:
				s = timeNear()
			case 3:
				e = timeNear()
			case 4:
				// a proper backfill range [t, t+d)
				t := now - int64(r.Range(100, 7000))*S
				s, e = at(t, 0), at(t+int64(r.Range(1, 3000))*S, vh.Pick(r, []int{0, 120}))
			case 5:
				s, e = vh.Pick(r, []string{"bad", "e", "-"}), vh.Pick(r, []string{"bad", "e", "-"})
			}
			if s != "-" && s != "e" || e != "-" && e != "e" {
				nontrivial = true
			}
			ops = append(ops, man(now, s, e, r.Chance(15), fault()))
		case x < 80:
			t := now - int64(r.Intn(200))*S + int64(r.Intn(int(S)))
			if r.Chance(20) {
				t = now/S*S - int64(r.Intn(3))*S // exactly on a second boundary
			}
			ops = append(ops, src(t, vh.Pick(r, hosts)))
		case x < 90:
			nontrivial = true
			switch r.Intn(6) {
			case 0:
				active = !active
			case 1:
				curQ = vh.Pick(r, []string{"plain", "grouped", "broken", "badtime"})
			case 2:
				curIvl = vh.Pick(r, []int64{60, 7, 0, 120})
			case 3:
				active, curQ = true, vh.Pick(r, []string{"plain", "grouped"})
			case 4:
				active, curIvl = true, 60
			case 5:
			}
			ops = append(ops, upd(now, active, curIvl, curQ))
		default:
			nontrivial = true
			ops = append(ops, restart(now))
		}
	}
	return cse{ops, nontrivial}
}
