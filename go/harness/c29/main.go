//go:build verif

// C29 correspondence harness: drives the REAL continuous-query handler (internal/api) and the REAL
// CQ scheduler (internal/scheduler) against SQLite + DuckDB + ArrowBuffer + a local parquet store in
// a temp dir, under the virtual clock. Every op line is executed by `exec` (so ops.txt is also a
// replay script: `h_c29 -replay ops.txt`), the observable result (status, executed window, new
// destination rows and their label, persisted cursor, execution-record counts) is printed
// canonically and diffed against the Lean model. Property monitors look only at what the real code
// did (see monitors.go).
package main

import (
	"bufio"
	"bytes"
	"context"
	"database/sql"
	"encoding/json"
	"fmt"
	"io"
	"net/http/httptest"
	"os"
	"path/filepath"
	"sort"
	"strconv"
	"strings"
	"sync"
	"time"

	"github.com/basekick-labs/arc/internal/api"
	"github.com/basekick-labs/arc/internal/config"
	"github.com/basekick-labs/arc/internal/database"
	"github.com/basekick-labs/arc/internal/ingest"
	"github.com/basekick-labs/arc/internal/license"
	"github.com/basekick-labs/arc/internal/scheduler"
	"github.com/basekick-labs/arc/internal/storage"
	"github.com/basekick-labs/arc/internal/verif/vh"
	"github.com/basekick-labs/arc/internal/verifclock"
	"github.com/basekick-labs/arc/pkg/models"
	"github.com/gofiber/fiber/v2"
	_ "github.com/mattn/go-sqlite3"
	"github.com/rs/zerolog"
)

// ---------------------------------------------------------------- log capture
type logBuf struct {
	mu sync.Mutex
	b  bytes.Buffer
}

func (l *logBuf) Write(p []byte) (int, error) { l.mu.Lock(); defer l.mu.Unlock(); return l.b.Write(p) }
func (l *logBuf) take() []map[string]any {
	l.mu.Lock()
	s := l.b.String()
	l.b.Reset()
	l.mu.Unlock()
	var out []map[string]any
	for _, ln := range strings.Split(s, "\n") {
		if ln == "" {
			continue
		}
		var m map[string]any
		if json.Unmarshal([]byte(ln), &m) == nil {
			out = append(out, m)
		}
	}
	return out
}

// ---------------------------------------------------------------- environment (shared by all cases)
type env struct {
	dir   string
	duck  *database.DuckDB
	store *storage.LocalBackend
	ab    *ingest.ArrowBuffer
	lic   *license.Client
	logs  *logBuf
	log   zerolog.Logger
}

func newEnv() *env {
	dir, err := os.MkdirTemp("/var/tmp", "verif-c29-")
	if err != nil {
		panic(err)
	}
	e := &env{dir: dir, logs: &logBuf{}}
	e.log = zerolog.New(e.logs).Level(zerolog.InfoLevel)
	nop := zerolog.Nop()
	base := filepath.Join(dir, "store")
	e.store, err = storage.NewLocalBackend(base, nop)
	if err != nil {
		panic(err)
	}
	tmp := filepath.Join(dir, "ducktmp")
	os.MkdirAll(tmp, 0o700)
	e.duck, err = database.New(&database.Config{MaxConnections: 4, MemoryLimit: "1GB", ThreadCount: 2,
		TempDirectory: tmp, LocalStorageRoot: e.store.GetBasePath()}, nop)
	if err != nil {
		panic(err)
	}
	e.ab = ingest.NewArrowBuffer(&config.IngestConfig{MaxBufferSize: 50000, MaxBufferAgeMS: 3600000, Compression: "snappy",
		WriteStatistics: true, DataPageVersion: "2.0", FlushWorkers: 2, FlushQueueSize: 16, ShardCount: 4,
		DefaultSortKeys: "time", FlushTimeoutSeconds: 30}, e.store, nop)
	e.lic = license.VerifActiveClient()
	return e
}

func (e *env) close() {
	verifclock.Real()
	e.ab.Close()
	e.duck.Close()
	os.RemoveAll(e.dir)
}

// ---------------------------------------------------------------- one case = one continuous query
type destRow struct {
	label  int64
	host   string
	n      int64
	ws, we string
}

type caseState struct {
	e      *env
	c      *vh.Ctx
	no     int
	dbName string
	sqlite string
	h      *api.ContinuousQueryHandler
	app    *fiber.App
	sched  *scheduler.CQScheduler
	aux    *sql.DB
	cqID   int64
	seen   map[string]int // multiset of destination rows already attributed to earlier ops
	mon    *monitor
	nSrc   int
}

const (
	qPlain   = "SELECT COUNT(*) AS n, {start_time} AS ws, {end_time} AS we FROM %s.src WHERE time >= {start_time} AND time < {end_time}"
	qGrouped = "SELECT host, COUNT(*) AS n, {start_time} AS ws, {end_time} AS we FROM %s.src WHERE time >= {start_time} AND time < {end_time} GROUP BY host"
	// the aggregation succeeds in DuckDB, but its `time` output is a string that is not RFC3339: the real
	// ArrowBuffer rejects the destination write
	qBadTime = "SELECT '2026-01-01 00:00:00' AS time, COUNT(*) AS n, {start_time} AS ws, {end_time} AS we FROM %s.src WHERE time >= {start_time} AND time < {end_time}"
	qBroken  = "SELECT no_such_column AS n, {start_time} AS ws, {end_time} AS we FROM %s.src WHERE time >= {start_time} AND time < {end_time}"
)

func (cs *caseState) queryText(kind string) (string, []string) {
	switch kind {
	case "grouped":
		return fmt.Sprintf(qGrouped, cs.dbName), []string{"host"}
	case "broken":
		return fmt.Sprintf(qBroken, cs.dbName), nil
	case "badtime":
		return fmt.Sprintf(qBadTime, cs.dbName), nil
	}
	return fmt.Sprintf(qPlain, cs.dbName), nil
}

func intervalText(sec int64) string {
	if sec <= 0 {
		return "not-a-duration"
	}
	return fmt.Sprintf("%ds", sec)
}

func (cs *caseState) open() error {
	var err error
	cs.h, err = api.NewContinuousQueryHandler(cs.e.duck, cs.e.store, cs.e.ab,
		&config.ContinuousQueryConfig{Enabled: true, DBPath: cs.sqlite}, nil, cs.e.log)
	if err != nil {
		return err
	}
	cs.app = fiber.New(fiber.Config{DisableStartupMessage: true})
	cs.h.RegisterRoutes(cs.app)
	cs.sched, err = scheduler.NewCQScheduler(&scheduler.CQSchedulerConfig{CQHandler: cs.h, LicenseClient: cs.e.lic, Logger: cs.e.log})
	if err != nil {
		return err
	}
	if err := cs.sched.Start(); err != nil {
		return err
	}
	cs.h.SetScheduler(cs.sched)
	return nil
}

func (cs *caseState) shutdown() {
	if cs.sched != nil {
		cs.sched.Stop()
		cs.sched = nil
	}
	if cs.h != nil {
		cs.h.Close()
		cs.h = nil
	}
}

func (cs *caseState) closeAll() {
	cs.shutdown()
	if cs.aux != nil {
		cs.aux.Close()
		cs.aux = nil
	}
}

func (cs *caseState) http(method, path string, body any) (int, map[string]any) {
	var rd io.Reader
	if body != nil {
		b, _ := json.Marshal(body)
		rd = bytes.NewReader(b)
	}
	req := httptest.NewRequest(method, path, rd)
	req.Header.Set("Content-Type", "application/json")
	resp, err := cs.app.Test(req, -1)
	if err != nil {
		return -1, map[string]any{"error": err.Error()}
	}
	defer resp.Body.Close()
	raw, _ := io.ReadAll(resp.Body)
	var m map[string]any
	json.Unmarshal(raw, &m)
	return resp.StatusCode, m
}

func parseSec(s string) (int64, bool) {
	t, err := time.Parse(time.RFC3339, s)
	if err != nil {
		return 0, false
	}
	return t.Unix(), true
}

// cursor reads last_processed_time straight from the SQLite file (independent connection).
func (cs *caseState) cursor() string {
	var v sql.NullString
	if err := cs.aux.QueryRow("SELECT last_processed_time FROM continuous_queries WHERE id = ?", cs.cqID).Scan(&v); err != nil {
		return "err"
	}
	if !v.Valid {
		return "nil"
	}
	if s, ok := parseSec(v.String); ok {
		return strconv.FormatInt(s, 10)
	}
	return "unparsed:" + v.String
}

type execRec struct {
	status string
	s, e   int64
}

func (cs *caseState) records() []execRec {
	rows, err := cs.aux.Query("SELECT status, start_time, end_time FROM continuous_query_executions WHERE query_id = ? ORDER BY id", cs.cqID)
	if err != nil {
		return nil
	}
	defer rows.Close()
	var out []execRec
	for rows.Next() {
		var st, a, b string
		if rows.Scan(&st, &a, &b) != nil {
			continue
		}
		r := execRec{status: st}
		r.s, _ = parseSec(a)
		r.e, _ = parseSec(b)
		out = append(out, r)
	}
	return out
}

func recCounts(rs []execRec) (int, int) {
	c, f := 0, 0
	for _, r := range rs {
		if r.status == "completed" {
			c++
		} else {
			f++
		}
	}
	return c, f
}

func (cs *caseState) active() string {
	var v sql.NullBool
	if err := cs.aux.QueryRow("SELECT is_active FROM continuous_queries WHERE id = ?", cs.cqID).Scan(&v); err != nil {
		return "err"
	}
	if v.Valid && v.Bool {
		return "1"
	}
	return "0"
}

func (cs *caseState) job() string {
	if cs.sched != nil && cs.sched.VerifJobInterval(cs.cqID) > 0 {
		return "1"
	}
	return "0"
}

// newDestRows flushes the arrow buffer and returns the destination rows not attributed to earlier ops.
func (cs *caseState) newDestRows() ([]destRow, error) {
	if err := cs.e.ab.FlushAll(context.Background()); err != nil {
		return nil, err
	}
	glob := filepath.Join(cs.e.store.GetBasePath(), cs.dbName, "dst")
	if _, err := os.Stat(glob); err != nil {
		return nil, nil
	}
	q := fmt.Sprintf("SELECT epoch_us(time) AS t, COALESCE(CAST(host AS VARCHAR), '*') AS host, CAST(n AS BIGINT) AS n, CAST(ws AS VARCHAR), CAST(we AS VARCHAR) FROM read_parquet('%s/**/*.parquet', union_by_name=true) ORDER BY ALL", glob)
	rows, err := cs.e.duck.Query(q)
	if err != nil {
		// no file has a host column yet: plain shape only
		q = fmt.Sprintf("SELECT epoch_us(time) AS t, '*' AS host, CAST(n AS BIGINT) AS n, CAST(ws AS VARCHAR), CAST(we AS VARCHAR) FROM read_parquet('%s/**/*.parquet', union_by_name=true) ORDER BY ALL", glob)
		rows, err = cs.e.duck.Query(q)
		if err != nil {
			return nil, err
		}
	}
	defer rows.Close()
	cur := map[string]int{}
	var all []destRow
	for rows.Next() {
		var r destRow
		if err := rows.Scan(&r.label, &r.host, &r.n, &r.ws, &r.we); err != nil {
			return nil, err
		}
		all = append(all, r)
	}
	var fresh []destRow
	for _, r := range all {
		k := fmt.Sprintf("%d|%s|%d|%s|%s", r.label, r.host, r.n, r.ws, r.we)
		cur[k]++
		if cur[k] > cs.seen[k] {
			fresh = append(fresh, r)
		}
	}
	cs.seen = cur
	return fresh, nil
}

func rowsText(rs []destRow) (string, string) {
	if len(rs) == 0 {
		return "-", "-"
	}
	var parts []string
	labels := map[int64]bool{}
	for _, r := range rs {
		parts = append(parts, fmt.Sprintf("%s:%d", r.host, r.n))
		labels[r.label] = true
	}
	sort.Strings(parts)
	var ls []string
	for l := range labels {
		ls = append(ls, strconv.FormatInt(l, 10))
	}
	sort.Strings(ls)
	return strings.Join(parts, ","), strings.Join(ls, "+")
}

func (cs *caseState) setFault(f string) {
	set := func(k string, v int) { cs.aux.Exec("UPDATE verif_fault SET v = ? WHERE k = ?", v, k) }
	api.VerifAggFault = nil
	api.VerifWriteFault = nil
	set("ins", 0)
	set("upd", 0)
	if f != "off" {
		// the aggregation takes time: the clock moves on while it runs (endTime must have been captured before)
		fail := f == "agg"
		api.VerifAggFault = func(string) error {
			verifclock.Advance(1500*time.Millisecond + time.Duration(verifclock.Now().UnixNano()%1000)*time.Millisecond)
			if fail {
				return fmt.Errorf("verif: injected aggregation failure")
			}
			return nil
		}
	}
	switch f {
	case "ins":
		set("ins", 1)
	case "upd":
		set("upd", 1)
	case "wr":
		api.VerifWriteFault = func() error { return fmt.Errorf("verif: injected destination write rejection") }
	}
	if f != "off" {
		api.VerifWriteOK, api.VerifWriteRejected = 0, 0
	}
}

// timeSpec: "-" absent | "e" empty string | "bad" malformed | "<ns>:<offMin>" explicit instant
func timeArg(spec string) (*string, bool) {
	switch spec {
	case "-":
		return nil, false
	case "e":
		s := ""
		return &s, false
	case "bad":
		s := "2024-13-01 00:00"
		return &s, false
	}
	p := strings.SplitN(spec, ":", 2)
	ns, _ := strconv.ParseInt(p[0], 10, 64)
	off := 0
	if len(p) == 2 {
		off, _ = strconv.Atoi(p[1])
	}
	s := time.Unix(0, ns).In(time.FixedZone("", off*60)).Format(time.RFC3339Nano)
	return &s, true
}

func classifyErr(s string) string {
	switch {
	case strings.Contains(s, "not active"):
		return "inactive"
	case strings.Contains(s, "start_time must be before end_time"):
		return "rejected"
	case strings.Contains(s, "Invalid start_time"):
		return "badstart"
	case strings.Contains(s, "Invalid end_time"):
		return "badend"
	case strings.Contains(strings.ToLower(s), "execution failed"):
		return "aggfailed"
	case strings.Contains(s, "not found"):
		return "notfound"
	}
	return "error"
}

// exec runs one op line against the real code and returns the canonical observation.
func (cs *caseState) exec(op string) string {
	f := strings.Fields(op)
	if len(f) == 0 {
		return "bad-op"
	}
	atoi := func(s string) int64 { v, _ := strconv.ParseInt(s, 10, 64); return v }
	switch f[0] {
	case "new": // new <caseNo> <now_ns> <intervalSec> <qkind>
		if len(f) != 5 {
			return "bad-op"
		}
		cs.closeAll()
		cs.no = int(atoi(f[1]))
		verifclock.Set(atoi(f[2]))
		cs.dbName = fmt.Sprintf("db%d", cs.no)
		os.RemoveAll(filepath.Join(cs.e.store.GetBasePath(), cs.dbName))
		cs.sqlite = filepath.Join(cs.e.dir, fmt.Sprintf("cq%d.db", cs.no))
		os.Remove(cs.sqlite)
		cs.seen = map[string]int{}
		cs.mon = newMonitor(cs.c)
		cs.nSrc = 0
		cs.e.logs.take()
		if err := cs.open(); err != nil {
			return "open-error:" + err.Error()
		}
		var err error
		cs.aux, err = sql.Open("sqlite3", cs.sqlite)
		if err != nil {
			return "aux-error"
		}
		cs.aux.SetMaxOpenConns(1)
		for _, st := range []string{
			"CREATE TABLE verif_fault(k TEXT PRIMARY KEY, v INTEGER)",
			"INSERT INTO verif_fault VALUES('ins',0),('upd',0)",
			"CREATE TRIGGER verif_upd BEFORE UPDATE OF last_processed_time ON continuous_queries WHEN (SELECT v FROM verif_fault WHERE k='upd')=1 BEGIN SELECT RAISE(ABORT,'verif: injected update failure'); END",
			"CREATE TRIGGER verif_ins BEFORE INSERT ON continuous_query_executions WHEN NEW.status='completed' AND (SELECT v FROM verif_fault WHERE k='ins')=1 BEGIN SELECT RAISE(ABORT,'verif: injected insert failure'); END",
		} {
			if _, err := cs.aux.Exec(st); err != nil {
				return "aux-error:" + err.Error()
			}
		}
		q, tags := cs.queryText(f[4])
		code, m := cs.http("POST", "/api/v1/continuous_queries/", map[string]any{
			"name": fmt.Sprintf("cq%d", cs.no), "database": cs.dbName, "source_measurement": "src",
			"destination_measurement": "dst", "query": q, "interval": intervalText(atoi(f[3])),
			"tag_columns": tags, "is_active": true})
		if code != 201 {
			return fmt.Sprintf("create-error:%d:%v", code, m["error"])
		}
		cs.cqID = int64(m["id"].(float64))
		cs.mon.begin(op)
		return fmt.Sprintf("ok lp=%s active=%s job=%s", cs.cursor(), cs.active(), cs.job())

	case "src": // src <t_us> <host>
		if len(f) != 3 || cs.h == nil {
			return "bad-op"
		}
		cs.mon.note(op)
		rec := &models.ColumnarRecord{Measurement: "src", Columnar: true, Columns: map[string][]interface{}{
			"time": {atoi(f[1])}, "host": {f[2]}, "v": {float64(1)}}}
		if err := cs.e.ab.WriteColumnarRecord(context.Background(), cs.dbName, rec); err != nil {
			return "write-error:" + err.Error()
		}
		if err := cs.e.ab.FlushAll(context.Background()); err != nil {
			return "flush-error:" + err.Error()
		}
		cs.nSrc++
		return "ok"

	case "sched", "man": // sched <now_ns> <fault> | man <now_ns> <start> <end> <dry> <fault>
		if cs.h == nil || (f[0] == "sched" && len(f) != 3) || (f[0] == "man" && len(f) != 6) {
			return "bad-op"
		}
		now := atoi(f[1])
		verifclock.Set(now)
		cs.e.logs.take()
		lpBefore := cs.cursor()
		recBefore := cs.records()
		ob := obs{kind: f[0], now: now, lpBefore: lpBefore, reportedRows: -1}
		status, win := "", "-"
		if f[0] == "sched" {
			cs.setFault(f[2])
			ob.fault = f[2]
			fired := cs.sched.VerifFire(cs.cqID, time.Unix(0, now))
			cs.setFault("off")
			logs := cs.e.logs.take()
			switch fired {
			case "nojob":
				status = "nojob"
			case "timeout":
				status = "timeout"
			default:
				status = "unknown"
				for _, l := range logs {
					switch l["message"] {
					case "Executing scheduled continuous query":
						s, ok1 := parseSec(fmt.Sprint(l["start_time"]))
						e, ok2 := parseSec(fmt.Sprint(l["end_time"]))
						if ok1 && ok2 {
							win = fmt.Sprintf("%d,%d", s, e)
							ob.s, ob.e, ob.hasWin = s, e, true
						}
					case "Scheduled CQ execution failed":
						status = classifyErr(fmt.Sprint(l["error"]))
					case "Scheduled CQ execution completed":
						if status == "unknown" {
							status = "completed"
						}
						if v, ok := l["records_written"].(float64); ok {
							ob.reportedRows = int64(v)
						}
					case "Failed to record execution (data was written)":
						status = "recfailed"
					}
				}
			}
		} else {
			body := map[string]any{"dry_run": f[4] == "1"}
			sArg, sExp := timeArg(f[2])
			eArg, eExp := timeArg(f[3])
			if sArg != nil {
				body["start_time"] = *sArg
			}
			if eArg != nil {
				body["end_time"] = *eArg
			}
			ob.explicitStart, ob.explicitEnd = sExp, eExp
			cs.setFault(f[5])
			ob.fault = f[5]
			code, m := cs.http("POST", fmt.Sprintf("/api/v1/continuous_queries/%d/execute", cs.cqID), body)
			cs.setFault("off")
			logs := cs.e.logs.take()
			if code == 200 {
				status = fmt.Sprint(m["status"])
				if v, ok := m["records_written"].(float64); ok {
					ob.reportedRows = int64(v)
				}
				s, ok1 := parseSec(fmt.Sprint(m["start_time"]))
				e, ok2 := parseSec(fmt.Sprint(m["end_time"]))
				if ok1 && ok2 {
					win = fmt.Sprintf("%d,%d", s, e)
					ob.s, ob.e, ob.hasWin = s, e, true
				}
				for _, l := range logs {
					if l["message"] == "Failed to record execution" {
						status = "recfailed"
					}
				}
			} else {
				status = classifyErr(fmt.Sprint(m["error"]))
				if status == "aggfailed" {
					for _, l := range logs {
						if l["message"] == "Executing continuous query" {
							s, ok1 := parseSec(fmt.Sprint(l["start_time"]))
							e, ok2 := parseSec(fmt.Sprint(l["end_time"]))
							if ok1 && ok2 {
								win = fmt.Sprintf("%d,%d", s, e)
								ob.s, ob.e, ob.hasWin = s, e, true
							}
						}
					}
				}
				status = fmt.Sprintf("%d/%s", code, status)
			}
		}
		fresh, err := cs.newDestRows()
		if err != nil {
			return "dest-read-error:" + strings.ReplaceAll(err.Error(), "\n", " ")
		}
		rt, lt := rowsText(fresh)
		recAfter := cs.records()
		nc, nf := recCounts(recAfter)
		ob.status, ob.rows, ob.lpAfter = status, fresh, cs.cursor()
		ob.writeOK, ob.writeRejected = api.VerifWriteOK, api.VerifWriteRejected
		rw := "-"
		if reportedOK(status) {
			rw = strconv.FormatInt(ob.reportedRows, 10)
		}
		ob.recBefore, ob.recAfter = recBefore, recAfter
		cs.mon.observe(op, ob)
		cs.c.Tag(f[0] + ":" + status)
		return fmt.Sprintf("%s w=%s rows=%s rw=%s label=%s lp=%s rec=%d/%d", status, win, rt, rw, lt, ob.lpAfter, nc, nf)

	case "upd": // upd <now_ns> <active> <intervalSec> <qkind>
		if len(f) != 5 || cs.h == nil {
			return "bad-op"
		}
		verifclock.Set(atoi(f[1]))
		cs.mon.note(op)
		lpBefore := cs.cursor()
		q, tags := cs.queryText(f[4])
		code, _ := cs.http("PUT", fmt.Sprintf("/api/v1/continuous_queries/%d", cs.cqID), map[string]any{
			"name": fmt.Sprintf("cq%d", cs.no), "database": cs.dbName, "source_measurement": "src",
			"destination_measurement": "dst", "query": q, "interval": intervalText(atoi(f[3])),
			"tag_columns": tags, "is_active": f[2] == "1"})
		cs.e.logs.take()
		cs.mon.unchanged(op, "update", lpBefore, cs.cursor())
		return fmt.Sprintf("%d lp=%s active=%s job=%s", code, cs.cursor(), cs.active(), cs.job())

	case "restart": // restart <now_ns>
		if len(f) != 2 || cs.h == nil {
			return "bad-op"
		}
		verifclock.Set(atoi(f[1]))
		cs.mon.note(op)
		lpBefore := cs.cursor()
		cs.shutdown()
		if err := cs.open(); err != nil {
			return "open-error:" + err.Error()
		}
		cs.e.logs.take()
		cs.mon.unchanged(op, "restart", lpBefore, cs.cursor())
		return fmt.Sprintf("ok lp=%s active=%s job=%s", cs.cursor(), cs.active(), cs.job())
	}
	return "bad-op"
}

// ---------------------------------------------------------------- main
func main() {
	c := vh.Start()
	e := newEnv()
	defer e.close()
	cs := &caseState{e: e, c: c}

	runCase := func(ops []string, nontrivial bool) {
		var canon strings.Builder
		for _, op := range ops {
			out := vh.Guard(func() string { return cs.exec(op) })
			c.Op(op, out)
			canon.WriteString(op + ";")
		}
		cs.closeAll()
		c.Case(canon.String(), nontrivial)
	}

	if c.Replay != "" {
		fh, err := os.Open(c.Replay)
		if err != nil {
			panic(err)
		}
		var ops []string
		sc := bufio.NewScanner(fh)
		for sc.Scan() {
			ln := strings.TrimSpace(sc.Text())
			if ln == "" {
				continue
			}
			if strings.HasPrefix(ln, "new ") && len(ops) > 0 {
				runCase(ops, true)
				ops = nil
			}
			ops = append(ops, ln)
		}
		if len(ops) > 0 {
			runCase(ops, true)
		}
		fmt.Println("replayed; propfails:", len(c.PropFails))
		for _, p := range c.PropFails {
			fmt.Println(" ", p.Key, "—", p.What)
		}
		c.Finish("replay")
		return
	}

	g := newGen(c)
	for _, cse := range g.corpus() {
		runCase(cse.ops, cse.nontrivial)
	}
	n := c.N
	if n == 0 {
		n = 200
		if c.Thorough() {
			n = 3000
		}
	}
	for i := 0; i < n; i++ {
		cse := g.random()
		runCase(cse.ops, cse.nontrivial)
	}
	// malformed stream: the executor and the model driver must both reject it
	for _, bad := range []string{"frobnicate 1 2", "sched", "man 1 2", "new x"} {
		c.Op(bad, cs.exec(bad))
	}
	c.Finish("cases = one continuous query's history (new; then scheduled ticks / manual executions with and without explicit " +
		"start/end, dry runs, injected aggregation / destination-write / record-insert / record-update failures, query updates incl. " +
		"deactivation, broken SQL and output the buffer rejects, idle gaps of days/weeks, restarts from the same SQLite file, source-row arrivals) — a fixed corpus of edge histories, then random " +
		"histories from one PRNG; non-trivial = history contains at least one fault, explicit range, update or restart; distinct = distinct op text")
}
