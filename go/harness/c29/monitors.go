//go:build verif

package main

import (
	"fmt"
	"strconv"
	"strings"

	"github.com/basekick-labs/arc/internal/verif/vh"
)

// Property monitors for C29. They look only at what the REAL code did: the window each execution
// logged / returned / recorded, the rows that appeared in the destination measurement, and the
// persisted cursor (last_processed_time) before and after — never at the Lean model.

type obs struct {
	kind                       string // sched | man
	now                        int64
	fault                      string
	explicitStart, explicitEnd bool
	status                     string
	hasWin                     bool
	s, e                       int64 // executed window in unix seconds (as logged / returned)
	rows                       []destRow
	reportedRows               int64 // records_written reported by the execution (-1 = none)
	writeOK, writeRejected     int   // destination writes of executeAggregation accepted / rejected during the op
	lpBefore, lpAfter          string
	recBefore, recAfter        []execRec
}

type winRec struct {
	kind      string
	explicit  bool
	s, e      int64
	advanced  bool // status completed (recorded, cursor moved)
	recfailed bool
	wroteRows bool
}

type monitor struct {
	c    *vh.Ctx
	hist []string
	wins []winRec
}

func newMonitor(c *vh.Ctx) *monitor { return &monitor{c: c} }

func (m *monitor) begin(op string) { m.hist = []string{op} }
func (m *monitor) note(op string)  { m.hist = append(m.hist, op) }
func (m *monitor) replay() string  { return strings.Join(m.hist, "\n") }

func (m *monitor) unchanged(op, what, before, after string) {
	if before != after {
		m.c.Fail("cursor-changed-by-"+what, fmt.Sprintf("%s changed last_processed_time from %s to %s", what, before, after), m.replay())
	}
}

func reportedOK(status string) bool { return status == "completed" || status == "recfailed" }

func (m *monitor) observe(op string, ob obs) {
	m.hist = append(m.hist, op)
	fail := func(key, what string) { m.c.Fail(key, what, m.replay()) }
	cDelta, fDelta := 0, 0
	{
		c0, f0 := recCounts(ob.recBefore)
		c1, f1 := recCounts(ob.recAfter)
		cDelta, fDelta = c1-c0, f1-f0
	}
	// --- "a failed execution does not advance the window"
	if ob.status != "completed" && ob.lpAfter != ob.lpBefore {
		fail("failed-exec-advanced-cursor:"+ob.kind, fmt.Sprintf("%s execution with status %s moved last_processed_time %s -> %s", ob.kind, ob.status, ob.lpBefore, ob.lpAfter))
	}
	// --- a rejected destination write is a failed execution, whatever the code reported
	if ob.writeRejected > 0 && ob.writeOK == 0 {
		if ob.lpAfter != ob.lpBefore {
			fail("failed-exec-advanced-cursor:"+ob.kind, fmt.Sprintf("%s execution whose destination write was rejected (%d attempt(s), none accepted; reported status %s) moved last_processed_time %s -> %s", ob.kind, ob.writeRejected, ob.status, ob.lpBefore, ob.lpAfter))
		}
		if reportedOK(ob.status) {
			fail("write-rejected-exec-reported-completed:"+ob.kind, fmt.Sprintf("%s execution reported %s although the destination write of its rows was rejected", ob.kind, ob.status))
		}
	}
	// --- the rows a successful execution reports as written must really be in the destination measurement
	if reportedOK(ob.status) && ob.reportedRows != int64(len(ob.rows)) {
		fail("completed-exec-rows-not-in-storage:"+ob.kind, fmt.Sprintf("%s execution reported %s with records_written=%d for window [%d,%d) but %d new rows reached the destination measurement", ob.kind, ob.status, ob.reportedRows, ob.s, ob.e, len(ob.rows)))
	}
	if ob.status == "completed" {
		// (only for executions that ran from the cursor: whether an explicit-range manual execution
		// should move the cursor at all is exactly what the overlap/gap monitors below judge)
		cursorBased := ob.kind == "sched" || !(ob.explicitStart || ob.explicitEnd)
		if cursorBased && (!ob.hasWin || ob.lpAfter != strconv.FormatInt(ob.e, 10)) {
			fail("completed-exec-cursor-not-at-window-end:"+ob.kind, fmt.Sprintf("completed window [%d,%d) but last_processed_time=%s", ob.s, ob.e, ob.lpAfter))
		}
		last := execRec{}
		if len(ob.recAfter) > 0 {
			last = ob.recAfter[len(ob.recAfter)-1]
		}
		if cDelta != 1 || fDelta != 0 || last.status != "completed" || last.s != ob.s || last.e != ob.e {
			fail("completed-exec-not-recorded:"+ob.kind, fmt.Sprintf("completed window [%d,%d) but execution records changed by +%d completed/+%d failed, last=%+v", ob.s, ob.e, cDelta, fDelta, last))
		}
	}
	if ob.status == "recfailed" && (cDelta != 0 || fDelta != 0) {
		fail("record-advance-not-atomic:"+ob.kind, fmt.Sprintf("recording failed (fault %s) yet execution records changed by +%d/+%d while the cursor stayed at %s", ob.fault, cDelta, fDelta, ob.lpAfter))
	}
	if !reportedOK(ob.status) && len(ob.rows) > 0 {
		fail("failed-exec-wrote-rows:"+ob.kind, fmt.Sprintf("%s execution with status %s wrote %d destination rows", ob.kind, ob.status, len(ob.rows)))
	}
	if !ob.hasWin {
		return
	}
	// --- "each starting where the previous successful execution ended"
	if ob.lpBefore != "nil" && (ob.kind == "sched" || !ob.explicitStart) && strconv.FormatInt(ob.s, 10) != ob.lpBefore {
		fail("window-start-not-at-cursor:"+ob.kind, fmt.Sprintf("cursor was %s but the executed window starts at %d", ob.lpBefore, ob.s))
	}
	// --- "output rows are labelled with the start of the window they summarise"
	for _, r := range ob.rows {
		ws, ok1 := parseSec(r.ws)
		we, ok2 := parseSec(r.we)
		if !ok1 || !ok2 || ws != ob.s || we != ob.e {
			fail("row-window-differs-from-reported-window:"+ob.kind, fmt.Sprintf("row summarises [%s,%s) but the execution reported [%d,%d)", r.ws, r.we, ob.s, ob.e))
			continue
		}
		if r.label != ws*1_000_000 {
			d := r.label - ws*1_000_000
			cause := "other"
			if d > 0 && d < 1_000_000 {
				cause = "subsecond-start"
			}
			fail("label-not-window-start:"+cause, fmt.Sprintf("%s execution: destination row summarises the window starting %s (= %d us) but is labelled time=%d us (off by %d us)", ob.kind, r.ws, ws*1_000_000, r.label, d))
		}
	}
	if !reportedOK(ob.status) {
		return
	}
	cur := winRec{kind: ob.kind, explicit: ob.explicitStart || ob.explicitEnd, s: ob.s, e: ob.e,
		advanced: ob.status == "completed", recfailed: ob.status == "recfailed", wroteRows: len(ob.rows) > 0}
	if ob.kind == "man" && ob.e > ob.now/1_000_000_000 {
		m.c.Tag("note:manual-window-ends-in-future")
	}
	if ob.kind == "sched" {
		// --- non-overlap of successful scheduled windows
		for i := len(m.wins) - 1; i >= 0; i-- {
			p := m.wins[i]
			if p.kind != "sched" {
				continue
			}
			lo, hi := max64(p.s, cur.s), min64(p.e, cur.e)
			if lo >= hi {
				continue
			}
			cause, key := "", ""
			if p.recfailed {
				if !p.wroteRows {
					continue // nothing was emitted for the earlier window; the re-run is the first emission
				}
				key = "sched-window-rerun:record-failed-after-rows-written"
				cause = "the earlier execution wrote its rows and reported completed, but recordExecutionAndUpdateTime failed, so the cursor stayed"
			} else {
				for _, q := range m.wins[i+1:] {
					if q.kind == "man" && q.explicit && q.advanced && q.e < p.e {
						key = "sched-overlap:manual-explicit-range-rewinds-cursor"
						cause = fmt.Sprintf("a manual execution with an explicit range [%d,%d) in between set last_processed_time back to %d", q.s, q.e, q.e)
					}
				}
				if key == "" {
					key, cause = "sched-overlap:unexplained", "no explaining event found"
				}
			}
			fail(key, fmt.Sprintf("two successful scheduled executions processed overlapping windows [%d,%d) and [%d,%d) (common [%d,%d)): %s", p.s, p.e, cur.s, cur.e, lo, hi, cause))
			break
		}
		// --- contiguity: the span between the previous advancing scheduled window and this one must be
		// covered by the successful manual executions in between
		for i := len(m.wins) - 1; i >= 0; i-- {
			p := m.wins[i]
			if p.kind != "sched" || !p.advanced {
				continue
			}
			if cur.s > p.e {
				pos := p.e
				progress := true
				explicit := false
				for progress && pos < cur.s {
					progress = false
					for _, q := range m.wins[i+1:] {
						if q.kind == "man" && q.explicit {
							explicit = true
						}
						if q.kind == "man" && q.advanced && q.s <= pos && q.e > pos {
							pos = q.e
							progress = true
						}
					}
				}
				if pos < cur.s {
					key := "sched-gap:unexplained"
					if explicit {
						key = "sched-gap:manual-explicit-range-skips-cursor"
					}
					fail(key, fmt.Sprintf("scheduled window [%d,%d) is followed by scheduled window [%d,%d); the instants [%d,%d) in between were not processed by any successful execution", p.s, p.e, cur.s, cur.e, pos, cur.s))
				}
			}
			break
		}
	}
	m.wins = append(m.wins, cur)
}

func max64(a, b int64) int64 {
	if a > b {
		return a
	}
	return b
}
func min64(a, b int64) int64 {
	if a < b {
		return a
	}
	return b
}
