//go:build verif

// C18 harness: the REAL partition pruner + the REAL SQL transformation of the query handler + the REAL DuckDB
// against the Lean model, and property monitors comparing pruned vs unpruned results.
//
// For every generated layout (hour- and day-level Parquet files under /var/tmp, written with the column types
// Arc writes: `time` TIMESTAMPTZ) and every generated statement the harness
//   - transforms the statement with the real QueryHandler.getTransformedSQL twice: with a handler whose pruner is
//     enabled and with one whose pruner is disabled, executes both on the real DuckDB and compares the row
//     multisets (monitor: any difference => c.Fail with a key per class + layout + SQL);
//   - prints the real ExtractTimeRange result, the real read plan (the read_parquet path list of the transformed
//     SQL) and both row counts; the Lean driver prints the same from the model (correspondence).
//
// NOW()/CURRENT_TIMESTAMP: the pruner reads the virtual clock (clockify); in the transformed SQL the harness
// replaces them by the same instant as a TIMESTAMPTZ literal so that DuckDB and the pruner agree on "now".
package main

import (
	"context"
	"database/sql"
	"fmt"
	"io"
	"math/big"
	"os"
	"path/filepath"
	"regexp"
	"sort"
	"strings"
	"time"

	"github.com/basekick-labs/arc/internal/api"
	"github.com/basekick-labs/arc/internal/database"
	"github.com/basekick-labs/arc/internal/pruning"
	"github.com/basekick-labs/arc/internal/storage"
	"github.com/basekick-labs/arc/internal/verif/vh"
	"github.com/basekick-labs/arc/internal/verifclock"
	"github.com/rs/zerolog"
)

const (
	hourNs = int64(3600) * 1e9
	dayNs  = 24 * hourNs
	usNs   = int64(1000)
)

func must(err error) {
	if err != nil {
		panic(err)
	}
}

// ---------------------------------------------------------------- AST of generated predicates

type lit struct {
	fmt                  int
	y, mo, d, hh, mi, ss int
	frac                 int64 // ns
	off                  int   // seconds east
	inst                 int64 // instant the pruner is expected to read (labelling only)
	goOK                 bool
}

type rhs struct {
	kind byte // 'L' literal, 'R' relative, 'N' number
	l    lit
	plus bool
	n    int
	unit string
	sp   int // unit spelling: 0 day, 1 days, 2 DAY, 3 DAYS (final capital S: dropped by evaluateRelativeTime), 4 Days
	k    int64
}

type batom struct {
	between bool
	col     byte // t q e s v
	op      string
	r, r2   rhs
}

type pred struct {
	kind byte // 'A' '&' '|' '!'
	a    batom
	p, q *pred
}

func (l lit) toks() string {
	return fmt.Sprintf("L %d %d %d %d %d %d %d %d %d", l.fmt, l.y, l.mo, l.d, l.hh, l.mi, l.ss, l.frac, l.off)
}

func (r rhs) toks() string {
	switch r.kind {
	case 'L':
		return r.l.toks()
	case 'R':
		sg := "-"
		if r.plus {
			sg = "+"
		}
		return fmt.Sprintf("R %s %d %s %d", sg, r.n, r.unit, b01(r.sp == 3))
	}
	return fmt.Sprintf("N %d", r.k)
}

func (a batom) toks() string {
	if a.between {
		return fmt.Sprintf("b %c %s %s", a.col, a.r.toks(), a.r2.toks())
	}
	return fmt.Sprintf("c %c %s %s", a.col, a.op, a.r.toks())
}

func (p *pred) toks() string {
	switch p.kind {
	case 'A':
		return "A " + p.a.toks()
	case '!':
		return "! " + p.p.toks()
	}
	return string(p.kind) + " " + p.p.toks() + " " + p.q.toks()
}

func (p *pred) atoms(f func(*batom)) {
	switch p.kind {
	case 'A':
		f(&p.a)
	case '!':
		p.p.atoms(f)
	default:
		p.p.atoms(f)
		p.q.atoms(f)
	}
}

func (p *pred) has(k byte) bool {
	if p.kind == k {
		return true
	}
	switch p.kind {
	case 'A':
		return false
	case '!':
		return p.p.has(k)
	}
	return p.p.has(k) || p.q.has(k)
}

func (l lit) sql() string {
	sign, o := "+", l.off
	if o < 0 {
		sign, o = "-", -o
	}
	switch l.fmt {
	case 0:
		return fmt.Sprintf("%04d-%02d-%02d", l.y, l.mo, l.d)
	case 1:
		return fmt.Sprintf("%04d-%02d-%02d %02d:%02d:%02d", l.y, l.mo, l.d, l.hh, l.mi, l.ss)
	case 2:
		return fmt.Sprintf("%04d-%02d-%02d %02d:%02d", l.y, l.mo, l.d, l.hh, l.mi)
	case 3:
		return fmt.Sprintf("%04d-%02d-%02dT%02d:%02d:%02dZ", l.y, l.mo, l.d, l.hh, l.mi, l.ss)
	case 4:
		return fmt.Sprintf("%04d-%02d-%02dT%02d:%02d:%02d%s%02d:%02d", l.y, l.mo, l.d, l.hh, l.mi, l.ss, sign, o/3600, o%3600/60)
	case 5:
		return fmt.Sprintf("%04d-%02d-%02dT%02d:%02d:%02d.%06dZ", l.y, l.mo, l.d, l.hh, l.mi, l.ss, l.frac/1000)
	case 6:
		return fmt.Sprintf("%04d/%02d/%02d %02d:%02d:%02d", l.y, l.mo, l.d, l.hh, l.mi, l.ss)
	case 7:
		return fmt.Sprintf("%04d/%02d/%02d", l.y, l.mo, l.d)
	case 8:
		return fmt.Sprintf("%04d-%02d-%02d %02d:%02d:%02d.%06d", l.y, l.mo, l.d, l.hh, l.mi, l.ss, l.frac/1000)
	case 9:
		return fmt.Sprintf("%04d-%02d-%02dT%02d:%02d:%02d", l.y, l.mo, l.d, l.hh, l.mi, l.ss)
	case 10:
		return fmt.Sprintf("%04d-%02d-%02d %02d:%02d:%02d%s%02d", l.y, l.mo, l.d, l.hh, l.mi, l.ss, sign, o/3600)
	}
	return "yesterday"
}

type style struct {
	r     *vh.Rand
	alias string
}

func (st *style) sp() string { return vh.Pick(st.r, []string{" ", " ", "", "  "}) }

func (st *style) col(c byte) string {
	pre := ""
	if st.alias != "" {
		pre = st.alias + "."
	}
	switch c {
	case 't':
		return pre + vh.Pick(st.r, []string{"time", "time", "time", "TIME", "Time"})
	case 'q':
		return pre + `"time"`
	case 'e':
		return pre + "event_time"
	case 's':
		return pre + "src_timestamp"
	}
	return pre + "v"
}

func (st *style) rhs(r rhs) string {
	switch r.kind {
	case 'L':
		return "'" + r.l.sql() + "'"
	case 'R':
		nowS := vh.Pick(st.r, []string{"NOW()", "now()", "NOW( )", "CURRENT_TIMESTAMP"})
		u := unitSpell(r.unit, r.sp)
		sg := "-"
		if r.plus {
			sg = "+"
		}
		return fmt.Sprintf("%s%s%s%sINTERVAL%s'%d%s%s'", nowS, st.sp(), sg, st.sp(), st.sp(), r.n, vh.Pick(st.r, []string{" ", " ", ""}), u)
	}
	return fmt.Sprintf("%d", r.k)
}

func unitSpell(u string, sp int) string {
	switch sp {
	case 1:
		return u + "s"
	case 2:
		return strings.ToUpper(u)
	case 3:
		return strings.ToUpper(u) + "S"
	case 4:
		return strings.ToUpper(u[:1]) + u[1:] + "s"
	}
	return u
}

var opSQL = map[string]string{"ge": ">=", "gt": ">", "lt": "<", "le": "<="}

func (st *style) atom(a *batom) string {
	if a.between {
		return fmt.Sprintf("%s BETWEEN %s AND %s", st.col(a.col), st.rhs(a.r), st.rhs(a.r2))
	}
	return st.col(a.col) + st.sp() + opSQL[a.op] + st.sp() + st.rhs(a.r)
}

func (st *style) pred(p *pred, top bool) string {
	switch p.kind {
	case 'A':
		return st.atom(&p.a)
	case '!':
		return "NOT (" + st.pred(p.p, true) + ")"
	}
	w := " AND "
	if p.kind == '|' {
		w = " OR "
	}
	s := st.pred(p.p, false) + w + st.pred(p.q, false)
	if top && p.kind == '&' {
		return s
	}
	return "(" + s + ")"
}

// ---------------------------------------------------------------- environment

type row struct {
	rid       int64
	t, c1, c2 int64 // µs
	v         int64
}

type file struct {
	tbl   string
	day   bool
	idx   int64 // hour index or day index
	rows  []row
	opTxt string
	path  string
}

type env struct {
	c                        *vh.Ctx
	r                        *vh.Rand
	root                     string
	db                       *database.DuckDB
	sqldb                    *sql.DB
	qhOn                     *api.QueryHandler
	qhOff                    *api.QueryHandler
	pr                       *pruning.PartitionPruner
	now                      int64
	dbName                   string
	caseNo                   int
	seq                      int
	files                    []file
	rid                      int64
	qid                      int
	newPartSinceQ            bool
	compactedSinceQ          bool
	garbage                  bool
	pathSeq                  int
	sqlLog                   *os.File
	tCopy, tXform, tRun      time.Duration
	minDate, defStart, soAdd int64
}

func newEnv(c *vh.Ctx) *env {
	root, err := os.MkdirTemp("/var/tmp", "verif-c18-*")
	must(err)
	logger := zerolog.New(io.Discard).Level(zerolog.Disabled)
	be, err := storage.NewLocalBackend(root, logger)
	must(err)
	db, err := database.New(&database.Config{MemoryLimit: "512MB", ThreadCount: 1, MaxConnections: 2, LocalStorageRoot: root}, logger)
	must(err)
	e := &env{c: c, r: vh.NewRand(c.Seed), root: root, db: db, sqldb: db.DB()}
	e.qhOn = api.NewQueryHandler(db, be, logger, 0, 0)
	e.qhOff = api.NewQueryHandler(db, be, logger, 0, 0)
	api.C18Pruner(e.qhOff).VerifSetEnabled(false)
	e.pr = api.C18Pruner(e.qhOn)
	f := func(k string, d int64) int64 {
		if v, ok := c.Facts[k].(float64); ok {
			return int64(v)
		}
		return d
	}
	e.minDate = f("min_partition_date_unix", 0) * 1e9
	e.defStart = f("default_start_unix", 1577836800) * 1e9
	e.soAdd = f("start_only_add_ns", 86400e9)
	return e
}

// logSQL keeps the rendered statement of every ext / q op next to ops.txt (sql.txt) for replays.
func (e *env) logSQL(op, sqlText string) {
	if e.sqlLog == nil {
		f, err := os.Create(filepath.Join(e.c.OutDir, "sql.txt"))
		must(err)
		e.sqlLog = f
	}
	fmt.Fprintf(e.sqlLog, "%s\t%s\n", op, sqlText)
}

func (e *env) close() {
	if e.sqlLog != nil {
		e.sqlLog.Close()
	}
	e.db.Close()
	os.RemoveAll(e.root)
}

func (e *env) setNow(ns int64) {
	e.now = ns
	verifclock.Set(ns)
	e.c.Op(fmt.Sprintf("now %d", ns), "ok")
}

func (e *env) reset() {
	if e.dbName != "" {
		os.RemoveAll(filepath.Join(e.root, e.dbName))
	}
	e.caseNo++
	e.dbName = fmt.Sprintf("db%d", e.caseNo)
	e.files = nil
	e.newPartSinceQ, e.compactedSinceQ = false, false
	e.c.Op("reset", "ok")
}

func utc(ns int64) time.Time {
	sec := ns / 1e9
	nsec := ns % 1e9
	if nsec < 0 {
		sec--
		nsec += 1e9
	}
	return time.Unix(sec, nsec).UTC()
}

func floorDiv(a, b int64) int64 {
	q := a / b
	if a%b != 0 && (a < 0) != (b < 0) {
		q--
	}
	return q
}

func (e *env) hasPart(tbl string, day bool, idx int64) bool {
	for _, f := range e.files {
		if f.tbl == tbl && f.day == day && f.idx == idx {
			return true
		}
	}
	return false
}

// addFile writes one Parquet file into the hour (or day) partition directory Arc uses.
func (e *env) addFile(tbl string, day bool, idx int64, rows []row) {
	var t time.Time
	var dir string
	if day {
		t = utc(idx * dayNs)
		dir = t.Format("2006/01/02")
	} else {
		t = utc(idx * hourNs)
		dir = t.Format("2006/01/02/15")
	}
	e.seq++
	name := fmt.Sprintf("%s_%06d.parquet", tbl, e.seq)
	if day {
		name = fmt.Sprintf("%s_daily_%06d.parquet", tbl, e.seq)
	}
	full := filepath.Join(e.root, e.dbName, tbl, dir, name)
	must(os.MkdirAll(filepath.Dir(full), 0o755))
	var vals []string
	for _, r := range rows {
		vals = append(vals, fmt.Sprintf("(%d, %d, %d, %d, %d)", r.rid, r.t, r.c1, r.c2, r.v))
	}
	q := fmt.Sprintf("COPY (SELECT CAST(c0 AS BIGINT) AS rid, CAST(make_timestamp(c1) AS TIMESTAMPTZ) AS \"time\", "+
		"CAST(make_timestamp(c2) AS TIMESTAMPTZ) AS event_time, CAST(make_timestamp(c3) AS TIMESTAMPTZ) AS src_timestamp, "+
		"CAST(c4 AS BIGINT) AS v FROM (VALUES %s) t(c0,c1,c2,c3,c4)) TO '%s' (FORMAT PARQUET)", strings.Join(vals, ", "), full)
	tc := time.Now()
	_, err := e.sqldb.Exec(q)
	must(err)
	e.tCopy += time.Since(tc)
	if !e.hasPart(tbl, day, idx) {
		e.newPartSinceQ = true
	}
	k := "h"
	if day {
		k = "d"
	}
	var sb strings.Builder
	fmt.Fprintf(&sb, "file %s %s %d %d", tbl, k, idx, len(rows))
	for _, r := range rows {
		fmt.Fprintf(&sb, " %d %d %d %d %d", r.rid, r.t, r.c1, r.c2, r.v)
	}
	e.files = append(e.files, file{tbl, day, idx, rows, sb.String(), full})
	e.c.Op(sb.String(), "ok")
}

// rmPart deletes the files of a partition (all, or all but the first one written).
func (e *env) rmPart(tbl string, day bool, idx int64, keepFirst bool) {
	var out []file
	seen := false
	for _, f := range e.files {
		if f.tbl == tbl && f.day == day && f.idx == idx {
			if !seen && keepFirst {
				seen = true
				out = append(out, f)
				continue
			}
			seen = true
			must(os.Remove(f.path))
			continue
		}
		out = append(out, f)
	}
	e.files = out
	k := "h"
	if day {
		k = "d"
	}
	e.c.Op(fmt.Sprintf("rmpart %s %s %d %d", tbl, k, idx, b01(keepFirst)), "ok")
}

// compactDay does what a daily compaction job leaves behind: the rows of the day's hour files are written to a
// new day-level file, the hour files are removed (keepFirst: the first file of every hour directory stays, like a
// late raw file the job did not pick up), and the completion hook QueryHandler.InvalidateCaches fires.
func (e *env) compactDay(tbl string, dayI int64, keepFirst bool) bool {
	var moved []row
	hours := map[int64]int{}
	var order []int64
	for _, f := range e.files {
		if f.tbl == tbl && !f.day && floorDiv(f.idx, 24) == dayI {
			if hours[f.idx] == 0 {
				order = append(order, f.idx)
			}
			hours[f.idx]++
			if !(keepFirst && hours[f.idx] == 1) {
				moved = append(moved, f.rows...)
			}
		}
	}
	if len(moved) == 0 {
		return false
	}
	e.addFile(tbl, true, dayI, moved)
	for _, h := range order {
		e.rmPart(tbl, false, h, keepFirst)
	}
	e.qhOn.InvalidateCaches() // the REAL post-compaction hook
	e.c.Op("inval", "ok")
	e.compactedSinceQ = true
	e.c.Tag("compaction")
	return true
}

func (e *env) layoutText() string {
	var xs []string
	for _, f := range e.files {
		xs = append(xs, f.opTxt)
	}
	return strings.Join(xs, " ; ")
}

func bigNs(t time.Time) string {
	b := new(big.Int).Mul(big.NewInt(t.Unix()), big.NewInt(1e9))
	b.Add(b, big.NewInt(int64(t.Nanosecond())))
	return b.String()
}

func (e *env) rangeStr(sqlText string) (string, *pruning.TimeRange) {
	tr := e.pr.ExtractTimeRange(sqlText)
	if tr == nil {
		return "none", nil
	}
	return bigNs(tr.Start) + "," + bigNs(tr.End) + "," + fmt.Sprint(b01(tr.EndInclusive)), tr
}

var (
	reReadParquet = regexp.MustCompile(`read_parquet\((\[[^\]]*\]|'[^']*')`)
	reQuoted      = regexp.MustCompile(`'([^']*)'`)
	reNow         = regexp.MustCompile(`(?i)\bNOW\s*\(\s*\)|\bCURRENT_TIMESTAMP\b`)
)

// plans parses the read_parquet arguments of a transformed statement: table -> canonical plan.
func (e *env) plans(xsql string) map[string]string {
	out := map[string]string{}
	for _, m := range reReadParquet.FindAllStringSubmatch(xsql, -1) {
		var parts []string
		tbl := ""
		for _, q := range reQuoted.FindAllStringSubmatch(m[1], -1) {
			rel, err := filepath.Rel(filepath.Join(e.root, e.dbName), q[1])
			if err != nil {
				rel = q[1]
			}
			i := strings.Index(rel, "/")
			if i < 0 {
				parts = append(parts, "?"+rel)
				continue
			}
			tbl = rel[:i]
			p := rel[i+1:]
			if p == "**/*.parquet" {
				parts = append(parts, "ALL")
			} else {
				parts = append(parts, strings.TrimSuffix(p, "/*.parquet"))
			}
		}
		sort.Strings(parts)
		s := strings.Join(parts, ",")
		if old, ok := out[tbl]; ok && old != s {
			s = old + "|DIFFERENT|" + s
		}
		out[tbl] = s
	}
	return out
}

// run executes a transformed statement; returns the sorted result rows.
func (e *env) run(xsql string) ([]string, error) {
	nowLit := "TIMESTAMPTZ '" + utc(e.now).Format("2006-01-02 15:04:05.000000") + "+00'"
	q := reNow.ReplaceAllString(xsql, nowLit)
	rs, err := e.sqldb.Query(q)
	if err != nil {
		return nil, err
	}
	defer rs.Close()
	cols, _ := rs.Columns()
	var out []string
	for rs.Next() {
		vals := make([]sql.NullInt64, len(cols))
		ptr := make([]any, len(cols))
		for i := range vals {
			ptr[i] = &vals[i]
		}
		if err := rs.Scan(ptr...); err != nil {
			return nil, err
		}
		var sb strings.Builder
		for i, v := range vals {
			if i > 0 {
				sb.WriteByte('|')
			}
			fmt.Fprintf(&sb, "%d", v.Int64)
		}
		out = append(out, sb.String())
	}
	if err := rs.Err(); err != nil {
		return nil, err
	}
	sort.Strings(out)
	return out, nil
}

type query struct {
	kind   string // s j u b B
	hdr    bool
	alias  bool
	p1, p2 *pred
	order  bool
	text   string // rendered once: the transform cache is keyed by the statement text
}

func (e *env) tblRef(q *query, t string) string {
	if q.hdr {
		return t
	}
	return e.dbName + "." + t
}

func (e *env) sqlOf(q *query) string {
	if q.text == "" {
		q.text = e.render(q)
	}
	return q.text
}

func (e *env) render(q *query) string {
	st := &style{r: e.r}
	switch q.kind {
	case "s":
		ref := e.tblRef(q, "cpu")
		if q.alias {
			st.alias = "c"
			ref += " c"
		}
		s := "SELECT rid FROM " + ref + " WHERE " + st.pred(q.p1, true)
		if q.order {
			s += " ORDER BY rid"
		}
		return s
	case "j":
		st.alias = "a"
		return "SELECT a.rid, b.rid FROM " + e.tblRef(q, "cpu") + " a JOIN " + e.tblRef(q, "mem") + " b ON a.v = b.v WHERE " + st.pred(q.p1, true)
	case "u":
		return "SELECT rid FROM " + e.tblRef(q, "cpu") + " WHERE " + st.pred(q.p1, true) +
			" UNION ALL SELECT rid FROM " + e.tblRef(q, "cpu") + " WHERE " + st.pred(q.p2, true)
	case "b":
		return "SELECT rid FROM " + e.tblRef(q, "cpu") + " WHERE v IN (SELECT v FROM " + e.tblRef(q, "mem") + " WHERE " + st.pred(q.p1, false) +
			") AND " + st.pred(q.p2, false)
	}
	return "SELECT rid FROM " + e.tblRef(q, "cpu") + " WHERE " + st.pred(q.p2, false) + " AND v IN (SELECT v FROM " +
		e.tblRef(q, "mem") + " WHERE " + st.pred(q.p1, false) + ")"
}

func b01(b bool) int {
	if b {
		return 1
	}
	return 0
}

func (e *env) relInstant(r rhs) int64 {
	n := r.n
	if !r.plus {
		n = -n
	}
	now := utc(e.now)
	switch r.unit {
	case "second":
		return now.Add(time.Duration(n) * time.Second).UnixNano()
	case "minute":
		return now.Add(time.Duration(n) * time.Minute).UnixNano()
	case "hour":
		return now.Add(time.Duration(n) * time.Hour).UnixNano()
	case "day":
		return now.AddDate(0, 0, n).UnixNano()
	case "week":
		return now.AddDate(0, 0, 7*n).UnixNano()
	}
	return now.AddDate(0, n, 0).UnixNano()
}

// monthDiffers: does the harness's OWN calendar-month arithmetic (time.AddDate, not the code under test) give a
// different instant than DuckDB for NOW() ± INTERVAL 'n months'? Only then the statement is in the known
// relative-month class (day-of-month overflow vs clamping); otherwise a month bound is expected to be exact.
func (e *env) monthDiffers(r rhs) bool {
	sg := "-"
	if r.plus {
		sg = "+"
	}
	var us sql.NullInt64
	nowLit := "TIMESTAMPTZ '" + utc(e.now).Format("2006-01-02 15:04:05.000000") + "+00'"
	must(e.sqldb.QueryRow(fmt.Sprintf("SELECT epoch_us(%s %s INTERVAL '%d months')", nowLit, sg, r.n)).Scan(&us))
	return e.relInstant(r) != us.Int64*1000
}

// lostTimes: the `time` values (ns) of the rows a single-table statement loses through pruning.
func (e *env) lostTimes(q *query, on, off []string) []int64 {
	if q.kind != "s" || len(on) == len(off) {
		return nil
	}
	have := map[string]int{}
	for _, r := range on {
		have[r]++
	}
	tOf := map[string]int64{}
	for _, f := range e.files {
		if f.tbl == "cpu" {
			for _, r := range f.rows {
				tOf[fmt.Sprint(r.rid)] = r.t * usNs
			}
		}
	}
	var out []int64
	for _, r := range off {
		if have[r] > 0 {
			have[r]--
			continue
		}
		if t, ok := tOf[r]; ok {
			out = append(out, t)
		}
	}
	return out
}

// classify names the class of a statement by the first feature (fixed priority) that takes it out of the class on
// which the Lean theorem C18_partial proves pruning exact; "exact-class" = inside that class.
func (e *env) classify(q *query, cached, newPart bool, tr *pruning.TimeRange, lost []int64) string {
	switch q.kind {
	case "j":
		return "join"
	case "u":
		return "union"
	case "b", "B":
		return "subquery"
	}
	p := q.p1
	if p.has('|') {
		return "or"
	}
	if p.has('!') {
		return "not"
	}
	suffix, month, leHour, unreadLit := false, false, false, false
	// an atom only puts the statement into its class when it actually SUPPLIED a bound of the extracted range
	instOf := func(r rhs) (int64, bool) {
		switch r.kind {
		case 'L':
			return r.l.inst, r.l.goOK
		case 'R':
			return e.relInstant(r), r.sp != 3
		}
		return 0, false
	}
	supplies := func(r rhs, endOnly bool) bool {
		in, ok := instOf(r)
		if !ok || tr == nil {
			return false
		}
		if endOnly {
			return tr.End.Equal(utc(in))
		}
		return tr.Start.Equal(utc(in))
	}
	// a comparison supplies the bound of its own direction (>=, > : start; <, <= : end; BETWEEN: lo start, hi end)
	atomSupplies := func(a *batom) bool {
		if a.between {
			return supplies(a.r, false) || supplies(a.r2, true)
		}
		return supplies(a.r, a.op == "lt" || a.op == "le")
	}
	p.atoms(func(a *batom) {
		if (a.col == 'e' || a.col == 's') && atomSupplies(a) {
			suffix = true
		}
		for i, r := range []rhs{a.r, a.r2} {
			if i == 1 && !a.between {
				break
			}
			if r.kind == 'R' && r.unit == "month" && r.sp != 3 && atomSupplies(a) && e.monthDiffers(r) {
				// known class: Go AddDate(0,n,0) overflows the day of month where DuckDB clamps it
				month = true
			}
			upper := (a.between && i == 1) || (!a.between && a.op == "le")
			if a.col == 't' && upper && supplies(r, true) {
				if in, _ := instOf(r); in%hourNs == 0 {
					leHour = true
				}
			}
			if r.kind == 'L' && !r.l.goOK {
				unreadLit = true
			}
		}
	})
	_ = unreadLit
	if suffix {
		return "suffix-column"
	}
	if month {
		return "relative-month"
	}
	var minT, maxT int64 = 1 << 62, -(1 << 62)
	atEnd := false
	times := lost
	if len(times) == 0 {
		// nothing lost: label by the stored rows (histogram only)
		for _, f := range e.files {
			if f.tbl == "cpu" {
				for _, r := range f.rows {
					times = append(times, r.t*usNs)
				}
			}
		}
	}
	for _, t := range times {
		if t < minT {
			minT = t
		}
		if t > maxT {
			maxT = t
		}
		if tr != nil && tr.End.Equal(utc(t)) {
			atEnd = true
		}
	}
	if tr != nil {
		if minT < e.minDate {
			return "pre-epoch-data"
		}
		if tr.Start.Equal(utc(e.defStart)) && minT < e.defStart {
			return "end-only-pre-default"
		}
		if tr.End.Equal(utc(e.now+e.soAdd)) && floorDiv(maxT, hourNs)*hourNs >= e.now+e.soAdd {
			return "start-only-future"
		}
	}
	if leHour && (atEnd || len(lost) == 0) {
		return "le-end-on-hour"
	}
	return "exact-class"
}

// doQuery runs one statement through the real path with pruning on and off, emits the op, runs the monitors.
func (e *env) doQuery(q *query, cached bool) {
	ctx := context.Background()
	sqlText := e.sqlOf(q)
	hdr := ""
	if q.hdr {
		hdr = e.dbName
	}
	newPart, compacted := e.newPartSinceQ, e.compactedSinceQ
	if !cached {
		e.qid++
		api.C18ResetCaches(e.qhOn)
	}
	api.C18ResetCaches(e.qhOff)
	rng, tr := e.rangeStr(sqlText)
	tx := time.Now()
	xOn, _ := api.C18Transform(e.qhOn, ctx, sqlText, hdr)
	xOff, _ := api.C18Transform(e.qhOff, ctx, sqlText, hdr)
	e.tXform += time.Since(tx)
	plans := e.plans(xOn)
	tx = time.Now()
	rowsOn, errOn := e.run(xOn)
	rowsOff, errOff := e.run(xOff)
	e.tRun += time.Since(tx)
	if offPlans := e.plans(xOff); offPlans["cpu"] != "ALL" {
		panic("harness: the pruning-off handler did not produce the unpruned glob: " + xOff)
	}
	if errOff != nil {
		panic(fmt.Sprintf("harness: generated statement fails on DuckDB without pruning: %v\n%s", errOff, xOff))
	}
	tbls := []string{"cpu"}
	if q.kind != "s" && q.kind != "u" {
		tbls = append(tbls, "mem")
	}
	var ps []string
	for _, t := range tbls {
		ps = append(ps, fmt.Sprintf("plan[%s]=%s", t, plans[t]))
	}
	np := fmt.Sprint(len(rowsOn))
	if errOn != nil {
		np = "err"
	}
	opName := "q"
	if cached {
		opName = "qc"
	}
	op := fmt.Sprintf("%s %d %s %d %d %s", opName, e.qid, q.kind, b01(q.hdr), b01(q.alias), q.p1.toks())
	if q.p2 != nil {
		op += " " + q.p2.toks()
	}
	e.c.Op(op, fmt.Sprintf("range=%s %s rows=%s/%d", rng, strings.Join(ps, " "), np, len(rowsOff)))
	e.logSQL(op, sqlText)
	e.newPartSinceQ, e.compactedSinceQ = false, false

	// monitor on the path generation itself: every stored file holding a row inside the extracted range (and not
	// before minPartitionDate) must be matched by one of the globs of a pruned plan, whatever the statement is
	if !cached && tr != nil && errOn == nil {
		for _, t := range tbls {
			if plans[t] == "ALL" || plans[t] == "" {
				continue
			}
			listed := map[string]bool{}
			for _, p := range strings.Split(plans[t], ",") {
				listed[p] = true
			}
			for _, f := range e.files {
				if f.tbl != t {
					continue
				}
				dir := utc(f.idx * hourNs).Format("2006/01/02/15")
				if f.day {
					dir = utc(f.idx * dayNs).Format("2006/01/02")
				}
				if listed[dir] {
					continue
				}
				for _, r := range f.rows {
					rt := utc(r.t * usNs)
					if !rt.Before(tr.Start) && rt.Before(tr.End) && r.t*usNs >= e.minDate {
						e.c.Fail("file-not-covered:GeneratePartitionPaths",
							fmt.Sprintf("the pruned path list for range [%s, %s) has no glob for partition %s/%s although it stores a row at %s",
								tr.Start.Format(time.RFC3339), tr.End.Format(time.RFC3339), t, dir, rt.Format(time.RFC3339Nano)),
							fmt.Sprintf("now=%d | db=%s | layout: %s | sql: %s | pruned plan: %s", e.now, e.dbName, e.layoutText(), sqlText, strings.Join(ps, " ")))
						break
					}
				}
			}
		}
	}

	class := e.classify(q, cached, newPart, tr, e.lostTimes(q, rowsOn, rowsOff))
	if class == "exact-class" && cached {
		// statements inside the exact class can only differ through a stale cached plan. Two distinct causes:
		// a compaction (which fires InvalidateCaches) since the statement was cached, or a partition created by
		// a flush (which nothing invalidates).
		if compacted {
			class = "cache-stale-after-compaction"
		} else if newPart {
			class = "cache-stale"
		}
	}
	pruned := plans["cpu"] != "ALL" || (len(tbls) > 1 && plans["mem"] != "ALL")
	e.c.Case(op+"|"+e.layoutText(), pruned)
	hist := "first run of the statement (caches reset)"
	if cached {
		hist = fmt.Sprintf("SAME statement issued again with warm caches; since it was cached: daily compaction + InvalidateCaches hook=%v, new partition by flush=%v (layout below = current files)", compacted, newPart && !compacted)
	}
	replay := fmt.Sprintf("now=%d (%s) | %s | db=%s hdr=%q | layout: %s | sql: %s | pruned plan: %s | rows pruned=%v unpruned=%v",
		e.now, utc(e.now).Format(time.RFC3339), hist, e.dbName, hdr, e.layoutText(), sqlText, strings.Join(ps, " "), rowsOn, rowsOff)
	switch {
	case errOn != nil:
		e.c.Tag("class:" + class + ":error")
		e.c.Fail("error-differs:"+class, "the pruned statement fails on DuckDB while the unpruned one succeeds: "+errOn.Error(), replay)
	case strings.Join(rowsOn, ";") != strings.Join(rowsOff, ";"):
		e.c.Tag("class:" + class + ":DIFFERS")
		e.c.Fail("rows-differ:"+class, fmt.Sprintf("partition pruning changed the result of a query (%d rows with pruning, %d without); class %s",
			len(rowsOn), len(rowsOff), class), replay)
	default:
		if pruned {
			e.c.Tag("class:" + class + ":same-pruned")
		} else {
			e.c.Tag("class:" + class + ":same-unpruned")
		}
	}
}

// ---------------------------------------------------------------- literal / predicate generators

func (e *env) mkLit(inst int64, f int, off int) lit {
	// the literal that denotes (as exactly as format f allows) the instant inst
	switch f {
	case 4, 10:
	default:
		off = 0
	}
	if f == 10 {
		off = off / 3600 * 3600
	}
	w := utc(inst + int64(off)*1e9)
	l := lit{fmt: f, y: w.Year(), mo: int(w.Month()), d: w.Day(), hh: w.Hour(), mi: w.Minute(), ss: w.Second(), off: off}
	l.frac = int64(w.Nanosecond()) / 1000 * 1000
	t, err := pruning.VerifParseDateTime(l.sql())
	if err == nil {
		l.goOK = true
		l.inst = t.UnixNano()
	}
	return l
}

var goFormats = []int{0, 1, 1, 1, 2, 3, 4, 4, 5, 6, 7, 8}

func (e *env) litRhs(inst int64) rhs {
	f := vh.Pick(e.r, goFormats)
	if e.garbage && e.r.Chance(8) {
		return rhs{kind: 'L', l: e.mkLit(inst, 11, 0)}
	}
	if e.r.Chance(6) {
		f = vh.Pick(e.r, []int{9, 10})
	}
	off := vh.Pick(e.r, []int{7200, -18000, 19800, -28800, 3600, -34200})
	return rhs{kind: 'L', l: e.mkLit(inst, f, off)}
}

func (e *env) relRhs(target int64) rhs {
	// NOW() ± INTERVAL close to target
	d := target - e.now
	plus := d >= 0
	if !plus {
		d = -d
	}
	type u struct {
		name string
		ns   int64
	}
	us := []u{{"second", 1e9}, {"minute", 60e9}, {"hour", hourNs}, {"hour", hourNs}, {"day", dayNs}, {"day", dayNs}, {"week", 7 * dayNs}, {"month", 30 * dayNs}}
	x := vh.Pick(e.r, us)
	n := int(d / x.ns)
	if e.r.Bool() {
		n++
	}
	if n > 99999 {
		n = 99999
	}
	return rhs{kind: 'R', plus: plus, n: n, unit: x.name, sp: vh.Pick(e.r, []int{0, 0, 1, 1, 1, 2, 3, 4})}
}

// instants worth comparing with: row times, their hour / day boundaries, small offsets.
func (e *env) instant() int64 {
	var pool []int64
	for _, f := range e.files {
		for _, r := range f.rows {
			pool = append(pool, r.t*usNs)
		}
	}
	if len(pool) == 0 {
		return e.now
	}
	t := vh.Pick(e.r, pool)
	switch e.r.Intn(10) {
	case 0, 1:
		return floorDiv(t, hourNs) * hourNs
	case 2:
		return floorDiv(t, hourNs)*hourNs + hourNs
	case 3:
		return floorDiv(t, dayNs) * dayNs
	case 4:
		return t + int64(e.r.Range(-3, 3))*hourNs
	case 5:
		return t + int64(e.r.Range(-90, 90))*60e9
	case 6:
		return t + 1000
	case 7:
		return t - 1000
	}
	return t
}

func (e *env) genAtom() batom {
	ops := []string{"ge", "gt", "lt", "le"}
	x := e.r.Intn(100)
	switch {
	case x < 42:
		return batom{col: 't', op: vh.Pick(e.r, ops), r: e.litRhs(e.instant())}
	case x < 54:
		return batom{col: 't', op: vh.Pick(e.r, ops), r: e.relRhs(e.instant())}
	case x < 62:
		a, b := e.instant(), e.instant()
		if a > b {
			a, b = b, a
		}
		return batom{between: true, col: 't', r: e.litRhs(a), r2: e.litRhs(b)}
	case x < 67:
		return batom{col: 'q', op: vh.Pick(e.r, ops), r: e.litRhs(e.instant())}
	case x < 75:
		return batom{col: 'e', op: vh.Pick(e.r, ops), r: e.litRhs(e.instant())}
	case x < 80:
		return batom{col: 's', op: vh.Pick(e.r, ops), r: e.litRhs(e.instant())}
	case x < 83:
		return batom{col: 'e', op: vh.Pick(e.r, ops), r: e.relRhs(e.instant())}
	case x < 86:
		a, b := e.instant(), e.instant()
		if a > b {
			a, b = b, a
		}
		return batom{between: true, col: 'e', r: e.litRhs(a), r2: e.litRhs(b)}
	}
	return batom{col: 'v', op: vh.Pick(e.r, ops), r: rhs{kind: 'N', k: int64(e.r.Range(0, 3))}}
}

func (e *env) genPred(depth int, orPct, notPct int) *pred {
	if depth == 0 || e.r.Chance(30) {
		return &pred{kind: 'A', a: e.genAtom()}
	}
	x := e.r.Intn(100)
	switch {
	case x < orPct:
		return &pred{kind: '|', p: e.genPred(depth-1, orPct, notPct), q: e.genPred(depth-1, orPct, notPct)}
	case x < orPct+notPct:
		return &pred{kind: '!', p: e.genPred(depth-1, orPct, notPct)}
	}
	return &pred{kind: '&', p: e.genPred(depth-1, orPct, notPct), q: e.genPred(depth-1, orPct, notPct)}
}

// ---------------------------------------------------------------- layouts

func (e *env) mkRows(lo, span int64, n int) []row {
	var rows []row
	for i := 0; i < n; i++ {
		var t int64
		switch e.r.Intn(6) {
		case 0:
			t = lo // exactly on the boundary
		case 1:
			t = lo + span - 1000 // last µs
		case 2:
			t = lo + int64(e.r.Intn(int(span/hourNs)))*hourNs // on an hour boundary
		default:
			t = lo + int64(e.r.Intn(int(span/1e9)))*1e9 + int64(e.r.Intn(2))*500000000
		}
		e.rid++
		c1 := t + int64(e.r.Range(-5, 5))*hourNs + int64(e.r.Intn(3600))*1e9
		c2 := t + int64(e.r.Range(-30, 30))*hourNs
		rows = append(rows, row{rid: e.rid, t: t / usNs, c1: c1 / usNs, c2: c2 / usNs, v: int64(e.r.Intn(4))})
	}
	return rows
}

// anchors: (data anchor, now)
type scen struct {
	name   string
	anchor int64
	now    int64
}

func ts(s string) int64 {
	t, err := time.Parse("2006-01-02 15:04:05", s)
	must(err)
	return t.UnixNano()
}

func (e *env) randomLayout() scen {
	scs := []scen{
		{"recent", ts("2024-03-15 10:00:00"), ts("2024-03-15 15:00:00")},
		{"recent", ts("2024-03-15 10:00:00"), ts("2024-03-16 09:20:11")},
		{"y2020", ts("2020-01-01 00:00:00"), ts("2020-01-02 12:00:00")},
		{"y2020", ts("2020-01-01 00:00:00"), ts("2020-01-03 06:30:00")},
		{"epoch", ts("1970-01-01 00:00:00"), ts("2024-03-15 15:00:00")},
		{"monthend", ts("2024-03-01 10:00:00"), ts("2024-03-31 12:00:00")},
		{"monthend", ts("2023-03-01 00:00:00"), ts("2023-03-30 23:00:00")},
		{"future", ts("2024-03-16 20:00:00"), ts("2024-03-15 15:00:00")},
		{"yearago", ts("2023-03-17 12:00:00"), ts("2024-03-15 15:00:00")},
		{"yearahead", ts("2025-03-12 12:00:00"), ts("2024-03-15 15:00:00")},
		{"yearago", ts("2022-06-03 00:00:00"), ts("2024-05-31 18:00:00")},
		{"recent", ts("2024-12-31 22:00:00"), ts("2025-01-01 02:00:00")},
	}
	sc := vh.Pick(e.r, scs)
	e.reset()
	e.setNow(sc.now)
	baseDay := floorDiv(sc.anchor, dayNs) - int64(e.r.Intn(2))
	for _, tbl := range []string{"cpu", "mem"} {
		nd := e.r.Range(1, 3)
		if tbl == "mem" {
			nd = e.r.Range(1, 2)
		}
		for d := 0; d < nd; d++ {
			day := baseDay + int64(d)
			if e.r.Chance(25) {
				// compacted day: one day-level file (sometimes leftover hour files as well)
				e.addFile(tbl, true, day, e.mkRows(day*dayNs, dayNs, e.r.Range(1, 4)))
				if e.r.Chance(70) {
					continue
				}
			}
			nh := e.r.Range(1, 4)
			for i := 0; i < nh; i++ {
				h := day*24 + int64(e.r.Intn(24))
				if sc.name == "epoch" || sc.name == "y2020" || e.r.Chance(30) {
					// cluster around the anchor hour
					h = floorDiv(sc.anchor, hourNs) + int64(e.r.Range(-3, 3))
				}
				e.addFile(tbl, false, h, e.mkRows(h*hourNs, hourNs, e.r.Range(1, 3)))
			}
		}
	}
	e.c.Tag("layout:" + sc.name)
	return sc
}

// ---------------------------------------------------------------- edge grid (one recipe per class)

func A(col byte, op string, r rhs) *pred { return &pred{kind: 'A', a: batom{col: col, op: op, r: r}} }
func And(p, q *pred) *pred               { return &pred{kind: '&', p: p, q: q} }
func Or(p, q *pred) *pred                { return &pred{kind: '|', p: p, q: q} }
func Not(p *pred) *pred                  { return &pred{kind: '!', p: p} }

func (e *env) L(s string, f int) rhs { return rhs{kind: 'L', l: e.mkLit(ts(s), f, 7200)} }
func num(k int64) rhs                { return rhs{kind: 'N', k: k} }

func (e *env) rowAt(s string, v int64) row {
	e.rid++
	t := ts(s) / usNs
	return row{rid: e.rid, t: t, c1: t, c2: t, v: v}
}

func hourIdx(s string) int64 { return floorDiv(ts(s), hourNs) }
func dayIdx(s string) int64  { return floorDiv(ts(s), dayNs) }

func (e *env) baseLayout() {
	e.reset()
	e.setNow(ts("2024-03-15 15:00:00"))
	e.addFile("cpu", true, dayIdx("2024-03-14 00:00:00"), []row{e.rowAt("2024-03-14 14:00:00", 1)})
	r0930 := e.rowAt("2024-03-15 09:30:00", 1)
	r0930.c1 += 2 * 3600e6 // event_time 11:30 on a row stored at 09:30
	e.addFile("cpu", false, hourIdx("2024-03-15 09:00:00"), []row{r0930})
	e.addFile("cpu", false, hourIdx("2024-03-15 10:00:00"), []row{e.rowAt("2024-03-15 10:00:00", 1), e.rowAt("2024-03-15 10:30:00", 2)})
	r1100 := e.rowAt("2024-03-15 11:00:00", 1)
	r1100.c2 -= 2 * 3600e6 // src_timestamp 09:00 on a row stored at 11:00
	e.addFile("cpu", false, hourIdx("2024-03-15 11:00:00"), []row{r1100})
	e.addFile("cpu", false, hourIdx("2024-03-15 12:00:00"), []row{e.rowAt("2024-03-15 12:00:00", 3)})
	e.addFile("mem", false, hourIdx("2024-03-15 09:00:00"), []row{e.rowAt("2024-03-15 09:00:00", 1)})
	e.addFile("mem", false, hourIdx("2024-03-15 11:00:00"), []row{e.rowAt("2024-03-15 11:30:00", 1), e.rowAt("2024-03-15 11:40:00", 3)})
}

func (e *env) edgeGrid() {
	q := func(kind string, p1, p2 *pred) {
		for _, hdr := range []bool{false, true} {
			e.doQuery(&query{kind: kind, hdr: hdr, p1: p1, p2: p2}, false)
		}
	}
	e.baseLayout()
	t1000, t1100, t1130, t1200 := "2024-03-15 10:00:00", "2024-03-15 11:00:00", "2024-03-15 11:30:00", "2024-03-15 12:00:00"
	// exact class: every Go-readable literal format, offsets, day files, quoted column, non-time conjuncts
	for _, f := range []int{0, 1, 2, 3, 4, 5, 6, 7, 8, 9, 10} {
		q("s", And(A('t', "ge", e.L(t1000, f)), A('t', "lt", e.L(t1130, f))), nil)
	}
	q("s", And(A('t', "gt", e.L("2024-03-14 13:00:00", 1)), And(A('t', "lt", e.L(t1130, 3)), A('v', "ge", num(1)))), nil)
	q("s", And(A('q', "ge", e.L(t1100, 1)), A('t', "ge", e.L(t1000, 1))), nil)
	q("s", A('t', "le", e.L("2024-03-15 11:10:00", 1)), nil)
	q("s", &pred{kind: 'A', a: batom{between: true, col: 't', r: e.L(t1000, 1), r2: e.L("2024-03-15 11:59:59", 1)}}, nil)
	q("s", A('t', "ge", rhs{kind: 'R', n: 5, unit: "hour"}), nil)
	q("s", And(A('t', "ge", rhs{kind: 'R', n: 2, unit: "day"}), A('t', "lt", rhs{kind: 'R', n: 200, unit: "minute"})), nil)
	// classes predicted false
	q("s", Or(A('t', "ge", e.L(t1100, 1)), A('v', "ge", num(0))), nil)
	q("s", Not(A('t', "ge", e.L(t1100, 1))), nil)
	q("s", And(A('t', "ge", e.L(t1000, 1)), A('t', "le", e.L(t1100, 1))), nil)
	q("s", &pred{kind: 'A', a: batom{between: true, col: 't', r: e.L(t1000, 1), r2: e.L(t1100, 1)}}, nil)
	q("s", And(A('e', "ge", e.L(t1100, 1)), A('t', "ge", e.L("2024-03-15 09:00:00", 1))), nil)
	q("s", And(A('s', "lt", e.L(t1100, 1)), A('t', "ge", e.L("2024-03-15 09:00:00", 1))), nil)
	q("b", A('t', "ge", e.L(t1100, 1)), A('v', "ge", num(0)))
	q("B", A('t', "ge", e.L(t1100, 1)), A('v', "ge", num(0)))
	q("j", A('t', "ge", e.L(t1100, 1)), nil)
	q("u", A('t', "ge", e.L(t1000, 1)), A('t', "lt", e.L(t1100, 1)))
	q("u", A('t', "lt", e.L(t1000, 1)), A('t', "ge", e.L(t1200, 1)))
	// start-only with data later than now+24h
	e.setNow(ts("2024-03-14 11:00:00"))
	q("s", A('t', "ge", e.L("2024-03-15 09:00:00", 1)), nil)
	e.setNow(ts("2024-03-15 15:00:00"))

	// cache: plan cached, then a flush creates a new hour partition, same statement again
	for _, hdr := range []bool{false, true} {
		e.baseLayout()
		qq := &query{kind: "s", hdr: hdr, p1: And(A('t', "ge", e.L(t1000, 1)), A('t', "lt", e.L("2024-03-15 14:00:00", 1)))}
		e.doQuery(qq, false)
		e.doQuery(qq, true) // nothing changed: cached plan still exact
		e.addFile("cpu", false, hourIdx("2024-03-15 10:00:00"), []row{e.rowAt("2024-03-15 10:45:00", 1)})
		e.doQuery(qq, true) // new file in a known partition: found by the glob
		e.setNow(e.now + 30e9)
		e.addFile("cpu", false, hourIdx("2024-03-15 13:00:00"), []row{e.rowAt("2024-03-15 13:05:00", 1)})
		e.doQuery(qq, true) // new partition, plan still cached
		e.setNow(e.now + 31e9)
		e.doQuery(qq, true) // TTL expired: recomputed
	}

	// daily compaction between two runs of the same statement (inside the cache TTL): hour files -> one day file,
	// hour files removed, the real InvalidateCaches hook fires. Variants: hour dirs emptied / a late raw file stays.
	for _, hdr := range []bool{false, true} {
		for _, keep := range []bool{false, true} {
			e.reset()
			e.setNow(ts("2024-03-16 02:00:00"))
			for _, h := range []string{"2024-03-15 10", "2024-03-15 11"} {
				e.addFile("cpu", false, hourIdx(h+":00:00"), []row{e.rowAt(h+":05:00", 1)})
				e.addFile("cpu", false, hourIdx(h+":00:00"), []row{e.rowAt(h+":30:00", 2), e.rowAt(h+":45:00", 1)})
			}
			e.addFile("cpu", false, hourIdx("2024-03-16 01:00:00"), []row{e.rowAt("2024-03-16 01:10:00", 1)})
			qq := &query{kind: "s", hdr: hdr, p1: And(A('t', "ge", e.L(t1000, 1)), A('t', "lt", e.L("2024-03-15 12:30:00", 1)))}
			e.doQuery(qq, false)
			e.setNow(e.now + 5e9)
			e.compactDay("cpu", dayIdx("2024-03-15 00:00:00"), keep)
			e.setNow(e.now + 5e9)
			e.doQuery(qq, true)
		}
	}

	// end-only with data before the default start
	e.reset()
	e.setNow(ts("2024-03-15 15:00:00"))
	e.addFile("cpu", false, hourIdx("2019-12-31 23:00:00"), []row{e.rowAt("2019-12-31 23:30:00", 1)})
	e.addFile("cpu", false, hourIdx("2020-01-01 00:00:00"), []row{e.rowAt("2020-01-01 00:30:00", 1)})
	q("s", A('t', "lt", e.L("2020-01-01 02:00:00", 1)), nil)
	q("s", And(A('t', "ge", e.L("2019-12-31 00:00:00", 1)), A('t', "lt", e.L("2020-01-01 02:00:00", 1))), nil)

	// data before minPartitionDate
	e.reset()
	e.setNow(ts("2024-03-15 15:00:00"))
	e.addFile("cpu", false, hourIdx("1969-12-31 23:00:00"), []row{e.rowAt("1969-12-31 23:30:00", 1)})
	e.addFile("cpu", false, hourIdx("1970-01-01 00:00:00"), []row{e.rowAt("1970-01-01 00:30:00", 1)})
	q("s", And(A('t', "ge", e.L("1969-12-31 00:00:00", 0)), A('t', "lt", e.L("1970-01-02 00:00:00", 0))), nil)

	// two-sided windows crossing 1..2 midnights whose END time-of-day is earlier than the START time-of-day, with the
	// daily-compacted (day-level) file on the first / middle / last day and hour files elsewhere
	for _, compacted := range []string{"2024-03-14", "2024-03-15", "2024-03-16"} {
		e.reset()
		e.setNow(ts("2024-03-17 12:00:00"))
		for _, d := range []string{"2024-03-14", "2024-03-15", "2024-03-16"} {
			if d == compacted {
				e.addFile("cpu", true, dayIdx(d+" 00:00:00"), []row{e.rowAt(d+" 03:10:00", 1), e.rowAt(d+" 23:20:00", 2)})
			} else {
				e.addFile("cpu", false, hourIdx(d+" 03:00:00"), []row{e.rowAt(d+" 03:10:00", 1)})
				e.addFile("cpu", false, hourIdx(d+" 23:00:00"), []row{e.rowAt(d+" 23:20:00", 2)})
			}
		}
		q("s", And(A('t', "ge", e.L("2024-03-14 22:00:00", 2)), A('t', "lt", e.L("2024-03-16 05:30:00", 2))), nil)
		q("s", And(A('t', "gt", e.L("2024-03-15 22:00:00", 1)), A('t', "lt", e.L("2024-03-16 05:30:00", 1))), nil)
		q("s", &pred{kind: 'A', a: batom{between: true, col: 't', r: e.L("2024-03-15 23:15:00", 1), r2: e.L("2024-03-16 03:45:00", 1)}}, nil)
		q("s", And(A('t', "ge", e.L("2024-03-14 05:30:00", 1)), A('t', "lt", e.L("2024-03-16 22:00:00", 1))), nil)
	}

	// calendar-month bounds where Go's AddDate and DuckDB agree (no day-of-month overflow): N months is NOT N*30 days.
	// rows sit between now-12 months and now-360 days, between now-1 month (31-day month) and now-30 days, and, for
	// upper bounds, between now+360 days and now+12 months
	e.reset()
	e.setNow(ts("2024-03-15 15:00:00"))
	e.addFile("cpu", false, hourIdx("2023-03-17 10:00:00"), []row{e.rowAt("2023-03-17 10:30:00", 1)})
	e.addFile("cpu", false, hourIdx("2023-09-16 08:00:00"), []row{e.rowAt("2023-09-16 08:30:00", 1)})
	e.addFile("cpu", false, hourIdx("2024-03-15 10:00:00"), []row{e.rowAt("2024-03-15 10:30:00", 1)})
	q("s", A('t', "ge", rhs{kind: 'R', n: 12, unit: "month"}), nil)
	q("s", A('t', "gt", rhs{kind: 'R', n: 6, unit: "month", sp: 1}), nil)
	q("s", And(A('t', "ge", rhs{kind: 'R', n: 24, unit: "month"}), A('t', "le", rhs{kind: 'R', n: 2, unit: "week"})), nil)
	e.reset()
	e.setNow(ts("2024-03-15 15:00:00"))
	e.addFile("cpu", false, hourIdx("2025-03-01 10:00:00"), []row{e.rowAt("2025-03-01 10:30:00", 1)})
	e.addFile("cpu", false, hourIdx("2025-03-12 10:00:00"), []row{e.rowAt("2025-03-12 10:30:00", 1)})
	q("s", And(A('t', "ge", e.L("2025-02-20 00:00:00", 1)), A('t', "lt", rhs{kind: 'R', plus: true, n: 12, unit: "month", sp: 1})), nil)
	e.reset()
	e.setNow(ts("2024-01-15 15:00:00"))
	e.addFile("cpu", false, hourIdx("2023-12-15 20:00:00"), []row{e.rowAt("2023-12-15 20:30:00", 1)})
	e.addFile("cpu", false, hourIdx("2024-01-10 10:00:00"), []row{e.rowAt("2024-01-10 10:30:00", 1)})
	q("s", A('t', "ge", rhs{kind: 'R', n: 1, unit: "month"}), nil)
	e.reset()
	e.setNow(ts("2024-02-29 06:00:00"))
	e.addFile("cpu", false, hourIdx("2023-03-01 10:00:00"), []row{e.rowAt("2023-03-01 10:30:00", 1)})
	e.addFile("cpu", false, hourIdx("2024-02-20 10:00:00"), []row{e.rowAt("2024-02-20 10:30:00", 1)})
	q("s", A('t', "ge", rhs{kind: 'R', n: 12, unit: "month"}), nil)

	// NOW() - INTERVAL 'n month' at a month end
	e.reset()
	e.setNow(ts("2024-03-31 12:00:00"))
	e.addFile("cpu", false, hourIdx("2024-03-01 10:00:00"), []row{e.rowAt("2024-03-01 10:30:00", 1)})
	e.addFile("cpu", false, hourIdx("2024-03-02 13:00:00"), []row{e.rowAt("2024-03-02 13:30:00", 1)})
	q("s", And(A('t', "ge", rhs{kind: 'R', n: 1, unit: "month"}), A('t', "lt", e.L("2024-03-02 14:00:00", 2))), nil)
	q("s", A('t', "gt", rhs{kind: 'R', n: 1, unit: "month"}), nil)
}

// ---------------------------------------------------------------- function-level ops

func (e *env) opLit(l lit) {
	goS := "err"
	if t, err := pruning.VerifParseDateTime(l.sql()); err == nil {
		goS = bigNs(t)
	}
	dbS := "err"
	var us sql.NullInt64
	if err := e.sqldb.QueryRow(fmt.Sprintf("SELECT epoch_us(CAST('%s' AS TIMESTAMPTZ))", l.sql())).Scan(&us); err == nil && us.Valid {
		dbS = new(big.Int).Mul(big.NewInt(us.Int64), big.NewInt(1000)).String()
	}
	e.c.Op("lit "+strings.TrimPrefix(l.toks(), "L "), "go="+goS+" db="+dbS)
	if goS != dbS && goS != "err" && dbS != "err" {
		e.c.Tag("lit:go-differs-from-duckdb")
	}
}

func (e *env) opRel(plus bool, n int, unit string) {
	sg := "-"
	if plus {
		sg = "+"
	}
	sp := e.r.Intn(5)
	u := unitSpell(unit, sp)
	t, err := pruning.VerifEvaluateRelativeTime(fmt.Sprint(n), u, plus)
	goS := "err"
	if err == nil {
		goS = bigNs(t)
	}
	var us sql.NullInt64
	nowLit := "TIMESTAMPTZ '" + utc(e.now).Format("2006-01-02 15:04:05.000000") + "+00'"
	must(e.sqldb.QueryRow(fmt.Sprintf("SELECT epoch_us(%s %s INTERVAL '%d %s')", nowLit, sg, n, u)).Scan(&us))
	e.c.Op(fmt.Sprintf("rel %s %d %s %d", sg, n, unit, b01(sp == 3)), fmt.Sprintf("go=%s db=%d", goS, us.Int64*1000))
	if err != nil {
		e.c.Tag("rel:unit-with-capital-S-dropped")
	} else if t.UnixNano() != us.Int64*1000 {
		e.c.Tag("rel:go-differs-from-duckdb:" + unit)
	}
}

func hashStr(h uint64, s string) uint64 {
	for i := 0; i < len(s); i++ {
		h = (h*131 + uint64(s[i])) % 1000000007
	}
	return h
}

func (e *env) opPaths(s, en time.Time) {
	base := "/data"
	e.pathSeq++
	incl := e.pathSeq%3 == 0 // every third range with TimeRange.EndInclusive
	ps := e.pr.GeneratePartitionPaths(context.Background(), base, "d", "m", &pruning.TimeRange{Start: s, End: en, EndInclusive: incl})
	op := fmt.Sprintf("paths %s %s %d", bigNs(s), bigNs(en), b01(incl))
	if ps == nil {
		e.c.Op(op, "nil")
		e.c.Tag("paths:nil")
		return
	}
	var hs, ds []string
	for _, p := range ps {
		rel := strings.TrimSuffix(strings.TrimPrefix(p, base+"/d/m/"), "/*.parquet")
		if strings.Count(rel, "/") == 3 {
			hs = append(hs, rel)
		} else {
			ds = append(ds, rel)
		}
	}
	if len(hs) == 0 {
		e.c.Op(op, "n=0")
		e.c.Tag("paths:empty")
		return
	}
	sort.Strings(ds)
	h := uint64(7)
	for _, x := range hs {
		h = hashStr(h, x)
	}
	for _, x := range ds {
		h = hashStr(h, x)
	}
	df, dl := "-", "-"
	if len(ds) > 0 {
		df, dl = ds[0], ds[len(ds)-1]
	}
	e.c.Op(op, fmt.Sprintf("n=%d d=%d first=%s last=%s dfirst=%s dlast=%s hash=%d", len(hs), len(ds), hs[0], hs[len(hs)-1], df, dl, h))
	e.c.Tag("paths:some")
}

func (e *env) functionLevel(n int) {
	e.setNow(ts("2024-03-31 12:00:00"))
	// literals: every format on a grid of instants and offsets, plus odd years
	insts := []int64{ts("2024-03-15 10:00:00"), ts("2024-03-15 23:59:59") + 999999000, ts("1969-12-31 23:00:00"), ts("2020-01-01 00:00:00"),
		ts("2024-02-29 12:34:56") + 123456000, ts("1900-01-01 00:00:00"), ts("2199-12-31 23:59:59")}
	for f := 0; f <= 10; f++ {
		e.opLit(lit{fmt: f, y: 1, mo: 1, d: 1})
		e.opLit(lit{fmt: f, y: 9999, mo: 12, d: 31, hh: 23, mi: 59, ss: 59, frac: 999999000})
	}
	for _, in := range insts {
		for f := 0; f <= 11; f++ {
			for _, off := range []int{7200, -19800} {
				e.opLit(e.mkLit(in, f, off))
				if f != 4 && f != 10 {
					break
				}
			}
		}
	}
	for i := 0; i < n; i++ {
		in := ts("1960-01-01 00:00:00") + int64(e.r.Intn(80*365*24*3600))*1e9 + int64(e.r.Intn(1000000))*1000
		e.opLit(e.mkLit(in, e.r.Intn(12), vh.Pick(e.r, []int{0, 3600, -3600, 19800, -34200, 50400})))
	}
	// relative expressions at month ends / leap days / plain days
	for _, now := range []string{"2024-03-31 12:00:00", "2024-01-31 00:00:00", "2023-03-30 23:59:59", "2024-02-29 06:00:00", "2024-05-31 18:00:00", "2024-03-15 15:00:00", "2024-12-31 23:00:00"} {
		e.setNow(ts(now))
		for _, u := range []string{"second", "minute", "hour", "day", "week", "month"} {
			for _, k := range []int{1, 2, 13} {
				e.opRel(false, k, u)
				e.opRel(true, k, u)
			}
		}
	}
	for i := 0; i < n; i++ {
		e.setNow(ts("2021-01-01 00:00:00") + int64(e.r.Intn(5*365*24*3600))*1e9)
		e.opRel(e.r.Bool(), e.r.Range(0, 400), vh.Pick(e.r, []string{"second", "minute", "hour", "day", "week", "month"}))
	}
	// paths: edges (clamp, cap thresholds, inverted / empty ranges, saturation quirk) then random
	T := func(s string) time.Time {
		t, err := time.Parse("2006-01-02 15:04:05", s)
		must(err)
		return t
	}
	e.opPaths(T("2024-03-15 10:30:00"), T("2024-03-15 12:30:00"))
	e.opPaths(T("2024-03-15 10:00:00"), T("2024-03-15 12:00:00"))
	e.opPaths(T("2024-03-15 10:00:00"), T("2024-03-15 10:00:00"))
	e.opPaths(T("2024-03-15 10:00:01"), T("2024-03-15 10:00:02"))
	e.opPaths(T("2024-03-15 12:00:00"), T("2024-03-15 10:00:00"))
	e.opPaths(T("1960-01-01 00:00:00"), T("1970-01-02 00:00:00"))
	e.opPaths(T("1960-01-01 00:00:00"), T("1969-01-02 00:00:00"))
	e.opPaths(T("0001-01-01 00:00:00"), T("1970-01-01 00:00:01"))
	e.opPaths(T("1969-12-31 23:30:00"), T("1970-01-01 01:00:00"))
	e.opPaths(T("2024-12-31 22:00:00"), T("2025-01-01 02:00:00"))
	e.opPaths(T("2024-02-28 22:00:00"), T("2024-03-01 02:00:00"))
	// cap: hourly + hourly/24 + 1 > 50000  <=> hourly >= 48000
	for _, hrs := range []int64{47998, 47999, 48000, 48001} {
		s := T("2015-01-01 00:00:00")
		e.opPaths(s, s.Add(time.Duration(hrs)*time.Hour))
		e.opPaths(s, s.Add(time.Duration(hrs)*time.Hour-time.Nanosecond))
		e.opPaths(s, s.Add(time.Duration(hrs)*time.Hour+time.Nanosecond))
	}
	e.opPaths(T("1970-01-01 00:00:00"), T("2262-01-01 00:00:00"))
	if e.c.Thorough() {
		e.opPaths(T("1970-01-01 00:00:00"), T("2270-01-01 00:00:00")) // Sub saturates: the cap does not fire (quirk, 2.6M paths)
	}
	e.opPaths(T("0001-01-01 00:00:00"), T("2024-01-01 00:00:00"))
	for i := 0; i < n; i++ {
		s := ts("1965-01-01 00:00:00") + int64(e.r.Intn(70*365*24*3600))*1e9 + int64(e.r.Intn(1000000000))
		span := int64(e.r.Intn(400)) * hourNs
		switch e.r.Intn(6) {
		case 0:
			span = int64(e.r.Intn(7200)) * 1e9
		case 1:
			span = int64(e.r.Intn(60000)) * hourNs
		case 2:
			span = -int64(e.r.Intn(100)) * hourNs
		}
		en := s + span + int64(e.r.Intn(3))*int64(e.r.Intn(1000000000))
		if e.r.Chance(30) {
			s = floorDiv(s, hourNs) * hourNs
		}
		if e.r.Chance(30) {
			en = floorDiv(en, hourNs) * hourNs
		}
		e.opPaths(utc(s), utc(en))
	}
}

func (e *env) opExt(p *pred) {
	st := &style{r: e.r}
	sqlText := "SELECT * FROM cpu WHERE " + st.pred(p, true)
	if e.r.Chance(30) {
		sqlText += vh.Pick(e.r, []string{" ORDER BY time", " LIMIT 10", " GROUP BY v"})
	}
	rng, _ := e.rangeStr(sqlText)
	e.c.Op("ext "+p.toks(), rng)
	e.logSQL("ext "+p.toks(), sqlText)
	e.c.Case("ext|"+p.toks(), rng != "none")
	if rng == "none" {
		e.c.Tag("ext:none")
	} else {
		e.c.Tag("ext:range")
	}
}

func main() {
	os.Setenv("TZ", "UTC")
	c := vh.Start()
	e := newEnv(c)
	defer e.close()
	nLayouts, perLayout, nFunc := 24, 8, 80
	if c.Thorough() {
		nLayouts, perLayout, nFunc = 110, 11, 500
	}
	if c.N > 0 {
		nLayouts = c.N
	}
	// self-check of the fixture writer: the instant written is the instant read
	{
		e.reset()
		e.setNow(ts("2024-03-15 15:00:00"))
		e.addFile("cpu", false, hourIdx("2024-03-15 10:00:00"), []row{e.rowAt("2024-03-15 10:30:00", 1)})
		var us int64
		var typ string
		must(e.sqldb.QueryRow(fmt.Sprintf("SELECT epoch_us(time), typeof(time) FROM read_parquet('%s/%s/cpu/**/*.parquet')", e.root, e.dbName)).Scan(&us, &typ))
		if us*1000 != ts("2024-03-15 10:30:00") || typ != "TIMESTAMP WITH TIME ZONE" {
			panic(fmt.Sprintf("fixture self-check failed: %d %s", us, typ))
		}
	}
	t0 := time.Now()
	e.functionLevel(nFunc)
	fmt.Fprintf(os.Stderr, "function-level ops: %v\n", time.Since(t0))
	t0 = time.Now()
	e.edgeGrid()
	fmt.Fprintf(os.Stderr, "edge grid: %v\n", time.Since(t0))
	t0 = time.Now()
	defer func() {
		fmt.Fprintf(os.Stderr, "random layouts: %v (total: copy %v, transform %v, duckdb queries %v)\n", time.Since(t0), e.tCopy, e.tXform, e.tRun)
	}()
	for i := 0; i < nLayouts; i++ {
		e.randomLayout()
		for j := 0; j < perLayout; j++ {
			// extraction-only ops on a wider grammar (unreadable literals included)
			if j%3 == 0 {
				e.garbage = true
				e.opExt(e.genPred(3, 15, 10))
				e.garbage = false
			}
			orPct, notPct := 0, 0
			switch e.r.Intn(10) {
			case 0, 1:
				orPct, notPct = 20, 10
			case 2:
				orPct = 25
			case 3:
				notPct = 20
			}
			q := &query{kind: "s", hdr: e.r.Bool(), alias: e.r.Chance(25), order: e.r.Chance(20), p1: e.genPred(e.r.Range(1, 3), orPct, notPct)}
			switch e.r.Intn(12) {
			case 0:
				q.kind, q.alias = "j", false
			case 1:
				q.kind, q.alias = "u", false
				q.p2 = e.genPred(2, orPct, notPct)
			case 2:
				q.kind, q.alias = vh.Pick(e.r, []string{"b", "B"}), false
				q.p2 = e.genPred(1, 0, 0)
			}
			if j == 1 {
				// a two-sided window with independent start / end time-of-day crossing 1..3 midnights
				var days []int64
				for _, f := range e.files {
					if f.tbl == "cpu" {
						if f.day {
							days = append(days, f.idx)
						} else {
							days = append(days, floorDiv(f.idx, 24))
						}
					}
				}
				d1 := vh.Pick(e.r, days)
				d0 := d1 - int64(e.r.Range(1, 3))
				ph0 := int64(e.r.Range(12*60, 24*60-1)) * 60e9
				ph1 := int64(e.r.Range(1, 11*60)) * 60e9
				lo, hi := e.litRhs(d0*dayNs+ph0), e.litRhs(d1*dayNs+ph1)
				q = &query{kind: "s", hdr: e.r.Bool(), p1: And(A('t', vh.Pick(e.r, []string{"ge", "gt"}), lo), A('t', vh.Pick(e.r, []string{"lt", "le"}), hi))}
				if e.r.Chance(30) {
					q.p1 = &pred{kind: 'A', a: batom{between: true, col: 't', r: lo, r2: hi}}
				}
				e.c.Tag("gen:midnight-window")
			}
			e.doQuery(q, false)
			if e.r.Chance(15) {
				// the same statement again with warm caches, possibly after a flush and some time
				if e.r.Bool() {
					sc := e.files[e.r.Intn(len(e.files))]
					h := sc.idx
					if sc.day {
						h = sc.idx*24 + int64(e.r.Intn(24))
					} else {
						h += int64(e.r.Range(-2, 2))
					}
					e.addFile("cpu", false, h, e.mkRows(h*hourNs, hourNs, 1))
				}
				if e.r.Chance(35) {
					var days []int64
					for _, f := range e.files {
						if f.tbl == "cpu" && !f.day {
							days = append(days, floorDiv(f.idx, 24))
						}
					}
					if len(days) > 0 {
						e.compactDay("cpu", vh.Pick(e.r, days), e.r.Bool())
					}
				}
				e.setNow(e.now + int64(e.r.Intn(90))*1e9)
				e.doQuery(q, true)
			}
		}
	}
	c.Finish("nontrivial = statement whose read plan is really pruned (explicit partition list for at least one table) / extraction op with a non-nil range")
}
