//go:build verif

// C06 boundary-size stage. Built with tag c06small: the overlay defines wal.MaxWALPayloadSize = 4096
// (go/hooks/wal_c06/limit_small.go), everything else is the real code. For AppendRaw and
// AppendRawWithMeta × database-name lengths × written sizes limit-8..limit+8 (and caller sizes
// limit-8..limit+8): an append that is ACCEPTED must be readable back, and the entries written
// before and after it must survive, through Reader.ReadAll and through Recovery.
package main

import (
	"bytes"
	"context"
	"fmt"
	"os"
	"path/filepath"
	"strings"

	"github.com/Basekick-Labs/msgpack/v6"
	"github.com/basekick-labs/arc/internal/verif/vh"
	"github.com/basekick-labs/arc/internal/wal"
	"github.com/rs/zerolog"
)

func mp(v interface{}) []byte {
	var buf bytes.Buffer
	enc := msgpack.NewEncoder(&buf)
	enc.SetSortMapKeys(true)
	if err := enc.Encode(v); err != nil {
		panic(err)
	}
	return buf.Bytes()
}

func col(m string, k int) []byte {
	return mp(map[string]interface{}{"m": m, "columns": map[string]interface{}{"v": []interface{}{bytes.Repeat([]byte{0x5a}, k)}}})
}

// a decodable columnar payload of exactly n bytes (n well above 300)
func colOfLen(n int) []byte {
	base := len(col("m", 300))
	return col("m", 300+n-base)
}

func main() {
	c := vh.Start()
	nop := zerolog.Nop()
	lim := wal.MaxWALPayloadSize
	scratch := "/dev/shm"
	if st, err := os.Stat(scratch); err != nil || !st.IsDir() {
		scratch = os.TempDir()
	}
	scratch, _ = os.MkdirTemp(scratch, "verif-c06s-")
	defer os.RemoveAll(scratch)
	type cs struct {
		api  string
		db   string
		size int // caller payload length
	}
	var cases []cs
	for d := -8; d <= 8; d++ {
		cases = append(cases, cs{"AppendRaw", "", lim + d})
		for _, dbl := range []int{0, 1, 5, 255} {
			db := strings.Repeat("d", dbl)
			cases = append(cases, cs{"AppendRawWithMeta", db, lim - 3 - dbl + d}) // written size limit+d
			cases = append(cases, cs{"AppendRawWithMeta", db, lim + d})           // caller size limit+d
		}
	}
	for i, k := range cases {
		dir, _ := os.MkdirTemp(scratch, "case")
		w, err := wal.NewWriter(&wal.WriterConfig{WALDir: dir, SyncMode: wal.SyncModeAsync, Logger: nop})
		if err != nil {
			panic(err)
		}
		x := colOfLen(k.size)
		if len(x) != k.size {
			panic(fmt.Sprintf("payload construction: want %d got %d", k.size, len(x)))
		}
		if err := w.AppendRawWithMeta("a", col("a1", 1)); err != nil {
			panic(err)
		}
		var xerr error
		if k.api == "AppendRaw" {
			xerr = w.AppendRaw(x)
		} else {
			xerr = w.AppendRawWithMeta(k.db, x)
		}
		if err := w.AppendRaw(col("b1", 2)); err != nil {
			panic(err)
		}
		path := w.CurrentFile()
		w.Close()
		want := []string{"a1", "b1"}
		written := k.size
		if k.api == "AppendRawWithMeta" {
			written = 3 + len(k.db) + k.size
		}
		if xerr == nil {
			want = []string{"a1", fmt.Sprintf("m/%d", k.size-len(col("m", 300))+300), "b1"}
		}
		name := func(m string, cols map[string][]interface{}) string {
			if m != "m" {
				return m
			}
			if v, ok := cols["v"]; ok && len(v) == 1 {
				if b, ok := v[0].([]byte); ok {
					return fmt.Sprintf("m/%d", len(b))
				}
			}
			return "m/?"
		}
		var got []string
		line := vh.Guard(func() string {
			es, err := wal.NewReader(path, nop).ReadAll()
			if err != nil {
				return "err:" + err.Error()
			}
			for _, e := range es {
				if e.ColumnarData != nil {
					got = append(got, name(e.ColumnarData.Measurement, e.ColumnarData.Columns))
				} else {
					got = append(got, "rows")
				}
			}
			return "ok"
		})
		desc := fmt.Sprintf("limit MaxWALPayloadSize=%d (verif build); appends: AppendRawWithMeta(\"a\", a1); %s(db=%q, %d caller bytes => %d written bytes) -> err=%v; AppendRaw(b1); Close", lim, k.api, k.db, k.size, written, xerr)
		if strings.Join(got, ",") != strings.Join(want, ",") {
			key := "accepted-entry-unreadable:size-limit:" + k.api
			c.Fail(key, fmt.Sprintf("%s acknowledged a payload whose written length %d exceeds the reader's limit %d (or a later entry was hidden): ReadAll (%s) returned %v, expected %v", k.api, written, lim, line, got, want),
				desc+fmt.Sprintf("; Reader.ReadAll -> %s %v; expected %v", line, got, want))
		}
		var rgot []string
		rline := vh.Guard(func() string {
			_, err := wal.NewRecovery(dir, nop).RecoverWithOptions(context.Background(),
				func(ctx context.Context, records []map[string]interface{}) error { rgot = append(rgot, "rows"); return nil },
				&wal.RecoveryOptions{ColumnarCallback: func(ctx context.Context, db, m string, cols map[string][]interface{}) error {
					rgot = append(rgot, name(m, cols))
					return nil
				}})
			if err != nil {
				return "err:" + err.Error()
			}
			return "ok"
		})
		if strings.Join(rgot, ",") != strings.Join(want, ",") {
			c.Fail("complete-entry-hidden:size-limit:Recover", fmt.Sprintf("recovery (%s) replayed %v, expected %v", rline, rgot, want),
				desc+fmt.Sprintf("; RecoverWithOptions -> %s %v; expected %v", rline, rgot, want))
		}
		acc := "rejected"
		if xerr == nil {
			acc = "accepted"
		}
		c.Tag(k.api + ":" + acc)
		c.Case(fmt.Sprintf("%d:%s:%d:%d", i, k.api, len(k.db), k.size), xerr != nil)
		os.RemoveAll(filepath.Clean(dir))
	}
	c.Finish("cases = (API, database-name length, caller payload size) on the grid written size limit-8..limit+8 and caller size limit-8..limit+8 with the size limit lowered to 4096 by the verif build; for each: entry before, boundary append, entry after; accepted ⇒ readable back and neighbours survive, through ReadAll and Recovery; non-trivial = boundary append rejected")
}
