//go:build verif

// C26 correspondence harness: drives the real validators + NonceCache of
// internal/cluster/security under the virtual clock, with the (tolerance, ttl) pairs that factgen
// read from the call sites of the current source.
package main

import (
	"errors"
	"fmt"
	"strings"
	"time"

	"github.com/basekick-labs/arc/internal/cluster/security"
	"github.com/basekick-labs/arc/internal/verif/vh"
	"github.com/basekick-labs/arc/internal/verifclock"
)

const secret = "verif-shared-secret"
const cluster = "c1"

type site struct {
	name  string
	kind  string
	tolNs int64
	ttlNs int64
}

func kindOf(name string) string {
	switch {
	case strings.HasPrefix(name, "cache-invalidate"):
		return "cacheinv"
	case strings.Contains(name, "ValidateForwardHMAC"):
		return "forward"
	case strings.Contains(name, "ValidateReplicateSyncHMAC"):
		return "sync"
	case strings.Contains(name, "ValidateSyncFileHMACWithReplay"):
		return "edgefile"
	case strings.Contains(name, "ValidateSyncReconcileHMACWithReplay"):
		return "edgerecon"
	}
	return "unknown"
}

// deliver runs validate-then-track exactly as the call site of `kind` does and classifies the result.
func deliver(kind string, nc *security.NonceCache, tol time.Duration, sender, nonce string, ts int64, macOK bool, respell bool) string {
	payload := []byte(`{"cmd":1}`)
	var mac string
	var err error
	switch kind {
	case "cacheinv":
		mac = security.ComputeCacheInvalidateHMAC(secret, nonce, sender, cluster, ts)
	case "forward":
		mac = security.ComputeForwardHMAC(secret, nonce, sender, cluster, payload, ts)
	case "sync":
		mac = security.ComputeReplicateSyncHMAC(secret, nonce, sender, cluster, 7, ts)
	case "edgefile":
		mac, err = security.ComputeSyncFileHMAC(secret, nonce, sender, "hub", "db/m/f.parquet", strings.Repeat("ab", 32), ts)
	case "edgerecon":
		mac, err = security.ComputeSyncReconcileHMAC(secret, nonce, sender, "hub", payload, ts)
	}
	if err != nil {
		return "error:" + err.Error()
	}
	if respell {
		// same MAC bytes, different hex spelling: every validator hex-decodes before comparing
		mac = strings.ToUpper(mac)
	}
	if !macOK {
		if mac[0] == '0' {
			mac = "1" + mac[1:]
		} else {
			mac = "0" + mac[1:]
		}
	}
	classify := func(e error) string {
		if e == nil {
			return ""
		}
		s := e.Error()
		if errors.Is(e, security.ErrSyncAuthReplay) {
			return "replay"
		}
		if errors.Is(e, security.ErrSyncAuthExpired) || strings.Contains(s, "expired") {
			return "expired"
		}
		return "badmac"
	}
	switch kind {
	case "cacheinv":
		if e := security.ValidateCacheInvalidateHMAC(secret, nonce, sender, cluster, ts, mac, tol); e != nil {
			return classify(e)
		}
		if !nc.Track(sender, nonce) {
			return "replay"
		}
	case "forward":
		if e := security.ValidateForwardHMAC(secret, nonce, sender, cluster, payload, ts, mac, tol); e != nil {
			return classify(e)
		}
		if !nc.Track(sender, nonce) {
			return "replay"
		}
	case "sync":
		if e := security.ValidateReplicateSyncHMAC(secret, nonce, sender, cluster, 7, ts, mac, tol); e != nil {
			return classify(e)
		}
		if !nc.Track(sender, nonce) {
			return "replay"
		}
	case "edgefile":
		if e := security.ValidateSyncFileHMACWithReplay(nc, secret, nonce, sender, "hub", "db/m/f.parquet", strings.Repeat("ab", 32), ts, mac, tol); e != nil {
			return classify(e)
		}
	case "edgerecon":
		if e := security.ValidateSyncReconcileHMACWithReplay(nc, secret, nonce, sender, "hub", payload, ts, mac, tol); e != nil {
			return classify(e)
		}
	}
	return "accepted"
}

type sent struct {
	sender, nonce string
	ts            int64
}

func main() {
	c := vh.Start()
	var sites []site
	for _, s := range c.Facts["sites"].([]any) {
		m := s.(map[string]any)
		st := site{name: m["name"].(string), tolNs: int64(m["tol_ns"].(float64)), ttlNs: int64(m["ttl_ns"].(float64))}
		st.kind = kindOf(st.name)
		if st.kind == "unknown" {
			fmt.Println("unknown site kind:", st.name)
			continue
		}
		sites = append(sites, st)
	}
	r := vh.NewRand(c.Seed)
	nCases := c.N
	if nCases == 0 {
		nCases = 300
		if c.Thorough() {
			nCases = 6000
		}
	}
	const sec = int64(time.Second)
	base := int64(1_700_000_000) * sec

	runCase := func(st site, evs []struct {
		now           int64
		sender, nonce string
		ts            int64
		macOK         bool
		respell       bool
	}) {
		verifclock.Set(base)
		nc := security.NewNonceCache(time.Duration(st.ttlNs)) // lastEvict = virtual base
		tolSec := int64(time.Duration(st.tolNs).Seconds())
		var canon strings.Builder
		hdr := fmt.Sprintf("new %s %d %d %d", st.kind, st.ttlNs, tolSec, base)
		c.Op(hdr, "ok")
		canon.WriteString(hdr + ";")
		accepted := map[sent]int64{}
		nontriv := false
		for _, e := range evs {
			verifclock.Set(e.now)
			v := deliver(st.kind, nc, time.Duration(st.tolNs), e.sender, e.nonce, e.ts, e.macOK, e.respell)
			mo := 0
			if e.macOK {
				mo = 1
				if e.respell {
					mo = 2 // valid MAC, hex re-spelled in upper case
				}
			}
			op := fmt.Sprintf("msg %s %d %s %s %d %d", st.kind, e.now, e.sender, e.nonce, e.ts, mo)
			c.Op(op, fmt.Sprintf("%s len=%d", v, nc.Len()))
			canon.WriteString(op + ";")
			c.Tag(st.kind + ":" + v)
			if v != "accepted" {
				nontriv = true
			}
			if v == "accepted" {
				k := sent{e.sender, e.nonce, e.ts}
				if t1, dup := accepted[k]; dup && e.macOK {
					c.Fail("replay-accepted:"+st.name,
						fmt.Sprintf("%s message (sender=%s nonce=%s ts=%d) accepted at now=%d and again at now=%d (tolerance %ds, nonce ttl %dns)",
							st.kind, e.sender, e.nonce, e.ts, t1, e.now, tolSec, st.ttlNs),
						canon.String())
				}
				accepted[k] = e.now
			}
			if (v == "accepted" || v == "replay") && e.macOK {
				// window clause: an accepted/tracked message must be inside the tolerance
				d := e.now/sec - e.ts
				if e.now < 0 {
					d = -1 << 62
				}
				if d < 0 {
					d = -d
				}
				if d > tolSec {
					c.Fail("stale-accepted:"+st.name, fmt.Sprintf("%s message with drift %ds > tolerance %ds passed the freshness check", st.kind, d, tolSec), canon.String())
				}
			}
		}
		c.Case(canon.String(), nontriv)
	}

	type ev = struct {
		now           int64
		sender, nonce string
		ts            int64
		macOK         bool
		respell       bool
	}
	// (1) the edge grid of the property's quantifier: signed offset × first receipt × replay time.
	for _, st := range sites {
		tolSec := int64(time.Duration(st.tolNs).Seconds())
		offs := []int64{-tolSec - 1, -tolSec, -tolSec + 1, -1, 0, 1, tolSec - 1, tolSec, tolSec + 1}
		subs := []int64{0, 1, sec / 2, sec - 1}
		gaps := []int64{0, 1, st.ttlNs - 1, st.ttlNs, st.ttlNs + 1, 2*tolSec*sec - 1, 2 * tolSec * sec, 2*tolSec*sec + sec - 1, 2*tolSec*sec + sec, 2*tolSec*sec + sec + 1}
		i := 0
		for _, off := range offs {
			for _, sub := range subs {
				for _, gap := range gaps {
					i++
					if !c.Thorough() && i%3 != int(c.Seed%3) {
						continue
					}
					t1 := base + 1000*sec + sub
					ts := t1/sec + off
					nonce := fmt.Sprintf("g%d", i)
					evs := []ev{{t1, "nodeA", nonce, ts, true, false}, {t1 + gap, "nodeA", nonce, ts, true, i%2 == 0}}
					if gap > 61*sec { // interleave other traffic so the lazy sweep runs: mid-way, and late
						// (shortly before the replay, in the last minute of the nonce's retention)
						for _, back := range []int64{gap / 2, 30 * sec, 1} {
							mid := t1 + gap - back
							runCase(st, []ev{evs[0], {mid, "nodeB", "x" + nonce, mid / sec, true, false}, evs[1]})
						}
						continue
					}
					runCase(st, evs)
				}
			}
		}
	}
	// (2) random histories: few senders/nonces so replays are frequent, times near the edges.
	for n := 0; n < nCases; n++ {
		st := vh.Pick(r, sites)
		tolSec := int64(time.Duration(st.tolNs).Seconds())
		now := base + int64(r.Intn(5000))*sec
		var evs []ev
		var hist []ev
		k := r.Range(2, 12)
		for j := 0; j < k; j++ {
			switch r.Intn(4) {
			case 0:
				now += int64(r.Intn(int(2 * sec)))
			case 1:
				now += int64(r.Intn(120)) * sec
			case 2:
				now += vh.Pick(r, []int64{st.ttlNs - 1, st.ttlNs, st.ttlNs + 1, tolSec * sec, 2*tolSec*sec + sec - 1, 2*tolSec*sec + sec})
			case 3:
			}
			var e ev
			if len(hist) > 0 && r.Chance(55) {
				e = vh.Pick(r, hist) // byte-for-byte replay
				e.now = now
				if r.Chance(10) {
					e.macOK = false
				}
				e.respell = r.Chance(30)
			} else {
				off := vh.Pick(r, []int64{-tolSec - 1, -tolSec, -tolSec + 1, -2, 0, 3, tolSec - 1, tolSec, tolSec + 1, int64(r.Intn(int(2*tolSec+1))) - tolSec})
				e = ev{now, vh.Pick(r, []string{"nodeA", "nodeB"}), fmt.Sprintf("n%d", r.Intn(4)), now/sec + off, !r.Chance(10), false}
			}
			evs = append(evs, e)
			hist = append(hist, e)
		}
		runCase(st, evs)
	}
	verifclock.Real()
	c.Finish("cases = (site, history of deliveries) — an edge grid over signed offset × sub-second phase × replay gap for every call site, plus random histories with frequent byte-for-byte replays; non-trivial = at least one delivery not accepted; distinct = distinct op text")
}
