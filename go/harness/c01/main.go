//go:build verif

// C01 harness: drives the REAL line-protocol parser (ParseBatchWithPrecision), BatchToColumnar and
// convertColumnsToTyped on batches rendered from a ground-truth point grammar (+ a malformed stream),
// prints canonical outputs for the Lean model diff, and monitors the property itself against the
// generator's ground truth.
package main

import (
	"bytes"
	"encoding/hex"
	"fmt"
	"math"
	"math/big"
	"os"
	"path/filepath"
	"sort"
	"strconv"
	"strings"
	"sync"
	"unicode/utf8"

	"github.com/basekick-labs/arc/internal/ingest"
	"github.com/basekick-labs/arc/internal/verif/vh"
	"github.com/basekick-labs/arc/internal/verifclock"
	"github.com/basekick-labs/arc/pkg/models"
)

// facts regenerated from the current source (factgen): whether the key/value separator is located
// escape-aware, and whether quoted string values are un-escaped with the string-only set (\" \\).
// They switch the corresponding hazard classes off: the inputs then belong to the clean class and
// every monitor applies to them.
var kvAware, strRawOK bool

const nowNs = int64(1_900_000_000_123_456_789)
const nowUs = nowNs / 1000

// ---------------------------------------------------------------- canonical text (mirrors Arc/Drive/C01.lean)

func hx(b []byte) string { return vh.Hex(b) }

func goVal(v interface{}) string {
	switch x := v.(type) {
	case float64:
		return fmt.Sprintf("f:%016x", math.Float64bits(x))
	case int64:
		return fmt.Sprintf("i:%d", x)
	case uint64:
		return fmt.Sprintf("u:%d", x)
	case string:
		return "s:" + hx([]byte(x))
	case bool:
		if x {
			return "b:1"
		}
		return "b:0"
	case nil:
		return "_"
	}
	return fmt.Sprintf("?%T", v)
}

func joinOr(sep string, xs []string) string {
	if len(xs) == 0 {
		return "-"
	}
	return strings.Join(xs, sep)
}

func sortedKeys[V any](m map[string]V) []string {
	ks := make([]string, 0, len(m))
	for k := range m {
		ks = append(ks, k)
	}
	sort.Strings(ks)
	return ks
}

func recordStr(r *models.Record) string {
	var ts, fs []string
	for _, k := range sortedKeys(r.Tags) {
		ts = append(ts, hx([]byte(k))+"="+hx([]byte(r.Tags[k])))
	}
	for _, k := range sortedKeys(r.Fields) {
		fs = append(fs, hx([]byte(k))+"="+goVal(r.Fields[k]))
	}
	return hx([]byte(r.Measurement)) + "|" + joinOr(",", ts) + "|" + joinOr(",", fs) + "|" + strconv.FormatInt(r.Timestamp, 10)
}

func batchStr(rs []*models.Record) string {
	xs := make([]string, len(rs))
	for i, r := range rs {
		xs[i] = recordStr(r)
	}
	return strconv.Itoa(len(rs)) + " " + joinOr(";", xs)
}

func colRecStr(c *models.ColumnarRecord) string {
	n := len(c.Columns["time"])
	tags := append([]string(nil), c.TagColumns...)
	sort.Strings(tags)
	for i := range tags {
		tags[i] = hx([]byte(tags[i]))
	}
	var cols []string
	for _, k := range sortedKeys(c.Columns) {
		cells := make([]string, len(c.Columns[k]))
		for i, v := range c.Columns[k] {
			cells[i] = goVal(v)
		}
		cols = append(cols, hx([]byte(k))+":["+strings.Join(cells, ",")+"]")
	}
	return "m=" + hx([]byte(c.Measurement)) + " n=" + strconv.Itoa(n) + " tags=" + joinOr(",", tags) + " cols=" + joinOr("/", cols)
}

func colStr(cm map[string]*models.ColumnarRecord) string {
	var xs []string
	for _, m := range sortedKeys(cm) {
		xs = append(xs, colRecStr(cm[m]))
	}
	return strconv.Itoa(len(cm)) + " " + joinOr(" ; ", xs)
}

func bitsStr(bs []bool) string {
	b := make([]byte, len(bs))
	for i, v := range bs {
		if v {
			b[i] = '1'
		} else {
			b[i] = '0'
		}
	}
	return string(b)
}

func typedRecStr(c *models.ColumnarRecord) (string, *ingest.TypedColumnBatch) {
	var tb *ingest.TypedColumnBatch
	out := vh.Guard(func() string {
		b, _, err := ingest.VerifC01ConvertColumnsToTyped(c.Measurement, c.Columns)
		if err != nil {
			return "err"
		}
		tb = b
		var cols []string
		for _, k := range sortedKeys(b.Data) {
			var d string
			switch arr := b.Data[k].(type) {
			case []int64:
				xs := make([]string, len(arr))
				for i, v := range arr {
					xs[i] = strconv.FormatInt(v, 10)
				}
				d = "i64:[" + strings.Join(xs, ",") + "]"
			case []float64:
				xs := make([]string, len(arr))
				for i, v := range arr {
					xs[i] = fmt.Sprintf("%016x", math.Float64bits(v))
				}
				d = "f64:[" + strings.Join(xs, ",") + "]"
			case []string:
				xs := make([]string, len(arr))
				for i, v := range arr {
					xs[i] = hx([]byte(v))
				}
				d = "str:[" + strings.Join(xs, ",") + "]"
			case []bool:
				d = "bool:[" + bitsStr(arr) + "]"
			default:
				d = fmt.Sprintf("?%T", arr)
			}
			va := "-"
			if v, ok := b.Validity[k]; ok {
				va = bitsStr(v)
			}
			cols = append(cols, hx([]byte(k))+":"+d+":"+va)
		}
		return "cols=" + joinOr("/", cols)
	})
	return "m=" + hx([]byte(c.Measurement)) + " " + out, tb
}

// ---------------------------------------------------------------- ground-truth points

type fval struct {
	kind byte   // 'f' 'i' 'u' 's' 'b'
	text string // literal as written (f: float literal, i/u: digits incl. suffix, b: spelling)
	f    uint64 // float bits
	i    int64
	u    uint64
	s    []byte
	b    bool
}

type kv struct{ k, v []byte }
type fkv struct {
	k []byte
	v fval
}

type point struct {
	meas   []byte
	tags   []kv
	fields []fkv
	hasTs  bool
	ts     int64
	// rendering choices (all legal line protocol)
	lead, trail string
	sp1, sp2    int
	rawBs       bool // render backslashes in string values raw where line protocol allows it
}

func escSet(s []byte, set string) []byte {
	var o []byte
	for _, c := range s {
		if strings.IndexByte(set, c) >= 0 {
			o = append(o, '\\')
		}
		o = append(o, c)
	}
	return o
}

// string field value: `"` and `\` are escaped; with rawBs a backslash that is not followed by `"` or
// `\` and is not last is written raw (line protocol: a lone backslash is literal).
func escStr(s []byte, rawBs bool) (out []byte, usedRaw bool, rawHazard bool) {
	for i, c := range s {
		switch c {
		case '"':
			out = append(out, '\\', '"')
		case '\\':
			if rawBs && i+1 < len(s) && s[i+1] != '"' && s[i+1] != '\\' {
				out = append(out, '\\')
				usedRaw = true
				if n := s[i+1]; n == ',' || n == ' ' || n == '=' {
					rawHazard = true
				}
			} else {
				out = append(out, '\\', '\\')
			}
		default:
			out = append(out, c)
		}
	}
	return
}

func (p *point) render() (line []byte, rawHazard bool) {
	var b []byte
	b = append(b, p.lead...)
	b = append(b, escSet(p.meas, ", ")...)
	for _, t := range p.tags {
		b = append(b, ',')
		b = append(b, escSet(t.k, ",= ")...)
		b = append(b, '=')
		b = append(b, escSet(t.v, ",= ")...)
	}
	b = append(b, strings.Repeat(" ", p.sp1)...)
	for i, f := range p.fields {
		if i > 0 {
			b = append(b, ',')
		}
		b = append(b, escSet(f.k, ",= ")...)
		b = append(b, '=')
		if f.v.kind == 's' {
			es, _, hz := escStr(f.v.s, p.rawBs)
			rawHazard = rawHazard || hz
			b = append(b, '"')
			b = append(b, es...)
			b = append(b, '"')
		} else {
			b = append(b, f.v.text...)
		}
	}
	if p.hasTs {
		b = append(b, strings.Repeat(" ", p.sp2)...)
		b = strconv.AppendInt(b, p.ts, 10)
	}
	b = append(b, p.trail...)
	return b, rawHazard
}

// expected timestamp: (value, kind) kind: "exact", "none" (no ts → now), "overflow" (not representable)
func expectTs(p *point, prec string) (trunc, floor int64, kind string) {
	if !p.hasTs {
		return nowUs, nowUs, "none"
	}
	v := big.NewInt(p.ts)
	switch prec {
	case "us":
		return p.ts, p.ts, "exact"
	case "ms", "s":
		k := int64(1000)
		if prec == "s" {
			k = 1000000
		}
		r := new(big.Int).Mul(v, big.NewInt(k))
		if !r.IsInt64() {
			return 0, 0, "overflow"
		}
		return r.Int64(), r.Int64(), "exact"
	default:
		q := new(big.Int).Quo(v, big.NewInt(1000)) // truncated
		f := new(big.Int).Div(v, big.NewInt(1000)) // Euclidean = floor for positive divisor
		return q.Int64(), f.Int64(), "exact"
	}
}

func (v fval) goValue() interface{} {
	switch v.kind {
	case 'f':
		return math.Float64frombits(v.f)
	case 'i':
		return v.i
	case 'u':
		return v.u
	case 's':
		return string(v.s)
	}
	return v.b
}

// hazards of a point: input classes for which a defect of the parser was confirmed / suspected.
type hazards struct {
	eqKey, quoteName, bsName, measLead, rawBs bool
}

func (h hazards) any() bool { return h.eqKey || h.quoteName || h.bsName || h.measLead || h.rawBs }

func startsWithSpaceRune(b []byte) bool {
	if len(b) == 0 {
		return false
	}
	r, _ := utf8.DecodeRune(b)
	switch r {
	case '\t', '\n', '\v', '\f', '\r', 0x85, 0xA0, 0x1680, 0x2028, 0x2029, 0x202f, 0x205f, 0x3000:
		return true
	}
	return r >= 0x2000 && r <= 0x200a
}

func (p *point) hazards(rawHazard bool) hazards {
	var h hazards
	names := [][]byte{p.meas}
	for _, t := range p.tags {
		names = append(names, t.k, t.v)
		if bytes.IndexByte(t.k, '=') >= 0 {
			h.eqKey = true
		}
	}
	for _, f := range p.fields {
		names = append(names, f.k)
		if bytes.IndexByte(f.k, '=') >= 0 {
			h.eqKey = true
		}
	}
	for _, n := range names {
		if bytes.IndexByte(n, '"') >= 0 {
			h.quoteName = true
		}
		if bytes.IndexByte(n, '\\') >= 0 {
			h.bsName = true
		}
	}
	h.measLead = p.meas[0] == '#' || startsWithSpaceRune(p.meas)
	h.rawBs = rawHazard && !strRawOK
	if kvAware {
		h.eqKey = false
	}
	return h
}

// matches compares a real record with the ground truth; tsNote reports the timestamp situation.
func matches(r *models.Record, p *point, prec string) (ok bool, why string, tsNote string) {
	if r.Measurement != string(p.meas) {
		return false, "measurement", ""
	}
	if len(r.Tags) != len(p.tags) {
		return false, "tag-count", ""
	}
	for _, t := range p.tags {
		if v, has := r.Tags[string(t.k)]; !has || v != string(t.v) {
			return false, "tag", ""
		}
	}
	if len(r.Fields) != len(p.fields) {
		return false, "field-count", ""
	}
	for _, f := range p.fields {
		v, has := r.Fields[string(f.k)]
		if !has || goVal(v) != goVal(f.v.goValue()) {
			return false, "field", ""
		}
	}
	tr, fl, kind := expectTs(p, prec)
	switch kind {
	case "overflow":
		if r.Timestamp == nowUs {
			return true, "", "ts-overflow-now"
		}
		return false, "timestamp-overflow", ""
	case "none":
		if r.Timestamp != nowUs {
			return false, "timestamp-default", ""
		}
		return true, "", "ts-absent-now"
	}
	if r.Timestamp == fl {
		if tr != fl {
			return true, "", "ts-ns-negative-floored"
		}
		return true, "", "ts-exact"
	}
	if r.Timestamp == tr {
		return true, "", "ts-ns-negative-truncated-toward-zero"
	}
	return false, "timestamp", ""
}

// ---------------------------------------------------------------- generators

type gen struct {
	r *vh.Rand
}

var plainAlpha = []byte("abcdefghijklmnopqrstuvwxyzABCDEFGHIJKLMNOPQRSTUVWXYZ0123456789_-")
var punct = []byte("!$%&'()*+./:;<>?@[]^`{|}~")
var utf8Pool = []string{"\u00e9", "\u00df", "\u03c0", "\u0436", "\u4e2d", "\u65e5\u672c", "\U0001F642", "\u20ac", "\u00a0", "\u3000", "\u2009", "\u00fc", "\u00f1", "\u0085", "\U0001D6D1", "\u2028"}

// name classes: 0 plain, 1 with , space =, 2 with ", 3 with \, 4 utf8, 5 punctuation, 6 everything
func (g *gen) name(class int, minLen, maxLen int) []byte {
	n := g.r.Range(minLen, maxLen)
	var b []byte
	for len(b) < n || len(b) == 0 {
		c := class
		if class != 0 && g.r.Chance(55) {
			c = 0
		}
		if class == 6 {
			c = g.r.Intn(6)
		}
		switch c {
		case 0:
			b = append(b, vh.Pick(g.r, plainAlpha))
		case 1:
			b = append(b, vh.Pick(g.r, []byte(", =")))
		case 2:
			b = append(b, '"')
		case 3:
			b = append(b, '\\')
		case 4:
			b = append(b, vh.Pick(g.r, utf8Pool)...)
		case 5:
			b = append(b, vh.Pick(g.r, punct))
		}
	}
	return b
}

// class picker for "names" (measurement, tag key/value, field key): mostly harmless, every hazard reachable
func (g *gen) nameClass(mode int) int {
	switch mode {
	case 0: // clean: no quote, no backslash ('=' allowed only where the caller permits)
		return vh.Pick(g.r, []int{0, 0, 0, 1, 1, 4, 5})
	case 1:
		return vh.Pick(g.r, []int{0, 1, 2, 3, 4, 5, 6})
	}
	return 0
}

func stripByte(b []byte, c byte) []byte {
	o := b[:0:0]
	for _, x := range b {
		if x != c {
			o = append(o, x)
		}
	}
	if len(o) == 0 {
		o = []byte("k")
	}
	return o
}

var tsEdges = []int64{0, 1, -1, 999, -999, 1000, -1000, 1001, -1001, -1999, -2000, 1500, -1500,
	math.MaxInt64, math.MinInt64, math.MaxInt64 - 1, math.MinInt64 + 1,
	math.MaxInt64 / 1000, math.MaxInt64/1000 + 1, math.MinInt64 / 1000, math.MinInt64/1000 - 1,
	math.MaxInt64 / 1000000, math.MaxInt64/1000000 + 1, math.MinInt64 / 1000000, math.MinInt64/1000000 - 1,
	1609459200000000000, 1609459200000000, 1609459200000, 1609459200, -1609459200123456789, -86400}

func (g *gen) ts() int64 {
	switch g.r.Intn(5) {
	case 0:
		return vh.Pick(g.r, tsEdges)
	case 1:
		return int64(g.r.U64()) // full int64 range incl. negatives
	case 2:
		return -int64(g.r.U64() >> uint(1+g.r.Intn(62)))
	case 3:
		return int64(g.r.U64() >> uint(1+g.r.Intn(62)))
	}
	return 1600000000000000000 + int64(g.r.Intn(1000000000))*int64(g.r.Range(1, 1000))
}

var floatLits = []string{"0", "1", "-1", "1.5", "-0.25", "90.5", "2.1", "1e5", "1E-3", "-2.5e+10", ".5", "5.", "-0", "+3.25",
	"1.7976931348623157e308", "4.9e-324", "2.2250738585072014e-308", "123456789.123456789", "0.1", "0.30000000000000004",
	"9007199254740993", "1e22", "1e23", "3.141592653589793", "-273.15", "100", "00012.5000", "1e-400", "6.02214076e23"}

func (g *gen) float() fval {
	var s string
	if g.r.Chance(50) {
		s = vh.Pick(g.r, floatLits)
	} else {
		var b strings.Builder
		if g.r.Chance(30) {
			b.WriteByte('-')
		}
		n := g.r.Range(1, 18)
		for i := 0; i < n; i++ {
			b.WriteByte(byte('0' + g.r.Intn(10)))
		}
		if g.r.Chance(60) {
			b.WriteByte('.')
			n := g.r.Range(0, 18)
			for i := 0; i < n; i++ {
				b.WriteByte(byte('0' + g.r.Intn(10)))
			}
		}
		if g.r.Chance(25) {
			b.WriteByte(vh.Pick(g.r, []byte("eE")))
			if g.r.Chance(50) {
				b.WriteByte(vh.Pick(g.r, []byte("+-")))
			}
			b.WriteString(strconv.Itoa(g.r.Intn(320)))
		}
		s = b.String()
	}
	f, err := strconv.ParseFloat(s, 64)
	if err != nil { // out of range: not a valid float literal for the generator
		s = "1.25"
		f = 1.25
	}
	return fval{kind: 'f', text: s, f: math.Float64bits(f)}
}

func (g *gen) intVal() fval {
	var v int64
	switch g.r.Intn(4) {
	case 0:
		v = vh.Pick(g.r, []int64{0, 1, -1, math.MaxInt64, math.MinInt64, 1 << 53, 1<<53 + 1, -(1<<53 + 1), 42})
	case 1:
		v = int64(g.r.U64())
	default:
		v = int64(g.r.Intn(2000)) - 1000
	}
	return fval{kind: 'i', text: strconv.FormatInt(v, 10) + "i", i: v}
}

func (g *gen) uintVal() fval {
	var v uint64
	switch g.r.Intn(4) {
	case 0:
		v = vh.Pick(g.r, []uint64{0, 1, math.MaxInt64, math.MaxInt64 + 1, math.MaxUint64, 1 << 53})
	case 1:
		v = g.r.U64()
	default:
		v = uint64(g.r.Intn(5000))
	}
	return fval{kind: 'u', text: strconv.FormatUint(v, 10) + "u", u: v}
}

var boolSpell = []string{"t", "T", "true", "True", "TRUE", "f", "F", "false", "False", "FALSE"}

func (g *gen) boolVal() fval {
	s := vh.Pick(g.r, boolSpell)
	return fval{kind: 'b', text: s, b: s[0] == 't' || s[0] == 'T'}
}

func (g *gen) strVal() fval {
	var b []byte
	switch g.r.Intn(6) {
	case 0:
		// empty
	case 1: // looks like other types
		b = []byte(vh.Pick(g.r, []string{"true", "t", "1i", "5u", "1.5", "\"", "\\", "a=b", "a,b", "a b", "#x", "\\\\", "\\\"", "x\\", "\\,", "\\ ", "\\=", "\"\"", ",", " ", "="}))
	default:
		n := g.r.Range(1, 12)
		for len(b) < n {
			switch g.r.Intn(8) {
			case 0:
				b = append(b, vh.Pick(g.r, []byte(", =")))
			case 1:
				b = append(b, '"')
			case 2:
				b = append(b, '\\')
			case 3:
				b = append(b, vh.Pick(g.r, utf8Pool)...)
			case 4:
				b = append(b, vh.Pick(g.r, punct))
			default:
				b = append(b, vh.Pick(g.r, plainAlpha))
			}
		}
	}
	return fval{kind: 's', s: b}
}

func (g *gen) valueOfKind(k byte) fval {
	switch k {
	case 'f':
		return g.float()
	case 'i':
		return g.intVal()
	case 'u':
		return g.uintVal()
	case 's':
		return g.strVal()
	}
	return g.boolVal()
}

// schema of one generated batch: measurement pool, per-measurement tag keys and typed field keys
type schema struct {
	meas   [][]byte
	tagK   [][]byte
	fieldK [][]byte
	fieldT []byte
}

// mode: 0 = clean names (inside every carve-out), 1 = any names (hazards allowed)
func (g *gen) schema(mode int) *schema {
	s := &schema{}
	used := map[string]bool{"time": true}
	fresh := func(allowEq bool) []byte {
		for {
			n := g.name(g.nameClass(mode), 1, 8)
			if mode == 0 {
				n = stripByte(stripByte(n, '"'), '\\')
				if !allowEq && !kvAware {
					n = stripByte(n, '=')
				}
			}
			if !used[string(n)] && !used[strings.TrimSuffix(string(n), "_value")] && !used[string(n)+"_value"] {
				used[string(n)] = true
				return n
			}
		}
	}
	for i := g.r.Range(1, 3); i > 0; i-- {
		m := fresh(true)
		if mode == 0 && (m[0] == '#' || startsWithSpaceRune(m)) {
			m = append([]byte("m"), m...)
		}
		s.meas = append(s.meas, m)
	}
	for i := g.r.Range(0, 4); i > 0; i-- {
		s.tagK = append(s.tagK, fresh(mode == 1 && g.r.Chance(30)))
	}
	for i := g.r.Range(1, 5); i > 0; i-- {
		s.fieldK = append(s.fieldK, fresh(mode == 1 && g.r.Chance(30)))
		s.fieldT = append(s.fieldT, vh.Pick(g.r, []byte("fffiiusb")))
	}
	return s
}

func (g *gen) point(s *schema, mode int, mixed bool) *point {
	p := &point{meas: vh.Pick(g.r, s.meas)}
	for _, k := range s.tagK {
		if g.r.Chance(65) {
			v := g.name(g.nameClass(mode), 1, 8)
			if mode == 0 {
				v = stripByte(stripByte(v, '"'), '\\')
			}
			p.tags = append(p.tags, kv{k, v})
		}
	}
	g.shuffleTags(p.tags)
	for i, k := range s.fieldK {
		if g.r.Chance(70) {
			t := s.fieldT[i]
			if mixed && g.r.Chance(35) {
				t = vh.Pick(g.r, []byte("fiusb"))
			}
			p.fields = append(p.fields, fkv{k, g.valueOfKind(t)})
		}
	}
	if len(p.fields) == 0 {
		p.fields = append(p.fields, fkv{s.fieldK[0], g.valueOfKind(s.fieldT[0])})
	}
	if g.r.Chance(70) {
		p.hasTs = true
		p.ts = g.ts()
	}
	p.sp1, p.sp2 = 1, 1
	if g.r.Chance(20) {
		p.sp1 = g.r.Range(1, 4)
		p.sp2 = g.r.Range(1, 4)
	}
	if g.r.Chance(15) {
		p.lead = vh.Pick(g.r, []string{" ", "  ", "\t", " \t "})
	}
	if g.r.Chance(20) {
		p.trail = vh.Pick(g.r, []string{" ", "\r", " \r", "\t", "  "})
	}
	p.rawBs = (mode == 1 || strRawOK) && g.r.Chance(40)
	return p
}

func (g *gen) shuffleTags(t []kv) {
	for i := len(t) - 1; i > 0; i-- {
		j := g.r.Intn(i + 1)
		t[i], t[j] = t[j], t[i]
	}
}

var malAlpha = []byte("a,= \"\\1i ut.-#e0_xTfn\t+\xc3\xa9\xffp")

func (g *gen) malformedLine() []byte {
	n := g.r.Range(0, 28)
	b := make([]byte, n)
	for i := range b {
		b[i] = vh.Pick(g.r, malAlpha)
	}
	return b
}

func (g *gen) mutate(line []byte) []byte {
	b := append([]byte(nil), line...)
	for k := g.r.Range(1, 3); k > 0 && len(b) > 0; k-- {
		i := g.r.Intn(len(b))
		switch g.r.Intn(5) {
		case 0:
			b[i] = vh.Pick(g.r, malAlpha)
		case 1:
			b = append(b[:i], b[i+1:]...)
		case 2:
			b = append(b[:i], append([]byte{vh.Pick(g.r, malAlpha)}, b[i:]...)...)
		case 3:
			b = b[:i]
		case 4:
			b[i] ^= byte(1 << uint(g.r.Intn(8)))
		}
	}
	return bytes.ReplaceAll(b, []byte("\n"), []byte("n"))
}

// ---------------------------------------------------------------- running one batch

type item struct {
	line []byte
	p    *point // nil for comment / blank / malformed lines
	hz   hazards
}

var precs = []string{"ns", "us", "ms", "s"}

func parseReal(data []byte, prec string) []*models.Record {
	return ingest.NewLineProtocolParser().ParseBatchWithPrecision(data, prec)
}

// nondeterministic column collisions (two record keys mapping to one column through "_value")
func colCollision(rs []*models.Record) bool {
	for _, r := range rs {
		seen := map[string]bool{"time": true}
		for k := range r.Tags {
			if seen[k] {
				return true
			}
			seen[k] = true
		}
		for k := range r.Fields {
			c := k
			if _, t := r.Tags[k]; t {
				c = k + "_value"
			}
			if seen[c] {
				return true
			}
			seen[c] = true
		}
	}
	return false
}

func runBatch(c *vh.Ctx, items []item, prec string, monitor bool, withCols bool) {
	var data []byte
	for i, it := range items {
		if i > 0 {
			data = append(data, '\n')
		}
		data = append(data, it.line...)
	}
	payload := hx(data)
	precTok := prec
	if precTok == "" {
		precTok = "-"
	}
	args := fmt.Sprintf("%s %d %s", precTok, nowUs, payload)
	var recs []*models.Record
	out := vh.Guard(func() string {
		recs = parseReal(data, prec)
		return batchStr(recs)
	})
	c.Op("batch "+args, out)
	nontriv := len(items) > 1
	var cm map[string]*models.ColumnarRecord
	if withCols && len(recs) > 0 && !colCollision(recs) {
		out := vh.Guard(func() string {
			cm = ingest.BatchToColumnar(recs)
			return colStr(cm)
		})
		c.Op("col "+args, out)
		var xs []string
		typedOK := true
		for _, m := range sortedKeys(cm) {
			s, tb := typedRecStr(cm[m])
			xs = append(xs, s)
			if tb == nil {
				typedOK = false
				c.Tag("typed:err")
			} else {
				c.Tag("typed:ok")
			}
		}
		c.Op("typed "+args, strconv.Itoa(len(cm))+" "+joinOr(" ; ", xs))
		_ = typedOK
	}
	c.Case(args, nontriv || strings.ContainsAny(string(data), "\\\","))
	if !monitor {
		return
	}
	// ---- property monitors against the generator's ground truth
	replay := func(line []byte) string {
		return fmt.Sprintf("ParseBatchWithPrecision(hex %s = %q, precision=%q)", hex.EncodeToString(line), string(line), prec)
	}
	// (1) per line: the point is parsed to exactly its denotation
	var expected []*point
	allClean := true
	for _, it := range items {
		one := parseReal(it.line, prec)
		if it.p == nil { // comment / blank line: must yield nothing
			if len(one) != 0 {
				c.Fail("comment-parsed", "a comment or blank line produced a record", replay(it.line))
			}
			continue
		}
		expected = append(expected, it.p)
		ok, why, tsNote := false, "dropped", ""
		if len(one) == 1 {
			ok, why, tsNote = matches(one[0], it.p, prec)
		} else if len(one) > 1 {
			why = "split"
		}
		if tsNote != "" {
			c.Tag(tsNote + ":" + prec)
		}
		h := it.hz
		if h.any() {
			allClean = false
		}
		if ok {
			c.Tag("point:ok")
			continue
		}
		c.Tag("point:mismatch:" + why)
		switch {
		case h.eqKey && !h.quoteName && !h.bsName && !h.measLead:
			c.Fail("key-escaped-equals:parseMeasurementTags/parseFields",
				"a tag or field key containing an escaped '=' is cut at the first '=' (bytes.IndexByte is escape-unaware): "+why,
				replay(it.line))
		case h.quoteName && !h.bsName && !h.measLead:
			c.Fail("quote-in-name:splitOnDelimiter",
				"a double quote inside a measurement, tag key/value or field key toggles quote mode in splitOnDelimiter, so following separators are ignored: "+why,
				replay(it.line))
		case h.rawBs && !h.eqKey && !h.quoteName && !h.bsName && !h.measLead:
			c.Fail("string-value-backslash-unescaped:unescape",
				"inside a string field value a literal backslash followed by ',', ' ' or '=' (literal in line protocol) is removed by unescape: "+why,
				replay(it.line))
		case h.bsName:
			c.Tag("observed:backslash-in-name-mismatch")
		case h.measLead:
			c.Tag("observed:measurement-leading-space-or-hash")
		default:
			c.Fail("unclassified-mismatch:"+why,
				"a well-formed point inside every carve-out was not parsed to its denotation: "+why, replay(it.line))
		}
	}
	if !allClean {
		return
	}
	// (2) batch: no drop / merge / split, order preserved
	if len(recs) != len(expected) {
		c.Fail("batch-structure:count", fmt.Sprintf("batch of %d valid points produced %d records", len(expected), len(recs)), replay(data))
		return
	}
	for i, r := range recs {
		if ok, why, _ := matches(r, expected[i], prec); !ok {
			c.Fail("batch-structure:order", "record "+strconv.Itoa(i)+" of the batch differs from point "+strconv.Itoa(i)+": "+why, replay(data))
			return
		}
	}
	if cm == nil {
		return
	}
	// (3) columnar grouping: per measurement, rows in order, cell by cell
	byMeas := map[string][]*point{}
	for _, p := range expected {
		byMeas[string(p.meas)] = append(byMeas[string(p.meas)], p)
	}
	if len(byMeas) != len(cm) {
		c.Fail("columnar:measurements", "BatchToColumnar produced a different set of measurements", replay(data))
		return
	}
	for m, ps := range byMeas {
		cr := cm[m]
		if cr == nil || len(cr.Columns["time"]) != len(ps) {
			c.Fail("columnar:rows", "BatchToColumnar row count differs for a measurement", replay(data))
			return
		}
		cols := map[string]bool{"time": true}
		for i, p := range ps {
			want := map[string]string{}
			tr, fl, kind := expectTs(p, prec)
			got := goVal(cr.Columns["time"][i])
			if kind == "exact" && got != goVal(tr) && got != goVal(fl) {
				c.Fail("columnar:cell", "time cell differs", replay(data))
			}
			for _, t := range p.tags {
				want[string(t.k)] = goVal(string(t.v))
			}
			for _, f := range p.fields {
				want[string(f.k)] = goVal(f.v.goValue())
			}
			for k := range want {
				cols[k] = true
			}
			for k, col := range cr.Columns {
				if k == "time" {
					continue
				}
				w, has := want[k]
				if !has {
					w = "_"
				}
				if goVal(col[i]) != w {
					c.Fail("columnar:cell", fmt.Sprintf("column %q row %d: got %s want %s", k, i, goVal(col[i]), w), replay(data))
					return
				}
			}
		}
		if len(cols) != len(cr.Columns) {
			c.Fail("columnar:columns", "column set differs from the union of tag and field keys", replay(data))
			return
		}
		// (4) typed conversion: values and null positions preserved; silent lossy coercions flagged
		tb, _, err := ingest.VerifC01ConvertColumnsToTyped(m, cr.Columns)
		if err != nil {
			c.Tag("typed-monitor:rejected")
			continue
		}
		for k, col := range cr.Columns {
			if k == "time" {
				continue
			}
			valid := tb.Validity[k]
			for i, cell := range col {
				isValid := valid == nil || valid[i]
				if (cell != nil) != isValid {
					c.Fail("typed:null-position", fmt.Sprintf("column %q row %d: null position changed", k, i), replay(data))
					return
				}
				if cell == nil {
					continue
				}
				var stored string
				switch arr := tb.Data[k].(type) {
				case []int64:
					stored = goVal(arr[i])
				case []float64:
					stored = goVal(arr[i])
				case []string:
					stored = goVal(arr[i])
				case []bool:
					stored = goVal(arr[i])
				}
				orig := goVal(cell)
				if stored == orig {
					continue
				}
				// uint64 ≤ MaxInt64 stored in an int64 column: same integer
				if u, ok := cell.(uint64); ok && stored == goVal(int64(u)) && u <= math.MaxInt64 {
					c.Tag("typed:uint-as-int64")
					continue
				}
				// exact int → float widening
				if f, ok := tb.Data[k].([]float64); ok {
					bf := new(big.Float).SetFloat64(f[i])
					switch x := cell.(type) {
					case int64:
						if bf.Cmp(new(big.Float).SetInt64(x)) == 0 {
							c.Tag("typed:int-widened-to-float-exact")
							continue
						}
					case uint64:
						if bf.Cmp(new(big.Float).SetUint64(x)) == 0 {
							c.Tag("typed:int-widened-to-float-exact")
							continue
						}
					}
				}
				c.Fail("mixed-type-coerced-lossy:convertColumnsToTyped",
					fmt.Sprintf("field %q has different types in two points of one batch; the write is accepted and value %s is silently stored as %s", k, orig, stored),
					replay(data))
			}
		}
	}
}

// ---------------------------------------------------------------- concurrency stage
//
// LineProtocolHandler builds ONE parser (`parser: ingest.NewLineProtocolParser()`, checked by factgen)
// and every request goroutine calls h.parser.ParseBatchWithPrecision on it. The property is about each
// request, so the parser must behave as a pure function of its input also when 2..8 requests are
// parsed at the same time. Here the same kind of shared instance is driven from G goroutines with
// escape-heavy batches; every result must equal the sequential parse of the same bytes (which the
// Lean model vouches for through the ordinary `batch` op).

func (g *gen) escapeHeavyBatch(tag byte) []byte {
	var data []byte
	mark := func(b []byte) []byte { return append(b, tag) } // make the batches of two workers differ
	for l := g.r.Range(2, 6); l > 0; l-- {
		p := &point{meas: mark(g.name(1, 6, 30)), sp1: 1, sp2: 1}
		used := map[string]bool{"time": true}
		key := func() []byte {
			for {
				k := mark(g.name(1, 6, 30))
				if kvAware || bytes.IndexByte(k, '=') < 0 {
					if !used[string(k)] {
						used[string(k)] = true
						return k
					}
				}
			}
		}
		for t := g.r.Range(1, 4); t > 0; t-- {
			p.tags = append(p.tags, kv{key(), mark(g.name(1, 6, 30))})
		}
		for f := g.r.Range(1, 4); f > 0; f-- {
			p.fields = append(p.fields, fkv{key(), g.valueOfKind(vh.Pick(g.r, []byte("fisb")))})
		}
		if g.r.Chance(60) {
			p.hasTs, p.ts = true, g.ts()
		}
		line, _ := p.render()
		if len(data) > 0 {
			data = append(data, '\n')
		}
		data = append(data, line...)
	}
	return data
}

func concurrencyStage(c *vh.Ctx, g *gen, rounds, iters int) {
	shared := ingest.NewLineProtocolParser() // what NewLineProtocolHandler stores in h.parser
	for round := 0; round < rounds; round++ {
		G := g.r.Range(2, 8)
		prec := vh.Pick(g.r, precs)
		batches := make([][]byte, G)
		want := make([]string, G)
		for i := range batches {
			batches[i] = g.escapeHeavyBatch(byte('A' + i))
			want[i] = batchStr(shared.ParseBatchWithPrecision(batches[i], prec)) // sequential reference
			c.Op(fmt.Sprintf("batch %s %d %s", prec, nowUs, hx(batches[i])), want[i])
		}
		type diff struct {
			worker, iter int
			got         string
		}
		var mu sync.Mutex
		var first *diff
		var wg sync.WaitGroup
		start := make(chan struct{})
		for w := 0; w < G; w++ {
			wg.Add(1)
			go func(w int) {
				defer wg.Done()
				<-start
				for it := 0; it < iters; it++ {
					got := vh.Guard(func() string { return batchStr(shared.ParseBatchWithPrecision(batches[w], prec)) })
					if got != want[w] {
						mu.Lock()
						if first == nil {
							first = &diff{w, it, got}
						}
						mu.Unlock()
						return
					}
				}
			}(w)
		}
		close(start)
		wg.Wait()
		c.Tag(fmt.Sprintf("concurrent:goroutines=%d", G))
		c.Case(fmt.Sprintf("concurrent %d %s %s", G, prec, hx(bytes.Join(batches, []byte{0}))), true)
		if first != nil {
			var hs []string
			for _, b := range batches {
				hs = append(hs, hex.EncodeToString(b))
			}
			got := first.got
			if len(got) > 300 {
				got = got[:300] + "…"
			}
			c.Fail("concurrent-parse-differs:shared-parser",
				fmt.Sprintf("one shared LineProtocolParser (as LineProtocolHandler holds it) parsing %d requests at the same time: request %d (iteration %d) was parsed differently from the sequential parse of the same bytes — the parser carries state between/among calls", G, first.worker, first.iter),
				fmt.Sprintf("shared := ingest.NewLineProtocolParser(); %d goroutines, goroutine i loops shared.ParseBatchWithPrecision(batch[i], %q); batches (hex): %s ; goroutine %d got %s", G, prec, strings.Join(hs, " | "), first.worker, got))
			return
		}
	}
}

// ---------------------------------------------------------------- corpus of hand-written edge lines

var corpus = []string{
	"cpu,host=server01,region=us-west usage_idle=90.5,usage_system=2.1 1609459200000000000",
	"temperature,sensor=bedroom temp=22.5",
	"http_requests,method=GET,status=200 count=1i",
	"m,a\\=b=c f=1",
	"m f\\=g=1",
	"m,k=a\\=b f=1",
	"m,k=a\"b f=1 5",
	"m\"x,k=v f=1 5",
	"m,k=\"v\" f=1 5",
	"m f=\"a\\,b\"",
	"m f=\"a\\\\,b\"",
	"m f=\"a\\ b\",g=\"x\\=y\"",
	"m f=\"say \\\"hi\\\"\"",
	"m,k=v\\\\ f=1",
	"m,k\\\\=v f=1",
	"m,k=a\\\\b f=1",
	"m,k=a\\\"b f=1",
	"m f=1 -1",
	"m f=1 -999",
	"m f=1 -1000",
	"m f=1 -1001",
	"m f=1 9223372036854775807",
	"m f=1 -9223372036854775808",
	"m f=1 9223372036854775808",
	"m f=1 abc",
	"m f=1   7  8 9",
	"m f=1i,g=1.5,h=2u,s=\"x\",b=T 1",
	"m f=1i\nm f=1.5",
	"m f=1.5\nm f=1i",
	"m f=9007199254740993i\nm f=0.5",
	"m f=0.5\nm f=9007199254740993i",
	"m f=18446744073709551615u",
	"m f=\"x\"\nm f=1",
	"m f=tRuE,g=FALSE,h=fAlSe",
	"m f=inf,g=nan,h=-Infinity,i=0x1p-2,j=1_000",
	"m f=\"unterminated",
	"m f=\"\"",
	"m f=\"",
	"m f=1i2,g=-i,h=u,i=+5i,j=-0u",
	" # comment",
	"#c\n\n  \nm f=1\r\nm2 f=2\r",
	",a=b f=1",
	"m, f=1",
	"m,=v f=1",
	"m,k= f=1",
	"m =1",
	"m f=",
	"m f",
	"m",
	"m,a=1 a=2,a_value=3",
	"m,time=x time=5 9",
	" m f=1",
	"m\\ x,k\\ y=v\\,w a\\ b=1,c\\,d=2 3",
	"m f=1\\",
	"m\\",
	"m f=\"\\",
	"m,t=\xff f=\"\xff\xfe\" 1",
	"m f=\"\xe2\x82\" 1",
}

func readCorpusDir(dir string) ([][]byte, error) {
	ents, err := os.ReadDir(dir)
	if err != nil {
		return nil, err
	}
	var out [][]byte
	for _, e := range ents {
		if !strings.HasSuffix(e.Name(), ".lp") { // the directory also holds proposed fix diffs
			continue
		}
		if b, err := os.ReadFile(filepath.Join(dir, e.Name())); err == nil {
			out = append(out, bytes.ReplaceAll(bytes.TrimRight(b, "\n"), []byte("\n"), []byte(" ")))
		}
	}
	return out, nil
}

func main() {
	c := vh.Start()
	if v, ok := c.Facts["kv_cut_escape_aware"].(bool); ok {
		kvAware = v
	}
	if set, ok := c.Facts["string_unescape_set"].([]any); ok {
		strRawOK = true
		for _, x := range set {
			if n, _ := x.(float64); n == ',' || n == ' ' || n == '=' {
				strRawOK = false
			}
		}
	}
	c.Extra["kv_cut_escape_aware"] = kvAware
	c.Extra["string_value_raw_backslash_ok"] = strRawOK
	verifclock.Set(nowNs)
	g := &gen{r: vh.NewRand(c.Seed)}
	lines := c.N
	if lines == 0 {
		lines = 20000
		if c.Thorough() {
			lines = 1200000
		}
	}

	// (0) corpus, every precision
	for _, s := range corpus {
		for _, prec := range precs {
			its := []item{}
			for _, l := range strings.Split(s, "\n") {
				its = append(its, item{line: []byte(l)})
			}
			runBatch(c, its, prec, false, true)
		}
	}
	for _, prec := range []string{"", "bogus", "u"} { // default arm of the precision switch
		runBatch(c, []item{{line: []byte("m f=1 -1500")}}, prec, false, false)
	}
	if fs, err := readCorpusDir("/verif/corpus/C01"); err == nil {
		for _, b := range fs {
			runBatch(c, []item{{line: b}}, "ns", false, true)
		}
	}

	// (0b) minimal ground-truth witnesses of every confirmed finding class, so that the replay kept per
	// key is the smallest one and every class is exercised on every run
	one := func(k string, v fval) []fkv { return []fkv{{[]byte(k), v}} }
	i1 := fval{kind: 'i', text: "1i", i: 1}
	f15 := fval{kind: 'f', text: "1.5", f: math.Float64bits(1.5)}
	wit := []*point{
		{meas: []byte("m"), tags: []kv{{[]byte("a=b"), []byte("c")}}, fields: one("f", i1)},                          // m,a\=b=c f=1i
		{meas: []byte("m"), fields: one("f=g", i1)},                                                                    // m f\=g=1i
		{meas: []byte("m"), tags: []kv{{[]byte("k"), []byte("a\"b")}}, fields: one("f", i1), hasTs: true, ts: 5},      // m,k=a"b f=1i 5
		{meas: []byte("m\"x"), fields: one("f", i1), hasTs: true, ts: 5},                                              // m"x f=1i 5
		{meas: []byte("m"), fields: []fkv{{[]byte("a\"b"), i1}, {[]byte("c"), i1}}, hasTs: true, ts: 5},                // m a"b=1i,c=1i 5
		{meas: []byte("m"), fields: one("f", fval{kind: 's', s: []byte("a\\,b")}), rawBs: true},                        // m f="a\,b"
		{meas: []byte("m"), fields: one("f", fval{kind: 's', s: []byte("a\\ b")}), rawBs: true},                        // m f="a\ b"
		{meas: []byte("m"), tags: []kv{{[]byte("k"), []byte("a\\\\b")}}, fields: one("f", i1)},                        // observation: m,k=a\\b
		{meas: []byte("m"), tags: []kv{{[]byte("k"), []byte("a\\\"b")}}, fields: one("f", i1)},                         // observation: m,k=a\"b
		{meas: []byte("\u00a0m"), fields: one("f", i1)},                                                                // observation: leading NBSP
	}
	for _, p := range wit {
		p.sp1, p.sp2 = 1, 1
		l, rh := p.render()
		for _, prec := range []string{"ns"} {
			runBatch(c, []item{{line: l, p: p, hz: p.hazards(rh)}}, prec, true, true)
		}
	}
	{ // mixed types in one batch: 1i then 1.5 (lossy), 1.5 then 1i (widened)
		a := &point{meas: []byte("m"), fields: one("f", i1), sp1: 1, sp2: 1}
		b := &point{meas: []byte("m"), fields: one("f", f15), sp1: 1, sp2: 1}
		la, _ := a.render()
		lb, _ := b.render()
		runBatch(c, []item{{line: la, p: a}, {line: lb, p: b}}, "ns", true, true)
		runBatch(c, []item{{line: lb, p: b}, {line: la, p: a}}, "ns", true, true)
	}

	// (1) timestamp grid: every edge × every precision, clean point
	for _, t := range tsEdges {
		for _, prec := range precs {
			p := &point{meas: []byte("m"), fields: []fkv{{[]byte("f"), fval{kind: 'i', text: "1i", i: 1}}}, hasTs: true, ts: t, sp1: 1, sp2: 1}
			l, _ := p.render()
			runBatch(c, []item{{line: l, p: p}}, prec, true, false)
		}
	}

	produced := 0
	for produced < lines {
		prec := vh.Pick(g.r, precs)
		switch k := g.r.Intn(10); {
		case k < 5: // clean batches (inside every carve-out): all monitors
			s := g.schema(0)
			n := 1
			if g.r.Chance(60) {
				n = g.r.Range(2, 12)
			}
			mixed := g.r.Chance(12)
			var its []item
			for i := 0; i < n; i++ {
				p := g.point(s, 0, mixed)
				l, rh := p.render()
				its = append(its, item{line: l, p: p, hz: p.hazards(rh)})
				if g.r.Chance(10) {
					its = append(its, item{line: []byte(vh.Pick(g.r, []string{"", "  ", "# a comment, with=stuff \"q", "\t#x", "\r"}))})
				}
			}
			if mixed {
				c.Tag("batch:mixed-types")
			}
			c.Tag("batch:clean")
			runBatch(c, its, prec, true, true)
			produced += len(its)
		case k < 8: // hazard points, one per batch so that each replay is minimal
			s := g.schema(1)
			p := g.point(s, 1, false)
			l, rh := p.render()
			c.Tag("batch:hazard")
			runBatch(c, []item{{line: l, p: p, hz: p.hazards(rh)}}, prec, true, g.r.Chance(30))
			produced++
		case k < 9: // mutated valid lines (correspondence only)
			s := g.schema(g.r.Intn(2))
			n := g.r.Range(1, 4)
			var its []item
			for i := 0; i < n; i++ {
				p := g.point(s, 1, false)
				l, _ := p.render()
				its = append(its, item{line: g.mutate(l)})
			}
			c.Tag("batch:mutated")
			runBatch(c, its, prec, false, true)
			produced += n
		default: // raw malformed
			n := g.r.Range(1, 3)
			var its []item
			for i := 0; i < n; i++ {
				its = append(its, item{line: g.malformedLine()})
			}
			c.Tag("batch:malformed")
			runBatch(c, its, prec, false, true)
			produced += n
		}
	}
	// (last) the shared-parser concurrency stage
	if c.Thorough() {
		concurrencyStage(c, g, 300, 400)
	} else {
		concurrencyStage(c, g, 40, 300)
	}
	// (last) end-to-end: request sequences → ArrowBuffer → FlushAll → Parquet read-back
	if c.Thorough() {
		e2eStage(c, g, 1500)
	} else {
		e2eStage(c, g, 120)
	}
	verifclock.Real()
	c.Extra["lines"] = produced
	c.Finish("cases = batches (1..12 lines) rendered from ground-truth points of the line-protocol grammar (all escapes, UTF-8, 5 field types, every boolean spelling, timestamps over int64 incl. min/max/negatives × 4 precisions, legal spacing, comments, blank lines, CRLF) + hazard-class points + mutated and raw malformed lines; non-trivial = multi-line or containing an escape/quote/comma; distinct = distinct (precision, payload)")
}
